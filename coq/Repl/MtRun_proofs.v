(* C12 end to end, H2 (b, c), over whole-system runs: the invariant of `Sys.run (sys_init cfg n) script` that ties
   the client's `ServerMutateTicks` and its `MutateTickReceived` events to the mutate messages the server sent
   to it in the current session (ghost: Repl/MtRunSpec.v).
   Premises on the script: [sessions_ok] (Repl/StructE2ESess_proofs.v: after a session end the client notices the
   disconnect before it is connected again), fewer than 2^31 ticking server frames, [parts_small] (the proposed
   partitions have fewer than 2^64 parts).  Neither legality of the script nor the absence of `SMap` is needed. *)
From RV Require Import Lib.Res Repl.ClientTicks Repl.ClientTicks_proofs Repl.World Vis.Visibility Repl.Server Repl.ServerSpec
  Repl.Server_proofs Repl.Client Repl.Sys
  Tick.RepliconTick Tick.RepliconTick_proofs Tick.ConfirmHistory Tick.ConfirmHistory_proofs Tick.MutateTicks Tick.MutateTicks_proofs Tick.TickSpec
  Repl.Client_proofs Repl.ClientEnt_proofs Repl.ClientMut_proofs Repl.ClientSys_proofs Repl.ClientStructSpec Repl.ClientStruct_proofs
  Repl.ClientHist_proofs Repl.Session_proofs Repl.StructE2EMut_proofs Repl.StructE2ESess_proofs
  Repl.MtRunSrv_proofs Repl.HistRun_proofs Repl.MtRunSpec Repl.MtRunCli_proofs.
From Coq Require Import ZifyBool ZifyN Permutation.
Open Scope N_scope.
Ltac Zify.zify_post_hook ::= Z.div_mod_to_equations.
Arguments N.add : simpl never. Arguments N.mul : simpl never. Arguments N.pow : simpl never.
Arguments N.ltb : simpl never. Arguments N.leb : simpl never. Arguments N.div : simpl never.
Arguments N.modulo : simpl never. Arguments N.sub : simpl never. Arguments N.eqb : simpl never.

(* ================================================================== *)
(* 1. the run with its ghost                                          *)
(* ================================================================== *)

Lemma mrun_app s1 : forall y G s2,
  mrun y G (s1 ++ s2) = let* (y1, G1) := mrun y G s1 in mrun y1 G1 s2.
Proof.
  induction s1 as [|st t IH]; intros y G s2; cbn [app mrun bind]; [reflexivity|].
  destruct (sys_step y st) as [[y' o]| |]; cbn [bind]; [apply IH|reflexivity|reflexivity].
Qed.

Lemma mrun_run script : forall y G y' G', mrun y G script = Ok (y', G') -> run y script = Ok y'.
Proof.
  induction script as [|st t IH]; intros y G y' G' H; cbn [mrun run] in *.
  - inversion H; reflexivity.
  - destruct (sys_step y st) as [[y1 o]| |]; cbn [bind] in *; try discriminate. exact (IH _ _ _ _ H).
Qed.

Lemma run_mrun script : forall y G y', run y script = Ok y' -> exists G', mrun y G script = Ok (y', G').
Proof.
  induction script as [|st t IH]; intros y G y' H; cbn [mrun run] in *.
  - inversion H; subst. eexists; reflexivity.
  - destruct (sys_step y st) as [[y1 o]| |]; cbn [bind] in *; try discriminate. exact (IH _ _ _ H).
Qed.

(* ================================================================== *)
(* 2. counting messages of a tick                                     *)
(* ================================================================== *)

Lemma count_tick_app T a b : count_tick T (a ++ b) = (count_tick T a + count_tick T b)%nat.
Proof. unfold count_tick. rewrite filter_app, app_length. reflexivity. Qed.

Lemma filter_perm {A} (p : A -> bool) l l' : Permutation l l' -> Permutation (filter p l) (filter p l').
Proof.
  induction 1 as [|x l l' _ IH|x y l|l l' l'' _ IH1 _ IH2]; cbn [filter].
  - constructor.
  - destruct (p x); [apply perm_skip|]; exact IH.
  - destruct (p x), (p y); try apply Permutation_refl. apply perm_swap.
  - eapply Permutation_trans; eassumption.
Qed.

Lemma count_tick_perm T l l' : Permutation l l' -> count_tick T l = count_tick T l'.
Proof. intros H. unfold count_tick. apply Permutation_length. apply filter_perm. exact H. Qed.

Lemma count_tick_none T l : (forall m, In m l -> m_tick m <> T) -> count_tick T l = 0%nat.
Proof.
  intros H. unfold count_tick. induction l as [|a t IH]; [reflexivity|]. cbn [filter]. unfold of_tick at 1.
  destruct (m_tick a =? T) eqn:E; [exfalso; apply (H a (or_introl eq_refl)); lia|].
  apply IH. intros m Hm. apply H. right. exact Hm.
Qed.

Lemma count_tick_all T l : (forall m, In m l -> m_tick m = T) -> count_tick T l = length l.
Proof.
  intros H. unfold count_tick. induction l as [|a t IH]; [reflexivity|]. cbn [filter]. unfold of_tick at 1.
  rewrite (H a (or_introl eq_refl)), N.eqb_refl. cbn [length]. f_equal. apply IH. intros m Hm. apply H. right. exact Hm.
Qed.

Lemma count_tick_in T l m : In m l -> m_tick m = T -> (1 <= count_tick T l)%nat.
Proof.
  intros Hin Ht. unfold count_tick. assert (Hf : In m (filter (of_tick T) l)) by (apply filter_In; split; [exact Hin|unfold of_tick; lia]).
  destruct (filter (of_tick T) l); [destruct Hf|cbn; lia].
Qed.

Lemma count_tick_zero_none T l m : count_tick T l = 0%nat -> In m l -> m_tick m <> T.
Proof. intros H0 Hin Ht. pose proof (count_tick_in T l m Hin Ht). lia. Qed.

(* ================================================================== *)
(* 3. the invariant                                                   *)
(* ================================================================== *)

Definition clean_st (s : server) (slot : N) (g : mghost) (c : client) (lmut : list mutate_msg) : Prop :=
  cl_status c = Disconnected /\ cl_last_not_disconnected c = false /\ lmut = [] /\ ~ In slot (slots_of s) /\ mg_lost g = [].
Definition left_st (s : server) (slot : N) (g : mghost) (c : client) (lmut : list mutate_msg) : Prop :=
  cl_status c = Disconnected /\ lmut = [] /\ ~ In slot (slots_of s) /\ mg_lost g = [].
Definition live_st (s : server) (slot : N) (g : mghost) (c : client) (lmut : list mutate_msg) : Prop :=
  cl_status c = Connected /\ sv_running s = true /\ In slot (slots_of s) /\ live_ok g c lmut.

Definition mode_ok (mode : smode) (s : server) (slot : N) (g : mghost) (c : client) (lmut : list mutate_msg) : Prop :=
  match mode with
  | MClean => clean_st s slot g c lmut
  | MLive => clean_st s slot g c lmut \/ live_st s slot g c lmut
  | MLeft => left_st s slot g c lmut
  | MStale => True
  end.

Definition slot_ok (track : bool) (mode : smode) (s : server) (slot : N) (g : mghost) (c : client) (lmut : list mutate_msg) : Prop :=
  replay_ok track c g /\ fresh_ok c g /\ (cl_status c = Disconnected -> cl_inbox_mut c = []) /\ mode_ok mode s slot g c lmut.

Section MtRun.
  Variables (cfg0 : cfg) (nclients : N).
  Notation track := (cfg_track cfg0).

  Record m_inv (script : list step) (y : sys) (G : mghosts) : Prop := mkMInv {
    mi_cfg : y_cfg y = cfg0;
    mi_nodup : NoDup (slots_of (y_server y));
    mi_tick : sv_tick (y_server y) <= tick_frames script;
    mi_norec : forall slot, ~ In slot (slots_of (y_server y)) -> mg_sent (G slot) = [];
    mi_before : forall slot m, In m (mg_sent (G slot)) ->
                if sv_dirty (y_server y) then m_tick m < sv_tick (y_server y) else m_tick m <= sv_tick (y_server y);
    mi_proto : forall slot, srv_proto track (mg_sent (G slot));
    mi_slots : forall slot c, al_get slot (y_clients y) = Some c ->
               slot_ok track (mode_of script slot) (y_server y) slot (G slot) c (l_mut (get_link y slot))
  }.

  (* the parts of a client the invariant reads *)
  Definition cl_mt_eq (c c' : client) : Prop :=
    cl_status c' = cl_status c /\ cl_last_not_disconnected c' = cl_last_not_disconnected c /\
    cl_inbox_mut c' = cl_inbox_mut c /\ cl_buffered c' = cl_buffered c /\ cl_mticks c' = cl_mticks c.

  Lemma cl_mt_eq_refl c : cl_mt_eq c c.
  Proof. repeat split. Qed.

  Lemma mode_ok_ext mode s s' slot g c c' lmut :
    cl_mt_eq c c' -> (sv_running s = true -> sv_running s' = true) -> (In slot (slots_of s') <-> In slot (slots_of s)) ->
    mode_ok mode s slot g c lmut -> mode_ok mode s' slot g c' lmut.
  Proof.
    intros (E1 & E2 & E3 & E4 & E5) Er Es.
    assert (Hc : clean_st s slot g c lmut -> clean_st s' slot g c' lmut).
    { intros (A1 & A2 & A3 & A4 & A5). unfold clean_st. rewrite E1, E2, Es. auto. }
    assert (Hl : live_st s slot g c lmut -> live_st s' slot g c' lmut).
    { intros (A1 & A2 & A3 & A4). unfold live_st, live_ok in *. rewrite E1, E3, E4, Es. auto. }
    destruct mode; cbn [mode_ok]; [exact Hc|intros [H|H]; [left; exact (Hc H)|right; exact (Hl H)]| |auto].
    intros (A1 & A2 & A3 & A4). unfold left_st. rewrite E1, Es. auto.
  Qed.

  Lemma slot_ok_ext mode s s' slot g c c' lmut :
    cl_mt_eq c c' -> (sv_running s = true -> sv_running s' = true) -> (In slot (slots_of s') <-> In slot (slots_of s)) ->
    slot_ok track mode s slot g c lmut -> slot_ok track mode s' slot g c' lmut.
  Proof.
    intros Hq Er Es (H1 & H2 & H3 & H4). pose proof Hq as (E1 & E2 & E3 & E4 & E5).
    split; [unfold replay_ok in *; rewrite E5; exact H1|]. split; [unfold fresh_ok in *; rewrite E2, E4; exact H2|].
    split; [rewrite E1, E3; exact H3|]. exact (mode_ok_ext mode s s' slot g c c' lmut Hq Er Es H4).
  Qed.

  (* a step to another mode that only needs the weaker state *)
  Lemma mode_ok_clean_live s slot g c lmut : mode_ok MClean s slot g c lmut -> mode_ok MLive s slot g c lmut.
  Proof. intros H. left. exact H. Qed.

  Lemma al_get_init_clients slot c :
    al_get slot (y_clients (sys_init cfg0 nclients)) = Some c -> c = client_init track.
  Proof.
    unfold sys_init. cbn [y_clients]. generalize (map N.of_nat (seq 0 (N.to_nat nclients))) as l.
    induction l as [|a t IH]; cbn [map al_get]; [discriminate|]. destruct (a =? slot); [intros H; inversion H; reflexivity|exact IH].
  Qed.

  Lemma get_link_init slot : get_link (sys_init cfg0 nclients) slot = link_empty.
  Proof.
    unfold get_link, sys_init. cbn [y_links]. generalize (map N.of_nat (seq 0 (N.to_nat nclients))) as l.
    induction l as [|a t IH]; cbn [map al_get]; [reflexivity|]. destruct (a =? slot); [reflexivity|exact IH].
  Qed.

  Lemma m_inv_init : m_inv [] (sys_init cfg0 nclients) mgs_empty.
  Proof.
    constructor.
    - reflexivity.
    - constructor.
    - cbn. lia.
    - reflexivity.
    - intros slot m [].
    - intros slot m [].
    - intros slot c Hc. rewrite (al_get_init_clients slot c Hc), get_link_init.
      split; [|split; [|split]].
      + unfold replay_ok, client_init. cbn [cl_mticks mgs_empty mg_empty mg_appl mg_evs]. destruct track.
        * split; [reflexivity|]. exists []. split; reflexivity.
        * split; reflexivity.
      + intros _. repeat split.
      + reflexivity.
      + cbn [mode_of fold_left mode_ok]. repeat split. intros [].
  Qed.

  (* ---------- steps that leave the ghost alone ---------- *)

  Lemma tick_frames_le script st : tick_frames script <= tick_frames (script ++ [st]).
  Proof. rewrite tick_frames_snoc. destruct (is_tick_frame st); lia. Qed.

  Lemma m_inv_same_sent script st y y' G G' :
    m_inv script y G ->
    (forall slot, mg_sent (G' slot) = mg_sent (G slot)) ->
    y_cfg y' = cfg0 -> NoDup (slots_of (y_server y')) ->
    sv_tick (y_server y') = sv_tick (y_server y) -> sv_dirty (y_server y') = sv_dirty (y_server y) ->
    (forall slot, In slot (slots_of (y_server y)) -> In slot (slots_of (y_server y'))) ->
    (forall slot c', al_get slot (y_clients y') = Some c' ->
       slot_ok track (mode_of (script ++ [st]) slot) (y_server y') slot (G' slot) c' (l_mut (get_link y' slot))) ->
    m_inv (script ++ [st]) y' G'.
  Proof.
    intros [I1 I2 I3 I4 I5 I6 I7] Hs H1 H2 H3 H4 H5 H6. constructor.
    - exact H1.
    - exact H2.
    - rewrite H3. pose proof (tick_frames_le script st). lia.
    - intros slot Hn. rewrite Hs. apply I4. intros Hin. apply Hn. apply H5. exact Hin.
    - intros slot m Hm. rewrite Hs in Hm. rewrite H3, H4. exact (I5 slot m Hm).
    - intros slot. rewrite Hs. exact (I6 slot).
    - exact H6.
  Qed.

  Lemma m_inv_same_ghost script st y y' G :
    m_inv script y G ->
    y_cfg y' = cfg0 -> NoDup (slots_of (y_server y')) ->
    sv_tick (y_server y') = sv_tick (y_server y) -> sv_dirty (y_server y') = sv_dirty (y_server y) ->
    (forall slot, In slot (slots_of (y_server y)) -> In slot (slots_of (y_server y'))) ->
    (forall slot c', al_get slot (y_clients y') = Some c' ->
       slot_ok track (mode_of (script ++ [st]) slot) (y_server y') slot (G slot) c' (l_mut (get_link y' slot))) ->
    m_inv (script ++ [st]) y' G.
  Proof. intros Hi. apply (m_inv_same_sent script st y y' G G Hi). reflexivity. Qed.

  (* one slot: the client is the same for the invariant, the server keeps what matters, the mode moves harmlessly *)
  Lemma slot_keep mode mode' s s' slot g c c' lmut :
    cl_mt_eq c c' -> (sv_running s = true -> sv_running s' = true) -> (In slot (slots_of s') <-> In slot (slots_of s)) ->
    (mode' = mode \/ mode' = MStale \/ (mode = MClean /\ mode' = MLive)) ->
    slot_ok track mode s slot g c lmut -> slot_ok track mode' s' slot g c' lmut.
  Proof.
    intros Hq Hr Hs Hm H. pose proof (slot_ok_ext mode s s' slot g c c' lmut Hq Hr Hs H) as (A1 & A2 & A3 & A4).
    split; [exact A1|]. split; [exact A2|]. split; [exact A3|].
    destruct Hm as [-> |[-> |[-> ->]]]; [exact A4|exact I|left; exact A4].
  Qed.

  Lemma connect_slots s slot max : sv_running s = true -> ~ In slot (slots_of s) ->
    slots_of (connect_client cfg0 s slot max) = slots_of s ++ [slot].
  Proof.
    intros Hr Hn. apply find_client_none_slots in Hn. unfold connect_client. rewrite Hr, Hn.
    unfold slots_of, set_clients. cbn [sv_clients]. rewrite map_app. destruct (cfg_auth cfg0); reflexivity.
  Qed.

  Lemma disconnect_slots s slot : slots_of (disconnect_client s slot) = filter (fun k => negb (k =? slot)) (slots_of s).
  Proof.
    unfold slots_of, disconnect_client. cbn [sv_clients]. induction (sv_clients s) as [|a t IH]; [reflexivity|].
    cbn [filter map]. destruct (negb (sc_slot a =? slot)); cbn [map]; rewrite IH; reflexivity.
  Qed.

  Lemma authorize_slots s slot : slots_of (authorize_client cfg0 s slot) = slots_of s.
  Proof.
    unfold authorize_client. destruct (find_client s slot) as [cl|]; [|reflexivity]. destruct (sc_authorized cl); [reflexivity|].
    apply update_client_slots.
  Qed.

  Lemma deliver_acks_fields slot picked : forall s,
    slots_of (fold_left (fun s idxs => deliver_acks s slot idxs) picked s) = slots_of s /\
    sv_tick (fold_left (fun s idxs => deliver_acks s slot idxs) picked s) = sv_tick s /\
    sv_dirty (fold_left (fun s idxs => deliver_acks s slot idxs) picked s) = sv_dirty s /\
    sv_running (fold_left (fun s idxs => deliver_acks s slot idxs) picked s) = sv_running s.
  Proof.
    induction picked as [|a t IH]; intros s; cbn [fold_left]; [auto|]. destruct (IH (deliver_acks s slot a)) as (A & B & C & D).
    rewrite A, B, C, D. unfold deliver_acks. destruct (sv_running s) eqn:Er; [|auto]. destruct (find_client s slot); cbn; auto.
  Qed.

  Lemma set_status_mt_eq c st : cl_status c = st -> cl_mt_eq c (set_status c st).
  Proof. intros <-. unfold set_status, cl_mt_eq. destruct (cl_status c); cbn; repeat split. Qed.

  Lemma deliver_updates_mt_eq p : forall c, cl_mt_eq c (fold_left deliver_update p c).
  Proof.
    induction p as [|u t IH]; intros c; cbn [fold_left]; [apply cl_mt_eq_refl|].
    destruct (IH (deliver_update c u)) as (A & B & C & D & E). unfold cl_mt_eq. rewrite A, B, C, D, E.
    unfold deliver_update. destruct (cl_status c) eqn:Es; cbn; rewrite ?Es; repeat split.
  Qed.

  Lemma deliver_mutates_props p : forall c,
    cl_status (fold_left deliver_mutate p c) = cl_status c /\
    cl_last_not_disconnected (fold_left deliver_mutate p c) = cl_last_not_disconnected c /\
    cl_buffered (fold_left deliver_mutate p c) = cl_buffered c /\ cl_mticks (fold_left deliver_mutate p c) = cl_mticks c /\
    cl_inbox_mut (fold_left deliver_mutate p c) = match cl_status c with Connected => cl_inbox_mut c ++ p | Disconnected => cl_inbox_mut c end.
  Proof.
    induction p as [|m t IH]; intros c; cbn [fold_left].
    - repeat split. destruct (cl_status c); [reflexivity|rewrite app_nil_r; reflexivity].
    - destruct (IH (deliver_mutate c m)) as (A & B & C & D & E). rewrite A, B, C, D, E.
      unfold deliver_mutate. destruct (cl_status c) eqn:Es; cbn; rewrite ?Es; repeat split. rewrite <- app_assoc. reflexivity.
  Qed.

  Lemma take_nil_both {A} w : take w (@nil A) = ([], []).
  Proof. destruct w; reflexivity. Qed.

  Lemma mode_of_other script st slot : (forall m, mode_step slot m st = m) -> mode_of (script ++ [st]) slot = mode_of script slot.
  Proof. intros H. rewrite mode_of_snoc. apply H. Qed.

  (* ================================================================== *)
  (* 4. the steps                                                       *)
  (* ================================================================== *)

  Lemma step_start script y G y' o : m_inv script y G -> sys_step y StStart = Ok (y', o) -> m_inv (script ++ [StStart]) y' (mstep y G StStart).
  Proof.
    intros Hi H. cbn [sys_step] in H. inversion H; subst y' o. clear H. cbn [mstep]; unfold mg_add_sent, mg_clear_srv, mg_add_lost, mg_add_appl, mg_clear_cli. pose proof Hi as [I1 I2 I3 I4 I5 I6 I7].
    apply (m_inv_same_ghost script StStart y); try assumption; try reflexivity; [auto|].
    intros slot c' Hc. cbn [set_server y_clients] in Hc. change (get_link (set_server y (set_running (y_server y) true)) slot) with (get_link y slot).
    rewrite mode_of_snoc. cbn [mode_step].
    apply (slot_keep (mode_of script slot) _ (y_server y) _ slot (G slot) c' c'); [apply cl_mt_eq_refl|reflexivity|reflexivity|left; reflexivity|exact (I7 slot c' Hc)].
  Qed.

  Lemma step_stop script y G y' o : m_inv script y G -> sys_step y StStop = Ok (y', o) -> m_inv (script ++ [StStop]) y' (mstep y G StStop).
  Proof.
    intros Hi H. cbn [sys_step] in H. inversion H; subst y' o. clear H. cbn [mstep]; unfold mg_add_sent, mg_clear_srv, mg_add_lost, mg_add_appl, mg_clear_cli. pose proof Hi as [I1 I2 I3 I4 I5 I6 I7].
    apply (m_inv_same_ghost script StStop y); try assumption; try reflexivity; [auto|].
    intros slot c' Hc. cbn [set_server y_clients] in Hc.
    match goal with |- context [l_mut (get_link ?Y slot)] =>
      assert (El : l_mut (get_link Y slot) = []) by (unfold get_link; cbn [y_links set_server]; rewrite get_link_map_empty; reflexivity) end.
    rewrite El. rewrite mode_of_snoc. cbn [mode_step]. destruct (I7 slot c' Hc) as (A1 & A2 & A3 & A4).
    split; [exact A1|]. split; [exact A2|]. split; [exact A3|].
    destruct (mode_of script slot); cbn [mode_ok] in *.
    - destruct A4 as (B1 & B2 & B3 & B4 & B5). repeat split; assumption.
    - exact I.
    - destruct A4 as (B1 & B3 & B4 & B5). repeat split; assumption.
    - exact I.
  Qed.

  Lemma step_authorize script y G slot y' o : m_inv script y G -> sys_step y (StAuthorize slot) = Ok (y', o) ->
    m_inv (script ++ [StAuthorize slot]) y' (mstep y G (StAuthorize slot)).
  Proof.
    intros Hi H. cbn [sys_step] in H. inversion H; subst y' o. clear H. cbn [mstep]; unfold mg_add_sent, mg_clear_srv, mg_add_lost, mg_add_appl, mg_clear_cli. pose proof Hi as [I1 I2 I3 I4 I5 I6 I7].
    assert (Es : slots_of (authorize_client (y_cfg y) (y_server y) slot) = slots_of (y_server y)) by (rewrite I1; apply authorize_slots).
    assert (Ef : sv_tick (authorize_client (y_cfg y) (y_server y) slot) = sv_tick (y_server y) /\
                 sv_dirty (authorize_client (y_cfg y) (y_server y) slot) = sv_dirty (y_server y) /\
                 sv_running (authorize_client (y_cfg y) (y_server y) slot) = sv_running (y_server y)).
    { unfold authorize_client. destruct (find_client (y_server y) slot) as [cl|]; [|auto]. destruct (sc_authorized cl); auto. }
    destruct Ef as (E1 & E2 & E3).
    apply (m_inv_same_ghost script (StAuthorize slot) y); try assumption.
    - cbn [set_server y_server]. rewrite Es. exact I2.
    - cbn [set_server y_server]. intros sl Hin. rewrite Es. exact Hin.
    - intros sl c' Hc. cbn [set_server y_clients] in Hc.
      change (get_link (set_server y (authorize_client (y_cfg y) (y_server y) slot)) sl) with (get_link y sl).
      rewrite mode_of_snoc. cbn [mode_step set_server y_server].
      apply (slot_keep (mode_of script sl) _ (y_server y) _ sl (G sl) c' c'); [apply cl_mt_eq_refl|rewrite E3; auto|rewrite Es; reflexivity|left; reflexivity|exact (I7 sl c' Hc)].
  Qed.

  Lemma noop_step script st y G :
    m_inv script y G -> (forall slot m, mode_step slot m st = m \/ mode_step slot m st = MStale \/ (m = MClean /\ mode_step slot m st = MLive)) ->
    m_inv (script ++ [st]) y G.
  Proof.
    intros Hi Hm. pose proof Hi as [I1 I2 I3 I4 I5 I6 I7].
    apply (m_inv_same_ghost script st y); try assumption; try reflexivity; [auto|].
    intros sl c' Hc. rewrite mode_of_snoc.
    apply (slot_keep (mode_of script sl) _ (y_server y) _ sl (G sl) c' c'); [apply cl_mt_eq_refl|auto|reflexivity|apply Hm|exact (I7 sl c' Hc)].
  Qed.

  Lemma mode_step_connect slot max sl m :
    mode_step sl m (StConnect slot max) = m \/ mode_step sl m (StConnect slot max) = MStale \/ (m = MClean /\ mode_step sl m (StConnect slot max) = MLive).
  Proof. cbn [mode_step]. destruct (slot =? sl); [|left; reflexivity]. destruct m; auto. Qed.

  Lemma step_connect script y G slot max y' o :
    m_inv script y G -> sess_step_ok script (StConnect slot max) = true -> sys_step y (StConnect slot max) = Ok (y', o) ->
    m_inv (script ++ [StConnect slot max]) y' (mstep y G (StConnect slot max)).
  Proof.
    intros Hi Hss H. cbn [sys_step] in H. cbn [mstep]; unfold mg_add_sent, mg_clear_srv, mg_add_lost, mg_add_appl, mg_clear_cli. pose proof Hi as [I1 I2 I3 I4 I5 I6 I7].
    destruct (find_client (y_server y) slot) as [r|] eqn:Ef; [inversion H; subst; apply noop_step; [exact Hi|apply mode_step_connect]|].
    destruct (al_get slot (y_clients y)) as [cl|] eqn:Ecl; [|inversion H; subst; apply noop_step; [exact Hi|apply mode_step_connect]].
    destruct (sv_running (y_server y)) eqn:Er; [|inversion H; subst; apply noop_step; [exact Hi|apply mode_step_connect]].
    inversion H; subst y' o. clear H.
    assert (Hn : ~ In slot (slots_of (y_server y))) by (apply find_client_none_slots; exact Ef).
    assert (Es : slots_of (connect_client (y_cfg y) (y_server y) slot max) = slots_of (y_server y) ++ [slot]) by (rewrite I1; apply connect_slots; assumption).
    assert (Efl : sv_tick (connect_client (y_cfg y) (y_server y) slot max) = sv_tick (y_server y) /\
                  sv_dirty (connect_client (y_cfg y) (y_server y) slot max) = sv_dirty (y_server y) /\
                  sv_running (connect_client (y_cfg y) (y_server y) slot max) = true).
    { unfold connect_client. rewrite Er, Ef. cbn. auto. }
    destruct Efl as (E1 & E2 & E3).
    apply (m_inv_same_ghost script (StConnect slot max) y); try assumption.
    - cbn [set_client set_server y_server]. rewrite Es. apply NoDup_snoc; assumption.
    - cbn [set_client set_server y_server]. intros sl Hin. rewrite Es. apply in_or_app. left. exact Hin.
    - intros sl c' Hc. cbn [set_client set_server y_clients y_server] in *.
      change (get_link (set_client (set_server y (connect_client (y_cfg y) (y_server y) slot max)) slot (set_status cl Connected)) sl) with (get_link y sl).
      rewrite mode_of_snoc. cbn [mode_step]. apply al_get_insert_cases in Hc. destruct Hc as [[-> ->]|[Hne Hc]].
      + rewrite N.eqb_refl. destruct (I7 slot cl Ecl) as (A1 & A2 & A3 & A4).
        assert (Hcl : clean_st (y_server y) slot (G slot) cl (l_mut (get_link y slot))).
        { cbn [sess_step_ok] in Hss. destruct (mode_of script slot); try discriminate; cbn [mode_ok] in A4; [exact A4|].
          destruct A4 as [A4|(_ & _ & A4 & _)]; [exact A4|contradiction]. }
        destruct Hcl as (B1 & B2 & B3 & B4 & B5). destruct (A2 B2) as (C1 & C2 & C3).
        assert (Hst : cl_mt_eq cl (set_status cl Connected) -> False \/ True) by auto.
        split; [unfold replay_ok in *; cbn [set_status cl_mticks]; exact A1|].
        split; [unfold fresh_ok in *; cbn [set_status cl_last_not_disconnected cl_buffered]; exact A2|].
        split; [cbn [set_status cl_status]; discriminate|].
        assert (Hlive : live_st (connect_client (y_cfg y) (y_server y) slot max) slot (G slot) (set_status cl Connected) (l_mut (get_link y slot))).
        { split; [reflexivity|]. split; [exact E3|]. split; [rewrite Es; apply in_or_app; right; left; reflexivity|].
          unfold live_ok. rewrite (I4 slot Hn), C2, B3, B5. unfold set_status. rewrite B1. cbn [cl_buffered cl_inbox_mut].
          rewrite C1, (A3 B1). apply perm_nil. }
        cbn [sess_step_ok] in Hss. destruct (mode_of script slot); try discriminate; cbn [mode_ok]; right; exact Hlive.
      + destruct (slot =? sl) eqn:E; [lia|].
        apply (slot_keep (mode_of script sl) _ (y_server y) _ sl (G sl) c' c'); [apply cl_mt_eq_refl|intros _; exact E3| |left; reflexivity|exact (I7 sl c' Hc)].
        rewrite Es, in_app_iff. cbn [In]. split; [intros [Hin|[Hin|[]]]; [exact Hin|congruence]|auto].
  Qed.

  Lemma perm_move {A} (a b i l z p r : list A) : Permutation l (p ++ r) ->
    Permutation (a ++ b ++ i ++ l ++ z) (a ++ b ++ (i ++ p) ++ r ++ z).
  Proof.
    intros H. do 2 apply Permutation_app_head. rewrite <- app_assoc. apply Permutation_app_head.
    rewrite app_assoc. apply Permutation_app_tail. exact H.
  Qed.

  Lemma perm_lose {A} (a b i l z p r : list A) : Permutation l (p ++ r) ->
    Permutation (a ++ b ++ i ++ l ++ z) (a ++ b ++ i ++ r ++ z ++ p).
  Proof.
    intros H. do 3 apply Permutation_app_head. eapply Permutation_trans; [apply Permutation_app_tail; exact H|].
    rewrite <- app_assoc. eapply Permutation_trans; [apply Permutation_app_comm|]. rewrite <- app_assoc. apply Permutation_refl.
  Qed.

  Lemma step_deliver script y G slot s2c ch w y' o :
    m_inv script y G -> sys_step y (StDeliver slot s2c ch w) = Ok (y', o) ->
    m_inv (script ++ [StDeliver slot s2c ch w]) y' (mstep y G (StDeliver slot s2c ch w)).
  Proof.
    intros Hi H. cbn [sys_step] in H. cbn [mstep]; unfold mg_add_sent, mg_clear_srv, mg_add_lost, mg_add_appl, mg_clear_cli. pose proof Hi as [I1 I2 I3 I4 I5 I6 I7].
    assert (Hnoop : m_inv (script ++ [StDeliver slot s2c ch w]) y G) by (apply noop_step; [exact Hi|intros; left; reflexivity]).
    destruct (al_get slot (y_clients y)) as [cl|] eqn:Ecl; [|inversion H; subst; exact Hnoop].
    destruct s2c; [destruct (ch =? 0); [|destruct (ch =? 1)]|destruct (ch =? 0)]; try (inversion H; subst; exact Hnoop).
    - (* update channel *)
      destruct (take w (l_upd (get_link y slot))) as [picked rest] eqn:Et. inversion H; subst y' o. clear H.
      apply (m_inv_same_ghost script _ y); try assumption; try reflexivity; [auto|].
      intros sl c' Hc. cbn [set_client set_link y_clients y_server] in *. rewrite mode_of_snoc. cbn [mode_step].
      assert (El : l_mut (get_link (set_client (set_link y slot (mkLink rest (l_mut (get_link y slot)) (l_ack (get_link y slot)))) slot (fold_left deliver_update picked cl)) sl) = l_mut (get_link y sl)).
      { change (get_link (set_client (set_link y slot (mkLink rest (l_mut (get_link y slot)) (l_ack (get_link y slot)))) slot (fold_left deliver_update picked cl)) sl)
          with (get_link (set_link y slot (mkLink rest (l_mut (get_link y slot)) (l_ack (get_link y slot)))) sl).
        destruct (N.eq_dec sl slot) as [->|Hne]; [rewrite get_link_set_link_same|rewrite get_link_set_link_other by exact Hne]; reflexivity. }
      rewrite El. apply al_get_insert_cases in Hc. destruct Hc as [[-> ->]|[Hne Hc]].
      + apply (slot_keep (mode_of script slot) _ (y_server y) _ slot (G slot) cl); [apply deliver_updates_mt_eq|auto|reflexivity|left; reflexivity|exact (I7 slot cl Ecl)].
      + apply (slot_keep (mode_of script sl) _ (y_server y) _ sl (G sl) c' c'); [apply cl_mt_eq_refl|auto|reflexivity|left; reflexivity|exact (I7 sl c' Hc)].
    - (* mutate channel *)
      destruct (take w (l_mut (get_link y slot))) as [picked rest] eqn:Et. inversion H; subst y' o. clear H.
      apply (m_inv_same_ghost script _ y); try assumption; try reflexivity; [auto|].
      intros sl c' Hc. cbn [set_client set_link y_clients y_server] in *. rewrite mode_of_snoc. cbn [mode_step].
      change (get_link (set_client (set_link y slot (mkLink (l_upd (get_link y slot)) rest (l_ack (get_link y slot)))) slot (fold_left deliver_mutate picked cl)) sl)
        with (get_link (set_link y slot (mkLink (l_upd (get_link y slot)) rest (l_ack (get_link y slot)))) sl).
      apply al_get_insert_cases in Hc. destruct Hc as [[-> ->]|[Hne Hc]].
      + rewrite get_link_set_link_same. cbn [l_mut].
        destruct (deliver_mutates_props picked cl) as (P1 & P2 & P3 & P4 & P5).
        pose proof (take_perm w _ picked rest Et) as Hperm.
        destruct (I7 slot cl Ecl) as (A1 & A2 & A3 & A4).
        assert (Hempty : l_mut (get_link y slot) = [] -> picked = [] /\ rest = []).
        { intros E0. rewrite E0, take_nil_both in Et. inversion Et; auto. }
        split; [unfold replay_ok in *; rewrite P4; exact A1|]. split; [unfold fresh_ok in *; rewrite P2, P3; exact A2|].
        split; [rewrite P1, P5; intros Hd; rewrite Hd; exact (A3 Hd)|].
        assert (Hc : clean_st (y_server y) slot (G slot) cl (l_mut (get_link y slot)) ->
                     clean_st (y_server y) slot (G slot) (fold_left deliver_mutate picked cl) rest).
        { intros (B1 & B2 & B3 & B4 & B5). unfold clean_st. rewrite P1, P2. destruct (Hempty B3) as [_ ->]. auto. }
        assert (Hl : live_st (y_server y) slot (G slot) cl (l_mut (get_link y slot)) ->
                     live_st (y_server y) slot (G slot) (fold_left deliver_mutate picked cl) rest).
        { intros (B1 & B2 & B3 & B4). unfold live_st, live_ok in *. rewrite P1, P3, P5, B1. repeat split; try assumption.
          eapply Permutation_trans; [exact B4|]. apply perm_move. exact Hperm. }
        destruct (mode_of script slot); cbn [mode_ok] in *; [exact (Hc A4)|destruct A4 as [A4|A4]; [left; exact (Hc A4)|right; exact (Hl A4)]| |exact I].
        destruct A4 as (B1 & B3 & B4 & B5). unfold left_st. rewrite P1. destruct (Hempty B3) as [_ ->]. auto.
      + rewrite get_link_set_link_other by exact Hne.
        apply (slot_keep (mode_of script sl) _ (y_server y) _ sl (G sl) c' c'); [apply cl_mt_eq_refl|auto|reflexivity|left; reflexivity|exact (I7 sl c' Hc)].
    - (* acknowledgements *)
      destruct (take w (l_ack (get_link y slot))) as [picked rest] eqn:Et. inversion H; subst y' o. clear H.
      destruct (deliver_acks_fields slot picked (y_server y)) as (F1 & F2 & F3 & F4).
      apply (m_inv_same_ghost script _ y); try assumption.
      + cbn [set_server y_server]. rewrite F1. exact I2.
      + cbn [set_server y_server]. intros sl Hin. rewrite F1. exact Hin.
      + intros sl c' Hc. cbn [set_server set_link y_clients y_server] in *. rewrite mode_of_snoc. cbn [mode_step].
        assert (El : l_mut (get_link (set_server (set_link y slot (mkLink (l_upd (get_link y slot)) (l_mut (get_link y slot)) rest))
                                (fold_left (fun s idxs => deliver_acks s slot idxs) picked (y_server y))) sl) = l_mut (get_link y sl)).
        { change (get_link (set_server (set_link y slot (mkLink (l_upd (get_link y slot)) (l_mut (get_link y slot)) rest))
                                (fold_left (fun s idxs => deliver_acks s slot idxs) picked (y_server y))) sl)
            with (get_link (set_link y slot (mkLink (l_upd (get_link y slot)) (l_mut (get_link y slot)) rest)) sl).
          destruct (N.eq_dec sl slot) as [->|Hne]; [rewrite get_link_set_link_same|rewrite get_link_set_link_other by exact Hne]; reflexivity. }
        rewrite El.
        apply (slot_keep (mode_of script sl) _ (y_server y) _ sl (G sl) c' c'); [apply cl_mt_eq_refl|rewrite F4; auto|rewrite F1; reflexivity|left; reflexivity|exact (I7 sl c' Hc)].
  Qed.

  Lemma mg_upd_same G slot g : mg_upd G slot g slot = g.
  Proof. unfold mg_upd. rewrite N.eqb_refl. reflexivity. Qed.
  Lemma mg_upd_other G slot g sl : sl <> slot -> mg_upd G slot g sl = G sl.
  Proof. intros H. unfold mg_upd. destruct (sl =? slot) eqn:E; [lia|reflexivity]. Qed.

  Lemma step_drop script y G slot s2c ch w y' o :
    m_inv script y G -> sys_step y (StDrop slot s2c ch w) = Ok (y', o) ->
    m_inv (script ++ [StDrop slot s2c ch w]) y' (mstep y G (StDrop slot s2c ch w)).
  Proof.
    intros Hi H. cbn [sys_step] in H. pose proof Hi as [I1 I2 I3 I4 I5 I6 I7].
    assert (Hnoop : m_inv (script ++ [StDrop slot s2c ch w]) y G) by (apply noop_step; [exact Hi|intros; left; reflexivity]).
    destruct (al_get slot (y_clients y)) as [cl|] eqn:Ecl; [|inversion H; subst; destruct s2c; cbn [mstep]; unfold mg_add_sent, mg_clear_srv, mg_add_lost, mg_add_appl, mg_clear_cli; rewrite ?Ecl; exact Hnoop].
    assert (Hsame : forall sl c', al_get sl (al_insert slot cl (y_clients y)) = Some c' -> al_get sl (y_clients y) = Some c').
    { intros sl c' Hs. apply al_get_insert_cases in Hs. destruct Hs as [[-> ->]|[_ Hs]]; [exact Ecl|exact Hs]. }
    destruct s2c; [destruct (ch =? 0) eqn:E0; [|destruct (ch =? 1) eqn:E1]|destruct (ch =? 0) eqn:E0]; cbn [mstep]; unfold mg_add_sent, mg_clear_srv, mg_add_lost, mg_add_appl, mg_clear_cli; rewrite ?Ecl.
    - (* update channel: nothing the invariant reads *)
      assert (E1 : ch =? 1 = false) by lia. rewrite E1.
      destruct (take w (l_upd (get_link y slot))) as [picked rest] eqn:Et. inversion H; subst y' o. clear H.
      apply (m_inv_same_ghost script _ y); try assumption; try reflexivity; [auto|].
      intros sl c' Hc. cbn [set_client set_link y_clients y_server] in *. rewrite mode_of_snoc. cbn [mode_step].
      assert (El : l_mut (get_link (set_client (set_link y slot (mkLink rest (l_mut (get_link y slot)) (l_ack (get_link y slot)))) slot cl) sl) = l_mut (get_link y sl)).
      { change (get_link (set_client (set_link y slot (mkLink rest (l_mut (get_link y slot)) (l_ack (get_link y slot)))) slot cl) sl)
          with (get_link (set_link y slot (mkLink rest (l_mut (get_link y slot)) (l_ack (get_link y slot)))) sl).
        destruct (N.eq_dec sl slot) as [->|Hne]; [rewrite get_link_set_link_same|rewrite get_link_set_link_other by exact Hne]; reflexivity. }
      rewrite El.
      apply (slot_keep (mode_of script sl) _ (y_server y) _ sl (G sl) c' c'); [apply cl_mt_eq_refl|auto|reflexivity|left; reflexivity|exact (I7 sl c' (Hsame sl c' Hc))].
    - (* mutate channel: the dropped messages are lost *)
      rewrite E1. destruct (take w (l_mut (get_link y slot))) as [picked rest] eqn:Et. inversion H; subst y' o. clear H. cbn [fst].
      set (g' := mkMG (mg_sent (G slot)) (mg_lost (G slot) ++ picked) (mg_appl (G slot)) (mg_evs (G slot))).
      apply (m_inv_same_sent script _ y _ G); try assumption; try reflexivity; [|auto|].
      { intros sl. unfold mg_upd. destruct (sl =? slot) eqn:E; [|reflexivity]. assert (sl = slot) by lia. subst sl. reflexivity. }
      intros sl c' Hc. cbn [set_client set_link y_clients y_server] in *. rewrite mode_of_snoc. cbn [mode_step].
      change (get_link (set_client (set_link y slot (mkLink (l_upd (get_link y slot)) rest (l_ack (get_link y slot)))) slot cl) sl)
        with (get_link (set_link y slot (mkLink (l_upd (get_link y slot)) rest (l_ack (get_link y slot)))) sl).
      pose proof Hc as Hc0. apply al_get_insert_cases in Hc. destruct Hc as [[-> ->]|[Hne Hc]].
      + rewrite get_link_set_link_same, mg_upd_same. cbn [l_mut].
        pose proof (take_perm w _ picked rest Et) as Hperm.
        destruct (I7 slot cl Ecl) as (A1 & A2 & A3 & A4).
        assert (Hempty : l_mut (get_link y slot) = [] -> picked = [] /\ rest = []).
        { intros Ee. rewrite Ee, take_nil_both in Et. inversion Et; auto. }
        split; [exact A1|]. split; [exact A2|]. split; [exact A3|].
        assert (Hcl : clean_st (y_server y) slot (G slot) cl (l_mut (get_link y slot)) -> clean_st (y_server y) slot g' cl rest).
        { intros (B1 & B2 & B3 & B4 & B5). unfold clean_st, g'. cbn [mg_lost]. destruct (Hempty B3) as [-> ->]. rewrite B5. auto. }
        assert (Hl : live_st (y_server y) slot (G slot) cl (l_mut (get_link y slot)) -> live_st (y_server y) slot g' cl rest).
        { intros (B1 & B2 & B3 & B4). unfold live_st, live_ok, g' in *. cbn [mg_sent mg_lost mg_appl]. repeat split; try assumption.
          eapply Permutation_trans; [exact B4|]. apply perm_lose. exact Hperm. }
        destruct (mode_of script slot); cbn [mode_ok] in *; [exact (Hcl A4)|destruct A4 as [A4|A4]; [left; exact (Hcl A4)|right; exact (Hl A4)]| |exact I].
        destruct A4 as (B1 & B3 & B4 & B5). unfold left_st, g'. cbn [mg_lost]. destruct (Hempty B3) as [-> ->]. rewrite B5. auto.
      + rewrite get_link_set_link_other by exact Hne. rewrite mg_upd_other by exact Hne.
        apply (slot_keep (mode_of script sl) _ (y_server y) _ sl (G sl) c' c'); [apply cl_mt_eq_refl|auto|reflexivity|left; reflexivity|exact (I7 sl c' Hc)].
    - rewrite E1. inversion H; subst. exact Hnoop.
    - (* acknowledgements *)
      destruct (take w (l_ack (get_link y slot))) as [picked rest] eqn:Et. inversion H; subst y' o. clear H.
      apply (m_inv_same_ghost script _ y); try assumption; try reflexivity; [auto|].
      intros sl c' Hc. cbn [set_server set_link y_clients y_server] in *. rewrite mode_of_snoc. cbn [mode_step].
      assert (El : l_mut (get_link (set_server (set_link y slot (mkLink (l_upd (get_link y slot)) (l_mut (get_link y slot)) rest)) (y_server y)) sl) = l_mut (get_link y sl)).
      { change (get_link (set_server (set_link y slot (mkLink (l_upd (get_link y slot)) (l_mut (get_link y slot)) rest)) (y_server y)) sl)
          with (get_link (set_link y slot (mkLink (l_upd (get_link y slot)) (l_mut (get_link y slot)) rest)) sl).
        destruct (N.eq_dec sl slot) as [->|Hne]; [rewrite get_link_set_link_same|rewrite get_link_set_link_other by exact Hne]; reflexivity. }
      rewrite El.
      apply (slot_keep (mode_of script sl) _ (y_server y) _ sl (G sl) c' c'); [apply cl_mt_eq_refl|auto|reflexivity|left; reflexivity|exact (I7 sl c' Hc)].
    - inversion H; subst. exact Hnoop.
  Qed.

  Lemma srv_proto_nil : srv_proto track [].
  Proof. intros m []. Qed.

  Lemma step_disconnect script y G slot y' o :
    m_inv script y G -> sys_step y (StDisconnect slot) = Ok (y', o) ->
    m_inv (script ++ [StDisconnect slot]) y' (mstep y G (StDisconnect slot)).
  Proof.
    intros Hi H. cbn [sys_step] in H. cbn [mstep]; unfold mg_add_sent, mg_clear_srv, mg_add_lost, mg_add_appl, mg_clear_cli. pose proof Hi as [I1 I2 I3 I4 I5 I6 I7].
    set (g' := mkMG [] [] (mg_appl (G slot)) (mg_evs (G slot))).
    assert (Hsent : forall sl m, In m (mg_sent (mg_upd G slot g' sl)) -> In m (mg_sent (G sl))).
    { intros sl m. unfold mg_upd. destruct (sl =? slot); [intros []|auto]. }
    destruct (al_get slot (y_clients y)) as [cl|] eqn:Ecl.
    - inversion H; subst y' o. clear H.
      destruct (disconnect_forgets_client (y_server y) slot) as (_ & _ & _ & _ & _ & Dt & _ & _ & Dr).
      assert (Es : slots_of (disconnect_client (y_server y) slot) = filter (fun k => negb (k =? slot)) (slots_of (y_server y))) by apply disconnect_slots.
      constructor.
      + exact I1.
      + cbn [clear_link set_link set_client set_server y_server]. rewrite Es. apply NoDup_filter. exact I2.
      + cbn [clear_link set_link set_client set_server y_server]. rewrite Dt. pose proof (tick_frames_le script (StDisconnect slot)). lia.
      + intros sl Hn. cbn [clear_link set_link set_client set_server y_server] in Hn. rewrite Es in Hn.
        destruct (N.eq_dec sl slot) as [->|Hne]; [rewrite mg_upd_same; reflexivity|]. rewrite mg_upd_other by exact Hne.
        apply I4. intros Hin. apply Hn. apply filter_In. split; [exact Hin|]. destruct (sl =? slot) eqn:E; [lia|reflexivity].
      + intros sl m Hm. cbn [clear_link set_link set_client set_server y_server]. rewrite Dt.
        change (sv_dirty (disconnect_client (y_server y) slot)) with (sv_dirty (y_server y)). exact (I5 sl m (Hsent sl m Hm)).
      + intros sl. destruct (N.eq_dec sl slot) as [->|Hne]; [rewrite mg_upd_same; apply srv_proto_nil|rewrite mg_upd_other by exact Hne; exact (I6 sl)].
      + intros sl c' Hc. cbn [clear_link set_link set_client set_server y_clients y_server] in *. rewrite mode_of_snoc. cbn [mode_step].
        unfold clear_link. apply al_get_insert_cases in Hc. destruct Hc as [[-> ->]|[Hne Hc]].
        * rewrite N.eqb_refl, get_link_set_link_same, mg_upd_same. cbn [l_mut link_empty].
          destruct (I7 slot cl Ecl) as (A1 & A2 & A3 & A4).
          assert (Hn : ~ In slot (slots_of (disconnect_client (y_server y) slot))).
          { rewrite Es. intros Hin. apply filter_In in Hin. destruct Hin as [_ Hin]. rewrite N.eqb_refl in Hin. discriminate. }
          assert (Hst : cl_status (set_status cl Disconnected) = Disconnected) by reflexivity.
          assert (Hfl : cl_last_not_disconnected (set_status cl Disconnected) = cl_last_not_disconnected cl) by reflexivity.
          split; [exact A1|]. split; [exact A2|]. split.
          -- intros _. unfold set_status. destruct (cl_status cl) eqn:Ec; cbn [cl_inbox_mut]; [exact (A3 eq_refl)|reflexivity].
          -- destruct (mode_of script slot); cbn [mode_ok] in *.
             ++ destruct A4 as (B1 & B2 & _). unfold clean_st. rewrite Hfl. auto.
             ++ unfold left_st. auto.
             ++ unfold left_st. auto.
             ++ unfold left_st. auto.
        * destruct (slot =? sl) eqn:E; [lia|]. rewrite get_link_set_link_other by exact Hne. rewrite mg_upd_other by exact Hne.
          change (get_link (set_client (set_server y (disconnect_client (y_server y) slot)) slot (set_status cl Disconnected)) sl) with (get_link y sl).
          apply (slot_keep (mode_of script sl) _ (y_server y) _ sl (G sl) c' c'); [apply cl_mt_eq_refl|rewrite Dr; auto| |left; reflexivity|exact (I7 sl c' Hc)].
          rewrite Es, filter_In. destruct (sl =? slot) eqn:E2; [lia|]. cbn [negb]. tauto.
    - inversion H; subst y' o. clear H. constructor; try assumption.
      + pose proof (tick_frames_le script (StDisconnect slot)). lia.
      + intros sl Hn. destruct (N.eq_dec sl slot) as [->|Hne]; [rewrite mg_upd_same; reflexivity|rewrite mg_upd_other by exact Hne; exact (I4 sl Hn)].
      + intros sl m Hm. exact (I5 sl m (Hsent sl m Hm)).
      + intros sl. destruct (N.eq_dec sl slot) as [->|Hne]; [rewrite mg_upd_same; apply srv_proto_nil|rewrite mg_upd_other by exact Hne; exact (I6 sl)].
      + intros sl c' Hc. assert (Hne : sl <> slot) by (intros ->; congruence). rewrite mg_upd_other by exact Hne.
        rewrite mode_of_snoc. cbn [mode_step]. destruct (slot =? sl) eqn:E; [lia|]. exact (I7 sl c' Hc).
  Qed.

  (* what a client frame does to the rest of the system *)
  Lemma cframe_shape y slot ops cl cl' cfo y' o :
    al_get slot (y_clients y) = Some cl -> client_frame cl ops = Ok (cl', cfo) -> sys_step y (StCFrame slot ops) = Ok (y', o) ->
    y_cfg y' = y_cfg y /\ slots_of (y_server y') = slots_of (y_server y) /\ sv_tick (y_server y') = sv_tick (y_server y) /\
    sv_dirty (y_server y') = sv_dirty (y_server y) /\ sv_running (y_server y') = sv_running (y_server y) /\
    y_clients y' = al_insert slot cl' (y_clients y) /\ (forall sl, l_mut (get_link y' sl) = l_mut (get_link y sl)) /\
    o = OCFrame slot cfo (client_view cl').
  Proof.
    intros Ecl Ef H. cbn [sys_step] in H. rewrite Ecl, Ef in H. cbn [bind] in H.
    set (y1 := set_client y slot cl') in *.
    set (y2 := match cfo_acks cfo with
               | [] => y1
               | a :: t => match cl_status cl' with
                           | Connected => set_link y1 slot (mkLink (l_upd (get_link y slot)) (l_mut (get_link y slot)) (l_ack (get_link y slot) ++ [a :: t]))
                           | Disconnected => y1
                           end
               end) in *.
    assert (F2 : y_cfg y2 = y_cfg y /\ y_clients y2 = y_clients y1 /\ y_server y2 = y_server y /\
                 forall sl, l_mut (get_link y2 sl) = l_mut (get_link y sl)).
    { unfold y2. destruct (cfo_acks cfo) as [|a t]; [repeat split; reflexivity|]. destruct (cl_status cl'); [repeat split; reflexivity|].
      split; [reflexivity|]. split; [reflexivity|]. split; [reflexivity|]. intros sl. destruct (N.eq_dec sl slot) as [->|Hne].
      - rewrite get_link_set_link_same. reflexivity.
      - rewrite get_link_set_link_other by exact Hne. reflexivity. }
    destruct F2 as (F0 & F1 & F3 & F4). inversion H; subst y' o. clear H.
    cbn [set_server y_cfg y_server y_clients]. rewrite F0, F1, F3. repeat split; try reflexivity.
    intros sl. exact (F4 sl).
  Qed.

  Lemma perm_frame {A} (sent a b i l z fa b' : list A) :
    Permutation sent (a ++ b ++ i ++ l ++ z) -> Permutation (b ++ i) (fa ++ b') ->
    Permutation sent ((a ++ fa) ++ b' ++ [] ++ l ++ z).
  Proof.
    intros H1 H2. eapply Permutation_trans; [exact H1|]. rewrite <- app_assoc. apply Permutation_app_head. cbn [app].
    rewrite !app_assoc. do 2 apply Permutation_app_tail. exact H2.
  Qed.

  Lemma step_cframe script y G slot ops y' o :
    m_inv script y G -> sys_step y (StCFrame slot ops) = Ok (y', o) ->
    m_inv (script ++ [StCFrame slot ops]) y' (mstep y G (StCFrame slot ops)).
  Proof.
    intros Hi H. pose proof Hi as [I1 I2 I3 I4 I5 I6 I7]. cbn [mstep]; unfold mg_add_sent, mg_clear_srv, mg_add_lost, mg_add_appl, mg_clear_cli.
    destruct (al_get slot (y_clients y)) as [cl|] eqn:Ecl.
    2:{ cbn [sys_step] in H. rewrite Ecl in H. inversion H; subst y' o. clear H.
        apply (m_inv_same_ghost script _ y); try assumption; try reflexivity; [auto|].
        intros sl c' Hc. assert (Hne : sl <> slot) by (intros ->; congruence). rewrite mode_of_snoc. cbn [mode_step].
        destruct (slot =? sl) eqn:E; [lia|]. exact (I7 sl c' Hc). }
    assert (Hcf : exists cl' cfo, client_frame cl ops = Ok (cl', cfo)).
    { cbn [sys_step] in H. rewrite Ecl in H. destruct (client_frame cl ops) as [[cl' cfo]| |]; [eauto|discriminate|discriminate]. }
    destruct Hcf as (cl' & cfo & Ef).
    destruct (cframe_shape y slot ops cl cl' cfo y' o Ecl Ef H) as (S0 & S1 & S2 & S3 & S4 & S5 & S6 & _).
    destruct (I7 slot cl Ecl) as (A1 & A2 & A3 & A4).
    assert (Hother : forall G', (forall sl, sl <> slot -> G' sl = G sl) -> forall sl c', sl <> slot -> al_get sl (y_clients y) = Some c' ->
              slot_ok track (mode_of (script ++ [StCFrame slot ops]) sl) (y_server y') sl (G' sl) c' (l_mut (get_link y' sl))).
    { intros G' HG sl c' Hne Hc. rewrite mode_of_snoc. cbn [mode_step]. destruct (slot =? sl) eqn:E; [lia|]. rewrite HG by exact Hne. rewrite S6.
      apply (slot_keep (mode_of script sl) _ (y_server y) _ sl (G sl) c' c'); [apply cl_mt_eq_refl|rewrite S4; auto|rewrite S1; reflexivity|left; reflexivity|exact (I7 sl c' Hc)]. }
    destruct (cl_status cl) eqn:Est.
    - (* the client is not connected *)
      destruct (frame_disconnected_mt cl ops cl' cfo Est Ef) as (D0 & D1 & D2 & D3 & D4).
      set (G' := if cl_last_not_disconnected cl then mg_upd G slot (mkMG (mg_sent (G slot)) (mg_lost (G slot)) [] []) else G).
      assert (HG : forall sl, sl <> slot -> G' sl = G sl) by (intros sl Hne; unfold G'; destruct (cl_last_not_disconnected cl); [apply mg_upd_other; exact Hne|reflexivity]).
      assert (HGs : forall sl, mg_sent (G' sl) = mg_sent (G sl) /\ mg_lost (G' sl) = mg_lost (G sl)).
      { intros sl. unfold G'. destruct (cl_last_not_disconnected cl); [|auto]. unfold mg_upd. destruct (sl =? slot) eqn:E; [|auto].
        assert (sl = slot) by lia. subst sl. auto. }
      apply (m_inv_same_sent script _ y y' G G'); try assumption.
      + intros sl. exact (proj1 (HGs sl)).
      + congruence.
      + rewrite S1. exact I2.
      + intros sl Hin. rewrite S1. exact Hin.
      + intros sl c' Hc. rewrite S5 in Hc. apply al_get_insert_cases in Hc. destruct Hc as [[-> ->]|[Hne Hc]]; [|exact (Hother G' HG sl c' Hne Hc)].
        rewrite mode_of_snoc. cbn [mode_step]. rewrite N.eqb_refl, S6.
        assert (Hrep : replay_ok track cl' (G' slot) /\ fresh_ok cl' (G' slot)).
        { unfold G'. destruct (cl_last_not_disconnected cl) eqn:Efl.
          - destruct D4 as [D4 D5]. rewrite mg_upd_same. split; [|intros _; auto].
            unfold replay_ok in *. rewrite D5. cbn [mg_appl mg_evs]. destruct (cl_mticks cl) as [m|]; cbn [option_map].
            + destruct A1 as (T1 & bs0 & E0 & _). split; [exact T1|]. exists []. split; [|reflexivity].
              rewrite (mt_clear_default m (mt_confirm_all_64 _ _ _ _ mt_default_64 E0)). reflexivity.
            + destruct A1 as [T1 _]. auto.
          - destruct D4 as [D4 D5]. split; [unfold replay_ok in *; rewrite D5; exact A1|].
            intros _. rewrite D4. exact (A2 Efl). }
        destruct Hrep as [R1 R2]. split; [exact R1|]. split; [exact R2|]. split; [intros _; rewrite D3; exact (A3 eq_refl)|].
        destruct (HGs slot) as [_ HL].
        assert (Hcl : clean_st (y_server y) slot (G slot) cl (l_mut (get_link y slot)) -> clean_st (y_server y') slot (G' slot) cl' (l_mut (get_link y slot))).
        { intros (B1 & B2 & B3 & B4 & B5). unfold clean_st. rewrite S1, HL. auto. }
        destruct (mode_of script slot); cbn [mode_ok] in *.
        * exact (Hcl A4).
        * destruct A4 as [A4|(B1 & _)]; [left; exact (Hcl A4)|congruence].
        * destruct A4 as (B1 & B3 & B4 & B5). unfold clean_st. rewrite S1, HL. auto.
        * exact I.
    - (* the client is connected *)
      rewrite Ef.
      destruct (frame_connected_mt cl ops cl' cfo Est Ef) as (C0 & C1 & C2 & C3 & C4).
      set (g' := mkMG (mg_sent (G slot)) (mg_lost (G slot)) (mg_appl (G slot) ++ frame_applied cl) (mg_evs (G slot) ++ cfo_tick_events cfo)).
      apply (m_inv_same_sent script _ y y' G); try assumption.
      + intros sl. unfold mg_upd. destruct (sl =? slot) eqn:E; [|reflexivity]. assert (sl = slot) by lia. subst sl. reflexivity.
      + congruence.
      + rewrite S1. exact I2.
      + intros sl Hin. rewrite S1. exact Hin.
      + intros sl c' Hc. rewrite S5 in Hc. apply al_get_insert_cases in Hc. destruct Hc as [[-> ->]|[Hne Hc]];
          [|exact (Hother (mg_upd G slot g') (fun sl0 Hn => mg_upd_other G slot g' sl0 Hn) sl c' Hne Hc)].
        rewrite mode_of_snoc. cbn [mode_step]. rewrite N.eqb_refl, S6, mg_upd_same.
        split; [|split; [intros Hf; congruence|split; [intros Hd; congruence|]]].
        * unfold replay_ok in *. unfold g'. cbn [mg_appl mg_evs]. destruct (cl_mticks cl) as [m0|].
          -- destruct A1 as (T1 & bs0 & E0 & Ev0). destruct C0 as (m2 & bs & E2 & Em2 & Eev). rewrite Em2.
             split; [exact T1|]. exists (bs0 ++ bs). split.
             ++ rewrite ncalls_app, mt_confirm_all_app, E0. cbn [bind]. rewrite E2. reflexivity.
             ++ rewrite Ev0, Eev. symmetry. apply fired_app.
                rewrite (mt_confirm_all_length _ _ _ _ E0). unfold ncalls. apply map_length.
          -- destruct A1 as [T1 Ev0]. destruct C0 as [Em2 Eev]. rewrite Em2, Ev0, Eev. auto.
        * destruct (mode_of script slot); cbn [mode_ok] in *.
          -- destruct A4 as (B1 & _). congruence.
          -- right. destruct A4 as [(B1 & _)|(B1 & B2 & B3 & B4)]; [congruence|].
             split; [exact C1|]. split; [rewrite S4; exact B2|]. split; [rewrite S1; exact B3|].
             unfold live_ok, g' in *. cbn [mg_sent mg_lost mg_appl]. rewrite C3. exact (perm_frame _ _ _ _ _ _ _ _ B4 C4).
          -- destruct A4 as (B1 & _). congruence.
          -- exact I.
  Qed.

  Lemma perm_send {A} (sent a b i l z n : list A) :
    Permutation sent (a ++ b ++ i ++ l ++ z) -> Permutation (sent ++ n) (a ++ b ++ i ++ (l ++ n) ++ z).
  Proof.
    intros H. eapply Permutation_trans; [apply Permutation_app_tail; exact H|]. rewrite <- !app_assoc.
    do 4 apply Permutation_app_head. apply Permutation_app_comm.
  Qed.

  Lemma step_sframe script y G tick dt cleanup ops parts y' o :
    m_inv script y G -> parts_small_step (StSFrame tick dt cleanup ops parts) = true ->
    tick_frames (script ++ [StSFrame tick dt cleanup ops parts]) < 2 ^ 31 ->
    sys_step y (StSFrame tick dt cleanup ops parts) = Ok (y', o) ->
    m_inv (script ++ [StSFrame tick dt cleanup ops parts]) y' (mstep y G (StSFrame tick dt cleanup ops parts)).
  Proof.
    intros Hi Hps HB H. pose proof Hi as [I1 I2 I3 I4 I5 I6 I7]. cbn [sys_step] in H. cbn [mstep]; unfold mg_add_sent, mg_clear_srv, mg_add_lost, mg_add_appl, mg_clear_cli.
    apply bind_ok in H. destruct H as [[s' fo] [Ef H]]. inversion H; subst y' o. clear H. rewrite Ef.
    destruct (server_frame_mt _ _ _ _ _ _ _ _ _ I2 Ef) as (M1 & M2 & M3 & M4 & M5 & M6 & M7).
    destruct (enqueue_fields (fo_clients fo) (set_server y s')) as (Ec & Es & Eg).
    cbn [set_server y_clients y_server y_cfg] in Ec, Es, Eg.
    rewrite tick_frames_snoc in HB. cbn [is_tick_frame] in HB.
    set (s := y_server y) in *. set (outs := fo_clients fo) in *.
    set (t1 := if tick then tick_add (sv_tick s) 1 else sv_tick s) in *.
    pose proof Npow31 as P31. pose proof Npow32 as P32.
    assert (Ht1 : t1 = sv_tick s + (if tick then 1 else 0)).
    { unfold t1. destruct tick; [|lia]. unfold tick_add. apply N.mod_small. lia. }
    assert (Hold : forall k m, In m (mg_sent (G k)) -> m_tick m <= sv_tick s).
    { intros k m Hm. pose proof (I5 k m Hm) as Hb. fold s in Hb. destruct (sv_dirty s); lia. }
    assert (Hslots : forall k, In k (slots_of s') -> slots_of s' = slots_of s /\ sv_tick s' = t1).
    { intros k Hk. destruct M4 as [M4|[M4 _]]; [|unfold slots_of in Hk; rewrite M4 in Hk; destruct Hk].
      split; [exact M4|]. destruct M3 as [M3|(_ & M3 & _)]; [exact M3|]. unfold slots_of in Hk. rewrite M3 in Hk. destruct Hk. }
    assert (Hnew_old : forall k m, mutates_for k outs <> [] -> In m (mg_sent (G k)) -> m_tick m < t1).
    { intros k m Hne Hm. assert (Ho : outs <> []) by (intros E; unfold outs in *; rewrite E in Hne; apply Hne; reflexivity).
      destruct (M5 Ho) as (_ & _ & Hd). pose proof (I5 k m Hm) as Hb. fold s in Hb. rewrite Ht1.
      destruct Hd as [-> |Hd]; [destruct (sv_dirty s); lia|]. rewrite Hd in Hb. destruct tick; lia. }
    constructor.
    - congruence.
    - rewrite Es. destruct M4 as [M4|[M4 _]]; [rewrite M4; exact I2|unfold slots_of; rewrite M4; constructor].
    - rewrite Es, tick_frames_snoc. cbn [is_tick_frame]. destruct M3 as [M3|(M3 & _)]; [rewrite M3, Ht1; destruct tick; lia|rewrite M3; lia].
    - intros k Hn. rewrite Es in Hn. apply find_client_none_slots in Hn. rewrite Hn. reflexivity.
    - intros k m Hm. rewrite Es, M1. destruct (find_client s' k) eqn:Efc; [|destruct Hm].
      assert (Hk : In k (slots_of s')) by (apply find_client_slots; rewrite Efc; discriminate).
      destruct (Hslots k Hk) as [_ Et]. rewrite Et. cbn [mg_sent] in Hm. apply in_app_or in Hm. destruct Hm as [Hm|Hm].
      + pose proof (Hold k m Hm). lia.
      + destruct (M7 k m Hm) as (Q1 & _). rewrite Q1, Et. lia.
    - intros k. destruct (find_client s' k) eqn:Efc; [|apply srv_proto_nil]. cbn [mg_sent].
      assert (Hk : In k (slots_of s')) by (apply find_client_slots; rewrite Efc; discriminate).
      destruct (Hslots k Hk) as [_ Et].
      assert (Hnt : forall m, In m (mutates_for k outs) -> m_tick m = t1) by (intros m Hm; destruct (M7 k m Hm) as (Q1 & _); congruence).
      intros m Hm. apply in_app_or in Hm. destruct Hm as [Hm|Hm].
      + destruct (I6 k m Hm) as (Q1 & Q2 & Q3). split; [exact Q1|]. split; [exact Q2|]. rewrite Q3. destruct track; [|reflexivity].
        rewrite count_tick_app. f_equal. destruct (mutates_for k outs) as [|m0 r0] eqn:En; [unfold count_tick; cbn [filter length]; lia|].
        rewrite (count_tick_none (m_tick m) (m0 :: r0)); [lia|]. intros m1 Hm1. rewrite (Hnt m1 Hm1).
        assert (Hlt : m_tick m < t1) by (apply (Hnew_old k); [rewrite En; discriminate|exact Hm]). lia.
      + destruct (M7 k m Hm) as (Q1 & Q2 & Q3 & Q4). split; [exact Q2|]. split; [apply Q4; exact Hps|]. rewrite Q3, I1.
        destruct track; [|reflexivity]. rewrite count_tick_app, (Hnt m Hm), (count_tick_all t1 _ Hnt).
        rewrite (count_tick_none t1 (mg_sent (G k))); [reflexivity|]. intros m1 Hm1.
        assert (Hlt : m_tick m1 < t1) by (apply (Hnew_old k); [intros E; rewrite E in Hm; destruct Hm|exact Hm1]). lia.
    - intros k c Hc. rewrite Ec in Hc. rewrite Es, enqueue_lmut. change (get_link (set_server y s') k) with (get_link y k).
      rewrite mode_of_snoc. cbn [mode_step]. destruct (I7 k c Hc) as (A1 & A2 & A3 & A4). fold s in A4. fold outs.
      assert (Hae : mg_appl (match find_client s' k with
                             | Some _ => mkMG (mg_sent (G k) ++ mutates_for k outs) (mg_lost (G k)) (mg_appl (G k)) (mg_evs (G k))
                             | None => mkMG [] [] (mg_appl (G k)) (mg_evs (G k)) end) = mg_appl (G k) /\
                    mg_evs (match find_client s' k with
                            | Some _ => mkMG (mg_sent (G k) ++ mutates_for k outs) (mg_lost (G k)) (mg_appl (G k)) (mg_evs (G k))
                            | None => mkMG [] [] (mg_appl (G k)) (mg_evs (G k)) end) = mg_evs (G k))
        by (destruct (find_client s' k); split; reflexivity).
      destruct Hae as [Ha Hev].
      split; [unfold replay_ok in *; rewrite Ha, Hev; exact A1|]. split; [unfold fresh_ok in *; rewrite Ha, Hev; exact A2|].
      split; [exact A3|].
      assert (Hnot : ~ In k (slots_of s) -> ~ In k (slots_of s')).
      { intros Hn Hin. destruct (Hslots k Hin) as [E _]. rewrite E in Hin. exact (Hn Hin). }
      assert (Hcl : forall lm, lm = [] -> ~ In k (slots_of s) ->
                lm ++ mutates_for k outs = [] /\ ~ In k (slots_of s') /\
                mg_lost (match find_client s' k with
                         | Some _ => mkMG (mg_sent (G k) ++ mutates_for k outs) (mg_lost (G k)) (mg_appl (G k)) (mg_evs (G k))
                         | None => mkMG [] [] (mg_appl (G k)) (mg_evs (G k)) end) = []).
      { intros lm -> Hn. pose proof (Hnot Hn) as Hn'. rewrite (M6 k Hn'). split; [reflexivity|]. split; [exact Hn'|].
        apply find_client_none_slots in Hn'. rewrite Hn'. reflexivity. }
      destruct (mode_of script k); cbn [mode_ok] in *.
      + destruct A4 as (B1 & B2 & B3 & B4 & B5). destruct (Hcl _ B3 B4) as (X1 & X2 & X3). unfold clean_st. auto.
      + destruct A4 as [(B1 & B2 & B3 & B4 & B5)|(B1 & B2 & B3 & B4)].
        * left. destruct (Hcl _ B3 B4) as (X1 & X2 & X3). unfold clean_st. auto.
        * right. assert (Esl : slots_of s' = slots_of s) by (destruct M4 as [M4|[_ M4]]; [exact M4|congruence]).
          assert (Hin' : In k (slots_of s')) by (rewrite Esl; exact B3).
          pose proof (proj2 (find_client_slots s' k) Hin') as Hf. destruct (find_client s' k) as [r|]; [|congruence].
          split; [exact B1|]. split; [congruence|]. split; [exact Hin'|].
          unfold live_ok in *. cbn [mg_sent mg_lost mg_appl]. apply perm_send. exact B4.
      + destruct A4 as (B1 & B3 & B4 & B5). destruct (Hcl _ B3 B4) as (X1 & X2 & X3). unfold left_st. auto.
      + exact I.
  Qed.

  (* ================================================================== *)
  (* 5. the run                                                         *)
  (* ================================================================== *)

  Theorem m_inv_step script st y G y' o :
    m_inv script y G -> sessions_ok (script ++ [st]) = true -> parts_small_step st = true ->
    tick_frames (script ++ [st]) < 2 ^ 31 -> sys_step y st = Ok (y', o) -> m_inv (script ++ [st]) y' (mstep y G st).
  Proof.
    intros Hi Hs Hp HB H. rewrite sessions_ok_snoc in Hs. apply andb_prop in Hs. destruct Hs as [_ Hs].
    destruct st as [| |slot max|slot|slot|tick dt cleanup ops parts|slot ops|slot s2c ch w|slot s2c ch w].
    - exact (step_start script y G y' o Hi H).
    - exact (step_stop script y G y' o Hi H).
    - exact (step_connect script y G slot max y' o Hi Hs H).
    - exact (step_authorize script y G slot y' o Hi H).
    - exact (step_disconnect script y G slot y' o Hi H).
    - exact (step_sframe script y G tick dt cleanup ops parts y' o Hi Hp HB H).
    - exact (step_cframe script y G slot ops y' o Hi H).
    - exact (step_deliver script y G slot s2c ch w y' o Hi H).
    - exact (step_drop script y G slot s2c ch w y' o Hi H).
  Qed.

  Lemma sessions_ok_prefix script st : sessions_ok (script ++ [st]) = true -> sessions_ok script = true.
  Proof. rewrite sessions_ok_snoc. intros H. apply andb_prop in H. exact (proj1 H). Qed.

  Theorem m_inv_run script : forall y G,
    sessions_ok script = true -> parts_small script = true -> tick_frames script < 2 ^ 31 ->
    mrun (sys_init cfg0 nclients) mgs_empty script = Ok (y, G) -> m_inv script y G.
  Proof.
    induction script as [|st t IH] using rev_ind; intros y G Hs Hp HB H.
    - cbn in H. inversion H; subst. apply m_inv_init.
    - rewrite mrun_app in H. apply bind_ok in H. destruct H as [[y1 G1] [E1 H]].
      cbn [mrun] in H. apply bind_ok in H. destruct H as [[y2 o] [E2 H]]. cbn [mrun] in H. inversion H; subst y G. clear H.
      unfold parts_small in Hp. rewrite forallb_app in Hp. apply andb_prop in Hp. destruct Hp as [Hp1 Hp2].
      cbn [forallb] in Hp2. rewrite andb_true_r in Hp2.
      assert (HB1 : tick_frames t < 2 ^ 31) by (pose proof (tick_frames_le t st); lia).
      exact (m_inv_step t st y1 G1 y2 o (IH y1 G1 (sessions_ok_prefix t st Hs) Hp1 HB1 E1) Hs Hp2 HB E2).
  Qed.
End MtRun.
