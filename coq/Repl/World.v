(* Layer 1, shared vocabulary: values, component kinds, the server world with Bevy-style
   change stamps, structured replication messages.

   Identifiers are the abstract numbers the scripts use (server entities in spawn order,
   client slots, pre-spawned client entities).  Change stamps are a logical counter:
   every operation is stamped with the current value, `send_replication` runs with
   `this_run = now` and then advances it; a stamp s is "newer than t" iff t < s.
   (Bevy compares wrapping u32 ticks by age; the two agree while stamp distances stay
   below 2^31, which is an assumption of this layer.) *)
From RV Require Import Lib.Res Repl.ClientTicks.
Open Scope N_scope.

Inductive val := VNat (n : N) | VRef (e : N).

Definition val_eqb (a b : val) : bool :=
  match a, b with
  | VNat x, VNat y => x =? y
  | VRef x, VRef y => x =? y
  | _, _ => false
  end.

(* component kinds of the harness pool: 0 A, 1 B (every tick), 2 O (SendRate::Once),
   3 R (entity reference, every tick), 4 P (SendRate::Periodic(2)); single-component rules,
   registered in this order *)
Inductive rate := EveryTick | Once | Periodic (period : N).
Definition rate_of (k : N) : rate :=
  if k =? 2 then Once else if k =? 4 then Periodic 2 else EveryTick.
Definition nkinds : N := 5.

(* SendRate::send_mutations *)
Definition send_mutations (r : rate) (tick : N) : res bool :=
  match r with
  | EveryTick => Ok true
  | Once => Ok false
  | Periodic p => if p =? 0 then Panic else Ok (tick mod p =? 0)     (* `%` by zero *)
  end.

Record comp := mkComp { c_val : val; c_added : N; c_changed : N }.

Record sent := mkSEnt {
  se_alive : bool;
  se_marker : option N;                 (* `Replicated` with its added stamp *)
  se_comps : list (N * comp)            (* kind -> component *)
}.

(* sorted insertion keeps the per-entity component list ordered by kind (= rule order) *)
Fixpoint kinsert {V : Type} (k : N) (v : V) (l : list (N * V)) : list (N * V) :=
  match l with
  | [] => [(k, v)]
  | (k', v') :: t =>
    if k =? k' then (k, v) :: t
    else if k <? k' then (k, v) :: (k', v') :: t
    else (k', v') :: kinsert k v t
  end.

Fixpoint insert_sorted (x : N) (l : list N) : list N :=
  match l with
  | [] => [x]
  | y :: t => if x <=? y then x :: y :: t else y :: insert_sorted x t
  end.
Definition sort_N (l : list N) : list N := fold_right insert_sorted [] l.

Definition mem_N (x : N) (l : list N) : bool := existsb (N.eqb x) l.

(* ---------- structured messages ---------- *)

Record update_msg := mkUpd {
  u_tick : N;
  u_maps : list (N * N);                      (* server entity, pre-spawned client id *)
  u_despawns : list N;
  u_removals : list (N * list N);             (* entity, kinds *)
  u_changes : list (N * list (N * val))       (* entity, kind = value *)
}.

Record mutate_msg := mkMut {
  m_upd_tick : N;
  m_tick : N;
  m_count : N;                                (* messages of this tick; 1 when not tracking *)
  m_idx : N;
  m_body : list (N * list (N * val))
}.

Definition update_is_empty (u : update_msg) : bool :=
  match u_maps u, u_despawns u, u_removals u, u_changes u with
  | [], [], [], [] => true
  | _, _, _, _ => false
  end.
