(* C12 end to end, H1, client half: every operation of the client model keeps [HInv c g] (Repl/HistRunSpec.v):
   each alive client entity with a confirm history [h] satisfies [hist_R h (h_last h) (ghost set)], the last tick
   being the maximum of the ghost set.  The only premise is that the ticks of the messages have not wrapped
   (below 2^31): `confirm_tick` / `apply_mutations` only ever call `set_last_tick` with a tick that is not older
   than the last one (otherwise the debug assertion panics / the entry is skipped), which is the case of
   Layer 0's `hist_confirm_R` where the set simply grows. *)
From RV Require Import Lib.Res Repl.ClientTicks Repl.ClientTicks_proofs Repl.World Repl.Server Repl.Client Repl.Sys
  Tick.RepliconTick Tick.RepliconTick_proofs Tick.ConfirmHistory Tick.ConfirmHistory_proofs Tick.MutateTicks Tick.TickSpec
  Repl.Client_proofs Repl.ClientEnt_proofs Repl.ClientMut_proofs Repl.ClientSys_proofs Repl.ClientStructSpec Repl.ClientStruct_proofs
  Repl.ClientHist_proofs Repl.Session_proofs Repl.HistRunSpec.
From Coq Require Import ZifyBool ZifyN.
Open Scope N_scope.
Ltac Zify.zify_post_hook ::= Z.div_mod_to_equations.
Arguments N.add : simpl never. Arguments N.mul : simpl never. Arguments N.pow : simpl never.
Arguments N.ltb : simpl never. Arguments N.leb : simpl never. Arguments N.div : simpl never.
Arguments N.modulo : simpl never. Arguments N.sub : simpl never. Arguments N.eqb : simpl never.

(* ================================================================== *)
(* 1. Layer 0: `set_last_tick` with a tick that is not older          *)
(* ================================================================== *)

Lemma hist_set_last_tick_R h L S t h' : hist_R h L S -> (L <= t)%Z -> (t - L < 2 ^ 31)%Z ->
  hist_set_last_tick h (wrap t) = Ok h' -> hist_R h' t (t :: S).
Proof.
  intros HR Hle Hd H. pose proof HR as (Hl & Hm & Hb & Hu).
  destruct (Z.eq_dec L t) as [->|Hne].
  - unfold hist_set_last_tick in H. rewrite Hl in H.
    destruct (tick_geb (wrap t) (wrap t)); cbn [negb] in H; [|discriminate].
    rewrite tick_sub_wrap in H. replace (t - t)%Z with 0%Z in H by lia. change (wrap 0) with 0 in H.
    change (0 <? 64) with true in H. cbv iota in H. rewrite N.shiftl_0_r, N.mod_small in H by exact Hm.
    inversion H; subst h'. clear H. split; [reflexivity|]. cbn [h_mask h_last]. split; [apply lor_lt_pow2; [exact Hm|rewrite Npow64; lia]|].
    split.
    + intros i Hi. rewrite N.lor_spec, testbit_1, mem_cons, (Hb i Hi).
      destruct (Z.eqb_spec (t - i) t) as [E1|E1]; destruct (N.eqb_spec (Z.to_N i) 0) as [E2|E2]; try lia;
        destruct (mem (t - i) S); reflexivity.
    + intros x Hx. rewrite mem_cons in Hx. apply orb_prop in Hx. destruct Hx as [Hx|Hx]; [lia|exact (Hu x Hx)].
  - destruct (hist_confirm_R h L S t HR) as (h2 & E2 & R2); [rewrite Z.abs_eq by lia; exact Hd|].
    unfold hist_confirm in E2. rewrite Hl, tick_gtb_spec in E2 by (rewrite Z.abs_eq by lia; exact Hd).
    destruct (Z.ltb_spec L t); [|lia]. rewrite E2 in H. inversion H; subst h2.
    rewrite Z.max_r in R2 by lia. exact R2.
Qed.

Lemma tick_geb_small a b : small_tick a -> small_tick b -> tick_geb a b = (b <=? a).
Proof.
  unfold small_tick. intros Ha Hb. pose proof Npow31 as P31. pose proof Npow32 as P32.
  replace (tick_geb a b) with (tick_geb (wrap (Z.of_N a)) (wrap (Z.of_N b)))
    by (rewrite !wrap_of_N by lia; reflexivity).
  rewrite tick_geb_spec by (rewrite Zpow31; lia).
  destruct (Z.leb_spec (Z.of_N b) (Z.of_N a)); destruct (N.leb_spec b a); lia.
Qed.

Lemma hgood_set_last h S T h' : hgood h S -> small_tick T -> hist_set_last_tick h T = Ok h' -> hgood h' (T :: S).
Proof.
  intros (Hs & Hin & Hmax & HR) HT H. pose proof Npow31 as P31. pose proof Npow32 as P32. pose proof Zpow31 as Z31.
  destruct (hist_set_last_tick_ok h T h' H) as [Hl Hge]. rewrite (tick_geb_small T (h_last h) HT Hs) in Hge.
  unfold small_tick in *.
  split; [rewrite Hl; exact HT|]. split; [rewrite Hl; left; reflexivity|]. split.
  - intros t [<-|Ht]; [lia|]. rewrite Hl. specialize (Hmax t Ht). lia.
  - rewrite Hl. change (zticks (T :: S)) with (Z.of_N T :: zticks S).
    apply (hist_set_last_tick_R h (Z.of_N (h_last h)) (zticks S)); [exact HR|lia|lia|].
    rewrite wrap_of_N by lia. exact H.
Qed.

Lemma hgood_new T : small_tick T -> hgood (hist_new T) [T].
Proof.
  intros HT. pose proof Npow31 as P31. pose proof Npow32 as P32. unfold small_tick in HT.
  split; [exact HT|]. split; [left; reflexivity|]. split; [intros t [<-|[]]; cbn; lia|].
  cbn [hist_new h_last zticks map]. pose proof (hist_new_R (Z.of_N T)) as H. rewrite wrap_of_N in H by lia. exact H.
Qed.

(* ================================================================== *)
(* 2. the ghost only grows                                            *)
(* ================================================================== *)

Lemma hg_le_refl g : hg_le g g.
Proof. intros cid. exists []. reflexivity. Qed.

Lemma hg_le_trans a b c : hg_le a b -> hg_le b c -> hg_le a c.
Proof. intros H1 H2 cid. destruct (H1 cid) as [l1 E1]. destruct (H2 cid) as [l2 E2]. exists (l2 ++ l1). rewrite E2, E1, app_assoc. reflexivity. Qed.

Lemma hg_le_add g cid T : hg_le g (hg_add g cid T).
Proof. intros k. unfold hg_add. destruct (k =? cid); [exists [T]|exists []]; reflexivity. Qed.

Lemma hg_le_entry T c e g : hg_le g (hg_entry T c e g).
Proof. unfold hg_entry. destruct (entry_cid c e); [apply hg_le_add|apply hg_le_refl]. Qed.

Lemma hg_le_mutation T c e g : hg_le g (hg_mutation T c e g).
Proof.
  unfold hg_mutation. destruct (al_get e (cl_s2c c)) as [cid|]; [|apply hg_le_refl].
  destruct (get_cent c cid) as [x|]; [|apply hg_le_refl]. destruct (ce_alive x); [|apply hg_le_refl].
  destruct (ce_hist x) as [h|]; [|apply hg_le_refl]. destruct (tick_gtb T (h_last h)); [apply hg_le_add|apply hg_le_refl].
Qed.

Lemma hg_le_array {A} (f : client -> A -> res step_result) gf items :
  (forall c a g, hg_le g (gf c a g)) -> forall c g, hg_le g (hg_array f gf items c g).
Proof.
  intros Hgf. induction items as [|a t IH]; intros c g; cbn [hg_array]; [apply hg_le_refl|].
  destruct (f c a) as [[c1|c1]| |]; [|apply Hgf|apply hg_le_refl|apply hg_le_refl].
  eapply hg_le_trans; [apply Hgf|apply IH].
Qed.

Lemma hg_le_update c u g : hg_le g (hg_update c u g).
Proof.
  unfold hg_update. cbv zeta.
  assert (H3 : hg_le g (hg_array (fun c0 r => apply_removals c0 (u_tick u) (fst r) (snd r))
                          (fun c0 (r : N * list N) => hg_entry (u_tick u) c0 (fst r)) (u_removals u) (update_pre c u) g))
    by (apply hg_le_array; intros; apply hg_le_entry).
  match goal with |- hg_le g (match ?R with _ => _ end) => destruct R as [[c3|c3]| |] end; try exact H3.
  eapply hg_le_trans; [exact H3|]. apply hg_le_array; intros; apply hg_le_entry.
Qed.

Lemma hg_le_inbox us : forall c g, hg_le g (hg_inbox us c g).
Proof.
  induction us as [|u t IH]; intros c g; cbn [hg_inbox]; [apply hg_le_refl|].
  destruct (apply_update_message c u); [|apply hg_le_refl..]. eapply hg_le_trans; [apply hg_le_update|apply IH].
Qed.

Lemma hg_le_mm upd buf : forall st g, hg_le g (hg_mm upd buf st g).
Proof.
  induction buf as [|m t IH]; intros st g; cbn [hg_mm]; [apply hg_le_refl|].
  destruct (mm_step upd st m); [|apply hg_le_refl..]. eapply hg_le_trans; [|apply IH].
  destruct (tick_gtb (m_upd_tick m) upd); [apply hg_le_refl|]. apply hg_le_array. intros; apply hg_le_mutation.
Qed.

Lemma hg_le_frame c g : hg_le g (hg_frame c g).
Proof.
  unfold hg_frame. destruct (cl_status c); [apply hg_le_refl|].
  destruct (fold_left _ _ _); [|apply hg_le_refl..]. cbv zeta. eapply hg_le_trans; [apply hg_le_inbox|apply hg_le_mm].
Qed.

(* ================================================================== *)
(* 3. [HInv] under the primitive operations                           *)
(* ================================================================== *)

Lemma hinv_ext c c' g : cl_ents c' = cl_ents c -> cl_next c' = cl_next c -> HInv c g -> HInv c' g.
Proof.
  intros E1 E2 (F & Z & H). split; [exact (ewf_ext c c' E1 E2 F)|]. split; [rewrite E2; exact Z|].
  intros cid x. unfold get_cent. rewrite E1. apply H.
Qed.

Lemma hinv_set_cent c g cid x x' g' : HInv c g -> get_cent c cid = Some x ->
  (forall k, k <> cid -> g' k = g k) -> ent_ok x' (g' cid) -> HInv (set_cent c cid x') g'.
Proof.
  intros (F & Z & H) Hx Hg Hok. pose proof (ents_fresh_lt c cid x (proj2 F) Hx) as Hlt.
  split; [exact (ewf_set_cent c cid x x' F Hx)|]. split.
  - intros k Hk. change (cl_next (set_cent c cid x')) with (cl_next c) in Hk. rewrite Hg by lia. apply Z. exact Hk.
  - intros k y. destruct (N.eq_dec k cid) as [->|Hne].
    + rewrite get_cent_set_cent_same. intros E; inversion E; subst. exact Hok.
    + rewrite get_cent_set_cent_other by exact Hne. rewrite Hg by exact Hne. apply H.
Qed.

Lemma hinv_set_same c g cid x x' : HInv c g -> get_cent c cid = Some x ->
  (ce_alive x' = true -> ce_alive x = true /\ ce_hist x' = ce_hist x) -> HInv (set_cent c cid x') g.
Proof.
  intros Hi Hx Hs. apply (hinv_set_cent c g cid x x' g Hi Hx); [reflexivity|].
  intros Ha. destruct (Hs Ha) as [Ha0 ->]. destruct Hi as (_ & _ & H). exact (H cid x Hx Ha0).
Qed.

Lemma hinv_spawn c g p m : HInv c g -> HInv (fst (spawn_cent c p m)) g.
Proof.
  intros (F & Z & H). split; [apply ewf_spawn; exact F|]. split.
  - intros k Hk. cbn in Hk. apply Z. lia.
  - intros k y Hy. unfold get_cent in Hy. cbn in Hy. apply al_get_snoc in Hy. destruct Hy as [Hy|(_ & -> & ->)]; [exact (H k y Hy)|].
    intros _. cbn. apply Z. lia.
Qed.

Lemma hinv_spawn_vacant c g s p m : HInv c g -> HInv (emap_vacant_insert (fst (spawn_cent c p m)) s (cl_next c)) g.
Proof. intros H. apply (hinv_ext (fst (spawn_cent c p m))); [reflexivity|reflexivity|apply hinv_spawn; exact H]. Qed.

Lemma hinv_entry c g e c1 cid : HInv c g -> entry_entity c e = Some (c1, cid) ->
  HInv c1 g /\ exists x, get_cent c1 cid = Some x /\ ce_alive x = true.
Proof.
  intros Hi He. split; [|exact (entry_alive c e c1 cid (proj2 (proj1 Hi)) He)].
  unfold entry_entity in He. destruct (al_get e (cl_s2c c)) as [cid0|].
  - destruct (alive c cid0); [|discriminate]. inversion He; subst. exact Hi.
  - cbn in He. inversion He; subst. exact (hinv_spawn_vacant c g e None true Hi).
Qed.

Lemma hinv_map_value c g v : HInv c g -> HInv (fst (map_value c v)) g.
Proof.
  intros Hi. unfold map_value. destruct v as [n|t]; [exact Hi|]. destruct (al_get t (cl_s2c c)); [exact Hi|].
  exact (hinv_spawn_vacant c g t None false Hi).
Qed.

Lemma hinv_write_one cid c g kv : HInv c g -> HInv (write_one cid c kv) g.
Proof.
  intros Hi. rewrite write_one_eq. pose proof (hinv_map_value c g (snd kv) Hi) as H1.
  destruct (get_cent _ cid) as [x|] eqn:E; [|exact H1]. apply (hinv_set_same _ g cid x); [exact H1|exact E|].
  cbn. auto.
Qed.

Lemma hinv_write_comps c g cid comps : HInv c g -> HInv (write_comps c cid comps) g.
Proof.
  rewrite write_comps_fold. revert c. induction comps as [|kv t IH]; intros c H; cbn [fold_left]; [exact H|].
  apply IH. apply hinv_write_one. exact H.
Qed.

Lemma hinv_despawn c g s : HInv c g -> HInv (apply_despawn c s) g.
Proof.
  intros Hi. unfold apply_despawn, emap_remove_server. destruct (al_get s (cl_s2c c)) as [cid|]; [|exact Hi].
  cbv beta iota. rewrite get_cent_set_maps.
  assert (G : HInv (set_maps c (al_remove s (cl_s2c c)) (al_remove cid (cl_c2s c))) g) by (revert Hi; apply hinv_ext; reflexivity).
  destruct (get_cent c cid) as [x|] eqn:Ex; [|exact G]. destruct (ce_alive x); [|exact G].
  apply (hinv_set_same _ g cid x); [exact G|exact Ex|]. cbn. discriminate.
Qed.

Lemma hinv_mapping c g s pc : HInv c g -> HInv (apply_entity_mapping c s pc) g.
Proof.
  intros Hi. destruct (mapping_cases c s pc) as [[-> _]|(cid & x & Hin & _ & Ha & _ & ->)]; [exact Hi|].
  assert (Hx : get_cent c cid = Some x) by (apply al_get_in_nodup; [exact (proj1 (proj1 Hi))|exact Hin]).
  apply (hinv_ext (set_cent c cid (mkCEnt true (ce_pre x) true (ce_hist x) (ce_comps x)))); [reflexivity|reflexivity|].
  apply (hinv_set_same c g cid x); [exact Hi|exact Hx|]. cbn. auto.
Qed.

Lemma hinv_update_pre c g u : HInv c g -> HInv (update_pre c u) g.
Proof.
  intros Hi. unfold update_pre. apply (fold_left_inv (fun c => HInv c g)); [intros; apply hinv_mapping; assumption|].
  apply (fold_left_inv (fun c => HInv c g)); [intros; apply hinv_despawn; assumption|].
  revert Hi. apply hinv_ext; reflexivity.
Qed.

Lemma hinv_cop c g op : HInv c g -> HInv (apply_cop c op) g.
Proof.
  intros Hi. destruct op as [pc|pc]; cbn [apply_cop].
  - destruct (existsb _ (cl_ents c)); [exact Hi|]. apply hinv_spawn. exact Hi.
  - destruct (find _ (cl_ents c)) as [[cid x]|] eqn:Ef; [|exact Hi]. destruct (ce_alive x); [|exact Hi].
    apply find_some in Ef. destruct Ef as [Hin _].
    assert (Hx : get_cent c cid = Some x) by (apply al_get_in_nodup; [exact (proj1 (proj1 Hi))|exact Hin]).
    apply (hinv_set_same c g cid x); [exact Hi|exact Hx|]. cbn. discriminate.
Qed.

Lemma hinv_cops ops : forall c g, HInv c g -> HInv (fold_left apply_cop ops c) g.
Proof. induction ops as [|op t IH]; intros c g H; cbn [fold_left]; [exact H|]. apply IH. apply hinv_cop. exact H. Qed.

Lemma hinv_init track : HInv (client_init track) hg_empty.
Proof. split; [apply ewf_init|]. split; [reflexivity|]. intros cid x H. discriminate H. Qed.

(* ================================================================== *)
(* 4. the confirming operations                                       *)
(* ================================================================== *)

Lemma confirm_ent_ok x S T x1 : ent_ok x S -> ce_alive x = true -> small_tick T -> confirm_tick x T = Ok x1 ->
  ent_ok x1 (T :: S).
Proof.
  intros Hok Ha HT H. specialize (Hok Ha). unfold confirm_tick in H. destruct (ce_hist x) as [h|].
  - apply bind_ok in H. destruct H as [h' [Eh H]]. inversion H; subst x1. intros _. cbn [ce_hist].
    exact (hgood_set_last h S T h' Hok HT Eh).
  - inversion H; subst x1. intros _. cbn [ce_hist]. subst S. exact (hgood_new T HT).
Qed.

Lemma hg_add_same g cid T : hg_add g cid T cid = T :: g cid.
Proof. unfold hg_add. rewrite N.eqb_refl. reflexivity. Qed.
Lemma hg_add_other g cid T k : k <> cid -> hg_add g cid T k = g k.
Proof. intros H. unfold hg_add. destruct (k =? cid) eqn:E; [lia|reflexivity]. Qed.

Lemma hinv_changes c g T e comps r : HInv c g -> small_tick T -> apply_changes c T e comps = Ok r ->
  HInv (sr_client r) (hg_entry T c e g).
Proof.
  intros Hi HT H. unfold apply_changes in H. unfold hg_entry, entry_cid.
  destruct (entry_entity c e) as [[c1 cid]|] eqn:Ee; [|inversion H; subst; exact Hi].
  destruct (hinv_entry c g e c1 cid Hi Ee) as [H1 (x & Hx & Ha)]. rewrite Hx in H.
  apply bind_ok in H. destruct H as [x1 [E1 H]]. inversion H; subst r. clear H. cbn [sr_client].
  apply hinv_write_comps. apply (hinv_set_cent c1 g cid x x1); [exact H1|exact Hx|intros k Hk; apply hg_add_other; exact Hk|].
  rewrite hg_add_same. apply (confirm_ent_ok (with_marker x)); [|exact Ha|exact HT|exact E1].
  destruct H1 as (_ & _ & Hall). exact (Hall cid x Hx).
Qed.

Lemma hinv_removals c g T e kinds r : HInv c g -> small_tick T -> apply_removals c T e kinds = Ok r ->
  HInv (sr_client r) (hg_entry T c e g).
Proof.
  intros Hi HT H. unfold apply_removals in H. unfold hg_entry, entry_cid.
  destruct (entry_entity c e) as [[c1 cid]|] eqn:Ee; [|inversion H; subst; exact Hi].
  destruct (hinv_entry c g e c1 cid Hi Ee) as [H1 (x & Hx & Ha)]. rewrite Hx in H.
  apply bind_ok in H. destruct H as [x1 [E1 H]]. inversion H; subst r. clear H. cbn [sr_client].
  apply (hinv_set_cent c1 g cid x _ (hg_add g cid T)); [exact H1|exact Hx|intros k Hk; apply hg_add_other; exact Hk|].
  rewrite hg_add_same.
  assert (Hok1 : ent_ok x1 (T :: g cid)).
  { apply (confirm_ent_ok (with_marker x)); [|exact Ha|exact HT|exact E1]. destruct H1 as (_ & _ & Hall). exact (Hall cid x Hx). }
  intros Ha2. exact (Hok1 Ha2).
Qed.

Lemma hinv_mutations c g T e comps r : HInv c g -> small_tick T -> apply_mutations c T e comps = Ok r ->
  HInv (sr_client r) (hg_mutation T c e g).
Proof.
  intros Hi HT H. unfold apply_mutations in H. unfold hg_mutation.
  destruct (al_get e (cl_s2c c)) as [cid|]; [|inversion H; subst; exact Hi].
  destruct (get_cent c cid) as [x|] eqn:Hx; [|inversion H; subst; exact Hi].
  destruct (ce_alive x) eqn:Ha; cbn [negb] in H; [|inversion H; subst; exact Hi].
  destruct (ce_hist x) as [h|] eqn:Hh; [|inversion H; subst; exact Hi].
  destruct (tick_gtb T (h_last h)); [|inversion H; subst; exact Hi].
  apply bind_ok in H. destruct H as [h' [Eh H]]. inversion H; subst r. clear H. cbn [sr_client].
  apply hinv_write_comps. apply (hinv_set_cent c g cid x _ (hg_add g cid T)); [exact Hi|exact Hx|intros k Hk; apply hg_add_other; exact Hk|].
  rewrite hg_add_same. intros _. cbn [ce_hist]. destruct Hi as (_ & _ & Hall). pose proof (Hall cid x Hx Ha) as Hg. rewrite Hh in Hg.
  exact (hgood_set_last h (g cid) T h' Hg HT Eh).
Qed.

(* ================================================================== *)
(* 5. arrays, messages, the frame                                     *)
(* ================================================================== *)

Lemma hg_array_inv {A} (P : client -> hghost -> Prop) (f : client -> A -> res step_result) gf items :
  (forall c a r g, In a items -> P c g -> f c a = Ok r -> P (sr_client r) (gf c a g)) ->
  forall c g r, P c g -> run_array f items c = Ok r -> P (sr_client r) (hg_array f gf items c g).
Proof.
  induction items as [|a t IH]; intros Hstep c g r HP H.
  - rewrite run_array_nil in H. inversion H; subst. exact HP.
  - rewrite run_array_cons in H. cbn [hg_array]. destruct (f c a) as [[c1|c1]| |] eqn:E; try discriminate.
    + apply IH; [intros c0 a0 r0 g0 Hin; apply Hstep; right; exact Hin| |exact H].
      exact (Hstep c a (Continue c1) g (or_introl eq_refl) HP E).
    + inversion H; subst. exact (Hstep c a (Abort c1) g (or_introl eq_refl) HP E).
Qed.

Theorem hinv_update c g u c' : HInv c g -> small_tick (u_tick u) -> apply_update_message c u = Ok c' ->
  HInv c' (hg_update c u g).
Proof.
  intros Hi HT H. unfold apply_update_message in H. cbv zeta in H. fold (update_pre c u) in H.
  unfold hg_update. cbv zeta.
  apply bind_ok in H. destruct H as [r3 [E3 H]]. rewrite E3.
  pose proof (hg_array_inv HInv _ (fun c0 (r : N * list N) => hg_entry (u_tick u) c0 (fst r)) (u_removals u)
                (fun c0 a r0 g0 _ P E => hinv_removals c0 g0 (u_tick u) (fst a) (snd a) r0 P HT E)
                (update_pre c u) g r3 (hinv_update_pre c g u Hi) E3) as H3.
  destruct r3 as [c3|c3]; cbn [sr_client] in H3; [|inversion H; subst; exact H3].
  apply bind_ok in H. destruct H as [r4 [E4 H]].
  pose proof (hg_array_inv HInv _ (fun c0 (ch : N * list (N * val)) => hg_entry (u_tick u) c0 (fst ch)) (u_changes u)
                (fun c0 a r0 g0 _ P E => hinv_changes c0 g0 (u_tick u) (fst a) (snd a) r0 P HT E)
                c3 _ r4 H3 E4) as H4.
  destruct r4 as [c4|c4]; cbn [sr_client] in H4; inversion H; subst; exact H4.
Qed.

Lemma hinv_inbox us : forall c g c1, HInv c g -> (forall u, In u us -> small_tick (u_tick u)) ->
  fold_left (res_step apply_update_message) us (Ok c) = Ok c1 -> HInv c1 (hg_inbox us c g).
Proof.
  induction us as [|u t IH]; intros c g c1 Hi Hs H.
  - cbn in H. inversion H; subst. exact Hi.
  - apply fold_res_cons_ok in H. destruct H as [c2 [E H]]. cbn [hg_inbox]. rewrite E.
    apply (IH c2); [|intros u0 Hin; apply Hs; right; exact Hin|exact H].
    exact (hinv_update c g u c2 Hi (Hs u (or_introl eq_refl)) E).
Qed.

Lemma hinv_mm upd buf : forall st g st', HInv (mm_client st) g -> (forall m, In m buf -> small_tick (m_tick m)) ->
  fold_left (res_step (mm_step upd)) buf (Ok st) = Ok st' -> HInv (mm_client st') (hg_mm upd buf st g).
Proof.
  induction buf as [|m t IH]; intros st g st' Hi Hs H.
  - cbn in H. inversion H; subst. exact Hi.
  - apply fold_res_cons_ok in H. destruct H as [st1 [E H]]. cbn [hg_mm]. rewrite E.
    apply (IH st1); [|intros m0 Hin; apply Hs; right; exact Hin|exact H].
    destruct st as [[[c0 kept] acks] evs]. unfold mm_client in *; cbn [fst] in *. cbn [mm_step] in E.
    destruct (tick_gtb (m_upd_tick m) upd).
    + inversion E; subst; cbn [fst]. exact Hi.
    + apply bind_ok in E. destruct E as [r [Er E]].
      assert (H1 : HInv (sr_client r) (hg_mutate_msg m c0 g)).
      { unfold hg_mutate_msg. refine (hg_array_inv HInv _ _ (m_body m) _ c0 g r Hi Er).
        intros c1 a r0 g0 _ P E0. exact (hinv_mutations c1 g0 (m_tick m) (fst a) (snd a) r0 P (Hs m (or_introl eq_refl)) E0). }
      change (match r with Continue ca => ca | Abort cb => cb end) with (sr_client r) in E.
      destruct (cl_mticks (sr_client r)) as [mtk|].
      * apply bind_ok in E. destruct E as [[mtk' done] [_ E]]. inversion E; subst; cbn [fst].
        revert H1. apply hinv_ext; reflexivity.
      * inversion E; subst; cbn [fst]. exact H1.
Qed.

Lemma inbox_fold_same_buf us : forall c c1, fold_left (res_step apply_update_message) us (Ok c) = Ok c1 -> same_buf c c1.
Proof.
  induction us as [|u t IH]; intros c c1 H.
  - cbn in H. inversion H; subst. split; reflexivity.
  - apply fold_res_cons_ok in H. destruct H as [c2 [E H]]. destruct (same_buf_update c u c2 E) as [A1 A2].
    destruct (IH c2 c1 H) as [B1 B2]. split; congruence.
Qed.

Lemma le_small B t : B < 2 ^ 31 -> t <= B -> small_tick t.
Proof. unfold small_tick. lia. Qed.

Theorem hinv_frame B c g ops c' out : B < 2 ^ 31 -> HInv c g -> cl_ticks_le B c -> client_frame c ops = Ok (c', out) ->
  HInv c' (hg_frame c g) /\ cl_ticks_le B c'.
Proof.
  intros HB Hi [Hu Hm] H. unfold client_frame in H. unfold hg_frame. destruct (cl_status c) eqn:Hc.
  - (* not connected: nothing is applied *)
    cbn [bind negb] in H. inversion H; subst c' out. clear H.
    set (c1 := if cl_last_not_disconnected c && true then client_reset c else c).
    assert (H1 : HInv c1 g) by (unfold c1; destruct (_ && _); [revert Hi; apply hinv_ext; reflexivity|exact Hi]).
    split.
    + apply (hinv_ext (fold_left apply_cop ops c1)); [reflexivity|reflexivity|]. apply hinv_cops. exact H1.
    + destruct (cops_fields ops c1) as (_ & K2 & K3 & K4). unfold cl_ticks_le. cbn [set_locals cl_inbox_upd cl_inbox_mut cl_buffered].
      rewrite K2, K3, K4. unfold c1. destruct (_ && _).
      * destruct (client_reset_fields c) as (_ & _ & _ & Eb & _ & _ & _ & _ & _ & _ & Eu & Em). rewrite Eb, Eu, Em.
        split; [exact Hu|]. intros m Hin. apply Hm. rewrite app_nil_r in Hin. apply in_or_app. left. exact Hin.
      * split; assumption.
  - (* connected *)
    rewrite andb_false_r in H. apply bind_ok in H. destruct H as [[c2 out2] [E H]]. inversion H; subst c' out. clear H.
    unfold apply_replication in E. apply bind_ok in E. destruct E as [c1 [E1 E]].
    change (fold_left (res_step apply_update_message) (cl_inbox_upd c) (Ok c) = Ok c1) in E1. rewrite E1. cbv zeta.
    fold (merge_mut_inbox c1) in E. set (cm := merge_mut_inbox c1) in *.
    pose proof (hinv_inbox _ c g c1 Hi (fun u Hin => le_small B _ HB (Hu u Hin)) E1) as H1.
    destruct (inbox_fold_same_buf _ c c1 E1) as [B1 B2].
    assert (Hbm : forall m, In m (cl_buffered cm) -> In m (cl_inbox_mut c ++ cl_buffered c)).
    { intros m Hin. unfold cm, merge_mut_inbox in Hin. cbn in Hin. apply fold_buffer_insert_in in Hin. rewrite B1, B2 in Hin. exact Hin. }
    assert (Hm1 : HInv cm (hg_inbox (cl_inbox_upd c) c g)) by (revert H1; apply hinv_ext; reflexivity).
    destruct (mutate_messages_kept_acks cm c2 out2 E) as [Kb _].
    pose proof (mutate_messages_keep_inbox cm c2 out2 E) as Ki. pose proof (mutate_messages_keep_inbox_mut cm c2 out2 E) as Kim.
    rewrite apply_mutate_messages_eq in E. apply bind_ok in E. destruct E as [st [Ef E]].
    pose proof (hinv_mm (cl_upd_tick cm) (cl_buffered cm) (cm, [], [], []) _ st Hm1
                  (fun m Hin => le_small B _ HB (Hm m (Hbm m Hin))) Ef) as H2.
    destruct st as [[[c0 kept] acks] evs]. inversion E; subst c2 out2. clear E. unfold mm_client in H2; cbn [fst] in H2.
    split.
    + apply (hinv_ext (fold_left apply_cop ops (set_buffered c0 kept (cl_mticks c0)))); [reflexivity|reflexivity|].
      apply hinv_cops. revert H2. apply hinv_ext; reflexivity.
    + destruct (cops_fields ops (set_buffered c0 kept (cl_mticks c0))) as (_ & K2 & K3 & K4).
      unfold cl_ticks_le. cbn [set_locals cl_inbox_upd cl_inbox_mut cl_buffered]. rewrite K2, K3, K4, Ki, Kim, Kb.
      cbn [cm merge_mut_inbox clear_inboxes cl_inbox_upd cl_inbox_mut]. split; [intros u []|].
      intros m Hin. cbn [app] in Hin. apply filter_In in Hin. destruct Hin as [Hin _]. apply Hm. apply Hbm. exact Hin.
Qed.
