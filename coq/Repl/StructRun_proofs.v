(* C03, server half: whole frames and whole runs.  In every history of operations and frames the
   update messages sent to a client are the structural diffs of the server world between
   consecutive ticks (policy PAll).  Definitions: Repl/StructSpec.v. *)
From RV Require Import Lib.Res Repl.ClientTicks Repl.ClientTicks_proofs Repl.World Vis.Visibility
  Tick.RepliconTick Repl.Server Repl.ServerSpec Repl.Server_proofs Repl.StructSpec Repl.Struct_proofs
  Repl.StructOps_proofs.
From Coq Require Import ZifyBool ZifyN.
Open Scope N_scope.
Ltac Zify.zify_post_hook ::= Z.div_mod_to_equations.
Arguments N.add : simpl never. Arguments N.mul : simpl never. Arguments N.pow : simpl never.
Arguments N.ltb : simpl never. Arguments N.leb : simpl never. Arguments N.div : simpl never.
Arguments N.modulo : simpl never. Arguments N.sub : simpl never. Arguments N.eqb : simpl never.

(* ================= 1. what an operation does not touch ================= *)

Lemma flags_same_refl s : flags_same s s.
Proof. unfold flags_same. tauto. Qed.

Lemma flags_same_trans a b c : flags_same a b -> flags_same b c -> flags_same a c.
Proof.
  unfold flags_same. intros [A1 [A2 [A3 [A4 [A5 [A6 A7]]]]]] [B1 [B2 [B3 [B4 [B5 [B6 B7]]]]]].
  repeat split; try congruence. intros H. rewrite B7, A7; congruence.
Qed.

Lemma flags_buffer_despawn s e : flags_same s (buffer_despawn s e).
Proof.
  unfold buffer_despawn, flags_same. destruct (sv_running s) eqn:E; cbn; rewrite ?E; repeat split; auto.
  discriminate.
Qed.

Lemma apply_sop_flags s op : flags_same s (apply_sop s op).
Proof.
  pose proof (flags_same_refl s) as Hid.
  assert (Hset : forall e x, flags_same s (set_ent s e x)) by (intros; unfold flags_same; cbn; tauto).
  destruct op as [e marker comps|e|e k v|e k|e k v|e|e|slot e visible|slot e pc]; unfold apply_sop.
  - destruct (get_ent s e); [exact Hid|apply Hset].
  - destruct (get_ent s e) as [x|]; [|exact Hid]. destruct (se_alive x); [|exact Hid].
    destruct (se_marker x); [|apply Hset].
    eapply flags_same_trans; [apply Hset|apply flags_buffer_despawn].
  - destruct (get_ent s e) as [x|]; [|exact Hid]. destruct (se_alive x && val_ok s v); [apply Hset|exact Hid].
  - destruct (get_ent s e) as [x|]; [|exact Hid]. destruct (se_alive x); [|exact Hid].
    destruct (al_get k (se_comps x)); [|exact Hid]. unfold flags_same; cbn; tauto.
  - destruct (get_ent s e) as [x|]; [|exact Hid]. destruct (se_alive x && val_ok s v); [|exact Hid].
    destruct (al_get k (se_comps x)); [apply Hset|exact Hid].
  - destruct (get_ent s e) as [x|]; [|exact Hid]. destruct (se_alive x); [|exact Hid].
    destruct (se_marker x); [exact Hid|apply Hset].
  - destruct (get_ent s e) as [x|]; [|exact Hid]. destruct (se_alive x); [|exact Hid].
    destruct (se_marker x); [|exact Hid].
    eapply flags_same_trans; [apply Hset|apply flags_buffer_despawn].
  - destruct (find_client s slot) as [c0|]; [|exact Hid]. destruct (get_ent s e); [|exact Hid].
    destruct (sc_vis c0); [|exact Hid]. unfold flags_same; cbn; tauto.
  - destruct (find_client s slot) as [c0|]; [|exact Hid]. destruct (get_ent s e); [|exact Hid].
    destruct (sc_authorized c0 && existsb _ (sv_premap s)); [|exact Hid]. unfold flags_same; cbn; tauto.
Qed.

(* ---------- the game operations of a frame ---------- *)

Lemma ops_running ops : forall s, srv_ok s -> sv_running s = true -> NoDup (map sc_slot (sv_clients s)) ->
  let s' := fold_left apply_sop ops s in
  srv_ok s' /\ flags_same s s' /\ Forall2 cl_same (sv_clients s) (sv_clients s') /\
  forall t st, pending_ok s t st -> pending_ok s' t st.
Proof.
  induction ops as [|op ops IH]; intros s Hok Hrun Hnd; cbn [fold_left].
  - split; [exact Hok|]. split; [apply flags_same_refl|]. split; [apply Forall2_same, cl_same_refl|auto].
  - pose proof (apply_sop_flags s op) as Hfl.
    pose proof (apply_sop_same s op (so_novis s (proj1 Hok)) Hnd) as Hsame.
    assert (Hok1 : srv_ok (apply_sop s op)) by (apply apply_sop_preserves_srv_ok; assumption).
    assert (Hrun1 : sv_running (apply_sop s op) = true) by (destruct Hfl as [-> _]; exact Hrun).
    assert (Hnd1 : NoDup (map sc_slot (sv_clients (apply_sop s op)))) by (rewrite (cl_same_slots _ _ Hsame); exact Hnd).
    destruct (IH _ Hok1 Hrun1 Hnd1) as [H1 [H2 [H3 H4]]].
    split; [exact H1|]. split; [eapply flags_same_trans; eassumption|].
    split; [eapply (Forall2_trans cl_same cl_same_trans); eassumption|].
    intros t st Hp. apply H4. apply apply_sop_preserves_pending; [exact (proj1 Hok)|exact Hrun|exact Hp].
Qed.

Lemma ops_any ops : forall s, srv_base s -> NoDup (map sc_slot (sv_clients s)) ->
  let s' := fold_left apply_sop ops s in
  srv_base s' /\ flags_same s s' /\ Forall2 cl_same (sv_clients s) (sv_clients s').
Proof.
  induction ops as [|op ops IH]; intros s Hb Hnd; cbn [fold_left].
  - split; [exact Hb|]. split; [apply flags_same_refl|apply Forall2_same, cl_same_refl].
  - pose proof (apply_sop_flags s op) as Hfl.
    pose proof (apply_sop_same s op (so_novis s Hb) Hnd) as Hsame.
    assert (Hb1 : srv_base (apply_sop s op)) by (apply apply_sop_preserves_base; exact Hb).
    assert (Hnd1 : NoDup (map sc_slot (sv_clients (apply_sop s op)))) by (rewrite (cl_same_slots _ _ Hsame); exact Hnd).
    destruct (IH _ Hb1 Hnd1) as [H1 [H2 H3]].
    split; [exact H1|]. split; [eapply flags_same_trans; eassumption|].
    eapply (Forall2_trans cl_same cl_same_trans); eassumption.
Qed.

(* ================= 2. the ghost ================= *)

Lemma NoDup_map_filter {A B} (f : A -> B) (p : A -> bool) l : NoDup (map f l) -> NoDup (map f (filter p l)).
Proof.
  induction l as [|a l IH]; cbn [map filter]; intros H; [constructor|].
  inversion H as [|? ? Hni Hnd]; subst. destruct (p a); cbn [map]; [constructor|]; auto.
  intros Hin. apply Hni. apply in_map_iff in Hin. destruct Hin as [x [Hx Hin]].
  apply filter_In in Hin. rewrite <- Hx. apply in_map. apply Hin.
Qed.

Lemma sync_get s' old outs cl :
  NoDup (map sc_slot (sv_clients s')) -> In cl (sv_clients s') -> sc_authorized cl = true ->
  al_get (sc_slot cl) (sync_sent s' old outs)
  = Some (abs_send (sent_of (sc_slot cl) old) (upd_for (sc_slot cl) outs)).
Proof.
  intros Hnd Hin Ha. unfold sync_sent. apply In_al_get_nodup.
  - unfold al_keys. rewrite map_map. cbn [fst]. apply NoDup_map_filter. exact Hnd.
  - apply in_map_iff. exists cl. split; [reflexivity|]. apply filter_In. auto.
Qed.

Lemma sync_sent_of s' old outs cl :
  NoDup (map sc_slot (sv_clients s')) -> In cl (sv_clients s') -> sc_authorized cl = true ->
  sent_of (sc_slot cl) (sync_sent s' old outs) = abs_send (sent_of (sc_slot cl) old) (upd_for (sc_slot cl) outs).
Proof. intros H1 H2 H3. unfold sent_of at 1. rewrite (sync_get s' old outs cl H1 H2 H3). reflexivity. Qed.

Lemma sync_dom s' old outs slot : al_get slot (sync_sent s' old outs) <> None ->
  exists cl, In cl (sv_clients s') /\ sc_slot cl = slot /\ sc_authorized cl = true.
Proof.
  intros H. apply al_get_keys_In in H. unfold sync_sent, al_keys in H. rewrite map_map in H. cbn [fst] in H.
  apply in_map_iff in H. destruct H as [cl [Hs Hin]]. apply filter_In in Hin. exists cl. tauto.
Qed.

Lemma ginv_sync s' old outs :
  srv_ok s' -> NoDup (map sc_slot (sv_clients s')) ->
  (sv_last_running s' = false -> sv_removal_buf s' = []) ->
  (forall cl, In cl (sv_clients s') -> sc_authorized cl = true ->
     pending_ok s' (sc_ticks cl) (abs_send (sent_of (sc_slot cl) old) (upd_for (sc_slot cl) outs)) /\
     (sv_last_running s' = false ->
      abs_send (sent_of (sc_slot cl) old) (upd_for (sc_slot cl) outs) = [] /\ fresh_ticks (sc_ticks cl))) ->
  ginv (mkG s' (sync_sent s' old outs)).
Proof.
  intros Hok Hnd Hidle Hcl. constructor; cbn [g_srv g_sent].
  - exact Hok.
  - exact Hnd.
  - exact Hidle.
  - intros cl Hin Ha. rewrite (sync_sent_of s' old outs cl Hnd Hin Ha). exact (Hcl cl Hin Ha).
  - apply sync_dom.
Qed.

Lemma struct_equiv_sym a b : struct_equiv a b -> struct_equiv b a.
Proof.
  intros H e. specialize (H e). destruct (al_get e a), (al_get e b); auto. intros k. symmetry. apply H.
Qed.

Lemma pending_ok_equiv s t a b : struct_equiv a b -> pending_ok s t a -> pending_ok s t b.
Proof.
  intros He Hp.
  assert (Hdom : forall e, al_get e b <> None <-> al_get e a <> None).
  { intros e. specialize (He e). destruct (al_get e a), (al_get e b); try contradiction; split; congruence. }
  assert (Hks : forall e ks', al_get e b = Some ks' -> exists ks, al_get e a = Some ks /\ kinds_equiv ks ks').
  { intros e ks' Hb. specialize (He e). rewrite Hb in He. destruct (al_get e a) as [ks|]; [|contradiction].
    exists ks. auto. }
  constructor.
  - intros e. rewrite Hdom. exact (pk_known _ _ _ Hp e).
  - intros e H. apply Hdom in H. exact (pk_gone _ _ _ Hp e H).
  - intros e ks' x Hb Hr HnD k Hm. destruct (Hks e ks' Hb) as [ks [Ha Hk]].
    apply (pk_lost _ _ _ Hp e ks x Ha Hr HnD). rewrite (Hk k). exact Hm.
  - intros e ks' x Hb Hr HnD k c0 Hin Hm. destruct (Hks e ks' Hb) as [ks [Ha Hk]].
    apply (pk_new _ _ _ Hp e ks x Ha Hr HnD k c0 Hin). rewrite (Hk k). exact Hm.
Qed.

Lemma no_vis_same l l' : Forall2 cl_same l l' ->
  (forall cl, In cl l -> sc_vis cl = None) -> forall cl', In cl' l' -> sc_vis cl' = None.
Proof.
  intros HF Hl cl' Hin. destruct (Forall2_In_r _ _ _ _ HF Hin) as [cl [Hcl [_ [_ [Hv _]]]]].
  rewrite Hv. apply Hl. exact Hcl.
Qed.

Lemma srv_ok_ext s s' :
  sv_ents s' = sv_ents s -> sv_removal_buf s' = sv_removal_buf s ->
  sv_removed_events s' = sv_removed_events s -> sv_last_run s' = sv_last_run s -> sv_now s' = sv_now s ->
  no_vis s' -> srv_ok s -> srv_ok s'.
Proof.
  intros He Hr Hv Hl Hn Hnv [Hb Hrb]. split; [apply (srv_base_ext s); assumption|apply (rb_repl_ext s); assumption].
Qed.

(* ================= 3. a frame of a running server, before `send_replication` ================= *)

Lemma frame_running_pre c s tick dt (cleanup : bool) ops :
  srv_ok s -> sv_running s = true -> NoDup (map sc_slot (sv_clients s)) ->
  let s1 := with_time_tick s tick dt in
  let s2 := (let r := receive_acks s1 in if cleanup then cleanup_acks c r else r) in
  let s3 := fold_left apply_sop ops s2 in
  let s3' := buffer_removals s3 in
  srv_ok s3' /\ sv_removed_events s3' = [] /\ sv_running s3 = true /\
  sv_last_running s3' = sv_last_running s /\
  Forall2 cl_same (sv_clients s) (sv_clients s3') /\
  forall t st, pending_ok s t st -> pending_ok s3' t st.
Proof.
  intros Hok Hrun Hnd s1 s2 s3 s3'.
  assert (H12 : Forall2 cl_same (sv_clients s) (sv_clients s2)).
  { unfold s2. cbv zeta. destruct cleanup.
    - eapply (Forall2_trans cl_same cl_same_trans); [apply (receive_acks_same s1)|apply cleanup_acks_same].
    - apply (receive_acks_same s1). }
  assert (Hf2 : sv_ents s2 = sv_ents s /\ sv_despawn_buf s2 = sv_despawn_buf s /\ sv_removal_buf s2 = sv_removal_buf s /\
                sv_removed_events s2 = sv_removed_events s /\ sv_last_run s2 = sv_last_run s /\ sv_now s2 = sv_now s /\
                sv_running s2 = sv_running s /\ sv_last_running s2 = sv_last_running s).
  { unfold s2. cbv zeta. destruct cleanup; repeat split. }
  destruct Hf2 as [F1 [F2 [F3 [F4 [F5 [F6 [F7 F8]]]]]]].
  assert (Hok2 : srv_ok s2).
  { apply (srv_ok_ext s); try assumption. intros cl' Hin.
    apply (no_vis_same _ _ H12 (so_novis s (proj1 Hok)) cl' Hin). }
  assert (Hnd2 : NoDup (map sc_slot (sv_clients s2))) by (rewrite (cl_same_slots _ _ H12); exact Hnd).
  assert (Hrun2 : sv_running s2 = true) by congruence.
  destruct (ops_running ops s2 Hok2 Hrun2 Hnd2) as [Hok3 [Hfl3 [H23 Hp3]]]. fold s3 in Hok3, Hfl3, H23, Hp3.
  destruct (buffer_removals_ok s3 (proj1 Hok3)) as [Hb' [Hrb' [Hp' Hev']]]. fold s3' in Hb', Hrb', Hp', Hev'.
  destruct Hfl3 as [G1 [G2 _]].
  split; [split; [exact Hb'|exact (Hrb' (proj2 Hok3))]|]. split; [exact Hev'|]. split; [congruence|].
  split; [change (sv_last_running s3 = sv_last_running s); congruence|].
  split; [change (Forall2 cl_same (sv_clients s) (sv_clients s3)); eapply (Forall2_trans cl_same cl_same_trans); eassumption|].
  intros t st Hp. apply Hp', Hp3. apply (pending_ok_ext s); assumption.
Qed.

(* ================= 4. `send_replication`, all clients ================= *)

Lemma upd_for_outs c s parts cls cl :
  NoDup (map sc_slot cls) -> In cl cls -> sc_authorized cl = true ->
  upd_for (sc_slot cl) (outs_of (map (client_result_pure c s parts) cls))
  = co_update (snd (sfc_pure c s (sv_now s) cl (part_for parts cl))).
Proof.
  induction cls as [|a cls IH]; intros Hnd Hin Ha; [destruct Hin|].
  cbn [map]. inversion Hnd as [|? ? Hni Hnd']; subst.
  change (outs_of (client_result_pure c s parts a :: map (client_result_pure c s parts) cls))
    with ((match snd (client_result_pure c s parts a) with Some o => [o] | None => [] end)
          ++ outs_of (map (client_result_pure c s parts) cls)).
  destruct Hin as [-> | Hin].
  - unfold client_result_pure. rewrite Ha. cbn [snd app]. unfold upd_for. cbn [find].
    change (co_slot (snd (sfc_pure c s (sv_now s) cl (part_for parts cl)))) with (sc_slot cl).
    rewrite N.eqb_refl. reflexivity.
  - assert (Hne : sc_slot a <> sc_slot cl).
    { intros Heq. apply Hni. rewrite Heq. apply in_map. exact Hin. }
    unfold client_result_pure at 1. destruct (sc_authorized a); cbn [snd app].
    + unfold upd_for. cbn [find].
      change (co_slot (snd (sfc_pure c s (sv_now s) a (part_for parts a)))) with (sc_slot a).
      replace (sc_slot a =? sc_slot cl) with false by lia. apply (IH Hnd' Hin Ha).
    + apply (IH Hnd' Hin Ha).
Qed.

Lemma send_clients_ok c s parts old :
  srv_ok s -> sv_removed_events s = [] -> NoDup (map sc_slot (sv_clients s)) ->
  (forall cl, In cl (sv_clients s) -> sc_authorized cl = true ->
     pending_ok s (sc_ticks cl) (sent_of (sc_slot cl) old)) ->
  let rs := map (client_result_pure c s parts) (sv_clients s) in
  let s4 := set_after_send s (map fst rs) (sv_now s) in
  srv_ok s4 /\ map sc_slot (map fst rs) = map sc_slot (sv_clients s) /\
  forall cl', In cl' (map fst rs) -> sc_authorized cl' = true ->
    struct_equiv (abs_send (sent_of (sc_slot cl') old) (upd_for (sc_slot cl') (outs_of rs))) (struct_of s) /\
    pending_ok s4 (sc_ticks cl') (abs_send (sent_of (sc_slot cl') old) (upd_for (sc_slot cl') (outs_of rs))).
Proof.
  intros Hok Hev Hnd Hcl rs s4.
  assert (Hone : forall cl, In cl (sv_clients s) ->
            let cl' := fst (client_result_pure c s parts cl) in
            sc_slot cl' = sc_slot cl /\ sc_vis cl' = None /\
            (sc_authorized cl' = true ->
             struct_equiv (abs_send (sent_of (sc_slot cl') old) (upd_for (sc_slot cl') (outs_of rs))) (struct_of s) /\
             pending_ok s4 (sc_ticks cl') (abs_send (sent_of (sc_slot cl') old) (upd_for (sc_slot cl') (outs_of rs))))).
  { intros cl Hin. cbv zeta. pose proof (so_novis s (proj1 Hok) cl Hin) as Hv.
    unfold client_result_pure. destruct (sc_authorized cl) eqn:Ea; cbn [fst].
    - pose proof (send_for_client_eq c s (sv_now s) cl (part_for parts cl)) as Hs.
      destruct (sfc_pure c s (sv_now s) cl (part_for parts cl)) as [cl' out] eqn:Epure. cbn [fst].
      destruct (tick_sends_diff c s (sv_now s) cl (part_for parts cl) cl' out (sent_of (sc_slot cl) old) (map fst rs)
                  Hok Hev Hv (Hcl cl Hin Ea) Hs) as [T1 [T2 [T3 [T4 [T5 T6]]]]].
      split; [exact T4|]. split; [exact T3|]. intros _.
      assert (Hu : upd_for (sc_slot cl') (outs_of rs) = co_update out).
      { rewrite T4. unfold rs. rewrite (upd_for_outs c s parts _ cl Hnd Hin Ea), Epure. reflexivity. }
      rewrite Hu, T4. split; [exact T1|]. apply (pending_ok_equiv _ _ (struct_of s)); [|exact T2].
      apply struct_equiv_sym. exact T1.
    - split; [reflexivity|]. split; [exact Hv|]. congruence. }
  assert (Hslots : map sc_slot (map fst rs) = map sc_slot (sv_clients s)).
  { unfold rs. rewrite !map_map. apply map_ext_in. intros cl Hin. apply (Hone cl Hin). }
  split; [|split; [exact Hslots|]].
  - apply srv_ok_after_send; [exact Hok|exact Hev|]. intros cl' Hin. unfold rs in Hin. rewrite map_map in Hin.
    apply in_map_iff in Hin. destruct Hin as [cl [<- Hin]]. apply (Hone cl Hin).
  - intros cl' Hin Ha. unfold rs in Hin. rewrite map_map in Hin. apply in_map_iff in Hin.
    destruct Hin as [cl [<- Hin]]. apply (Hone cl Hin). exact Ha.
Qed.

(* ================= 5. one frame ================= *)

Lemma client_inv_transfer s old cl cl3 :
  client_inv s old cl -> cl_same cl cl3 -> sc_authorized cl3 = true ->
  pending_ok s (sc_ticks cl3) (sent_of (sc_slot cl3) old) /\
  (sv_last_running s = false -> sent_of (sc_slot cl3) old = [] /\ fresh_ticks (sc_ticks cl3)).
Proof.
  intros Hinv [S1 [S2 [S3 S4]]] Ha. rewrite S1. destruct (Hinv (eq_trans (eq_sym S2) Ha)) as [Hp Hf]. split.
  - apply (pending_ok_ticks s (sc_ticks cl)); [exact S4|exact Hp].
  - intros Hl. destruct (Hf Hl) as [F1 F2]. split; [exact F1|]. intros e.
    destruct (mutation_tick (sc_ticks cl3) e) eqn:Em; [|reflexivity].
    exfalso. apply (proj1 (S4 e)); [rewrite Em; discriminate|apply F2].
Qed.

Theorem gframe_ok c g tick dt (cleanup : bool) ops parts s' fo :
  ginv g -> server_frame c (g_srv g) tick dt cleanup ops parts = Ok (s', fo) ->
  ginv (mkG s' (sync_sent s' (g_sent g) (fo_clients fo))) /\
  (fo_ran fo = true -> forall cl, In cl (sv_clients s') -> sc_authorized cl = true ->
     struct_equiv (abs_send (sent_of (sc_slot cl) (g_sent g)) (upd_for (sc_slot cl) (fo_clients fo))) (struct_of s')) /\
  (fo_ran fo = false -> fo_clients fo = []).
Proof.
  intros [Hok Hnd Hidle Hcl Hdom] H. set (s := g_srv g) in *. set (old := g_sent g) in *.
  unfold server_frame in H. change (sv_running (with_time_tick s tick dt)) with (sv_running s) in H.
  destruct (sv_running s) eqn:Erun.
  - (* running *)
    destruct (frame_running_pre c s tick dt cleanup ops Hok Erun Hnd) as [Hok3 [Hev3 [Hrun3 [Hlr3 [Hsame3 Hp3]]]]].
    cbv zeta in Hok3, Hev3, Hrun3, Hlr3, Hsame3, Hp3.
    set (s3 := fold_left apply_sop ops
                 (if cleanup then cleanup_acks c (receive_acks (with_time_tick s tick dt))
                  else receive_acks (with_time_tick s tick dt))) in *.
    cbv zeta in H.
    replace (fold_left apply_sop ops
               (if cleanup then cleanup_acks c (receive_acks (with_time_tick s tick dt))
                else receive_acks (with_time_tick s tick dt))) with s3 in H by reflexivity.
    rewrite Hrun3 in H. set (s3' := buffer_removals s3) in *.
    assert (Hnd3 : NoDup (map sc_slot (sv_clients s3'))) by (rewrite (cl_same_slots _ _ Hsame3); exact Hnd).
    assert (Hcl3 : forall cl3, In cl3 (sv_clients s3') -> sc_authorized cl3 = true ->
              pending_ok s3' (sc_ticks cl3) (sent_of (sc_slot cl3) old)).
    { intros cl3 Hin Ha. destruct (Forall2_In_r _ _ _ _ Hsame3 Hin) as [cl [Hcl0 Hs]].
      apply Hp3. exact (proj1 (client_inv_transfer s old cl cl3 (Hcl cl Hcl0) Hs Ha)). }
    destruct (sv_dirty s3') eqn:Ed.
    + (* a tick *)
      rewrite send_replication_eq in H. cbn [bind] in H. injection H as <- <-. cbn [fo_ran fo_clients].
      destruct (send_clients_ok c s3' parts old Hok3 Hev3 Hnd3 Hcl3) as [Hok4 [Hslots Hone]].
      cbv zeta in Hok4, Hslots, Hone.
      set (rs := map (client_result_pure c s3' parts) (sv_clients s3')) in *.
      set (s4 := set_after_send s3' (map fst rs) (sv_now s3')) in *.
      split; [|split; [|discriminate]].
      * apply ginv_sync.
        -- apply (srv_ok_ext s4); try reflexivity; [|exact Hok4]. exact (so_novis s4 (proj1 Hok4)).
        -- change (NoDup (map sc_slot (map fst rs))). rewrite Hslots. exact Hnd3.
        -- cbn. rewrite Hrun3. discriminate.
        -- intros cl' Hin Ha. change (In cl' (map fst rs)) in Hin. destruct (Hone cl' Hin Ha) as [_ Hp]. split.
           ++ apply (pending_ok_ext s4); try reflexivity. exact Hp.
           ++ cbn. rewrite Hrun3. discriminate.
      * intros _ cl' Hin Ha. change (In cl' (map fst rs)) in Hin.
        match goal with |- struct_equiv _ (struct_of ?x) => rewrite (struct_of_ext s3' x eq_refl) end.
        exact (proj1 (Hone cl' Hin Ha)).
    + (* no tick *)
      cbn [bind] in H. injection H as <- <-. cbn [fo_ran fo_clients].
      split; [|split; [discriminate|reflexivity]].
      apply ginv_sync.
      * apply (srv_ok_ext s3'); try reflexivity; [|exact Hok3]. exact (so_novis s3' (proj1 Hok3)).
      * exact Hnd3.
      * cbn. change (sv_running s3') with (sv_running s3). rewrite Hrun3. discriminate.
      * intros cl' Hin Ha. change (In cl' (sv_clients s3')) in Hin. split.
        -- apply (pending_ok_ext s3'); try reflexivity. exact (Hcl3 cl' Hin Ha).
        -- cbn. change (sv_running s3') with (sv_running s3). rewrite Hrun3. discriminate.
  - (* stopped *)
    set (s1 := with_time_tick s tick dt) in *.
    assert (Hb1 : srv_base s1).
    { apply (srv_base_ext s); try reflexivity; [exact (so_novis s (proj1 Hok))|exact (proj1 Hok)]. }
    destruct (ops_any ops s1 Hb1 Hnd) as [Hb3 [Hfl3 Hsame3]]. cbv zeta in Hb3, Hfl3, Hsame3.
    set (s3 := fold_left apply_sop ops s1) in *.
    destruct Hfl3 as [G1 [G2 [_ [_ [_ [_ G7]]]]]].
    change (sv_running s1) with (sv_running s) in G1, G7. change (sv_last_running s1) with (sv_last_running s) in G2.
    change (sv_removal_buf s1) with (sv_removal_buf s) in G7. specialize (G7 Erun).
    rewrite G1, Erun in H. cbn [bind] in H. injection H as <- <-. cbn [fo_ran fo_clients].
    split; [|split; [discriminate|reflexivity]].
    destruct (sv_last_running s3) eqn:Elr.
    + (* `reset` *)
      apply ginv_sync.
      * pose proof (reset_ok s3 Hb3) as [Hbr Hrr]. split.
        -- apply (srv_base_ext (age_events (reset s3))); try reflexivity; [exact (so_novis _ Hbr)|].
           apply age_events_base. exact Hbr.
        -- intros e He. cbn in He. congruence.
      * constructor.
      * reflexivity.
      * intros cl' [].
    + (* nothing has run since the last reset *)
      assert (Hl : sv_last_running s = false) by congruence.
      assert (Hr3 : sv_removal_buf s3 = []) by (rewrite G7; exact (Hidle Hl)).
      apply ginv_sync.
      * split.
        -- apply (srv_base_ext (age_events s3)); try reflexivity; [exact (so_novis _ Hb3)|].
           apply age_events_base. exact Hb3.
        -- intros e He. cbn in He. rewrite Hr3 in He. cbn in He. congruence.
      * change (NoDup (map sc_slot (sv_clients s3))). rewrite (cl_same_slots _ _ Hsame3). exact Hnd.
      * intros _. exact Hr3.
      * intros cl' Hin Ha. change (In cl' (sv_clients s3)) in Hin.
        destruct (Forall2_In_r _ _ _ _ Hsame3 Hin) as [cl [Hcl0 Hs]].
        destruct (client_inv_transfer s old cl cl' (Hcl cl Hcl0) Hs Ha) as [_ Hf].
        destruct (Hf Hl) as [F1 F2]. cbn [upd_for find abs_send]. rewrite F1.
        split; [apply pending_ok_fresh; exact F2|]. intros _. split; [reflexivity|exact F2].
Qed.

(* ================= 6. the other steps ================= *)

Lemma ginv_clients_change g s' :
  ginv g ->
  sv_ents s' = sv_ents (g_srv g) -> sv_despawn_buf s' = sv_despawn_buf (g_srv g) ->
  sv_removal_buf s' = sv_removal_buf (g_srv g) -> sv_removed_events s' = sv_removed_events (g_srv g) ->
  sv_last_run s' = sv_last_run (g_srv g) -> sv_now s' = sv_now (g_srv g) ->
  sv_last_running s' = sv_last_running (g_srv g) ->
  NoDup (map sc_slot (sv_clients s')) ->
  (forall cl', In cl' (sv_clients s') ->
     sc_vis cl' = None /\
     (sc_authorized cl' = true ->
      In cl' (sv_clients (g_srv g)) \/ (fresh_ticks (sc_ticks cl') /\ sent_of (sc_slot cl') (g_sent g) = []))) ->
  ginv (mkG s' (sync_sent s' (g_sent g) [])).
Proof.
  intros [Hok Hnd Hidle Hcl Hdom] He Hd Hr Hv Hl Hn Hlr Hnd' Hcls.
  apply ginv_sync.
  - apply (srv_ok_ext (g_srv g)); try assumption. intros cl' Hin. apply (Hcls cl' Hin).
  - exact Hnd'.
  - rewrite Hlr, Hr. exact Hidle.
  - intros cl' Hin Ha. cbn [upd_for find abs_send]. destruct (proj2 (Hcls cl' Hin) Ha) as [Hold | [Hf Hs]].
    + destruct (Hcl cl' Hold Ha) as [Hp Hfr]. split; [apply (pending_ok_ext (g_srv g)); assumption|].
      rewrite Hlr. exact Hfr.
    + rewrite Hs. split; [apply pending_ok_fresh; exact Hf|]. intros _. split; [reflexivity|exact Hf].
Qed.

Lemma ginv_server_change g s' :
  ginv g ->
  sv_ents s' = sv_ents (g_srv g) -> sv_despawn_buf s' = sv_despawn_buf (g_srv g) ->
  sv_removal_buf s' = sv_removal_buf (g_srv g) -> sv_removed_events s' = sv_removed_events (g_srv g) ->
  sv_last_run s' = sv_last_run (g_srv g) -> sv_now s' = sv_now (g_srv g) ->
  sv_last_running s' = sv_last_running (g_srv g) -> sv_clients s' = sv_clients (g_srv g) ->
  ginv (mkG s' (g_sent g)).
Proof.
  intros [Hok Hnd Hidle Hcl Hdom] He Hd Hr Hv Hl Hn Hlr Hc. constructor; cbn [g_srv g_sent].
  - apply (srv_ok_ext (g_srv g)); try assumption. unfold no_vis. rewrite Hc. exact (so_novis _ (proj1 Hok)).
  - rewrite Hc. exact Hnd.
  - rewrite Hlr, Hr. exact Hidle.
  - intros cl Hin Ha. rewrite Hc in Hin. destruct (Hcl cl Hin Ha) as [Hp Hf].
    split; [apply (pending_ok_ext (g_srv g)); assumption|]. rewrite Hlr. exact Hf.
  - intros slot H. rewrite Hc. apply Hdom. exact H.
Qed.

Lemma find_client_none s slot : find_client s slot = None -> forall cl, In cl (sv_clients s) -> sc_slot cl <> slot.
Proof.
  intros H cl Hin Heq. unfold find_client in H. pose proof (find_none _ _ H cl Hin) as Hf. cbn in Hf. lia.
Qed.

Lemma NoDup_snoc {A} (l : list A) x : NoDup l -> ~ In x l -> NoDup (l ++ [x]).
Proof.
  induction l as [|a l IH]; cbn [app]; intros Hnd Hni; [constructor; [intros []|constructor]|].
  inversion Hnd as [|? ? H1 H2]; subst. constructor.
  - intros H. apply in_app_or in H. destruct H as [H | [H | []]]; [contradiction|]. apply Hni. left. symmetry. exact H.
  - apply IH; [exact H2|]. intros H. apply Hni. right. exact H.
Qed.

Lemma sent_of_unknown g slot : ginv g ->
  (forall cl, In cl (sv_clients (g_srv g)) -> sc_slot cl = slot -> sc_authorized cl = false) ->
  sent_of slot (g_sent g) = [].
Proof.
  intros Hg Hno. unfold sent_of. destruct (al_get slot (g_sent g)) eqn:E; [|reflexivity].
  destruct (gi_dom g Hg slot) as [cl [Hin [Hs Ha]]]; [rewrite E; discriminate|].
  rewrite (Hno cl Hin Hs) in Ha. discriminate.
Qed.

Lemma new_vis_pall c : cfg_policy c = PAll -> new_vis c = None.
Proof. unfold new_vis. intros ->. reflexivity. Qed.

Lemma connect_inv c g slot max : cfg_policy c = PAll -> ginv g ->
  ginv (mkG (connect_client c (g_srv g) slot max) (sync_sent (connect_client c (g_srv g) slot max) (g_sent g) [])).
Proof.
  intros Hpol Hg. set (s := g_srv g).
  assert (Hsame : ginv (mkG s (sync_sent s (g_sent g) []))).
  { apply ginv_clients_change; try reflexivity; [exact Hg|exact (gi_slots g Hg)|].
    intros cl' Hin. split; [exact (so_novis _ (proj1 (gi_srv g Hg)) cl' Hin)|]. intros _. left. exact Hin. }
  unfold connect_client. fold s. destruct (sv_running s); [|exact Hsame].
  destruct (find_client s slot) eqn:Ef; [exact Hsame|].
  pose proof (find_client_none s slot Ef) as Hnone.
  set (cl := match cfg_auth c with AuthNone => authorized_client c slot max | _ => mkSC slot false max ct_default None [] end).
  assert (Hcl : sc_slot cl = slot /\ sc_vis cl = None /\ sc_ticks cl = ct_default).
  { unfold cl, authorized_client. destruct (cfg_auth c); cbn; rewrite ?(new_vis_pall c Hpol); auto. }
  destruct Hcl as [C1 [C2 C3]].
  apply ginv_clients_change; try reflexivity; [exact Hg| |].
  - cbn [set_clients sv_clients]. rewrite map_app. cbn [map]. apply NoDup_snoc; [exact (gi_slots g Hg)|].
    rewrite C1. intros Hin. apply in_map_iff in Hin. destruct Hin as [c0 [Hs Hin]]. exact (Hnone c0 Hin Hs).
  - intros cl' Hin. cbn [set_clients sv_clients] in Hin. apply in_app_or in Hin. destruct Hin as [Hin | [<- | []]].
    + split; [exact (so_novis _ (proj1 (gi_srv g Hg)) cl' Hin)|]. intros _. left. exact Hin.
    + split; [exact C2|]. intros _. right. split; [rewrite C3; intros e; reflexivity|].
      rewrite C1. apply sent_of_unknown; [exact Hg|]. intros c0 Hin Hs. exfalso. exact (Hnone c0 Hin Hs).
Qed.

Lemma authorize_inv c g slot : cfg_policy c = PAll -> ginv g ->
  ginv (mkG (authorize_client c (g_srv g) slot) (sync_sent (authorize_client c (g_srv g) slot) (g_sent g) [])).
Proof.
  intros Hpol Hg. set (s := g_srv g).
  assert (Hsame : ginv (mkG s (sync_sent s (g_sent g) []))).
  { apply ginv_clients_change; try reflexivity; [exact Hg|exact (gi_slots g Hg)|].
    intros cl' Hin. split; [exact (so_novis _ (proj1 (gi_srv g Hg)) cl' Hin)|]. intros _. left. exact Hin. }
  unfold authorize_client. fold s. destruct (find_client s slot) as [cl|] eqn:Ef; [|exact Hsame].
  destruct (sc_authorized cl) eqn:Ea; [exact Hsame|].
  unfold find_client in Ef. apply find_some in Ef. destruct Ef as [Hcl Hs]. cbn in Hs. assert (Hslot : sc_slot cl = slot) by lia.
  set (cnew := authorized_client c slot (sc_max_size cl)).
  apply ginv_clients_change; try reflexivity; [exact Hg| |].
  - unfold update_client, set_clients. cbn [sv_clients]. rewrite map_map.
    rewrite (map_ext_in _ sc_slot); [exact (gi_slots g Hg)|]. intros c0 _.
    destruct (sc_slot c0 =? sc_slot cnew) eqn:E; [|reflexivity]. lia.
  - intros cl' Hin. unfold update_client, set_clients in Hin. cbn [sv_clients] in Hin.
    apply in_map_iff in Hin. destruct Hin as [c0 [Heq Hc0]].
    destruct (sc_slot c0 =? sc_slot cnew) eqn:E.
    + subst cl'. split; [cbn; apply new_vis_pall; exact Hpol|]. intros _. right. split; [intros e; reflexivity|].
      cbn [cnew authorized_client sc_slot]. apply sent_of_unknown; [exact Hg|]. intros c1 Hc1 Hs1.
      assert (c1 = cl); [|subst c1; exact Ea].
      apply (nodup_slot_eq (sv_clients s)); [exact (gi_slots g Hg)|exact Hc1|exact Hcl|congruence].
    + subst cl'. split; [exact (so_novis _ (proj1 (gi_srv g Hg)) c0 Hc0)|]. intros _. left. exact Hc0.
Qed.

Lemma disconnect_inv g slot : ginv g ->
  ginv (mkG (disconnect_client (g_srv g) slot) (sync_sent (disconnect_client (g_srv g) slot) (g_sent g) [])).
Proof.
  intros Hg. apply ginv_clients_change; try reflexivity; [exact Hg| |].
  - cbn [disconnect_client sv_clients]. apply NoDup_map_filter. exact (gi_slots g Hg).
  - intros cl' Hin. cbn [disconnect_client sv_clients] in Hin. apply filter_In in Hin. destruct Hin as [Hin _].
    split; [exact (so_novis _ (proj1 (gi_srv g Hg)) cl' Hin)|]. intros _. left. exact Hin.
Qed.

Lemma ginit_inv : ginv ginit.
Proof.
  constructor; cbn.
  - split; [constructor|]; cbn.
    + constructor.
    + intros cl [].
    + lia.
    + intros e k x c [[ks [H _]] | [a []]]. discriminate.
    + constructor.
    + intros e H. cbn in H. congruence.
  - constructor.
  - reflexivity.
  - intros cl [].
  - intros slot H. congruence.
Qed.

Theorem gstep_inv c g o g' : cfg_policy c = PAll -> ginv g -> gstep c g o = Ok g' -> ginv g'.
Proof.
  intros Hpol Hg H. destruct o; cbn [gstep] in H.
  - injection H as <-. apply ginv_server_change; try reflexivity. exact Hg.
  - injection H as <-. apply ginv_server_change; try reflexivity. exact Hg.
  - injection H as <-. apply connect_inv; assumption.
  - injection H as <-. apply authorize_inv; assumption.
  - injection H as <-. apply disconnect_inv; assumption.
  - injection H as <-. unfold deliver_acks. destruct (sv_running (g_srv g)); [|destruct g; exact Hg].
    destruct (find_client (g_srv g) slot); [|destruct g; exact Hg].
    apply ginv_server_change; try reflexivity. exact Hg.
  - injection H as <-. apply ginv_server_change; try reflexivity. exact Hg.
  - destruct (server_frame c (g_srv g) tick dt cleanup ops parts) as [[s' fo]| |] eqn:Ef; cbn [bind] in H; try discriminate.
    injection H as <-. exact (proj1 (gframe_ok c g tick dt cleanup ops parts s' fo Hg Ef)).
Qed.

Theorem grun_inv c l : forall g g', cfg_policy c = PAll -> ginv g -> grun c g l = Ok g' -> ginv g'.
Proof.
  induction l as [|o l IH]; intros g g' Hpol Hg H; cbn [grun] in H.
  - injection H as <-. exact Hg.
  - destruct (gstep c g o) as [g1| |] eqn:E; cbn [bind] in H; try discriminate.
    apply (IH g1 g' Hpol); [|exact H]. exact (gstep_inv c g o g1 Hpol Hg E).
Qed.

(* ================= 7. THEOREM 4: whole runs ================= *)

(* in every history: after a tick frame every authorized client has been sent exactly the structure
   the server replicates in that frame; in a frame without tick nothing is sent and nothing changes *)
Theorem run_sends_diffs c steps g tick dt (cleanup : bool) ops parts g' :
  cfg_policy c = PAll -> grun c ginit steps = Ok g ->
  gstep c g (GFrame tick dt cleanup ops parts) = Ok g' ->
  exists fo, server_frame c (g_srv g) tick dt cleanup ops parts = Ok (g_srv g', fo) /\
    forall cl, In cl (sv_clients (g_srv g')) -> sc_authorized cl = true ->
      al_get (sc_slot cl) (g_sent g')
        = Some (abs_send (sent_of (sc_slot cl) (g_sent g)) (upd_for (sc_slot cl) (fo_clients fo))) /\
      (fo_ran fo = true -> struct_equiv (sent_of (sc_slot cl) (g_sent g')) (struct_of (g_srv g'))) /\
      (fo_ran fo = false -> upd_for (sc_slot cl) (fo_clients fo) = None /\
                            sent_of (sc_slot cl) (g_sent g') = sent_of (sc_slot cl) (g_sent g)).
Proof.
  intros Hpol Hrun H. pose proof (grun_inv c steps ginit g Hpol ginit_inv Hrun) as Hg.
  cbn [gstep] in H.
  destruct (server_frame c (g_srv g) tick dt cleanup ops parts) as [[s' fo]| |] eqn:Ef; cbn [bind] in H; try discriminate.
  injection H as <-. cbn [g_srv g_sent]. exists fo. split; [reflexivity|].
  destruct (gframe_ok c g tick dt cleanup ops parts s' fo Hg Ef) as [Hg' [Hran Hnot]].
  intros cl Hin Ha. pose proof (gi_slots _ Hg') as Hnd. cbn [g_srv] in Hnd.
  split; [apply sync_get; assumption|]. rewrite (sync_sent_of s' (g_sent g) (fo_clients fo) cl Hnd Hin Ha). split.
  - intros Hr. exact (Hran Hr cl Hin Ha).
  - intros Hr. rewrite (Hnot Hr). split; reflexivity.
Qed.

(* the first update after authorization carries the whole replicated structure *)
Corollary first_update_is_full_structure c steps g tick dt (cleanup : bool) ops parts g' fo cl :
  cfg_policy c = PAll -> grun c ginit steps = Ok g ->
  gstep c g (GFrame tick dt cleanup ops parts) = Ok g' ->
  server_frame c (g_srv g) tick dt cleanup ops parts = Ok (g_srv g', fo) -> fo_ran fo = true ->
  In cl (sv_clients (g_srv g')) -> sc_authorized cl = true ->
  sent_of (sc_slot cl) (g_sent g) = [] ->
  struct_equiv (abs_send [] (upd_for (sc_slot cl) (fo_clients fo))) (struct_of (g_srv g')).
Proof.
  intros Hpol Hrun H Hf Hran Hin Ha Hempty.
  destruct (run_sends_diffs c steps g tick dt cleanup ops parts g' Hpol Hrun H) as [fo' [Hf' Hall]].
  assert (fo' = fo) by congruence. subst fo'.
  destruct (Hall cl Hin Ha) as [Hget [Hr _]]. specialize (Hr Hran).
  unfold sent_of in Hr at 1. rewrite Hget, Hempty in Hr. exact Hr.
Qed.

(* ... and a client starts with the empty structure when it becomes authorized *)
Lemma authorized_starts_empty c steps g slot cl g' :
  cfg_policy c = PAll -> grun c ginit steps = Ok g ->
  find_client (g_srv g) slot = Some cl -> sc_authorized cl = false ->
  gstep c g (GAuthorize slot) = Ok g' -> sent_of slot (g_sent g') = [].
Proof.
  intros Hpol Hrun Hf Hna H. pose proof (grun_inv c steps ginit g Hpol ginit_inv Hrun) as Hg.
  pose proof (gstep_inv c g _ g' Hpol Hg H) as Hg'.
  cbn [gstep] in H. injection H as <-. cbn [g_sent].
  set (s' := authorize_client c (g_srv g) slot) in *.
  pose proof Hf as Hf0. unfold find_client in Hf0. apply find_some in Hf0. destruct Hf0 as [Hcl Hs]. cbn in Hs.
  assert (Hfn : find_client s' slot = Some (authorized_client c slot (sc_max_size cl))).
  { unfold s', authorize_client. rewrite Hf, Hna. eapply find_update_client; [exact Hf|reflexivity]. }
  unfold find_client in Hfn. apply find_some in Hfn. destruct Hfn as [Hin' _].
  pose proof (sync_sent_of s' (g_sent g) [] _ (gi_slots _ Hg') Hin' eq_refl) as Hsy.
  cbn [authorized_client sc_slot upd_for find abs_send] in Hsy. rewrite Hsy.
  apply sent_of_unknown; [exact Hg|]. intros c1 Hc1 Hs1.
  assert (c1 = cl); [|subst c1; exact Hna].
  apply (nodup_slot_eq (sv_clients (g_srv g))); [exact (gi_slots g Hg)|exact Hc1|exact Hcl|lia].
Qed.
