(* C03 end to end: composition of the server half (Repl/Struct*_proofs.v: every update message is
   the structural diff) and the client half (Repl/ClientStruct_proofs.v: the client applies an
   update message as `abs_apply`) over whole-system runs (Repl/Sys.v).

   Scope: single-session scripts (no StStop, no StDisconnect), policy PAll, legal scripts (the
   update channel is reliable and ordered), no `SMap` server operations (hence no pre-spawn
   mappings in update messages), no delivery of mutate messages (they may be queued and dropped).

   Ghost: per authorized slot the structure obtained by applying every update message sent so far
   (the `g_sent` of StructSpec.gstate, maintained by `sync_sent` exactly as `gstep` does). *)
From RV Require Import Lib.Res Repl.ClientTicks Repl.ClientTicks_proofs Repl.World Vis.Visibility
  Tick.RepliconTick Tick.RepliconTick_proofs Tick.ConfirmHistory Tick.MutateTicks
  Repl.Server Repl.ServerSpec Repl.Server_proofs Repl.StructSpec Repl.Struct_proofs
  Repl.StructOps_proofs Repl.StructRun_proofs
  Repl.Client Repl.Sys Repl.Client_proofs Repl.ClientEnt_proofs Repl.ClientMut_proofs Repl.ClientSys_proofs
  Repl.ClientStructSpec Repl.ClientStruct_proofs.
From Coq Require Import ZifyBool ZifyN.
Open Scope N_scope.
Ltac Zify.zify_post_hook ::= Z.div_mod_to_equations.
Arguments N.add : simpl never. Arguments N.mul : simpl never. Arguments N.pow : simpl never.
Arguments N.ltb : simpl never. Arguments N.leb : simpl never. Arguments N.div : simpl never.
Arguments N.modulo : simpl never. Arguments N.sub : simpl never. Arguments N.eqb : simpl never.

(* ================================================================== *)
(* 0. scripts                                                         *)
(* ================================================================== *)

Definition sop_ok (op : sop) : bool := match op with SMap _ _ _ => false | _ => true end.

Definition single_session_step (st : step) : bool :=
  match st with StStop | StDisconnect _ => false | _ => true end.
Definition single_session (script : list step) : bool := forallb single_session_step script.

Definition no_smap_step (st : step) : bool :=
  match st with StSFrame _ _ _ ops _ => forallb sop_ok ops | _ => true end.
Definition no_smap (script : list step) : bool := forallb no_smap_step script.

Definition no_mut_delivery_step (st : step) : bool :=
  match st with StDeliver _ true ch _ => negb (ch =? 1) | _ => true end.
Definition no_mut_delivery (script : list step) : bool := forallb no_mut_delivery_step script.

Definition step_ok (st : step) : bool :=
  legal_step st && single_session_step st && no_smap_step st && no_mut_delivery_step st.
Definition script_ok (script : list step) : bool := forallb step_ok script.

Lemma script_ok_split script :
  script_ok script = legal script && single_session script && no_smap script && no_mut_delivery script.
Proof.
  unfold script_ok, legal, single_session, no_smap, no_mut_delivery.
  induction script as [|st t IH]; cbn [forallb]; [reflexivity|]. rewrite IH. unfold step_ok.
  destruct (legal_step st), (single_session_step st), (no_smap_step st), (no_mut_delivery_step st),
    (forallb legal_step t), (forallb single_session_step t), (forallb no_smap_step t), (forallb no_mut_delivery_step t); reflexivity.
Qed.

(* ---------- the ghost ---------- *)

Definition ghost_step (y : sys) (gs : list (N * structure)) (st : step) : list (N * structure) :=
  match st with
  | StConnect slot max =>
    match find_client (y_server y) slot, al_get slot (y_clients y) with
    | None, Some _ =>
      if sv_running (y_server y) then sync_sent (connect_client (y_cfg y) (y_server y) slot max) gs [] else gs
    | _, _ => gs
    end
  | StAuthorize slot => sync_sent (authorize_client (y_cfg y) (y_server y) slot) gs []
  | StSFrame tick dt cleanup ops parts =>
    match server_frame (y_cfg y) (y_server y) tick dt cleanup ops parts with
    | Ok (s', fo) => sync_sent s' gs (fo_clients fo)
    | _ => gs
    end
  | _ => gs
  end.

(* [run] with the ghost *)
Fixpoint erun (y : sys) (gs : list (N * structure)) (script : list step) : res (sys * list (N * structure)) :=
  match script with
  | [] => Ok (y, gs)
  | st :: rest => let* (y', _) := sys_step y st in erun y' (ghost_step y gs st) rest
  end.

Lemma erun_app s1 : forall y gs s2,
  erun y gs (s1 ++ s2) = let* (y1, gs1) := erun y gs s1 in erun y1 gs1 s2.
Proof.
  induction s1 as [|st t IH]; intros y gs s2; cbn [app erun bind]; [reflexivity|].
  destruct (sys_step y st) as [[y' o]| |]; cbn [bind]; [apply IH|reflexivity|reflexivity].
Qed.

Lemma erun_run script : forall y gs y' gs', erun y gs script = Ok (y', gs') -> run y script = Ok y'.
Proof.
  induction script as [|st t IH]; intros y gs y' gs' H; cbn [erun run] in *.
  - inversion H; reflexivity.
  - destruct (sys_step y st) as [[y1 o]| |]; cbn [bind] in *; try discriminate. exact (IH _ _ _ _ H).
Qed.

Lemma run_erun script : forall y gs y', run y script = Ok y' -> exists gs', erun y gs script = Ok (y', gs').
Proof.
  induction script as [|st t IH]; intros y gs y' H; cbn [erun run] in *.
  - inversion H; subst. eexists; reflexivity.
  - destruct (sys_step y st) as [[y1 o]| |]; cbn [bind] in *; try discriminate. exact (IH _ _ _ H).
Qed.

Lemma run_app s1 : forall y s2, run y (s1 ++ s2) = let* y1 := run y s1 in run y1 s2.
Proof.
  induction s1 as [|st t IH]; intros y s2; cbn [app run bind]; [reflexivity|].
  destruct (sys_step y st) as [[y' o]| |]; cbn [bind]; [apply IH|reflexivity|reflexivity].
Qed.

(* ================================================================== *)
(* 1. the server side: clients, outputs, no pre-spawn mappings        *)
(* ================================================================== *)

Definition nomaps_srv (s : server) : Prop := forall cl, In cl (sv_clients s) -> sc_pending_map cl = [].

Lemma nomaps_same s s' : sv_clients s' = sv_clients s -> nomaps_srv s -> nomaps_srv s'.
Proof. intros E H cl. rewrite E. apply H. Qed.

Lemma nomaps_update_client s cnew : nomaps_srv s -> sc_pending_map cnew = [] -> nomaps_srv (update_client s cnew).
Proof.
  intros H Hn cl Hin. unfold update_client, set_clients in Hin. cbn [sv_clients] in Hin.
  apply in_map_iff in Hin. destruct Hin as [c1 [E Hc1]]. destruct (sc_slot c1 =? sc_slot cnew); subst cl; [exact Hn|exact (H c1 Hc1)].
Qed.

Lemma apply_sop_nomaps s op : sop_ok op = true -> nomaps_srv s -> nomaps_srv (apply_sop s op).
Proof.
  intros Hok H.
  destruct op as [e marker comps|e|e k v|e k|e k v|e|e|slot e visible|slot e pc]; unfold apply_sop; try discriminate.
  - destruct (get_ent s e); [exact H|]. revert H. apply nomaps_same. reflexivity.
  - destruct (get_ent s e) as [x|]; [|exact H]. destruct (se_alive x); [|exact H].
    destruct (se_marker x); revert H; apply nomaps_same; [rewrite sv_clients_buffer_despawn|]; reflexivity.
  - destruct (get_ent s e) as [x|]; [|exact H]. destruct (se_alive x && val_ok s v); [|exact H].
    revert H. apply nomaps_same. reflexivity.
  - destruct (get_ent s e) as [x|]; [|exact H]. destruct (se_alive x); [|exact H].
    destruct (al_get k (se_comps x)); [|exact H]. revert H. apply nomaps_same. reflexivity.
  - destruct (get_ent s e) as [x|]; [|exact H]. destruct (se_alive x && val_ok s v); [|exact H].
    destruct (al_get k (se_comps x)); [|exact H]. revert H. apply nomaps_same. reflexivity.
  - destruct (get_ent s e) as [x|]; [|exact H]. destruct (se_alive x); [|exact H].
    destruct (se_marker x); [exact H|]. revert H. apply nomaps_same. reflexivity.
  - destruct (get_ent s e) as [x|]; [|exact H]. destruct (se_alive x); [|exact H].
    destruct (se_marker x); [|exact H]. revert H. apply nomaps_same. rewrite sv_clients_buffer_despawn. reflexivity.
  - destruct (find_client s slot) as [c0|] eqn:Ef; [|exact H]. destruct (get_ent s e); [|exact H].
    destruct (sc_vis c0); [|exact H]. apply (nomaps_update_client s); [exact H|]. cbn.
    unfold find_client in Ef. apply find_some in Ef. exact (H c0 (proj1 Ef)).
Qed.

Lemma ops_nomaps ops : forall s, forallb sop_ok ops = true -> nomaps_srv s -> nomaps_srv (fold_left apply_sop ops s).
Proof.
  induction ops as [|op t IH]; intros s Hok H; cbn [fold_left]; [exact H|].
  cbn [forallb] in Hok. apply andb_prop in Hok. destruct Hok as [H1 H2]. apply IH; [exact H2|]. apply apply_sop_nomaps; assumption.
Qed.

Lemma receive_acks_nomaps s : nomaps_srv s -> nomaps_srv (receive_acks s).
Proof.
  unfold nomaps_srv, receive_acks. cbn [sv_clients]. generalize (sv_clients s) as cls.
  induction (sv_inbox_acks s) as [|[slot idxs] msgs IH]; intros cls H; cbn [fold_left]; [exact H|].
  apply IH. intros cl Hin. apply in_map_iff in Hin. destruct Hin as [c1 [E Hc1]].
  destruct ((sc_slot c1 =? slot) && sc_authorized c1); subst cl; [cbn|]; exact (H c1 Hc1).
Qed.

Lemma cleanup_acks_nomaps c s : nomaps_srv s -> nomaps_srv (cleanup_acks c s).
Proof.
  intros H cl Hin. unfold cleanup_acks, set_clients in Hin. cbn [sv_clients] in Hin.
  apply in_map_iff in Hin. destruct Hin as [c1 [E Hc1]]. subst cl. cbn. exact (H c1 Hc1).
Qed.

(* slot and authorization of the client records *)
Definition has_auth (s : server) (slot : N) : Prop :=
  exists cl, In cl (sv_clients s) /\ sc_slot cl = slot /\ sc_authorized cl = true.
Definition has_rec (s : server) (slot : N) : Prop := exists cl, In cl (sv_clients s) /\ sc_slot cl = slot.

Lemma has_rec_find s slot : has_rec s slot <-> find_client s slot <> None.
Proof.
  unfold find_client. split.
  - intros [cl [Hin Hs]] Hn. pose proof (find_none _ _ Hn cl Hin) as H. cbn in H. lia.
  - intros H. destruct (find (fun c => sc_slot c =? slot) (sv_clients s)) as [cl|] eqn:E; [|congruence].
    apply find_some in E. exists cl. split; [tauto|]. destruct E as [_ E]. lia.
Qed.

Lemma auth_sig_same l l' : Forall2 cl_same l l' ->
  map (fun cl => (sc_slot cl, sc_authorized cl)) l' = map (fun cl => (sc_slot cl, sc_authorized cl)) l.
Proof.
  induction 1 as [|a b l l' H _ IH]; cbn [map]; [reflexivity|]. destruct H as (-> & -> & _). rewrite IH. reflexivity.
Qed.

Lemma has_auth_sig s slot : has_auth s slot <-> In (slot, true) (auth_sig s).
Proof.
  unfold has_auth, auth_sig. rewrite in_map_iff. split.
  - intros [cl [Hin [Hs Ha]]]. exists cl. split; [congruence|exact Hin].
  - intros [cl [E Hin]]. inversion E. exists cl. auto.
Qed.

Lemma has_rec_sig s slot : has_rec s slot <-> In slot (map fst (auth_sig s)).
Proof.
  unfold has_rec, auth_sig. rewrite map_map. cbn [fst]. rewrite in_map_iff. split.
  - intros [cl [Hin Hs]]. exists cl. auto.
  - intros [cl [E Hin]]. exists cl. auto.
Qed.

(* the update messages of a tick: at most one per slot *)
Lemma updates_for_upd_for slot outs : NoDup (map co_slot outs) ->
  updates_for slot outs = match upd_for slot outs with Some u => [u] | None => [] end.
Proof.
  unfold updates_for, upd_for. induction outs as [|o t IH]; intros Hnd; cbn [flat_map find map]; [reflexivity|].
  cbn [map] in Hnd. inversion Hnd as [|? ? Hnin Hnd']; subst. destruct (co_slot o =? slot) eqn:E.
  - assert (Hs : co_slot o = slot) by lia.
    assert (Ht : flat_map (fun o0 => if co_slot o0 =? slot then match co_update o0 with Some u => [u] | None => [] end else []) t = []).
    { clear IH Hnd Hnd'. induction t as [|o1 t1 IH1]; cbn [flat_map]; [reflexivity|].
      cbn [map In] in Hnin. destruct (co_slot o1 =? slot) eqn:E1; [exfalso; apply Hnin; left; lia|].
      cbn [app]. apply IH1. intros Hin. apply Hnin. right. exact Hin. }
    rewrite Ht, app_nil_r. reflexivity.
  - cbn [app]. apply IH. exact Hnd'.
Qed.

Lemma upd_for_none slot outs : ~ In slot (map co_slot outs) -> upd_for slot outs = None /\ updates_for slot outs = [].
Proof.
  unfold upd_for, updates_for. induction outs as [|o t IH]; intros Hn; cbn [find flat_map]; [auto|].
  cbn [map In] in Hn. destruct (co_slot o =? slot) eqn:E; [exfalso; apply Hn; left; lia|].
  cbn [app]. apply IH. tauto.
Qed.

Lemma upd_for_in slot outs u : upd_for slot outs = Some u -> exists o, In o outs /\ co_slot o = slot /\ co_update o = Some u.
Proof.
  unfold upd_for. destruct (find (fun o => co_slot o =? slot) outs) as [o|] eqn:E; [|discriminate].
  apply find_some in E. intros H. exists o. split; [tauto|]. split; [destruct E as [_ E]; lia|exact H].
Qed.

Lemma outs_of_slots c s parts cls :
  map co_slot (outs_of (map (client_result_pure c s parts) cls)) = map sc_slot (filter sc_authorized cls).
Proof.
  induction cls as [|cl t IH]; cbn [map filter]; [reflexivity|].
  change (outs_of (client_result_pure c s parts cl :: map (client_result_pure c s parts) t))
    with ((match snd (client_result_pure c s parts cl) with Some o => [o] | None => [] end)
          ++ outs_of (map (client_result_pure c s parts) t)).
  unfold client_result_pure at 1. destruct (sc_authorized cl); cbn [snd app map]; rewrite IH; reflexivity.
Qed.

(* what a server frame does to the client records and what it outputs *)
Lemma server_frame_clients c g tick dt (cleanup : bool) ops parts s' fo :
  ginv g -> nomaps_srv (g_srv g) -> forallb sop_ok ops = true ->
  (sv_running (g_srv g) = false -> sv_clients (g_srv g) = []) ->
  server_frame c (g_srv g) tick dt cleanup ops parts = Ok (s', fo) ->
  nomaps_srv s' /\ sv_running s' = sv_running (g_srv g) /\
  (sv_running (g_srv g) = false -> sv_clients s' = []) /\
  auth_sig s' = auth_sig (g_srv g) /\
  NoDup (map co_slot (fo_clients fo)) /\
  (forall o, In o (fo_clients fo) -> has_auth s' (co_slot o)) /\
  (forall o u, In o (fo_clients fo) -> co_update o = Some u -> u_maps u = [] /\ u_tick u = sv_tick s').
Proof.
  intros [Hok Hnd Hidle Hcl Hdom] Hnm Hops Hrun H. set (s := g_srv g) in *.
  unfold server_frame in H. change (sv_running (with_time_tick s tick dt)) with (sv_running s) in H.
  destruct (sv_running s) eqn:Erun.
  - destruct (frame_running_pre c s tick dt cleanup ops Hok Erun Hnd) as [Hok3 [Hev3 [Hrun3 [Hlr3 [Hsame3 Hp3]]]]].
    cbv zeta in Hok3, Hev3, Hrun3, Hlr3, Hsame3, Hp3.
    set (s2 := if cleanup then cleanup_acks c (receive_acks (with_time_tick s tick dt))
               else receive_acks (with_time_tick s tick dt)) in *.
    set (s3 := fold_left apply_sop ops s2) in *.
    cbv zeta in H. fold s2 in H. fold s3 in H. rewrite Hrun3 in H. set (s3' := buffer_removals s3) in *.
    assert (Hnm3 : nomaps_srv s3').
    { apply (nomaps_same s3); [reflexivity|]. apply ops_nomaps; [exact Hops|]. unfold s2.
      destruct cleanup; [apply cleanup_acks_nomaps|]; apply receive_acks_nomaps;
        (apply (nomaps_same s); [reflexivity|exact Hnm]). }
    assert (Hsig3 : auth_sig s3' = auth_sig s) by (apply auth_sig_same; exact Hsame3).
    assert (Hnd3 : NoDup (map sc_slot (sv_clients s3'))) by (rewrite (cl_same_slots _ _ Hsame3); exact Hnd).
    destruct (sv_dirty s3') eqn:Ed.
    + rewrite send_replication_eq in H. cbn [bind] in H. injection H as <- <-. cbn [fo_clients].
      set (rs := map (client_result_pure c s3' parts) (sv_clients s3')) in *.
      assert (Hone : forall cl, In cl (sv_clients s3') ->
                sc_slot (fst (client_result_pure c s3' parts cl)) = sc_slot cl /\
                sc_authorized (fst (client_result_pure c s3' parts cl)) = sc_authorized cl /\
                sc_pending_map (fst (client_result_pure c s3' parts cl)) = []).
      { intros cl Hin. unfold client_result_pure. destruct (sc_authorized cl) eqn:Ea; cbn [fst].
        - unfold sfc_pure. cbn. auto.
        - split; [reflexivity|]. split; [exact Ea|exact (Hnm3 cl Hin)]. }
      split; [|split; [change (sv_running s3 = true); exact Hrun3|split; [discriminate|split; [|split; [|split]]]]].
      * intros cl' Hin. cbn in Hin. unfold rs in Hin. rewrite map_map in Hin. apply in_map_iff in Hin.
        destruct Hin as [cl [<- Hin]]. apply (Hone cl Hin).
      * rewrite <- Hsig3. unfold auth_sig. cbn [set_last_running set_after_send sv_clients]. unfold rs. rewrite !map_map.
        apply map_ext_in. intros cl Hin. destruct (Hone cl Hin) as (-> & -> & _). reflexivity.
      * unfold rs. rewrite outs_of_slots. apply NoDup_map_filter. exact Hnd3.
      * intros o Ho. unfold outs_of in Ho. apply in_flat_map in Ho. destruct Ho as [r [Hr Ho]].
        unfold rs in Hr. apply in_map_iff in Hr. destruct Hr as [cl [<- Hcl0]].
        unfold client_result_pure in Ho. destruct (sc_authorized cl) eqn:Ea; [|destruct Ho].
        cbn [snd] in Ho. destruct Ho as [<- | []]. cbn [sfc_pure snd co_slot].
        exists (fst (client_result_pure c s3' parts cl)). split.
        -- cbn [set_last_running set_after_send sv_clients]. unfold rs. rewrite map_map. apply in_map_iff. exists cl. auto.
        -- destruct (Hone cl Hcl0) as (A & B & _). split; [exact A|congruence].
      * intros o u Ho Hu. unfold outs_of in Ho. apply in_flat_map in Ho. destruct Ho as [r [Hr Ho]].
        unfold rs in Hr. apply in_map_iff in Hr. destruct Hr as [cl [<- Hcl0]].
        unfold client_result_pure in Ho. destruct (sc_authorized cl) eqn:Ea; [|destruct Ho].
        cbn [snd] in Ho. destruct Ho as [<- | []]. cbn [sfc_pure snd co_update] in Hu.
        destruct (sfc_has_upd s3' (sv_now s3') cl); [|discriminate]. inversion Hu; subst u.
        cbn [sfc_upd u_maps u_tick]. rewrite (Hnm3 cl Hcl0). split; reflexivity.
    + cbn [bind] in H. injection H as <- <-. cbn [fo_clients].
      split; [exact Hnm3|]. split; [exact Hrun3|]. split; [discriminate|]. split; [exact Hsig3|].
      split; [constructor|]. split; [intros o []|intros o u []].
  - specialize (Hrun eq_refl).
    set (s1 := with_time_tick s tick dt) in *.
    assert (Hc3 : sv_clients (fold_left apply_sop ops s1) = []).
    { assert (G : forall s0, sv_clients s0 = [] -> forall op, sv_clients (apply_sop s0 op) = []).
      { intros s0 H0 op. pose proof (apply_sop_same s0 op) as Hs.
        assert (Hnv : no_vis s0) by (intros cl Hin; rewrite H0 in Hin; destruct Hin).
        assert (Hn0 : NoDup (map sc_slot (sv_clients s0))) by (rewrite H0; constructor).
        specialize (Hs Hnv Hn0). rewrite H0 in Hs. inversion Hs. reflexivity. }
      assert (G2 : forall ops0 s0, sv_clients s0 = [] -> sv_clients (fold_left apply_sop ops0 s0) = []).
      { induction ops0 as [|op t IH]; intros s0 H0; cbn [fold_left]; [exact H0|]. apply IH. apply G. exact H0. }
      apply G2. exact Hrun. }
    set (s3 := fold_left apply_sop ops s1) in *.
    assert (Hr3 : sv_running s3 = false).
    { destruct (ops_any ops s1) as [_ [[G1 _] _]].
      - apply (srv_base_ext s); try reflexivity; [exact (so_novis s (proj1 Hok))|exact (proj1 Hok)].
      - exact Hnd.
      - fold s3 in G1. rewrite G1. exact Erun. }
    rewrite Hr3 in H. cbn [bind] in H. injection H as <- <-. cbn [fo_clients].
    assert (Hcl' : sv_clients (set_last_running (clear_dirty (age_events (if sv_last_running s3 then reset s3 else s3)))) = []).
    { destruct (sv_last_running s3); [reflexivity|exact Hc3]. }
    split; [intros cl Hin; rewrite Hcl' in Hin; destruct Hin|].
    split; [destruct (sv_last_running s3); exact Hr3|]. split; [intros _; exact Hcl'|].
    split; [unfold auth_sig; rewrite Hcl', Hrun; reflexivity|]. split; [constructor|]. split; [intros o []|intros o u []].
Qed.

(* ================================================================== *)
(* 2. the ghost after a step                                          *)
(* ================================================================== *)

Lemma sync_sent_of_gen g s' outs :
  ginv g -> NoDup (map sc_slot (sv_clients s')) ->
  (forall slot, has_auth (g_srv g) slot -> has_auth s' slot) ->
  (forall o, In o outs -> has_auth s' (co_slot o)) ->
  forall slot, sent_of slot (sync_sent s' (g_sent g) outs) = abs_send (sent_of slot (g_sent g)) (upd_for slot outs).
Proof.
  intros Hg Hnd Hkeep Houts slot.
  assert (Hyes : has_auth s' slot ->
            sent_of slot (sync_sent s' (g_sent g) outs) = abs_send (sent_of slot (g_sent g)) (upd_for slot outs)).
  { intros [cl [Hin [Hs Ha]]]. rewrite <- Hs. apply sync_sent_of; assumption. }
  destruct (al_get slot (sync_sent s' (g_sent g) outs)) as [st|] eqn:E.
  - apply Hyes. destruct (sync_dom s' (g_sent g) outs slot) as [cl Hcl]; [rewrite E; discriminate|]. exists cl. exact Hcl.
  - assert (Hno : ~ has_auth s' slot).
    { intros [cl [Hin [Hs Ha]]]. pose proof (sync_get s' (g_sent g) outs cl Hnd Hin Ha) as G. rewrite Hs in G. congruence. }
    unfold sent_of at 1. rewrite E.
    assert (H1 : sent_of slot (g_sent g) = []).
    { unfold sent_of. destruct (al_get slot (g_sent g)) eqn:E2; [|reflexivity]. exfalso. apply Hno. apply Hkeep.
      apply (gi_dom g Hg slot). rewrite E2. discriminate. }
    assert (H2 : upd_for slot outs = None).
    { destruct (upd_for slot outs) as [u|] eqn:E2; [|reflexivity]. exfalso. apply Hno.
      destruct (upd_for_in slot outs u E2) as [o [Ho [Hs _]]]. rewrite <- Hs. apply Houts. exact Ho. }
    rewrite H1, H2. reflexivity.
Qed.

Lemma sent_of_norec g slot : ginv g -> ~ has_rec (g_srv g) slot -> sent_of slot (g_sent g) = [].
Proof.
  intros Hg Hno. apply sent_of_unknown; [exact Hg|]. intros cl Hin Hs. exfalso. apply Hno. exists cl. auto.
Qed.

(* queues *)
Lemma enqueue_fields outs : forall y,
  y_cfg (enqueue_outputs y outs) = y_cfg y /\ y_server (enqueue_outputs y outs) = y_server y /\
  y_clients (enqueue_outputs y outs) = y_clients y.
Proof.
  unfold enqueue_outputs. induction outs as [|o t IH]; intros y; cbn [fold_left]; [auto|].
  destruct (IH (set_link y (co_slot o)
                  (mkLink (l_upd (get_link y (co_slot o)) ++ match co_update o with Some u => [u] | None => [] end)
                          (l_mut (get_link y (co_slot o)) ++ co_mutates o) (l_ack (get_link y (co_slot o)))))) as (A & B & C).
  rewrite A, B, C. auto.
Qed.

Lemma enqueue_lupd outs y slot :
  l_upd (get_link (enqueue_outputs y outs) slot) = l_upd (get_link y slot) ++ updates_for slot outs.
Proof.
  pose proof (enqueue_appends outs y slot) as H. unfold pending, inbox_of in H.
  rewrite (proj2 (proj2 (enqueue_fields outs y))) in H. rewrite <- app_assoc in H. exact (app_inv_head _ _ _ H).
Qed.

Lemma take_nil {A} w : take w (@nil A) = ([], []).
Proof. destruct w; reflexivity. Qed.

Lemma deliver_updates_fields p : forall cl,
  let cl' := fold_left deliver_update p cl in
  cl_s2c cl' = cl_s2c cl /\ cl_c2s cl' = cl_c2s cl /\ cl_ents cl' = cl_ents cl /\ cl_next cl' = cl_next cl /\
  cl_upd_tick cl' = cl_upd_tick cl /\ cl_inbox_mut cl' = cl_inbox_mut cl /\ cl_buffered cl' = cl_buffered cl /\
  cl_status cl' = cl_status cl.
Proof.
  induction p as [|u t IH]; intros cl; cbn [fold_left]; [cbv zeta; auto 10|].
  destruct (IH (deliver_update cl u)) as (A & B & C & D & E & F & G & H). cbv zeta.
  rewrite A, B, C, D, E, F, G, H. unfold deliver_update. destruct (cl_status cl) eqn:Es; cbn; rewrite ?Es; auto 10.
Qed.

(* ================================================================== *)
(* 3. the invariant of a whole-system run                             *)
(* ================================================================== *)


Section E2E.
  Variables (cfg0 : cfg) (nclients : N).
  Hypothesis Hpol : cfg_policy cfg0 = PAll.

  (* a state the run went through: the result of a prefix of the script *)
  Definition reached (script : list step) (y1 : sys) : Prop :=
    exists pre post, script = pre ++ post /\ run (sys_init cfg0 nclients) pre = Ok y1.

  (* every non-empty prefix of the update messages sent to a client is the structure the server
     replicated at some earlier moment of the run, at the tick of the prefix's last message *)
  Definition snaps (script : list step) (sent : list update_msg) : Prop :=
    forall p q, sent = p ++ q -> p <> [] ->
      exists y1, reached script y1 /\
                 struct_equiv (fold_left abs_apply p []) (struct_of (y_server y1)) /\
                 u_tick (last p dflt_upd) = sv_tick (y_server y1).

  (* a connected client: [applied] are the update messages it has applied, [pend] (inbox ++ queue)
     those sent and not yet applied, oldest first *)
  Record conn_inv (script : list step) (gs : list (N * structure)) (slot : N) (pend : list update_msg)
         (c : client) (applied : list update_msg) : Prop := mkConn {
    cn_rel : srel c (fold_left abs_apply applied []);
    cn_sent : fold_left abs_apply (applied ++ pend) [] = sent_of slot gs;
    cn_nomaps : forallb no_maps pend = true;
    cn_tick : applied <> [] -> cl_upd_tick c = u_tick (last applied dflt_upd);
    cn_snaps : snaps script (applied ++ pend)
  }.

  Record slot_inv (script : list step) (s : server) (gs : list (N * structure)) (slot : N)
         (lupd : list update_msg) (c : client) : Prop := mkSlot {
    si_cs : cs_inv c;
    si_pu : pu c;
    si_nomut : cl_inbox_mut c = [] /\ cl_buffered c = [];
    si_rec : has_rec s slot -> cl_status c = Connected;
    si_idle : cl_status c = Disconnected -> srel c [] /\ cl_inbox_upd c = [] /\ lupd = [];
    si_conn : cl_status c = Connected -> exists applied, conn_inv script gs slot (cl_inbox_upd c ++ lupd) c applied
  }.

  Record e2e_inv (script : list step) (y : sys) (gs : list (N * structure)) : Prop := mkE2E {
    ei_cfg : y_cfg y = cfg0;
    ei_ginv : ginv (mkG (y_server y) gs);
    ei_nomaps : nomaps_srv (y_server y);
    ei_run : sv_running (y_server y) = false -> sv_clients (y_server y) = [];
    ei_slots : forall slot c, al_get slot (y_clients y) = Some c ->
               slot_inv script (y_server y) gs slot (l_upd (get_link y slot)) c
  }.

  Lemma reached_mono script st y1 : reached script y1 -> reached (script ++ [st]) y1.
  Proof. intros (pre & post & -> & H). exists pre, (post ++ [st]). split; [rewrite app_assoc; reflexivity|exact H]. Qed.

  Lemma reached_last script y : run (sys_init cfg0 nclients) script = Ok y -> reached script y.
  Proof. intros H. exists script, []. split; [rewrite app_nil_r; reflexivity|exact H]. Qed.

  Lemma snaps_mono script st sent : snaps script sent -> snaps (script ++ [st]) sent.
  Proof.
    intros H p q E Hne. destruct (H p q E Hne) as (y1 & R & A & B). exists y1. split; [apply reached_mono; exact R|auto].
  Qed.

  Lemma conn_inv_mono script st gs gs' slot pend c applied :
    sent_of slot gs' = sent_of slot gs -> conn_inv script gs slot pend c applied ->
    conn_inv (script ++ [st]) gs' slot pend c applied.
  Proof.
    intros E [H1 H2 H3 H4 H5]. constructor; [exact H1|congruence|exact H3|exact H4|apply snaps_mono; exact H5].
  Qed.

  (* nothing the invariant of the slot reads has changed *)
  Lemma slot_inv_mono script st s s' gs gs' slot lupd c :
    (has_rec s' slot -> has_rec s slot \/ cl_status c = Connected) -> sent_of slot gs' = sent_of slot gs ->
    slot_inv script s gs slot lupd c -> slot_inv (script ++ [st]) s' gs' slot lupd c.
  Proof.
    intros Hr E [H1 H2 H3 H4 H5 H6]. constructor; [exact H1|exact H2|exact H3| |exact H5|].
    { intros Hs. destruct (Hr Hs) as [Hs1|Hs1]; auto. }
    intros Hc. destruct (H6 Hc) as [applied Ha]. exists applied. exact (conn_inv_mono script st gs gs' slot _ c applied E Ha).
  Qed.

  Lemma has_rec_clients s s' slot : sv_clients s' = sv_clients s -> has_rec s' slot -> has_rec s slot.
  Proof. unfold has_rec. intros ->. auto. Qed.

  (* a step that leaves clients, update queues and client records alone *)
  Lemma e2e_same script st y gs y' :
    e2e_inv script y gs ->
    y_cfg y' = y_cfg y -> (forall slot, al_get slot (y_clients y') = al_get slot (y_clients y)) ->
    (forall slot, l_upd (get_link y' slot) = l_upd (get_link y slot)) ->
    sv_clients (y_server y') = sv_clients (y_server y) ->
    (sv_running (y_server y') = false -> sv_running (y_server y) = false) ->
    ginv (mkG (y_server y') gs) ->
    e2e_inv (script ++ [st]) y' gs.
  Proof.
    intros [H1 H2 H3 H4 H5] E1 E2 E3 E4 E5 Hg. constructor.
    - congruence.
    - exact Hg.
    - revert H3. apply nomaps_same. exact E4.
    - intros Hr. rewrite E4. apply H4. apply E5. exact Hr.
    - intros slot c Hc. rewrite E2 in Hc. rewrite E3.
      apply (slot_inv_mono script st (y_server y) _ gs gs); [|reflexivity|exact (H5 slot c Hc)].
      intros Hs. left. exact (has_rec_clients _ _ slot E4 Hs).
  Qed.

  (* ---------- the initial state ---------- *)

  Lemma al_get_map_const {V} (v : V) l k x : al_get k (map (fun i : N => (i, v)) l) = Some x -> x = v.
  Proof.
    induction l as [|a t IH]; cbn [map al_get]; [discriminate|]. destruct (a =? k); [intros H; inversion H; reflexivity|exact IH].
  Qed.

  Lemma e2e_init : e2e_inv [] (sys_init cfg0 nclients) [].
  Proof.
    constructor.
    - reflexivity.
    - exact ginit_inv.
    - intros cl [].
    - reflexivity.
    - intros slot c Hc. cbn [sys_init y_clients] in Hc. apply al_get_map_const in Hc. subst c.
      constructor.
      + apply cs_inv_init.
      + apply pu_init.
      + split; reflexivity.
      + intros [cl [[] _]].
      + intros _. split; [intros e; exact I|]. split; [reflexivity|].
        unfold get_link. cbn [sys_init y_links].
        destruct (al_get slot (map (fun i : N => (i, link_empty)) (map N.of_nat (seq 0 (N.to_nat nclients))))) as [l|] eqn:E; [|reflexivity].
        apply al_get_map_const in E. subst l. reflexivity.
      + cbn. discriminate.
  Qed.

  (* ---------- StStart ---------- *)

  Lemma e2e_start script y gs : e2e_inv script y gs ->
    e2e_inv (script ++ [StStart]) (set_server y (set_running (y_server y) true)) gs.
  Proof.
    intros H. apply (e2e_same script StStart y gs); try reflexivity; [exact H|discriminate|].
    exact (gstep_inv cfg0 (mkG (y_server y) gs) GStart _ Hpol (ei_ginv _ _ _ H) eq_refl).
  Qed.

  (* ---------- StConnect ---------- *)

  Lemma set_status_same c : cl_status c = Connected -> set_status c Connected = c.
  Proof. destruct c; cbn; intros ->; reflexivity. Qed.

  Lemma e2e_connect script y gs slot0 max y' o :
    e2e_inv script y gs -> sys_step y (StConnect slot0 max) = Ok (y', o) ->
    e2e_inv (script ++ [StConnect slot0 max]) y' (ghost_step y gs (StConnect slot0 max)).
  Proof.
    intros Hinv H. pose proof Hinv as [Hcfg Hg Hnm Hrun Hslots].
    assert (Hnoop : e2e_inv (script ++ [StConnect slot0 max]) y gs).
    { apply (e2e_same script _ y gs); try reflexivity; auto. }
    cbn [sys_step ghost_step] in *. rewrite Hcfg in *.
    destruct (find_client (y_server y) slot0) as [c0|] eqn:Ef; [inversion H; subst; exact Hnoop|].
    destruct (al_get slot0 (y_clients y)) as [cl|] eqn:Ec; [|inversion H; subst; exact Hnoop].
    destruct (sv_running (y_server y)) eqn:Er; [|inversion H; subst; exact Hnoop].
    inversion H; subst y' o. clear H Hnoop. set (s := y_server y) in *.
    set (s' := connect_client cfg0 s slot0 max).
    pose proof (connect_inv cfg0 (mkG s gs) slot0 max Hpol Hg) as Hg'. cbn [g_srv g_sent] in Hg'. fold s' in Hg'.
    assert (F1 : exists cnew, sv_clients s' = sv_clients s ++ [cnew] /\ sc_slot cnew = slot0 /\ sc_pending_map cnew = []).
    { unfold s', connect_client. fold s. rewrite Er, Ef. eexists. split; [reflexivity|].
      destruct (cfg_auth cfg0); cbn; auto. }
    destruct F1 as (cnew & F1 & F2 & F3).
    assert (Hnorec : ~ has_rec s slot0) by (intros Hr; apply has_rec_find in Hr; congruence).
    assert (Hsent : forall slot, sent_of slot (sync_sent s' gs []) = sent_of slot gs).
    { intros slot. rewrite (sync_sent_of_gen (mkG s gs) s' [] Hg (gi_slots _ Hg')); [reflexivity| |intros o []].
      intros sl [c1 [Hin Hc1]]. exists c1. split; [|exact Hc1]. cbn [g_srv]. rewrite F1. apply in_or_app. left. exact Hin. }
    constructor.
    - exact Hcfg.
    - exact Hg'.
    - intros c1 Hin. cbn [set_client set_server y_server] in Hin. fold s' in Hin. rewrite F1 in Hin. apply in_app_or in Hin.
      destruct Hin as [Hin|[<-|[]]]; [exact (Hnm c1 Hin)|exact F3].
    - cbn [set_client set_server y_server]. fold s'. unfold s', connect_client. fold s. rewrite Er, Ef. cbn. rewrite Er. discriminate.
    - intros slot c Hc. cbn [set_client set_server y_clients y_server] in *.
      change (get_link (set_client (set_server y s') slot0 (set_status cl Connected)) slot) with (get_link y slot).
      destruct (N.eq_dec slot slot0) as [->|Hne].
      + rewrite al_get_insert_same in Hc. inversion Hc; subst c. clear Hc. pose proof (Hslots slot0 cl Ec) as Hold.
        destruct (cl_status cl) eqn:Es.
        * destruct Hold as [O1 O2 O3 O4 O5 O6]. destruct (O5 Es) as (I1 & I2 & I3).
          assert (Ei : cl_inbox_upd (set_status cl Connected) = cl_inbox_upd cl) by (unfold set_status; rewrite Es; reflexivity).
          assert (Em : cl_inbox_mut (set_status cl Connected) = cl_inbox_mut cl) by (unfold set_status; rewrite Es; reflexivity).
          constructor.
          -- apply cs_inv_set_status. exact O1.
          -- revert O2. apply pu_ext; reflexivity.
          -- rewrite Em. exact O3.
          -- intros _. reflexivity.
          -- cbn. discriminate.
          -- intros _. exists []. rewrite Ei, I2, I3. constructor.
             ++ revert I1. apply srel_ext; reflexivity.
             ++ cbn. rewrite Hsent. symmetry. exact (sent_of_norec (mkG s gs) slot0 Hg Hnorec).
             ++ reflexivity.
             ++ congruence.
             ++ intros p q E Hp. cbn in E. destruct p; [congruence|discriminate].
        * rewrite (set_status_same cl Es). apply (slot_inv_mono script _ s s' gs); [|apply Hsent|exact Hold].
          intros _. right. exact Es.
      + rewrite al_get_insert_other in Hc by exact Hne.
        apply (slot_inv_mono script _ s s' gs); [|apply Hsent|exact (Hslots slot c Hc)].
        intros [c1 [Hin Hs1]]. left. fold s' in Hin. rewrite F1 in Hin. apply in_app_or in Hin. destruct Hin as [Hin|[<-|[]]].
        -- exists c1. auto.
        -- congruence.
  Qed.

  (* ---------- StAuthorize ---------- *)

  Lemma authorize_clients c s slot0 :
    let s' := authorize_client c s slot0 in
    (forall slot, has_rec s' slot -> has_rec s slot) /\ (forall slot, has_auth s slot -> has_auth s' slot) /\
    (nomaps_srv s -> nomaps_srv s') /\ sv_running s' = sv_running s /\ (sv_clients s = [] -> sv_clients s' = []).
  Proof.
    cbv zeta. unfold authorize_client. destruct (find_client s slot0) as [cl|] eqn:Ef; [|auto 6].
    destruct (sc_authorized cl); [auto 6|]. set (cnew := authorized_client c slot0 (sc_max_size cl)).
    assert (Hin' : forall cl', In cl' (sv_clients (update_client s cnew)) <->
               exists c1, In c1 (sv_clients s) /\ cl' = (if sc_slot c1 =? slot0 then cnew else c1)).
    { intros cl'. unfold update_client, set_clients. cbn [sv_clients cnew authorized_client sc_slot]. rewrite in_map_iff.
      split; intros [c1 [A B]]; exists c1; auto. }
    split; [|split; [|split; [|split]]].
    - intros slot [cl' [Hin Hs]]. apply Hin' in Hin. destruct Hin as [c1 [Hc1 ->]]. exists c1. split; [exact Hc1|].
      destruct (sc_slot c1 =? slot0) eqn:E; [|exact Hs]. cbn in Hs. lia.
    - intros slot [c1 [Hc1 [Hs Ha]]]. exists (if sc_slot c1 =? slot0 then cnew else c1). split; [apply Hin'; exists c1; auto|].
      destruct (sc_slot c1 =? slot0) eqn:E; [|auto]. cbn. split; [lia|reflexivity].
    - intros Hn. apply nomaps_update_client; [exact Hn|reflexivity].
    - reflexivity.
    - intros E. unfold find_client in Ef. rewrite E in Ef. discriminate.
  Qed.

  Lemma e2e_authorize script y gs slot0 :
    e2e_inv script y gs ->
    e2e_inv (script ++ [StAuthorize slot0]) (set_server y (authorize_client (y_cfg y) (y_server y) slot0))
            (ghost_step y gs (StAuthorize slot0)).
  Proof.
    intros [Hcfg Hg Hnm Hrun Hslots]. cbn [ghost_step]. rewrite Hcfg. set (s := y_server y) in *.
    set (s' := authorize_client cfg0 s slot0).
    destruct (authorize_clients cfg0 s slot0) as (A1 & A2 & A3 & A4 & A5). fold s' in A1, A2, A3, A4, A5.
    pose proof (authorize_inv cfg0 (mkG s gs) slot0 Hpol Hg) as Hg'. cbn [g_srv g_sent] in Hg'. fold s' in Hg'.
    assert (Hsent : forall slot, sent_of slot (sync_sent s' gs []) = sent_of slot gs).
    { intros slot. rewrite (sync_sent_of_gen (mkG s gs) s' [] Hg (gi_slots _ Hg') A2); [reflexivity|intros o []]. }
    constructor.
    - exact Hcfg.
    - exact Hg'.
    - apply A3. exact Hnm.
    - cbn [set_server y_server]. fold s'. rewrite A4. intros Hr. apply A5. apply Hrun. exact Hr.
    - intros slot c Hc. cbn [set_server y_clients y_server] in *.
      change (get_link (set_server y s') slot) with (get_link y slot).
      apply (slot_inv_mono script _ s s' gs); [|apply Hsent|exact (Hslots slot c Hc)]. intros Hr. left. exact (A1 slot Hr).
  Qed.

  (* ---------- StSFrame ---------- *)

  Lemma e2e_sframe script y gs tick dt (cleanup : bool) ops parts y' o :
    e2e_inv script y gs -> run (sys_init cfg0 nclients) script = Ok y -> forallb sop_ok ops = true ->
    sys_step y (StSFrame tick dt cleanup ops parts) = Ok (y', o) ->
    e2e_inv (script ++ [StSFrame tick dt cleanup ops parts]) y' (ghost_step y gs (StSFrame tick dt cleanup ops parts)).
  Proof.
    intros [Hcfg Hg Hnm Hrun Hslots] Hrun0 Hops H.
    assert (Hreach : reached (script ++ [StSFrame tick dt cleanup ops parts]) y').
    { apply reached_last. rewrite run_app, Hrun0. cbn [bind run]. rewrite H. reflexivity. }
    cbn [sys_step ghost_step] in *. rewrite Hcfg in *. set (s := y_server y) in *.
    destruct (server_frame cfg0 s tick dt cleanup ops parts) as [[s' fo]| |] eqn:Ef; cbn [bind] in H; try discriminate.
    inversion H; subst y' o. clear H. set (outs := fo_clients fo) in *.
    destruct (gframe_ok cfg0 (mkG s gs) tick dt cleanup ops parts s' fo Hg Ef) as (Hg' & Hran & Hnot). cbn [g_srv g_sent] in *.
    destruct (server_frame_clients cfg0 (mkG s gs) tick dt cleanup ops parts s' fo Hg Hnm Hops Hrun Ef)
      as (N1 & N2 & N3 & N4 & N5 & N6 & N7). cbn [g_srv] in *. fold outs in N5, N6, N7.
    destruct (enqueue_fields outs (set_server y s')) as (Q1 & Q2 & Q3).
    assert (Hsent : forall slot, sent_of slot (sync_sent s' gs outs) = abs_send (sent_of slot gs) (upd_for slot outs)).
    { apply (sync_sent_of_gen (mkG s gs) s' outs Hg (gi_slots _ Hg')); [|exact N6].
      intros sl Ha. apply has_auth_sig. rewrite N4. apply has_auth_sig. exact Ha. }
    assert (Hrec : forall slot, has_rec s' slot -> has_rec s slot).
    { intros sl Hr. apply has_rec_sig. rewrite <- N4. apply has_rec_sig. exact Hr. }
    constructor.
    - rewrite Q1. exact Hcfg.
    - rewrite Q2. exact Hg'.
    - rewrite Q2. exact N1.
    - rewrite Q2. cbn [set_server y_server]. rewrite N2. exact N3.
    - intros slot c Hc. rewrite Q3 in Hc. cbn [set_server y_clients] in Hc. rewrite Q2. cbn [set_server y_server].
      rewrite enqueue_lupd. change (get_link (set_server y s') slot) with (get_link y slot).
      pose proof (Hslots slot c Hc) as Hold. rewrite (updates_for_upd_for slot outs N5).
      destruct (upd_for slot outs) as [u|] eqn:Eu.
      + destruct (upd_for_in slot outs u Eu) as (o & Ho & Hso & Huo).
        destruct (N7 o u Ho Huo) as [Hm Ht]. pose proof (N6 o Ho) as Hauth. rewrite Hso in Hauth.
        assert (Hr : has_rec s slot). { apply Hrec. destruct Hauth as [c1 [A [B _]]]. exists c1. auto. }
        assert (Hfr : fo_ran fo = true).
        { destruct (fo_ran fo) eqn:E; [reflexivity|]. exfalso. unfold outs in Ho. rewrite (Hnot eq_refl) in Ho. destruct Ho. }
        destruct Hold as [O1 O2 O3 O4 O5 O6]. pose proof (O4 Hr) as Hst.
        constructor; [exact O1|exact O2|exact O3|intros _; exact Hst|intros Hd; congruence|].
        intros _. destruct (O6 Hst) as [applied [C1 C2 C3 C4 C5]]. exists applied. rewrite app_assoc. constructor.
        * exact C1.
        * rewrite app_assoc, fold_left_app. cbn [fold_left]. rewrite C2, Hsent, Eu. reflexivity.
        * rewrite forallb_app, C3. cbn. unfold no_maps. rewrite Hm. reflexivity.
        * exact C4.
        * intros p q E Hp. rewrite app_assoc in E. symmetry in E. apply app_snoc_split in E.
          destruct E as [[-> ->]|[q' [-> E]]].
          -- exists (enqueue_outputs (set_server y s') outs). split; [exact Hreach|]. rewrite Q2. cbn [set_server y_server].
             split.
             ++ rewrite fold_left_app. cbn [fold_left]. rewrite C2. destruct Hauth as [c1 [A [B Ca]]].
                pose proof (Hran Hfr c1 A Ca) as G. rewrite B in G. fold outs in G. rewrite Eu in G. exact G.
             ++ rewrite last_snoc. exact Ht.
          -- destruct (C5 p q' E Hp) as (y1 & R & A & B). exists y1. split; [apply reached_mono; exact R|auto].
      + rewrite app_nil_r.
        apply (slot_inv_mono script _ s s' gs); [intros Hr; left; exact (Hrec slot Hr)| |exact Hold].
        rewrite Hsent, Eu. reflexivity.
  Qed.

  (* ---------- StCFrame ---------- *)

  Lemma cframe_sys y slot0 ops cl cl' cfo y' o :
    al_get slot0 (y_clients y) = Some cl -> client_frame cl ops = Ok (cl', cfo) ->
    sys_step y (StCFrame slot0 ops) = Ok (y', o) ->
    y_cfg y' = y_cfg y /\ y_clients y' = al_insert slot0 cl' (y_clients y) /\
    (forall slot, l_upd (get_link y' slot) = l_upd (get_link y slot)) /\
    exists pcs, y_server y' = publish_pre (y_server y) slot0 pcs.
  Proof.
    intros Hcl Hf H. cbn [sys_step] in H. rewrite Hcl, Hf in H. cbn [bind] in H. inversion H; subst y' o. clear H.
    assert (G : forall y2, y_cfg y2 = y_cfg y -> y_clients y2 = al_insert slot0 cl' (y_clients y) ->
                (forall slot, l_upd (get_link y2 slot) = l_upd (get_link y slot)) -> y_server y2 = y_server y ->
                forall pcs,
                y_cfg (set_server y2 (publish_pre (y_server y2) slot0 pcs)) = y_cfg y /\
                y_clients (set_server y2 (publish_pre (y_server y2) slot0 pcs)) = al_insert slot0 cl' (y_clients y) /\
                (forall slot, l_upd (get_link (set_server y2 (publish_pre (y_server y2) slot0 pcs)) slot) = l_upd (get_link y slot)) /\
                exists pcs0, y_server (set_server y2 (publish_pre (y_server y2) slot0 pcs)) = publish_pre (y_server y) slot0 pcs0).
    { intros y2 A B C D pcs. split; [exact A|]. split; [exact B|]. split; [exact C|]. exists pcs. cbn. rewrite D. reflexivity. }
    assert (G1 : forall slot, l_upd (get_link (set_client y slot0 cl') slot) = l_upd (get_link y slot)) by reflexivity.
    destruct (cfo_acks cfo) as [|a acks]; [apply G; auto|].
    destruct (cl_status cl'); [apply G; auto|]. apply G; try reflexivity.
    intros slot. destruct (N.eq_dec slot slot0) as [->|Hne].
    - rewrite get_link_set_link_same. reflexivity.
    - rewrite get_link_set_link_other by exact Hne. reflexivity.
  Qed.

  Lemma e2e_cframe script y gs slot0 ops y' o :
    e2e_inv script y gs -> sys_step y (StCFrame slot0 ops) = Ok (y', o) ->
    e2e_inv (script ++ [StCFrame slot0 ops]) y' gs.
  Proof.
    intros Hinv H. pose proof Hinv as [Hcfg Hg Hnm Hrun Hslots].
    destruct (al_get slot0 (y_clients y)) as [cl|] eqn:Ec.
    2:{ cbn [sys_step] in H. rewrite Ec in H. inversion H; subst y' o. apply (e2e_same script _ y gs); try reflexivity; auto. }
    destruct (client_frame cl ops) as [[cl' cfo]| |] eqn:Ef;
      [|cbn [sys_step] in H; rewrite Ec, Ef in H; discriminate|cbn [sys_step] in H; rewrite Ec, Ef in H; discriminate].
    destruct (cframe_sys y slot0 ops cl cl' cfo y' o Ec Ef H) as (F1 & F2 & F3 & [pcs F4]).
    assert (Hrec : forall slot, has_rec (y_server y') slot -> has_rec (y_server y) slot).
    { intros slot. rewrite F4. apply has_rec_clients. reflexivity. }
    constructor.
    - congruence.
    - rewrite F4. exact (gstep_inv cfg0 (mkG (y_server y) gs) (GPublish slot0 pcs) _ Hpol Hg eq_refl).
    - rewrite F4. revert Hnm. apply nomaps_same. reflexivity.
    - rewrite F4. exact Hrun.
    - intros slot c Hc. rewrite F2 in Hc. rewrite F3. destruct (N.eq_dec slot slot0) as [->|Hne].
      2:{ rewrite al_get_insert_other in Hc by exact Hne.
          apply (slot_inv_mono script _ (y_server y) _ gs gs); [intros Hr; left; exact (Hrec slot Hr)|reflexivity|exact (Hslots slot c Hc)]. }
      rewrite al_get_insert_same in Hc. inversion Hc; subst c. clear Hc.
      destruct (Hslots slot0 cl Ec) as [O1 O2 O3 O4 O5 O6]. destruct (cl_status cl) eqn:Es.
      + destruct (O5 eq_refl) as (I1 & I2 & I3).
        destruct (frame_disconnected cl ops cl' cfo O1 O2 I1 Es Ef) as (D1 & D2 & D3 & D4 & D5 & D6 & D7 & _).
        constructor; [exact D1|exact D2| | | |].
        * rewrite D6, D7. destruct O3 as [A B]. rewrite A, B. destruct (cl_last_not_disconnected cl); auto.
        * intros Hr. apply Hrec in Hr. apply O4 in Hr. discriminate.
        * intros _. rewrite D5. auto.
        * intros Hc'. congruence.
      + destruct (O6 eq_refl) as [applied [C1 C2 C3 C4 C5]].
        rewrite forallb_app in C3. apply andb_prop in C3. destruct C3 as [C3a C3b].
        assert (Hmut : forall c1, fold_left (res_step apply_update_message) (cl_inbox_upd cl) (Ok cl) = Ok c1 ->
                                  mut_ok (merge_mut_inbox c1)).
        { intros c1 E1. right. destruct (inbox_fold_props _ cl _ c1 O1 C1 C3a E1) as (_ & _ & _ & [B1 B2]).
          unfold merge_mut_inbox. cbn. destruct O3 as [A B]. rewrite B1, B2, A, B. reflexivity. }
        assert (Hops : forall c2 out2, apply_replication cl = Ok (c2, out2) -> cops_safe c2 ops = true).
        { intros c2 out2 E. destruct (replication_srel cl _ c2 out2 O1 C1 C3a Hmut E) as (I2 & _ & P2).
          apply pre_unmapped_cops_safe; [exact I2|exact (P2 O2)]. }
        destruct (frame_srel cl _ ops cl' cfo O1 C1 Es C3a Hmut Hops Ef) as (R & I & Ei & St & Tk & P).
        constructor; [exact I|exact (P O2)| |intros _; exact St|intros Hd; congruence|].
        * destruct O3 as [A B]. exact (frame_nomut cl ops cl' cfo A B Es Ef).
        * intros _. exists (applied ++ cl_inbox_upd cl). rewrite Ei. cbn [app]. constructor.
          -- rewrite fold_left_app. exact R.
          -- rewrite <- app_assoc. exact C2.
          -- exact C3b.
          -- intros Hne. rewrite Tk. destruct (cl_inbox_upd cl) as [|u0 t0] eqn:Ei0.
             ++ cbn [map last]. rewrite app_nil_r in *. exact (C4 Hne).
             ++ rewrite last_app_ne by discriminate. apply last_map. discriminate.
          -- rewrite <- app_assoc. apply snaps_mono. exact C5.
  Qed.

  (* ---------- StDeliver / StDrop ---------- *)

  Lemma deliver_acks_clients s slot idxs :
    sv_clients (deliver_acks s slot idxs) = sv_clients s /\ sv_running (deliver_acks s slot idxs) = sv_running s.
  Proof. unfold deliver_acks. destruct (sv_running s) eqn:E; [|auto]. destruct (find_client s slot); cbn; auto. Qed.

  Lemma deliver_acks_fold slot picked : forall s gs, ginv (mkG s gs) ->
    let s' := fold_left (fun s idxs => deliver_acks s slot idxs) picked s in
    ginv (mkG s' gs) /\ sv_clients s' = sv_clients s /\ sv_running s' = sv_running s.
  Proof.
    induction picked as [|idxs t IH]; intros s gs Hg; cbn [fold_left]; [auto|].
    pose proof (gstep_inv cfg0 (mkG s gs) (GAcks slot idxs) _ Hpol Hg eq_refl) as Hg1. cbn [g_srv g_sent] in Hg1.
    destruct (IH (deliver_acks s slot idxs) gs Hg1) as (A & B & C). destruct (deliver_acks_clients s slot idxs) as [D E].
    cbv zeta in *. split; [exact A|]. split; congruence.
  Qed.

  (* the update channel: messages move from the queue to the inbox, in order *)
  Lemma e2e_deliver_upd script st y gs slot0 cl picked rest lm la :
    e2e_inv script y gs -> al_get slot0 (y_clients y) = Some cl -> picked ++ rest = l_upd (get_link y slot0) ->
    e2e_inv (script ++ [st]) (set_client (set_link y slot0 (mkLink rest lm la)) slot0 (fold_left deliver_update picked cl)) gs.
  Proof.
    intros [Hcfg Hg Hnm Hrun Hslots] Ec Hpr. constructor; [exact Hcfg|exact Hg|exact Hnm|exact Hrun|].
    intros slot c Hc. cbn [set_client set_link y_clients y_server] in *.
    change (get_link (set_client (set_link y slot0 (mkLink rest lm la)) slot0 (fold_left deliver_update picked cl)) slot)
      with (get_link (set_link y slot0 (mkLink rest lm la)) slot).
    destruct (N.eq_dec slot slot0) as [->|Hne].
    2:{ rewrite al_get_insert_other in Hc by exact Hne. rewrite get_link_set_link_other by exact Hne.
        apply (slot_inv_mono script _ (y_server y) _ gs gs); [auto|reflexivity|exact (Hslots slot c Hc)]. }
    rewrite al_get_insert_same in Hc. inversion Hc; subst c. clear Hc. rewrite get_link_set_link_same. cbn [l_upd].
    pose proof (Hslots slot0 cl Ec) as Hold.
    destruct (deliver_updates_fields picked cl) as (A & B & C & D & E & F & G & K). cbv zeta in A, B, C, D, E, F, G, K.
    destruct (cl_status cl) eqn:Es.
    - destruct Hold as [O1 O2 O3 O4 O5 O6]. destruct (O5 Es) as (I1 & I2 & I3). rewrite I3 in Hpr.
      apply app_eq_nil in Hpr. destruct Hpr as [-> ->]. cbn [fold_left].
      apply (slot_inv_mono script _ (y_server y) _ gs gs); [auto|reflexivity|].
      constructor; [exact O1|exact O2|exact O3|exact O4| |intros Hc'; congruence]. intros _. auto.
    - destruct (deliver_updates_inbox picked cl Es) as [Hi Hs]. destruct Hold as [O1 O2 O3 O4 O5 O6].
      constructor.
      + revert O1. apply cs_inv_ext; assumption.
      + revert O2. apply pu_ext; assumption.
      + rewrite F, G. exact O3.
      + intros _. exact Hs.
      + intros Hd. congruence.
      + intros _. destruct (O6 Es) as [applied [C1 C2 C3 C4 C5]]. exists applied.
        rewrite Hi, <- app_assoc, Hpr. constructor.
        * revert C1. apply srel_ext; assumption.
        * exact C2.
        * exact C3.
        * rewrite E. exact C4.
        * apply snaps_mono. exact C5.
  Qed.

  Lemma al_get_reinsert {V} k (v : V) l k' : al_get k l = Some v -> al_get k' (al_insert k v l) = al_get k' l.
  Proof.
    intros H. destruct (N.eq_dec k' k) as [->|Hne]; [rewrite al_get_insert_same; auto|apply al_get_insert_other; exact Hne].
  Qed.

  Lemma e2e_transport script st y gs y' o :
    transport_step st = true -> legal_step st = true -> no_mut_delivery_step st = true ->
    e2e_inv script y gs -> sys_step y st = Ok (y', o) -> e2e_inv (script ++ [st]) y' gs.
  Proof.
    intros Ht Hl Hn Hinv H. pose proof Hinv as [Hcfg Hg Hnm Hrun Hslots].
    assert (Hnoop : e2e_inv (script ++ [st]) y gs) by (apply (e2e_same script st y gs); try reflexivity; auto).
    destruct st as [| | | | | | |slot0 s2c ch w|slot0 s2c ch w]; try discriminate; cbn [sys_step] in H.
    - (* deliver *)
      destruct (al_get slot0 (y_clients y)) as [cl|] eqn:Ec; [|inversion H; subst y' o; exact Hnoop].
      destruct s2c.
      + destruct (ch =? 0) eqn:Ech.
        * cbn [legal_step] in Hl. rewrite Ech in Hl. assert (Hw : w <> Last) by (destruct w; congruence).
          destruct (take w (l_upd (get_link y slot0))) as [picked rest] eqn:Etk. inversion H; subst y' o. clear H.
          apply take_app in Etk; [|exact Hw]. exact (e2e_deliver_upd script _ y gs slot0 cl picked rest _ _ Hinv Ec Etk).
        * destruct (ch =? 1) eqn:Ech1; [cbn [no_mut_delivery_step] in Hn; rewrite Ech1 in Hn; discriminate|].
          inversion H; subst y' o. exact Hnoop.
      + destruct (ch =? 0); [|inversion H; subst y' o; exact Hnoop].
        destruct (take w (l_ack (get_link y slot0))) as [picked rest] eqn:Etk. inversion H; subst y' o. clear H.
        destruct (deliver_acks_fold slot0 picked (y_server y) gs Hg) as (A & B & C). cbv zeta in A, B, C.
        apply (e2e_same script _ y gs); [exact Hinv|reflexivity|reflexivity| |exact B| |exact A].
        -- intros slot. change (get_link (set_server ?a ?b) slot) with (get_link a slot).
           destruct (N.eq_dec slot slot0) as [->|Hne];
             [rewrite get_link_set_link_same|rewrite get_link_set_link_other by exact Hne]; reflexivity.
        -- cbn [set_server y_server]. rewrite C. auto.
    - (* drop: only the mutation channel *)
      cbn [legal_step] in Hl. destruct s2c; [|discriminate].
      destruct (al_get slot0 (y_clients y)) as [cl|] eqn:Ec; [|inversion H; subst y' o; exact Hnoop].
      assert (Hch : ch = 1) by lia. subst ch. cbn in H.
      destruct (take w (l_mut (get_link y slot0))) as [picked rest] eqn:Etk. inversion H; subst y' o. clear H.
      apply (e2e_same script _ y gs); [exact Hinv|reflexivity| | |reflexivity|auto|exact Hg].
      + intros slot. cbn [set_client y_clients set_link]. apply al_get_reinsert. exact Ec.
      + intros slot. change (get_link (set_client ?a ?b ?c) slot) with (get_link a slot).
        destruct (N.eq_dec slot slot0) as [->|Hne];
          [rewrite get_link_set_link_same|rewrite get_link_set_link_other by exact Hne]; reflexivity.
  Qed.

  (* ---------- every step ---------- *)

  Lemma e2e_step script y gs st y' o :
    e2e_inv script y gs -> run (sys_init cfg0 nclients) script = Ok y -> step_ok st = true ->
    sys_step y st = Ok (y', o) -> e2e_inv (script ++ [st]) y' (ghost_step y gs st).
  Proof.
    intros Hinv Hrun Hok H. unfold step_ok in Hok.
    apply andb_prop in Hok. destruct Hok as [Hok H4]. apply andb_prop in Hok. destruct Hok as [Hok H3].
    apply andb_prop in Hok. destruct Hok as [H1 H2].
    destruct st as [| |slot max|slot|slot|tick dt cleanup ops parts|slot ops|slot s2c ch w|slot s2c ch w]; try discriminate.
    - cbn [sys_step] in H. inversion H; subst y' o. exact (e2e_start script y gs Hinv).
    - exact (e2e_connect script y gs slot max y' o Hinv H).
    - cbn [sys_step] in H. inversion H; subst y' o. exact (e2e_authorize script y gs slot Hinv).
    - exact (e2e_sframe script y gs tick dt cleanup ops parts y' o Hinv Hrun H3 H).
    - exact (e2e_cframe script y gs slot ops y' o Hinv H).
    - exact (e2e_transport script (StDeliver slot s2c ch w) y gs y' o eq_refl H1 H4 Hinv H).
    - exact (e2e_transport script (StDrop slot s2c ch w) y gs y' o eq_refl H1 H4 Hinv H).
  Qed.

  Theorem e2e_run script : forall y gs,
    script_ok script = true -> erun (sys_init cfg0 nclients) [] script = Ok (y, gs) -> e2e_inv script y gs.
  Proof.
    induction script as [|st t IH] using rev_ind; intros y gs Hok H.
    - cbn in H. inversion H; subst. exact e2e_init.
    - unfold script_ok in Hok. rewrite forallb_app in Hok. apply andb_prop in Hok. destruct Hok as [Hok1 Hok2].
      cbn [forallb] in Hok2. rewrite andb_true_r in Hok2.
      rewrite erun_app in H. destruct (erun (sys_init cfg0 nclients) [] t) as [[y1 gs1]| |] eqn:E1; cbn [bind] in H; try discriminate.
      cbn [erun] in H. destruct (sys_step y1 st) as [[y2 o]| |] eqn:E2; cbn [bind] in H; try discriminate.
      inversion H; subst y gs. clear H.
      exact (e2e_step t y1 gs1 st y2 o (IH y1 gs1 Hok1 eq_refl) (erun_run _ _ _ _ _ E1) Hok2 E2).
  Qed.

  (* ================================================================ *)
  (* 4. the theorems                                                  *)
  (* ================================================================ *)

  (* (a) FIFO and atomicity: the update messages sent to a connected client split into those it
         has applied (its structure is their `abs_apply` fold) and those still in its inbox or in
         the queue, in order; applying what is in flight gives the ghost structure of the slot, i.e.
         (C03S, `ginv`) what the server has sent *)
  Theorem e2e_connected script y gs slot c :
    script_ok script = true -> erun (sys_init cfg0 nclients) [] script = Ok (y, gs) ->
    al_get slot (y_clients y) = Some c -> cl_status c = Connected ->
    ginv (mkG (y_server y) gs) /\ cs_inv c /\
    exists applied, conn_inv script gs slot (cl_inbox_upd c ++ l_upd (get_link y slot)) c applied.
  Proof.
    intros Hok H Hc Hs. pose proof (e2e_run script y gs Hok H) as [_ Hg _ _ Hslots].
    destruct (Hslots slot c Hc) as [O1 _ _ _ _ O6]. split; [exact Hg|]. split; [exact O1|]. exact (O6 Hs).
  Qed.

  (* the same with the record unfolded *)
  Theorem e2e_fifo script y gs slot c :
    script_ok script = true -> erun (sys_init cfg0 nclients) [] script = Ok (y, gs) ->
    al_get slot (y_clients y) = Some c -> cl_status c = Connected ->
    exists applied,
      struct_equiv (client_struct c) (fold_left abs_apply applied []) /\
      fold_left abs_apply (applied ++ cl_inbox_upd c ++ l_upd (get_link y slot)) [] = sent_of slot gs /\
      (applied <> [] -> cl_upd_tick c = u_tick (last applied dflt_upd)) /\
      (forall p q, applied ++ cl_inbox_upd c ++ l_upd (get_link y slot) = p ++ q -> p <> [] ->
         exists pre post y1, script = pre ++ post /\ run (sys_init cfg0 nclients) pre = Ok y1 /\
           struct_equiv (fold_left abs_apply p []) (struct_of (y_server y1)) /\
           u_tick (last p dflt_upd) = sv_tick (y_server y1)).
  Proof.
    intros Hok H Hc Hs. destruct (e2e_connected script y gs slot c Hok H Hc Hs) as (_ & Hinv & applied & [C1 C2 _ C4 C5]).
    exists applied. split; [apply srel_struct_equiv; [exact (cs_inv_nodup c Hinv)|exact C1]|]. split; [exact C2|].
    split; [exact C4|]. intros p q E Hp. destruct (C5 p q E Hp) as (y1 & (pre & post & E1 & R) & A & B).
    exists pre, post, y1. auto.
  Qed.

  Theorem e2e_in_flight script y gs slot c :
    script_ok script = true -> erun (sys_init cfg0 nclients) [] script = Ok (y, gs) ->
    al_get slot (y_clients y) = Some c -> cl_status c = Connected ->
    struct_equiv (fold_left abs_apply (cl_inbox_upd c ++ l_upd (get_link y slot)) (client_struct c)) (sent_of slot gs).
  Proof.
    intros Hok H Hc Hs. destruct (e2e_connected script y gs slot c Hok H Hc Hs) as (_ & Hinv & applied & [C1 C2 _ _ _]).
    rewrite <- C2. rewrite (fold_left_app abs_apply applied). apply abs_apply_fold_equiv. apply srel_struct_equiv; [exact (cs_inv_nodup c Hinv)|exact C1].
  Qed.

  (* (b) C03: at every moment of the run the structure a client holds is the empty structure
         (nothing applied yet) or the structure the server replicated at an earlier moment of the
         same run, namely at the tick of the last update message the client applied *)
  Theorem e2e_every_moment script y slot c :
    script_ok script = true -> run (sys_init cfg0 nclients) script = Ok y ->
    al_get slot (y_clients y) = Some c ->
    struct_equiv (client_struct c) [] \/
    exists pre post y1, script = pre ++ post /\ run (sys_init cfg0 nclients) pre = Ok y1 /\
      struct_equiv (client_struct c) (struct_of (y_server y1)) /\ cl_upd_tick c = sv_tick (y_server y1).
  Proof.
    intros Hok H Hc. destruct (run_erun script (sys_init cfg0 nclients) [] y H) as [gs He].
    pose proof (e2e_run script y gs Hok He) as [_ _ _ _ Hslots].
    destruct (Hslots slot c Hc) as [O1 _ _ _ O5 O6]. pose proof (cs_inv_nodup c O1) as Hnd.
    destruct (cl_status c) eqn:Es.
    - left. apply srel_struct_equiv; [exact Hnd|]. exact (proj1 (O5 eq_refl)).
    - destruct (O6 eq_refl) as [applied [C1 C2 C3 C4 C5]]. destruct applied as [|u0 t0] eqn:Ea.
      + left. apply srel_struct_equiv; [exact Hnd|exact C1].
      + right. rewrite <- Ea in *. assert (Hne : applied <> []) by (rewrite Ea; discriminate).
        destruct (C5 applied _ eq_refl Hne) as (y1 & (pre & post & E & R) & A & B).
        exists pre, post, y1. split; [exact E|]. split; [exact R|]. split.
        * eapply struct_equiv_trans; [|exact A]. apply srel_struct_equiv; [exact Hnd|exact C1].
        * rewrite (C4 Hne). exact B.
  Qed.

  (* (c) a client that has applied everything sent to it holds what the server last sent *)
  Corollary e2e_synced script y gs slot c :
    script_ok script = true -> erun (sys_init cfg0 nclients) [] script = Ok (y, gs) ->
    al_get slot (y_clients y) = Some c -> cl_status c = Connected ->
    cl_inbox_upd c = [] -> l_upd (get_link y slot) = [] ->
    struct_equiv (client_struct c) (sent_of slot gs).
  Proof.
    intros Hok H Hc Hs Hi Hl. pose proof (e2e_in_flight script y gs slot c Hok H Hc Hs) as G.
    rewrite Hi, Hl in G. exact G.
  Qed.
End E2E.

(* ================================================================== *)
(* 5. the ghost is the ghost of the server-only run (`grun`) of the   *)
(*    projected script                                                *)
(* ================================================================== *)

Definition pre_ids (c : client) : list N :=
  fold_right (fun kv acc => match ce_pre (snd kv) with Some p => p :: acc | None => acc end) [] (cl_ents c).

(* the server-level operations a step performs *)
Definition proj_step (y : sys) (st : step) : list gop :=
  match st with
  | StStart => [GStart]
  | StStop => [GStop]
  | StConnect slot max =>
    match find_client (y_server y) slot, al_get slot (y_clients y) with
    | None, Some _ => if sv_running (y_server y) then [GConnect slot max] else []
    | _, _ => []
    end
  | StAuthorize slot => [GAuthorize slot]
  | StDisconnect slot => []
  | StSFrame tick dt cleanup ops parts => [GFrame tick dt cleanup ops parts]
  | StCFrame slot ops =>
    match al_get slot (y_clients y) with
    | Some cl => match client_frame cl ops with Ok (cl', _) => [GPublish slot (pre_ids cl')] | _ => [] end
    | None => []
    end
  | StDeliver slot false ch w =>
    match al_get slot (y_clients y) with
    | Some _ => if ch =? 0 then map (GAcks slot) (fst (take w (l_ack (get_link y slot)))) else []
    | None => []
    end
  | _ => []
  end.

Fixpoint proj_script (y : sys) (script : list step) : list gop :=
  match script with
  | [] => []
  | st :: rest => proj_step y st ++ match sys_step y st with Ok (y', _) => proj_script y' rest | _ => [] end
  end.

Lemma grun_app c l1 : forall g l2, grun c g (l1 ++ l2) = let* g1 := grun c g l1 in grun c g1 l2.
Proof.
  induction l1 as [|o t IH]; intros g l2; cbn [app grun bind]; [reflexivity|].
  destruct (gstep c g o) as [g1| |]; cbn [bind]; [apply IH|reflexivity|reflexivity].
Qed.

Lemma grun_acks c slot picked : forall s gs,
  grun c (mkG s gs) (map (GAcks slot) picked) = Ok (mkG (fold_left (fun s idxs => deliver_acks s slot idxs) picked s) gs).
Proof. induction picked as [|i t IH]; intros s gs; cbn [map grun fold_left gstep bind g_srv g_sent]; [reflexivity|apply IH]. Qed.

Lemma sys_step_cfg y st y' o : sys_step y st = Ok (y', o) -> y_cfg y' = y_cfg y.
Proof.
  intros H. destruct st as [| |slot max|slot|slot|tick dt cleanup ops parts|slot ops|slot s2c ch w|slot s2c ch w]; cbn [sys_step] in H.
  - inversion H; reflexivity.
  - inversion H; reflexivity.
  - destruct (find_client (y_server y) slot); [inversion H; reflexivity|]. destruct (al_get slot (y_clients y)); [|inversion H; reflexivity].
    destruct (sv_running (y_server y)); inversion H; reflexivity.
  - inversion H; reflexivity.
  - destruct (al_get slot (y_clients y)); inversion H; reflexivity.
  - destruct (server_frame (y_cfg y) (y_server y) tick dt cleanup ops parts) as [[s' fo]| |]; cbn [bind] in H; try discriminate.
    inversion H; subst. exact (proj1 (enqueue_fields _ _)).
  - destruct (al_get slot (y_clients y)) as [cl|] eqn:Ec; [|inversion H; reflexivity].
    destruct (client_frame cl ops) as [[cl' cfo]| |] eqn:Ef; cbn [bind] in H; try discriminate.
    assert (H' : sys_step y (StCFrame slot ops) = Ok (y', o)) by (cbn [sys_step]; rewrite Ec, Ef; exact H).
    exact (proj1 (cframe_sys y slot ops cl cl' cfo y' o Ec Ef H')).
  - destruct (al_get slot (y_clients y)); [|inversion H; reflexivity]. destruct s2c.
    + destruct (ch =? 0); [destruct (take w (l_upd (get_link y slot))); inversion H; reflexivity|].
      destruct (ch =? 1); [destruct (take w (l_mut (get_link y slot))); inversion H; reflexivity|inversion H; reflexivity].
    + destruct (ch =? 0); [destruct (take w (l_ack (get_link y slot))); inversion H; reflexivity|inversion H; reflexivity].
  - destruct (al_get slot (y_clients y)); [|inversion H; reflexivity]. destruct s2c.
    + destruct (ch =? 0); [destruct (take w (l_upd (get_link y slot))); inversion H; reflexivity|].
      destruct (ch =? 1); [destruct (take w (l_mut (get_link y slot))); inversion H; reflexivity|inversion H; reflexivity].
    + destruct (ch =? 0); [destruct (take w (l_ack (get_link y slot))); inversion H; reflexivity|inversion H; reflexivity].
Qed.

(* one step: the server and the ghost after the step are those `grun` computes *)
Lemma step_grun y gs st y' o : single_session_step st = true -> sys_step y st = Ok (y', o) ->
  grun (y_cfg y) (mkG (y_server y) gs) (proj_step y st) = Ok (mkG (y_server y') (ghost_step y gs st)).
Proof.
  intros Hss H. destruct st as [| |slot max|slot|slot|tick dt cleanup ops parts|slot ops|slot s2c ch w|slot s2c ch w];
    try discriminate; cbn [sys_step proj_step ghost_step] in *.
  - inversion H; subst. reflexivity.
  - destruct (find_client (y_server y) slot); [inversion H; subst; reflexivity|].
    destruct (al_get slot (y_clients y)); [|inversion H; subst; reflexivity].
    destruct (sv_running (y_server y)); inversion H; subst; reflexivity.
  - inversion H; subst. reflexivity.
  - destruct (server_frame (y_cfg y) (y_server y) tick dt cleanup ops parts) as [[s' fo]| |] eqn:Ef; cbn [bind] in H; try discriminate.
    inversion H; subst. cbn [grun gstep g_srv g_sent]. rewrite Ef. cbn [bind]. rewrite (proj1 (proj2 (enqueue_fields _ _))). reflexivity.
  - destruct (al_get slot (y_clients y)) as [cl|] eqn:Ec; [|inversion H; subst; reflexivity].
    destruct (client_frame cl ops) as [[cl' cfo]| |] eqn:Ef; cbn [bind] in H; try discriminate.
    inversion H; subst y' o. cbn [grun gstep bind g_srv g_sent]. unfold pre_ids.
    destruct (cfo_acks cfo) as [|a acks]; [reflexivity|]. destruct (cl_status cl'); reflexivity.
  - destruct s2c.
    + destruct (al_get slot (y_clients y)); [|inversion H; subst; reflexivity].
      destruct (ch =? 0); [destruct (take w (l_upd (get_link y slot))); inversion H; subst; reflexivity|].
      destruct (ch =? 1); [destruct (take w (l_mut (get_link y slot))); inversion H; subst; reflexivity|inversion H; subst; reflexivity].
    + destruct (al_get slot (y_clients y)); [|inversion H; subst; reflexivity].
      destruct (ch =? 0); [|inversion H; subst; reflexivity].
      destruct (take w (l_ack (get_link y slot))) as [picked rest]. inversion H; subst. cbn [fst]. rewrite grun_acks. reflexivity.
  - destruct (al_get slot (y_clients y)); [|inversion H; subst; reflexivity]. destruct s2c.
    + destruct (ch =? 0); [destruct (take w (l_upd (get_link y slot))); inversion H; subst; reflexivity|].
      destruct (ch =? 1); [destruct (take w (l_mut (get_link y slot))); inversion H; subst; reflexivity|inversion H; subst; reflexivity].
    + destruct (ch =? 0); [destruct (take w (l_ack (get_link y slot))); inversion H; subst; reflexivity|inversion H; subst; reflexivity].
Qed.

Theorem erun_grun script : forall y gs y' gs',
  single_session script = true -> erun y gs script = Ok (y', gs') ->
  grun (y_cfg y) (mkG (y_server y) gs) (proj_script y script) = Ok (mkG (y_server y') gs').
Proof.
  induction script as [|st t IH]; intros y gs y' gs' Hss H; cbn [erun proj_script] in *.
  - inversion H; subst. reflexivity.
  - unfold single_session in Hss. cbn [forallb] in Hss. apply andb_prop in Hss. destruct Hss as [Hs1 Hs2].
    destruct (sys_step y st) as [[y1 o]| |] eqn:E; cbn [bind] in H; try discriminate.
    rewrite grun_app, (step_grun y gs st y1 o Hs1 E). cbn [bind]. rewrite <- (sys_step_cfg y st y1 o E).
    exact (IH y1 _ y' gs' Hs2 H).
Qed.

(* from the initial state: the ghost of a whole-system run is the `g_sent` of the `grun` of its projection *)
Corollary erun_grun_init cfg0 nclients script y gs :
  single_session script = true -> erun (sys_init cfg0 nclients) [] script = Ok (y, gs) ->
  grun cfg0 ginit (proj_script (sys_init cfg0 nclients) script) = Ok (mkG (y_server y) gs).
Proof. intros Hss H. exact (erun_grun script (sys_init cfg0 nclients) [] y gs Hss H). Qed.
