(* C02F: the history of the server over whole-system runs WITH stops, restarts and disconnects, every visibility policy,
   `SUnmark` allowed ([srv_histv], Repl/ValVisSpec.v).  Generalises Repl/ValHist_proofs.v (`hist_run`): the replicon tick
   is reset by a stopped server, so ticks and run stamps are ordered alike only among the snapshots taken since the
   last `StStop` ([esnap]); component records and run stamps are never reset ([keeps] holds across stops). *)
From RV Require Import Lib.Res Repl.ClientTicks Repl.ClientTicks_proofs Repl.World Vis.Visibility
  Tick.RepliconTick Tick.RepliconTick_proofs Tick.ConfirmHistory Tick.MutateTicks
  Repl.Server Repl.ServerSpec Repl.Server_proofs Repl.StructSpec Repl.Struct_proofs
  Repl.StructOps_proofs Repl.StructRun_proofs
  Repl.Client Repl.Sys Repl.Client_proofs Repl.ClientSys_proofs
  Repl.ClientStructSpec Repl.ClientStruct_proofs Repl.StructE2E_proofs Repl.StructE2EMut_proofs Repl.StructE2ESess_proofs
  Repl.ValSpec Repl.ValSnap_proofs Repl.ValHist_proofs Repl.ValVisSpec.
From Coq Require Import ZifyBool ZifyN.
Open Scope N_scope.
Ltac Zify.zify_post_hook ::= Z.div_mod_to_equations.
Arguments N.add : simpl never. Arguments N.mul : simpl never. Arguments N.pow : simpl never.
Arguments N.ltb : simpl never. Arguments N.leb : simpl never. Arguments N.div : simpl never.
Arguments N.modulo : simpl never. Arguments N.sub : simpl never. Arguments N.eqb : simpl never.

(* ================================================================== *)
(* 1. scripts                                                         *)
(* ================================================================== *)

Lemma sop_valsu_cases op : sop_valsu op = true -> sop_vals op = true \/ exists e, op = SUnmark e.
Proof. destruct op; cbn; auto; intros _; right; eexists; reflexivity. Qed.

Lemma script_valsu_app a b : script_valsu (a ++ b) = script_valsu a && script_valsu b.
Proof. unfold script_valsu. apply forallb_app. Qed.

Lemma script_vals_valsu script : script_vals script = true -> script_valsu script = true.
Proof.
  unfold script_vals, script_valsu. intros H. rewrite forallb_forall in *. intros st Hin. specialize (H st Hin).
  destruct st; try reflexivity. cbn [step_vals step_valsu] in *. rewrite forallb_forall in *. intros op Hop. specialize (H op Hop).
  destruct op; try reflexivity; exact H.
Qed.

Lemma script_okf_app a b : script_okf (a ++ b) = true -> script_okf a = true.
Proof.
  unfold script_okf, legal, no_smap. rewrite !forallb_app. intros H.
  apply andb_prop in H. destruct H as [H H3]. apply andb_prop in H. destruct H as [H1 H2].
  apply andb_prop in H1. apply andb_prop in H2. rewrite (proj1 H1), (proj1 H2). cbn [andb].
  revert H3. clear. induction b as [|st t IH] using rev_ind; [rewrite app_nil_r; auto|].
  rewrite app_assoc, sessions_ok_snoc. intros H. apply andb_prop in H. exact (IH (proj1 H)).
Qed.

Lemma script_okf_last a st : script_okf (a ++ [st]) = true ->
  legal_step st = true /\ no_smap_step st = true /\ sess_step_ok a st = true.
Proof.
  unfold script_okf, legal, no_smap. rewrite !forallb_app, sessions_ok_snoc. cbn [forallb]. rewrite !andb_true_r. intros H.
  apply andb_prop in H. destruct H as [H H3]. apply andb_prop in H. destruct H as [H1 H2].
  apply andb_prop in H1. apply andb_prop in H2. apply andb_prop in H3. tauto.
Qed.

(* ================================================================== *)
(* 2. game operations, `SUnmark` included                             *)
(* ================================================================== *)

Lemma ents_okv_ok s : ents_okv s <-> ents_ok s.
Proof. split; intros H; exact H. Qed.

Lemma apply_sop_ents_oku s op : sop_valsu op = true -> ents_ok s -> ents_ok (apply_sop s op).
Proof.
  intros Hv Hok. destruct (sop_valsu_cases op Hv) as [Hs|[e ->]]; [exact (apply_sop_ents_ok s op Hs Hok)|].
  unfold apply_sop. destruct (get_ent s e) as [x|] eqn:Ex; [|exact Hok]. destruct (se_alive x); [|exact Hok].
  destruct (se_marker x); [|exact Hok].
  apply (ents_ok_ext (set_ent s e (mkSEnt true None (se_comps x)))); [apply sv_ents_buffer_despawn| |].
  - unfold buffer_despawn. destruct (sv_running (set_ent s e (mkSEnt true None (se_comps x)))); cbn; lia.
  - intros e0 x0 H0. change (sv_now (set_ent s e (mkSEnt true None (se_comps x)))) with (sv_now s).
    unfold get_ent in H0. cbn [set_ent sv_ents] in H0. destruct (N.eq_dec e0 e) as [->|Hne].
    + rewrite al_get_insert_same in H0. inversion H0; subst x0. cbn [se_comps]. exact (Hok e x Ex).
    + rewrite al_get_insert_other in H0 by exact Hne. exact (Hok e0 x0 H0).
Qed.

Lemma ops_ents_oku ops : forall s, forallb sop_valsu ops = true -> ents_ok s -> ents_ok (fold_left apply_sop ops s).
Proof.
  induction ops as [|op t IH]; intros s Hv Hok; cbn [fold_left]; [exact Hok|].
  cbn [forallb] in Hv. apply andb_prop in Hv. destruct Hv as [H1 H2]. apply IH; [exact H2|]. apply apply_sop_ents_oku; assumption.
Qed.

(* ================================================================== *)
(* 3. a server frame: flags                                           *)
(* ================================================================== *)

Lemma server_frame_flags c s tick dt (cleanup : bool) ops parts s' fo :
  server_frame c s tick dt cleanup ops parts = Ok (s', fo) ->
  sv_running s' = sv_running s /\ sv_last_running s' = sv_running s /\ sv_dirty s' = false /\
  (sv_running s = true -> sv_tick s' = (if tick then tick_add (sv_tick s) 1 else sv_tick s) /\ fo_ran fo = sv_dirty s || tick) /\
  (sv_running s = false -> fo_ran fo = false /\
     sv_tick s' = if sv_last_running s then 0 else (if tick then tick_add (sv_tick s) 1 else sv_tick s)).
Proof.
  intros H. unfold server_frame in H.
  set (s1 := with_time_tick s tick dt) in *.
  set (s2 := if sv_running s1 then (let r := receive_acks s1 in if cleanup then cleanup_acks c r else r) else s1) in *.
  assert (F2 : sv_tick s2 = sv_tick s1 /\ sv_dirty s2 = sv_dirty s1 /\ sv_running s2 = sv_running s1 /\
               sv_last_running s2 = sv_last_running s1).
  { unfold s2. destruct (sv_running s1) eqn:E; [|auto]. cbv zeta. destruct cleanup; repeat split; try reflexivity; exact E. }
  destruct F2 as (A1 & A2 & A3 & A4).
  destruct (ops_flags ops s2) as (B1 & B2 & B3 & B4 & _). set (s3 := fold_left apply_sop ops s2) in *.
  assert (T3 : sv_tick s3 = (if tick then tick_add (sv_tick s) 1 else sv_tick s)) by (rewrite B4, A1; reflexivity).
  assert (D3 : sv_dirty s3 = sv_dirty s || tick) by (rewrite B3, A2; reflexivity).
  assert (R3 : sv_running s3 = sv_running s) by (rewrite B1, A3; reflexivity).
  assert (L3 : sv_last_running s3 = sv_last_running s) by (rewrite B2, A4; reflexivity).
  destruct (sv_running s3) eqn:Er3.
  - change (sv_dirty (buffer_removals s3)) with (sv_dirty s3) in H. destruct (sv_dirty s3) eqn:Ed.
    + rewrite send_replication_eq in H. cbn [bind] in H. injection H as <- <-. cbn.
      split; [congruence|]. split; [congruence|]. split; [reflexivity|]. split; [intros _; split; [exact T3|congruence]|intros Hn; congruence].
    + cbn [bind] in H. injection H as <- <-. cbn.
      split; [congruence|]. split; [congruence|]. split; [exact Ed|]. split; [intros _; split; [exact T3|congruence]|intros Hn; congruence].
  - cbn [bind] in H. injection H as <- <-. rewrite L3. destruct (sv_last_running s); cbn.
    + split; [congruence|]. split; [congruence|]. split; [reflexivity|]. split; [intros Hn; congruence|].
      intros _. split; reflexivity.
    + split; [congruence|]. split; [congruence|]. split; [reflexivity|]. split; [intros Hn; congruence|].
      intros _. split; [reflexivity|exact T3].
Qed.

(* ================================================================== *)
(* 4. snapshots up to a kind of step                                  *)
(* ================================================================== *)

Section SnapUntil.
  Variables (cfg0 : cfg) (nclients : N) (stop : step -> bool).
  Local Notation init := (sys_init cfg0 nclients).
  Local Notation su := (snap_until cfg0 nclients stop).

  Lemma su_snap script t r s1 : su script t r s1 -> snap cfg0 nclients script t r s1.
  Proof.
    intros (pre & post & y0 & y1 & tk & dt & cu & ops & parts & fo & vs & E & R & S & F & A & B & C & _).
    exists pre, post, y0, y1, tk, dt, cu, ops, parts, fo, vs. auto 8.
  Qed.

  Lemma su_mono script st t r s1 : stop st = false -> su script t r s1 -> su (script ++ [st]) t r s1.
  Proof.
    intros Hs (pre & post & y0 & y1 & tk & dt & cu & ops & parts & fo & vs & E & R & S & F & A & B & C & D).
    exists pre, (post ++ [st]), y0, y1, tk, dt, cu, ops, parts, fo, vs. split; [rewrite E, <- app_assoc; reflexivity|].
    split; [exact R|]. split; [exact S|]. split; [exact F|]. split; [exact A|]. split; [exact B|]. split; [exact C|].
    rewrite forallb_app, D. cbn. rewrite Hs. reflexivity.
  Qed.

  Lemma su_last script y st t r s1 : run init script = Ok y -> snap_step y st t r s1 -> su (script ++ [st]) t r s1.
  Proof.
    intros Hr (y1 & tk & dt & cu & ops & parts & fo & vs & -> & S & F & A & B & C).
    exists script, [], y, y1, tk, dt, cu, ops, parts, fo, vs. split; [reflexivity|]. split; [exact Hr|]. auto 8.
  Qed.

  Lemma su_snoc_inv script y st t r s1 : run init script = Ok y -> su (script ++ [st]) t r s1 ->
    (stop st = false /\ su script t r s1) \/ snap_step y st t r s1.
  Proof.
    intros Hr (pre & post & y0 & y1 & tk & dt & cu & ops & parts & fo & vs & E & R0 & S & F & A & B & C & D).
    symmetry in E. apply app_snoc_split in E. destruct E as [[E _]|[q' [E1 E2]]]; [discriminate|].
    destruct q' as [|f q''].
    - cbn in E1. inversion E1; subst st post. rewrite app_nil_r in E2. subst pre.
      right. assert (y0 = y) by congruence. subst y0.
      exists y1, tk, dt, cu, ops, parts, fo, vs. split; [reflexivity|]. auto 8.
    - cbn in E1. inversion E1; subst f post. left. rewrite forallb_app in D. apply andb_prop in D. destruct D as [D1 D2].
      cbn in D2. rewrite andb_true_r in D2. split; [destruct (stop st); [discriminate|reflexivity]|].
      exists pre, q'', y0, y1, tk, dt, cu, ops, parts, fo, vs. split; [exact E2|]. split; [exact R0|]. auto 8.
  Qed.

  Lemma su_nonframe script y st t r s1 : run init script = Ok y -> is_sframe st = false ->
    su (script ++ [st]) t r s1 -> stop st = false /\ su script t r s1.
  Proof.
    intros Hr Hnf H. destruct (su_snoc_inv script y st t r s1 Hr H) as [H0|(y1 & tk & dt & cu & ops & parts & fo & vs & E & _)]; [exact H0|].
    subst st. discriminate.
  Qed.

  Lemma su_frame_inv script y tick dt cu ops parts y' fo vs t r s1 :
    run init script = Ok y -> sys_step y (StSFrame tick dt cu ops parts) = Ok (y', OSFrame fo vs) ->
    su (script ++ [StSFrame tick dt cu ops parts]) t r s1 ->
    (stop (StSFrame tick dt cu ops parts) = false /\ su script t r s1) \/
    (fo_ran fo = true /\ s1 = y_server y' /\ t = sv_tick (y_server y') /\ r = sv_last_run (y_server y')).
  Proof.
    intros Hr Hs H.
    destruct (su_snoc_inv script y _ t r s1 Hr H)
      as [H0 | (y1 & tk & dt0 & cu0 & ops0 & parts0 & fo0 & vs0 & E & Hs0 & Hran & A & B & C)]; [left; exact H0|right].
    rewrite Hs in Hs0. injection Hs0 as <- <- _. subst. auto.
  Qed.

  Lemma su_stop script st t r s1 y : run init script = Ok y -> stop st = true -> is_sframe st = false -> ~ su (script ++ [st]) t r s1.
  Proof. intros Hr Hs Hnf H. destruct (su_nonframe script y st t r s1 Hr Hnf H) as [H0 _]. congruence. Qed.
End SnapUntil.

(* a snapshot of the session of a slot is a snapshot since the last stop *)
Lemma snaps_esnap cfg0 nclients slot script t r s1 : snaps cfg0 nclients slot script t r s1 -> esnap cfg0 nclients script t r s1.
Proof.
  intros (pre & post & y0 & y1 & tk & dt & cu & ops & parts & fo & vs & E & R & S & F & A & B & C & D).
  exists pre, post, y0, y1, tk, dt, cu, ops, parts, fo, vs. split; [exact E|]. split; [exact R|]. split; [exact S|]. split; [exact F|].
  split; [exact A|]. split; [exact B|]. split; [exact C|]. rewrite forallb_forall in *. intros st Hin. specialize (D st Hin).
  destruct st; try reflexivity. discriminate.
Qed.

(* a snapshot of a session is the state after a prefix of the script, and the session has not ended since *)
Lemma snaps_reached cfg0 nclients slot script t r s1 : snaps cfg0 nclients slot script t r s1 ->
  exists pre post y1, script = pre ++ post /\ run (sys_init cfg0 nclients) pre = Ok y1 /\ y_server y1 = s1 /\
                      sv_tick s1 = t /\ sv_last_run s1 = r /\ forallb (fun st => negb (ends_session slot st)) post = true.
Proof.
  intros (pre & post & y0 & y1 & tk & dt & cu & ops & parts & fo & vs & E & R0 & S & _ & A & B & C & D).
  exists (pre ++ [StSFrame tk dt cu ops parts]), post, y1. split; [rewrite E, <- app_assoc; reflexivity|].
  split; [|auto]. rewrite run_app, R0. cbn [bind run]. rewrite S. reflexivity.
Qed.

(* ================================================================== *)
(* 5. steps that are not server frames                                *)
(* ================================================================== *)

Lemma nonframe_noclients_any y st y' o :
  sys_step y st = Ok (y', o) -> is_sframe st = false ->
  (forall slot max, st = StConnect slot max -> sv_running (y_server y) = false) ->
  sv_clients (y_server y) = [] -> sv_clients (y_server y') = [].
Proof.
  intros H Hnf Hcon H0. destruct (single_session_step st) eqn:Ess; [exact (nonframe_noclients y st y' o H Hnf Ess Hcon H0)|].
  destruct st; try discriminate; cbn [sys_step] in H.
  - injection H as <- _. cbn. exact H0.
  - destruct (al_get slot (y_clients y)) as [cl|]; injection H as <- _; [|exact H0]. cbn. rewrite H0. reflexivity.
Qed.

Section HistRunV.
  Variables (cfg0 : cfg) (nclients : N).
  Local Notation init := (sys_init cfg0 nclients).
  Local Notation snap := (snap cfg0 nclients).
  Local Notation esnap := (esnap cfg0 nclients).
  Local Notation srv_histv := (srv_histv cfg0 nclients).

  Lemma histv_init : srv_histv [] (y_server init).
  Proof.
    cbn [sys_init y_server]. constructor.
    - exact server_init_wf.
    - intros e x Hx. discriminate.
    - cbn. lia.
    - cbn. lia.
    - intros t r s1 Hs. destruct (snap_nil cfg0 nclients t r s1 Hs).
    - intros t1 r1 s1 t2 r2 s2 Hs. destruct (snap_nil cfg0 nclients t1 r1 s1 Hs).
    - intros t r s1 Hs. destruct (snap_nil cfg0 nclients t r s1 Hs).
    - intros t1 r1 s1 t2 r2 s2 Hs. destruct (snap_nil cfg0 nclients t1 r1 s1 Hs).
    - intros (t & r & s1 & Hs). destruct (snap_nil cfg0 nclients t r s1 (su_snap _ _ _ _ _ _ _ Hs)).
    - intros t r s1 Hs. destruct (snap_nil cfg0 nclients t r s1 (su_snap _ _ _ _ _ _ _ Hs)).
    - intros t1 r1 s1 t2 r2 s2 Hs. destruct (snap_nil cfg0 nclients t1 r1 s1 (su_snap _ _ _ _ _ _ _ Hs)).
    - unfold t0_invv. cbn [fold_left]. split; [reflexivity|]. split; [reflexivity|]. split; [cbn; discriminate|]. split; [intros _; reflexivity|].
      intros t r s1. apply snap_nil.
  Qed.

  Lemma histv_nonframe script y st y' o :
    run init script = Ok y -> sys_step y st = Ok (y', o) -> is_sframe st = false ->
    srv_histv script (y_server y) -> srv_histv (script ++ [st]) (y_server y').
  Proof.
    intros Hr Hs Hnf H. destruct (nonframe_fields y st y' o Hs Hnf) as [(E1 & E2 & E3 & E4 & E5 & E6) Hrun].
    set (s := y_server y) in *. set (s' := y_server y') in *.
    assert (Hsn : forall t r s1, snap (script ++ [st]) t r s1 -> snap script t r s1)
      by (intros t r s1; exact (snap_snoc_nonframe cfg0 nclients script y st t r s1 Hr Hnf)).
    assert (Hes : forall t r s1, esnap (script ++ [st]) t r s1 -> is_stop st = false /\ esnap script t r s1)
      by (intros t r s1; exact (su_nonframe cfg0 nclients is_stop script y st t r s1 Hr Hnf)).
    assert (Hg : forall e, get_ent s' e = get_ent s e) by (intros e; apply get_ent_ext; exact E1).
    constructor.
    - exact (ents_wf_same s s' E1 (hv_wf _ _ _ _ H)).
    - intros e x Hx. rewrite Hg in Hx. rewrite E2. exact (hv_ents _ _ _ _ H e x Hx).
    - rewrite E2, E3. exact (hv_now _ _ _ _ H).
    - rewrite E4, tick_frames_snoc. replace (is_tick_frame st) with false by (destruct st; try reflexivity; discriminate).
      exact (hv_tick _ _ _ _ H).
    - intros t r s1 Hsnap. rewrite E3. exact (hv_r _ _ _ _ H t r s1 (Hsn _ _ _ Hsnap)).
    - intros t1 r1 s1 t2 r2 s2 H1 H2. exact (hv_rinj _ _ _ _ H t1 r1 s1 t2 r2 s2 (Hsn _ _ _ H1) (Hsn _ _ _ H2)).
    - intros t1 r1 s1 H1. apply (keeps_ext r1 s1 s s' E1). exact (hv_keep _ _ _ _ H t1 r1 s1 (Hsn _ _ _ H1)).
    - intros t1 r1 s1 t2 r2 s2 H1 H2. exact (hv_keep2 _ _ _ _ H t1 r1 s1 t2 r2 s2 (Hsn _ _ _ H1) (Hsn _ _ _ H2)).
    - intros (t & r & s1 & Hsnap). destruct (Hes _ _ _ Hsnap) as [Hst He].
      pose proof (hv_run _ _ _ _ H (ex_intro _ t (ex_intro _ r (ex_intro _ s1 He)))) as Hrn. fold s in Hrn.
      destruct Hrun as [->|[->|Hx]]; [cbn [sys_step] in Hs; injection Hs as <- _; reflexivity|discriminate|congruence].
    - intros t r s1 Hsnap. destruct (Hes _ _ _ Hsnap) as [_ He]. rewrite E4, E5. exact (hv_bound _ _ _ _ H t r s1 He).
    - intros t1 r1 s1 t2 r2 s2 H1 H2. exact (hv_inj _ _ _ _ H t1 r1 s1 t2 r2 s2 (proj2 (Hes _ _ _ H1)) (proj2 (Hes _ _ _ H2))).
    - pose proof (hv_t0 _ _ _ _ H) as Ht. unfold t0_invv in *. rewrite fold_left_app. cbn [fold_left].
      destruct (fold_left t0_step script (T0A false false)) as [started connected| |].
      + destruct Ht as (T1 & T2 & T3 & T5 & T4).
        assert (Hc : sv_tick s' = 0 /\ sv_dirty s' = true /\ forall t r s1, ~ snap (script ++ [st]) t r s1).
        { rewrite E4, E5. split; [exact T1|]. split; [exact T2|]. intros t r s1 Hsnap. exact (T4 t r s1 (Hsn _ _ _ Hsnap)). }
        destruct Hc as (C1 & C2 & C3).
        assert (Hsame : st <> StStart -> sv_running s' = true -> started = true).
        { intros Hne Hr'. apply T3. destruct Hrun as [Hx | [Hx | Hx]]; [contradiction| |congruence].
          subst st. cbn [sys_step] in Hs. injection Hs as <- _. unfold s' in Hr'. cbn in Hr'. discriminate. }
        assert (Hnc : (forall slot max, st = StConnect slot max -> started = false) -> connected = false -> sv_clients s' = []).
        { intros Hcon Hcf. apply (nonframe_noclients_any y st y' o Hs Hnf); [|exact (T5 Hcf)].
          intros slot max E. destruct (sv_running (y_server y)) eqn:Erun; [|reflexivity]. pose proof (T3 Erun). pose proof (Hcon slot max E). congruence. }
        destruct st; try discriminate Hnf; cbn [t0_step];
          (split; [exact C1|]; split; [exact C2|]; split; [|split; [|exact C3]]);
          try (apply Hsame; discriminate); try (apply Hnc; intros; discriminate).
        * intros _. reflexivity.
        * intros Hcf. apply orb_false_elim in Hcf. destruct Hcf as [Hcf Hst]. apply Hnc; [|exact Hcf]. intros; exact Hst.
      + cbn [t0_step]. destruct Ht as [Z1 Z2]. rewrite E4, E5. split; [exact Z1|].
        intros t r s1 Hsnap. exact (Z2 t r s1 (Hsn _ _ _ Hsnap)).
      + exact I.
  Qed.

  (* ---------- server frames ---------- *)

  Lemma histv_frame script y tick dt cu ops parts y' o :
    run init script = Ok y -> sys_step y (StSFrame tick dt cu ops parts) = Ok (y', o) ->
    forallb sop_valsu ops = true ->
    tick_frames (script ++ [StSFrame tick dt cu ops parts]) < 2 ^ 31 ->
    srv_histv script (y_server y) -> srv_histv (script ++ [StSFrame tick dt cu ops parts]) (y_server y').
  Proof.
    intros Hr Hs Hv Hb H.
    destruct (sframe_step_inv _ _ _ _ _ _ _ _ Hs) as (fo & vs & -> & Ef).
    set (s := y_server y) in *. set (s' := y_server y') in *.
    destruct (server_frame_flags _ _ _ _ _ _ _ _ _ Ef) as (R & LR & D & Hrunning & Hstopped).
    destruct (server_frame_core _ _ _ _ _ _ _ _ _ Ef) as (s2 & A1 & A2 & A3 & A4 & Hcase).
    set (s3 := fold_left apply_sop ops s2) in *.
    pose proof (hv_tick _ _ _ _ H) as Htk. fold s in Htk.
    pose proof (hv_now _ _ _ _ H) as Hnow. fold s in Hnow.
    rewrite tick_frames_snoc in Hb.
    assert (Htadd : tick_add (sv_tick s) 1 = sv_tick s + 1).
    { unfold tick_add. apply N.mod_small. rewrite pow32_val. rewrite pow31_val in Hb. destruct (is_tick_frame (StSFrame tick dt cu ops parts)); lia. }
    assert (Ht' : sv_tick s' <= (if tick then sv_tick s + 1 else sv_tick s)).
    { destruct (sv_running s) eqn:Er.
      - rewrite (proj1 (Hrunning eq_refl)), Htadd. lia.
      - rewrite (proj2 (Hstopped eq_refl)), Htadd. destruct (sv_last_running s); destruct tick; lia. }
    assert (Hn3 : sv_now s3 = sv_now s) by (unfold s3; rewrite ops_now; exact A2).
    assert (Hnle : sv_now s <= sv_now s').
    { destruct Hcase as [(_ & _ & _ & N1 & _) | (_ & N1 & _)]; rewrite N1; lia. }
    assert (Hok3 : ents_ok s3).
    { apply ops_ents_oku; [exact Hv|]. apply (ents_ok_ext s s2 A1); [rewrite A2; lia|]. exact (hv_ents _ _ _ _ H). }
    assert (Hok' : ents_ok s') by (apply (ents_ok_ext s3 s' A4); [rewrite Hn3; exact Hnle|exact Hok3]).
    assert (Hkeep : forall r s1, keeps r s1 s -> r < sv_now s -> keeps r s1 s').
    { intros r s1 Hk Hr1. apply (keeps_ext r s1 s3 s' A4). apply ops_keeps; [|rewrite A2; exact Hr1].
      exact (keeps_ext r s1 s s2 A1 Hk). }
    pose proof (snap_frame_inv cfg0 nclients script y tick dt cu ops parts y' fo vs) as Hinv. fold s' in Hinv.
    pose proof (su_frame_inv cfg0 nclients is_stop script y tick dt cu ops parts y' fo vs) as Hinve. fold s' in Hinve.
    assert (Hwf' : ents_wf s') by exact (server_frame_wf _ _ _ _ _ _ _ _ _ (hv_wf _ _ _ _ H) Ef).
    (* the new snapshot *)
    assert (Hnew : fo_ran fo = true ->
              sv_last_run s' = sv_now s /\ sv_running s = true /\ (sv_dirty s || tick = true) /\
              sv_tick s' = (if tick then sv_tick s + 1 else sv_tick s)).
    { intros Hran. destruct Hcase as [(_ & N0 & N1 & _ & N3 & _) | (N0 & _)]; [|congruence].
      split; [exact N3|]. split; [exact N0|]. split; [exact N1|]. rewrite (proj1 (Hrunning N0)), Htadd. reflexivity. }
    assert (Hlr' : sv_last_run s <= sv_last_run s').
    { destruct Hcase as [(_ & _ & _ & _ & N2 & _) | (_ & _ & N2 & _)]; rewrite N2; lia. }
    assert (Holdr : forall t1 r1 s1, snap script t1 r1 s1 -> r1 < sv_now s).
    { intros t1 r1 s1 H1. destruct (hv_r _ _ _ _ H t1 r1 s1 H1) as (B1 & _). fold s in B1. lia. }
    constructor.
    - exact Hwf'.
    - exact Hok'.
    - destruct Hcase as [(_ & _ & _ & N1 & N2 & _) | (_ & N1 & N2 & _)]; rewrite N1, N2; lia.
    - rewrite tick_frames_snoc. cbn [is_tick_frame]. destruct tick; lia.
    - intros t r s1 Hsn. destruct (Hinv t r s1 Hr Hs Hsn) as [Ho | (Hran & -> & -> & ->)].
      + destruct (hv_r _ _ _ _ H t r s1 Ho) as (B1 & B2 & B3). fold s in B1. split; [lia|]. split; [exact B2|exact B3].
      + split; [lia|]. split; [|exact Hwf']. cbn [is_tick_frame] in Hb. destruct tick; lia.
    - intros t1 r1 s1 t2 r2 s2' Hs1 Hs2.
      destruct (Hinv t1 r1 s1 Hr Hs Hs1) as [Ho1 | (Hran1 & -> & -> & ->)];
        destruct (Hinv t2 r2 s2' Hr Hs Hs2) as [Ho2 | (Hran2 & -> & -> & ->)].
      + exact (hv_rinj _ _ _ _ H t1 r1 s1 t2 r2 s2' Ho1 Ho2).
      + destruct (Hnew Hran2) as (L & _). pose proof (Holdr _ _ _ Ho1). intros E. lia.
      + destruct (Hnew Hran1) as (L & _). pose proof (Holdr _ _ _ Ho2). intros E. lia.
      + auto.
    - intros t1 r1 s1 Hs1. destruct (Hinv t1 r1 s1 Hr Hs Hs1) as [Ho | (Hran & -> & -> & ->)]; [|apply keeps_refl].
      apply Hkeep; [exact (hv_keep _ _ _ _ H t1 r1 s1 Ho)|exact (Holdr _ _ _ Ho)].
    - intros t1 r1 s1 t2 r2 s2' Hs1 Hs2 Hle.
      destruct (Hinv t1 r1 s1 Hr Hs Hs1) as [Ho1 | (Hran1 & -> & -> & ->)];
        destruct (Hinv t2 r2 s2' Hr Hs Hs2) as [Ho2 | (Hran2 & -> & -> & ->)].
      + exact (hv_keep2 _ _ _ _ H t1 r1 s1 t2 r2 s2' Ho1 Ho2 Hle).
      + apply Hkeep; [exact (hv_keep _ _ _ _ H t1 r1 s1 Ho1)|exact (Holdr _ _ _ Ho1)].
      + exfalso. destruct (Hnew Hran1) as (L & _). pose proof (Holdr _ _ _ Ho2). lia.
      + apply keeps_refl.
    - intros (t & r & s1 & Hsn). rewrite R. destruct (Hinve t r s1 Hr Hs Hsn) as [[_ Ho] | (Hran & _)].
      + exact (hv_run _ _ _ _ H (ex_intro _ t (ex_intro _ r (ex_intro _ s1 Ho)))).
      + exact (proj1 (proj2 (Hnew Hran))).
    - intros t r s1 Hsn. rewrite D. destruct (Hinve t r s1 Hr Hs Hsn) as [[_ Ho] | (Hran & -> & -> & ->)].
      + pose proof (hv_run _ _ _ _ H (ex_intro _ t (ex_intro _ r (ex_intro _ s1 Ho)))) as Hrn. fold s in Hrn.
        destruct (hv_bound _ _ _ _ H t r s1 Ho) as (B1 & _). fold s in B1.
        rewrite (proj1 (Hrunning Hrn)), Htadd. split; [destruct tick; lia|discriminate].
      + split; [lia|discriminate].
    - intros t1 r1 s1 t2 r2 s2' Hs1 Hs2 Hlt.
      destruct (Hinve t1 r1 s1 Hr Hs Hs1) as [[_ Ho1] | (Hran1 & -> & -> & ->)];
        destruct (Hinve t2 r2 s2' Hr Hs Hs2) as [[_ Ho2] | (Hran2 & -> & -> & ->)].
      + exact (hv_inj _ _ _ _ H t1 r1 s1 t2 r2 s2' Ho1 Ho2 Hlt).
      + destruct (Hnew Hran2) as (_ & _ & Hd & Et). destruct (hv_bound _ _ _ _ H t1 r1 s1 Ho1) as (B1 & B2). fold s in B1, B2.
        rewrite Et. destruct tick; [lia|]. rewrite orb_false_r in Hd. exact (B2 Hd).
      + exfalso. destruct (Hnew Hran1) as (L & _). pose proof (Holdr _ _ _ (su_snap _ _ _ _ _ _ _ Ho2)). lia.
      + lia.
    - pose proof (hv_t0 _ _ _ _ H) as Ht0. unfold t0_invv in *. rewrite fold_left_app. cbn [fold_left]. fold s in Ht0.
      destruct (fold_left t0_step script (T0A false false)) as [started connected| |]; cbn [t0_step].
      + destruct Ht0 as (Z1 & Z2 & Z3 & Z5 & Z4). destruct tick.
        * split; [rewrite D; discriminate|]. intros t r s1 Hsn.
          destruct (Hinv t r s1 Hr Hs Hsn) as [Ho | (Hran & -> & -> & ->)]; [destruct (Z4 _ _ _ Ho)|]. left.
          destruct (Hnew Hran) as (_ & _ & _ & Et). rewrite Et. lia.
        * destruct (started && connected) eqn:Esc; [exact I|]. split; [rewrite D; discriminate|]. intros t r s1 Hsn.
          destruct (Hinv t r s1 Hr Hs Hsn) as [Ho | (Hran & -> & _ & _)]; [destruct (Z4 _ _ _ Ho)|].
          destruct (Hnew Hran) as (_ & Hrun & _). specialize (Z3 Hrun). subst started. cbn [andb] in Esc. right.
          exact (frame_noclients _ _ _ _ _ _ _ _ _ (Z5 Esc) Ef).
      + destruct Ht0 as [Z1 Z2]. split; [rewrite D; discriminate|]. intros t r s1 Hsn.
        destruct (Hinv t r s1 Hr Hs Hsn) as [Ho | (Hran & -> & -> & ->)]; [exact (Z2 _ _ _ Ho)|]. left.
        destruct (Hnew Hran) as (_ & _ & Hd & Et). rewrite Et. destruct tick; [lia|].
        rewrite orb_false_r in Hd. exact (Z1 Hd).
      + exact I.
  Qed.

  (* ---------- the induction ---------- *)

  Theorem histv_run script : forall y,
    script_valsu script = true -> tick_frames script < 2 ^ 31 ->
    run init script = Ok y -> srv_histv script (y_server y).
  Proof.
    induction script as [|st t IH] using rev_ind; intros y Hv Hb H.
    - cbn [run] in H. injection H as <-. exact histv_init.
    - rewrite script_valsu_app in Hv. apply andb_prop in Hv. destruct Hv as [Hv1 Hv2].
      unfold script_valsu in Hv2. cbn [forallb] in Hv2. rewrite andb_true_r in Hv2.
      rewrite run_app in H. destruct (run init t) as [y1| |] eqn:E1; cbn [bind] in H; try discriminate.
      cbn [run] in H. destruct (sys_step y1 st) as [[y2 o]| |] eqn:E2; cbn [bind] in H; try discriminate.
      injection H as <-.
      assert (Hb1 : tick_frames t < 2 ^ 31) by (rewrite tick_frames_snoc in Hb; destruct (is_tick_frame st); lia).
      pose proof (IH y1 Hv1 Hb1 eq_refl) as IH1.
      destruct (is_sframe st) eqn:Esf.
      + destruct st as [| | | | |tick dt cleanup ops parts| | |]; try discriminate.
        exact (histv_frame t y1 tick dt cleanup ops parts y2 o E1 E2 Hv2 Hb IH1).
      + exact (histv_nonframe t y1 st y2 o E1 E2 Esf IH1).
  Qed.

  (* ---------- what the client half needs of the snapshots of a session ---------- *)

  Lemma snaps_facts slot script s : srv_histv script s ->
    (forall t1 r1 s1 t2 r2 s2, snaps cfg0 nclients slot script t1 r1 s1 -> snaps cfg0 nclients slot script t2 r2 s2 ->
       (r1 = r2 -> t1 = t2 /\ s1 = s2) /\ (r1 < r2 -> t1 < t2)) /\
    (forall t1 r1 s1 t2 r2 s2, snaps cfg0 nclients slot script t1 r1 s1 -> snaps cfg0 nclients slot script t2 r2 s2 ->
       r1 <= r2 -> keeps r1 s1 s2) /\
    (forall t r s1, snaps cfg0 nclients slot script t r s1 -> small_tick t) /\
    (forall t r s1, snaps cfg0 nclients slot script t r s1 -> ents_wf s1).
  Proof.
    intros Hh.
    assert (Hs : forall t r s1, snaps cfg0 nclients slot script t r s1 -> snap script t r s1)
      by (intros t r s1; apply su_snap).
    split; [|split; [|split]].
    - intros t1 r1 s1 t2 r2 s2 H1 H2. split.
      + exact (hv_rinj _ _ _ _ Hh _ _ _ _ _ _ (Hs _ _ _ H1) (Hs _ _ _ H2)).
      + exact (hv_inj _ _ _ _ Hh _ _ _ _ _ _ (snaps_esnap _ _ _ _ _ _ _ H1) (snaps_esnap _ _ _ _ _ _ _ H2)).
    - intros t1 r1 s1 t2 r2 s2 H1 H2. exact (hv_keep2 _ _ _ _ Hh _ _ _ _ _ _ (Hs _ _ _ H1) (Hs _ _ _ H2)).
    - intros t r s1 H1. exact (proj1 (proj2 (hv_r _ _ _ _ Hh t r s1 (Hs _ _ _ H1)))).
    - intros t r s1 H1. exact (proj2 (proj2 (hv_r _ _ _ _ Hh t r s1 (Hs _ _ _ H1)))).
  Qed.

  (* the stamp counter stays far below Bevy's MAX_CHANGE_AGE: it moves by one per run of `send_replication`, and a
     run needs a tick frame (or the initial pending change) *)
  Lemma now_boundv_dirty script : forall y, run init script = Ok y ->
    sv_now (y_server y) <= tick_frames script + (if sv_dirty (y_server y) then 1 else 2).
  Proof.
    induction script as [|st t IH] using rev_ind; intros y H.
    - cbn [run] in H. injection H as <-. cbn. lia.
    - rewrite run_app in H. destruct (run init t) as [y1| |] eqn:E1; cbn [bind] in H; try discriminate.
      cbn [run] in H. destruct (sys_step y1 st) as [[y2 o]| |] eqn:E2; cbn [bind] in H; try discriminate.
      injection H as <-. pose proof (IH y1 eq_refl) as IH1. rewrite tick_frames_snoc.
      destruct (is_sframe st) eqn:Esf.
      + destruct st as [| | | | |tick dt cleanup ops parts| | |]; try discriminate.
        destruct (sframe_step_inv _ _ _ _ _ _ _ _ E2) as (fo & vs & -> & Ef).
        destruct (server_frame_flags _ _ _ _ _ _ _ _ _ Ef) as (_ & _ & D & Hrunning & Hstopped).
        destruct (server_frame_core _ _ _ _ _ _ _ _ _ Ef) as (s2 & _ & _ & _ & _ & Hcase).
        rewrite D. cbn [is_tick_frame].
        destruct Hcase as [(Hran & Hrn & Hd & N1 & _) | (_ & N1 & _)]; rewrite N1.
        * destruct (sv_dirty (y_server y1)); destruct tick; cbn in Hd; try discriminate; lia.
        * destruct (sv_dirty (y_server y1)); destruct tick; lia.
      + destruct (nonframe_fields y1 st y2 o E2 Esf) as [(_ & A & _ & B & C & _) _]. rewrite A, C.
        replace (is_tick_frame st) with false by (destruct st; try reflexivity; discriminate). exact IH1.
  Qed.

  Theorem now_boundv script y : run init script = Ok y -> sv_now (y_server y) <= tick_frames script + 2.
  Proof. intros H. pose proof (now_boundv_dirty script y H). destruct (sv_dirty (y_server y)); lia. Qed.
End HistRunV.
