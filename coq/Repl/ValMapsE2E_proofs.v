(* C02 / C01 / C16 end to end at the value level WITH PRE-SPAWN MAPPINGS (`SMap` operations): the invariant over whole-system
   runs.  Port of Repl/ValRefE2E_proofs.v: the invariants of Repl/ValRefSpec.v are kept for the NORMAL FORM [ncl c] of every
   client and the stripped update messages, i.e. for the system [nsys y] (Repl/ValMapsSpec.v); the structural invariant is the
   one of Repl/StructE2EMaps_proofs.v (`g_run`), the scope ([script_scopem]) is `script_okg` + `run_maps_ok` instead of
   `script_okf`.  Client half: Repl/ValMapsCli_proofs.v, server half: Repl/ValMapsSrv_proofs.v.
   Theorems T, K, Q are stated for the REAL client: values, confirm histories and the entity map of [c] and [ncl c] are the
   same. *)
From RV Require Import Lib.Res Repl.ClientTicks Repl.ClientTicks_proofs Repl.World Vis.Visibility
  Tick.RepliconTick Tick.RepliconTick_proofs Tick.ConfirmHistory Tick.MutateTicks
  Repl.Server Repl.ServerSpec Repl.Server_proofs Wire.AckCodec Wire.AckCodec_proofs Repl.Ack_proofs Repl.StructSpec Repl.Struct_proofs
  Repl.StructOps_proofs Repl.StructRun_proofs
  Repl.StructVisSpec Repl.StructVis_proofs Repl.StructVisOps_proofs Repl.StructVisRun_proofs
  Repl.Client Repl.Sys Repl.Client_proofs Repl.ClientEnt_proofs Repl.ClientMut_proofs Repl.ClientSys_proofs
  Repl.ClientStructSpec Repl.ClientStruct_proofs Repl.ClientHist_proofs Repl.ClientMaps_proofs Repl.ClientHistMaps_proofs
  Repl.StructE2E_proofs Repl.StructE2EMut_proofs
  Repl.StructE2EVis_proofs Repl.StructE2ESess_proofs Repl.StructE2EMaps_proofs
  Repl.ValSpec Repl.ValSnap_proofs Repl.ValHist_proofs Repl.ValClient_proofs Repl.ValServer_proofs Repl.ValCli_proofs
  Repl.ValSrv_proofs Repl.ValFrame_proofs Repl.ValE2E_proofs
  Repl.ValVisSpec Repl.ValVisHist_proofs Repl.ValVisCli_proofs Repl.ValVisSrv_proofs Repl.ValVisFrame_proofs Repl.ValVisE2E_proofs
  Repl.ValRefSpec Repl.ValRefHist_proofs Repl.ValRefCheck_proofs Repl.ValRefClient_proofs Repl.ValRefCli_proofs Repl.ValRefSrv_proofs Repl.ValRefFrame_proofs
  Repl.ValRefE2E_proofs
  Repl.ValMapsSpec Repl.ValMapsNorm_proofs Repl.ValMapsCli_proofs Repl.ValMapsSrv_proofs.
From Coq Require Import ZifyBool ZifyN.
Open Scope N_scope.
Ltac Zify.zify_post_hook ::= Z.div_mod_to_equations.
Arguments N.add : simpl never. Arguments N.mul : simpl never. Arguments N.pow : simpl never.
Arguments N.ltb : simpl never. Arguments N.leb : simpl never. Arguments N.div : simpl never.
Arguments N.modulo : simpl never. Arguments N.sub : simpl never. Arguments N.eqb : simpl never.

(* ================================================================== *)
(* 0. the system as the value invariants see it                       *)
(* ================================================================== *)

Lemma al_get_nclients (cls : list (N * client)) slot :
  al_get slot (map (fun kv => (fst kv, ncl (snd kv))) cls) = option_map ncl (al_get slot cls).
Proof. induction cls as [|[k c] t IH]; cbn [map al_get fst snd option_map]; [reflexivity|]. destruct (k =? slot); [reflexivity|exact IH]. Qed.

Lemma get_link_nsys y slot : get_link (nsys y) slot = nlink (get_link y slot).
Proof.
  unfold get_link. cbn [nsys y_links]. generalize (y_links y) as ls. induction ls as [|[k l] t IH]; cbn [map al_get fst snd]; [reflexivity|].
  destruct (k =? slot); [reflexivity|exact IH].
Qed.

Lemma pend_of_nsys y slot c : pend_of (nsys y) slot (ncl c) = map strip (pend_of y slot c).
Proof. unfold pend_of. rewrite get_link_nsys, map_app. reflexivity. Qed.

Lemma muts_of_nsys y slot c : muts_of (nsys y) slot (ncl c) = muts_of y slot c.
Proof. unfold muts_of. rewrite get_link_nsys. reflexivity. Qed.

Lemma acks_of_nsys y slot : acks_of (nsys y) slot = acks_of y slot.
Proof. unfold acks_of. rewrite get_link_nsys. reflexivity. Qed.

Lemma same_corel_ncl c c' : same_corel c c' -> same_corel (ncl c) (ncl c').
Proof.
  intros [(A & B & C & D & E & F) G]. split; [|exact G]. unfold same_core. cbn [ncl cl_status cl_s2c cl_c2s cl_ents cl_next cl_upd_tick].
  rewrite D. auto 6.
Qed.

Lemma in_map_strip u us : In u (map strip us) -> exists u0, In u0 us /\ u = strip u0.
Proof. intros H. apply in_map_iff in H. destruct H as [u0 [E H]]. exists u0. auto. Qed.

Lemma map_tick_strip us : map u_tick (map strip us) = map u_tick us.
Proof. rewrite map_map. reflexivity. Qed.

Lemma fold_abs_apply_strip us : forall S, fold_left abs_apply (map strip us) S = fold_left abs_apply us S.
Proof. induction us as [|u t IH]; intros S; cbn [map fold_left]; [reflexivity|]. rewrite IH. reflexivity. Qed.

(* the two transfer lemmas of Repl/ValRefE2E_proofs.v, with the side conditions on the real system *)
Lemma wslotm_mono slot (SN SN' : N -> N -> server -> Prop) y y' regs regs' m m' c c' :
  (forall t r s1, SN t r s1 -> SN' t r s1) -> (forall t r s1, SN' t r s1 -> SN t r s1) ->
  (m' = MLive -> cl_status c = Connected -> m = MLive) -> (fresh_mode m' c' -> fresh_mode m c) -> regs <= regs' ->
  sv_tick (y_server y) <= sv_tick (y_server y') -> sv_now (y_server y) <= sv_now (y_server y') ->
  (m' = MLive -> cl_status c = Connected -> forall cl', In cl' (sv_clients (y_server y')) -> sc_slot cl' = slot ->
     exists cl, In cl (sv_clients (y_server y)) /\ sc_slot cl = slot /\ sc_ticks cl' = sc_ticks cl /\
                (sc_authorized cl' = false -> sc_authorized cl = false)) ->
  same_corel c c' ->
  (cl_status c = Connected -> pend_of y' slot c' = pend_of y slot c) ->
  (cl_status c = Connected -> forall mm, In mm (muts_of y' slot c') -> In mm (muts_of y slot c)) ->
  (forall i, In i (acks_of y' slot) -> In i (acks_of y slot)) ->
  wslot_invr SN (nsys y) regs m slot (ncl c) -> wslot_invr SN' (nsys y') regs' m' slot (ncl c').
Proof.
  intros Hsn Hback Hm Hfm Hregs Htk Hnw Hrec Hcore Hp Hmu Ha.
  apply (wslotr_mono slot SN SN' (nsys y) (nsys y') regs regs' m m' (ncl c) (ncl c')); try assumption.
  - exact (same_corel_ncl c c' Hcore).
  - intros Hc. rewrite !pend_of_nsys. rewrite (Hp Hc). reflexivity.
  - intros Hc mm. rewrite !muts_of_nsys. exact (Hmu Hc mm).
  - intros i. rewrite !acks_of_nsys. exact (Ha i).
Qed.

Lemma wslotm_same slot (SN SN' : N -> N -> server -> Prop) y y' regs m c c' :
  (forall t r s1, SN t r s1 -> SN' t r s1) -> (forall t r s1, SN' t r s1 -> SN t r s1) ->
  sv_tick (y_server y') = sv_tick (y_server y) -> sv_now (y_server y') = sv_now (y_server y) ->
  sv_clients (y_server y') = sv_clients (y_server y) -> same_corel c c' ->
  (cl_status c = Connected -> pend_of y' slot c' = pend_of y slot c) ->
  (cl_status c = Connected -> forall mm, In mm (muts_of y' slot c') -> In mm (muts_of y slot c)) ->
  (forall i, In i (acks_of y' slot) -> In i (acks_of y slot)) ->
  wslot_invr SN (nsys y) regs m slot (ncl c) -> wslot_invr SN' (nsys y') regs m slot (ncl c').
Proof.
  intros Hsn Hback Et En Ec Hcore Hp Hm Ha.
  apply (wslotr_same slot SN SN' (nsys y) (nsys y') regs m (ncl c) (ncl c')); try assumption.
  - exact (same_corel_ncl c c' Hcore).
  - intros Hc. rewrite !pend_of_nsys. rewrite (Hp Hc). reflexivity.
  - intros Hc mm. rewrite !muts_of_nsys. exact (Hm Hc mm).
  - intros i. rewrite !acks_of_nsys. exact (Ha i).
Qed.

Section E2EM.
  Variables (cfg0 : cfg) (nclients : N).
  Local Notation init := (sys_init cfg0 nclients).
  Local Notation SNof slot script := (snaps cfg0 nclients slot script).

  Definition w_invm (script : list step) (y : sys) : Prop :=
    forall slot c, al_get slot (y_clients y) = Some c ->
      wslot_invr (SNof slot script) (nsys y) (regs_of init script slot) (mode_of script slot) slot (ncl c).

  Lemma regsm_snoc script y st y' o slot :
    run init script = Ok y -> sys_step y st = Ok (y', o) ->
    regs_of init (script ++ [st]) slot = regs_of init script slot + regs_step y st slot.
  Proof. intros Hr Hs. rewrite regs_of_app, Hr. cbn [regs_of]. rewrite Hs. lia. Qed.

  Lemma snapsm_mono slot script st t r s1 : ends_session slot st = false -> SNof slot script t r s1 -> SNof slot (script ++ [st]) t r s1.
  Proof. apply su_mono. Qed.

  Lemma snapsm_back slot script y st t r s1 : run init script = Ok y -> is_sframe st = false ->
    SNof slot (script ++ [st]) t r s1 -> SNof slot script t r s1.
  Proof. intros Hr Hnf H. exact (proj2 (su_nonframe cfg0 nclients _ script y st t r s1 Hr Hnf H)). Qed.

  (* ---------- steps that do not end a session, start one, or run a frame ---------- *)

  (* a step that only changes the link and the client of slot0 *)
  Lemma wm_link_client script st y slot0 cl cl' l' y' o :
    is_sframe st = false -> (forall slot, ends_session slot st = false) -> (forall slot m, mode_step slot m st = m) ->
    run init script = Ok y -> sys_step y st = Ok (y', o) ->
    y' = set_client (set_link y slot0 l') slot0 cl' ->
    al_get slot0 (y_clients y) = Some cl -> same_corel cl cl' ->
    (cl_status cl = Connected -> cl_inbox_upd cl' ++ l_upd l' = cl_inbox_upd cl ++ l_upd (get_link y slot0)) ->
    (cl_status cl = Connected -> forall m, In m (l_mut l' ++ cl_inbox_mut cl' ++ cl_buffered cl') -> In m (muts_of y slot0 cl)) ->
    (forall i, In i (concat (l_ack l')) -> In i (concat (l_ack (get_link y slot0)))) ->
    w_invm script y -> w_invm (script ++ [st]) y'.
  Proof.
    intros Hnf Hends Hmode Hrun H -> Ec Hcore Hp Hm Ha Hinv slot c Hc.
    rewrite (regsm_snoc script y st _ o slot Hrun H), (regs_step_nonframe y st slot Hnf), N.add_0_r, mode_of_snoc, Hmode.
    assert (Hsn : forall t r s1, SNof slot script t r s1 -> SNof slot (script ++ [st]) t r s1) by (intros t r s1; apply snapsm_mono; apply Hends).
    assert (Hbk : forall t r s1, SNof slot (script ++ [st]) t r s1 -> SNof slot script t r s1) by (intros t r s1; exact (snapsm_back slot script y st t r s1 Hrun Hnf)).
    cbn [set_client set_link y_clients] in Hc. destruct (N.eq_dec slot slot0) as [->|Hne].
    - rewrite al_get_insert_same in Hc. inversion Hc; subst c. clear Hc.
      apply (wslotm_same slot0 (SNof slot0 script) _ y _ _ _ cl cl' Hsn Hbk); [reflexivity|reflexivity|reflexivity|exact Hcore| | | |exact (Hinv slot0 cl Ec)].
      + intros Hcon. unfold pend_of. rewrite link_same. exact (Hp Hcon).
      + intros Hcon m Hin. unfold muts_of in Hin. rewrite link_same in Hin. exact (Hm Hcon m Hin).
      + intros i Hi. unfold acks_of in *. rewrite link_same in Hi. cbn [set_client set_link y_server] in Hi.
        apply in_app_or in Hi. apply in_or_app. destruct Hi as [Hi|Hi]; [left; exact Hi|right; exact (Ha i Hi)].
    - rewrite al_get_insert_other in Hc by exact Hne.
      apply (wslotm_same slot (SNof slot script) _ y _ _ _ c c Hsn Hbk); [reflexivity|reflexivity|reflexivity|apply same_corel_refl| | | |exact (Hinv slot c Hc)].
      + intros _. unfold pend_of. rewrite (link_other y slot0 l' cl' slot Hne). reflexivity.
      + intros _ m Hin. unfold muts_of in *. rewrite (link_other y slot0 l' cl' slot Hne) in Hin. exact Hin.
      + intros i Hi. unfold acks_of in *. rewrite (link_other y slot0 l' cl' slot Hne) in Hi. exact Hi.
  Qed.

  Lemma wm_noop script st y o :
    is_sframe st = false -> (forall slot, ends_session slot st = false) ->
    (forall slot c, al_get slot (y_clients y) = Some c ->
       (mode_step slot (mode_of script slot) st = MLive -> cl_status c = Connected -> mode_of script slot = MLive) /\
       (fresh_mode (mode_step slot (mode_of script slot) st) c -> fresh_mode (mode_of script slot) c)) ->
    run init script = Ok y -> sys_step y st = Ok (y, o) -> w_invm script y -> w_invm (script ++ [st]) y.
  Proof.
    intros Hnf Hends Hmode Hrun H Hinv slot c Hc.
    rewrite (regsm_snoc script y st _ o slot Hrun H), (regs_step_nonframe y st slot Hnf), N.add_0_r, mode_of_snoc.
    destruct (Hmode slot c Hc) as [M1 M2].
    apply (wslotm_mono slot (SNof slot script) _ y y (regs_of init script slot) (regs_of init script slot) (mode_of script slot) _ c c); try lia; auto.
    - intros t r s1. apply snapsm_mono. apply Hends.
    - intros t r s1. exact (snapsm_back slot script y st t r s1 Hrun Hnf).
    - intros _ _ cl' Hin Hs. exists cl'. auto.
    - apply same_corel_refl.
  Qed.

  Lemma mode_id_noopm st : (forall slot m, mode_step slot m st = m) ->
    forall (script : list step) (y : sys) slot c, al_get slot (y_clients y) = Some c ->
       (mode_step slot (mode_of script slot) st = MLive -> cl_status c = Connected -> mode_of script slot = MLive) /\
       (fresh_mode (mode_step slot (mode_of script slot) st) c -> fresh_mode (mode_of script slot) c).
  Proof. intros H script y slot c _. rewrite H. auto. Qed.

  (* ---------- deliveries and drops ---------- *)

  Lemma deliver_updates_lndm p : forall cl, cl_last_not_disconnected (fold_left deliver_update p cl) = cl_last_not_disconnected cl.
  Proof.
    induction p as [|u t IH]; intros cl; cbn [fold_left]; [reflexivity|]. rewrite IH. unfold deliver_update. destruct (cl_status cl); reflexivity.
  Qed.

  Lemma deliver_mutates_lndm p : forall cl, cl_last_not_disconnected (fold_left deliver_mutate p cl) = cl_last_not_disconnected cl.
  Proof.
    induction p as [|u t IH]; intros cl; cbn [fold_left]; [reflexivity|]. rewrite IH. unfold deliver_mutate. destruct (cl_status cl); reflexivity.
  Qed.

  Lemma wm_transport script st y y' o :
    transport_step st = true -> legal_step st = true -> run init script = Ok y ->
    w_invm script y -> sys_step y st = Ok (y', o) -> w_invm (script ++ [st]) y'.
  Proof.
    intros Ht Hl Hrun Hinv H.
    assert (Hnf : is_sframe st = false) by (destruct st; try discriminate; reflexivity).
    assert (Hends : forall slot, ends_session slot st = false) by (intros slot; destruct st; try discriminate; reflexivity).
    assert (Hmode : forall slot m, mode_step slot m st = m) by (intros slot m; destruct st; try discriminate; reflexivity).
    destruct st as [| | | | | | |slot0 s2c ch w|slot0 s2c ch w]; try discriminate; pose proof H as H0; cbn [sys_step] in H.
    - (* deliver *)
      destruct (al_get slot0 (y_clients y)) as [cl|] eqn:Ec;
        [|inversion H; subst y' o; exact (wm_noop script _ y _ Hnf Hends (mode_id_noopm _ Hmode script y) Hrun H0 Hinv)].
      destruct s2c.
      + destruct (ch =? 0) eqn:Ech.
        * cbn [legal_step] in Hl. rewrite Ech in Hl. assert (Hw : w <> Last) by (destruct w; congruence).
          destruct (take w (l_upd (get_link y slot0))) as [picked rest] eqn:Etk. inversion H; subst y' o. clear H.
          apply take_app in Etk; [|exact Hw].
          destruct (deliver_updates_fields picked cl) as (A & B & C & D & E & F & G & K). cbv zeta in A, B, C, D, E, F, G, K.
          apply (wm_link_client script _ y slot0 cl _ _ _ _ Hnf Hends Hmode Hrun H0 eq_refl Ec);
            [split; [unfold same_core; auto 6|apply deliver_updates_lndm]| | | |exact Hinv].
          -- intros Hcon. cbn [l_upd]. destruct (deliver_updates_inbox picked cl Hcon) as [Hi _]. rewrite Hi, <- app_assoc, Etk. reflexivity.
          -- intros _ m Hm. cbn [l_mut] in Hm. rewrite F, G in Hm. exact Hm.
          -- intros i Hi. exact Hi.
        * destruct (ch =? 1) eqn:Ech1; [|inversion H; subst y' o; exact (wm_noop script _ y _ Hnf Hends (mode_id_noopm _ Hmode script y) Hrun H0 Hinv)].
          destruct (take w (l_mut (get_link y slot0))) as [picked rest] eqn:Etk. inversion H; subst y' o. clear H.
          destruct (status_dec cl) as [Es|Es].
          -- rewrite (deliver_mutates_disc picked cl Es) in *.
             apply (wm_link_client script _ y slot0 cl _ _ _ _ Hnf Hends Hmode Hrun H0 eq_refl Ec); [apply same_corel_refl| | | |exact Hinv].
             ++ intros Hcon. congruence.
             ++ intros Hcon. congruence.
             ++ intros i Hi. exact Hi.
          -- destruct (deliver_mutates_fields picked cl Es) as (A & B & C & D & E & F & G & K & L). cbv zeta in A, B, C, D, E, F, G, K, L.
             apply (wm_link_client script _ y slot0 cl _ _ _ _ Hnf Hends Hmode Hrun H0 eq_refl Ec);
               [split; [unfold same_core; repeat split; congruence|apply deliver_mutates_lndm]| | | |exact Hinv].
             ++ intros _. cbn [l_upd]. rewrite L. reflexivity.
             ++ intros _ m Hm. cbn [l_mut] in Hm. rewrite F, G in Hm. unfold muts_of.
                apply in_app_or in Hm. apply in_or_app. destruct Hm as [Hm|Hm]; [left; exact (take_in _ _ _ _ m Etk (or_intror Hm))|].
                rewrite <- app_assoc in Hm. apply in_app_or in Hm. destruct Hm as [Hm|Hm]; [right; apply in_or_app; left; exact Hm|].
                apply in_app_or in Hm. destruct Hm as [Hm|Hm]; [left; exact (take_in _ _ _ _ m Etk (or_introl Hm))|right; apply in_or_app; right; exact Hm].
             ++ intros i Hi. exact Hi.
      + destruct (ch =? 0); [|inversion H; subst y' o; exact (wm_noop script _ y _ Hnf Hends (mode_id_noopm _ Hmode script y) Hrun H0 Hinv)].
        destruct (take w (l_ack (get_link y slot0))) as [picked rest] eqn:Etk. inversion H; subst y' o. clear H.
        destruct (deliver_acks_fold_fields slot0 picked (y_server y)) as (X1 & X2 & X3 & X4). cbv zeta in X1, X2, X3, X4.
        intros slot c Hc. cbn [set_server set_link y_clients] in Hc.
        rewrite (regsm_snoc script y _ _ _ slot Hrun H0), (regs_step_nonframe y _ slot Hnf), N.add_0_r, mode_of_snoc, Hmode.
        apply (wslotm_same slot (SNof slot script) _ y _ _ _ c c);
          [intros t r s1; apply snapsm_mono; apply Hends|intros t r s1; exact (snapsm_back slot script y _ t r s1 Hrun Hnf)|exact X2|exact X4|exact X3|apply same_corel_refl| | | |exact (Hinv slot c Hc)].
        * intros _. unfold pend_of. change (get_link (set_server ?a ?b) slot) with (get_link a slot).
          destruct (N.eq_dec slot slot0) as [->|Hne]; [rewrite get_link_set_link_same|rewrite get_link_set_link_other by exact Hne]; reflexivity.
        * intros _ m Hm. unfold muts_of in *. change (get_link (set_server ?a ?b) slot) with (get_link a slot) in Hm.
          destruct (N.eq_dec slot slot0) as [->|Hne]; [rewrite get_link_set_link_same in Hm|rewrite get_link_set_link_other in Hm by exact Hne]; exact Hm.
        * intros i Hi. unfold acks_of in *. cbn [set_server y_server] in Hi. change (get_link (set_server ?a ?b) slot) with (get_link a slot) in Hi.
          apply in_app_or in Hi. destruct Hi as [Hi|Hi].
          -- destruct (deliver_acks_fold_inbox slot0 picked (y_server y) slot i Hi) as [Hi'|[-> Hi']]; [apply in_or_app; left; exact Hi'|].
             apply in_or_app. right. apply (take_concat w _ picked rest i Etk). apply in_or_app. left. exact Hi'.
          -- destruct (N.eq_dec slot slot0) as [->|Hne].
             ++ rewrite get_link_set_link_same in Hi. cbn [l_ack] in Hi. apply in_or_app. right.
                apply (take_concat w _ picked rest i Etk). apply in_or_app. right. exact Hi.
             ++ rewrite get_link_set_link_other in Hi by exact Hne. apply in_or_app. right. exact Hi.
    - (* drop: only the mutation channel *)
      cbn [legal_step] in Hl. destruct s2c; [|discriminate].
      destruct (al_get slot0 (y_clients y)) as [cl|] eqn:Ec;
        [|inversion H; subst y' o; exact (wm_noop script _ y _ Hnf Hends (mode_id_noopm _ Hmode script y) Hrun H0 Hinv)].
      assert (Hch : ch = 1) by lia. subst ch. cbn in H.
      destruct (take w (l_mut (get_link y slot0))) as [picked rest] eqn:Etk. inversion H; subst y' o. clear H.
      apply (wm_link_client script _ y slot0 cl _ _ _ _ Hnf Hends Hmode Hrun H0 eq_refl Ec); [apply same_corel_refl| | | |exact Hinv].
      + intros _. reflexivity.
      + intros _ m Hm. cbn [l_mut] in Hm. unfold muts_of. apply in_app_or in Hm. apply in_or_app.
        destruct Hm as [Hm|Hm]; [left; exact (take_in _ _ _ _ m Etk (or_intror Hm))|right; exact Hm].
      + intros i Hi. exact Hi.
  Qed.

  (* ---------- StStart ---------- *)

  Lemma wm_start script y :
    run init script = Ok y -> w_invm script y -> w_invm (script ++ [StStart]) (set_server y (set_running (y_server y) true)).
  Proof.
    intros Hrun Hinv slot c Hc. cbn [set_server y_clients] in Hc.
    rewrite (regsm_snoc script y StStart _ ONone slot Hrun eq_refl), mode_of_snoc. cbn [regs_step mode_step]. rewrite N.add_0_r.
    apply (wslotm_same slot (SNof slot script) _ y _ _ _ c c);
      [intros t r s1; apply snapsm_mono; reflexivity|intros t r s1; exact (snapsm_back slot script y StStart t r s1 Hrun eq_refl)|reflexivity|reflexivity|reflexivity|apply same_corel_refl| | | |exact (Hinv slot c Hc)].
    - intros _. reflexivity.
    - intros _ m Hm. exact Hm.
    - intros i Hi. exact Hi.
  Qed.

  (* ---------- StAuthorize ---------- *)

  Lemma wm_authorize script y slot0 :
    run init script = Ok y -> y_cfg y = cfg0 -> w_invm script y ->
    w_invm (script ++ [StAuthorize slot0]) (set_server y (authorize_client (y_cfg y) (y_server y) slot0)).
  Proof.
    intros Hrun Hcfg Hinv. set (s := y_server y). set (s' := authorize_client (y_cfg y) s slot0).
    assert (Fe : sv_ents s' = sv_ents s /\ sv_tick s' = sv_tick s /\ sv_inbox_acks s' = sv_inbox_acks s /\ sv_now s' = sv_now s).
    { unfold s', authorize_client. destruct (find_client s slot0) as [c0|]; [|auto]. destruct (sc_authorized c0); cbn; auto. }
    destruct Fe as (Fe1 & Fe2 & Fe3 & Fe4).
    assert (Hrec : forall rec', In rec' (sv_clients s') ->
              In rec' (sv_clients s) \/
              (sc_ticks rec' = ct_default /\ sc_slot rec' = slot0 /\ sc_authorized rec' = true /\
               exists rec, In rec (sv_clients s) /\ sc_slot rec = slot0 /\ sc_authorized rec = false)).
    { intros rec' Hin. unfold s', authorize_client in Hin. destruct (find_client s slot0) as [c0|] eqn:Ef; [|left; exact Hin].
      destruct (sc_authorized c0) eqn:Ea; [left; exact Hin|].
      unfold update_client, set_clients in Hin. cbn [sv_clients] in Hin. apply in_map_iff in Hin. destruct Hin as [c1 [E Hc1]].
      destruct (sc_slot c1 =? sc_slot (authorized_client (y_cfg y) slot0 (sc_max_size c0))) eqn:Eq; subst rec'; [|left; exact Hc1].
      right. cbn. split; [reflexivity|]. split; [reflexivity|]. split; [reflexivity|].
      unfold find_client in Ef. apply find_some in Ef. destruct Ef as [Hin0 Hs0]. exists c0. split; [exact Hin0|]. split; [lia|exact Ea]. }
    intros slot c Hc. cbn [set_server y_clients] in Hc.
    rewrite (regsm_snoc script y (StAuthorize slot0) _ ONone slot Hrun eq_refl), mode_of_snoc. cbn [regs_step mode_step]. rewrite N.add_0_r.
    pose proof (Hinv slot c Hc) as Hv.
    refine (wslotm_mono slot (SNof slot script) _ y _ _ _ _ _ c c _ _ (fun H _ => H) (fun H => H) (N.le_refl _) _ _ _ (same_corel_refl c) _ _ _ Hv).
    - intros t r s1. apply snapsm_mono. reflexivity.
    - intros t r s1. exact (snapsm_back slot script y (StAuthorize slot0) t r s1 Hrun eq_refl).
    - change (sv_tick s <= sv_tick s'). rewrite Fe2. lia.
    - change (sv_now s <= sv_now s'). rewrite Fe4. lia.
    - intros Em Es rec' Hin Hs. change (In rec' (sv_clients s')) in Hin.
      destruct (Hrec rec' Hin) as [Hold|(T1 & T2 & T3 & rec & Hr1 & Hr2 & Hr3)]; [exists rec'; auto|].
      exists rec. split; [exact Hr1|]. split; [congruence|]. split; [|congruence].
      destruct Hv as [_ _ _ _ V4]. assert (Hsl : sc_slot rec = slot) by congruence.
      destruct (V4 Em Es rec Hr1 Hsl) as (_ & _ & V). rewrite T1. symmetry. exact (V Hr3).
    - intros _. reflexivity.
    - intros _ m Hm0. exact Hm0.
    - intros i Hi. unfold acks_of in *. change (In i (acks_for slot (sv_inbox_acks s') ++ concat (l_ack (get_link y slot)))) in Hi. rewrite Fe3 in Hi. exact Hi.
  Qed.

  (* ---------- StConnect ---------- *)

  (* what the structural invariant (with mappings: `g_inv`) knows about a slot *)
  Lemma g_disconnectedm script y gs slot c :
    g_inv cfg0 nclients script y gs -> al_get slot (y_clients y) = Some c ->
    cs_inv c /\
    (mode_of script slot = MClean \/ mode_of script slot = MLeft -> cl_status c = Disconnected) /\
    (mode_of script slot = MLive -> cl_status c = Connected ->
       sv_running (y_server y) = true /\ has_rec (y_server y) slot /\ marked_hist c) /\
    (fresh_mode (mode_of script slot) c ->
       ~ has_rec (y_server y) slot /\ cl_buffered c = [] /\ cl_inbox_upd c = [] /\ cl_inbox_mut c = [] /\
       l_upd (get_link y slot) = [] /\ l_mut (get_link y slot) = []).
  Proof.
    intros Hf Hc. destruct (gi2_slots _ _ _ _ _ Hf slot c Hc) as [O1 _ O4].
    split; [exact O1|]. split; [|split].
    - intros [Em|Em]; rewrite Em in O4; cbn [mode_inv_m] in O4; destruct O4 as (A & _); exact A.
    - intros Em Es. rewrite Em in O4. cbn [mode_inv_m] in O4. destruct O4 as (A & _ & C).
      destruct (C Es) as (Hr & applied & [_ _ _ _ _ Hh _ _] & _). split; [exact Hr|]. split; [apply A; exact Es|].
      intros e cid x Hs Hx Hm. destruct (Hh e cid x Hs Hx Hm) as (h & _ & _ & Eh & _). congruence.
    - intros [Em|[Em Es]]; rewrite Em in O4; cbn [mode_inv_m] in O4.
      + destruct O4 as (_ & (_ & B1 & B2 & B3) & Hn & L1 & L2). auto 8.
      + destruct O4 as (A & B & _). destruct (B Es) as ((_ & B1 & B2 & B3) & L1 & L2).
        split; [intros Hr; apply A in Hr; congruence|auto 8].
  Qed.

  Lemma wm_connect script y gs slot0 max y' o :
    run init script = Ok y -> g_inv cfg0 nclients script y gs -> nb_sys y -> w_invm script y ->
    sess_step_ok script (StConnect slot0 max) = true ->
    sys_step y (StConnect slot0 max) = Ok (y', o) -> w_invm (script ++ [StConnect slot0 max]) y'.
  Proof.
    intros Hrun Hf Hnbs Hinv Hss H. pose proof H as H0. pose proof (gi2_cfg _ _ _ _ _ Hf) as Hcfg.
    cbn [sess_step_ok] in Hss.
    assert (Hends : forall slot, ends_session slot (StConnect slot0 max) = false) by reflexivity.
    (* the step has no effect *)
    assert (Hnoop : y' = y -> w_invm (script ++ [StConnect slot0 max]) y').
    { intros ->. apply (wm_noop script (StConnect slot0 max) y o eq_refl Hends); [|exact Hrun|exact H0|exact Hinv].
      intros slot c Hc. cbn [mode_step]. destruct (slot0 =? slot) eqn:E; [|auto]. assert (slot0 = slot) by lia. subst slot0.
      destruct (g_disconnectedm script y gs slot c Hf Hc) as (_ & D & _).
      destruct (mode_of script slot) eqn:Em; try discriminate Hss; [|auto]. split.
      - intros _ Es. rewrite (D (or_introl eq_refl)) in Es. discriminate.
      - intros _. left. reflexivity. }
    cbn [sys_step] in H. rewrite Hcfg in H.
    destruct (find_client (y_server y) slot0) as [c0|] eqn:Ef; [inversion H; subst y' o; exact (Hnoop eq_refl)|].
    destruct (al_get slot0 (y_clients y)) as [cl|] eqn:Ec; [|inversion H; subst y' o; exact (Hnoop eq_refl)].
    destruct (sv_running (y_server y)) eqn:Er; [|inversion H; subst y' o; exact (Hnoop eq_refl)].
    inversion H; subst y' o. clear H Hnoop. set (s := y_server y) in *. set (s' := connect_client cfg0 s slot0 max).
    assert (F1 : exists cnew, sv_clients s' = sv_clients s ++ [cnew] /\ sc_slot cnew = slot0 /\ sc_ticks cnew = ct_default).
    { unfold s', connect_client. fold s. rewrite Er, Ef. eexists. split; [reflexivity|]. destruct (cfg_auth cfg0); cbn; auto. }
    destruct F1 as (cnew & F1 & F2 & F3).
    assert (Fe : sv_ents s' = sv_ents s /\ sv_tick s' = sv_tick s /\ sv_inbox_acks s' = sv_inbox_acks s /\ sv_now s' = sv_now s).
    { unfold s', connect_client. fold s. rewrite Er, Ef. cbn. auto. }
    destruct Fe as (Fe1 & Fe2 & Fe3 & Fe4).
    assert (Hnorec : forall rec, In rec (sv_clients s) -> sc_slot rec <> slot0).
    { intros rec Hin Hs. unfold find_client in Ef. pose proof (find_none _ _ Ef rec Hin) as Hf0. cbn in Hf0. lia. }
    intros slot c Hc. cbn [set_client set_server y_clients] in Hc.
    rewrite (regsm_snoc script y _ _ _ slot Hrun H0), mode_of_snoc. cbn [regs_step mode_step]. rewrite N.add_0_r.
    destruct (N.eq_dec slot slot0) as [->|Hne].
    - rewrite al_get_insert_same in Hc. inversion Hc; subst c. clear Hc. rewrite N.eqb_refl.
      destruct (g_disconnectedm script y gs slot0 cl Hf Ec) as (O1 & D1 & D2 & D3).
      pose proof (Hinv slot0 cl Ec) as [V0 V1 V2 _ _].
      (* the slot was fresh *)
      assert (Hfresh : fresh_mode (mode_of script slot0) cl).
      { destruct (mode_of script slot0) eqn:Em; try discriminate Hss; [left; reflexivity|right; split; [reflexivity|]].
        destruct (status_dec cl) as [E|E]; [exact E|]. exfalso. destruct (D2 eq_refl E) as (_ & Hr & _). apply has_rec_find in Hr. fold s in Hr. congruence. }
      assert (Es : cl_status cl = Disconnected).
      { destruct Hfresh as [Em|[_ E]]; [exact (D1 (or_introl Em))|exact E]. }
      destruct (D3 Hfresh) as (_ & I6 & I2 & I5 & I3 & I4). destruct (V1 Hfresh) as [A1 A2]. pose proof (V2 Es) as A3.
      rewrite acks_of_nsys in A3.
      assert (Ei : cl_inbox_upd (set_status cl Connected) = []) by (unfold set_status; rewrite Es; exact I2).
      assert (Em : cl_inbox_mut (set_status cl Connected) = []) by (unfold set_status; rewrite Es; exact I5).
      assert (Hp : pend_of (set_client (set_server y s') slot0 (set_status cl Connected)) slot0 (set_status cl Connected) = []).
      { unfold pend_of. rewrite Ei. change (get_link (set_client ?a ?b ?c1) slot0) with (get_link y slot0). rewrite I3. reflexivity. }
      assert (Hmu : muts_of (set_client (set_server y s') slot0 (set_status cl Connected)) slot0 (set_status cl Connected) = []).
      { unfold muts_of. rewrite Em. change (get_link (set_client ?a ?b ?c1) slot0) with (get_link y slot0). rewrite I4. cbn. exact I6. }
      assert (Hak : acks_of (set_client (set_server y s') slot0 (set_status cl Connected)) slot0 = []).
      { unfold acks_of in *. change (acks_for slot0 (sv_inbox_acks s') ++ concat (l_ack (get_link y slot0)) = []). rewrite Fe3. exact A3. }
      constructor.
      + intros _. cbn [set_status cl_s2c cl_upd_tick]. auto.
      + intros _. cbn [set_status cl_s2c cl_upd_tick]. auto.
      + cbn. discriminate.
      + intros _ _. rewrite pend_of_nsys, muts_of_nsys, Hp, Hmu. cbn [map].
        assert (Hcn : cs_inv (ncl (set_status cl Connected))).
        { apply cs_inv_ncl; [apply cs_inv_set_status; exact O1|]. apply (nb_ext cl); [reflexivity|exact (Hnbs slot0 cl Ec)]. }
        apply clir_fresh; [exact Hcn|exact (pu_ncl_cs _ Hcn)|exact A1|exact A2].
      + intros _ _ rec Hin Hs. change (In rec (sv_clients s')) in Hin. rewrite F1 in Hin. apply in_app_or in Hin.
        destruct Hin as [Hin|[<-|[]]]; [exfalso; exact (Hnorec rec Hin Hs)|].
        rewrite pend_of_nsys, muts_of_nsys, acks_of_nsys, Hp, Hmu, Hak. cbn [map]. split; [apply srv_slotr_default; [exact F3|exact A2]|]. split; [rewrite F3; cbn; lia|intros _; exact F3].
    - rewrite al_get_insert_other in Hc by exact Hne. replace (slot0 =? slot) with false by lia.
      refine (wslotm_mono slot (SNof slot script) _ y _ _ _ _ _ c c _ _ (fun H _ => H) (fun H => H) (N.le_refl _) _ _ _ (same_corel_refl c) _ _ _ (Hinv slot c Hc)).
      + intros t r s1. apply snapsm_mono. reflexivity.
      + intros t r s1. exact (snapsm_back slot script y (StConnect slot0 max) t r s1 Hrun eq_refl).
      + change (sv_tick s <= sv_tick s'). rewrite Fe2. lia.
      + change (sv_now s <= sv_now s'). rewrite Fe4. lia.
      + intros _ _ rec Hin Hs. change (In rec (sv_clients s')) in Hin. rewrite F1 in Hin. apply in_app_or in Hin.
        destruct Hin as [Hin|[<-|[]]]; [exists rec; auto|congruence].
      + intros _. unfold pend_of. change (get_link (set_client ?a ?b ?c1) slot) with (get_link y slot). reflexivity.
      + intros _ m Hm0. exact Hm0.
      + intros i Hi. unfold acks_of in *. change (In i (acks_for slot (sv_inbox_acks s') ++ concat (l_ack (get_link y slot)))) in Hi.
        rewrite Fe3 in Hi. exact Hi.
  Qed.

  (* ---------- StDisconnect ---------- *)

  Lemma wm_disconnect script y slot0 y' o :
    run init script = Ok y -> w_invm script y ->
    sys_step y (StDisconnect slot0) = Ok (y', o) -> w_invm (script ++ [StDisconnect slot0]) y'.
  Proof.
    intros Hrun Hinv H. pose proof H as H0. cbn [sys_step] in H.
    destruct (al_get slot0 (y_clients y)) as [cl|] eqn:Ec.
    2:{ inversion H; subst y' o. intros slot c Hc.
        assert (Hne : slot <> slot0) by (intros ->; congruence).
        rewrite (regsm_snoc script y _ _ _ slot Hrun H0), mode_of_snoc. cbn [regs_step mode_step]. rewrite N.add_0_r.
        replace (slot0 =? slot) with false by lia.
        apply (wslotm_same slot (SNof slot script) _ y _ _ _ c c);
          [intros t r s1; apply snapsm_mono; cbn; lia|intros t r s1; exact (snapsm_back slot script y (StDisconnect slot0) t r s1 Hrun eq_refl)|reflexivity|reflexivity|reflexivity|apply same_corel_refl|auto|auto|auto|exact (Hinv slot c Hc)]. }
    inversion H; subst y' o. clear H. set (s := y_server y) in *.
    intros slot c Hc. cbn [clear_link set_link set_client set_server y_clients] in Hc.
    rewrite (regsm_snoc script y _ _ _ slot Hrun H0), mode_of_snoc. cbn [regs_step mode_step]. rewrite N.add_0_r.
    destruct (N.eq_dec slot slot0) as [->|Hne].
    - rewrite al_get_insert_same in Hc. inversion Hc; subst c. clear Hc. rewrite N.eqb_refl.
      pose proof (Hinv slot0 cl Ec) as [V0 V1 V2 _ _].
      constructor.
      + intros Hl. cbn [set_status cl_s2c cl_upd_tick cl_last_not_disconnected] in *. exact (V0 Hl).
      + intros [Em|[Em _]]; [|destruct (mode_of script slot0); discriminate].
        cbn [set_status cl_s2c cl_upd_tick]. apply V1. left. destruct (mode_of script slot0); try discriminate. reflexivity.
      + intros _. rewrite acks_of_nsys. unfold acks_of, clear_link. rewrite get_link_set_link_same. cbn [set_link set_client set_server y_server disconnect_client sv_inbox_acks l_ack concat].
        rewrite acks_for_filter_same. reflexivity.
      + intros Em. destruct (mode_of script slot0); discriminate.
      + intros Em. destruct (mode_of script slot0); discriminate.
    - rewrite al_get_insert_other in Hc by exact Hne. replace (slot0 =? slot) with false by lia.
      refine (wslotm_mono slot (SNof slot script) _ y _ _ _ _ _ c c _ _ (fun H _ => H) (fun H => H) (N.le_refl _) _ _ _ (same_corel_refl c) _ _ _ (Hinv slot c Hc)).
      + intros t r s1. apply snapsm_mono. cbn. lia.
      + intros t r s1. exact (snapsm_back slot script y (StDisconnect slot0) t r s1 Hrun eq_refl).
      + unfold s. cbn [clear_link set_link set_client set_server y_server disconnect_client sv_tick]. lia.
      + unfold s. cbn [clear_link set_link set_client set_server y_server disconnect_client sv_now]. lia.
      + intros _ _ rec Hin Hs. cbn [clear_link set_link set_client set_server y_server disconnect_client sv_clients] in Hin.
        apply filter_In in Hin. exists rec. split; [exact (proj1 Hin)|auto].
      + intros _. unfold pend_of, clear_link. rewrite get_link_set_link_other by exact Hne. reflexivity.
      + intros _ m Hm0. unfold muts_of, clear_link in Hm0. rewrite get_link_set_link_other in Hm0 by exact Hne. exact Hm0.
      + intros i Hi. unfold acks_of, clear_link in *. rewrite get_link_set_link_other in Hi by exact Hne.
        cbn [set_link set_client set_server y_server disconnect_client sv_inbox_acks] in Hi.
        rewrite (acks_for_filter_other slot slot0 _ Hne) in Hi. exact Hi.
  Qed.

  (* ---------- StStop ---------- *)

  Lemma get_link_emptiedm (y : sys) (links : list (N * link)) slot :
    match al_get slot (map (fun kv : N * link => (fst kv, link_empty)) links) with Some l => l | None => link_empty end = link_empty.
  Proof.
    induction links as [|[k l] t IH]; cbn [map al_get fst]; [reflexivity|]. destruct (k =? slot); [reflexivity|exact IH].
  Qed.

  Lemma wm_stop script y y' o :
    run init script = Ok y -> w_invm script y -> sys_step y StStop = Ok (y', o) -> w_invm (script ++ [StStop]) y'.
  Proof.
    intros Hrun Hinv H. pose proof H as H0. cbn [sys_step] in H. inversion H; subst y' o. clear H.
    intros slot c Hc. cbn [y_clients set_server] in Hc.
    rewrite (regsm_snoc script y _ _ _ slot Hrun H0), mode_of_snoc. cbn [regs_step mode_step]. rewrite N.add_0_r.
    pose proof (Hinv slot c Hc) as [V0 V1 V2 _ _].
    constructor.
    - exact V0.
    - intros [Em|[Em _]]; [|destruct (mode_of script slot); discriminate]. apply V1. left. destruct (mode_of script slot); try discriminate; reflexivity.
    - intros _. rewrite acks_of_nsys. unfold acks_of, get_link. cbn [y_links y_server set_server set_running sv_inbox_acks]. rewrite (get_link_emptiedm y). reflexivity.
    - intros Em. destruct (mode_of script slot); discriminate.
    - intros Em. destruct (mode_of script slot); discriminate.
  Qed.


  (* ---------- StCFrame ---------- *)

  Lemma wm_cframe script y gs slot0 ops y' o :
    run init script = Ok y -> g_inv cfg0 nclients script y gs -> srv_histr cfg0 nclients script (y_server y) -> nb_sys y ->
    (forall cl, al_get slot0 (y_clients y) = Some cl -> cframe_ok cl ops) ->
    w_invm script y -> sys_step y (StCFrame slot0 ops) = Ok (y', o) -> w_invm (script ++ [StCFrame slot0 ops]) y'.
  Proof.
    intros Hrun Hf Hh Hnbs Hcok Hinv H. pose proof H as H0.
    assert (Hends : forall slot, ends_session slot (StCFrame slot0 ops) = false) by reflexivity.
    cbn [sys_step] in H. destruct (al_get slot0 (y_clients y)) as [cl|] eqn:Ec.
    2:{ inversion H; subst y' o. apply (wm_noop script (StCFrame slot0 ops) y ONone eq_refl Hends); [|exact Hrun|exact H0|exact Hinv].
        intros slot c Hc. cbn [mode_step]. destruct (slot0 =? slot) eqn:E; [|auto]. assert (slot0 = slot) by lia. subst slot0. congruence. }
    specialize (Hcok cl eq_refl).
    destruct (client_frame cl ops) as [[cl' cfo]| |] eqn:Ef; cbn [bind] in H; try discriminate.
    clear H. destruct (cframe_links y slot0 ops cl cl' cfo y' o Ec Ef H0) as ([pcs G1] & G2 & G3 & G4 & G5 & G6).
    set (l := get_link y slot0) in *.
    assert (Etick : sv_tick (y_server y') = sv_tick (y_server y)) by (rewrite G1; reflexivity).
    assert (Ecls : sv_clients (y_server y') = sv_clients (y_server y)) by (rewrite G1; reflexivity).
    assert (Einb : sv_inbox_acks (y_server y') = sv_inbox_acks (y_server y)) by (rewrite G1; reflexivity).
    assert (Enow : sv_now (y_server y') = sv_now (y_server y)) by (rewrite G1; reflexivity).
    intros slot c Hc. rewrite G2 in Hc.
    rewrite (regsm_snoc script y _ _ _ slot Hrun H0), mode_of_snoc. cbn [regs_step mode_step]. rewrite N.add_0_r.
    assert (Hsn : forall t r s1, SNof slot script t r s1 -> SNof slot (script ++ [StCFrame slot0 ops]) t r s1) by (intros t r s1; apply snapsm_mono; reflexivity).
    assert (Hbk : forall t r s1, SNof slot (script ++ [StCFrame slot0 ops]) t r s1 -> SNof slot script t r s1)
      by (intros t r s1; exact (snapsm_back slot script y (StCFrame slot0 ops) t r s1 Hrun eq_refl)).
    destruct (N.eq_dec slot slot0) as [->|Hne].
    2:{ rewrite al_get_insert_other in Hc by exact Hne. replace (slot0 =? slot) with false by lia.
        apply (wslotm_same slot (SNof slot script) _ y _ _ _ c c Hsn Hbk Etick Enow Ecls (same_corel_refl c)); [| | |exact (Hinv slot c Hc)].
        - intros _. unfold pend_of. rewrite (G3 slot Hne). reflexivity.
        - intros _ m Hm. unfold muts_of in *. rewrite (G3 slot Hne) in Hm. exact Hm.
        - intros i Hi. unfold acks_of in *. rewrite Einb, (G3 slot Hne) in Hi. exact Hi. }
    rewrite al_get_insert_same in Hc. inversion Hc; subst c. clear Hc. rewrite N.eqb_refl.
    pose proof (Hinv slot0 cl Ec) as [V0 V1 V2 V3 V4].
    destruct (g_disconnectedm script y gs slot0 cl Hf Ec) as (_ & D1 & _ & _).
    destruct (status_dec cl) as [Es|Es].
    - (* not connected: the client is reset (or was never used) *)
      destruct (frame_disc_fields cl ops cl' cfo Es V0 Ef) as (E1 & E2 & E3 & E4 & E5).
      constructor.
      + intros _. auto.
      + intros _. auto.
      + intros _. rewrite acks_of_nsys. rewrite acks_of_nsys in V2. unfold acks_of in *. rewrite Einb. destruct G6 as [G6|(G6 & _)]; [rewrite G6; exact (V2 Es)|congruence].
      + intros _ Hcon. cbn [ncl cl_status] in Hcon. congruence.
      + intros _ Hcon. cbn [ncl cl_status] in Hcon. congruence.
    - (* connected *)
      destruct (frame_clears_inbox cl ops cl' cfo Es Ef) as [Ei Est].
      pose proof (frame_lnd cl ops cl' cfo Ef) as Elnd. rewrite Est in Elnd.
      destruct (mode_of script slot0) eqn:Em.
      + exfalso. rewrite (D1 (or_introl eq_refl)) in Es. discriminate.
      + (* live *)
        destruct (snaps_factsr cfg0 nclients slot0 script _ Hh) as (SNinj & SNkeep & SNsmall & SNwf).
        pose proof (V3 eq_refl Es) as Hi. rewrite pend_of_nsys, muts_of_nsys in Hi. unfold pend_of, muts_of in Hi. fold l in Hi. rewrite map_app in Hi.
        destruct (clim_frame slot0 (SNof slot0 script) SNinj SNkeep SNsmall SNwf cl (map strip (l_upd l)) (l_mut l ++ cl_inbox_mut cl ++ cl_buffered cl) ops cl' cfo
                    (Hnbs slot0 cl Ec) Hi (fun m Hm => in_or_app _ _ m (or_intror Hm)) Es (proj1 Hcok Es) (cframe_ok_cops cl ops Es Hcok) Ef)
          as (_ & Hi' & Hcf & _ & Emi & _ & Hbuf & Hacks & Hstr & Htk' & _).
        assert (Hmuts' : forall m, In m (l_mut (get_link y' slot0) ++ cl_inbox_mut cl' ++ cl_buffered cl') -> In m (l_mut l ++ cl_inbox_mut cl ++ cl_buffered cl)).
        { intros m Hm. rewrite G5, Emi in Hm. cbn [app] in Hm. apply in_app_or in Hm. apply in_or_app.
          destruct Hm as [Hm|Hm]; [left; exact Hm|right; exact (Hbuf m Hm)]. }
        constructor.
        * intros Hl. cbn [ncl cl_last_not_disconnected] in Hl. congruence.
        * intros [Hx|[_ Hx]]; [congruence|cbn [ncl cl_status] in Hx; congruence].
        * intros Hd. cbn [ncl cl_status] in Hd. congruence.
        * intros _ _. rewrite pend_of_nsys, muts_of_nsys. unfold pend_of, muts_of. rewrite Ei, G4. cbn [app].
          apply (clir_muts slot0 _ _ _ (l_mut l ++ cl_inbox_mut cl ++ cl_buffered cl)); [exact Hmuts'|].
          apply (clir_srv slot0 (SNof slot0 script)); [exact Hsn|intros t r s0 H1; left; exact (Hbk _ _ _ H1)|intros t r s0 H1; left; exact (Hbk _ _ _ H1)|exact Hi'].
        * intros _ _ rec Hin Hs. change (In rec (sv_clients (y_server y'))) in Hin. rewrite Ecls in Hin.
          destruct (V4 eq_refl Es rec Hin Hs) as (S1 & S2 & S3). split; [|split; [exact S2|exact S3]].
          rewrite pend_of_nsys, muts_of_nsys, acks_of_nsys. rewrite pend_of_nsys, muts_of_nsys, acks_of_nsys in S1.
          unfold pend_of, muts_of, acks_of in *. rewrite Einb, Ei, G4. cbn [app]. fold l in S1. rewrite map_app in S1.
          apply (srv_slotr_sub slot0 _ _ rec (ncl cl') (map strip (l_upd l)) (l_mut l ++ cl_inbox_mut cl ++ cl_buffered cl)
                   ((acks_for slot0 (sv_inbox_acks (y_server y)) ++ concat (l_ack l)) ++ cfo_acks cfo)); [exact Hmuts'| |].
          -- intros i Hi0. destruct G6 as [G6|(_ & G6)]; rewrite G6 in Hi0.
             ++ apply in_or_app. left. exact Hi0.
             ++ rewrite concat_app in Hi0. cbn [concat] in Hi0. rewrite app_nil_r, app_assoc in Hi0. exact Hi0.
          -- apply (srv_slotr_srv slot0 (SNof slot0 script) _ (y_server y)); [exact Hsn|intros e0 a0 t0 r0 s0 _ H1 _; exact (Hbk _ _ _ H1)|change (sv_tick (y_server y) <= sv_tick (y_server y')); rewrite Etick; lia|change (sv_now (y_server y) <= sv_now (y_server y')); rewrite Enow; lia|].
             apply srv_slotr_add_acks.
             ++ intros i Hi0. destruct (Hacks i Hi0) as (m & Hm & Eidx & Hcg). exists m. split; [apply in_or_app; right; exact Hm|]. split; [exact Eidx|exact Hcg].
             ++ apply (srv_slotr_mono slot0 (SNof slot0 script) (y_server y) rec (ncl cl) (map strip (cl_inbox_upd cl) ++ map strip (l_upd l)) _ _ (y_server y) (ncl cl') (map strip (l_upd l)));
                  [reflexivity|reflexivity| |exact Hcf|exact Hstr| |exact S1].
                ** intros u Hu. apply in_or_app. right. exact Hu.
                ** cbn [ncl cl_upd_tick]. rewrite Htk', map_app, !map_tick_strip.
                   generalize (map u_tick (l_upd l)) as l2. generalize (cl_upd_tick cl) as d. generalize (map u_tick (cl_inbox_upd cl)) as l1.
                   clear. intros l1 d l2. destruct l2 as [|b t]; [rewrite app_nil_r; reflexivity|]. rewrite (last_app_ne l1 (b :: t)) by discriminate. apply last_cons_indep.
      + exfalso. rewrite (D1 (or_intror eq_refl)) in Es. discriminate.
      + (* stale: nothing is claimed *)
        constructor.
        * intros Hl. cbn [ncl cl_last_not_disconnected] in Hl. congruence.
        * intros [Hx|[Hx _]]; discriminate.
        * intros Hd. cbn [ncl cl_status] in Hd. congruence.
        * intros Hx. discriminate.
        * intros Hx. discriminate.
  Qed.

  (* ---------- StSFrame ---------- *)

  Lemma t0_posm script s t r s1 : srv_histr cfg0 nclients script s -> no_tick0 script = true ->
    snap cfg0 nclients script t r s1 -> 1 <= t \/ sv_clients s1 = [].
  Proof.
    intros Hh Hn Hs. pose proof (hr_t0 _ _ _ _ Hh) as H0. unfold t0_invv in H0. unfold no_tick0 in Hn.
    destruct (fold_left t0_step script (T0A false false)) as [st cn| |]; [|exact (proj2 H0 t r s1 Hs)|discriminate].
    destruct H0 as (_ & _ & _ & _ & Hno). exfalso. exact (Hno t r s1 Hs).
  Qed.

  Lemma wm_sframe script y gs tick dt (cleanup : bool) ops parts y' o :
    let st := StSFrame tick dt cleanup ops parts in
    run init script = Ok y -> g_inv cfg0 nclients script y gs -> erun_s init [] script = Ok (y, gs) ->
    script_okg script = true -> run_maps_ok init script -> sframe_ok y tick dt cleanup ops parts ->
    srv_histr cfg0 nclients script (y_server y) -> srv_histr cfg0 nclients (script ++ [st]) (y_server y') ->
    no_tick0 (script ++ [st]) = true -> forallb sop_valsr ops = true ->
    (forall slot, regs_of init (script ++ [st]) slot < 2 ^ 16) -> tick_frames (script ++ [st]) < 2 ^ 31 ->
    (forall slot, In slot (client_slots nclients) -> refs_kept cfg0 nclients (script ++ [st]) slot) ->
    w_invm script y -> sys_step y st = Ok (y', o) -> w_invm (script ++ [st]) y'.
  Proof.
    intros st Hrun Hf Eg Hokg Hmk Hsf Hh Hh' Hn0 Hvals Hregs Hb' Hrk Hinv H. unfold st in H. pose proof H as H0.
    pose proof (gi2_cfg _ _ _ _ _ Hf) as Hcfg. pose proof (gi2_ginv _ _ _ _ _ Hf) as Hg.
    assert (Hb : tick_frames script < 2 ^ 31) by (rewrite tick_frames_snoc in Hb'; destruct (is_tick_frame st); lia).
    cbn [sys_step] in H. rewrite Hcfg in H. set (s := y_server y) in *.
    destruct (server_frame cfg0 s tick dt cleanup ops parts) as [[s' fo]| |] eqn:Ef; cbn [bind] in H; try discriminate.
    inversion H; subst y' o. clear H. set (outs := fo_clients fo) in *.
    destruct (enqueue_fields outs (set_server y s')) as (Q1 & Q2 & Q3). cbn [set_server y_server y_clients] in Q2, Q3.
    destruct (server_frame_clients_g cfg0 (mkG s gs) tick dt cleanup ops parts s' fo Hg Ef) as (_ & _ & _ & N5 & _).
    fold outs in N5. unfold sframe_ok in Hsf. rewrite Hcfg in Hsf. specialize (Hsf s' fo Ef).
    destruct (frame_inbox cfg0 s tick dt cleanup ops parts s' fo Ef) as [Hinb Hinb0].
    rewrite Q2 in Hh'.
    intros slot c Hc. rewrite Q3 in Hc.
    rewrite (regsm_snoc script y st _ _ slot Hrun H0), mode_of_snoc. unfold regs_step, st. cbn [mode_step]. rewrite Hcfg. fold s. rewrite Ef. fold outs.
    pose proof (Hinv slot c Hc) as [V0 V1 V2 V3 V4]. rewrite acks_of_nsys in V2.
    assert (Elack : l_ack (get_link (enqueue_outputs (set_server y s') outs) slot) = l_ack (get_link y slot)).
    { rewrite enqueue_lack. reflexivity. }
    assert (Elupd : l_upd (get_link (enqueue_outputs (set_server y s') outs) slot) = l_upd (get_link y slot) ++ sfr_extra slot fo).
    { rewrite enqueue_lupd, (updates_for_upd_for slot outs N5). reflexivity. }
    assert (Elmut : l_mut (get_link (enqueue_outputs (set_server y s') outs) slot) = l_mut (get_link y slot) ++ sfr_newm slot fo).
    { rewrite enqueue_lmut. reflexivity. }
    assert (Hidle : cl_status (ncl c) = Disconnected -> acks_of (nsys (enqueue_outputs (set_server y s') outs)) slot = []).
    { intros Es. pose proof (V2 Es) as A3. unfold acks_of in A3. apply app_eq_nil in A3. destruct A3 as [A3a A3b].
      rewrite acks_of_nsys. unfold acks_of. rewrite Q2, Elack. fold s. rewrite A3b, app_nil_r.
      destruct (acks_for slot (sv_inbox_acks s')) as [|i t] eqn:E; [reflexivity|]. exfalso.
      pose proof (acks_for_sub slot _ _ Hinb i) as Hs. change (y_server y) with s in A3a. rewrite E, A3a in Hs. exact (Hs (or_introl eq_refl)). }
    destruct (g_disconnectedm script y gs slot c Hf Hc) as (Hcsr & _ & D2 & _).
    destruct (mode_of script slot) eqn:Em;
      try (constructor; [exact V0|exact V1|exact Hidle|intros Hx; discriminate|intros Hx; discriminate]).
    destruct (status_dec c) as [Es|Es].
    { constructor; [exact V0|exact V1|exact Hidle|intros _ Hcon; cbn [ncl cl_status] in Hcon; congruence|intros _ Hcon; cbn [ncl cl_status] in Hcon; congruence]. }
    (* live and connected: the server runs and has a record for the slot *)
    destruct (D2 eq_refl Es) as (Hrunning & Hrec & Hmh).
    destruct (server_frame_flags _ _ _ _ _ _ _ _ _ Ef) as (_ & _ & _ & Hfr & _). destruct (Hfr Hrunning) as [Etk' Eran].
    destruct (server_frame_core cfg0 s tick dt cleanup ops parts s' fo Ef) as (s2 & _ & _ & _ & _ & Hcore).
    pose proof (hr_tick _ _ _ _ Hh) as Htk. fold s in Htk.
    assert (Htadd : tick_add (sv_tick s) 1 = sv_tick s + 1).
    { unfold tick_add. apply N.mod_small. rewrite pow32_val. rewrite pow31_val in Hb. lia. }
    assert (Hlast : fo_ran fo = true -> sv_last_run s' = sv_now s).
    { intros Hr. destruct Hcore as [(_ & _ & _ & _ & E & _)|(E & _)]; [exact E|congruence]. }
    assert (Hstep : fo_ran fo = true -> snap_step y st (sv_tick s') (sv_now s) s').
    { intros Hr. eexists _, tick, dt, cleanup, ops, parts, fo, _. split; [reflexivity|]. split; [exact H0|]. split; [exact Hr|].
      split; [exact Q2|]. split; [reflexivity|exact (Hlast Hr)]. }
    assert (Hsn : forall t r s1, SNof slot script t r s1 -> SNof slot (script ++ [st]) t r s1) by (intros t r s1; apply snapsm_mono; reflexivity).
    assert (Hsnapnew : fo_ran fo = true -> SNof slot (script ++ [st]) (sv_tick s') (sv_now s) s').
    { intros Hr. exact (su_last cfg0 nclients _ script y st _ _ _ Hrun (Hstep Hr)). }
    assert (Hbndr : forall t r s1, SNof slot script t r s1 -> r < sv_now s).
    { intros t r s1 Hs1. destruct (hr_r _ _ _ _ Hh t r s1 (su_snap _ _ _ _ _ _ _ Hs1)) as (B1 & _). pose proof (hr_now _ _ _ _ Hh) as B2. fold s in B1, B2. lia. }
    assert (Hbnd : fo_ran fo = true -> forall t r s1, SNof slot script t r s1 -> t < sv_tick s').
    { intros Hr t r s1 Hs1.
      apply (hr_inj _ _ _ _ Hh' t r s1 (sv_tick s') (sv_now s) s' (snaps_esnap _ _ _ _ _ _ _ (Hsn _ _ _ Hs1)) (su_last cfg0 nclients _ script y st _ _ _ Hrun (Hstep Hr))).
      exact (Hbndr _ _ _ Hs1). }
    assert (Hposn : fo_ran fo = true -> sv_clients s' <> [] -> 1 <= sv_tick s').
    { intros Hr Hne. destruct (t0_posm (script ++ [st]) s' _ _ _ Hh' Hn0 (su_snap _ _ _ _ _ _ _ (Hsnapnew Hr))) as [Hp|Hnil]; [exact Hp|contradiction]. }
    assert (Htk3 : sv_tick s <= sv_tick s') by (rewrite Etk', Htadd; destruct tick; lia).
    assert (Hwrap : regs_of init script slot + N.of_nat (length (mutates_for slot (fo_clients fo))) < 2 ^ 16).
    { pose proof (Hregs slot) as Hr. rewrite (regsm_snoc script y st _ _ slot Hrun H0) in Hr. unfold regs_step, st in Hr.
      rewrite Hcfg in Hr. fold s in Hr. rewrite Ef in Hr. exact Hr. }
    assert (Hmax : sv_now s < MAX_CHANGE_AGE).
    { pose proof (now_boundv cfg0 nclients script y Hrun) as Hnb. fold s in Hnb. pose proof max_change_age_far as Hfar. rewrite pow31_val in *. lia. }
    assert (Hsnap' : forall t r s0, SNof slot (script ++ [st]) t r s0 ->
              SNof slot script t r s0 \/ (fo_ran fo = true /\ t = sv_tick s' /\ r = sv_now s /\ s0 = s')).
    { intros t r s0 Hs0. destruct (su_frame_inv cfg0 nclients _ script y tick dt cleanup ops parts _ fo _ t r s0 Hrun H0 Hs0) as [[_ Ho]|(Hran & A & B & C)];
        [left; exact Ho|right].
      rewrite Q2 in A, B, C. subst s0. split; [exact Hran|]. split; [exact B|]. split; [rewrite C; exact (Hlast Hran)|reflexivity]. }
    assert (Hpendok : forall rec, In rec (sv_clients s) -> sc_slot rec = slot -> sc_authorized rec = true ->
              pending_ok_v s rec (fold_left abs_apply (map strip (pend_of y slot c)) (client_struct (ncl c)))).
    { intros rec Hin Hs Hau. destruct (gv_clients _ Hg rec Hin Hau) as [Hp _]. cbn [g_srv g_sent] in Hp. rewrite Hs in Hp.
      apply (pending_ok_v_equiv s rec (sent_of slot gs)); [|exact Hp]. apply struct_equiv_symm.
      rewrite fold_abs_apply_strip. eapply struct_equiv_trans; [|exact (g_in_flight cfg0 nclients script y gs slot c Hokg Hmk Hb Eg Hc Em Es)].
      apply abs_apply_fold_equiv. exact (client_struct_ncl c Hcsr Hmh). }
    assert (Hmic : forall u, upd_for slot (fo_clients fo) = Some u -> maps_in_changes u).
    { intros u Hu. destruct (upd_for_in slot (fo_clients fo) u Hu) as (o1 & Ho1 & _ & Huo). exact (Hsf o1 u Ho1 Huo). }
    assert (Hdf : forall u, upd_for slot (fo_clients fo) = Some u -> forall d, In d (u_despawns u) ->
              forall t r s0, SNof slot script t r s0 -> ~ refd slot s0 d).
    { intros u Hu d Hd. apply (Hrk slot (client_slot_in cfg0 nclients script y slot c Hrun Hc) script st [] y eq_refl Hrun d).
      unfold desp_step, st. rewrite Hcfg. fold s. rewrite Ef, Hu. exact Hd. }
    pose proof (V3 eq_refl Es) as V3'. rewrite pend_of_nsys, muts_of_nsys in V3'.
    assert (V4' : forall rec, In rec (sv_clients s) -> sc_slot rec = slot ->
              srv_slot_invr slot (SNof slot script) s rec (ncl c) (map strip (pend_of y slot c)) (muts_of y slot c)
                (acks_for slot (sv_inbox_acks s) ++ concat (l_ack (get_link y slot))) /\
              ct_mutate_index (sc_ticks rec) <= regs_of init script slot /\ (sc_authorized rec = false -> sc_ticks rec = ct_default)).
    { intros rec Hin Hs. pose proof (V4 eq_refl Es rec Hin Hs) as G. rewrite pend_of_nsys, muts_of_nsys, acks_of_nsys in G. exact G. }
    destruct (sframem_slot slot (SNof slot script) (SNof slot (script ++ [st])) Hsn cfg0 s tick dt cleanup ops parts s' fo
                (gv_srv _ Hg) Hrunning (gv_slots _ Hg) Hvals (hr_ents _ _ _ _ Hh) Ef Htk3
                Hsnapnew Hbnd Hposn Hmax Hsnap' Hbndr (ncl c) (map strip (pend_of y slot c)) (muts_of y slot c) (concat (l_ack (get_link y slot)))
                (regs_of init script slot) V3' V4' Hwrap Hpendok Hdf Hmic) as [Hcli' Hsrv'].
    assert (Epend : pend_of (enqueue_outputs (set_server y s') outs) slot c = pend_of y slot c ++ sfr_extra slot fo).
    { unfold pend_of. rewrite Elupd, app_assoc. reflexivity. }
    assert (Hmsub : forall m, In m (muts_of (enqueue_outputs (set_server y s') outs) slot c) -> In m (muts_of y slot c ++ sfr_newm slot fo)).
    { intros m Hm0. unfold muts_of in *. rewrite Elmut in Hm0. rewrite <- app_assoc in Hm0.
      apply in_app_or in Hm0. apply in_or_app. destruct Hm0 as [Hm0|Hm0]; [left; apply in_or_app; left; exact Hm0|].
      apply in_app_or in Hm0. destruct Hm0 as [Hm0|Hm0]; [right; exact Hm0|left; apply in_or_app; right; exact Hm0]. }
    assert (Eacks : acks_of (enqueue_outputs (set_server y s') outs) slot = concat (l_ack (get_link y slot))).
    { unfold acks_of. rewrite Q2, Elack, (Hinb0 Hrunning). reflexivity. }
    constructor.
    - exact V0.
    - exact V1.
    - intros Hd. cbn [ncl cl_status] in Hd. congruence.
    - intros _ _. rewrite pend_of_nsys, muts_of_nsys, Epend, map_app. apply (clir_muts slot _ _ _ (muts_of y slot c ++ sfr_newm slot fo)); [exact Hmsub|exact Hcli'].
    - intros _ _ rec' Hin Hs. change (In rec' (sv_clients (y_server (enqueue_outputs (set_server y s') outs)))) in Hin. rewrite Q2 in Hin.
      destruct (Hsrv' rec' Hin Hs) as (S1 & S2 & S3). rewrite pend_of_nsys, muts_of_nsys, acks_of_nsys.
      change (y_server (nsys (enqueue_outputs (set_server y s') outs))) with (y_server (enqueue_outputs (set_server y s') outs)).
      rewrite Q2, Epend, Eacks, map_app.
      split; [|split; [exact S2|exact S3]].
      apply (srv_slotr_sub slot _ _ rec' (ncl c) _ (muts_of y slot c ++ sfr_newm slot fo) (concat (l_ack (get_link y slot)))); [exact Hmsub|auto|exact S1].
  Qed.


  (* ---------- every step, every run ---------- *)

  Lemma wm_init : w_invm [] init.
  Proof.
    intros slot c Hc. cbn [sys_init y_clients] in Hc. apply al_get_map_const in Hc. subst c. constructor.
    - intros _. split; reflexivity.
    - intros _. split; reflexivity.
    - intros _. rewrite acks_of_nsys. unfold acks_of, get_link. cbn [sys_init y_server server_init sv_inbox_acks y_links].
      destruct (al_get slot (map (fun i : N => (i, link_empty)) (map N.of_nat (seq 0 (N.to_nat nclients))))) as [l|] eqn:E; [|reflexivity].
      apply al_get_map_const in E. subst l. reflexivity.
    - cbn. discriminate.
    - cbn. discriminate.
  Qed.

  (* the hypotheses on the script: the scope of Properties/C02G.v with `script_okg` + `run_maps_ok` (Properties/C03F.v part
     G3) instead of `script_okf` *)
  Definition script_scopem (script : list step) : Prop :=
    script_okg script = true /\ run_maps_ok init script /\ script_valsr script = true /\ no_tick0 script = true /\
    tick_frames script < 2 ^ 31 /\ (forall slot, regs_of init script slot < 2 ^ 16) /\
    forall slot, In slot (client_slots nclients) -> refs_kept cfg0 nclients script slot.

  Lemma script_okg_app a b : script_okg (a ++ b) = true -> script_okg a = true.
  Proof.
    unfold script_okg, legal. rewrite !forallb_app. intros H. apply andb_prop in H. destruct H as [H1 H3].
    apply andb_prop in H1. rewrite (proj1 H1). cbn [andb].
    revert H3. clear. induction b as [|st t IH] using rev_ind; [rewrite app_nil_r; auto|].
    rewrite app_assoc, sessions_ok_snoc. intros H. apply andb_prop in H. exact (IH (proj1 H)).
  Qed.

  Lemma script_okg_last a st : script_okg (a ++ [st]) = true -> legal_step st = true /\ sess_step_ok a st = true.
  Proof.
    unfold script_okg, legal. rewrite !forallb_app, sessions_ok_snoc. cbn [forallb]. rewrite !andb_true_r. intros H.
    apply andb_prop in H. destruct H as [H1 H3]. apply andb_prop in H1. apply andb_prop in H3. tauto.
  Qed.

  Lemma run_maps_ok_app a : forall b y, run_maps_ok y (a ++ b) -> run_maps_ok y a.
  Proof.
    induction a as [|st t IH]; intros b y H; cbn [app run_maps_ok] in *; [exact I|].
    destruct H as [H1 H2]. split; [exact H1|]. intros y' o E. exact (IH b y' (H2 y' o E)).
  Qed.

  Lemma scopem_prefix a b y : script_scopem (a ++ b) -> run init a = Ok y -> script_scopem a.
  Proof.
    intros (H1 & Hm & H2 & H3 & H4 & H5 & H6) Hr. rewrite script_valsr_app in H2. apply andb_prop in H2.
    split; [exact (script_okg_app a b H1)|]. split; [exact (run_maps_ok_app a b init Hm)|]. split; [tauto|]. split; [exact (no_tick0_prefix a b H3)|].
    split; [pose proof (tick_frames_app_le a b); lia|]. split.
    - intros slot. specialize (H5 slot). rewrite regs_of_app, Hr in H5. lia.
    - intros slot Hin. exact (refs_kept_prefix cfg0 nclients a b slot (H6 slot Hin)).
  Qed.

  Lemma scopem_by_bound script :
    script_okg script = true -> run_maps_okb init script = true -> script_valsr script = true -> no_tick0 script = true ->
    tick_frames script < 2 ^ 31 -> regs_all init script < 2 ^ 16 -> refs_keptb_all cfg0 nclients script = true -> script_scopem script.
  Proof.
    intros H1 Hm H2 H3 H4 H5 H6. split; [exact H1|]. split; [exact (run_maps_okb_sound script init Hm)|]. split; [exact H2|]. split; [exact H3|].
    split; [exact H4|]. split; [|exact (refs_keptb_all_sound cfg0 nclients script H6)].
    intros slot. eapply N.le_lt_trans; [apply regs_of_le_all|exact H5].
  Qed.

  (* without `SMap` operations no update message carries a mapping: the scope of Properties/C02G.v is a special case, provided
     the client operations are harmless ([run_maps_ok] then only says that) *)
  Lemma scoper_scopem script : script_scoper cfg0 nclients script -> run_maps_ok init script -> script_scopem script.
  Proof.
    intros (H1 & H2 & H3 & H4 & H5 & H6) Hm. split; [|split; [exact Hm|split; [exact H2|split; [exact H3|split; [exact H4|split; [exact H5|exact H6]]]]]].
    unfold script_okf in H1. unfold script_okg. apply andb_prop in H1. destruct H1 as [H1 Hs]. apply andb_prop in H1. rewrite (proj1 H1), Hs. reflexivity.
  Qed.

  Theorem wm_run script : forall y, script_scopem script -> run init script = Ok y -> w_invm script y.
  Proof.
    induction script as [|st t IH] using rev_ind; intros y Hsc H.
    - cbn in H. inversion H; subst. exact wm_init.
    - rewrite run_app in H. destruct (run init t) as [y1| |] eqn:E1; cbn [bind] in H; try discriminate.
      cbn [run] in H. destruct (sys_step y1 st) as [[y2 o]| |] eqn:E2; cbn [bind] in H; try discriminate. inversion H; subst y. clear H.
      pose proof (scopem_prefix t [st] y1 Hsc E1) as Hsc1. pose proof (IH y1 Hsc1 eq_refl) as Hinv1.
      destruct Hsc as (K1 & Km & K2 & K3 & K4 & K5 & K6). destruct Hsc1 as (J1 & Jm & J2 & J3 & J4 & J5 & J6).
      assert (Hrun2 : run init (t ++ [st]) = Ok y2) by (rewrite run_app, E1; cbn [bind run]; rewrite E2; reflexivity).
      destruct (run_erun_s t init [] y1 E1) as [gs1 Eg1].
      pose proof (g_run cfg0 nclients t y1 gs1 J1 Jm J4 Eg1) as Hf1.
      pose proof (histr_run cfg0 nclients t y1 J2 J4 E1) as Hh1.
      pose proof (histr_run cfg0 nclients (t ++ [st]) y2 K2 K4 Hrun2) as Hh2.
      pose proof (nb_run t init y1 (nb_init cfg0 nclients) E1) as Hnb1.
      destruct (script_okg_last t st K1) as (HL & HSS).
      pose proof (proj2 (proj1 (run_maps_ok_snoc t init st) Km) y1 E1) as Hstep.
      assert (Hv : step_valsr st = true).
      { rewrite script_valsr_app in K2. apply andb_prop in K2. destruct K2 as [_ K2]. unfold script_valsr in K2. cbn [forallb] in K2. rewrite andb_true_r in K2. exact K2. }
      destruct st as [| |slot max|slot|slot|tick dt cleanup ops parts|slot ops|slot s2c ch w|slot s2c ch w].
      + cbn [sys_step] in E2. inversion E2; subst y2 o. exact (wm_start t y1 E1 Hinv1).
      + exact (wm_stop t y1 y2 o E1 Hinv1 E2).
      + exact (wm_connect t y1 gs1 slot max y2 o E1 Hf1 Hnb1 Hinv1 HSS E2).
      + cbn [sys_step] in E2. inversion E2; subst y2 o. exact (wm_authorize t y1 slot E1 (gi2_cfg _ _ _ _ _ Hf1) Hinv1).
      + exact (wm_disconnect t y1 slot y2 o E1 Hinv1 E2).
      + exact (wm_sframe t y1 gs1 tick dt cleanup ops parts y2 o E1 Hf1 Eg1 J1 Jm Hstep Hh1 Hh2 K3 Hv K5 K4 K6 Hinv1 E2).
      + exact (wm_cframe t y1 gs1 slot ops y2 o E1 Hf1 Hh1 Hnb1 Hstep Hinv1 E2).
      + exact (wm_transport t (StDeliver slot s2c ch w) y1 y2 o eq_refl HL E1 Hinv1 E2).
      + exact (wm_transport t (StDrop slot s2c ch w) y1 y2 o eq_refl HL E1 Hinv1 E2).
  Qed.

  (* what the run invariant says about a live, connected slot: the invariants of Repl/ValRefSpec.v for the normal form of the
     client and the stripped update messages on their way *)
  Lemma wm_live script y slot c :
    script_scopem script -> run init script = Ok y ->
    al_get slot (y_clients y) = Some c -> mode_of script slot = MLive -> cl_status c = Connected ->
    nb c /\ cs_inv c /\ marked_hist c /\
    cli_invr slot (SNof slot script) (ncl c) (map strip (pend_of y slot c)) (muts_of y slot c) /\
    forall cl, In cl (sv_clients (y_server y)) -> sc_slot cl = slot ->
      srv_slot_invr slot (SNof slot script) (y_server y) cl (ncl c) (map strip (pend_of y slot c)) (muts_of y slot c) (acks_of y slot) /\
      ct_mutate_index (sc_ticks cl) <= regs_of init script slot /\ (sc_authorized cl = false -> sc_ticks cl = ct_default).
  Proof.
    intros Hsc Hrun Hc Hm Hst. pose proof Hsc as (K1 & Km & K2 & K3 & K4 & K5 & K6).
    pose proof (wm_run script y Hsc Hrun slot c Hc) as [_ _ _ V3 V4].
    destruct (run_erun_s script init [] y Hrun) as [gs Eg].
    pose proof (g_run cfg0 nclients script y gs K1 Km K4 Eg) as Hf.
    destruct (g_disconnectedm script y gs slot c Hf Hc) as (Hcs & _ & D2 & _). destruct (D2 Hm Hst) as (_ & _ & Hmh).
    split; [exact (nb_run script init y (nb_init cfg0 nclients) Hrun slot c Hc)|]. split; [exact Hcs|]. split; [exact Hmh|].
    split.
    - pose proof (V3 Hm Hst) as G. rewrite pend_of_nsys, muts_of_nsys in G. exact G.
    - intros cl Hin Hs. pose proof (V4 Hm Hst cl Hin Hs) as G. rewrite pend_of_nsys, muts_of_nsys, acks_of_nsys in G. exact G.
  Qed.

  (* ================================================================ *)
  (* T: the confirmed tick of an entity is truthful (values)          *)
  (* ================================================================ *)

  Theorem e2em_truthful script y slot c e cid x h :
    script_scopem script -> run init script = Ok y ->
    al_get slot (y_clients y) = Some c -> mode_of script slot = MLive -> cl_status c = Connected ->
    al_get e (cl_s2c c) = Some cid -> get_cent c cid = Some x -> ce_alive x = true -> ce_marker x = true -> ce_hist x = Some h ->
    exists pre post y1 cl1 x1, script = pre ++ post /\ run init pre = Ok y1 /\
      forallb (fun st => negb (ends_session slot st)) post = true /\
      sv_tick (y_server y1) = h_last h /\
      find_client (y_server y1) slot = Some cl1 /\ vis_visible (sc_vis cl1) e = true /\
      al_get e (struct_vis (y_server y1) cl1) = Some (map fst (se_comps x1)) /\
      repl_get (y_server y1) e = Some x1 /\ agreer c (ce_comps x) (se_comps x1) /\
      kinds_equiv (map fst (ce_comps x)) (map fst (se_comps x1)).
  Proof.
    intros Hsc Hrun Hc Hm Hst He Hx Ha Hmk Hh. pose proof Hsc as (K1 & Km & K2 & K3 & K4 & K5 & K6).
    destruct (wm_live script y slot c Hsc Hrun Hc Hm Hst) as (_ & _ & _ & V3 & _).
    assert (Hhas : has c e x h) by (split; [unfold centof; rewrite He; exact Hx|auto]).
    destruct (cr_T _ _ _ _ _ V3 e (nent x) h (has_ncl c e x h Hhas)) as (r & s1 & x1 & Hsn & Hx1 & Hag & Hk).
    pose proof (histr_run cfg0 nclients script y K2 K4 Hrun) as Hh0.
    destruct (snaps_factsr cfg0 nclients slot script _ Hh0) as (_ & _ & _ & SNwf).
    pose proof (vstruct_get slot s1 e (SNwf _ _ _ Hsn)) as Hvs. rewrite Hx1 in Hvs. cbn [option_map] in Hvs.
    destruct (snaps_reached cfg0 nclients slot script _ _ _ Hsn) as (pre & post & y1 & E & R & Es & Et & _ & Hp).
    subst s1. unfold vrepl in Hx1. unfold vstruct in Hvs. destruct (find_client (y_server y1) slot) as [cl1|] eqn:Ef; [|discriminate].
    destruct (vis_visible (sc_vis cl1) e) eqn:Ev; [|discriminate].
    exists pre, post, y1, cl1, x1. split; [exact E|]. split; [exact R|]. split; [exact Hp|]. split; [exact Et|]. split; [exact Ef|].
    split; [exact Ev|]. split; [exact Hvs|]. split; [exact Hx1|]. split; [exact Hag|exact Hk].
  Qed.

  Corollary e2em_truthful_exact script y slot c e cid x h :
    script_scopem script -> run init script = Ok y ->
    al_get slot (y_clients y) = Some c -> mode_of script slot = MLive -> cl_status c = Connected ->
    al_get e (cl_s2c c) = Some cid -> get_cent c cid = Some x -> ce_alive x = true -> ce_marker x = true -> ce_hist x = Some h ->
    exists pre post y1, script = pre ++ post /\ run init pre = Ok y1 /\
      forallb (fun st => negb (ends_session slot st)) post = true /\ sv_tick (y_server y1) = h_last h /\
      vrepl slot (y_server y1) e <> None /\
      forall k, opt_vrel c (sviewv slot (y_server y1) e k) (al_get k (ce_comps x)).
  Proof.
    intros Hsc Hrun Hc Hm Hst He Hx Ha Hmk Hh.
    destruct (e2em_truthful script y slot c e cid x h Hsc Hrun Hc Hm Hst He Hx Ha Hmk Hh) as (pre & post & y1 & cl1 & x1 & E & R & Hp & Et & Ef & Ev & _ & Hr & Hag & Hk).
    exists pre, post, y1. split; [exact E|]. split; [exact R|]. split; [exact Hp|]. split; [exact Et|].
    assert (Hv : vrepl slot (y_server y1) e = Some x1) by (unfold vrepl; rewrite Ef, Ev; exact Hr).
    split; [rewrite Hv; discriminate|]. intros k. unfold sviewv. rewrite Hv.
    specialize (Hk k). rewrite !mem_keys_get in Hk.
    destruct (al_get k (ce_comps x)) as [cv|] eqn:Ec; destruct (al_get k (se_comps x1)) as [cc|] eqn:Es; cbn [option_map opt_vrel]; try discriminate; [|exact I].
    exact (Hag k cv cc Ec Es).
  Qed.

  Corollary e2em_truthful_ref script y slot c e cid x h :
    script_scopem script -> run init script = Ok y ->
    al_get slot (y_clients y) = Some c -> mode_of script slot = MLive -> cl_status c = Connected ->
    al_get e (cl_s2c c) = Some cid -> get_cent c cid = Some x -> ce_alive x = true -> ce_marker x = true -> ce_hist x = Some h ->
    exists pre post y1, script = pre ++ post /\ run init pre = Ok y1 /\
      forallb (fun st => negb (ends_session slot st)) post = true /\ sv_tick (y_server y1) = h_last h /\
      (forall k rcid, al_get k (ce_comps x) = Some (CRef rcid) ->
         exists t xt, sviewv slot (y_server y1) e k = Some (VRef t) /\ al_get rcid (cl_c2s c) = Some t /\
                      al_get t (cl_s2c c) = Some rcid /\ get_cent c rcid = Some xt /\ ce_alive xt = true) /\
      (forall k t, sviewv slot (y_server y1) e k = Some (VRef t) ->
         exists rcid, al_get k (ce_comps x) = Some (CRef rcid) /\ al_get rcid (cl_c2s c) = Some t).
  Proof.
    intros Hsc Hrun Hc Hm Hst He Hx Ha Hmk Hh.
    destruct (e2em_truthful_exact script y slot c e cid x h Hsc Hrun Hc Hm Hst He Hx Ha Hmk Hh) as (pre & post & y1 & E & R & Hp & Et & _ & Hv).
    destruct (wm_live script y slot c Hsc Hrun Hc Hm Hst) as (_ & Hcs & _).
    exists pre, post, y1. split; [exact E|]. split; [exact R|]. split; [exact Hp|]. split; [exact Et|]. split.
    - intros k rcid Hk. specialize (Hv k). rewrite Hk in Hv. unfold opt_vrel in Hv.
      destruct (sviewv slot (y_server y1) e k) as [[n|t]|]; cbn [vrel] in Hv; try contradiction.
      pose proof (proj2 (s2c_c2s c t rcid (ci_emap c Hcs)) Hv) as Hs. destruct (ci_mapped c Hcs t rcid Hs) as [xt [Hxt Hat]].
      exists t, xt. auto 6.
    - intros k t Hk. specialize (Hv k). rewrite Hk in Hv. unfold opt_vrel in Hv.
      destruct (al_get k (ce_comps x)) as [[n|rcid]|]; cbn [vrel] in Hv; try contradiction. exists rcid. auto.
  Qed.

  (* ================================================================ *)
  (* K: an acknowledged stamp is backed by the client                 *)
  (* ================================================================ *)

  Theorem e2em_ack_sound script y slot c cl e a :
    script_scopem script -> run init script = Ok y ->
    al_get slot (y_clients y) = Some c -> mode_of script slot = MLive -> cl_status c = Connected ->
    In cl (sv_clients (y_server y)) -> sc_slot cl = slot -> mutation_tick (sc_ticks cl) e = Some a ->
    exists pre post y1, script = pre ++ post /\ run init pre = Ok y1 /\
      forallb (fun st => negb (ends_session slot st)) post = true /\ sv_last_run (y_server y1) = a /\
      ((exists u, In u (cl_inbox_upd c ++ l_upd (get_link y slot)) /\ mentions u e /\ sv_tick (y_server y1) <= u_tick u) \/
       (exists x h, has c e x h /\ sv_tick (y_server y1) <= h_last h)).
  Proof.
    intros Hsc Hrun Hc Hm Hst Hin Hs Hmt. pose proof Hsc as (K1 & Km & K2 & K3 & K4 & K5 & K6).
    destruct (wm_live script y slot c Hsc Hrun Hc Hm Hst) as (_ & Hcsr & Hmh & V3 & V4). destruct (V4 cl Hin Hs) as (S1 & _ & S3).
    destruct (sr_K _ _ _ _ _ _ _ _ S1 e a Hmt) as (t_a & s_a & Hsn & Hcg).
    destruct (snaps_reached cfg0 nclients slot script _ _ _ Hsn) as (pre & post & y1 & E & R & Es & Et & Er & Hp).
    exists pre, post, y1. subst s_a. split; [exact E|]. split; [exact R|]. split; [exact Hp|]. split; [exact Er|]. rewrite Et.
    assert (Hback : forall u, In u (map strip (pend_of y slot c)) -> mentions u e -> t_a <= u_tick u ->
              exists u0, In u0 (cl_inbox_upd c ++ l_upd (get_link y slot)) /\ mentions u0 e /\ t_a <= u_tick u0).
    { intros u Hu Hmn Hle. destruct (in_map_strip u _ Hu) as (u0 & Hu0 & ->). exists u0. split; [exact Hu0|]. split; [exact Hmn|exact Hle]. }
    destruct Hcg as [(u & Hu & _ & Hmn & Hle)|[(xv & hv & Hhv & Hle)|(Hnone & Hno)]].
    - left. exact (Hback u Hu Hmn Hle).
    - right. destruct (has_ncl_inv c e xv hv Hhv) as (x & _ & Hhx). exists x, hv. auto.
    - (* unknown to the client: then an update message on its way mentions it *)
      left. destruct (run_erun_s script init [] y Hrun) as [gs Eg].
      pose proof (g_run cfg0 nclients script y gs K1 Km K4 Eg) as Hf. pose proof (gi2_ginv _ _ _ _ _ Hf) as Hg.
      assert (Hau : sc_authorized cl = true).
      { destruct (sc_authorized cl) eqn:Ea; [reflexivity|]. rewrite (S3 eq_refl) in Hmt. discriminate. }
      destruct (gv_clients _ Hg cl Hin Hau) as [Hpv _]. cbn [g_srv g_sent] in Hpv. rewrite Hs in Hpv.
      assert (Hfl : struct_equiv (fold_left abs_apply (map strip (pend_of y slot c)) (client_struct (ncl c))) (sent_of slot gs)).
      { rewrite fold_abs_apply_strip. eapply struct_equiv_trans; [|exact (g_in_flight cfg0 nclients script y gs slot c K1 Km K4 Eg Hc Hm Hst)].
        apply abs_apply_fold_equiv. exact (client_struct_ncl c Hcsr Hmh). }
      pose proof (cr_cs _ _ _ _ _ V3) as Hcs.
      assert (Hcs0 : al_get e (client_struct (ncl c)) = None).
      { rewrite (al_get_client_struct (ncl c) e (cs_inv_nodup _ Hcs)). unfold cs_get.
        destruct (al_get e (cl_s2c (ncl c))) as [cid0|] eqn:Es2; [|reflexivity].
        destruct (cr_mo _ _ _ _ _ V3 e cid0 Es2) as [(x0 & h0 & Hh0)|(x0 & Hx0 & Hm0)]; [exfalso; exact (Hnone _ _ Hh0)|].
        unfold centof in Hx0. rewrite Es2 in Hx0. rewrite Hx0, Hm0, andb_false_r. reflexivity. }
      assert (Hk : al_get e (sent_of slot gs) <> None) by (apply (pk_known _ _ _ (pv_pending _ _ _ Hpv) e); rewrite Hmt; discriminate).
      assert (Hfn : al_get e (fold_left abs_apply (map strip (pend_of y slot c)) (client_struct (ncl c))) <> None).
      { intros Hn0. pose proof (Hfl e) as Hfe. rewrite Hn0 in Hfe. destruct (al_get e (sent_of slot gs)); [destruct Hfe|congruence]. }
      destruct (fold_apply_somer _ _ e Hcs0 Hfn) as (u & Hu & Hmn). exact (Hback u Hu Hmn (Hno u Hu Hmn)).
  Qed.

  (* ================================================================ *)
  (* Q: convergence                                                   *)
  (* ================================================================ *)

  Theorem e2em_converged script y slot c cl :
    script_scopem script -> run init script = Ok y ->
    al_get slot (y_clients y) = Some c -> mode_of script slot = MLive -> cl_status c = Connected ->
    In cl (sv_clients (y_server y)) -> sc_slot cl = slot -> sc_authorized cl = true ->
    (* no update message on its way *)
    l_upd (get_link y slot) = [] -> cl_inbox_upd c = [] ->
    (* the server has nothing pending for the client *)
    quiescent_for (y_server y) cl -> sv_removed_events (y_server y) = [] ->
    struct_equiv (client_struct c) (struct_vis (y_server y) cl) /\
    forall e k, view_agrees c slot (y_server y) e k.
  Proof.
    intros Hsc Hrun Hc Hm Hst Hin Hs Hau Hl Hi (Hpm & Hdb & Hrb & Hvs & Hq) Hev.
    pose proof Hsc as (K1 & Km & K2 & K3 & K4 & K5 & K6). set (s := y_server y) in *.
    destruct (run_erun_s script init [] y Hrun) as [gs Eg].
    pose proof (g_run cfg0 nclients script y gs K1 Km K4 Eg) as Hf. pose proof (gi2_ginv _ _ _ _ _ Hf) as Hg.
    pose proof (histr_run cfg0 nclients script y K2 K4 Hrun) as Hh. fold s in Hh.
    destruct (wm_live script y slot c Hsc Hrun Hc Hm Hst) as (Hnb & Hcsr & Hmh & V3 & V4). destruct (V4 cl Hin Hs) as (S1 & _).
    unfold pend_of in V3, S1. rewrite Hl, Hi in V3, S1. cbn [app map] in V3, S1.
    pose proof (hr_wf _ _ _ _ Hh) as Hwf.
    assert (Hfind : find_client s slot = Some cl) by (rewrite <- Hs; apply find_client_of_in; [exact (gv_slots _ Hg)|exact Hin]).
    (* structure *)
    assert (Hstruct : struct_equiv (client_struct c) (struct_vis s cl)).
    { apply (struct_equiv_trans _ (sent_of slot gs)).
      - exact (g_synced cfg0 nclients script y gs slot c K1 Km K4 Eg Hc Hm Hst Hi Hl).
      - destruct (gv_clients _ Hg cl Hin Hau) as [Hp _]. cbn [g_srv g_sent] in Hp. rewrite Hs in Hp.
        exact (quiescent_synced_r s cl _ Hwf Hp Hdb Hrb Hev Hvs Hq). }
    split; [exact Hstruct|].
    (* the values: on the normal form of the client *)
    assert (Hstructv : struct_equiv (client_struct (ncl c)) (struct_vis s cl)).
    { eapply struct_equiv_trans; [exact (client_struct_ncl c Hcsr Hmh)|exact Hstruct]. }
    cut (forall e k, view_agrees (ncl c) slot s e k).
    { intros G e k. specialize (G e k). unfold view_agrees in *. rewrite (cview_ncl c e k Hnb) in G. exact G. }
    clear Hstruct. rename Hstructv into Hstruct. set (cn := ncl c) in *.
    pose proof (cr_cs _ _ _ _ _ V3) as Hcs. pose proof (cr_mo _ _ _ _ _ V3) as Hmo.
    destruct (snaps_factsr cfg0 nclients slot script s Hh) as (SNinj & SNkeep & SNsmall & SNwf).
    intros e k. unfold view_agrees, cview, sviewv, vrepl. rewrite Hfind.
    pose proof (Hstruct e) as He. rewrite (al_get_client_struct cn e (cs_inv_nodup cn Hcs)) in He.
    unfold struct_vis in He. rewrite al_get_vis_filter, (al_get_struct_of s e Hwf) in He.
    unfold cs_get in He. unfold centof.
    destruct (vis_visible (sc_vis cl) e) eqn:Evis.
    2:{ destruct (al_get e (cl_s2c cn)) as [cid|]; [|exact I]. destruct (get_cent cn cid) as [xc|]; [|exact I].
        destruct (ce_alive xc && ce_marker xc); [destruct He|exact I]. }
    destruct (repl_get s e) as [x|] eqn:Er; cbn [option_map] in He |- *.
    2:{ destruct (al_get e (cl_s2c cn)) as [cid|]; [|exact I]. destruct (get_cent cn cid) as [xc|]; [|exact I].
        destruct (ce_alive xc && ce_marker xc); [destruct He|exact I]. }
    destruct (al_get e (cl_s2c cn)) as [cid|] eqn:Ee; [|destruct He]. destruct (get_cent cn cid) as [xc|] eqn:Ex; [|destruct He].
    destruct (ce_alive xc && ce_marker xc) eqn:Eam; [|destruct He].
    (* the acknowledged stamp of the entity covers all its components *)
    destruct (proj1 (repl_get_spec s e x Hwf) Er) as [madd Hr].
    assert (Hset : ent_settled (sv_last_run s) (sc_ticks cl) e x madd).
    { destruct (Hq e x madd Hr) as [Hh0|[_ Hh0]]; [|exact Hh0]. exfalso. apply vis_visible_state in Evis. contradiction. }
    destruct Hset as (t0 & Hmt & _ & Hall).
    destruct (sr_K _ _ _ _ _ _ _ _ S1 e t0 Hmt) as (t_a & s_a & Hsa & Hcg).
    destruct (Hmo e cid Ee) as [(xc' & h & Hhas)|(xc' & Hxc' & Hmk')].
    2:{ exfalso. unfold centof in Hxc'. rewrite Ee, Ex in Hxc'. inversion Hxc'; subst xc'. rewrite Hmk', andb_false_r in Eam. discriminate. }
    assert (xc' = xc) by (destruct Hhas as [Hc0 _]; unfold centof in Hc0; rewrite Ee in Hc0; congruence). subst xc'.
    assert (Hconf : t_a <= h_last h).
    { destruct Hcg as [(u & [] & _)|[(x1 & h1 & Hh1 & Hle)|(Hn0 & _)]].
      - destruct (has_fun cn e xc h x1 h1 Hhas Hh1) as [-> ->]. exact Hle.
      - exfalso. exact (Hn0 _ _ Hhas). }
    destruct (cr_T _ _ _ _ _ V3 e xc h Hhas) as (r0 & s0 & x0 & Hs0 & Hx0r & Hag & _). pose proof (vrepl_ent slot s0 e x0 Hx0r) as Hx0.
    assert (Hr0 : t0 <= r0) by (eapply (SN_le (SNof slot script)); eassumption).
    pose proof (hr_keep _ _ _ _ Hh _ _ _ (su_snap _ _ _ _ _ _ _ Hs0)) as Hkeep.
    assert (Hxg : get_ent s e = Some x) by exact (repl_get_ent s e x Er).
    destruct (al_get k (se_comps x)) as [cc|] eqn:Ek; cbn [option_map].
    - assert (Hkin : In (k, cc) (se_comps x)) by exact (Server_proofs.al_get_In _ _ _ Ek).
      destruct (Hkeep e x k cc Hxg Ek) as [x0' [Hx0' Hk0]]; [destruct (Hall k cc Hkin); lia|]. assert (x0' = x0) by congruence. subst x0'.
      assert (Hmem : mem_N k (map fst (ce_comps xc)) = true).
      { rewrite (He k). apply mem_N_In. apply in_map_iff. exists (k, cc). auto. }
      apply mem_N_In in Hmem. apply al_get_keys_iff in Hmem. destruct (al_get k (ce_comps xc)) as [cv|] eqn:Ecv; [|congruence].
      exact (Hag k cv cc Ecv Hk0).
    - destruct (al_get k (ce_comps xc)) as [cv|] eqn:Ecv; [|exact I]. exfalso.
      assert (Hmem : mem_N k (map fst (ce_comps xc)) = true) by (apply mem_N_In; apply al_get_keys_iff; rewrite Ecv; discriminate).
      rewrite (He k) in Hmem. apply mem_N_In in Hmem. apply al_get_keys_iff in Hmem. congruence.
  Qed.

End E2EM.
