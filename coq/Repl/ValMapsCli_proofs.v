(* C02H, client half: the invariant of a connected client ([cli_invr], Repl/ValRefSpec.v), kept for the NORMAL FORM [ncl c] of
   the client and the stripped update messages, when the client applies update messages that carry pre-spawn mappings.
     1. the mappings of a harmless message ([maps_ok] at [maps_pre]) are, on the normal form, the reservation of placeholders;
     2. the view of the composite step "despawn records, placeholders, removals, changes" is the view of an update message
        without mappings (`update_view_r`): it speaks about `centof`, never about client entity ids;
     3. the client half of Repl/ValRefCli_proofs.v (section Update, `clir_update`, `srv_slotr_update`) from that view;
     4. one real update message, 5. the inbox and a whole client frame. *)
From RV Require Import Lib.Res Repl.ClientTicks Repl.ClientTicks_proofs Repl.World Vis.Visibility
  Tick.RepliconTick Tick.RepliconTick_proofs Tick.ConfirmHistory Tick.MutateTicks
  Repl.Server Repl.ServerSpec Repl.Server_proofs Repl.StructSpec Repl.Struct_proofs
  Repl.StructVisSpec Repl.StructVis_proofs
  Repl.Client Repl.Sys Repl.Client_proofs Repl.ClientEnt_proofs Repl.ClientMut_proofs Repl.ClientSys_proofs
  Repl.ClientStructSpec Repl.ClientStruct_proofs Repl.ClientHist_proofs Repl.ClientMaps_proofs Repl.ClientHistMaps_proofs
  Repl.StructE2E_proofs Repl.StructE2EMut_proofs
  Repl.ValSpec Repl.ValClient_proofs Repl.ValCli_proofs Repl.ValVisSpec Repl.ValVisCli_proofs Repl.ValRefSpec Repl.ValRefClient_proofs
  Repl.ValRefCli_proofs Repl.ValMapsSpec Repl.ValMapsNorm_proofs.
From Coq Require Import ZifyBool ZifyN.
Open Scope N_scope.
Ltac Zify.zify_post_hook ::= Z.div_mod_to_equations.
Arguments N.add : simpl never. Arguments N.mul : simpl never. Arguments N.pow : simpl never.
Arguments N.ltb : simpl never. Arguments N.leb : simpl never. Arguments N.div : simpl never.
Arguments N.modulo : simpl never. Arguments N.sub : simpl never. Arguments N.eqb : simpl never.

(* ================================================================== *)
(* 1. the mappings of a message, on the normal form                   *)
(* ================================================================== *)

Lemma nmap_step c e pc : cs_inv c -> nb c -> mapped_okr (ncl c) -> map_step_ok c e pc ->
  let c1 := apply_entity_mapping c e pc in
  cs_inv c1 /\ nb c1 /\ mapped_okr (ncl c1) /\ s2c_grows (ncl c) (ncl c1) /\ (forall e', others_ok (ncl c) (ncl c1) e') /\
  (forall e', cs_get (ncl c1) e' = cs_get (ncl c) e').
Proof.
  intros Hcs Hnb Hmo Hok c1. destruct (map_step c e pc Hcs Hok) as (I1 & _). cbv zeta in I1. fold c1 in I1.
  pose proof (nb_mapping c e pc Hnb) as Hnb1. fold c1 in Hnb1.
  destruct Hok as [Hun Htgt].
  destruct (mapping_cases c e pc) as [[E _]|(cid & x & Hin & Hp & Ha & Hf & E)].
  { unfold c1. rewrite E. split; [exact Hcs|]. split; [exact Hnb|]. split; [exact Hmo|]. split; [apply s2c_grows_refl|].
    split; [intros e'; apply others_ok_refl|reflexivity]. }
  destruct (Htgt cid x Hf Ha) as [Hm Hc2s]. pose proof Hcs as [H1 H2 H3 H4].
  pose proof (al_get_in_nodup _ _ _ (proj1 H2) Hin) as Hx. change (get_cent c cid = Some x) in Hx.
  destruct (H4 cid x Hx Hm) as [Hcomps Hhist].
  pose proof (proj1 (unmapped_iff c cid H1) Hc2s) as Hno.
  fold c1 in E.
  assert (Hs2c : cl_s2c c1 = al_insert e cid (cl_s2c c)) by (rewrite E; reflexivity).
  assert (Hget : forall cid', cid' <> cid -> get_cent c1 cid' = get_cent c cid').
  { intros cid' Hne. rewrite E. unfold emap_insert. rewrite get_cent_set_maps. apply get_cent_set_cent_other. exact Hne. }
  assert (Hgetc : get_cent (ncl c1) cid = Some placeholder).
  { rewrite get_cent_ncl, E. unfold emap_insert. rewrite get_cent_set_maps, get_cent_set_cent_same. cbn [option_map nent ce_alive ce_pre ce_marker ce_hist ce_comps].
    rewrite Hhist, Hcomps, Hp. reflexivity. }
  pose proof (cs_inv_ncl c1 I1 Hnb1) as I1n.
  assert (Hoth : forall e', e' <> e -> centof (ncl c1) e' = centof (ncl c) e').
  { intros e' Hne. rewrite !centof_ncl. f_equal. unfold centof. rewrite Hs2c, al_get_insert_other by exact Hne.
    destruct (al_get e' (cl_s2c c)) as [cid'|] eqn:E'; [|reflexivity]. apply Hget. intros ->. exact (Hno e' E'). }
  assert (He : centof (ncl c1) e = Some placeholder).
  { unfold centof. cbn [ncl cl_s2c]. rewrite Hs2c, al_get_insert_same. exact Hgetc. }
  assert (Hen : centof (ncl c) e = None) by (unfold centof; cbn [ncl cl_s2c]; rewrite Hun; reflexivity).
  assert (Hothers : forall e', others_ok (ncl c) (ncl c1) e').
  { intros e'. destruct (N.eq_dec e' e) as [->|Hne]; [|left; exact (Hoth e' Hne)].
    right. split; [exact Hen|]. exists placeholder. split; [exact He|reflexivity]. }
  split; [exact I1|]. split; [exact Hnb1|]. split; [|split; [|split; [exact Hothers|]]].
  - apply (mapped_okr_step (ncl c) (ncl c1) e I1n Hmo); [intros e' _; apply Hothers|].
    intros _. right. exists placeholder. split; [exact He|reflexivity].
  - intros e0 cid0 H0. cbn [ncl cl_s2c] in *. rewrite Hs2c. rewrite al_get_insert_other; [exact H0|]. intros ->. congruence.
  - intros e'. assert (G : forall cc, cs_get cc e' = match centof cc e' with Some y => if ce_alive y && ce_marker y then Some (map fst (ce_comps y)) else None | None => None end).
    { intros cc. unfold cs_get, centof. destruct (al_get e' (cl_s2c cc)); reflexivity. }
    rewrite !G. destruct (N.eq_dec e' e) as [->|Hne]; [rewrite He, Hen; reflexivity|rewrite (Hoth e' Hne); reflexivity].
Qed.

Lemma nmaps_fold maps : forall c, cs_inv c -> nb c -> mapped_okr (ncl c) -> maps_ok c maps ->
  let c1 := apply_maps maps c in
  cs_inv c1 /\ nb c1 /\ mapped_okr (ncl c1) /\ s2c_grows (ncl c) (ncl c1) /\ (forall e', others_ok (ncl c) (ncl c1) e') /\
  (forall e', cs_get (ncl c1) e' = cs_get (ncl c) e').
Proof.
  unfold apply_maps. induction maps as [|[e pc] t IH]; intros c Hcs Hnb Hmo Hok; cbn [fold_left fst snd].
  - cbv zeta. split; [exact Hcs|]. split; [exact Hnb|]. split; [exact Hmo|]. split; [apply s2c_grows_refl|].
    split; [intros e'; apply others_ok_refl|reflexivity].
  - destruct Hok as [Hstep Hok]. destruct (nmap_step c e pc Hcs Hnb Hmo Hstep) as (I1 & N1 & M1 & G1 & O1 & S1). cbv zeta in I1, N1, M1, G1, O1, S1.
    destruct (IH _ I1 N1 M1 Hok) as (I2 & N2 & M2 & G2 & O2 & S2). cbv zeta in I2, N2, M2, G2, O2, S2. cbv zeta.
    split; [exact I2|]. split; [exact N2|]. split; [exact M2|]. split; [exact (s2c_grows_trans _ _ _ G1 G2)|].
    split; [intros e'; exact (others_ok_trans _ _ _ e' (O1 e') (O2 e'))|intros e'; rewrite S2; apply S1].
Qed.

(* ================================================================== *)
(* 2. the view of "despawn records, placeholders, removals, changes"  *)
(* ================================================================== *)

(* the conclusion of `ValRefClient_proofs.update_view_r` (without the update tick) *)
Definition upd_view (c : client) (u : update_msg) (c' : client) : Prop :=
  cs_inv c' /\ mapped_okr c' /\
  (forall e cid, al_get e (cl_s2c c) = Some cid -> mem_N e (u_despawns u) = false -> al_get e (cl_s2c c') = Some cid) /\
  forall e,
    let o1 := if mem_N e (u_despawns u) then None else centof c e in
    if touched u e then
      geb_hist (u_tick u) o1 /\
      exists x', centof c' e = Some x' /\ live_at (u_tick u) x' /\
                 ce_comps x' = wr_compsr (cl_s2c c') (al_dflt e (u_changes u)) (rm_comps (al_dflt e (u_removals u)) (comps_of o1)) /\
                 refs_mapped c' (al_dflt e (u_changes u))
    else centof c' e = o1 \/ (o1 = None /\ exists x', centof c' e = Some x' /\ ce_marker x' = false).

Lemma upd_view_of_r c u c' : cs_inv c -> mapped_okr c -> upd_shaper u -> apply_update_message c u = Ok c' -> upd_view c u c'.
Proof. intros A B C D. destruct (update_view_r c u c' A B C D) as (V1 & _ & V3 & V4 & V5). split; [exact V1|]. split; [exact V3|]. split; [exact V4|exact V5]. Qed.

Theorem update_view_m cv u cv2 cv' :
  cs_inv cv -> mapped_okr cv -> NoDup (map fst (u_removals u)) -> NoDup (map fst (u_changes u)) ->
  cs_inv cv2 -> mapped_okr cv2 -> s2c_grows (maps_pre cv u) cv2 -> (forall e, others_ok (maps_pre cv u) cv2 e) ->
  (forall e, cs_get cv2 e = cs_get (maps_pre cv u) e) ->
  upd_rest u cv2 = Ok cv' ->
  upd_view cv u cv' /\ struct_equiv (client_struct cv') (abs_apply (client_struct cv) u).
Proof.
  intros Hinv Hmo Hndr Hndc I2 M2 G12 O12 Hsg H. unfold maps_pre in *.
  assert (Hinv0 : cs_inv (set_upd_tick cv (u_tick u))) by (revert Hinv; apply cs_inv_ext; reflexivity).
  set (cv1 := fold_left apply_despawn (u_despawns u) (set_upd_tick cv (u_tick u))) in *.
  unfold upd_rest in H. apply bind_ok in H. destruct H as [r3 [E3 H]].
  destruct (removals_struct _ _ _ _ _ I2 (srel_self cv2 (cs_inv_nodup cv2 I2)) E3) as (c3 & -> & I3' & R3).
  apply bind_ok in H. destruct H as [r4 [E4 H]].
  destruct (changes_struct _ _ _ _ _ I3' R3 E4) as (c4 & -> & I4' & R4). inversion H; subst cv'. clear H.
  split.
  - destruct (run_removals_view_r _ _ _ _ I2 M2 Hndr E3) as (I3 & M3 & G3 & V3).
    destruct (run_changes_view_r _ _ _ _ I3 M3 Hndc E4) as (I4 & M4 & G4 & V4).
    split; [exact I4|]. split; [exact M4|]. split.
    { intros e cid He Hd. apply G4. apply G3. apply G12. unfold cv1. rewrite s2c_despawns, Hd. exact He. }
    intros e. specialize (V3 e). specialize (V4 e). pose proof (O12 e) as Oe.
    pose proof (proj2 (centof_despawns (u_despawns u) (set_upd_tick cv (u_tick u)) e Hinv0)) as Vp. fold cv1 in Vp.
    rewrite (centof_ext cv (set_upd_tick cv (u_tick u)) e eq_refl eq_refl) in Vp.
    cbv zeta. unfold touched, al_dflt.
    set (o1 := if mem_N e (u_despawns u) then None else centof cv e) in *.
    pose proof (others_comps cv1 cv2 e I2 Oe) as Hcm. rewrite Vp in Hcm.
    assert (Hgb : geb_hist (u_tick u) (centof cv2 e) -> geb_hist (u_tick u) o1).
    { intros G. rewrite <- Vp. exact (others_geb cv1 cv2 e (u_tick u) I2 Oe G). }
    destruct (al_get e (u_removals u)) as [ks|] eqn:Er; destruct (al_get e (u_changes u)) as [vals|] eqn:Ec.
    + destruct V3 as (Ge3 & x3 & X3 & L3 & C3). destruct V4 as (Ge4 & x4 & X4 & L4 & C4 & R4').
      split; [exact (Hgb Ge3)|]. exists x4. split; [exact X4|]. split; [exact L4|]. split; [|exact R4'].
      rewrite C4, X3. cbn [comps_of]. rewrite C3, Hcm. reflexivity.
    + destruct V3 as (Ge3 & x3 & X3 & L3 & C3). split; [exact (Hgb Ge3)|]. exists x3.
      assert (E4' : centof c4 e = Some x3) by (destruct V4 as [V4|(V4 & _)]; [rewrite V4; exact X3|congruence]).
      split; [exact E4'|]. split; [exact L3|]. split; [rewrite wr_compsr_nil, C3, Hcm; reflexivity|intros k t []].
    + destruct V4 as (Ge4 & x4 & X4 & L4 & C4 & R4'). rewrite V3 in Ge4, C4. split; [exact (Hgb Ge4)|]. exists x4. split; [exact X4|]. split; [exact L4|].
      split; [|exact R4']. rewrite rm_comps_nil, C4, Hcm. reflexivity.
    + assert (O3 : others_ok cv2 c3 e) by (left; exact V3).
      pose proof (others_ok_trans _ _ _ e Oe (others_ok_trans _ _ _ e O3 V4)) as O14. unfold others_ok in O14. rewrite Vp in O14.
      destruct O14 as [O14|(O14 & x4 & X4 & Hm4)]; [left; exact O14|right]. split; [exact O14|]. exists x4. auto.
  - (* the structure *)
    destruct (despawns_struct (u_despawns u) (set_upd_tick cv (u_tick u)) (client_struct cv) Hinv0) as [I1 R1].
    { apply (srel_ext cv); [reflexivity|reflexivity|]. exact (srel_self cv (cs_inv_nodup cv Hinv)). }
    fold cv1 in I1, R1.
    assert (R2 : struct_equiv (client_struct cv2) (fold_left abs_despawn (u_despawns u) (client_struct cv))).
    { apply srel_struct_equiv; [exact (cs_inv_nodup cv2 I2)|]. intros e. rewrite Hsg. exact (R1 e). }
    eapply struct_equiv_trans; [apply srel_struct_equiv; [exact (cs_inv_nodup c4 I4')|exact R4]|].
    exact (abs_apply_equiv _ _ (mkUpd (u_tick u) [] [] (u_removals u) (u_changes u)) R2).
Qed.

(* ================================================================== *)
(* 3. the client half, from the view of the step                      *)
(* ================================================================== *)

(* Section Update of Repl/ValRefCli_proofs.v once more: there the step from [c] to [c'] is `apply_update_message c u` for a
   message without mappings and its view is `update_view_r`; here the step is ANY step with that view [upd_view] and that
   effect on the structure. *)
Section CliInvM.
  Variable slot : N.
  Variable SN : N -> N -> server -> Prop.
  Hypothesis SNinj : forall t1 r1 s1 t2 r2 s2, SN t1 r1 s1 -> SN t2 r2 s2 ->
    (r1 = r2 -> t1 = t2 /\ s1 = s2) /\ (r1 < r2 -> t1 < t2).
  Hypothesis SNkeep : forall t1 r1 s1 t2 r2 s2, SN t1 r1 s1 -> SN t2 r2 s2 -> r1 <= r2 -> keeps r1 s1 s2.
  Hypothesis SNsmall : forall t r s1, SN t r s1 -> small_tick t.
  Hypothesis SNwf : forall t r s1, SN t r s1 -> ents_wf s1.

  Local Notation SN_le := (SN_le SN SNinj SNkeep SNsmall SNwf).
  Local Notation SN_tick_inj := (SN_tick_inj SN SNinj SNkeep SNsmall SNwf).
  Local Notation struct_hasv := (struct_hasv slot).
  Local Notation conf_sincer := (conf_sincer SN).
  Local Notation ent_promiser := (ent_promiser SN).
  Local Notation upd_okr := (upd_okr SN).
  Local Notation desp_fresh := (desp_fresh slot SN).
  Local Notation mut_okr := (mut_okr slot SN).
  Local Notation cli_invr := (cli_invr slot SN).
  Local Notation srv_slot_invr := (srv_slot_invr slot SN).
  Local Notation held_ref_refd := (ValRefCli_proofs.held_ref_refd slot SN).
  Local Notation old_value_okr := (ValRefCli_proofs.old_value_okr SN SNinj SNkeep SNsmall SNwf).

  (* ================================================================ *)
  (* 1. applying the next update message                              *)
  (* ================================================================ *)

  Section Update.
    Variables (c : client) (u : update_msg) (rest : list update_msg) (c' : client).
    Hypothesis Hcs : cs_inv c.
    Hypothesis Hmo : mapped_okr c.
    Hypothesis Hsu : small_tick (u_tick u).
    Hypothesis Hhl : forall e x h, has c e x h -> forall u', In u' (u :: rest) -> h_last h < u_tick u'.
    Hypothesis Hincr : ticks_incr (u :: rest).
    (* the step from [c] to [c'] is only known through its view and its effect on the structure *)
    Hypothesis UV : upd_view c u c'.
    Hypothesis HST : struct_equiv (client_struct c') (abs_apply (client_struct c) u).

    Lemma updm_cs : cs_inv c'.
    Proof. exact (proj1 UV). Qed.

    Lemma updm_mapped_okr : mapped_okr c'.
    Proof. exact (proj1 (proj2 UV)). Qed.

    Let UVe := proj2 (proj2 (proj2 UV)).

    (* an entity the message mentions is confirmed at the tick of the message *)
    Lemma updm_touched e : mentions u e ->
      geb_hist (u_tick u) (if mem_N e (u_despawns u) then None else centof c e) /\
      exists x' h', has c' e x' h' /\ h_last h' = u_tick u /\
        ce_comps x' = wr_compsr (cl_s2c c') (al_dflt e (u_changes u))
                               (rm_comps (al_dflt e (u_removals u)) (comps_of (if mem_N e (u_despawns u) then None else centof c e))) /\
        refs_mapped c' (al_dflt e (u_changes u)).
    Proof.
      intros Hm. apply touched_mentions in Hm. pose proof (UVe e) as V. cbv zeta in V. rewrite Hm in V.
      destruct V as (G & x' & X & L & C & R). split; [exact G|]. destruct (live_at_has c' e x' _ X L) as [h' [Hh Hl]].
      exists x', h'. auto.
    Qed.

    (* an entity the message does not mention: despawned, or left alone, or (unknown so far) reserved as a placeholder *)
    Lemma updm_untouched e : ~ mentions u e ->
      let o1 := if mem_N e (u_despawns u) then None else centof c e in
      centof c' e = o1 \/ (o1 = None /\ exists x', centof c' e = Some x' /\ ce_marker x' = false).
    Proof.
      intros Hm. pose proof (UVe e) as V. cbv zeta in V.
      destruct (touched u e) eqn:Et; [exfalso; apply Hm; apply touched_mentions; exact Et|exact V].
    Qed.

    (* ... its replica, if any *)
    Lemma updm_untouched_has e x h : ~ mentions u e ->
      (has c' e x h <-> (mem_N e (u_despawns u) = false /\ has c e x h)).
    Proof.
      intros Hm. pose proof (updm_untouched e Hm) as V. cbv zeta in V. unfold has.
      destruct V as [V|(V & x' & Hx' & Hm')].
      - rewrite V. destruct (mem_N e (u_despawns u)); [split; [intros (A & _); discriminate|intros (A & _); discriminate]|].
        split; [intros H; split; [reflexivity|exact H]|intros (_ & H); exact H].
      - split.
        + intros (A & _ & B & _). rewrite Hx' in A. inversion A; subst x'. congruence.
        + intros (Hd & A & _). rewrite Hd in V. congruence.
    Qed.

    Lemma updm_cg g e t : cgr c (u :: rest) g e t -> cgr c' rest g e t.
    Proof.
      intros [(u0 & Hin & Hlt & Hm & Hle)|[(x & h & Hh & Hle)|(Hc & Hno)]].
      - destruct Hin as [<-|Hin].
        + right. left. destruct (updm_touched e Hm) as (_ & x' & h' & Hh' & Hl & _). exists x', h'. split; [exact Hh'|lia].
        + left. exists u0. auto.
      - destruct (touched u e) eqn:Et.
        + apply touched_mentions in Et. destruct (updm_touched e Et) as (_ & x' & h' & Hh' & Hl & _).
          right. left. exists x', h'. split; [exact Hh'|]. pose proof (Hhl e x h Hh u (or_introl eq_refl)). lia.
        + assert (Hnm : ~ mentions u e) by (intros Hm; apply touched_mentions in Hm; congruence).
          destruct (mem_N e (u_despawns u)) eqn:Ed.
          * right. right. split; [|intros u' Hu' _; pose proof (Hhl e x h Hh u' (or_intror Hu')); lia].
            intros x' h' Hh'. apply (updm_untouched_has e x' h' Hnm) in Hh'. destruct Hh' as [Hd _]. congruence.
          * right. left. exists x, h. split; [|exact Hle]. apply (updm_untouched_has e x h Hnm). auto.
      - destruct (touched u e) eqn:Et.
        + apply touched_mentions in Et. destruct (updm_touched e Et) as (_ & x' & h' & Hh' & Hl & _).
          right. left. exists x', h'. split; [exact Hh'|]. rewrite Hl. exact (Hno u (or_introl eq_refl) Et).
        + assert (Hnm : ~ mentions u e) by (intros Hm; apply touched_mentions in Hm; congruence).
          right. right. split; [|intros u' Hu'; apply Hno; right; exact Hu'].
          intros x' h' Hh'. apply (updm_untouched_has e x' h' Hnm) in Hh'. exact (Hc x' h' (proj2 Hh')).
    Qed.

    Lemma updm_conf_since g e a : conf_sincer c (u :: rest) g e a -> conf_sincer c' rest g e a.
    Proof. intros (t_a & s_a & H1 & H2). exists t_a, s_a. split; [exact H1|exact (updm_cg g e t_a H2)]. Qed.

    (* a replica after the message is confirmed below the ticks of the rest *)
    Lemma updm_hl e x' h' : has c' e x' h' -> forall u', In u' rest -> h_last h' < u_tick u'.
    Proof.
      intros Hh' u' Hu'. destruct (touched u e) eqn:Et.
      - apply touched_mentions in Et. destruct (updm_touched e Et) as (_ & x'' & h'' & Hh'' & Hl & _).
        destruct (has_fun c' e x' h' x'' h'' Hh' Hh'') as [-> ->]. rewrite Hl. exact (ticks_incr_head u rest Hincr u' Hu').
      - assert (Hnm : ~ mentions u e) by (intros Hm; apply touched_mentions in Hm; congruence).
        apply (updm_untouched_has e x' h' Hnm) in Hh'. apply (Hhl e x' h'); [exact (proj2 Hh')|right; exact Hu'].
    Qed.

    (* a client value keeps standing for a server value unless the referenced entity is despawned *)
    Lemma updm_vrel_step v cv : vrel c v cv -> (forall t, v = VRef t -> mem_N t (u_despawns u) = false) -> vrel c' v cv.
    Proof.
      intros Hr Hnd. destruct v as [n|t], cv as [m|cid]; cbn [vrel] in *; try exact Hr.
      apply (s2c_c2s c' t cid (ci_emap c' updm_cs)). apply (proj1 (proj2 (proj2 UV))); [|exact (Hnd t eq_refl)].
      apply (s2c_c2s c t cid (ci_emap c Hcs)). exact Hr.
    Qed.

    Section UpdT.
      Hypothesis HT : forall e x h, has c e x h ->
        exists r s1 x1, SN (h_last h) r s1 /\ vrepl slot s1 e = Some x1 /\ agreer c (ce_comps x) (se_comps x1) /\
                        kinds_equiv (map fst (ce_comps x)) (map fst (se_comps x1)).
      Hypothesis Hok : upd_okr c (u :: rest) u.
      Hypothesis Hstruct : exists r s1, SN (u_tick u) r s1 /\ struct_equiv (abs_apply (client_struct c) u) (vstruct slot s1).
      Hypothesis Hnd : desp_fresh u.

      Lemma updm_no_will e t : ~ will_conf (u :: rest) (u_tick u) e t.
      Proof.
        intros (u0 & Hin & Hlt & _). destruct Hin as [<-|Hin]; [lia|]. pose proof (ticks_incr_head u rest Hincr u0 Hin). lia.
      Qed.

      Lemma updm_struct' : exists r s1, SN (u_tick u) r s1 /\ struct_equiv (client_struct c') (vstruct slot s1).
      Proof.
        destruct Hstruct as (r & s1 & Hsn & Hst). exists r, s1. split; [exact Hsn|].
        eapply struct_equiv_trans; [|exact Hst]. exact HST.
      Qed.

      (* what a replica holds keeps standing for the same server value: the target of a reference it holds was referenced
         in the snapshot of its confirmed tick, which is older than the message, so the message does not despawn it *)
      Lemma updm_vrel_kept e x h v k cv : has c e x h -> al_get k (ce_comps x) = Some cv -> vrel c v cv -> vrel c' v cv.
      Proof.
        intros Hh Hk Hr. apply updm_vrel_step; [exact Hr|]. intros t ->.
        destruct cv as [m|cid]; cbn [vrel] in Hr; [destruct Hr|].
        destruct (held_ref_refd c e x h k cid t (HT e x h Hh) Hk Hr) as (r & s1 & Hsn & Hrf).
        destruct (mem_N t (u_despawns u)) eqn:Ed; [|reflexivity]. exfalso. apply mem_N_In in Ed.
        apply (Hnd t Ed _ _ _ Hsn); [|exact Hrf]. exact (Hhl e x h Hh u (or_introl eq_refl)).
      Qed.

      Lemma updm_T e x' h' : has c' e x' h' ->
        exists r s1 x1, SN (h_last h') r s1 /\ vrepl slot s1 e = Some x1 /\ agreer c' (ce_comps x') (se_comps x1) /\
                        kinds_equiv (map fst (ce_comps x')) (map fst (se_comps x1)).
      Proof.
        intros Hh'. destruct (touched u e) eqn:Et.
        - apply touched_mentions in Et. destruct (updm_touched e Et) as (G & x'' & h'' & Hh'' & Hl & Hcomps & Hrefs).
          destruct (has_fun c' e x' h' x'' h'' Hh' Hh'') as [-> ->].
          destruct Hok as (_ & r & s1 & Hsn & Hprom). destruct (Hprom e Et) as ((Hnd0 & x1 & Hx1 & Hvals) & Hcover).
          destruct updm_struct' as (r2 & s2 & Hsn2 & Hst2). destruct (SN_tick_inj _ _ _ _ _ Hsn Hsn2) as [<- <-].
          destruct (struct_hasv c' s1 e x' h' updm_cs (SNwf _ _ _ Hsn) Hst2 Hh') as (x1' & Hr1 & Hk1).
          assert (x1' = x1) by (pose proof (vrepl_ent slot s1 e x1' Hr1); congruence). subst x1'.
          exists r, s1, x1. rewrite Hl. split; [exact Hsn|]. split; [exact Hr1|]. split; [|exact Hk1]. rewrite Hcomps.
          apply agreer_write; [exact Hnd0| |].
          + intros k v Hin. split; [|exact (Hvals k v Hin)].
            apply vrel_cval_of; [exact (ci_emap c' updm_cs)|]. intros t ->. exact (Hrefs k t Hin).
          + intros k cv cc Hkv Hold Hcc.
            destruct (mem_N e (u_despawns u)); [discriminate|].
            destruct (centof c e) as [x0|] eqn:Ec0; [|discriminate]. cbn [comps_of] in Hold.
            destruct (centof_some_mapped c e x0 Ec0) as [cid0 [Hs0 _]].
            destruct (Hmo e cid0 Hs0) as [(x0' & h0 & Hh0)|(x0' & Hx0' & Hm0')].
            2:{ exfalso. assert (x0' = x0) by congruence. subst x0'.
                rewrite (proj1 (centof_unmarked_blank c e x0 Hcs Ec0 Hm0')) in Hold. discriminate. }
            assert (x0' = x0) by (destruct Hh0 as [Hc0 _]; congruence). subst x0'.
            assert (Hle : h_last h0 <= u_tick u) by (pose proof (Hhl e x0 h0 Hh0 u (or_introl eq_refl)); lia).
            destruct (HT e x0 h0 Hh0) as (r0 & s0 & x00 & H0 & Hr0 & Hag0 & _).
            apply (updm_vrel_kept e x0 h0 (c_val cc) k cv Hh0 Hold).
            refine (old_value_okr c (u :: rest) (u_tick u) e _ s1 x1 (u_tick u) r x0 h0 Hsn Hx1 Hcover (updm_no_will e) Hh0 Hle
                     _ k cv cc Hkv Hold Hcc).
            exists r0, s0, x00. split; [exact H0|]. split; [exact (vrepl_ent slot s0 e x00 Hr0)|exact Hag0].
        - assert (Hnm : ~ mentions u e) by (intros Hm; apply touched_mentions in Hm; congruence).
          apply (updm_untouched_has e x' h' Hnm) in Hh'. destruct Hh' as [_ Hh].
          destruct (HT e x' h' Hh) as (r0 & s0 & x00 & H0 & Hr0 & Hag0 & Hk0). exists r0, s0, x00.
          split; [exact H0|]. split; [exact Hr0|]. split; [|exact Hk0].
          intros k cv cc Hcv Hcc. exact (updm_vrel_kept e x' h' (c_val cc) k cv Hh Hcv (Hag0 k cv cc Hcv Hcc)).
      Qed.
    End UpdT.
  End Update.

  Lemma fold_head_structm c u c' p : struct_equiv (client_struct c') (abs_apply (client_struct c) u) ->
    struct_equiv (fold_left abs_apply p (client_struct c')) (fold_left abs_apply (u :: p) (client_struct c)).
  Proof. intros HST. cbn [fold_left]. apply abs_apply_fold_equiv. exact HST. Qed.

  Theorem clim_update c u rest muts c' :
    cli_invr c (u :: rest) muts -> upd_view c u c' -> struct_equiv (client_struct c') (abs_apply (client_struct c) u) ->
    cl_upd_tick c' = u_tick u -> pu c' -> cli_invr c' rest muts.
  Proof.
    intros Hi UV HST Etk Hpu'. pose proof Hi as [Hcs Hpu Hmo HT Hut Hlt Hincr Hhl Hpend Hmuts Hstr Hnd].
    pose proof (Hpend u (or_introl eq_refl)) as Hok. pose proof Hok as (Hshape & r & s1 & Hsn & _).
    assert (Hsu : small_tick (u_tick u)) by exact (SNsmall _ _ _ Hsn).
    assert (Hcf : forall g e a, conf_sincer c (u :: rest) g e a -> conf_sincer c' rest g e a).
    { intros g e a. apply (updm_conf_since c u rest c'); assumption. }
    pose proof (Hnd u (or_introl eq_refl)) as Hndu.
    assert (Hstruct : exists r s1, SN (u_tick u) r s1 /\ struct_equiv (abs_apply (client_struct c) u) (vstruct slot s1)).
    { destruct (Hstr [] u rest eq_refl) as (r2 & s2 & H2 & E2). exists r2, s2. split; [exact H2|exact E2]. }
    constructor.
    - apply (updm_cs c u c'); assumption.
    - exact Hpu'.
    - apply (updm_mapped_okr c u c'); assumption.
    - intros e x' h'. apply (updm_T c u rest c'); assumption.
    - right. rewrite Etk. exists r, s1. exact Hsn.
    - intros u' Hu'. rewrite Etk. exact (ticks_incr_head u rest Hincr u' Hu').
    - exact (ticks_incr_tail u rest Hincr).
    - intros e x' h'. apply (updm_hl c u rest c'); assumption.
    - intros u' Hu'. apply (upd_okr_mono SN c (u :: rest)); [intros e a; apply Hcf|]. apply Hpend. right. exact Hu'.
    - intros m Hm. apply (mut_okr_mono slot SN c (u :: rest)); [intros u0 Hu0; right; exact Hu0|intros e a; apply Hcf|]. exact (Hmuts m Hm).
    - intros p u' q E. destruct (Hstr (u :: p) u' q) as (r2 & s2 & H2 & E2); [rewrite E; reflexivity|].
      exists r2, s2. split; [exact H2|]. eapply struct_equiv_trans; [|exact E2]. exact (fold_head_structm c u c' (p ++ [u']) HST).
    - intros u' Hu'. apply Hnd. right. exact Hu'.
  Qed.

  Theorem srv_slotm_update s cl c u rest muts acks c' :
    cli_invr c (u :: rest) muts -> upd_view c u c' -> struct_equiv (client_struct c') (abs_apply (client_struct c) u) ->
    cl_upd_tick c' = u_tick u ->
    srv_slot_invr s cl c (u :: rest) muts acks -> srv_slot_invr s cl c' rest muts acks.
  Proof.
    intros Hi UV HST Etk. pose proof Hi as [Hcs Hpu Hmo HT Hut Hlt Hincr Hhl Hpend Hmuts Hstr Hnd].
    pose proof (Hpend u (or_introl eq_refl)) as (Hshape & r & s1 & Hsn & _).
    assert (Hsu : small_tick (u_tick u)) by exact (SNsmall _ _ _ Hsn).
    apply (srv_slotr_mono slot SN); [reflexivity|reflexivity|intros u0 Hu0; right; exact Hu0| | |].
    - intros g e a. apply (updm_conf_since c u rest c'); assumption.
    - exact (fold_head_structm c u c' rest HST).
    - rewrite Etk. cbn [map]. destruct rest as [|u0 t0]; [reflexivity|]. cbn [map last]. apply last_cons_indep.
  Qed.
End CliInvM.

(* ================================================================== *)
(* 4. one update message of the real client                           *)
(* ================================================================== *)

Lemma pu_ncl_cs c : cs_inv (ncl c) -> pu (ncl c).
Proof.
  intros Hcs. split; [|exact (proj2 (ci_ewf _ Hcs))].
  intros cid y Hy Hp. exfalso. rewrite get_cent_ncl in Hy. destruct (get_cent c cid) as [x|]; [|discriminate].
  inversion Hy; subst y. apply Hp. reflexivity.
Qed.

Lemma nb_despawns ds : forall c, nb c -> nb (fold_left apply_despawn ds c).
Proof. induction ds as [|d t IH]; intros c H; cbn [fold_left]; [exact H|]. apply IH. apply nb_despawn. exact H. Qed.

(* the real step and its normal form *)
Lemma real_update_view c u c' :
  cs_inv c -> nb c -> cs_inv (ncl c) -> mapped_okr (ncl c) ->
  NoDup (map fst (u_removals u)) -> NoDup (map fst (u_changes u)) ->
  maps_ok (maps_pre c u) (u_maps u) -> apply_update_message c u = Ok c' ->
  upd_view (ncl c) (strip u) (ncl c') /\ struct_equiv (client_struct (ncl c')) (abs_apply (client_struct (ncl c)) (strip u)) /\
  cl_upd_tick (ncl c') = u_tick u /\ nb c'.
Proof.
  intros Hcs Hnb Hcsn Hmo Hndr Hndc Hmok H.
  pose proof (update_tick_follows_messages c u c' H) as Etk. pose proof (nb_update_message c u c' Hnb H) as Hnb'.
  rewrite apply_update_message_rest, update_pre_maps in H.
  assert (Hcs0 : cs_inv (set_upd_tick c (u_tick u))) by (revert Hcs; apply cs_inv_ext; reflexivity).
  destruct (despawns_struct (u_despawns u) _ (client_struct (set_upd_tick c (u_tick u))) Hcs0 (srel_self _ (cs_inv_nodup _ Hcs0))) as [Hcs1 _].
  fold (maps_pre c u) in Hcs1.
  assert (Hnb1 : nb (maps_pre c u)).
  { unfold maps_pre. apply nb_despawns. revert Hnb. apply nb_ext. reflexivity. }
  assert (Hmo1 : mapped_okr (ncl (maps_pre c u))).
  { rewrite <- maps_pre_ncl. unfold maps_pre. apply mapped_okr_despawns; [revert Hcsn; apply cs_inv_ext; reflexivity|exact Hmo]. }
  destruct (nmaps_fold (u_maps u) (maps_pre c u) Hcs1 Hnb1 Hmo1 Hmok) as (I2 & N2 & M2 & G2 & O2 & S2). cbv zeta in I2, N2, M2, G2, O2, S2.
  set (c2 := apply_maps (u_maps u) (maps_pre c u)) in *.
  assert (Hrest : upd_rest (strip u) (ncl c2) = Ok (ncl c')).
  { change (upd_rest (strip u) (ncl c2)) with (upd_rest u (ncl c2)). rewrite upd_rest_ncl, H. reflexivity. }
  destruct (update_view_m (ncl c) (strip u) (ncl c2) (ncl c') Hcsn Hmo Hndr Hndc (cs_inv_ncl c2 I2 N2) M2) as [V ST];
    try (rewrite maps_pre_ncl; assumption); [exact Hrest|].
  split; [exact V|]. split; [exact ST|]. split; [exact Etk|exact Hnb'].
Qed.

Section RealUpdate.
  Variable slot : N.
  Variable SN : N -> N -> server -> Prop.
  Hypothesis SNinj : forall t1 r1 s1 t2 r2 s2, SN t1 r1 s1 -> SN t2 r2 s2 ->
    (r1 = r2 -> t1 = t2 /\ s1 = s2) /\ (r1 < r2 -> t1 < t2).
  Hypothesis SNkeep : forall t1 r1 s1 t2 r2 s2, SN t1 r1 s1 -> SN t2 r2 s2 -> r1 <= r2 -> keeps r1 s1 s2.
  Hypothesis SNsmall : forall t r s1, SN t r s1 -> small_tick t.
  Hypothesis SNwf : forall t r s1, SN t r s1 -> ents_wf s1.

  Theorem clim_real_update c u rest muts c' :
    cs_inv c -> nb c -> cli_invr slot SN (ncl c) (strip u :: rest) muts ->
    maps_ok (maps_pre c u) (u_maps u) -> apply_update_message c u = Ok c' ->
    nb c' /\ cli_invr slot SN (ncl c') rest muts /\
    (forall g e a, conf_sincer SN (ncl c) (strip u :: rest) g e a -> conf_sincer SN (ncl c') rest g e a) /\
    struct_equiv (client_struct (ncl c')) (abs_apply (client_struct (ncl c)) (strip u)) /\
    forall s cl acks, srv_slot_invr slot SN s cl (ncl c) (strip u :: rest) muts acks -> srv_slot_invr slot SN s cl (ncl c') rest muts acks.
  Proof.
    intros Hcs Hnb Hi Hmok H. pose proof Hi as [Hcsn Hpu Hmo HT Hut Hlt Hincr Hhl Hpend Hmuts Hstr Hnd].
    destruct (Hpend (strip u) (or_introl eq_refl)) as ((_ & Hndr & Hndc) & r & s1 & Hsn & _).
    destruct (real_update_view c u c' Hcs Hnb Hcsn Hmo Hndr Hndc Hmok H) as (V & ST & Etk & Hnb').
    split; [exact Hnb'|]. split; [|split; [|split; [exact ST|]]].
    - apply (clim_update slot SN SNinj SNkeep SNsmall SNwf (ncl c) (strip u) rest muts (ncl c') Hi V ST Etk).
      apply pu_ncl_cs. exact (proj1 V).
    - intros g e a. exact (updm_conf_since SN SNinj SNkeep SNsmall SNwf (ncl c) (strip u) rest (ncl c') Hhl V g e a).
    - intros s cl acks. exact (srv_slotm_update slot SN SNinj SNkeep SNsmall SNwf s cl (ncl c) (strip u) rest muts acks (ncl c') Hi V ST Etk).
  Qed.
End RealUpdate.

(* ================================================================== *)
(* 5. the inbox, a whole client frame                                 *)
(* ================================================================== *)

Lemma centof_cops ops : forall c e, cs_inv c -> cops_safe c ops = true -> centof (fold_left apply_cop ops c) e = centof c e.
Proof.
  induction ops as [|op t IH]; intros c e Hcs Hs; cbn [fold_left]; [reflexivity|].
  cbn [cops_safe] in Hs. apply andb_prop in Hs. destruct Hs as [Hs1 Hs2].
  rewrite (IH _ e (proj1 (cop_step c op Hcs Hs1)) Hs2). exact (centof_cop c op e Hcs Hs1).
Qed.

(* the normal form without its update inbox: the client `apply_mutate_messages` and the client operations work on *)
Definition drop_upd_inbox (c : client) : client :=
  mkCli (cl_status c) (cl_last_connected c) (cl_last_not_disconnected c) (cl_upd_tick c) (cl_s2c c) (cl_c2s c)
        (cl_ents c) (cl_next c) (cl_buffered c) (cl_mticks c) [] (cl_inbox_mut c).

Lemma frame_drop_inbox c1 c2 out2 : cl_status c1 = Connected -> apply_mutate_messages (merge_mut_inbox c1) = Ok (c2, out2) ->
  client_frame (drop_upd_inbox (ncl c1)) [] = Ok (set_locals (ncl c2), out2).
Proof.
  intros Hs E. unfold client_frame. replace (cl_status (drop_upd_inbox (ncl c1))) with Connected by (symmetry; exact Hs).
  rewrite andb_false_r. unfold apply_replication. cbn [drop_upd_inbox cl_inbox_upd fold_left bind].
  change (clear_inboxes (set_buffered (drop_upd_inbox (ncl c1))
            (fold_left (fun b m => buffer_insert m b) (cl_inbox_mut (drop_upd_inbox (ncl c1))) (cl_buffered (drop_upd_inbox (ncl c1))))
            (cl_mticks (drop_upd_inbox (ncl c1))))) with (ncl (merge_mut_inbox c1)).
  rewrite apply_mutate_messages_ncl, E. reflexivity.
Qed.

Section FrameM.
  Variable slot : N.
  Variable SN : N -> N -> server -> Prop.
  Hypothesis SNinj : forall t1 r1 s1 t2 r2 s2, SN t1 r1 s1 -> SN t2 r2 s2 ->
    (r1 = r2 -> t1 = t2 /\ s1 = s2) /\ (r1 < r2 -> t1 < t2).
  Hypothesis SNkeep : forall t1 r1 s1 t2 r2 s2, SN t1 r1 s1 -> SN t2 r2 s2 -> r1 <= r2 -> keeps r1 s1 s2.
  Hypothesis SNsmall : forall t r s1, SN t r s1 -> small_tick t.
  Hypothesis SNwf : forall t r s1, SN t r s1 -> ents_wf s1.

  Local Notation cli_invr := (cli_invr slot SN).
  Local Notation conf_sincer := (conf_sincer SN).

  Lemma inboxm_fold muts : forall us c lupd c1,
    nb c -> cli_invr (ncl c) (map strip us ++ lupd) muts -> inbox_maps_ok c us ->
    fold_left (res_step apply_update_message) us (Ok c) = Ok c1 ->
    nb c1 /\ cli_invr (ncl c1) lupd muts /\
    (forall g e a, conf_sincer (ncl c) (map strip us ++ lupd) g e a -> conf_sincer (ncl c1) lupd g e a) /\ same_buf c c1 /\
    cl_status c1 = cl_status c /\
    struct_equiv (fold_left abs_apply lupd (client_struct (ncl c1))) (fold_left abs_apply (map strip us ++ lupd) (client_struct (ncl c))).
  Proof.
    induction us as [|u t IH]; intros c lupd c1 Hnb Hi Hmk H.
    - cbn in H. inversion H; subst c1. split; [exact Hnb|]. split; [exact Hi|]. split; [auto|]. split; [split; reflexivity|]. split; [reflexivity|apply struct_equiv_refl].
    - apply fold_res_cons_ok in H. destruct H as [c2 [E H]]. cbn [map app] in Hi. cbn [inbox_maps_ok] in Hmk. destruct Hmk as [Hm1 Hm2].
      pose proof (cs_inv_of_ncl c (cr_cs _ _ _ _ _ Hi)) as Hcs.
      destruct (clim_real_update slot SN SNinj SNkeep SNsmall SNwf c u (map strip t ++ lupd) muts c2 Hcs Hnb Hi Hm1 E) as (Hnb2 & Hi2 & Hcf2 & ST2 & _).
      destruct (IH c2 lupd c1 Hnb2 Hi2 (Hm2 c2 E) H) as (A & B & C & [D1 D2] & F & S0).
      split; [exact A|]. split; [exact B|]. split; [intros g e a Hc; apply C; apply Hcf2; exact Hc|]. split; [|split].
      + destruct (same_buf_update c u c2 E) as [A1 A2]. split; congruence.
      + rewrite F. exact (status_update_message c u c2 E).
      + eapply struct_equiv_trans; [exact S0|]. cbn [map app fold_left]. apply abs_apply_fold_equiv. exact ST2.
  Qed.

  (* the acknowledgement bookkeeping follows the client through the inbox *)
  Lemma inboxm_fold_slot muts : forall us c lupd c1 s cl acks,
    nb c -> cli_invr (ncl c) (map strip us ++ lupd) muts -> inbox_maps_ok c us ->
    fold_left (res_step apply_update_message) us (Ok c) = Ok c1 ->
    srv_slot_invr slot SN s cl (ncl c) (map strip us ++ lupd) muts acks -> srv_slot_invr slot SN s cl (ncl c1) lupd muts acks.
  Proof.
    induction us as [|u t IH]; intros c lupd c1 s cl acks Hnb Hi Hmk H Hs.
    - cbn in H. inversion H; subst c1. exact Hs.
    - apply fold_res_cons_ok in H. destruct H as [c2 [E H]]. cbn [map app] in Hi, Hs. cbn [inbox_maps_ok] in Hmk. destruct Hmk as [Hm1 Hm2].
      pose proof (cs_inv_of_ncl c (cr_cs _ _ _ _ _ Hi)) as Hcs.
      destruct (clim_real_update slot SN SNinj SNkeep SNsmall SNwf c u (map strip t ++ lupd) muts c2 Hcs Hnb Hi Hm1 E) as (Hnb2 & Hi2 & _ & _ & Hsl).
      exact (IH c2 lupd c1 s cl acks Hnb2 Hi2 (Hm2 c2 E) H (Hsl s cl acks Hs)).
  Qed.

  Theorem clim_frame c lupd muts ops c' out :
    nb c -> cli_invr (ncl c) (map strip (cl_inbox_upd c) ++ lupd) muts ->
    (forall m, In m (cl_inbox_mut c ++ cl_buffered c) -> In m muts) ->
    cl_status c = Connected -> inbox_maps_ok c (cl_inbox_upd c) ->
    (forall c2 out2, apply_replication c = Ok (c2, out2) -> cops_safe c2 ops = true) ->
    client_frame c ops = Ok (c', out) ->
    nb c' /\ cli_invr (ncl c') lupd muts /\
    (forall g e a, conf_sincer (ncl c) (map strip (cl_inbox_upd c) ++ lupd) g e a -> conf_sincer (ncl c') lupd g e a) /\
    cl_inbox_upd c' = [] /\ cl_inbox_mut c' = [] /\ cl_status c' = Connected /\
    (forall m, In m (cl_buffered c') -> In m (cl_inbox_mut c ++ cl_buffered c)) /\
    (forall i, In i (cfo_acks out) -> exists m, In m (cl_inbox_mut c ++ cl_buffered c) /\ m_idx m = i /\
       forall e vals, In (e, vals) (m_body m) -> cgr (ncl c') lupd 0 e (m_tick m)) /\
    struct_equiv (fold_left abs_apply lupd (client_struct (ncl c')))
                 (fold_left abs_apply (map strip (cl_inbox_upd c) ++ lupd) (client_struct (ncl c))) /\
    cl_upd_tick c' = last (map u_tick (cl_inbox_upd c)) (cl_upd_tick c) /\
    cl_buffered c' = filter (gated (cl_upd_tick c')) (fold_left (fun b m => buffer_insert m b) (cl_inbox_mut c) (cl_buffered c)) /\
    cfo_acks out = map m_idx (filter (fun m => negb (gated (cl_upd_tick c') m)) (fold_left (fun b m => buffer_insert m b) (cl_inbox_mut c) (cl_buffered c))).
  Proof.
    intros Hnb Hi Hsub Hc Hmk Hops H.
    assert (Htick' : cl_upd_tick c' = last (map u_tick (cl_inbox_upd c)) (cl_upd_tick c)).
    { pose proof H as H'. unfold client_frame in H'. rewrite Hc, andb_false_r in H'. apply bind_ok in H'. destruct H' as [[c2' out2'] [E' H']].
      inversion H'; subst c' out. cbn [set_locals cl_upd_tick]. rewrite cops_keep_tick. exact (replication_tick_is_last c c2' out2' E'). }
    destruct (frame_clears_inbox c ops c' out Hc H) as [Hinb Hst].
    unfold client_frame in H. rewrite Hc, andb_false_r in H.
    apply bind_ok in H. destruct H as [[c2 out2] [E H]]. inversion H; subst c' out. clear H.
    pose proof (Hops c2 out2 E) as Hsafe.
    unfold apply_replication in E. apply bind_ok in E. destruct E as [c1 [E1 E]].
    change (fold_left (res_step apply_update_message) (cl_inbox_upd c) (Ok c) = Ok c1) in E1. fold (merge_mut_inbox c1) in E.
    destruct (inboxm_fold muts _ c lupd c1 Hnb Hi Hmk E1) as (Hnb1 & Hi1 & Hcf1 & [B1 B2] & Est1 & Sfold).
    (* the mutate messages, on the normal form *)
    set (vz := drop_upd_inbox (ncl c1)).
    assert (Hiz : cli_invr vz (cl_inbox_upd vz ++ lupd) muts) by (apply (clir_ext slot SN (ncl c1) vz); try reflexivity; exact Hi1).
    assert (Hfz : client_frame vz [] = Ok (set_locals (ncl c2), out2)).
    { apply frame_drop_inbox; [rewrite Est1; exact Hc|exact E]. }
    assert (Hsubz : forall m, In m (cl_inbox_mut vz ++ cl_buffered vz) -> In m muts).
    { intros m Hm. apply Hsub. cbn [vz drop_upd_inbox ncl cl_inbox_mut cl_buffered] in Hm. rewrite B1, B2 in Hm. exact Hm. }
    assert (Hcz : cl_status vz = Connected) by (cbn [vz drop_upd_inbox ncl cl_status]; rewrite Est1; exact Hc).
    destruct (clir_frame slot SN SNinj SNkeep SNsmall SNwf vz lupd muts [] (set_locals (ncl c2)) out2 Hiz Hsubz Hcz Hfz)
      as (Hi2 & Hcf2 & _ & _ & _ & Hbuf2 & Hacks2 & Sfr & _ & _ & _).
    (* the client operations *)
    assert (Hcs2n : cs_inv (ncl (set_locals c2))) by exact (cr_cs _ _ _ _ _ Hi2).
    pose proof (cs_inv_of_ncl (set_locals c2) Hcs2n) as Hcs2l.
    assert (Hcs2 : cs_inv c2) by (revert Hcs2l; apply cs_inv_ext; reflexivity).
    assert (Hnb2 : nb c2).
    { pose proof (mutate_messages_rel nbR nbR_refl nbR_trans) as G. unfold nbR in G.
      refine (G _ _ (merge_mut_inbox c1) c2 out2 E _).
      - intros c0 tick s comps r E0 H0. exact (nb_mutations c0 tick s comps r H0 E0).
      - intros c0 b m. apply nb_ext. reflexivity.
      - revert Hnb1. apply nb_ext. reflexivity. }
    set (c3 := fold_left apply_cop ops c2) in *.
    destruct (cops_step ops c2 Hcs2 Hsafe) as [Hcs3 _]. fold c3 in Hcs3.
    pose proof (nb_cops ops c2 Hnb2) as Hnb3. fold c3 in Hnb3.
    assert (Hnb' : nb (set_locals c3)) by (revert Hnb3; apply nb_ext; reflexivity).
    assert (Hcs' : cs_inv (set_locals c3)) by (revert Hcs3; apply cs_inv_ext; reflexivity).
    assert (Hall : forall e, centof (ncl (set_locals c3)) e = centof (set_locals (ncl c2)) e).
    { intros e. rewrite centof_ncl. rewrite (centof_ext c3 (set_locals c3) e eq_refl eq_refl). unfold c3. rewrite (centof_cops ops c2 e Hcs2 Hsafe).
      rewrite <- centof_ncl. apply centof_ext; reflexivity. }
    assert (Hi' : cli_invr (ncl (set_locals c3)) lupd muts).
    { apply (clir_centof slot SN (set_locals (ncl c2)) (ncl (set_locals c3))); [| |exact Hall| | | |exact Hi2].
      - cbn [ncl set_locals cl_s2c]. unfold c3. apply cops_keep_s2c.
      - cbn [ncl set_locals cl_c2s]. unfold c3. apply cops_c2s.
      - apply cs_inv_ncl; assumption.
      - apply pu_ncl_cs. apply cs_inv_ncl; assumption.
      - cbn [ncl set_locals cl_upd_tick]. unfold c3. apply cops_keep_tick. }
    destruct (cops_fields ops c2) as (K1 & K2 & K3 & K4). fold c3 in K1, K2, K3, K4.
    destruct (mutate_messages_kept_acks (merge_mut_inbox c1) c2 out2 E) as [Kb Ka].
    pose proof (mutate_messages_keep_inbox_mut (merge_mut_inbox c1) c2 out2 E) as Kim.
    assert (Hbm : forall m, In m (cl_buffered (merge_mut_inbox c1)) -> In m (cl_inbox_mut c ++ cl_buffered c)).
    { intros m Hin. unfold merge_mut_inbox in Hin. cbn in Hin. apply fold_buffer_insert_in in Hin. rewrite B1, B2 in Hin. exact Hin. }
    split; [exact Hnb'|]. split; [exact Hi'|]. split.
    { intros g e a Hcs0. apply (conf_sincer_cg SN (set_locals (ncl c2)) lupd _ lupd g g e a); [intros t; apply cgr_ext; exact Hall|].
      apply Hcf2. cbn [vz drop_upd_inbox cl_inbox_upd app].
      apply (conf_sincer_cg SN (ncl c1) lupd vz lupd g g e a); [intros t; apply cgr_ext; intros e0; apply centof_ext; reflexivity|].
      exact (Hcf1 g e a Hcs0). }
    split; [exact Hinb|]. split.
    { cbn [set_locals cl_inbox_mut]. rewrite K2, Kim. reflexivity. }
    split; [exact Hst|]. split.
    { intros m Hin. cbn [set_locals cl_buffered] in Hin. rewrite K3, Kb in Hin. apply filter_In in Hin. exact (Hbm m (proj1 Hin)). }
    split.
    { intros i Hin. destruct (Hacks2 i Hin) as (m & Hm & Ei & Hcg). exists m. split.
      - cbn [vz drop_upd_inbox ncl cl_inbox_mut cl_buffered] in Hm. rewrite B1, B2 in Hm. exact Hm.
      - split; [exact Ei|]. intros e vals Hb. apply (cgr_ext (set_locals (ncl c2))); [exact Hall|]. exact (Hcg e vals Hb). }
    split.
    { eapply struct_equiv_trans; [|exact Sfold].
      eapply struct_equiv_trans; [|exact Sfr]. apply abs_apply_fold_equiv.
      apply (client_struct_centof (set_locals (ncl c2)) (ncl (set_locals c3))); [exact (cr_cs _ _ _ _ _ Hi2)|exact (cr_cs _ _ _ _ _ Hi')| |exact Hall].
      cbn [ncl set_locals cl_s2c]. unfold c3. apply cops_keep_s2c. }
    split; [exact Htick'|].
    assert (Ecm : cl_buffered (merge_mut_inbox c1) = fold_left (fun b m => buffer_insert m b) (cl_inbox_mut c) (cl_buffered c)).
    { unfold merge_mut_inbox. cbn. rewrite B1, B2. reflexivity. }
    assert (Etcm : cl_upd_tick (merge_mut_inbox c1) = cl_upd_tick (set_locals c3)).
    { rewrite Htick'. unfold merge_mut_inbox. cbn. exact (update_fold_tick _ _ _ E1). }
    cbn [set_locals cl_buffered]. rewrite K3. cbn [cfo_acks] in Ka. rewrite <- Ecm, <- Etcm. split; [exact Kb|exact Ka].
  Qed.
End FrameM.
