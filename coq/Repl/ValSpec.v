(* C02 / C01 end to end at the value level: definitions.

   Scope (on top of Repl/StructE2EMut_proofs.v: legal single-session scripts without SMap, policy PAll,
   fewer than 2^31 ticking frames):
     script_vals   every component written by the script is of kind 0 or 1 (rate EveryTick) and holds a
                   `VNat`; no `SUnmark` (a server entity is replicated during at most one interval of
                   its life: marked once, then despawned; re-replication of the same id is out of scope)
     no_tick0      no replication at replicon tick 0 (the client's initial update tick 0 also means
                   "nothing received": known defect D19)
     regs_of       number of mutate messages registered for a slot: below 2^16 the mutate index never wraps

   snap            a server state right after a server frame that ran `send_replication`, with its replicon
                   tick and its run stamp (`this_run`, kept in `sv_last_run` afterwards)
   keeps           a component record that is older than stamp r is already in the older snapshot
   agree           the components of a client entity carry the values of the server components (common kinds)
   cg              "the client has (or will have, or will never again need) entity e confirmed at tick t or later"

   Lemmas: Repl/ValSnap_proofs.v, Repl/ValHist_proofs.v (server history), Repl/ValServer_proofs.v,
   Repl/ValClient_proofs.v, Repl/ValE2E_proofs.v; pinned statements: Properties/C02E.v. *)
From RV Require Import Lib.Res Repl.ClientTicks Repl.World Vis.Visibility Tick.RepliconTick Tick.ConfirmHistory
  Tick.MutateTicks Repl.Server Repl.ServerSpec Repl.StructSpec Repl.Client Repl.Sys Repl.ClientStructSpec
  Repl.ClientStruct_proofs Repl.StructE2E_proofs Repl.StructE2EMut_proofs.
Open Scope N_scope.

(* ================================================================== *)
(* 1. scripts                                                         *)
(* ================================================================== *)

Definition val_nat (v : val) : bool := match v with VNat _ => true | VRef _ => false end.
Definition kind01 (k : N) : bool := (k =? 0) || (k =? 1).

(* kinds 0 / 1 holding `VNat`; no `SUnmark` *)
Definition sop_vals (op : sop) : bool :=
  match op with
  | SSpawn _ _ comps => forallb (fun kv => kind01 (fst kv) && val_nat (snd kv)) comps
  | SInsert _ k v => kind01 k && val_nat v
  | SMutate _ k v => kind01 k && val_nat v
  | SUnmark _ => false
  | _ => true
  end.
Definition step_vals (st : step) : bool :=
  match st with StSFrame _ _ _ ops _ => forallb sop_vals ops | _ => true end.
Definition script_vals (script : list step) : bool := forallb step_vals script.

(* no replication TO A CLIENT at replicon tick 0: the first server frame of the script increments the tick, or
   the server has not been started before it (then the frame only consumes the pending change of
   `ServerTick`), or no client has connected before it (then the run at tick 0 sends nothing) *)
Inductive t0_state := T0A (started connected : bool) | T0ok | T0bad.
Definition t0_step (a : t0_state) (st : step) : t0_state :=
  match a with
  | T0A started connected =>
    match st with
    | StStart => T0A true connected
    | StConnect _ _ => T0A started (connected || started)
    | StSFrame tick _ _ _ _ => if tick then T0ok else if started && connected then T0bad else T0ok
    | _ => a
    end
  | _ => a
  end.
Definition no_tick0 (script : list step) : bool :=
  match fold_left t0_step script (T0A false false) with T0bad => false | _ => true end.

(* mutate messages registered for a slot by a step *)
Definition regs_step (y : sys) (st : step) (slot : N) : N :=
  match st with
  | StSFrame tick dt cleanup ops parts =>
    match server_frame (y_cfg y) (y_server y) tick dt cleanup ops parts with
    | Ok (_, fo) => N.of_nat (length (mutates_for slot (fo_clients fo)))
    | _ => 0
    end
  | _ => 0
  end.
Fixpoint regs_of (y : sys) (script : list step) (slot : N) : N :=
  match script with
  | [] => 0
  | st :: rest =>
    match sys_step y st with
    | Ok (y', _) => regs_step y st slot + regs_of y' rest slot
    | _ => 0
    end
  end.

(* ================================================================== *)
(* 2. server history                                                  *)
(* ================================================================== *)

Section Snap.
  Variables (cfg0 : cfg) (nclients : N).

  (* [s1] is the server right after a frame of the script that ran `send_replication` at replicon
     tick [t] with run stamp [r] *)
  Definition snap (script : list step) (t r : N) (s1 : server) : Prop :=
    exists pre post y0 y1 tk dt cu ops parts fo vs,
      script = pre ++ StSFrame tk dt cu ops parts :: post /\
      run (sys_init cfg0 nclients) pre = Ok y0 /\
      sys_step y0 (StSFrame tk dt cu ops parts) = Ok (y1, OSFrame fo vs) /\ fo_ran fo = true /\
      y_server y1 = s1 /\ sv_tick s1 = t /\ sv_last_run s1 = r.
End Snap.

(* every component record of [s2] not changed after stamp [r] is in [s1], identically *)
Definition keeps (r : N) (s1 s2 : server) : Prop :=
  forall e x2 k c, get_ent s2 e = Some x2 -> al_get k (se_comps x2) = Some c -> c_changed c <= r ->
    exists x1, get_ent s1 e = Some x1 /\ al_get k (se_comps x1) = Some c.

(* despawned for good (no `SSpawn` reuses the id, every operation on a dead entity is a no-op) *)
Definition dead (s : server) (e : N) : Prop := exists x, get_ent s e = Some x /\ se_alive x = false.

(* strictly increasing keys *)
Fixpoint ksorted {V : Type} (l : list (N * V)) : Prop :=
  match l with
  | [] => True
  | (k, _) :: t => (forall k', In k' (map fst t) -> k < k') /\ ksorted t
  end.

Section Hist.
  Variables (cfg0 : cfg) (nclients : N).

  (* what the scan of [no_tick0] knows about the server *)
  Definition t0_inv (script : list step) (s : server) : Prop :=
    match fold_left t0_step script (T0A false false) with
    | T0A started connected =>
      sv_tick s = 0 /\ sv_dirty s = true /\ (sv_running s = true -> started = true) /\
      (connected = false -> sv_clients s = []) /\
      (forall t r s1, ~ snap cfg0 nclients script t r s1)
    | T0ok => (sv_dirty s = true -> 1 <= sv_tick s) /\
              (forall t r s1, snap cfg0 nclients script t r s1 -> 1 <= t \/ sv_clients s1 = [])
    | T0bad => True
    end.

  Record srv_hist (script : list step) (s : server) : Prop := mkSrvHist {
    sh_wf : ents_wf s;
    sh_nat : forall e x k c, get_ent s e = Some x -> In (k, c) (se_comps x) ->
             kind01 k = true /\ val_nat (c_val c) = true;
    sh_sorted : forall e x, get_ent s e = Some x -> ksorted (se_comps x);
    sh_stamp : forall e x k c, get_ent s e = Some x -> In (k, c) (se_comps x) ->
               c_added c <= c_changed c /\ c_changed c <= sv_now s;
    sh_now : sv_last_run s < sv_now s;
    sh_tick : sv_tick s = tick_frames script;
    sh_bound : forall t r s1, snap cfg0 nclients script t r s1 ->
               r <= sv_last_run s /\ t <= sv_tick s /\ (sv_dirty s = true -> t < sv_tick s);
    sh_inj : forall t1 r1 s1 t2 r2 s2, snap cfg0 nclients script t1 r1 s1 -> snap cfg0 nclients script t2 r2 s2 ->
             (r1 = r2 -> t1 = t2 /\ s1 = s2) /\ (r1 < r2 -> t1 < t2);
    sh_keep : forall t1 r1 s1, snap cfg0 nclients script t1 r1 s1 -> keeps r1 s1 s;
    sh_keep2 : forall t1 r1 s1 t2 r2 s2, snap cfg0 nclients script t1 r1 s1 -> snap cfg0 nclients script t2 r2 s2 ->
               r1 <= r2 -> keeps r1 s1 s2;
    sh_db : forall e, In e (sv_despawn_buf s) -> dead s e;
    sh_t0 : t0_inv script s
  }.
End Hist.

(* ================================================================== *)
(* 3. the client side                                                 *)
(* ================================================================== *)

Definition cv_nat (v : val) : cval := match v with VNat n => CNat n | VRef e => CRef e end.

(* the client components carry the server values, on the kinds both have *)
Definition agree (cc : list (N * cval)) (sc : list (N * comp)) : Prop :=
  forall k cv c, al_get k cc = Some cv -> al_get k sc = Some c -> cv = cv_nat (c_val c).

(* ... and the same kinds *)
Definition same_kinds (cc : list (N * cval)) (sc : list (N * comp)) : Prop :=
  forall k, al_get k cc <> None <-> al_get k sc <> None.

(* the client entity that stands for server entity [e] *)
Definition centof (c : client) (e : N) : option cent :=
  match al_get e (cl_s2c c) with Some cid => get_cent c cid | None => None end.

(* server entity [e] is held by the client as the live replica [x] with confirm history [h] *)
Definition has (c : client) (e : N) (x : cent) (h : hist) : Prop :=
  centof c e = Some x /\ ce_alive x = true /\ ce_marker x = true /\ ce_hist x = Some h.

(* every mapped client entity is a live replica with a confirm history (no placeholders: no references) *)
Definition mapped_ok (c : client) : Prop :=
  forall e cid, al_get e (cl_s2c c) = Some cid -> exists x h, has c e x h.

Definition has_conf (c : client) (e t : N) : Prop := exists x h, has c e x h /\ t <= h_last h.

Definition mentions (u : update_msg) (e : N) : Prop :=
  In e (map fst (u_removals u)) \/ In e (map fst (u_changes u)).

(* an update message still on its way (tick below [g]) will confirm [e] at [t] or later *)
Definition will_conf (pend : list update_msg) (g e t : N) : Prop :=
  exists u, In u pend /\ u_tick u < g /\ mentions u e /\ t <= u_tick u.

(* the entity is dead on the server, unknown to the client, and nothing on its way mentions it *)
Definition gone (s : server) (c : client) (pend : list update_msg) (e : N) : Prop :=
  dead s e /\ centof c e = None /\ forall u, In u pend -> ~ mentions u e.

Definition cg (s : server) (c : client) (pend : list update_msg) (g e t : N) : Prop :=
  will_conf pend g e t \/ has_conf c e t \/ gone s c pend e.

(* an entry (entity [e], values [vals]) of an update or mutate message built at the snapshot [s1]:
   the values are those of the snapshot, and every component of the snapshot that is not in the entry
   is not newer than stamp [a] *)
Definition entry_vals (s1 : server) (e : N) (vals : list (N * val)) : Prop :=
  NoDup (map fst vals) /\
  exists x1, get_ent s1 e = Some x1 /\
    forall k v, In (k, v) vals -> val_nat v = true /\ exists c, al_get k (se_comps x1) = Some c /\ c_val c = v.
Definition entry_full (s1 : server) (e : N) (vals : list (N * val)) : Prop :=
  forall x1 k c, get_ent s1 e = Some x1 -> al_get k (se_comps x1) = Some c -> In k (map fst vals).
Definition entry_since (s1 : server) (e : N) (vals : list (N * val)) (a : N) : Prop :=
  forall x1 k c, get_ent s1 e = Some x1 -> al_get k (se_comps x1) = Some c -> In k (map fst vals) \/ c_changed c <= a.

(* ---------- what the client writes ---------- *)

Definition vals_nat (vals : list (N * val)) : Prop := forall k v, In (k, v) vals -> val_nat v = true.

(* `write_comps` on values without references: every value replaces / is inserted under its kind *)
Definition wr_comps (vals : list (N * val)) (base : list (N * cval)) : list (N * cval) :=
  fold_left (fun acc kv => kinsert (fst kv) (cv_nat (snd kv)) acc) vals base.

Definition comps_of (o : option cent) : list (N * cval) := match o with Some x => ce_comps x | None => [] end.

(* a live replica confirmed at tick [T] *)
Definition live_at (T : N) (x : cent) : Prop :=
  ce_alive x = true /\ ce_marker x = true /\ exists h, ce_hist x = Some h /\ h_last h = T.

Definition rm_comps (ks : list N) (l : list (N * cval)) : list (N * cval) :=
  filter (fun kv => negb (mem_N (fst kv) ks)) l.

Definition al_dflt {V : Type} (k : N) (l : list (N * list V)) : list V :=
  match al_get k l with Some v => v | None => [] end.

(* ================================================================== *)
(* 4. the invariant of a connected client and its server record       *)
(* ================================================================== *)

(* update messages as the server builds them in the scope of this development *)
Definition upd_shape (u : update_msg) : Prop :=
  u_maps u = [] /\ NoDup (map fst (u_removals u)) /\ NoDup (map fst (u_changes u)) /\
  forall e vals, In (e, vals) (u_changes u) -> vals_nat vals.

(* a despawn on its way: the entity is dead for good and is not mentioned at or after that message *)
Definition desp_ok (s : server) (pend : list update_msg) : Prop :=
  forall p u q, pend = p ++ u :: q -> forall e, In e (u_despawns u) ->
    dead s e /\ ~ mentions u e /\ forall u', In u' q -> ~ mentions u' e.

Section Inv.
  (* the snapshots of the run so far: tick, run stamp, server state *)
  Variable SN : N -> N -> server -> Prop.

  (* the client has, will have, or will never need entity [e] as of the snapshot with run stamp [a] *)
  Definition conf_since (s : server) (c : client) (pend : list update_msg) (g e a : N) : Prop :=
    exists t_a s_a, SN t_a a s_a /\ cg s c pend g e t_a.

  (* what a message built at snapshot [s1] promises about its entry for [e] *)
  Definition ent_promise (s : server) (c : client) (pend : list update_msg) (g : N) (s1 : server) (e : N)
             (vals : list (N * val)) : Prop :=
    entry_vals s1 e vals /\
    (entry_full s1 e vals \/ exists a, entry_since s1 e vals a /\ conf_since s c pend g e a).

  Definition upd_ok (s : server) (c : client) (pend : list update_msg) (u : update_msg) : Prop :=
    upd_shape u /\
    exists r s1, SN (u_tick u) r s1 /\
      forall e, mentions u e -> ent_promise s c pend (u_tick u) s1 e (al_dflt e (u_changes u)).

  (* entity [e] has had the same component kinds in every snapshot from run stamp [a] up to the snapshot [s1] of run [r1] *)
  Definition kstable (r1 : N) (s1 : server) (e a : N) : Prop :=
    forall t r s0, SN t r s0 -> a <= r -> r <= r1 ->
      ClientStruct_proofs.opt_equiv (al_get e (struct_of s0)) (al_get e (struct_of s1)).

  Definition mut_ok (s : server) (c : client) (pend : list update_msg) (m : mutate_msg) : Prop :=
    m_upd_tick m <= m_tick m /\
    exists r s1, SN (m_tick m) r s1 /\
      forall e vals, In (e, vals) (m_body m) ->
        entry_vals s1 e vals /\
        exists a, entry_since s1 e vals a /\ conf_since s c pend (m_upd_tick m + 1) e a /\ kstable r s1 e a.

  (* [pend]: update messages sent and not yet applied (inbox ++ queue), [muts]: mutate messages in the
     queue, the inbox or the buffer *)
  Record cli_inv (s : server) (c : client) (pend : list update_msg) (muts : list mutate_msg) : Prop := mkCliInv {
    cv_cs : cs_inv c;
    cv_pu : ClientStruct_proofs.pu c;
    cv_mo : mapped_ok c;
    (* T: a replica has the component kinds and carries the values of the snapshot of its confirmed tick *)
    cv_T : forall e x h, has c e x h ->
           exists r s1 x1, SN (h_last h) r s1 /\ repl_get s1 e = Some x1 /\ agree (ce_comps x) (se_comps x1) /\
                           kinds_equiv (map fst (ce_comps x)) (map fst (se_comps x1));
    cv_ut : cl_upd_tick c = 0 \/ exists r s1, SN (cl_upd_tick c) r s1;
    cv_lt : forall u, In u pend -> cl_upd_tick c < u_tick u;
    cv_incr : ticks_incr pend;
    cv_pend : forall u, In u pend -> upd_ok s c pend u;
    cv_muts : forall m, In m muts -> mut_ok s c pend m;
    cv_desp : desp_ok s pend;
    (* applying what is on its way up to an update message gives the structure of its snapshot *)
    cv_struct : forall p u q, pend = p ++ u :: q ->
                exists r s1, SN (u_tick u) r s1 /\
                  struct_equiv (fold_left abs_apply (p ++ [u]) (client_struct c)) (struct_of s1)
  }.

  (* [cl]: the server's record of the client, [acks]: acknowledged indices on their way *)
  Record srv_slot_inv (s : server) (cl : sclient) (c : client) (pend : list update_msg) (muts : list mutate_msg)
         (acks : list N) : Prop := mkSrvSlot {
    (* K: an acknowledged stamp is backed by the client *)
    sv_K : forall e a, mutation_tick (sc_ticks cl) e = Some a -> conf_since s c pend (sv_tick s + 1) e a;
    sv_ack : forall i info e, In i acks -> al_get i (ct_mutations (sc_ticks cl)) = Some info -> In e (mi_entities info) ->
             conf_since s c pend 0 e (ClientTicks.mi_tick info);
    sv_reg : forall m info, In m muts -> al_get (m_idx m) (ct_mutations (sc_ticks cl)) = Some info ->
             (exists s1, SN (m_tick m) (ClientTicks.mi_tick info) s1) /\ mi_entities info = map fst (m_body m);
    sv_midx : forall m, In m muts -> m_idx m < ct_mutate_index (sc_ticks cl);
    sv_aidx : forall i, In i acks -> i < ct_mutate_index (sc_ticks cl);
    sv_ut : ct_update_tick (sc_ticks cl) <= sv_tick s;
    sv_utp : forall u, In u pend -> u_tick u <= ct_update_tick (sc_ticks cl);
    sv_nd : NoDup (al_keys (ct_mutations (sc_ticks cl)));
    (* since the run of its acknowledged stamp an entity has had the kinds the client has (will have) *)
    sv_SK : forall e a, mutation_tick (sc_ticks cl) e = Some a -> forall t r s0, SN t r s0 -> a <= r ->
            ClientStruct_proofs.opt_equiv (al_get e (struct_of s0)) (al_get e (fold_left abs_apply pend (client_struct c)));
    (* stamps are below the counter *)
    sv_le : (forall e a, mutation_tick (sc_ticks cl) e = Some a -> a < sv_now s) /\
            (forall i info, al_get i (ct_mutations (sc_ticks cl)) = Some info -> ClientTicks.mi_tick info < sv_now s);
    (* the update tick the server keeps is the tick of the last update message sent; mutate messages require no later one *)
    sv_mupd : forall m, In m muts -> m_upd_tick m <= ct_update_tick (sc_ticks cl);
    sv_last : ct_update_tick (sc_ticks cl) = last (map u_tick pend) (cl_upd_tick c)
  }.
End Inv.

(* ================================================================== *)
(* 5. convergence                                                     *)
(* ================================================================== *)

(* the value a client holds / the server replicates for component [k] of server entity [e] *)
Definition cview (c : client) (e k : N) : option cval :=
  match centof c e with
  | Some x => if ce_alive x && ce_marker x then al_get k (ce_comps x) else None
  | None => None
  end.
Definition sview (s : server) (e k : N) : option val :=
  match repl_get s e with
  | Some x => option_map c_val (al_get k (se_comps x))
  | None => None
  end.

(* a bound for [regs_of] that does not depend on the slot: all mutate messages of all frames *)
Definition regs_all_step (y : sys) (st : step) : N :=
  match st with
  | StSFrame tick dt cleanup ops parts =>
    match server_frame (y_cfg y) (y_server y) tick dt cleanup ops parts with
    | Ok (_, fo) => N.of_nat (length (flat_map co_mutates (fo_clients fo)))
    | _ => 0
    end
  | _ => 0
  end.
Fixpoint regs_all (y : sys) (script : list step) : N :=
  match script with
  | [] => 0
  | st :: rest =>
    match sys_step y st with
    | Ok (y', _) => regs_all_step y st + regs_all y' rest
    | _ => 0
    end
  end.
