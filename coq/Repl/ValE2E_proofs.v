(* C02 / C01 end to end at the value level: the invariant over whole-system runs (Repl/Sys.v `run` from
   `sys_init`), composed from the client half (Repl/ValCli_proofs.v), the server half
   (Repl/ValSrv_proofs.v), the server history (Repl/ValHist_proofs.v) and the structural invariant of
   Repl/StructE2EMut_proofs.v (`m_run`).  Theorems T (truthfulness), K (acknowledged stamps are backed by
   the client) and Q (convergence) are at the end. *)
From RV Require Import Lib.Res Repl.ClientTicks Repl.ClientTicks_proofs Repl.World Vis.Visibility
  Tick.RepliconTick Tick.RepliconTick_proofs Tick.ConfirmHistory Tick.MutateTicks
  Repl.Server Repl.ServerSpec Repl.Server_proofs Wire.AckCodec Wire.AckCodec_proofs Repl.Ack_proofs Repl.StructSpec Repl.Struct_proofs
  Repl.StructOps_proofs Repl.StructRun_proofs
  Repl.Client Repl.Sys Repl.Client_proofs Repl.ClientEnt_proofs Repl.ClientMut_proofs Repl.ClientSys_proofs
  Repl.ClientStructSpec Repl.ClientStruct_proofs Repl.ClientHist_proofs Repl.StructE2E_proofs Repl.StructE2EMut_proofs
  Repl.ValSpec Repl.ValSnap_proofs Repl.ValHist_proofs Repl.ValClient_proofs Repl.ValServer_proofs Repl.ValCli_proofs
  Repl.ValSrv_proofs Repl.ValFrame_proofs.
From Coq Require Import ZifyBool ZifyN.
Open Scope N_scope.
Ltac Zify.zify_post_hook ::= Z.div_mod_to_equations.
Arguments N.add : simpl never. Arguments N.mul : simpl never. Arguments N.pow : simpl never.
Arguments N.ltb : simpl never. Arguments N.leb : simpl never. Arguments N.div : simpl never.
Arguments N.modulo : simpl never. Arguments N.sub : simpl never. Arguments N.eqb : simpl never.

(* ================================================================== *)
(* 0. the invariant                                                   *)
(* ================================================================== *)

(* what is on its way for a slot *)
Definition pend_of (y : sys) (slot : N) (c : client) : list update_msg := cl_inbox_upd c ++ l_upd (get_link y slot).
Definition muts_of (y : sys) (slot : N) (c : client) : list mutate_msg :=
  l_mut (get_link y slot) ++ cl_inbox_mut c ++ cl_buffered c.
Definition acks_of (y : sys) (slot : N) : list N :=
  acks_for slot (sv_inbox_acks (y_server y)) ++ concat (l_ack (get_link y slot)).

Section ValInv.
  Variable SN : N -> N -> server -> Prop.

  Record vslot_inv (y : sys) (regs : N) (slot : N) (c : client) : Prop := mkVSlot {
    (* a client that has never been connected *)
    vs_idle : cl_status c = Disconnected ->
              cl_s2c c = [] /\ cl_upd_tick c = 0 /\ acks_of y slot = [] /\ regs = 0;
    vs_cli : cl_status c = Connected -> cli_inv SN (y_server y) c (pend_of y slot c) (muts_of y slot c);
    vs_srv : cl_status c = Connected -> forall cl, In cl (sv_clients (y_server y)) -> sc_slot cl = slot ->
             srv_slot_inv SN (y_server y) cl c (pend_of y slot c) (muts_of y slot c) (acks_of y slot) /\
             ct_mutate_index (sc_ticks cl) = regs /\
             (sc_authorized cl = false -> sc_ticks cl = ct_default)
  }.
End ValInv.

Lemma acks_for_app slot a b : acks_for slot (a ++ b) = acks_for slot a ++ acks_for slot b.
Proof. unfold acks_for. rewrite filter_app, map_app, concat_app. reflexivity. Qed.

Lemma acks_for_other slot slot0 idxs : slot <> slot0 -> acks_for slot [(slot0, idxs)] = [].
Proof. intros H. unfold acks_for. cbn [filter fst]. replace (slot0 =? slot) with false by lia. reflexivity. Qed.

Lemma acks_for_same slot idxs : acks_for slot [(slot, idxs)] = idxs.
Proof. unfold acks_for. cbn [filter fst]. rewrite N.eqb_refl. cbn. apply app_nil_r. Qed.

(* a step that leaves the replicas of a client alone, may move or drop what is on its way, and changes
   the server only in ways the invariant does not read *)
Lemma vslot_mono (SN SN' : N -> N -> server -> Prop) y y' regs slot c c' :
  (forall t r s1, SN t r s1 -> SN' t r s1) -> (forall t r s1, SN' t r s1 -> SN t r s1) ->
  (forall e, dead (y_server y) e -> dead (y_server y') e) -> sv_tick (y_server y) <= sv_tick (y_server y') ->
  sv_now (y_server y) <= sv_now (y_server y') ->
  (cl_status c = Connected -> forall cl', In cl' (sv_clients (y_server y')) -> sc_slot cl' = slot ->
     exists cl, In cl (sv_clients (y_server y)) /\ sc_slot cl = slot /\ sc_ticks cl' = sc_ticks cl /\
                (sc_authorized cl' = false -> sc_authorized cl = false)) ->
  cl_status c' = cl_status c -> cl_s2c c' = cl_s2c c -> cl_c2s c' = cl_c2s c -> cl_ents c' = cl_ents c ->
  cl_next c' = cl_next c -> cl_upd_tick c' = cl_upd_tick c ->
  (cl_status c = Connected -> pend_of y' slot c' = pend_of y slot c) ->
  (cl_status c = Connected -> forall m, In m (muts_of y' slot c') -> In m (muts_of y slot c)) ->
  (forall i, In i (acks_of y' slot) -> In i (acks_of y slot)) ->
  vslot_inv SN y regs slot c -> vslot_inv SN' y' regs slot c'.
Proof.
  intros Hsn Hback Hdead Htk Hnw Hrec Est E1 E2 E3 E4 E5 Hp Hm Ha [V1 V2 V3]. constructor.
  - intros Hd. rewrite Est in Hd. destruct (V1 Hd) as (A & B & C & D). rewrite E1, E5. split; [exact A|]. split; [exact B|]. split; [|exact D].
    destruct (acks_of y' slot) as [|i t] eqn:E; [reflexivity|]. exfalso. specialize (Ha i (or_introl eq_refl)). rewrite C in Ha. destruct Ha.
  - intros Hc. rewrite Est in Hc. rewrite (Hp Hc). apply (cli_inv_muts SN' _ _ _ (muts_of y slot c)); [exact (Hm Hc)|].
    apply (cli_inv_srv SN SN' (y_server y)); [exact Hsn|intros t r s0 H0; left; exact (Hback _ _ _ H0)|exact Hdead|].
    apply (cli_inv_ext SN (y_server y) c c'); try assumption. exact (V2 Hc).
  - intros Hc cl' Hin Hs. rewrite Est in Hc. destruct (Hrec Hc cl' Hin Hs) as (cl & Hin0 & Hs0 & Et & Eau).
    destruct (V3 Hc cl Hin0 Hs0) as (A & B & C). split; [|split; [rewrite Et; exact B|intros Hu; rewrite Et; exact (C (Eau Hu))]].
    rewrite (Hp Hc). apply (srv_slot_ticks SN' _ cl cl'); [exact Et|].
    apply (srv_slot_sub SN' _ cl c' _ (muts_of y slot c) (acks_of y slot)); [exact (Hm Hc)|exact Ha|].
    apply (srv_slot_srv SN SN' (y_server y)); [exact Hsn|intros e0 a0 t0 r0 s0 _ H0 _; exact (Hback _ _ _ H0)|exact Hdead|exact Htk|exact Hnw|].
    apply (srv_slot_mono SN (y_server y) cl c (pend_of y slot c) (muts_of y slot c) (acks_of y slot) (y_server y) c' (pend_of y slot c));
      [reflexivity|reflexivity|auto| | | |exact A].
    + intros g e a. apply (conf_since_cg SN). intros t. apply cg_ext. intros e0. apply centof_ext; assumption.
    + rewrite (client_struct_ext c c' E1 E3). apply struct_equiv_refl.
    + rewrite E5. reflexivity.
Qed.

Lemma deliver_acks_fold_inbox slot0 picked : forall s slot i,
  In i (acks_for slot (sv_inbox_acks (fold_left (fun s idxs => deliver_acks s slot0 idxs) picked s))) ->
  In i (acks_for slot (sv_inbox_acks s)) \/ (slot = slot0 /\ In i (concat picked)).
Proof.
  induction picked as [|idxs t IH]; intros s slot i H; cbn [fold_left] in H; [left; exact H|].
  destruct (IH _ slot i H) as [H1|[H1 H2]]; [|right; split; [exact H1|cbn [concat]; apply in_or_app; right; exact H2]].
  unfold deliver_acks in H1. destruct (sv_running s); [|left; exact H1]. destruct (find_client s slot0); [|left; exact H1].
  cbn [sv_inbox_acks] in H1. rewrite acks_for_app in H1. apply in_app_or in H1. destruct H1 as [H1|H1]; [left; exact H1|].
  destruct (N.eq_dec slot slot0) as [->|Hne].
  - rewrite acks_for_same in H1. right. split; [reflexivity|]. cbn [concat]. apply in_or_app. left. exact H1.
  - rewrite (acks_for_other slot slot0 idxs Hne) in H1. destruct H1.
Qed.

Lemma deliver_acks_fold_fields slot0 picked : forall s,
  let s' := fold_left (fun s idxs => deliver_acks s slot0 idxs) picked s in
  sv_ents s' = sv_ents s /\ sv_tick s' = sv_tick s /\ sv_clients s' = sv_clients s /\ sv_now s' = sv_now s.
Proof.
  induction picked as [|idxs t IH]; intros s; cbn [fold_left]; [cbv zeta; auto|].
  destruct (IH (deliver_acks s slot0 idxs)) as (A & B & C & D). cbv zeta. rewrite A, B, C, D.
  unfold deliver_acks. destruct (sv_running s); [|auto]. destruct (find_client s slot0); cbn; auto.
Qed.

Lemma take_concat w (q p r : list (list N)) i : take w q = (p, r) -> In i (concat p ++ concat r) -> In i (concat q).
Proof.
  intros H Hin. apply in_app_or in Hin. apply in_concat. destruct Hin as [Hin|Hin]; apply in_concat in Hin; destruct Hin as [l [Hl Hi]];
    exists l; (split; [|exact Hi]).
  - exact (take_in w q p r l H (or_introl Hl)).
  - exact (take_in w q p r l H (or_intror Hl)).
Qed.

Definition same_core (c c' : client) : Prop :=
  cl_status c' = cl_status c /\ cl_s2c c' = cl_s2c c /\ cl_c2s c' = cl_c2s c /\ cl_ents c' = cl_ents c /\
  cl_next c' = cl_next c /\ cl_upd_tick c' = cl_upd_tick c.

Lemma same_core_refl c : same_core c c.
Proof. unfold same_core. auto 6. Qed.

Lemma vslot_same (SN SN' : N -> N -> server -> Prop) y y' regs slot c c' :
  (forall t r s1, SN t r s1 -> SN' t r s1) -> (forall t r s1, SN' t r s1 -> SN t r s1) ->
  sv_ents (y_server y') = sv_ents (y_server y) -> sv_tick (y_server y') = sv_tick (y_server y) ->
  sv_now (y_server y') = sv_now (y_server y) ->
  sv_clients (y_server y') = sv_clients (y_server y) -> same_core c c' ->
  (cl_status c = Connected -> pend_of y' slot c' = pend_of y slot c) ->
  (cl_status c = Connected -> forall m, In m (muts_of y' slot c') -> In m (muts_of y slot c)) ->
  (forall i, In i (acks_of y' slot) -> In i (acks_of y slot)) ->
  vslot_inv SN y regs slot c -> vslot_inv SN' y' regs slot c'.
Proof.
  intros Hsn Hback Ee Et En Ec (C1 & C2 & C3 & C4 & C5 & C6) Hp Hm Ha Hv.
  apply (vslot_mono SN SN' y y' regs slot c c'); try assumption.
  - intros e. unfold dead, get_ent. rewrite Ee. auto.
  - rewrite Et. lia.
  - rewrite En. lia.
  - intros _ cl' Hin Hs. rewrite Ec in Hin. exists cl'. auto.
Qed.

(* the client acknowledges messages it has processed *)
Lemma srv_slot_add_acks (SN : N -> N -> server -> Prop) s cl c pend muts acks new :
  (forall i, In i new -> exists m, In m muts /\ m_idx m = i /\
     forall e vals, In (e, vals) (m_body m) -> cg s c pend 0 e (m_tick m)) ->
  srv_slot_inv SN s cl c pend muts acks -> srv_slot_inv SN s cl c pend muts (acks ++ new).
Proof.
  intros Hnew [H1 H2 H3 H4 H5 H6 H7 H8 H9 H10 H11 H12]. constructor; try assumption.
  - intros i info e Hi Hinfo He. apply in_app_or in Hi. destruct Hi as [Hi|Hi]; [exact (H2 i info e Hi Hinfo He)|].
    destruct (Hnew i Hi) as (m & Hm & Ei & Hcg). subst i. destruct (H3 m info Hm Hinfo) as [[s1 Hsn] Hents].
    rewrite Hents in He. apply in_map_iff in He. destruct He as [[e' vals] [Ee Hb]]. cbn in Ee. subst e'.
    exists (m_tick m), s1. split; [exact Hsn|exact (Hcg e vals Hb)].
  - intros i Hi. apply in_app_or in Hi. destruct Hi as [Hi|Hi]; [exact (H5 i Hi)|].
    destruct (Hnew i Hi) as (m & Hm & Ei & _). subst i. exact (H4 m Hm).
Qed.

Lemma apply_cop_s2c c op : cl_s2c (apply_cop c op) = cl_s2c c.
Proof.
  destruct op as [pc|pc]; cbn [apply_cop].
  - destruct (existsb _ (cl_ents c)); reflexivity.
  - destruct (find _ (cl_ents c)) as [[cid0 x0]|]; [|reflexivity]. destruct (ce_alive x0); reflexivity.
Qed.

Lemma cops_s2c ops : forall c, cl_s2c (fold_left apply_cop ops c) = cl_s2c c.
Proof. induction ops as [|op t IH]; intros c; cbn [fold_left]; [reflexivity|]. rewrite IH. apply apply_cop_s2c. Qed.

(* a client that is not connected only runs its own operations *)
Lemma frame_disconnected_fields c ops c' out :
  cl_status c = Disconnected -> cl_s2c c = [] -> cl_upd_tick c = 0 -> client_frame c ops = Ok (c', out) ->
  cl_status c' = Disconnected /\ cl_s2c c' = [] /\ cl_upd_tick c' = 0 /\ cfo_acks out = [].
Proof.
  intros Hs H1 H2 H. unfold client_frame in H. rewrite Hs in H. cbn [negb bind] in H. rewrite andb_true_r in H.
  inversion H; subst c' out. clear H. cbn [set_locals cl_status cl_s2c cl_upd_tick cfo_acks].
  rewrite cops_s2c, cops_keep_tick. destruct (cops_fields ops (if cl_last_not_disconnected c then client_reset c else c)) as (K1 & _).
  rewrite K1. destruct (cl_last_not_disconnected c); cbn; auto.
Qed.

Lemma cframe_links y slot0 ops cl cl' cfo y' o :
  al_get slot0 (y_clients y) = Some cl -> client_frame cl ops = Ok (cl', cfo) ->
  sys_step y (StCFrame slot0 ops) = Ok (y', o) ->
  (exists pcs, y_server y' = publish_pre (y_server y) slot0 pcs) /\
  y_clients y' = al_insert slot0 cl' (y_clients y) /\
  (forall slot, slot <> slot0 -> get_link y' slot = get_link y slot) /\
  l_upd (get_link y' slot0) = l_upd (get_link y slot0) /\ l_mut (get_link y' slot0) = l_mut (get_link y slot0) /\
  (l_ack (get_link y' slot0) = l_ack (get_link y slot0) \/
   (cl_status cl' = Connected /\ l_ack (get_link y' slot0) = l_ack (get_link y slot0) ++ [cfo_acks cfo])).
Proof.
  intros Hcl Hf H. cbn [sys_step] in H. rewrite Hcl, Hf in H. cbn [bind] in H. inversion H; subst y' o. clear H.
  change (get_link (set_server ?a ?b)) with (get_link a). cbn [set_server y_server y_clients].
  destruct (cfo_acks cfo) as [|a0 ar] eqn:Ea.
  - split; [eexists; reflexivity|]. split; [reflexivity|]. split; [intros; reflexivity|]. split; [reflexivity|]. split; [reflexivity|left; reflexivity].
  - destruct (cl_status cl') eqn:Est.
    + split; [eexists; reflexivity|]. split; [reflexivity|]. split; [intros; reflexivity|]. split; [reflexivity|]. split; [reflexivity|left; reflexivity].
    + split; [eexists; reflexivity|]. split; [reflexivity|].
      split; [intros slot Hne; rewrite get_link_set_link_other by exact Hne; reflexivity|].
      rewrite get_link_set_link_same. cbn [l_upd l_mut l_ack]. split; [reflexivity|]. split; [reflexivity|]. right. split; reflexivity.
Qed.

(* a server that has nothing pending for a client has sent it exactly what it replicates now *)
Lemma quiescent_synced s t S :
  ents_wf s -> pending_ok s t S -> sv_despawn_buf s = [] -> sv_removal_buf s = [] -> sv_removed_events s = [] ->
  (forall e x madd, In (e, x, madd) (replicated_ents s) -> ent_settled (sv_last_run s) t e x madd) ->
  struct_equiv S (struct_of s).
Proof.
  intros Hwf [Hk Hg Hl Hn] Hd Hr He Hset e. rewrite (al_get_struct_of s e Hwf).
  destruct (al_get e S) as [ks|] eqn:ES; destruct (repl_get s e) as [x|] eqn:ER; cbn [option_map].
  - apply kinds_equiv_iff. intros k.
    assert (Hnd : ~ In e (sv_despawn_buf s)) by (rewrite Hd; intros []).
    destruct (proj1 (repl_get_spec s e x Hwf) ER) as [madd Hin]. destruct (Hset e x madd Hin) as (t0 & _ & _ & Hall).
    split.
    + intros Hm. destruct (in_dec N.eq_dec k (map fst (se_comps x))) as [Hi|Hni]; [exact Hi|]. exfalso.
      destruct (Hl e ks x ES ER Hnd k Hm Hni) as [(ks0 & Hb & _)|(a & Hev)]; [rewrite Hr in Hb; discriminate|rewrite He in Hev; destruct Hev].
    + intros Hi. destruct (mem_N k ks) eqn:Em; [reflexivity|]. exfalso. apply in_map_iff in Hi. destruct Hi as [[k0 cc] [E Hkc]]. cbn in E. subst k0.
      pose proof (Hn e ks x ES ER Hnd k cc Hkc Em). destruct (Hall k cc Hkc). lia.
  - exfalso. assert (Hne : al_get e S <> None) by (rewrite ES; discriminate). pose proof (Hg e Hne ER) as Hin. rewrite Hd in Hin. destruct Hin.
  - exfalso. destruct (proj1 (repl_get_spec s e x Hwf) ER) as [madd Hin]. destruct (Hset e x madd Hin) as (t0 & Hmt & _).
    apply (proj1 (Hk e)); [rewrite Hmt; discriminate|exact ES].
  - exact I.
Qed.

(* an entity the client does not hold and that nothing on its way mentions is not in what has been sent *)
Lemma abs_apply_none S u e : al_get e S = None -> ~ mentions u e -> al_get e (abs_apply S u) = None.
Proof.
  intros H0 Hnm. unfold abs_apply, mentions in *.
  set (S1 := fold_left abs_despawn (u_despawns u) S).
  assert (H1 : al_get e S1 = None) by (unfold S1; rewrite despawn_fold_get, H0; destruct (mem_N e (u_despawns u)); reflexivity).
  set (S2 := fold_left abs_removal (u_removals u) S1).
  assert (H2 : al_get e S2 = None).
  { pose proof (removal_fold_get (u_removals u) S1 e) as G. fold S2 in G. destruct (al_get e S2); [|reflexivity].
    destruct G as [[G|G] _]; [tauto|congruence]. }
  pose proof (change_fold_get (u_changes u) S2 e) as G. destruct (al_get e (fold_left abs_change (u_changes u) S2)); [|reflexivity].
  destruct G as [[G|G] _]; [tauto|congruence].
Qed.

Lemma fold_apply_none pend : forall S e, al_get e S = None -> (forall u, In u pend -> ~ mentions u e) ->
  al_get e (fold_left abs_apply pend S) = None.
Proof.
  induction pend as [|u t IH]; intros S e H0 Hnm; cbn [fold_left]; [exact H0|].
  apply IH; [apply abs_apply_none; [exact H0|apply Hnm; left; reflexivity]|intros u0 Hu0; apply Hnm; right; exact Hu0].
Qed.

Section E2EV.
  Variables (cfg0 : cfg) (nclients : N).
  Hypothesis Hpol : cfg_policy cfg0 = PAll.
  Local Notation init := (sys_init cfg0 nclients).
  Local Notation SNof script := (snap cfg0 nclients script).

  Definition v_inv (script : list step) (y : sys) : Prop :=
    forall slot c, al_get slot (y_clients y) = Some c ->
      vslot_inv (SNof script) y (regs_of init script slot) slot c.

  Lemma regs_snoc script y st y' o slot :
    run init script = Ok y -> sys_step y st = Ok (y', o) ->
    regs_of init (script ++ [st]) slot = regs_of init script slot + regs_step y st slot.
  Proof. intros Hr Hs. rewrite regs_of_app, Hr. cbn [regs_of]. rewrite Hs. lia. Qed.

  Lemma regs_step_nonframe y st slot : is_sframe st = false -> regs_step y st slot = 0.
  Proof. destruct st; try reflexivity. discriminate. Qed.

  (* the facts about snapshots the client half needs *)
  Lemma snap_facts script s : srv_hist cfg0 nclients script s -> tick_frames script < 2 ^ 31 ->
    (forall t1 r1 s1 t2 r2 s2, SNof script t1 r1 s1 -> SNof script t2 r2 s2 ->
       (r1 = r2 -> t1 = t2 /\ s1 = s2) /\ (r1 < r2 -> t1 < t2)) /\
    (forall t1 r1 s1 t2 r2 s2, SNof script t1 r1 s1 -> SNof script t2 r2 s2 -> r1 <= r2 -> keeps r1 s1 s2) /\
    (forall t r s1, SNof script t r s1 -> small_tick t).
  Proof.
    intros Hh Hb. split; [exact (sh_inj _ _ _ _ Hh)|]. split; [exact (sh_keep2 _ _ _ _ Hh)|].
    intros t r s1 Hs. destruct (sh_bound _ _ _ _ Hh t r s1 Hs) as (_ & Ht & _). rewrite (sh_tick _ _ _ _ Hh) in Ht.
    unfold small_tick. lia.
  Qed.

  Lemma snap_back script y st t r s1 : run init script = Ok y -> is_sframe st = false ->
    SNof (script ++ [st]) t r s1 -> SNof script t r s1.
  Proof. apply snap_snoc_nonframe. Qed.

  Lemma snap_wf script t r s1 : script_okm script = true -> script_vals script = true -> tick_frames script < 2 ^ 31 ->
    SNof script t r s1 -> ents_wf s1.
  Proof.
    intros H1 H2 H3 Hs. destruct (snap_reached cfg0 nclients script _ _ _ Hs) as (pre & post & y1 & E & R & Es & _). subst script s1.
    rewrite script_okm_app in H1. rewrite script_vals_app in H2. apply andb_prop in H1. apply andb_prop in H2.
    pose proof (tick_frames_app_le pre post) as Hle.
    exact (sh_wf _ _ _ _ (hist_run cfg0 nclients Hpol pre y1 (proj1 H1) (proj1 H2) ltac:(lia) R)).
  Qed.

  (* the links of the other slots *)
  Lemma link_other y slot0 l c0 slot : slot <> slot0 ->
    get_link (set_client (set_link y slot0 l) slot0 c0) slot = get_link y slot.
  Proof. intros Hne. change (get_link (set_client ?a ?b ?c1) slot) with (get_link a slot). apply get_link_set_link_other. exact Hne. Qed.

  Lemma link_same y slot0 l c0 : get_link (set_client (set_link y slot0 l) slot0 c0) slot0 = l.
  Proof. change (get_link (set_client ?a ?b ?c1) slot0) with (get_link a slot0). apply get_link_set_link_same. Qed.

  (* a step that only changes the link and the client of slot0 *)
  Lemma v_link_client script st y slot0 cl cl' l' y' o :
    is_sframe st = false -> run init script = Ok y -> sys_step y st = Ok (y', o) ->
    y' = set_client (set_link y slot0 l') slot0 cl' ->
    al_get slot0 (y_clients y) = Some cl -> same_core cl cl' ->
    (cl_status cl = Connected -> cl_inbox_upd cl' ++ l_upd l' = cl_inbox_upd cl ++ l_upd (get_link y slot0)) ->
    (cl_status cl = Connected -> forall m, In m (l_mut l' ++ cl_inbox_mut cl' ++ cl_buffered cl') -> In m (muts_of y slot0 cl)) ->
    (forall i, In i (concat (l_ack l')) -> In i (concat (l_ack (get_link y slot0)))) ->
    v_inv script y -> v_inv (script ++ [st]) y'.
  Proof.
    intros Hnf Hrun H -> Ec Hcore Hp Hm Ha Hinv slot c Hc.
    rewrite (regs_snoc script y st _ o slot Hrun H), (regs_step_nonframe y st slot Hnf), N.add_0_r.
    assert (Hsn : forall t r s1, SNof script t r s1 -> SNof (script ++ [st]) t r s1) by (intros t r s1; apply snap_mono).
    assert (Hbk : forall t r s1, SNof (script ++ [st]) t r s1 -> SNof script t r s1) by (intros t r s1; exact (snap_back script y st t r s1 Hrun Hnf)).
    cbn [set_client set_link y_clients] in Hc. destruct (N.eq_dec slot slot0) as [->|Hne].
    - rewrite al_get_insert_same in Hc. inversion Hc; subst c. clear Hc.
      apply (vslot_same (SNof script) _ y _ _ slot0 cl cl' Hsn Hbk); [reflexivity|reflexivity|reflexivity|reflexivity|exact Hcore| | | |exact (Hinv slot0 cl Ec)].
      + intros Hcon. unfold pend_of. rewrite link_same. exact (Hp Hcon).
      + intros Hcon m Hin. unfold muts_of in Hin. rewrite link_same in Hin. exact (Hm Hcon m Hin).
      + intros i Hi. unfold acks_of in *. rewrite link_same in Hi. cbn [set_client set_link y_server] in Hi.
        apply in_app_or in Hi. apply in_or_app. destruct Hi as [Hi|Hi]; [left; exact Hi|right; exact (Ha i Hi)].
    - rewrite al_get_insert_other in Hc by exact Hne.
      apply (vslot_same (SNof script) _ y _ _ slot c c Hsn Hbk); [reflexivity|reflexivity|reflexivity|reflexivity|apply same_core_refl| | | |exact (Hinv slot c Hc)].
      + intros _. unfold pend_of. rewrite (link_other y slot0 l' cl' slot Hne). reflexivity.
      + intros _ m Hin. unfold muts_of in *. rewrite (link_other y slot0 l' cl' slot Hne) in Hin. exact Hin.
      + intros i Hi. unfold acks_of in *. rewrite (link_other y slot0 l' cl' slot Hne) in Hi. exact Hi.
  Qed.

  Lemma v_noop script st y o :
    is_sframe st = false -> run init script = Ok y -> sys_step y st = Ok (y, o) -> v_inv script y -> v_inv (script ++ [st]) y.
  Proof.
    intros Hnf Hrun H Hinv slot c Hc.
    rewrite (regs_snoc script y st _ o slot Hrun H), (regs_step_nonframe y st slot Hnf), N.add_0_r.
    apply (vslot_same (SNof script) _ y y _ slot c c); try reflexivity; auto.
    - intros t r s1. apply snap_mono.
    - intros t r s1. exact (snap_back script y st t r s1 Hrun Hnf).
    - apply same_core_refl.
  Qed.

  (* ---------- deliveries and drops ---------- *)

  Lemma v_transport script st y y' o :
    transport_step st = true -> legal_step st = true -> run init script = Ok y ->
    v_inv script y -> sys_step y st = Ok (y', o) -> v_inv (script ++ [st]) y'.
  Proof.
    intros Ht Hl Hrun Hinv H.
    assert (Hnf : is_sframe st = false) by (destruct st; try discriminate; reflexivity).
    destruct st as [| | | | | | |slot0 s2c ch w|slot0 s2c ch w]; try discriminate; pose proof H as H0; cbn [sys_step] in H.
    - (* deliver *)
      destruct (al_get slot0 (y_clients y)) as [cl|] eqn:Ec; [|inversion H; subst y' o; exact (v_noop script _ y _ Hnf Hrun H0 Hinv)].
      destruct s2c.
      + destruct (ch =? 0) eqn:Ech.
        * cbn [legal_step] in Hl. rewrite Ech in Hl. assert (Hw : w <> Last) by (destruct w; congruence).
          destruct (take w (l_upd (get_link y slot0))) as [picked rest] eqn:Etk. inversion H; subst y' o. clear H.
          apply take_app in Etk; [|exact Hw].
          destruct (deliver_updates_fields picked cl) as (A & B & C & D & E & F & G & K). cbv zeta in A, B, C, D, E, F, G, K.
          apply (v_link_client script _ y slot0 cl _ _ _ _ Hnf Hrun H0 eq_refl Ec); [unfold same_core; auto 6| | | |exact Hinv].
          -- intros Hcon. cbn [l_upd]. destruct (deliver_updates_inbox picked cl Hcon) as [Hi _]. rewrite Hi, <- app_assoc, Etk. reflexivity.
          -- intros _ m Hm. cbn [l_mut] in Hm. rewrite F, G in Hm. exact Hm.
          -- intros i Hi. exact Hi.
        * destruct (ch =? 1) eqn:Ech1; [|inversion H; subst y' o; exact (v_noop script _ y _ Hnf Hrun H0 Hinv)].
          destruct (take w (l_mut (get_link y slot0))) as [picked rest] eqn:Etk. inversion H; subst y' o. clear H.
          destruct (status_dec cl) as [Es|Es].
          -- rewrite (deliver_mutates_disc picked cl Es) in *.
             apply (v_link_client script _ y slot0 cl _ _ _ _ Hnf Hrun H0 eq_refl Ec); [apply same_core_refl| | | |exact Hinv].
             ++ intros Hcon. congruence.
             ++ intros Hcon. congruence.
             ++ intros i Hi. exact Hi.
          -- destruct (deliver_mutates_fields picked cl Es) as (A & B & C & D & E & F & G & K & L). cbv zeta in A, B, C, D, E, F, G, K, L.
             apply (v_link_client script _ y slot0 cl _ _ _ _ Hnf Hrun H0 eq_refl Ec); [unfold same_core; repeat split; congruence| | | |exact Hinv].
             ++ intros _. cbn [l_upd]. rewrite L. reflexivity.
             ++ intros _ m Hm. cbn [l_mut] in Hm. rewrite F, G in Hm. unfold muts_of.
                apply in_app_or in Hm. apply in_or_app. destruct Hm as [Hm|Hm]; [left; exact (take_in _ _ _ _ m Etk (or_intror Hm))|].
                rewrite <- app_assoc in Hm. apply in_app_or in Hm. destruct Hm as [Hm|Hm]; [right; apply in_or_app; left; exact Hm|].
                apply in_app_or in Hm. destruct Hm as [Hm|Hm]; [left; exact (take_in _ _ _ _ m Etk (or_introl Hm))|right; apply in_or_app; right; exact Hm].
             ++ intros i Hi. exact Hi.
      + destruct (ch =? 0); [|inversion H; subst y' o; exact (v_noop script _ y _ Hnf Hrun H0 Hinv)].
        destruct (take w (l_ack (get_link y slot0))) as [picked rest] eqn:Etk. inversion H; subst y' o. clear H.
        destruct (deliver_acks_fold_fields slot0 picked (y_server y)) as (X1 & X2 & X3 & X4). cbv zeta in X1, X2, X3, X4.
        intros slot c Hc. cbn [set_server set_link y_clients] in Hc.
        rewrite (regs_snoc script y _ _ _ slot Hrun H0), (regs_step_nonframe y _ slot Hnf), N.add_0_r.
        apply (vslot_same (SNof script) _ y _ _ slot c c); [intros t r s1; apply snap_mono|intros t r s1; exact (snap_back script y _ t r s1 Hrun Hnf)|exact X1|exact X2|exact X4|exact X3|apply same_core_refl| | | |exact (Hinv slot c Hc)].
        * intros _. unfold pend_of. change (get_link (set_server ?a ?b) slot) with (get_link a slot).
          destruct (N.eq_dec slot slot0) as [->|Hne]; [rewrite get_link_set_link_same|rewrite get_link_set_link_other by exact Hne]; reflexivity.
        * intros _ m Hm. unfold muts_of in *. change (get_link (set_server ?a ?b) slot) with (get_link a slot) in Hm.
          destruct (N.eq_dec slot slot0) as [->|Hne]; [rewrite get_link_set_link_same in Hm|rewrite get_link_set_link_other in Hm by exact Hne]; exact Hm.
        * intros i Hi. unfold acks_of in *. cbn [set_server y_server] in Hi. change (get_link (set_server ?a ?b) slot) with (get_link a slot) in Hi.
          apply in_app_or in Hi. destruct Hi as [Hi|Hi].
          -- destruct (deliver_acks_fold_inbox slot0 picked (y_server y) slot i Hi) as [Hi'|[-> Hi']]; [apply in_or_app; left; exact Hi'|].
             apply in_or_app. right. apply (take_concat w _ picked rest i Etk). apply in_or_app. left. exact Hi'.
          -- destruct (N.eq_dec slot slot0) as [->|Hne].
             ++ rewrite get_link_set_link_same in Hi. cbn [l_ack] in Hi. apply in_or_app. right.
                apply (take_concat w _ picked rest i Etk). apply in_or_app. right. exact Hi.
             ++ rewrite get_link_set_link_other in Hi by exact Hne. apply in_or_app. right. exact Hi.
    - (* drop: only the mutation channel *)
      cbn [legal_step] in Hl. destruct s2c; [|discriminate].
      destruct (al_get slot0 (y_clients y)) as [cl|] eqn:Ec; [|inversion H; subst y' o; exact (v_noop script _ y _ Hnf Hrun H0 Hinv)].
      assert (Hch : ch = 1) by lia. subst ch. cbn in H.
      destruct (take w (l_mut (get_link y slot0))) as [picked rest] eqn:Etk. inversion H; subst y' o. clear H.
      apply (v_link_client script _ y slot0 cl _ _ _ _ Hnf Hrun H0 eq_refl Ec); [apply same_core_refl| | | |exact Hinv].
      + intros _. reflexivity.
      + intros _ m Hm. cbn [l_mut] in Hm. unfold muts_of. apply in_app_or in Hm. apply in_or_app.
        destruct Hm as [Hm|Hm]; [left; exact (take_in _ _ _ _ m Etk (or_intror Hm))|right; exact Hm].
      + intros i Hi. exact Hi.
  Qed.

  (* ---------- StStart ---------- *)

  Lemma v_start script y :
    run init script = Ok y -> v_inv script y -> v_inv (script ++ [StStart]) (set_server y (set_running (y_server y) true)).
  Proof.
    intros Hrun Hinv slot c Hc. cbn [set_server y_clients] in Hc.
    rewrite (regs_snoc script y StStart _ ONone slot Hrun eq_refl). cbn [regs_step]. rewrite N.add_0_r.
    apply (vslot_same (SNof script) _ y _ _ slot c c); [intros t r s1; apply snap_mono|intros t r s1; exact (snap_back script y StStart t r s1 Hrun eq_refl)|reflexivity|reflexivity|reflexivity|reflexivity|apply same_core_refl| | | |exact (Hinv slot c Hc)].
    - intros _. reflexivity.
    - intros _ m Hm. exact Hm.
    - intros i Hi. exact Hi.
  Qed.

  (* ---------- StCFrame ---------- *)

  Lemma v_cframe script y slot0 ops y' o :
    run init script = Ok y -> srv_hist cfg0 nclients script (y_server y) -> tick_frames script < 2 ^ 31 ->
    script_okm script = true -> script_vals script = true ->
    v_inv script y -> sys_step y (StCFrame slot0 ops) = Ok (y', o) -> v_inv (script ++ [StCFrame slot0 ops]) y'.
  Proof.
    intros Hrun Hh Hb Hokm Hvals Hinv H. pose proof H as H0.
    assert (Hsn : forall t r s1, SNof script t r s1 -> SNof (script ++ [StCFrame slot0 ops]) t r s1) by (intros t r s1; apply snap_mono).
    assert (Hbk : forall t r s1, SNof (script ++ [StCFrame slot0 ops]) t r s1 -> SNof script t r s1)
      by (intros t r s1; exact (snap_back script y (StCFrame slot0 ops) t r s1 Hrun eq_refl)).
    cbn [sys_step] in H. destruct (al_get slot0 (y_clients y)) as [cl|] eqn:Ec.
    2:{ inversion H; subst y' o. exact (v_noop script (StCFrame slot0 ops) y _ eq_refl Hrun H0 Hinv). }
    destruct (client_frame cl ops) as [[cl' cfo]| |] eqn:Ef; cbn [bind] in H; try discriminate.
    clear H. destruct (cframe_links y slot0 ops cl cl' cfo y' o Ec Ef H0) as ([pcs G1] & G2 & G3 & G4 & G5 & G6).
    set (l := get_link y slot0) in *.
    assert (Eents : sv_ents (y_server y') = sv_ents (y_server y)) by (rewrite G1; reflexivity).
    assert (Etick : sv_tick (y_server y') = sv_tick (y_server y)) by (rewrite G1; reflexivity).
    assert (Ecls : sv_clients (y_server y') = sv_clients (y_server y)) by (rewrite G1; reflexivity).
    assert (Einb : sv_inbox_acks (y_server y') = sv_inbox_acks (y_server y)) by (rewrite G1; reflexivity).
    assert (Enow : sv_now (y_server y') = sv_now (y_server y)) by (rewrite G1; reflexivity).
    intros slot c Hc. rewrite G2 in Hc.
    rewrite (regs_snoc script y _ _ _ slot Hrun H0). cbn [regs_step]. rewrite N.add_0_r.
    destruct (N.eq_dec slot slot0) as [->|Hne].
    2:{ rewrite al_get_insert_other in Hc by exact Hne.
        apply (vslot_same (SNof script) _ y _ _ slot c c Hsn Hbk Eents Etick Enow Ecls (same_core_refl c)); [| | |exact (Hinv slot c Hc)].
        - intros _. unfold pend_of. rewrite (G3 slot Hne). reflexivity.
        - intros _ m Hm. unfold muts_of in *. rewrite (G3 slot Hne) in Hm. exact Hm.
        - intros i Hi. unfold acks_of in *. rewrite Einb, (G3 slot Hne) in Hi. exact Hi. }
    rewrite al_get_insert_same in Hc. inversion Hc; subst c. clear Hc.
    pose proof (Hinv slot0 cl Ec) as [V1 V2 V3].
    destruct (status_dec cl) as [Es|Es].
    - (* not connected *)
      destruct (V1 Es) as (A1 & A2 & A3 & A4). destruct (frame_disconnected_fields cl ops cl' cfo Es A1 A2 Ef) as (D1 & D2 & D3 & D4).
      constructor.
      + intros _. split; [exact D2|]. split; [exact D3|]. split; [|exact A4].
        unfold acks_of in *. rewrite Einb. destruct G6 as [G6|(G6 & _)]; [rewrite G6; exact A3|congruence].
      + intros Hcon. congruence.
      + intros Hcon. congruence.
    - (* connected *)
      destruct (snap_facts script _ Hh Hb) as (SNinj & SNkeep & SNsmall).
      pose proof (V2 Es) as Hi. unfold pend_of, muts_of in Hi. fold l in Hi.
      assert (SNwf : forall t r s1, SNof script t r s1 -> ents_wf s1) by (intros t r s1; exact (snap_wf script t r s1 Hokm Hvals Hb)).
      destruct (cli_frame (SNof script) SNinj SNkeep SNsmall SNwf (y_server y) cl (l_upd l) (l_mut l ++ cl_inbox_mut cl ++ cl_buffered cl) ops cl' cfo Hi
                  (fun m Hm => in_or_app _ _ m (or_intror Hm)) Es Ef) as (Hi' & Hcf & Ei & Em & Est & Hbuf & Hacks & Hstr & Htk' & _).
      assert (Hmuts' : forall m, In m (l_mut (get_link y' slot0) ++ cl_inbox_mut cl' ++ cl_buffered cl') -> In m (l_mut l ++ cl_inbox_mut cl ++ cl_buffered cl)).
      { intros m Hm. rewrite G5, Em in Hm. cbn [app] in Hm. apply in_app_or in Hm. apply in_or_app.
        destruct Hm as [Hm|Hm]; [left; exact Hm|right; exact (Hbuf m Hm)]. }
      assert (Hdead : forall e, dead (y_server y) e -> dead (y_server y') e).
      { intros e. unfold dead, get_ent. rewrite Eents. auto. }
      constructor.
      + intros Hd. congruence.
      + intros _. unfold pend_of, muts_of. rewrite Ei, G4. cbn [app].
        apply (cli_inv_muts _ _ _ _ (l_mut l ++ cl_inbox_mut cl ++ cl_buffered cl)); [exact Hmuts'|].
        apply (cli_inv_srv (SNof script) _ (y_server y)); [exact Hsn|intros t r s0 H1; left; exact (Hbk _ _ _ H1)|exact Hdead|exact Hi'].
      + intros _ rec Hin Hs. rewrite Ecls in Hin.
        destruct (V3 Es rec Hin Hs) as (S1 & S2 & S3). split; [|split; [exact S2|exact S3]].
        unfold pend_of, muts_of, acks_of in *. rewrite Einb, Ei, G4. cbn [app]. fold l in S1.
        apply (srv_slot_sub _ _ rec cl' (l_upd l) (l_mut l ++ cl_inbox_mut cl ++ cl_buffered cl)
                 ((acks_for slot0 (sv_inbox_acks (y_server y)) ++ concat (l_ack l)) ++ cfo_acks cfo)); [exact Hmuts'| |].
        * intros i Hi0. destruct G6 as [G6|(_ & G6)]; rewrite G6 in Hi0.
          -- apply in_or_app. left. exact Hi0.
          -- rewrite concat_app in Hi0. cbn [concat] in Hi0. rewrite app_nil_r, app_assoc in Hi0. exact Hi0.
        * apply (srv_slot_srv (SNof script) _ (y_server y)); [exact Hsn|intros e0 a0 t0 r0 s0 _ H1 _; exact (Hbk _ _ _ H1)|exact Hdead|rewrite Etick; lia|rewrite Enow; lia|].
          apply srv_slot_add_acks.
          -- intros i Hi0. destruct (Hacks i Hi0) as (m & Hm & Eidx & Hcg). exists m. split; [apply in_or_app; right; exact Hm|]. split; [exact Eidx|exact Hcg].
          -- apply (srv_slot_mono (SNof script) (y_server y) rec cl (cl_inbox_upd cl ++ l_upd l) _ _ (y_server y) cl' (l_upd l)); [reflexivity|reflexivity| |exact Hcf|exact Hstr| |exact S1].
             ++ intros u Hu. apply in_or_app. right. exact Hu.
             ++ rewrite Htk', map_app. generalize (map u_tick (l_upd l)) as l2. generalize (cl_upd_tick cl) as d. generalize (map u_tick (cl_inbox_upd cl)) as l1.
                clear. intros l1 d l2. destruct l2 as [|b t]; [rewrite app_nil_r; reflexivity|]. rewrite (last_app_ne l1 (b :: t)) by discriminate. apply last_cons_indep.
  Qed.

  (* ---------- StConnect ---------- *)

  Lemma cli_inv_fresh (SN : N -> N -> server -> Prop) s c : cs_inv c -> pu c -> cl_s2c c = [] -> cl_upd_tick c = 0 -> cli_inv SN s c [] [].
  Proof.
    intros Hcs Hpu Hs Ht. constructor; try assumption.
    - intros e cid H. rewrite Hs in H. discriminate.
    - intros e x h (Hc & _). unfold centof in Hc. rewrite Hs in Hc. discriminate.
    - left. exact Ht.
    - intros u [].
    - apply ticks_incr_nil.
    - intros u [].
    - intros m [].
    - intros p u q E. destruct p; discriminate.
    - intros p u q E. destruct p; discriminate.
  Qed.

  Lemma v_connect script y gs slot0 max y' o :
    run init script = Ok y -> m_inv cfg0 nclients script y gs -> v_inv script y ->
    sys_step y (StConnect slot0 max) = Ok (y', o) -> v_inv (script ++ [StConnect slot0 max]) y'.
  Proof.
    intros Hrun Hm Hinv H. pose proof H as H0. pose proof Hm as [Hcfg Hg Hnm Hrn Hlr Htk Hslots].
    assert (Hsn : forall t r s1, SNof script t r s1 -> SNof (script ++ [StConnect slot0 max]) t r s1) by (intros t r s1; apply snap_mono).
    cbn [sys_step] in H. rewrite Hcfg in H.
    destruct (find_client (y_server y) slot0) as [c0|] eqn:Ef; [inversion H; subst y' o; exact (v_noop script (StConnect slot0 max) y _ eq_refl Hrun H0 Hinv)|].
    destruct (al_get slot0 (y_clients y)) as [cl|] eqn:Ec; [|inversion H; subst y' o; exact (v_noop script (StConnect slot0 max) y _ eq_refl Hrun H0 Hinv)].
    destruct (sv_running (y_server y)) eqn:Er; [|inversion H; subst y' o; exact (v_noop script (StConnect slot0 max) y _ eq_refl Hrun H0 Hinv)].
    inversion H; subst y' o. clear H. set (s := y_server y) in *. set (s' := connect_client cfg0 s slot0 max).
    assert (F1 : exists cnew, sv_clients s' = sv_clients s ++ [cnew] /\ sc_slot cnew = slot0 /\ sc_ticks cnew = ct_default).
    { unfold s', connect_client. fold s. rewrite Er, Ef. eexists. split; [reflexivity|]. destruct (cfg_auth cfg0); cbn; auto. }
    destruct F1 as (cnew & F1 & F2 & F3).
    assert (Fe : sv_ents s' = sv_ents s /\ sv_tick s' = sv_tick s /\ sv_inbox_acks s' = sv_inbox_acks s /\ sv_now s' = sv_now s).
    { unfold s', connect_client. fold s. rewrite Er, Ef. cbn. auto. }
    destruct Fe as (Fe1 & Fe2 & Fe3 & Fe4).
    assert (Hbk : forall t r s1, SNof (script ++ [StConnect slot0 max]) t r s1 -> SNof script t r s1)
      by (intros t r s1; exact (snap_back script y (StConnect slot0 max) t r s1 Hrun eq_refl)).
    assert (Hnorec : forall rec, In rec (sv_clients s) -> sc_slot rec <> slot0).
    { intros rec Hin Hs. unfold find_client in Ef. pose proof (find_none _ _ Ef rec Hin) as Hf. cbn in Hf. lia. }
    intros slot c Hc. cbn [set_client set_server y_clients] in Hc.
    rewrite (regs_snoc script y _ _ _ slot Hrun H0). cbn [regs_step]. rewrite N.add_0_r.
    destruct (N.eq_dec slot slot0) as [->|Hne].
    - rewrite al_get_insert_same in Hc. inversion Hc; subst c. clear Hc.
      destruct (Hslots slot0 cl Ec) as [O1 O2 O3 O4 O5 O6].
      assert (Es : cl_status cl = Disconnected).
      { destruct (status_dec cl) as [E|E]; [exact E|]. exfalso. apply O4 in E. apply has_rec_find in E. fold s in E. congruence. }
      destruct (O5 Es) as (_ & I2 & I3 & I4 & I5 & I6). destruct (Hinv slot0 cl Ec) as [V1 _ _]. destruct (V1 Es) as (A1 & A2 & A3 & A4).
      assert (Ei : cl_inbox_upd (set_status cl Connected) = []) by (unfold set_status; rewrite Es; exact I2).
      assert (Em : cl_inbox_mut (set_status cl Connected) = []) by (unfold set_status; rewrite Es; exact I5).
      assert (Hp : pend_of (set_client (set_server y s') slot0 (set_status cl Connected)) slot0 (set_status cl Connected) = []).
      { unfold pend_of. rewrite Ei. change (get_link (set_client ?a ?b ?c1) slot0) with (get_link y slot0). rewrite I3. reflexivity. }
      assert (Hmu : muts_of (set_client (set_server y s') slot0 (set_status cl Connected)) slot0 (set_status cl Connected) = []).
      { unfold muts_of. rewrite Em. change (get_link (set_client ?a ?b ?c1) slot0) with (get_link y slot0). rewrite I4. cbn. exact I6. }
      assert (Hak : acks_of (set_client (set_server y s') slot0 (set_status cl Connected)) slot0 = []).
      { unfold acks_of in *. change (acks_for slot0 (sv_inbox_acks s') ++ concat (l_ack (get_link y slot0)) = []). rewrite Fe3. exact A3. }
      constructor.
      + cbn. discriminate.
      + intros _. rewrite Hp, Hmu. apply cli_inv_fresh; [apply cs_inv_set_status; exact O1|revert O2; apply pu_ext; reflexivity|exact A1|exact A2].
      + intros _ rec Hin Hs. change (In rec (sv_clients s')) in Hin. rewrite F1 in Hin. apply in_app_or in Hin.
        destruct Hin as [Hin|[<-|[]]]; [exfalso; exact (Hnorec rec Hin Hs)|].
        rewrite Hp, Hmu, Hak. split; [apply srv_slot_default; [exact F3|exact A2]|]. split; [rewrite F3, A4; reflexivity|intros _; exact F3].
    - rewrite al_get_insert_other in Hc by exact Hne.
      refine (vslot_mono (SNof script) _ y _ _ slot c c Hsn Hbk _ _ _ _ eq_refl eq_refl eq_refl eq_refl eq_refl eq_refl _ _ _ (Hinv slot c Hc)).
      + intros e. change (dead s e -> dead s' e). unfold dead, get_ent. rewrite Fe1. auto.
      + change (sv_tick s <= sv_tick s'). rewrite Fe2. lia.
      + change (sv_now s <= sv_now s'). rewrite Fe4. lia.
      + intros _ rec Hin Hs. change (In rec (sv_clients s')) in Hin. rewrite F1 in Hin. apply in_app_or in Hin.
        destruct Hin as [Hin|[<-|[]]]; [exists rec; auto|congruence].
      + intros _. unfold pend_of. change (get_link (set_client ?a ?b ?c1) slot) with (get_link y slot). reflexivity.
      + intros _ m Hm0. exact Hm0.
      + intros i Hi. unfold acks_of in *. change (In i (acks_for slot (sv_inbox_acks s') ++ concat (l_ack (get_link y slot)))) in Hi.
        rewrite Fe3 in Hi. exact Hi.
  Qed.

  (* ---------- StAuthorize ---------- *)

  Lemma v_authorize script y slot0 :
    run init script = Ok y -> y_cfg y = cfg0 -> v_inv script y ->
    v_inv (script ++ [StAuthorize slot0]) (set_server y (authorize_client (y_cfg y) (y_server y) slot0)).
  Proof.
    intros Hrun Hcfg Hinv. set (s := y_server y). set (s' := authorize_client (y_cfg y) s slot0).
    assert (Hsn : forall t r s1, SNof script t r s1 -> SNof (script ++ [StAuthorize slot0]) t r s1) by (intros t r s1; apply snap_mono).
    assert (Fe : sv_ents s' = sv_ents s /\ sv_tick s' = sv_tick s /\ sv_inbox_acks s' = sv_inbox_acks s /\ sv_now s' = sv_now s).
    { unfold s', authorize_client. destruct (find_client s slot0) as [c0|]; [|auto]. destruct (sc_authorized c0); cbn; auto. }
    destruct Fe as (Fe1 & Fe2 & Fe3 & Fe4).
    assert (Hbk : forall t r s1, SNof (script ++ [StAuthorize slot0]) t r s1 -> SNof script t r s1)
      by (intros t r s1; exact (snap_back script y (StAuthorize slot0) t r s1 Hrun eq_refl)).
    assert (Hrec : forall rec', In rec' (sv_clients s') ->
              In rec' (sv_clients s) \/
              (sc_ticks rec' = ct_default /\ sc_slot rec' = slot0 /\ sc_authorized rec' = true /\
               exists rec, In rec (sv_clients s) /\ sc_slot rec = slot0 /\ sc_authorized rec = false)).
    { intros rec' Hin. unfold s', authorize_client in Hin. destruct (find_client s slot0) as [c0|] eqn:Ef; [|left; exact Hin].
      destruct (sc_authorized c0) eqn:Ea; [left; exact Hin|].
      unfold update_client, set_clients in Hin. cbn [sv_clients] in Hin. apply in_map_iff in Hin. destruct Hin as [c1 [E Hc1]].
      destruct (sc_slot c1 =? sc_slot (authorized_client (y_cfg y) slot0 (sc_max_size c0))) eqn:Eq; subst rec'; [|left; exact Hc1].
      right. cbn. split; [reflexivity|]. split; [reflexivity|]. split; [reflexivity|].
      unfold find_client in Ef. apply find_some in Ef. destruct Ef as [Hin0 Hs0]. exists c0. split; [exact Hin0|]. split; [lia|exact Ea]. }
    intros slot c Hc. cbn [set_server y_clients] in Hc.
    rewrite (regs_snoc script y (StAuthorize slot0) _ ONone slot Hrun eq_refl). cbn [regs_step]. rewrite N.add_0_r.
    pose proof (Hinv slot c Hc) as Hv.
    refine (vslot_mono (SNof script) _ y _ _ slot c c Hsn Hbk _ _ _ _ eq_refl eq_refl eq_refl eq_refl eq_refl eq_refl _ _ _ Hv).
    - intros e. change (dead s e -> dead s' e). unfold dead, get_ent. rewrite Fe1. auto.
    - change (sv_tick s <= sv_tick s'). rewrite Fe2. lia.
    - change (sv_now s <= sv_now s'). rewrite Fe4. lia.
    - intros Es rec' Hin Hs. change (In rec' (sv_clients s')) in Hin.
      destruct (Hrec rec' Hin) as [Hold|(T1 & T2 & T3 & rec & Hr1 & Hr2 & Hr3)]; [exists rec'; auto|].
      exists rec. split; [exact Hr1|]. split; [congruence|]. split; [|congruence].
      destruct Hv as [_ _ V3]. assert (Hsl : sc_slot rec = slot) by congruence.
      destruct (V3 Es rec Hr1 Hsl) as (_ & _ & V). rewrite T1. symmetry. exact (V Hr3).
    - intros _. reflexivity.
    - intros _ m Hm0. exact Hm0.
    - intros i Hi. unfold acks_of in *. change (In i (acks_for slot (sv_inbox_acks s') ++ concat (l_ack (get_link y slot)))) in Hi. rewrite Fe3 in Hi. exact Hi.
  Qed.

  (* ---------- StSFrame ---------- *)

  Lemma t0_pos script s t r s1 : srv_hist cfg0 nclients script s -> no_tick0 script = true ->
    SNof script t r s1 -> 1 <= t \/ sv_clients s1 = [].
  Proof.
    intros Hh Hn Hs. pose proof (sh_t0 _ _ _ _ Hh) as H0. unfold t0_inv in H0. unfold no_tick0 in Hn.
    destruct (fold_left t0_step script (T0A false false)) as [st cn| |]; [|exact (proj2 H0 t r s1 Hs)|discriminate].
    destruct H0 as (_ & _ & _ & _ & Hno). exfalso. exact (Hno t r s1 Hs).
  Qed.

  Lemma v_sframe script y gs tick dt (cleanup : bool) ops parts y' o :
    let st := StSFrame tick dt cleanup ops parts in
    run init script = Ok y -> m_inv cfg0 nclients script y gs ->
    srv_hist cfg0 nclients script (y_server y) -> srv_hist cfg0 nclients (script ++ [st]) (y_server y') ->
    no_tick0 (script ++ [st]) = true -> forallb sop_ok ops = true -> forallb sop_vals ops = true ->
    (forall slot, regs_of init (script ++ [st]) slot < 2 ^ 16) ->
    script_okm script = true -> tick_frames script < 2 ^ 31 -> erun init [] script = Ok (y, gs) ->
    v_inv script y -> sys_step y st = Ok (y', o) -> v_inv (script ++ [st]) y'.
  Proof.
    intros st Hrun Hm Hh Hh' Hn0 Hops Hvals Hregs Hokm Hb Eg Hinv H. unfold st in H. pose proof H as H0. pose proof Hm as [Hcfg Hg Hnm Hrn Hlr Htk Hslots].
    assert (Hsn : forall t r s1, SNof script t r s1 -> SNof (script ++ [st]) t r s1) by (intros t r s1; apply snap_mono).
    cbn [sys_step] in H. rewrite Hcfg in H. set (s := y_server y) in *.
    destruct (server_frame cfg0 s tick dt cleanup ops parts) as [[s' fo]| |] eqn:Ef; cbn [bind] in H; try discriminate.
    inversion H; subst y' o. clear H. set (outs := fo_clients fo) in *.
    destruct (enqueue_fields outs (set_server y s')) as (Q1 & Q2 & Q3). cbn [set_server y_server y_clients] in Q2, Q3.
    destruct (server_frame_clients cfg0 (mkG s gs) tick dt cleanup ops parts s' fo Hg Hnm Hops Hrn Ef) as (_ & _ & _ & N4 & N5 & N6 & _).
    cbn [g_srv] in N4. fold outs in N5, N6.
    destruct (frame_inbox cfg0 s tick dt cleanup ops parts s' fo Ef) as [Hinb Hinb0].
    rewrite Q2 in Hh'.
    assert (Hslotouts : forall slot, ~ has_rec s slot -> upd_for slot outs = None /\ mutates_for slot outs = []).
    { intros slot Hno. assert (Hns : ~ In slot (map co_slot outs)).
      { intros Hin. apply in_map_iff in Hin. destruct Hin as [o1 [Es Ho1]]. apply Hno. apply has_rec_sig. rewrite <- N4. apply has_rec_sig.
        destruct (N6 o1 Ho1) as [c1 [A [B _]]]. exists c1. split; [exact A|congruence]. }
      split; [exact (proj1 (upd_for_none slot outs Hns))|].
      destruct (mutates_for slot outs) as [|m0 t0] eqn:Em; [reflexivity|]. exfalso.
      destruct (mutates_for_in slot outs m0) as [o1 [Ho1 [Es _]]]; [rewrite Em; left; reflexivity|].
      apply Hns. apply in_map_iff. exists o1. auto. }
    intros slot c Hc. rewrite Q3 in Hc.
    rewrite (regs_snoc script y st _ _ slot Hrun H0). unfold regs_step, st. rewrite Hcfg. fold s. rewrite Ef. fold outs.
    pose proof (Hinv slot c Hc) as [V1 V2 V3]. destruct (Hslots slot c Hc) as [_ _ _ O4 _ _].
    assert (Elack : l_ack (get_link (enqueue_outputs (set_server y s') outs) slot) = l_ack (get_link y slot)).
    { rewrite enqueue_lack. reflexivity. }
    assert (Elupd : l_upd (get_link (enqueue_outputs (set_server y s') outs) slot) = l_upd (get_link y slot) ++ sf_extra fo slot).
    { rewrite enqueue_lupd, (updates_for_upd_for slot outs N5). reflexivity. }
    assert (Elmut : l_mut (get_link (enqueue_outputs (set_server y s') outs) slot) = l_mut (get_link y slot) ++ sf_newm fo slot).
    { rewrite enqueue_lmut. reflexivity. }
    destruct (status_dec c) as [Es|Es].
    - (* not connected: no record, nothing is sent *)
      assert (Hno : ~ has_rec s slot) by (intros Hr; apply O4 in Hr; congruence).
      destruct (Hslotouts slot Hno) as [Eu Em]. destruct (V1 Es) as (A1 & A2 & A3 & A4).
      unfold acks_of in A3. apply app_eq_nil in A3. destruct A3 as [A3a A3b].
      constructor.
      + intros _. split; [exact A1|]. split; [exact A2|]. split; [|rewrite Em, A4; reflexivity].
        unfold acks_of. rewrite Q2, Elack. fold s. rewrite A3b, app_nil_r.
        destruct (acks_for slot (sv_inbox_acks s')) as [|i t] eqn:E; [reflexivity|]. exfalso.
        pose proof (acks_for_sub slot _ _ Hinb i) as Hs. change (y_server y) with s in A3a. rewrite E, A3a in Hs. exact (Hs (or_introl eq_refl)).
      + intros Hcon. congruence.
      + intros Hcon. congruence.
    - (* connected: the server runs and has a record for the slot *)
      assert (Hrec : has_rec s slot) by (apply O4; exact Es).
      assert (Hrunning : sv_running s = true).
      { destruct (sv_running s) eqn:E; [reflexivity|]. exfalso. destruct Hrec as [cl [Hin _]]. pose proof (Hrn eq_refl) as Hnil. rewrite Hnil in Hin. destruct Hin. }
      destruct (server_frame_core cfg0 s tick dt cleanup ops parts s' fo Ef) as (s2 & _ & _ & _ & _ & Hcore).
      assert (Hlast : fo_ran fo = true -> sv_last_run s' = sv_now s).
      { intros Hr. destruct Hcore as [(_ & _ & _ & _ & E & _)|(E & _)]; [exact E|congruence]. }
      assert (Hsnapnew : fo_ran fo = true -> SNof (script ++ [st]) (sv_tick s') (sv_now s) s').
      { intros Hr. apply (snap_last cfg0 nclients script y st); [exact Hrun|].
        eexists _, tick, dt, cleanup, ops, parts, fo, _. split; [reflexivity|]. split; [exact H0|]. split; [exact Hr|].
        split; [exact Q2|]. split; [reflexivity|exact (Hlast Hr)]. }
      assert (Hbnd : fo_ran fo = true -> forall t r s1, SNof script t r s1 -> t < sv_tick s').
      { intros Hr t r s1 Hs1. destruct (sh_bound _ _ _ _ Hh t r s1 Hs1) as (B1 & _). pose proof (sh_now _ _ _ _ Hh) as B2. fold s in B1, B2.
        apply (proj2 (sh_inj _ _ _ _ Hh' t r s1 (sv_tick s') (sv_now s) s' (Hsn _ _ _ Hs1) (Hsnapnew Hr))). lia. }
      assert (Hposn : fo_ran fo = true -> 1 <= sv_tick s').
      { intros Hr. destruct (t0_pos (script ++ [st]) s' _ _ _ Hh' Hn0 (Hsnapnew Hr)) as [Hp|Hnil]; [exact Hp|]. exfalso.
        assert (Hrec' : has_rec s' slot) by (apply has_rec_sig; rewrite N4; apply has_rec_sig; exact Hrec).
        destruct Hrec' as [cl0 [Hin0 _]]. rewrite Hnil in Hin0. destruct Hin0. }
      assert (Htk3 : sv_tick s <= sv_tick s').
      { rewrite (sh_tick _ _ _ _ Hh'), (sh_tick _ _ _ _ Hh). apply tick_frames_mono. }
      assert (Hwrap : regs_of init script slot + N.of_nat (length (mutates_for slot (fo_clients fo))) < 2 ^ 16).
      { pose proof (Hregs slot) as Hr. rewrite (regs_snoc script y st _ _ slot Hrun H0) in Hr. unfold regs_step, st in Hr.
        rewrite Hcfg in Hr. fold s in Hr. rewrite Ef in Hr. exact Hr. }
      assert (Hmax : sv_now s < MAX_CHANGE_AGE).
      { pose proof (now_bound cfg0 nclients Hpol script y Hokm Hb Hrun) as Hnb. fold s in Hnb. pose proof (sh_tick _ _ _ _ Hh) as Ht0.
        pose proof max_change_age_far as Hfar. destruct (sv_dirty s); lia. }
      assert (Hsnap' : forall t r s0, SNof (script ++ [st]) t r s0 ->
                SNof script t r s0 \/ (fo_ran fo = true /\ t = sv_tick s' /\ r = sv_now s /\ s0 = s')).
      { intros t r s0 Hs0. destruct (snap_snoc_inv cfg0 nclients script y st t r s0 Hrun Hs0) as [Ho|(y1 & tk & dt0 & cu0 & ops0 & parts0 & fo0 & vs0 & E & Hst0 & Hran & A & B & C)];
          [left; exact Ho|right].
        unfold st in Hst0. rewrite H0 in Hst0. inversion Hst0; subst y1 fo0. rewrite Q2 in A. subst s0.
        split; [exact Hran|]. split; [symmetry; exact B|]. split; [rewrite <- C; exact (Hlast Hran)|reflexivity]. }
      assert (Hbndr : forall t r s1, SNof script t r s1 -> r < sv_now s).
      { intros t r s1 Hs1. destruct (sh_bound _ _ _ _ Hh t r s1 Hs1) as (B1 & _). pose proof (sh_now _ _ _ _ Hh) as B2. fold s in B1, B2. lia. }
      assert (Hpendok : forall rec, In rec (sv_clients s) -> sc_slot rec = slot -> sc_authorized rec = true ->
                pending_ok s (sc_ticks rec) (fold_left abs_apply (pend_of y slot c) (client_struct c))).
      { intros rec Hin Hs Hau. destruct (gi_clients _ Hg rec Hin Hau) as [Hp _]. cbn [g_srv g_sent] in Hp. rewrite Hs in Hp.
        apply (pending_ok_equiv s (sc_ticks rec) (sent_of slot gs)); [|exact Hp]. apply struct_equiv_symm.
        exact (m_in_flight cfg0 nclients Hpol script y gs slot c Hokm Hb Eg Hc Es). }
      destruct (sframe_slot (SNof script) (SNof (script ++ [st])) Hsn cfg0 s tick dt cleanup ops parts s' fo
                  (gi_srv _ Hg) Hrunning (gi_slots _ Hg) Hops Hvals Hnm (hist_ents_ok _ _ _ _ Hh) (sh_db _ _ _ _ Hh) Ef Htk3
                  Hsnapnew Hbnd Hposn Hmax Hsnap' Hbndr slot c (pend_of y slot c) (muts_of y slot c) (concat (l_ack (get_link y slot)))
                  (regs_of init script slot) (V2 Es) (V3 Es) Hwrap Hpendok) as [Hcli' Hsrv'].
      assert (Epend : pend_of (enqueue_outputs (set_server y s') outs) slot c = pend_of y slot c ++ sf_extra fo slot).
      { unfold pend_of. rewrite Elupd, app_assoc. reflexivity. }
      assert (Hmsub : forall m, In m (muts_of (enqueue_outputs (set_server y s') outs) slot c) -> In m (muts_of y slot c ++ sf_newm fo slot)).
      { intros m Hm0. unfold muts_of in *. rewrite Elmut in Hm0. rewrite <- app_assoc in Hm0.
        apply in_app_or in Hm0. apply in_or_app. destruct Hm0 as [Hm0|Hm0]; [left; apply in_or_app; left; exact Hm0|].
        apply in_app_or in Hm0. destruct Hm0 as [Hm0|Hm0]; [right; exact Hm0|left; apply in_or_app; right; exact Hm0]. }
      assert (Eacks : acks_of (enqueue_outputs (set_server y s') outs) slot = concat (l_ack (get_link y slot))).
      { unfold acks_of. rewrite Q2, Elack, (Hinb0 Hrunning). reflexivity. }
      constructor.
      + intros Hd. congruence.
      + intros _. rewrite Q2, Epend. apply (cli_inv_muts _ _ _ _ (muts_of y slot c ++ sf_newm fo slot)); [exact Hmsub|exact Hcli'].
      + intros _ rec' Hin Hs. rewrite Q2 in Hin. destruct (Hsrv' rec' Hin Hs) as (S1 & S2 & S3). rewrite Q2, Epend, Eacks.
        split; [|split; [rewrite N.add_comm in S2; rewrite N.add_comm; exact S2|exact S3]].
        apply (srv_slot_sub _ _ rec' c _ (muts_of y slot c ++ sf_newm fo slot) (concat (l_ack (get_link y slot)))); [exact Hmsub|auto|exact S1].
  Qed.

  (* ---------- every step, every run ---------- *)

  Lemma v_init : v_inv [] init.
  Proof.
    intros slot c Hc. cbn [sys_init y_clients] in Hc. apply al_get_map_const in Hc. subst c. constructor.
    - intros _. split; [reflexivity|]. split; [reflexivity|]. split; [|reflexivity].
      unfold acks_of, get_link. cbn [sys_init y_server server_init sv_inbox_acks y_links].
      destruct (al_get slot (map (fun i : N => (i, link_empty)) (map N.of_nat (seq 0 (N.to_nat nclients))))) as [l|] eqn:E; [|reflexivity].
      apply al_get_map_const in E. subst l. reflexivity.
    - cbn. discriminate.
    - cbn. discriminate.
  Qed.

  (* the hypotheses on the script *)
  Definition script_scope (script : list step) : Prop :=
    script_okm script = true /\ script_vals script = true /\ no_tick0 script = true /\ tick_frames script < 2 ^ 31 /\
    forall slot, regs_of init script slot < 2 ^ 16.

  Lemma scope_prefix a b y : script_scope (a ++ b) -> run init a = Ok y -> script_scope a.
  Proof.
    intros (H1 & H2 & H3 & H4 & H5) Hr. rewrite script_okm_app in H1. rewrite script_vals_app in H2.
    apply andb_prop in H1. apply andb_prop in H2. split; [tauto|]. split; [tauto|]. split; [exact (no_tick0_prefix a b H3)|].
    split; [pose proof (tick_frames_app_le a b); lia|]. intros slot. specialize (H5 slot). rewrite regs_of_app, Hr in H5. lia.
  Qed.

  (* a slot-independent way to establish the scope *)
  Lemma scope_by_bound script :
    script_okm script = true -> script_vals script = true -> no_tick0 script = true -> tick_frames script < 2 ^ 31 ->
    regs_all init script < 2 ^ 16 -> script_scope script.
  Proof.
    intros H1 H2 H3 H4 H5. split; [exact H1|]. split; [exact H2|]. split; [exact H3|]. split; [exact H4|].
    intros slot. eapply N.le_lt_trans; [apply regs_of_le_all|exact H5].
  Qed.

  Theorem v_run script : forall y, script_scope script -> run init script = Ok y -> v_inv script y.
  Proof.
    induction script as [|st t IH] using rev_ind; intros y Hsc H.
    - cbn in H. inversion H; subst. exact v_init.
    - rewrite run_app in H. destruct (run init t) as [y1| |] eqn:E1; cbn [bind] in H; try discriminate.
      cbn [run] in H. destruct (sys_step y1 st) as [[y2 o]| |] eqn:E2; cbn [bind] in H; try discriminate. inversion H; subst y. clear H.
      pose proof (scope_prefix t [st] y1 Hsc E1) as Hsc1. pose proof (IH y1 Hsc1 eq_refl) as Hinv1.
      destruct Hsc as (K1 & K2 & K3 & K4 & K5). destruct Hsc1 as (J1 & J2 & J3 & J4 & J5).
      assert (Hrun2 : run init (t ++ [st]) = Ok y2) by (rewrite run_app, E1; cbn [bind run]; rewrite E2; reflexivity).
      destruct (run_erun t init [] y1 E1) as [gs1 Eg1].
      pose proof (m_run cfg0 nclients Hpol t y1 gs1 J1 J4 Eg1) as Hm1.
      pose proof (hist_run cfg0 nclients Hpol t y1 J1 J2 J4 E1) as Hh1.
      pose proof (hist_run cfg0 nclients Hpol (t ++ [st]) y2 K1 K2 K4 Hrun2) as Hh2.
      assert (Hokst : step_okm st = true /\ step_vals st = true).
      { unfold script_okm in K1. unfold script_vals in K2. rewrite forallb_app in K1, K2. cbn [forallb] in K1, K2.
        apply andb_prop in K1. apply andb_prop in K2. rewrite andb_true_r in K1, K2. tauto. }
      destruct Hokst as [Hokm Hv]. unfold step_okm in Hokm. apply andb_prop in Hokm. destruct Hokm as [Hokm H3]. apply andb_prop in Hokm. destruct Hokm as [HL HS].
      destruct st as [| |slot max|slot|slot|tick dt cleanup ops parts|slot ops|slot s2c ch w|slot s2c ch w]; try discriminate.
      + cbn [sys_step] in E2. inversion E2; subst y2 o. exact (v_start t y1 E1 Hinv1).
      + exact (v_connect t y1 gs1 slot max y2 o E1 Hm1 Hinv1 E2).
      + cbn [sys_step] in E2. inversion E2; subst y2 o. exact (v_authorize t y1 slot E1 (mi_cfg _ _ _ _ _ Hm1) Hinv1).
      + exact (v_sframe t y1 gs1 tick dt cleanup ops parts y2 o E1 Hm1 Hh1 Hh2 K3 H3 Hv K5 J1 J4 Eg1 Hinv1 E2).
      + exact (v_cframe t y1 slot ops y2 o E1 Hh1 J4 J1 J2 Hinv1 E2).
      + exact (v_transport t (StDeliver slot s2c ch w) y1 y2 o eq_refl HL E1 Hinv1 E2).
      + exact (v_transport t (StDrop slot s2c ch w) y1 y2 o eq_refl HL E1 Hinv1 E2).
  Qed.

  (* ================================================================ *)
  (* T: the confirmed tick of an entity is truthful (values)          *)
  (* ================================================================ *)

  Theorem e2e_truthful script y slot c e cid x h :
    script_scope script -> run init script = Ok y ->
    al_get slot (y_clients y) = Some c -> cl_status c = Connected ->
    al_get e (cl_s2c c) = Some cid -> get_cent c cid = Some x -> ce_alive x = true -> ce_marker x = true -> ce_hist x = Some h ->
    exists pre post y1 x1, script = pre ++ post /\ run init pre = Ok y1 /\ sv_tick (y_server y1) = h_last h /\
      repl_get (y_server y1) e = Some x1 /\ agree (ce_comps x) (se_comps x1) /\
      kinds_equiv (map fst (ce_comps x)) (map fst (se_comps x1)).
  Proof.
    intros Hsc Hrun Hc Hst He Hx Ha Hm Hh.
    pose proof (v_run script y Hsc Hrun slot c Hc) as [_ V2 _]. specialize (V2 Hst).
    assert (Hhas : has c e x h) by (split; [unfold centof; rewrite He; exact Hx|auto]).
    destruct (cv_T _ _ _ _ _ V2 e x h Hhas) as (r & s1 & x1 & Hsn & Hx1 & Hag & Hk).
    destruct (snap_reached cfg0 nclients script _ _ _ Hsn) as (pre & post & y1 & E & R & Es & Et & _).
    exists pre, post, y1, x1. subst s1. auto 8.
  Qed.

  (* the same, as a pointwise equality of the two finite maps kind -> value *)
  Corollary e2e_truthful_exact script y slot c e cid x h :
    script_scope script -> run init script = Ok y ->
    al_get slot (y_clients y) = Some c -> cl_status c = Connected ->
    al_get e (cl_s2c c) = Some cid -> get_cent c cid = Some x -> ce_alive x = true -> ce_marker x = true -> ce_hist x = Some h ->
    exists pre post y1, script = pre ++ post /\ run init pre = Ok y1 /\ sv_tick (y_server y1) = h_last h /\
      forall k, al_get k (ce_comps x) = option_map cv_nat (sview (y_server y1) e k).
  Proof.
    intros Hsc Hrun Hc Hst He Hx Ha Hm Hh.
    destruct (e2e_truthful script y slot c e cid x h Hsc Hrun Hc Hst He Hx Ha Hm Hh) as (pre & post & y1 & x1 & E & R & Et & Hr & Hag & Hk).
    exists pre, post, y1. split; [exact E|]. split; [exact R|]. split; [exact Et|]. intros k. unfold sview. rewrite Hr.
    specialize (Hk k). rewrite !mem_keys_get in Hk.
    destruct (al_get k (ce_comps x)) as [cv|] eqn:Ec; destruct (al_get k (se_comps x1)) as [cc|] eqn:Es; cbn [option_map]; try discriminate; [|reflexivity].
    rewrite (Hag k cv cc Ec Es). reflexivity.
  Qed.

  (* ================================================================ *)
  (* K: an acknowledged stamp is backed by the client                 *)
  (* ================================================================ *)

  Theorem e2e_ack_sound script y slot c cl e a :
    script_scope script -> run init script = Ok y ->
    al_get slot (y_clients y) = Some c -> cl_status c = Connected ->
    In cl (sv_clients (y_server y)) -> sc_slot cl = slot -> mutation_tick (sc_ticks cl) e = Some a ->
    exists pre post y1, script = pre ++ post /\ run init pre = Ok y1 /\ sv_last_run (y_server y1) = a /\
      ((exists u, In u (cl_inbox_upd c ++ l_upd (get_link y slot)) /\ mentions u e /\ sv_tick (y_server y1) <= u_tick u) \/
       (exists x h, has c e x h /\ sv_tick (y_server y1) <= h_last h)).
  Proof.
    intros Hsc Hrun Hc Hst Hin Hs Hmt. pose proof Hsc as (K1 & K2 & K3 & K4 & K5).
    pose proof (v_run script y Hsc Hrun slot c Hc) as [_ V2 V3]. destruct (V3 Hst cl Hin Hs) as (S1 & _ & S3).
    destruct (sv_K _ _ _ _ _ _ _ S1 e a Hmt) as (t_a & s_a & Hsn & Hcg).
    destruct (snap_reached cfg0 nclients script _ _ _ Hsn) as (pre & post & y1 & E & R & Es & Et & Er).
    exists pre, post, y1. subst s_a. split; [exact E|]. split; [exact R|]. split; [exact Er|]. rewrite Et.
    destruct Hcg as [(u & Hu & _ & Hm & Hle)|[Hh|(Hd & Hnone & Hno)]]; [left; exists u; auto|right; exact Hh|].
    (* dead, unknown to the client, mentioned by nothing on its way: then the server holds no stamp for it *)
    exfalso. destruct (run_erun script init [] y Hrun) as [gs Eg].
    pose proof (m_run cfg0 nclients Hpol script y gs K1 K4 Eg) as [_ Hg _ _ _ _ _].
    assert (Hau : sc_authorized cl = true).
    { destruct (sc_authorized cl) eqn:Ea; [reflexivity|]. rewrite (S3 eq_refl) in Hmt. discriminate. }
    destruct (gi_clients _ Hg cl Hin Hau) as [Hp _]. cbn [g_srv g_sent] in Hp. rewrite Hs in Hp.
    pose proof (m_in_flight cfg0 nclients Hpol script y gs slot c K1 K4 Eg Hc Hst e) as Hfl.
    pose proof (cv_cs _ _ _ _ _ (V2 Hst)) as Hcs.
    assert (Hcs0 : al_get e (client_struct c) = None).
    { rewrite (al_get_client_struct c e (cs_inv_nodup c Hcs)). unfold cs_get. unfold centof in Hnone.
      destruct (al_get e (cl_s2c c)); [rewrite Hnone; reflexivity|reflexivity]. }
    pose proof (fold_apply_none (cl_inbox_upd c ++ l_upd (get_link y slot)) _ e Hcs0 Hno) as Hfn. rewrite Hfn in Hfl.
    assert (Hk : al_get e (sent_of slot gs) <> None) by (apply (pk_known _ _ _ Hp e); rewrite Hmt; discriminate).
    destruct (al_get e (sent_of slot gs)); [destruct Hfl|congruence].
  Qed.

  (* ================================================================ *)
  (* Q: convergence                                                   *)
  (* ================================================================ *)

  Theorem e2e_converged script y slot c cl :
    script_scope script -> run init script = Ok y ->
    al_get slot (y_clients y) = Some c -> cl_status c = Connected ->
    In cl (sv_clients (y_server y)) -> sc_slot cl = slot -> sc_authorized cl = true ->
    (* no update message on its way *)
    l_upd (get_link y slot) = [] -> cl_inbox_upd c = [] ->
    (* the server has nothing pending for the client *)
    quiescent_for (y_server y) cl -> sv_removed_events (y_server y) = [] ->
    struct_equiv (client_struct c) (struct_of (y_server y)) /\
    forall e k, cview c e k = option_map cv_nat (sview (y_server y) e k).
  Proof.
    intros Hsc Hrun Hc Hst Hin Hs Hau Hl Hi (Hpm & Hdb & Hrb & _ & Hq) Hev.
    pose proof Hsc as (K1 & K2 & K3 & K4 & K5). set (s := y_server y) in *.
    destruct (run_erun script init [] y Hrun) as [gs Eg].
    pose proof (m_run cfg0 nclients Hpol script y gs K1 K4 Eg) as Hm. pose proof Hm as [Hcfg Hg Hnm Hrn Hlr Htk Hslots].
    pose proof (hist_run cfg0 nclients Hpol script y K1 K2 K4 Hrun) as Hh. fold s in Hh.
    pose proof (v_run script y Hsc Hrun slot c Hc) as [_ V2 V3]. specialize (V2 Hst). destruct (V3 Hst cl Hin Hs) as (S1 & _).
    unfold pend_of in V2, S1. rewrite Hl, Hi in V2, S1. cbn [app] in V2, S1.
    pose proof (sh_wf _ _ _ _ Hh) as Hwf.
    assert (Hset : forall e x madd, In (e, x, madd) (replicated_ents s) -> ent_settled (sv_last_run s) (sc_ticks cl) e x madd).
    { intros e x madd Hr. destruct (Hq e x madd Hr) as [Hh0|[_ Hh0]]; [|exact Hh0].
      exfalso. rewrite (so_novis s (proj1 (gi_srv _ Hg)) cl Hin) in Hh0. discriminate. }
    (* structure *)
    assert (Hstruct : struct_equiv (client_struct c) (struct_of s)).
    { apply (struct_equiv_trans _ (sent_of slot gs)).
      - exact (m_synced cfg0 nclients Hpol script y gs slot c K1 K4 Eg Hc Hst Hi Hl).
      - destruct (gi_clients _ Hg cl Hin Hau) as [Hp _]. cbn [g_srv g_sent] in Hp. rewrite Hs in Hp.
        exact (quiescent_synced s (sc_ticks cl) _ Hwf Hp Hdb Hrb Hev Hset). }
    split; [exact Hstruct|].
    pose proof (cv_cs _ _ _ _ _ V2) as Hcs. pose proof (cv_mo _ _ _ _ _ V2) as Hmo.
    destruct (snap_facts script s Hh K4) as (SNinj & SNkeep & SNsmall).
    assert (SNwf : forall t r s1, SNof script t r s1 -> ents_wf s1) by (intros t r s1; exact (snap_wf script t r s1 K1 K2 K4)).
    intros e k. unfold cview, sview.
    pose proof (Hstruct e) as He. rewrite (al_get_client_struct c e (cs_inv_nodup c Hcs)), (al_get_struct_of s e Hwf) in He.
    unfold cs_get in He. unfold centof.
    destruct (repl_get s e) as [x|] eqn:Er; cbn [option_map] in He |- *.
    2:{ destruct (al_get e (cl_s2c c)) as [cid|]; [|reflexivity]. destruct (get_cent c cid) as [xc|]; [|reflexivity].
        destruct (ce_alive xc && ce_marker xc); [destruct He|reflexivity]. }
    destruct (al_get e (cl_s2c c)) as [cid|] eqn:Ee; [|destruct He]. destruct (get_cent c cid) as [xc|] eqn:Ex; [|destruct He].
    destruct (ce_alive xc && ce_marker xc) eqn:Eam; [|destruct He].
    (* the acknowledged stamp of the entity covers all its components *)
    destruct (proj1 (repl_get_spec s e x Hwf) Er) as [madd Hr]. destruct (Hset e x madd Hr) as (t0 & Hmt & _ & Hall).
    destruct (sv_K _ _ _ _ _ _ _ S1 e t0 Hmt) as (t_a & s_a & Hsa & Hcg).
    destruct (Hmo e cid Ee) as (xc' & h & Hhas). assert (xc' = xc) by (destruct Hhas as [Hc0 _]; unfold centof in Hc0; rewrite Ee in Hc0; congruence). subst xc'.
    assert (Hconf : t_a <= h_last h).
    { destruct Hcg as [(u & [] & _)|[(x1 & h1 & Hh1 & Hle)|(Hd & Hn0 & _)]].
      - destruct (has_fun c e xc h x1 h1 Hhas Hh1) as [-> ->]. exact Hle.
      - exfalso. destruct Hhas as [Hc0 _]. congruence. }
    destruct (cv_T _ _ _ _ _ V2 e xc h Hhas) as (r0 & s0 & x0 & Hs0 & Hx0r & Hag & _). pose proof (repl_get_ent s0 e x0 Hx0r) as Hx0.
    assert (Hr0 : t0 <= r0) by (eapply (SN_le (SNof script)); eassumption).
    pose proof (sh_keep _ _ _ _ Hh _ _ _ Hs0) as Hkeep.
    assert (Hx : get_ent s e = Some x) by exact (repl_get_ent s e x Er).
    destruct (al_get k (se_comps x)) as [cc|] eqn:Ek; cbn [option_map].
    - assert (Hkin : In (k, cc) (se_comps x)) by exact (Server_proofs.al_get_In _ _ _ Ek).
      destruct (Hkeep e x k cc Hx Ek) as [x0' [Hx0' Hk0]]; [destruct (Hall k cc Hkin); lia|]. assert (x0' = x0) by congruence. subst x0'.
      assert (Hmem : mem_N k (map fst (ce_comps xc)) = true).
      { rewrite (He k). apply mem_N_In. apply in_map_iff. exists (k, cc). auto. }
      apply mem_N_In in Hmem. apply al_get_keys_iff in Hmem. destruct (al_get k (ce_comps xc)) as [cv|] eqn:Ecv; [|congruence].
      rewrite (Hag k cv cc Ecv Hk0). reflexivity.
    - destruct (al_get k (ce_comps xc)) as [cv|] eqn:Ecv; [|reflexivity]. exfalso.
      assert (Hmem : mem_N k (map fst (ce_comps xc)) = true) by (apply mem_N_In; apply al_get_keys_iff; rewrite Ecv; discriminate).
      rewrite (He k) in Hmem. apply mem_N_In in Hmem. apply al_get_keys_iff in Hmem. congruence.
  Qed.
End E2EV.
