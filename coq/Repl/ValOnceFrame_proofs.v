(* C02I: one server frame, seen from one client slot: the invariants of Repl/ValOnceSpec.v after the frame.  Port of
   Repl/ValRefFrame_proofs.v; new: [once_known] for the records of the slot, before and after. *)
From RV Require Import Lib.Res Repl.ClientTicks Repl.ClientTicks_proofs Repl.World Vis.Visibility
  Tick.RepliconTick Tick.RepliconTick_proofs Tick.ConfirmHistory Tick.MutateTicks
  Repl.Server Repl.ServerSpec Repl.Server_proofs Wire.AckCodec Wire.AckCodec_proofs Repl.Ack_proofs Repl.StructSpec Repl.Struct_proofs
  Repl.StructOps_proofs Repl.StructRun_proofs
  Repl.StructVisSpec Repl.StructVis_proofs Repl.StructVisOps_proofs Repl.StructVisRun_proofs
  Repl.Client Repl.Sys Repl.Client_proofs Repl.ClientEnt_proofs Repl.ClientMut_proofs Repl.ClientSys_proofs
  Repl.ClientStructSpec Repl.ClientStruct_proofs Repl.ClientHist_proofs Repl.StructE2E_proofs Repl.StructE2EMut_proofs
  Repl.ValSpec Repl.ValSnap_proofs Repl.ValHist_proofs Repl.ValClient_proofs Repl.ValServer_proofs Repl.ValCli_proofs
  Repl.ValSrv_proofs Repl.ValFrame_proofs Repl.ValVisSpec Repl.ValVisHist_proofs Repl.ValVisCli_proofs Repl.ValVisSrv_proofs
  Repl.ValVisFrame_proofs Repl.ValRefSpec Repl.ValRefHist_proofs Repl.ValRefClient_proofs Repl.ValRefCli_proofs Repl.ValRefSrv_proofs
  Repl.ValOnceSpec Repl.ValOnceHist_proofs Repl.ValOnceCli_proofs Repl.ValOnceSrv_proofs.
From Coq Require Import ZifyBool ZifyN.
Open Scope N_scope.
Ltac Zify.zify_post_hook ::= Z.div_mod_to_equations.
Arguments N.add : simpl never. Arguments N.mul : simpl never. Arguments N.pow : simpl never.
Arguments N.ltb : simpl never. Arguments N.leb : simpl never. Arguments N.div : simpl never.
Arguments N.modulo : simpl never. Arguments N.sub : simpl never. Arguments N.eqb : simpl never.

(* ================================================================== *)
(* 3. the invariants of one slot across a frame of a running server   *)
(* ================================================================== *)

Section SFrameR.
  Variable slot : N.
  Variables SN SN' : N -> N -> server -> Prop.
  Hypothesis Hsn : forall t r s1, SN t r s1 -> SN' t r s1.
  Variables (c : cfg) (s : server) (tick : bool) (dt : N) (cleanup : bool) (ops : list sop) (parts : list (N * partition))
            (s' : server) (fo : frame_out).
  Hypothesis Hok : srv_ok_v s.
  Hypothesis Hrun : sv_running s = true.
  Hypothesis Hnd : NoDup (map sc_slot (sv_clients s)).
  Hypothesis Hops : forallb sop_ok ops = true.
  Hypothesis Hvals : forallb sop_valso ops = true.
  Hypothesis Hnm : nomaps_srv s.
  Hypothesis Heok : ents_oko s.
  Hypothesis Hf : server_frame c s tick dt cleanup ops parts = Ok (s', fo).
  Hypothesis Htk3 : sv_tick s <= sv_tick s'.
  Hypothesis Hsnap : fo_ran fo = true -> SN' (sv_tick s') (sv_now s) s'.
  Hypothesis Hbound : fo_ran fo = true -> forall t r s1, SN t r s1 -> t < sv_tick s'.
  Hypothesis Hpos : fo_ran fo = true -> sv_clients s' <> [] -> 1 <= sv_tick s'.
  Hypothesis Hmax : sv_now s < MAX_CHANGE_AGE.
  Hypothesis Hsnap' : forall t r s0, SN' t r s0 -> SN t r s0 \/ (fo_ran fo = true /\ t = sv_tick s' /\ r = sv_now s /\ s0 = s').
  Hypothesis Hboundr : forall t r s1, SN t r s1 -> r < sv_now s.

  Variables (cli : client) (pend : list update_msg) (muts : list mutate_msg) (acks : list N) (regs : N).
  Hypothesis Hcli : cli_invo slot SN cli pend muts.
  Hypothesis Hrec : forall rec, In rec (sv_clients s) -> sc_slot rec = slot ->
    srv_slot_invr slot SN s rec cli pend muts (acks_for slot (sv_inbox_acks s) ++ acks) /\
    ct_mutate_index (sc_ticks rec) <= regs /\ (sc_authorized rec = false -> sc_ticks rec = ct_default) /\ once_known s rec.
  Hypothesis Hwrap : regs + N.of_nat (length (mutates_for slot (fo_clients fo))) < 2 ^ 16.
  Hypothesis Hpend : forall rec, In rec (sv_clients s) -> sc_slot rec = slot -> sc_authorized rec = true ->
    pending_ok_v s rec (fold_left abs_apply pend (client_struct cli)).
  (* the despawn records sent to the slot name no entity referenced, visibly to the slot, in a snapshot so far *)
  Hypothesis Hdf : forall u, upd_for slot (fo_clients fo) = Some u -> forall d, In d (u_despawns u) ->
    forall t r s0, SN t r s0 -> ~ refd slot s0 d.

  Local Notation s3 := (fr_pre c s tick dt cleanup ops).
  Local Notation F := (fun cl => cleanup_rec c (sv_elapsed s + dt - cfg_timeout c) cleanup (ack_client (sv_now s) (sv_inbox_acks s) cl)).
  Local Notation FR := (frame_running_v c s tick dt cleanup ops parts s' fo Hok Hrun Hnd Hops Hf).
  Local Notation s2 := (if cleanup then cleanup_acks c (Server.receive_acks (with_time_tick s tick dt)) else Server.receive_acks (with_time_tick s tick dt)).

  Lemma sfo_ents2 : sv_ents s2 = sv_ents s.
  Proof. destruct cleanup; reflexivity. Qed.

  Lemma sfo_ents_ok : ents_oko s3.
  Proof.
    unfold fr_pre. cbv zeta. apply (ents_oko_ext (fold_left apply_sop ops s2)); [reflexivity|cbn; lia|]. apply ops_ents_oko; [exact Hvals|].
    apply (ents_oko_ext s); [exact sfo_ents2|destruct cleanup; cbn; lia|exact Heok].
  Qed.

  Lemma sfo_tick3 : sv_tick s' = sv_tick s3.
  Proof. destruct FR as (_ & _ & _ & _ & _ & _ & _ & Hc). cbv zeta in Hc. destruct (sv_dirty s || tick); destruct Hc as [-> _]; reflexivity. Qed.

  Lemma sfo_now3 : sv_now s3 = sv_now s.
  Proof. destruct FR as (_ & _ & E & _). exact E. Qed.

  Lemma sfo_now' : sv_now s3 <= sv_now s'.
  Proof.
    destruct FR as (_ & _ & _ & _ & _ & _ & _ & Hc). cbv zeta in Hc.
    destruct (sv_dirty s || tick); destruct Hc as [-> _]; cbn; lia.
  Qed.

  Lemma sfo_F_slot rec : sc_slot (F rec) = sc_slot rec /\ sc_authorized (F rec) = sc_authorized rec.
  Proof.
    destruct (ack_client_frame (sv_now s) (sv_inbox_acks s) rec) as (A1 & A2 & _). unfold cleanup_rec. destruct cleanup; cbn; auto.
  Qed.

  Lemma sfo_nodup3 : NoDup (map sc_slot (sv_clients s3)).
  Proof. destruct FR as (_ & _ & _ & _ & _ & Hk & _). cbv zeta in Hk. rewrite (cl_keep_slots _ _ Hk). exact Hnd. Qed.

  (* the record of the slot after the acknowledgements and the cleanup *)
  Lemma sfo_recF rec : In rec (sv_clients s) -> sc_slot rec = slot ->
    sc_slot (F rec) = slot /\ sc_authorized (F rec) = sc_authorized rec /\ sc_pending_map (F rec) = [] /\
    srv_slot_invr slot SN s (F rec) cli pend muts acks /\ ct_mutate_index (sc_ticks (F rec)) <= regs /\
    (sc_authorized rec = false -> sc_ticks (F rec) = ct_default) /\ once_known s (F rec).
  Proof.
    intros Hin Hs. destruct (Hrec rec Hin Hs) as (S1 & S2 & S3 & S4).
    destruct (ack_client_frame (sv_now s) (sv_inbox_acks s) rec) as (A1 & A2 & A3 & A4 & A5).
    set (rec2 := ack_client (sv_now s) (sv_inbox_acks s) rec) in *.
    set (rec3 := cleanup_rec c (sv_elapsed s + dt - cfg_timeout c) cleanup rec2) in *.
    assert (Hf1 : sc_slot rec3 = sc_slot rec2 /\ sc_authorized rec3 = sc_authorized rec2 /\ sc_pending_map rec3 = sc_pending_map rec2).
    { unfold rec3, cleanup_rec. destruct cleanup; cbn; auto. }
    destruct Hf1 as (B1 & B2 & B4).
    split; [congruence|]. split; [congruence|]. split; [rewrite B4, A5; exact (Hnm rec Hin)|].
    (* the bookkeeping after the acknowledgements *)
    assert (H2 : srv_slot_invr slot SN s rec2 cli pend muts acks /\ ct_mutate_index (sc_ticks rec2) <= regs /\
                 (sc_authorized rec = false -> sc_ticks rec2 = ct_default) /\ once_known s rec2).
    { unfold rec2, ack_client. destruct (sc_authorized rec) eqn:Ea.
      - cbn [sc_ticks]. split; [|split; [|split; [discriminate|]]].
        3:{ apply (once_known_ticks s (with_ticks rec (ack_all (sc_ticks rec) (sv_now s) (acks_for (sc_slot rec) (sv_inbox_acks s))))).
            - intros e a' Hst. exists a'. split; [exact Hst|lia].
            - apply (once_known_ack_all slot SN s cli pend muts _ Hmax rec acks); [rewrite Hs; exact S1|exact S4]. }
        + apply (srv_sloto_ticks slot SN s (with_ticks rec (ack_all (sc_ticks rec) (sv_now s) (acks_for (sc_slot rec) (sv_inbox_acks s))))); [reflexivity|].
          apply srv_sloto_ack_all; [exact Hmax|]. rewrite Hs. exact S1.
        + assert (E : ct_mutate_index (ack_all (sc_ticks rec) (sv_now s) (acks_for (sc_slot rec) (sv_inbox_acks s))) = ct_mutate_index (sc_ticks rec)).
          { clear. generalize (sc_ticks rec) as t. induction (acks_for (sc_slot rec) (sv_inbox_acks s)) as [|i r IH]; intros t; [reflexivity|].
            rewrite ack_all_cons, IH. exact (proj1 (proj2 (ack_frame t (sv_now s) i))). }
          rewrite E. exact S2.
      - split; [|split; [exact S2|split; [exact S3|exact S4]]]. apply (srv_sloto_sub slot SN s rec cli pend muts (acks_for slot (sv_inbox_acks s) ++ acks)); [auto| |exact S1].
        intros i Hi. apply in_or_app. right. exact Hi. }
    destruct H2 as (T1 & T2 & T3 & T4).
    unfold rec3, cleanup_rec. destruct cleanup; [|auto]. cbn [sc_ticks]. split; [|split; [exact T2|split]].
    3:{ apply (once_known_ticks s (with_ticks rec2 (cleanup_older_mutations (sc_ticks rec2) (sv_elapsed s + dt - cfg_timeout c)))).
        - intros e a' Hst. exists a'. split; [exact Hst|lia].
        - apply once_known_cleanup. exact T4. }
    - apply (srv_sloto_ticks slot SN s (with_ticks rec2 (cleanup_older_mutations (sc_ticks rec2) (sv_elapsed s + dt - cfg_timeout c)))); [reflexivity|].
      apply srv_sloto_cleanup. exact T1.
    - intros Hu. rewrite (T3 Hu). reflexivity.
  Qed.

  (* the records of the slot when `send_replication` runs *)
  Lemma sfo_rec3 cl3 : In cl3 (sv_clients s3) -> sc_slot cl3 = slot ->
    exists rec, In rec (sv_clients s) /\ sc_slot rec = slot /\ sc_authorized cl3 = sc_authorized rec /\
      sc_ticks cl3 = sc_ticks (F rec) /\ sc_pending_map cl3 = [] /\
      srv_slot_invr slot SN s3 cl3 cli pend muts acks /\ ct_mutate_index (sc_ticks cl3) <= regs /\
      (sc_authorized rec = false -> sc_ticks cl3 = ct_default) /\
      (sc_authorized rec = true -> pending_ok_v s3 cl3 (fold_left abs_apply pend (client_struct cli))) /\
      once_known s3 cl3.
  Proof.
    intros Hin Hs. destruct FR as (_ & _ & _ & _ & Htk & Hk & Hpre & _). cbv zeta in Htk, Hk, Hpre.
    destruct (Forall2_In_r _ _ _ _ Htk Hin) as [frec [Hfin ((K1 & K2 & _) & K5 & K6)]].
    apply in_map_iff in Hfin. destruct Hfin as [rec [<- Hr]].
    assert (Hsl : sc_slot rec = slot) by (rewrite <- (proj1 (sfo_F_slot rec)); congruence).
    destruct (sfo_recF rec Hr Hsl) as (R1 & R2 & R4 & R5 & R6 & R7 & R9).
    exists rec. split; [exact Hr|]. split; [exact Hsl|]. split; [congruence|]. split; [exact K5|]. split; [congruence|].
    split; [|split; [rewrite K5; exact R6|split; [intros Hu; rewrite K5; exact (R7 Hu)|split]]].
    3:{ apply (once_known_ticks s3 (F rec)); [intros e a' Hst; exists a'; split; [rewrite <- K5; exact Hst|lia]|].
        assert (Hl3 : sv_last_run s3 = sv_last_run s /\ sv_now s2 = sv_now s).
        { unfold fr_pre. cbv zeta. destruct (ops_flags ops s2) as (_ & _ & _ & _ & _ & Hl & _). split; [|destruct cleanup; reflexivity].
          transitivity (sv_last_run (fold_left apply_sop ops s2)); [reflexivity|]. rewrite Hl. destruct cleanup; reflexivity. }
        destruct Hl3 as [Hl3 Hn2].
        apply (once_known_srv s s3); [|lia|exact R9].
        apply (keeps_added_ext _ s (fold_left apply_sop ops s2) s3); [reflexivity|].
        apply ops_keeps_added; [exact (keeps_added_ext _ s s s2 sfo_ents2 (keeps_added_refl _ s))|].
        pose proof (sb_stamp s (proj1 Hok)). lia. }
    - apply (srv_sloto_ticks slot SN s3 (F rec) cl3 cli pend muts acks K5).
      apply (srv_sloto_srv slot SN SN s); [auto|intros e0 a0 t0 r0 s0 _ H0 _; exact H0|rewrite <- sfo_tick3; exact Htk3|rewrite sfo_now3; lia|exact R5].
    - intros Hau.
      destruct (Forall2_In_r _ _ _ _ Hk Hin) as [rec' [Hr' Hk']].
      assert (rec' = rec) by (apply (nodup_slot_eq (sv_clients s)); [exact Hnd|exact Hr'|exact Hr|destruct Hk' as [E _]; congruence]). subst rec'.
      apply (pending_ok_v_keep s3 rec cl3 _ Hk'). apply (pending_ok_v_srv s); [exact Hpre|]. exact (Hpend rec Hr Hsl Hau).
  Qed.

  Lemma sfo_cli3 : cli_invo slot SN cli pend muts.
  Proof. exact Hcli. Qed.

  Definition sfo_extra : list update_msg := match upd_for slot (fo_clients fo) with Some u => [u] | None => [] end.
  Definition sfo_newm : list mutate_msg := mutates_for slot (fo_clients fo).

  Lemma sfo_new_r t r s0 : SN' t r s0 -> SN t r s0 \/ forall t0 r0 s00, SN t0 r0 s00 -> r0 < r.
  Proof. intros H. destruct (Hsnap' t r s0 H) as [Ho|(_ & _ & -> & _)]; [left; exact Ho|right]. intros t0 r0 s00 H0. exact (Hboundr _ _ _ H0). Qed.

  (* nothing is sent to the slot *)
  Lemma sfo_quiet : sfo_extra = [] -> sfo_newm = [] ->
    (forall rec', In rec' (sv_clients s') -> sc_slot rec' = slot -> In rec' (sv_clients s3)) ->
    (fo_ran fo = true -> forall rec, In rec (sv_clients s) -> sc_slot rec = slot -> sc_authorized rec = false) ->
    (fo_ran fo = false -> sv_ents s' = sv_ents s3 /\ sv_last_run s' = sv_last_run s3) ->
    cli_invo slot SN' cli (pend ++ sfo_extra) (muts ++ sfo_newm) /\
    forall rec', In rec' (sv_clients s') -> sc_slot rec' = slot ->
      srv_slot_invr slot SN' s' rec' cli (pend ++ sfo_extra) (muts ++ sfo_newm) acks /\
      ct_mutate_index (sc_ticks rec') <= regs + N.of_nat (length sfo_newm) /\ (sc_authorized rec' = false -> sc_ticks rec' = ct_default) /\
      once_known s' rec'.
  Proof.
    intros E1 E2 Hrecs Hq Hnr. rewrite E1, E2, !app_nil_r. split.
    - apply (clio_srv slot SN SN'); [exact Hsn|exact sfo_new_r| |exact Hcli].
      intros t r s0 H0. destruct (Hsnap' t r s0 H0) as [Ho|(Hran & -> & _)]; [left; exact Ho|right].
      intros u Hu. destruct (co_pend _ _ _ _ _ Hcli u Hu) as (_ & r1 & s1 & H1 & _). pose proof (Hbound Hran _ _ _ H1). lia.
    - intros rec' Hin Hs. destruct (sfo_rec3 rec' (Hrecs rec' Hin Hs) Hs) as (rec & Hr & Hsl & Ha & _ & _ & S1 & S2 & S3 & _ & S5).
      cbn [length]. rewrite N.add_0_r. split; [|split; [exact S2|split; [rewrite Ha; exact S3|]]].
      2:{ destruct (fo_ran fo) eqn:Eran.
          - apply once_known_default. exact (S3 (Hq eq_refl rec Hr Hsl)).
          - destruct (Hnr eq_refl) as [Ee El]. apply (once_known_srv s3 s'); [|lia|exact S5].
            apply (keeps_added_ext _ s3 s3 s' Ee). apply keeps_added_refl. }
      apply (srv_sloto_srv slot SN SN' s3); [exact Hsn| |rewrite sfo_tick3; lia|exact sfo_now'|exact S1].
      intros e0 a0 t0 r0 s0 Hst H0 _. destruct (Hsnap' t0 r0 s0 H0) as [Ho|(Hran & _)]; [exact Ho|].
      exfalso. rewrite (S3 (Hq Hran rec Hr Hsl)) in Hst. discriminate.
  Qed.

  Theorem sframeo_slot :
    cli_invo slot SN' cli (pend ++ sfo_extra) (muts ++ sfo_newm) /\
    forall rec', In rec' (sv_clients s') -> sc_slot rec' = slot ->
      srv_slot_invr slot SN' s' rec' cli (pend ++ sfo_extra) (muts ++ sfo_newm) acks /\
      ct_mutate_index (sc_ticks rec') <= regs + N.of_nat (length sfo_newm) /\ (sc_authorized rec' = false -> sc_ticks rec' = ct_default) /\
      once_known s' rec'.
  Proof.
    pose proof FR as (Hok3 & Hev3 & Hnow3 & Htick3 & Htk & Hk & Hpre & Hc). cbv zeta in Hc, Htk, Hk, Hpre.
    destruct (sv_dirty s || tick) eqn:Ed.
    2:{ destruct Hc as [Es' Efo]. apply sfo_quiet.
        - unfold sfo_extra. rewrite Efo. reflexivity.
        - unfold sfo_newm. rewrite Efo. reflexivity.
        - intros rec' Hin Hs. rewrite Es' in Hin. exact Hin.
        - intros Hran. rewrite Efo in Hran. discriminate.
        - intros _. rewrite Es'. split; reflexivity. }
    destruct Hc as [Es' Efo].
    assert (Hran : fo_ran fo = true) by (rewrite Efo; reflexivity).
    assert (Houts : fo_clients fo = outs_of (map (client_result_pure c s3 parts) (sv_clients s3))) by (rewrite Efo; reflexivity).
    assert (Hcls' : sv_clients s' = map fst (map (client_result_pure c s3 parts) (sv_clients s3))) by (rewrite Es'; reflexivity).
    pose proof sfo_nodup3 as Hnd3.
    destruct (find (fun cl => (sc_slot cl =? slot) && sc_authorized cl) (sv_clients s3)) as [rec3|] eqn:Efind.
    - (* the slot has an authorized record *)
      apply find_some in Efind. destruct Efind as [Hin3 Hb]. apply andb_prop in Hb. destruct Hb as [Hsl Hau3]. assert (Hsl' : sc_slot rec3 = slot) by lia.
      destruct (sfo_rec3 rec3 Hin3 Hsl') as (rec & Hr & Hrs & Ha & _ & R4 & R5 & R6 & _ & R8 & R9).
      assert (Hau : sc_authorized rec = true) by congruence.
      set (p := part_for parts rec3).
      pose proof (upd_for_outs c s3 parts (sv_clients s3) rec3 Hnd3 Hin3 Hau3) as Eu. rewrite Hsl' in Eu. fold p in Eu.
      pose proof (mutates_for_outs c s3 parts (sv_clients s3) rec3 Hnd3 Hin3 Hau3) as Em. rewrite Hsl' in Em. fold p in Em.
      assert (Ex : sfo_extra = sendo_extra s3 rec3) by (unfold sfo_extra; rewrite Houts, Eu; symmetry; apply sendo_extra_out).
      assert (En : sfo_newm = co_mutates (snd (sfc_pure c s3 (sv_now s3) rec3 p))) by (unfold sfo_newm; rewrite Houts; exact Em).
      assert (Hnewsnap : SN' (sv_tick s3) (sv_now s3) s') by (rewrite <- sfo_tick3, Hnow3; exact (Hsnap Hran)).
      assert (Hb3 : forall t r s1, SN t r s1 -> t < sv_tick s3) by (intros t r s1 H0; rewrite <- sfo_tick3; exact (Hbound Hran t r s1 H0)).
      assert (Hp3 : 1 <= sv_tick s3).
      { rewrite <- sfo_tick3. apply (Hpos Hran). rewrite Hcls'. intros En0.
        assert (Hi0 : In (fst (client_result_pure c s3 parts rec3)) (map fst (map (client_result_pure c s3 parts) (sv_clients s3)))).
        { rewrite map_map. apply in_map_iff. exists rec3. split; [reflexivity|exact Hin3]. }
        rewrite En0 in Hi0. destruct Hi0. }
      assert (He' : sv_ents s' = sv_ents s3) by (rewrite Es'; reflexivity).
      assert (Ht' : sv_tick s' = sv_tick s3) by exact sfo_tick3.
      assert (Hnw : ct_mutate_index (sc_ticks rec3) + N.of_nat (length (co_mutates (snd (sfc_pure c s3 (sv_now s3) rec3 p)))) < 2 ^ 16).
      { rewrite <- En. unfold sfo_newm. lia. }
      assert (Hbr3 : forall t r s1, SN t r s1 -> r < sv_now s3) by (intros t r s1 H0; rewrite sfo_now3; exact (Hboundr _ _ _ H0)).
      assert (Hsn3 : forall t r s0, SN' t r s0 -> SN t r s0 \/ (t = sv_tick s3 /\ r = sv_now s3 /\ s0 = s')).
      { intros t r s0 H0. destruct (Hsnap' t r s0 H0) as [Ho|(_ & A & B & C)]; [left; exact Ho|right]. rewrite <- sfo_tick3, sfo_now3. auto. }
      assert (Hn' : sv_now s' = sv_now s3 + 1) by (rewrite Es'; reflexivity).
      assert (Hlr' : sv_last_run s' = sv_now s3) by (rewrite Es'; reflexivity).
      assert (Hpd3 : pending_ok_v s3 rec3 (fold_left abs_apply pend (client_struct cli))) by (apply R8; exact Hau).
      (* the record of the slot after the frame *)
      assert (Hrec' : forall rec', In rec' (sv_clients s') -> sc_slot rec' = slot -> rec' = fst (sfc_pure c s3 (sv_now s3) rec3 p)).
      { intros rec' Hin Hs. rewrite Hcls', map_map in Hin. apply in_map_iff in Hin. destruct Hin as [r3 [E Hr3]].
        assert (Hs3 : sc_slot r3 = slot).
        { rewrite <- E in Hs. unfold client_result_pure in Hs. destruct (sc_authorized r3); exact Hs. }
        assert (r3 = rec3) by (apply (nodup_slot_eq (sv_clients s3)); [exact Hnd3|exact Hr3|exact Hin3|congruence]). subst r3.
        rewrite <- E. unfold client_result_pure. rewrite Hau3. reflexivity. }
      assert (Hfind' : find_client s' slot = Some (fst (sfc_pure c s3 (sv_now s3) rec3 p))).
      { unfold find_client. destruct (find (fun c0 => sc_slot c0 =? slot) (sv_clients s')) as [r0|] eqn:E0.
        - apply find_some in E0. destruct E0 as [Hi0 Hs0]. rewrite (Hrec' r0 Hi0); [reflexivity|lia].
        - exfalso. assert (Hin' : In (fst (sfc_pure c s3 (sv_now s3) rec3 p)) (sv_clients s')).
          { rewrite Hcls', map_map. apply in_map_iff. exists rec3. split; [|exact Hin3]. unfold client_result_pure. rewrite Hau3. reflexivity. }
          pose proof (find_none _ _ E0 _ Hin') as Hn. cbn [sfc_pure fst sc_slot] in Hn. lia. }
      assert (Hdf3 : forall d, In d (sfc_despawns s3 rec3) -> forall t r s0, SN t r s0 -> ~ refd slot s0 d).
      { intros d Hd. apply (Hdf (sfc_upd s3 (sv_now s3) rec3)).
        - rewrite Houts, Eu, (sfc_update_out c s3 rec3 p).
          replace (sfc_has_upd s3 (sv_now s3) rec3) with true; [reflexivity|]. symmetry.
          unfold sfc_has_upd, update_is_empty, sfc_upd. cbn [u_maps u_despawns u_removals u_changes].
          destruct (sort_by_key (sc_pending_map rec3)); [|reflexivity]. destruct (sfc_despawns s3 rec3); [destruct Hd|reflexivity].
        - unfold sfc_upd. cbn [u_despawns]. exact Hd. }
      rewrite Ex, En. split.
      + exact (sendo_cli slot SN SN' c s3 s' rec3 p cli pend muts acks Hsn Hnewsnap Hb3 Hp3 He' Ht' Hok3 Hev3 R4 sfo_ents_ok R9 Hlr' Hcli R5 Hbr3 Hsn3 Hn' Hpd3 Hdf3 Hfind' Hnw).
      + intros rec' Hin Hs. rewrite (Hrec' rec' Hin Hs). split; [|split; [|split]].
        4:{ exact (sendo_known slot SN SN' c s3 s' rec3 p cli pend Hsn Hb3 Hp3 He' Ht' Hok3 sfo_ents_ok R9 Hlr' Hbr3 Hsn3 Hn' Hpd3 Hdf3 Hnw). }
        * exact (sendo_slot slot SN SN' c s3 s' rec3 p cli pend muts acks Hsn Hnewsnap Hb3 Hp3 He' Ht' Hok3 Hev3 R4 sfo_ents_ok R9 Hlr' Hcli R5 Hbr3 Hsn3 Hn' Hpd3 Hdf3 Hfind' Hnw).
        * rewrite (proj1 (sfc_regs c s3 rec3 p Hnw)). lia.
        * cbn. discriminate.
    - (* no authorized record: nothing is sent to the slot *)
      assert (Hnone : forall cl, In cl (sv_clients s3) -> sc_slot cl = slot -> sc_authorized cl = false).
      { intros cl Hin Hs. pose proof (find_none _ _ Efind cl Hin) as Hf0. cbn in Hf0. destruct (sc_authorized cl); [|reflexivity]. lia. }
      destruct (outs_none c s3 parts (sv_clients s3) slot Hnone) as [N1 N2].
      apply sfo_quiet.
      + unfold sfo_extra. rewrite Houts, N1. reflexivity.
      + unfold sfo_newm. rewrite Houts. exact N2.
      + intros rec' Hin Hs. rewrite Hcls', map_map in Hin. apply in_map_iff in Hin. destruct Hin as [r3 [E Hr3]].
        assert (Hs3 : sc_slot r3 = slot).
        { rewrite <- E in Hs. unfold client_result_pure in Hs. destruct (sc_authorized r3); exact Hs. }
        assert (E' : rec' = r3) by (rewrite <- E; unfold client_result_pure; rewrite (Hnone r3 Hr3 Hs3); reflexivity).
        rewrite E'. exact Hr3.
      + intros _ rec Hr Hs. destruct (Forall2_In_l _ _ _ _ Hk Hr) as [cl3 [Hin3 (K1 & K2 & _)]].
        rewrite <- K2. apply (Hnone cl3 Hin3). congruence.
      + intros Hf0. congruence.
  Qed.
End SFrameR.
