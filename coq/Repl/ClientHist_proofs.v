(* C03, client half, the history argument: an old mutate message cannot change the structure.
   Every replicated entity the client holds carries a confirm history whose last tick is not
   below the tick of the last applied update message that mentioned it ([ent_hist_ok]); the
   server only puts kinds into a mutate message that the entity has at the message's tick
   ([mmsg_ok]); together they give [mut_safe].  Definitions: Repl/ClientStructSpec.v. *)
From RV Require Import Lib.Res Repl.ClientTicks Repl.ClientTicks_proofs Repl.World Repl.Client
  Vis.Visibility Tick.RepliconTick Tick.RepliconTick_proofs Tick.ConfirmHistory Tick.MutateTicks
  Repl.Server Repl.ServerSpec Repl.Server_proofs Repl.StructSpec Repl.Struct_proofs
  Repl.Sys Repl.Client_proofs Repl.ClientEnt_proofs Repl.ClientMut_proofs Repl.ClientSys_proofs
  Repl.ClientStructSpec Repl.ClientStruct_proofs.
From Coq Require Import ZifyBool ZifyN.
Open Scope N_scope.
Ltac Zify.zify_post_hook ::= Z.div_mod_to_equations.
Arguments N.add : simpl never. Arguments N.mul : simpl never. Arguments N.pow : simpl never.
Arguments N.ltb : simpl never. Arguments N.leb : simpl never. Arguments N.div : simpl never.
Arguments N.modulo : simpl never. Arguments N.sub : simpl never. Arguments N.eqb : simpl never.

(* ================================================================== *)
(* 1. entities an update step does not mention keep their record      *)
(* ================================================================== *)

Definition others_same (E : list N) (c c' : client) : Prop :=
  forall e cid x', ~ In e E -> al_get e (cl_s2c c') = Some cid -> get_cent c' cid = Some x' -> ce_marker x' = true ->
    al_get e (cl_s2c c) = Some cid /\ get_cent c cid = Some x'.

Lemma others_same_refl E c : others_same E c c.
Proof. intros e cid x' _ H1 H2 _. auto. Qed.

Lemma others_same_trans E1 E2 a b c : others_same E1 a b -> others_same E2 b c -> others_same (E1 ++ E2) a c.
Proof.
  intros H1 H2 e cid x' Hn Hs Hx Hm. destruct (H2 e cid x') as [A B]; auto.
  { intros Hin. apply Hn. apply in_or_app. right. exact Hin. }
  apply (H1 e cid x'); auto. intros Hin. apply Hn. apply in_or_app. left. exact Hin.
Qed.

Lemma others_same_weaken E E' c c' : (forall e, In e E -> In e E') -> others_same E c c' -> others_same E' c c'.
Proof. intros Hi H e cid x' Hn. apply H. intros Hin. apply Hn. apply Hi. exact Hin. Qed.

(* from the facts the step lemmas provide *)
Lemma others_same_intro E c c' :
  cs_inv c' ->
  (forall e, ~ In e E -> cs_get c' e = cs_get c e) ->
  (forall e cid, al_get e (cl_s2c c) = Some cid -> al_get e (cl_s2c c') = Some cid) ->
  (forall e cid y, ~ In e E -> al_get e (cl_s2c c) = Some cid -> get_cent c cid = Some y -> get_cent c' cid = Some y) ->
  others_same E c c'.
Proof.
  intros Hinv Hget Hmap Hfwd e cid x' Hn Hs Hx Hm.
  destruct (ci_mapped c' Hinv e cid Hs) as [y [Hy Ha]]. rewrite Hx in Hy. inversion Hy; subst y.
  pose proof (Hget e Hn) as Hg. rewrite (cs_get_mapped c' e cid x' Hs Hx), Ha, Hm in Hg. cbn [andb] in Hg.
  unfold cs_get in Hg. destruct (al_get e (cl_s2c c)) as [cid0|] eqn:E0; [|discriminate].
  assert (cid0 = cid) by (pose proof (Hmap e cid0 E0) as G; congruence). subst cid0.
  destruct (get_cent c cid) as [x0|] eqn:Ex0; [|discriminate].
  pose proof (Hfwd e cid x0 Hn E0 Ex0) as Hf. rewrite Hx in Hf. inversion Hf; subst x0. auto.
Qed.

Lemma not_in_single (e e0 : N) : ~ In e [e0] -> e <> e0.
Proof. intros H ->. apply H. left. reflexivity. Qed.

Lemma others_same_set_cent c e0 cid0 x' : cs_inv c -> cs_inv (set_cent c cid0 x') ->
  al_get e0 (cl_s2c c) = Some cid0 -> others_same [e0] c (set_cent c cid0 x').
Proof.
  intros Hinv Hinv' Hs. apply others_same_intro; [exact Hinv'| |auto|].
  - intros e Hn. apply (cs_get_set_cent_other c e0 e cid0 x' (ci_emap c Hinv) Hs). exact (not_in_single e e0 Hn).
  - intros e cid y Hn He Hy. rewrite get_cent_set_cent_other; [exact Hy|].
    intros ->. apply (not_in_single e e0 Hn). exact (s2c_inj c e e0 cid0 (ci_emap c Hinv) He Hs).
Qed.

Lemma others_same_despawn c d : cs_inv c -> others_same [d] c (apply_despawn c d).
Proof.
  intros Hinv. destruct (al_get d (cl_s2c c)) as [cidd|] eqn:E; [|rewrite (despawn_unmapped c d E); apply others_same_refl].
  destruct (ci_mapped c Hinv d cidd E) as [x [Hx Ha]]. rewrite (despawn_mapped c d cidd x E Hx Ha).
  intros e cid x' Hn Hs Hx' Hm. apply not_in_single in Hn. cbn [set_cent set_maps cl_s2c] in Hs.
  rewrite al_get_remove_other in Hs by exact Hn. split; [exact Hs|].
  assert (Hc : cid <> cidd) by (intros ->; apply Hn; exact (s2c_inj c e d cidd (ci_emap c Hinv) Hs E)).
  rewrite get_cent_set_cent_other in Hx' by exact Hc. exact Hx'.
Qed.

Lemma others_same_despawns ds : forall c, cs_inv c -> others_same ds c (fold_left apply_despawn ds c).
Proof.
  induction ds as [|d t IH]; intros c Hinv; cbn [fold_left]; [apply others_same_refl|].
  change (d :: t) with ([d] ++ t). eapply others_same_trans; [apply others_same_despawn; exact Hinv|].
  apply IH. exact (proj1 (despawn_step c (client_struct c) d Hinv (srel_self c (cs_inv_nodup c Hinv)))).
Qed.

Lemma others_same_entry c e c1 cid : cs_inv c -> entry_entity c e = Some (c1, cid) -> cs_inv c1 /\ others_same [e] c c1.
Proof.
  intros Hinv He. destruct (entry_props c e Hinv) as (c1' & cid' & x & He' & Hinv1 & _ & _ & _ & _ & Hoth & Hmap & Hfwd).
  rewrite He in He'. inversion He'; subst c1' cid'. split; [exact Hinv1|].
  apply others_same_intro; [exact Hinv1| |exact Hmap|].
  - intros e' Hn. apply Hoth. exact (not_in_single e' e Hn).
  - intros e' cid' y _ _ Hy. exact (Hfwd cid' y Hy).
Qed.

Lemma app_single_idem (e : N) E : (forall a, In a ([e] ++ [e] ++ E) -> In a ([e] ++ E)).
Proof. intros a [H|[H|H]]; [left; exact H|left; exact H|right; exact H]. Qed.

Lemma others_same_removal c T r0 c' : cs_inv c -> apply_removals c T (fst r0) (snd r0) = Ok (Continue c') ->
  others_same [fst r0] c c'.
Proof.
  intros Hinv H. destruct r0 as [e ks]. cbn [fst snd] in *.
  destruct (entry_props c e Hinv) as (c1 & cid & x & He & Hinv1 & Hx & Ha & Hs & _).
  destruct (others_same_entry c e c1 cid Hinv He) as [_ Ho1].
  unfold apply_removals in H. rewrite He, Hx in H. apply bind_ok in H. destruct H as [x1 [E1 H]].
  inversion H; subst c'. clear H.
  apply confirm_tick_fields in E1. cbn [with_marker ce_alive ce_pre ce_marker ce_comps ce_hist] in E1.
  destruct E1 as (A1 & _ & A3 & _).
  match goal with |- others_same _ _ (set_cent c1 cid ?x2) =>
    assert (Hinv2 : cs_inv (set_cent c1 cid x2)) by (eapply cs_inv_set_cent; [exact Hinv1|exact Hx|cbn; congruence|cbn; congruence]);
    pose proof (others_same_set_cent c1 e cid x2 Hinv1 Hinv2 Hs) as Ho2 end.
  apply (others_same_weaken ([e] ++ [e])); [intros a [Ha'|[Ha'|[]]]; left; exact Ha'|].
  eapply others_same_trans; eassumption.
Qed.

Lemma others_same_change c T ch c' : cs_inv c -> apply_changes c T (fst ch) (snd ch) = Ok (Continue c') ->
  others_same [fst ch] c c'.
Proof.
  intros Hinv H. destruct ch as [e comps]. cbn [fst snd] in *.
  destruct (entry_props c e Hinv) as (c1 & cid & x & He & Hinv1 & Hx & Ha & Hs & _).
  destruct (others_same_entry c e c1 cid Hinv He) as [_ Ho1].
  unfold apply_changes in H. rewrite He, Hx in H. apply bind_ok in H. destruct H as [x1 [E1 H]].
  inversion H; subst c'. clear H.
  apply confirm_tick_fields in E1. cbn [with_marker ce_alive ce_pre ce_marker ce_comps ce_hist] in E1.
  destruct E1 as (A1 & _ & A3 & _).
  assert (Hinv2 : cs_inv (set_cent c1 cid x1)) by (eapply cs_inv_set_cent; [exact Hinv1|exact Hx|congruence|congruence]).
  pose proof (others_same_set_cent c1 e cid x1 Hinv1 Hinv2 Hs) as Ho2.
  destruct (write_comps_props comps (set_cent c1 cid x1) e cid x1 Hinv2 Hs (get_cent_set_cent_same _ _ _)
              (eq_trans A1 Ha) A3) as [G1 G2 _ G4 G5 _].
  assert (Ho3 : others_same [e] (set_cent c1 cid x1) (write_comps (set_cent c1 cid x1) cid comps)).
  { apply others_same_intro; [exact G1| |exact G2|].
    - intros e' Hn. apply G4. exact (not_in_single e' e Hn).
    - intros e' cid' y Hn He' Hy. apply G5; [|exact Hy]. intros ->. apply (not_in_single e' e Hn).
      exact (s2c_inj _ e' e cid (ci_emap _ Hinv2) He' Hs). }
  apply (others_same_weaken ([e] ++ [e] ++ [e])); [intros a [Ha'|[Ha'|[Ha'|[]]]]; left; exact Ha'|].
  eapply others_same_trans; [exact Ho1|]. eapply others_same_trans; eassumption.
Qed.

Lemma others_same_run_removals T l : forall c c', cs_inv c ->
  run_array (fun c r => apply_removals c T (fst r) (snd r)) l c = Ok (Continue c') -> others_same (map fst l) c c'.
Proof.
  induction l as [|a t IH]; intros c c' Hinv H.
  - rewrite run_array_nil in H. inversion H; subst. apply others_same_refl.
  - rewrite run_array_cons in H. destruct (apply_removals c T (fst a) (snd a)) as [r1| |] eqn:E; try discriminate.
    destruct (removal_step c (client_struct c) T a r1 Hinv (srel_self c (cs_inv_nodup c Hinv)) E) as (c1 & -> & Hinv1 & _).
    cbn [map]. change (fst a :: map fst t) with ([fst a] ++ map fst t).
    eapply others_same_trans; [exact (others_same_removal c T a c1 Hinv E)|exact (IH c1 c' Hinv1 H)].
Qed.

Lemma others_same_run_changes T l : forall c c', cs_inv c ->
  run_array (fun c ch => apply_changes c T (fst ch) (snd ch)) l c = Ok (Continue c') -> others_same (map fst l) c c'.
Proof.
  induction l as [|a t IH]; intros c c' Hinv H.
  - rewrite run_array_nil in H. inversion H; subst. apply others_same_refl.
  - rewrite run_array_cons in H. destruct (apply_changes c T (fst a) (snd a)) as [r1| |] eqn:E; try discriminate.
    destruct (change_step c (client_struct c) T a r1 Hinv (srel_self c (cs_inv_nodup c Hinv)) E) as (c1 & -> & Hinv1 & _).
    cbn [map]. change (fst a :: map fst t) with ([fst a] ++ map fst t).
    eapply others_same_trans; [exact (others_same_change c T a c1 Hinv E)|exact (IH c1 c' Hinv1 H)].
Qed.

(* ================================================================== *)
(* 2. confirm histories stay small                                    *)
(* ================================================================== *)

Lemma hs_set_cent c cid x' : hist_small c -> (forall h, ce_hist x' = Some h -> small_tick (h_last h)) ->
  hist_small (set_cent c cid x').
Proof.
  intros H Hx cid0 x0 h0. destruct (N.eq_dec cid0 cid) as [->|Hne].
  - rewrite get_cent_set_cent_same. intros E; inversion E; subst. apply Hx.
  - rewrite get_cent_set_cent_other by exact Hne. apply H.
Qed.

Lemma hs_spawn_vacant c t p m : hist_small c -> hist_small (emap_vacant_insert (fst (spawn_cent c p m)) t (cl_next c)).
Proof.
  intros H cid x h Hx Hh. unfold get_cent in Hx. cbn in Hx. apply al_get_snoc in Hx.
  destruct Hx as [Hx|(_ & _ & ->)]; [exact (H cid x h Hx Hh)|discriminate].
Qed.

Lemma hs_entry c e c1 cid : hist_small c -> entry_entity c e = Some (c1, cid) -> hist_small c1.
Proof.
  intros Hp. unfold entry_entity. destruct (al_get e (cl_s2c c)) as [cid0|].
  - destruct (alive c cid0); [|discriminate]. intros H; inversion H; subst; exact Hp.
  - intros H. cbn in H. inversion H; subst. exact (hs_spawn_vacant c e None true Hp).
Qed.

Lemma hs_map_value c v : hist_small c -> hist_small (fst (map_value c v)).
Proof.
  intros Hp. unfold map_value. destruct v as [n|t]; [exact Hp|]. destruct (al_get t (cl_s2c c)); [exact Hp|].
  exact (hs_spawn_vacant c t None false Hp).
Qed.

Lemma hs_write_one cid c kv : hist_small c -> hist_small (write_one cid c kv).
Proof.
  intros Hp. rewrite write_one_eq. pose proof (hs_map_value c (snd kv) Hp) as H.
  destruct (get_cent _ cid) as [x|] eqn:E; [|exact H]. apply hs_set_cent; [exact H|]. cbn. intros h Hh. exact (H cid x h E Hh).
Qed.

Lemma hs_write_comps c cid comps : hist_small c -> hist_small (write_comps c cid comps).
Proof. rewrite write_comps_fold. apply Client_proofs.fold_left_inv. intros; apply hs_write_one; assumption. Qed.

Lemma hs_removals c T s kinds r : small_tick T -> hist_small c -> apply_removals c T s kinds = Ok r -> hist_small (sr_client r).
Proof.
  intros HT Hp. unfold apply_removals. destruct (entry_entity c s) as [[c1 cid]|] eqn:E.
  - pose proof (hs_entry _ _ _ _ Hp E) as H1. destruct (get_cent c1 cid) as [x|] eqn:Ex.
    + intros H. apply bind_ok in H. destruct H as [x1 [E1 H]]. inversion H; subst. cbn [sr_client].
      apply confirm_tick_fields in E1. destruct E1 as (_ & _ & _ & _ & h' & Hh' & Hl' & _).
      apply hs_set_cent; [exact H1|]. cbn. intros h Hh. assert (h = h') by congruence. subst h. rewrite Hl'. exact HT.
    + intros H; inversion H; subst. exact H1.
  - intros H; inversion H; subst. exact Hp.
Qed.

Lemma hs_changes c T s comps r : small_tick T -> hist_small c -> apply_changes c T s comps = Ok r -> hist_small (sr_client r).
Proof.
  intros HT Hp. unfold apply_changes. destruct (entry_entity c s) as [[c1 cid]|] eqn:E.
  - pose proof (hs_entry _ _ _ _ Hp E) as H1. destruct (get_cent c1 cid) as [x|] eqn:Ex.
    + intros H. apply bind_ok in H. destruct H as [x1 [E1 H]]. inversion H; subst. cbn [sr_client].
      apply confirm_tick_fields in E1. destruct E1 as (_ & _ & _ & _ & h' & Hh' & Hl' & _).
      apply hs_write_comps. apply hs_set_cent; [exact H1|]. intros h Hh. assert (h = h') by congruence. subst h. rewrite Hl'. exact HT.
    + intros H; inversion H; subst. exact H1.
  - intros H; inversion H; subst. exact Hp.
Qed.

Lemma hs_despawn c s : hist_small c -> hist_small (apply_despawn c s).
Proof.
  intros Hp. unfold apply_despawn, emap_remove_server. destruct (al_get s (cl_s2c c)) as [cid|]; [|exact Hp].
  cbv beta iota. rewrite get_cent_set_maps.
  assert (G : hist_small (set_maps c (al_remove s (cl_s2c c)) (al_remove cid (cl_c2s c)))) by (revert Hp; apply hist_small_ext; reflexivity).
  destruct (get_cent c cid) as [x|]; [|exact G]. destruct (ce_alive x); [|exact G].
  apply hs_set_cent; [exact G|]. cbn. discriminate.
Qed.

Lemma hs_update_nomaps c u c' : small_tick (u_tick u) -> hist_small c -> u_maps u = [] -> apply_update_message c u = Ok c' -> hist_small c'.
Proof.
  intros HT Hp Hm H. unfold apply_update_message in H. rewrite Hm in H. cbn [fold_left] in H.
  apply bind_ok in H. destruct H as [r3 [E3 H]].
  assert (H2 : hist_small (fold_left apply_despawn (u_despawns u) (set_upd_tick c (u_tick u)))).
  { apply Client_proofs.fold_left_inv; [intros; apply hs_despawn; assumption|]. revert Hp. apply hist_small_ext; reflexivity. }
  pose proof (run_array_inv hist_small _ _ (fun c0 a r P E => hs_removals c0 _ _ _ r HT P E) _ _ H2 E3) as H3.
  destruct r3 as [c3|c3]; cbn [sr_client] in H3; [|inversion H; subst; exact H3].
  apply bind_ok in H. destruct H as [r4 [E4 H]].
  pose proof (run_array_inv hist_small _ _ (fun c0 a r P E => hs_changes c0 _ _ _ r HT P E) _ _ H3 E4) as H4.
  destruct r4 as [c4|c4]; cbn [sr_client] in H4; inversion H; subst; exact H4.
Qed.

Lemma hs_cop c op : hist_small c -> hist_small (apply_cop c op).
Proof.
  intros Hp. destruct op as [pc|pc]; cbn [apply_cop].
  - destruct (existsb _ (cl_ents c)); [exact Hp|]. intros cid x h Hx Hh. unfold get_cent in Hx. cbn in Hx.
    apply al_get_snoc in Hx. destruct Hx as [Hx|(_ & _ & ->)]; [exact (Hp cid x h Hx Hh)|discriminate].
  - destruct (find _ (cl_ents c)) as [[cid x]|]; [|exact Hp]. destruct (ce_alive x); [|exact Hp].
    apply hs_set_cent; [exact Hp|]. cbn. discriminate.
Qed.

Lemma hs_cops ops : forall c, hist_small c -> hist_small (fold_left apply_cop ops c).
Proof. induction ops as [|op t IH]; intros c H; cbn [fold_left]; [exact H|]. apply IH. apply hs_cop. exact H. Qed.

(* ================================================================== *)
(* 3. the history invariant under update messages                     *)
(* ================================================================== *)

Lemma ent_hist_ok_ext A c c' : cl_s2c c' = cl_s2c c -> cl_ents c' = cl_ents c -> ent_hist_ok A c -> ent_hist_ok A c'.
Proof. intros E1 E3 H e cid x. unfold get_cent. rewrite E1, E3. apply H. Qed.

Theorem update_message_hist c u c' applied :
  cs_inv c -> u_maps u = [] -> apply_update_message c u = Ok c' ->
  ent_hist_ok applied c -> (forall u0, In u0 applied -> u_tick u0 <= u_tick u) ->
  ent_hist_ok (applied ++ [u]) c'.
Proof.
  intros Hinv Hm H Hok Hle.
  destruct (update_message_srel c (client_struct c) u c' Hinv (srel_self c (cs_inv_nodup c Hinv)) Hm H) as (_ & Hinv' & _ & Hcomp).
  pose proof Hcomp as [c3 [E3 E4]].
  assert (Hinv0 : cs_inv (set_upd_tick c (u_tick u))) by (revert Hinv; apply cs_inv_ext; reflexivity).
  assert (Epre : update_pre c u = fold_left apply_despawn (u_despawns u) (set_upd_tick c (u_tick u))).
  { unfold update_pre. rewrite Hm. reflexivity. }
  assert (Hinvp : cs_inv (update_pre c u)).
  { rewrite Epre. exact (proj1 (despawns_struct _ _ _ Hinv0 (srel_self _ (cs_inv_nodup _ Hinv0)))). }
  destruct (removals_struct _ _ _ _ _ Hinvp (srel_self _ (cs_inv_nodup _ Hinvp)) E3) as (c3' & E3' & Hinv3 & _).
  inversion E3'; subst c3'. clear E3'.
  pose proof (others_same_despawns (u_despawns u) _ Hinv0) as O1. rewrite <- Epre in O1.
  pose proof (others_same_run_removals _ _ _ _ Hinvp E3) as O2.
  pose proof (others_same_run_changes _ _ _ _ Hinv3 E4) as O3.
  intros e cid x' Hs Hx Hmk.
  assert (Htouched : (exists ks, In (e, ks) (u_removals u)) \/ (exists cs, In (e, cs) (u_changes u)) ->
            exists h a1 a2, ce_hist x' = Some h /\ applied ++ [u] = a1 ++ a2 /\
              (forall u0, In u0 a1 -> u_tick u0 <= h_last h) /\ (forall u0, In u0 a2 -> untouched e u0)).
  { intros Ht. destruct (update_changed_entities_confirmed c u c' (proj2 (ci_ewf c Hinv)) Hcomp) as [Hr Hc].
    assert (Hcf : confirmed_at (u_tick u) c' e) by (destruct Ht as [[ks Hin]|[cs Hin]]; [exact (Hr e ks Hin)|exact (Hc e cs Hin)]).
    destruct Hcf as (cid2 & x2 & Hs2 & Hx2 & (_ & _ & (h & Hh & Hl))).
    assert (cid2 = cid) by congruence. subst cid2. assert (x2 = x') by congruence. subst x2.
    exists h, (applied ++ [u]), []. split; [exact Hh|]. split; [rewrite app_nil_r; reflexivity|]. split; [|intros u0 []].
    intros u0 Hin. rewrite Hl. apply in_app_or in Hin. destruct Hin as [Hin|[<-|[]]]; [exact (Hle u0 Hin)|lia]. }
  destruct (in_dec N.eq_dec e (map fst (u_removals u))) as [Hr|Hnr].
  { apply Htouched. left. apply in_map_iff in Hr. destruct Hr as [[e' ks] [Ee Hin]]. cbn in Ee. subst e'. exists ks. exact Hin. }
  destruct (in_dec N.eq_dec e (map fst (u_changes u))) as [Hc|Hnc].
  { apply Htouched. right. apply in_map_iff in Hc. destruct Hc as [[e' cs] [Ee Hin]]. cbn in Ee. subst e'. exists cs. exact Hin. }
  destruct (O3 e cid x' Hnc Hs Hx Hmk) as [S3 X3]. destruct (O2 e cid x' Hnr S3 X3 Hmk) as [S2 X2].
  destruct (in_dec N.eq_dec e (u_despawns u)) as [Hd|Hnd].
  { exfalso. rewrite Epre in S2. rewrite (proj1 (despawns_unmapped_dead (u_despawns u) _ e Hd)) in S2. discriminate. }
  destruct (O1 e cid x' Hnd S2 X2 Hmk) as [S1 X1]. change (al_get e (cl_s2c c) = Some cid) in S1.
  change (get_cent c cid = Some x') in X1.
  destruct (Hok e cid x' S1 X1 Hmk) as (h & a1 & a2 & Hh & Ea & Ha1 & Ha2).
  exists h, a1, (a2 ++ [u]). split; [exact Hh|]. split; [rewrite Ea, app_assoc; reflexivity|]. split; [exact Ha1|].
  intros u0 Hin. apply in_app_or in Hin. destruct Hin as [Hin|[<-|[]]]; [exact (Ha2 u0 Hin)|]. unfold untouched. auto.
Qed.

(* ================================================================== *)
(* 4. the history invariant under mutate messages                     *)
(* ================================================================== *)

Section MutHist.
  Variable A : list update_msg.

  Definition mut_K (c : client) : Prop := cs_inv c /\ hist_small c /\ ent_hist_ok A c.

  Lemma mut_K_ext c c' :
    cl_s2c c' = cl_s2c c -> cl_c2s c' = cl_c2s c -> cl_ents c' = cl_ents c -> cl_next c' = cl_next c ->
    mut_K c -> mut_K c'.
  Proof.
    intros E1 E2 E3 E4 (H1 & H2 & H3). split; [exact (cs_inv_ext c c' E1 E2 E3 E4 H1)|].
    split; [exact (hist_small_ext c c' E3 H2)|exact (ent_hist_ok_ext A c c' E1 E3 H3)].
  Qed.

  Lemma mut_K_step c T e comps r : mut_K c -> small_tick T -> apply_mutations c T e comps = Ok r -> mut_K (sr_client r).
  Proof.
    intros HK HT H. pose proof HK as (Hinv & Hsm & Hok). unfold apply_mutations in H.
    destruct (al_get e (cl_s2c c)) as [cid|] eqn:He; [|inversion H; subst; exact HK].
    destruct (get_cent c cid) as [x|] eqn:Hx; [|inversion H; subst; exact HK].
    destruct (ce_alive x) eqn:Ha; cbn [negb] in H; [|inversion H; subst; exact HK].
    destruct (ce_hist x) as [h|] eqn:Hh; [|inversion H; subst; exact HK].
    destruct (tick_gtb T (h_last h)) eqn:Eg; [|inversion H; subst; exact HK].
    apply bind_ok in H. destruct H as [h' [Eh' H]]. inversion H; subst r. clear H. cbn [sr_client].
    apply hist_set_last_tick_ok in Eh'. destruct Eh' as [Hl' _].
    assert (Hm : ce_marker x = true).
    { destruct (ce_marker x) eqn:Em; [reflexivity|]. destruct (ci_blank c Hinv cid x Hx Em) as [_ Hn]. congruence. }
    pose proof (Hsm cid x h Hx Hh) as Hhs. rewrite (tick_gtb_small T (h_last h) HT Hhs) in Eg.
    set (x1 := mkCEnt true (ce_pre x) (ce_marker x) (Some h') (ce_comps x)).
    set (c2 := set_cent c cid x1).
    assert (Hinv2 : cs_inv c2) by (eapply cs_inv_set_cent; [exact Hinv|exact Hx|reflexivity|cbn; congruence]).
    destruct (write_comps_props comps c2 e cid x1 Hinv2 He (get_cent_set_cent_same _ _ _) eq_refl Hm)
      as [G1 G2 (x' & Hx' & Ha' & Hm' & Hh' & _ & _) G4 G5 G6].
    set (c' := write_comps c2 cid comps) in *.
    assert (Ho : others_same [e] c c').
    { apply (others_same_weaken ([e] ++ [e])); [intros a [Ha0|[Ha0|[]]]; left; exact Ha0|].
      eapply others_same_trans; [exact (others_same_set_cent c e cid x1 Hinv Hinv2 He)|].
      apply others_same_intro; [exact G1| |exact G2|].
      - intros e' Hn. apply G4. exact (not_in_single e' e Hn).
      - intros e' cid' y Hn He' Hy. apply G5; [|exact Hy]. intros ->. apply (not_in_single e' e Hn).
        exact (s2c_inj c2 e' e cid (ci_emap c2 Hinv2) He' He). }
    split; [exact G1|]. split.
    - intros cid0 x0 h0 Hx0 Hh0. destruct (N.eq_dec cid0 cid) as [->|Hne].
      + rewrite Hx' in Hx0. inversion Hx0; subst x0. rewrite Hh' in Hh0. cbn in Hh0. inversion Hh0; subst h0.
        rewrite Hl'. exact HT.
      + destruct (G6 cid0 x0 Hne Hx0) as [Hy | ->]; [|discriminate].
        unfold c2 in Hy. rewrite get_cent_set_cent_other in Hy by exact Hne. exact (Hsm cid0 x0 h0 Hy Hh0).
    - intros e1 cid1 x1' Hs1 Hx1 Hm1. destruct (N.eq_dec e1 e) as [->|Hne].
      + rewrite (G2 e cid He) in Hs1. inversion Hs1; subst cid1. rewrite Hx' in Hx1. inversion Hx1; subst x1'.
        destruct (Hok e cid x He Hx Hm) as (h0 & a1 & a2 & Hh0 & Ea & Ha1 & Ha2). assert (h0 = h) by congruence. subst h0.
        exists h', a1, a2. split; [rewrite Hh'; reflexivity|]. split; [exact Ea|]. split; [|exact Ha2].
        intros u0 Hin. specialize (Ha1 u0 Hin). lia.
      + destruct (Ho e1 cid1 x1') as [S0 X0]; auto. { intros [Hc|[]]. congruence. }
        exact (Hok e1 cid1 x1' S0 X0 Hm1).
  Qed.
End MutHist.

Theorem mutate_messages_hist A c c' out :
  mut_K A c -> (forall m, In m (cl_buffered c) -> small_tick (m_tick m)) ->
  apply_mutate_messages c = Ok (c', out) -> mut_K A c'.
Proof.
  intros HK Hsmall H. rewrite apply_mutate_messages_eq in H. apply bind_ok in H. destruct H as [st [E H]].
  assert (Hst : mut_K A (mm_client st)).
  { refine (fold_res_rel (fun a b => mut_K A (mm_client a) -> mut_K A (mm_client b)) _ _ _ _ _ _ _ E HK); [auto|auto|].
    intros [[[c0 kept] acks] evs] m st1 Hin Hs HK0. unfold mm_client in *; cbn [fst] in *. cbn [mm_step] in Hs.
    destruct (tick_gtb (m_upd_tick m) (cl_upd_tick c)) eqn:Eg.
    - inversion Hs; subst; cbn [fst]. exact HK0.
    - apply bind_ok in Hs. destruct Hs as [r [Er Hs]].
      assert (H1 : mut_K A (sr_client r)).
      { refine (run_array_rel (fun a b => mut_K A a -> mut_K A b) _ (m_body m) _ _ _ c0 r Er HK0); [auto|auto|].
        intros c1 [e comps] r0 _ E0 HK1. cbn [fst snd] in E0. exact (mut_K_step A c1 (m_tick m) e comps r0 HK1 (Hsmall m Hin) E0). }
      change (match r with Continue c1 => c1 | Abort c1 => c1 end) with (sr_client r) in Hs.
      destruct (cl_mticks (sr_client r)) as [mtk|].
      + apply bind_ok in Hs. destruct Hs as [[mtk' done] [_ Hs]]. inversion Hs; subst; cbn [fst].
        revert H1. apply mut_K_ext; reflexivity.
      + inversion Hs; subst; cbn [fst]. exact H1. }
  destruct st as [[[c0 kept] acks] evs]. inversion H; subst. unfold mm_client in Hst; cbn [fst] in Hst.
  revert Hst. apply mut_K_ext; reflexivity.
Qed.

(* ================================================================== *)
(* 5. history + what the server guarantees = mut_safe                 *)
(* ================================================================== *)

Lemma untouched_get e u S : untouched e u -> al_get e (abs_apply S u) = al_get e S.
Proof.
  intros (H1 & H2 & H3). unfold abs_apply.
  assert (Hd : forall ds S0, ~ In e ds -> al_get e (fold_left abs_despawn ds S0) = al_get e S0).
  { induction ds as [|d t IH]; intros S0 Hn; cbn [fold_left]; [reflexivity|]. rewrite IH by (intros Hi; apply Hn; right; exact Hi).
    unfold abs_despawn. apply al_get_remove_other. intros ->. apply Hn. left. reflexivity. }
  assert (Hr : forall rs S0, ~ In e (map fst rs) -> al_get e (fold_left abs_removal rs S0) = al_get e S0).
  { induction rs as [|r t IH]; intros S0 Hn; cbn [fold_left]; [reflexivity|]. cbn [map] in Hn.
    rewrite IH by (intros Hi; apply Hn; right; exact Hi).
    unfold abs_removal. apply al_get_insert_other. intros ->. apply Hn. left. reflexivity. }
  assert (Hc : forall cs S0, ~ In e (map fst cs) -> al_get e (fold_left abs_change cs S0) = al_get e S0).
  { induction cs as [|r t IH]; intros S0 Hn; cbn [fold_left]; [reflexivity|]. cbn [map] in Hn.
    rewrite IH by (intros Hi; apply Hn; right; exact Hi).
    unfold abs_change. apply al_get_insert_other. intros ->. apply Hn. left. reflexivity. }
  rewrite Hc by exact H3. rewrite Hr by exact H2. apply Hd. exact H1.
Qed.

Lemma untouched_fold e us : forall S, (forall u, In u us -> untouched e u) -> al_get e (fold_left abs_apply us S) = al_get e S.
Proof.
  induction us as [|u t IH]; intros S H; cbn [fold_left]; [reflexivity|].
  rewrite IH by (intros u0 Hi; apply H; right; exact Hi). apply untouched_get. apply H. left. reflexivity.
Qed.

Lemma last_in {A} (l : list A) d : l <> [] -> In (last l d) l.
Proof.
  induction l as [|a t IH]; [congruence|]. intros _. destruct t as [|b t']; [left; reflexivity|].
  right. apply IH. discriminate.
Qed.

Theorem history_mut_safe c applied pend :
  cs_inv c -> srel c (fold_left abs_apply applied []) -> ent_hist_ok applied c -> hist_small c ->
  ticks_incr (applied ++ pend) -> (forall u, In u (applied ++ pend) -> small_tick (u_tick u)) ->
  (applied <> [] -> cl_upd_tick c = u_tick (last applied dflt_upd)) ->
  (forall m, In m (cl_buffered c) -> mmsg_ok (applied ++ pend) m) ->
  mut_safe c.
Proof.
  intros Hinv Hrel Hhist Hsm Hincr Hsmall Htick Hmsg. split; [|split; [exact Hsm|]].
  - intros m Hin. exact (proj1 (Hmsg m Hin)).
  - intros m Hin Hg e comps Hb cid x Hs Hx Hmk.
    destruct (Hmsg m Hin) as (HT & p & q & Esent & Hupd & Hq & Hbody).
    destruct (Hhist e cid x Hs Hx Hmk) as (h & a1 & a2 & Hh & Eapp & Ha1 & Ha2).
    destruct (ci_mapped c Hinv e cid Hs) as [x0 [Hx0 Ha]]. assert (x0 = x) by congruence. subst x0.
    assert (Hne : applied <> []).
    { intros ->. specialize (Hrel e). rewrite (cs_get_mapped c e cid x Hs Hx), Ha, Hmk in Hrel. cbn in Hrel. exact Hrel. }
    (* the prefix the message was produced after has been applied *)
    assert (Hpre : exists l2, applied = p ++ l2 /\ q = l2 ++ pend).
    { destruct (app_eq_app _ _ _ _ Esent) as [l [[E1 E2]|[E1 E2]]]; [exists l; auto|].
      destruct l as [|u1 l']; [exists []; rewrite app_nil_r in E1; cbn in E2; subst; rewrite app_nil_r; auto|].
      exfalso. assert (Hpn : p <> []) by (rewrite E1; destruct applied; discriminate).
      specialize (Hupd Hpn). rewrite E1, last_app_ne in Hupd by discriminate.
      pose proof (last_in (u1 :: l') dflt_upd ltac:(discriminate)) as Hl.
      pose proof (last_in applied dflt_upd Hne) as Hla.
      assert (Hlt : u_tick (last applied dflt_upd) < u_tick (last (u1 :: l') dflt_upd)).
      { apply (Hincr applied pend eq_refl); [exact Hla|]. rewrite E2. apply in_or_app. left. exact Hl. }
      assert (S1 : small_tick (m_upd_tick m)).
      { rewrite Hupd. apply Hsmall. apply in_or_app. right. rewrite E2. apply in_or_app. left. exact Hl. }
      assert (S2 : small_tick (cl_upd_tick c)).
      { rewrite (Htick Hne). apply Hsmall. apply in_or_app. left. exact Hla. }
      rewrite (tick_gtb_small _ _ S1 S2) in Hg. rewrite (Htick Hne), Hupd in Hg. lia. }
    destruct Hpre as [l2 [Eap Eq]].
    assert (E12 : a1 ++ a2 = p ++ l2) by congruence.
    destruct (app_eq_app _ _ _ _ E12) as [l [[E1 E2]|[E1 E2]]].
    + (* the entity was confirmed by a message sent after the mutate message was produced *)
      destruct l as [|u1 l'].
      * left. rewrite app_nil_r in E1. cbn in E2. subst a1 l2.
        intros k Hk. apply (Hbody e comps Hb) in Hk.
        rewrite (cs_kinds_mapped c e cid x Hinv Hs Hx Ha). apply mem_N_In. rewrite (srel_kinds c _ e Hrel k).
        rewrite Eapp, fold_left_app. unfold kinds_of at 1. rewrite (untouched_fold e a2 _ Ha2). apply mem_N_In. exact Hk.
      * right. exists h. split; [exact Hh|].
        assert (H1 : In u1 a1) by (rewrite E1; apply in_or_app; right; left; reflexivity).
        assert (H2 : In u1 q) by (rewrite Eq, E2; apply in_or_app; left; left; reflexivity).
        specialize (Ha1 u1 H1). specialize (Hq u1 H2). lia.
    + (* the entity has not been mentioned since: it has the kinds it had then *)
      left. intros k Hk. apply (Hbody e comps Hb) in Hk.
      rewrite (cs_kinds_mapped c e cid x Hinv Hs Hx Ha). apply mem_N_In. rewrite (srel_kinds c _ e Hrel k).
      rewrite Eap, fold_left_app. unfold kinds_of at 1. rewrite (untouched_fold e l2 _).
      * apply mem_N_In. exact Hk.
      * intros u0 Hin0. apply Ha2. rewrite E2. apply in_or_app. right. exact Hin0.
Qed.

(* ================================================================== *)
(* 6. a whole client frame with the history invariant                 *)
(* ================================================================== *)

Lemma ticks_incr_prefix l1 l2 : ticks_incr (l1 ++ l2) -> ticks_incr l1.
Proof. intros H p q E a b Ha Hb. apply (H p (q ++ l2)); [rewrite E, app_assoc; reflexivity|exact Ha|apply in_or_app; left; exact Hb]. Qed.

Lemma ent_hist_cop A c op : cs_inv c -> cop_safe c op = true -> ent_hist_ok A c -> ent_hist_ok A (apply_cop c op).
Proof.
  intros Hinv Hs Hok. destruct op as [pc|pc]; cbn [apply_cop].
  - destruct (existsb _ (cl_ents c)); [exact Hok|]. intros e cid x He Hx Hm. cbn [spawn_cent fst cl_s2c] in He.
    destruct (ci_mapped c Hinv e cid He) as [x0 [Hx0 _]].
    assert (x = x0).
    { unfold get_cent in Hx, Hx0. cbn in Hx. rewrite (al_get_app_some cid (cl_ents c) _ x0 Hx0) in Hx. congruence. }
    subst x0. exact (Hok e cid x He Hx0 Hm).
  - cbn [cop_safe] in Hs. change (fun kv : N * cent => match ce_pre (snd kv) with Some p => p =? pc | None => false end) with (has_pre pc).
    destruct (find (has_pre pc) (cl_ents c)) as [[cid0 x0]|] eqn:Ef; [|exact Hok]. destruct (ce_alive x0); [|exact Hok].
    destruct (al_get cid0 (cl_c2s c)) eqn:Ec; [discriminate|].
    pose proof (proj1 (unmapped_iff c cid0 (ci_emap c Hinv)) Ec) as Hno.
    intros e cid x He Hx Hm. cbn [set_cent cl_s2c] in He.
    rewrite get_cent_set_cent_other in Hx by (intros ->; exact (Hno e He)). exact (Hok e cid x He Hx Hm).
Qed.

Lemma ent_hist_cops A ops : forall c, cs_inv c -> cops_safe c ops = true -> ent_hist_ok A c -> ent_hist_ok A (fold_left apply_cop ops c).
Proof.
  induction ops as [|op t IH]; intros c Hinv Hs Hok; cbn [fold_left]; [exact Hok|].
  cbn [cops_safe] in Hs. apply andb_prop in Hs. destruct Hs as [Hs1 Hs2].
  apply IH; [exact (proj1 (cop_step c op Hinv Hs1))|exact Hs2|exact (ent_hist_cop A c op Hinv Hs1 Hok)].
Qed.

Lemma mutate_messages_keep_inbox_mut c c' out : apply_mutate_messages c = Ok (c', out) -> cl_inbox_mut c' = cl_inbox_mut c.
Proof.
  intros H. refine (mutate_messages_rel (fun a b => cl_inbox_mut b = cl_inbox_mut a) _ _ _ _ _ _ _ H).
  - reflexivity.
  - intros; congruence.
  - intros c0 tick s comps r E. apply same_meta_mutations in E. destruct E as (_ & _ & _ & _ & _ & _ & _ & Hi). exact Hi.
  - reflexivity.
Qed.

Lemma fold_buffer_insert_in inbox : forall buf x, In x (fold_left (fun b m => buffer_insert m b) inbox buf) -> In x (inbox ++ buf).
Proof.
  induction inbox as [|m t IH]; intros buf x H; cbn [fold_left app] in *; [exact H|].
  apply IH in H. apply in_app_or in H. destruct H as [H|H]; [right; apply in_or_app; left; exact H|].
  apply buffer_insert_in in H. destruct H as [->|H]; [left; reflexivity|right; apply in_or_app; right; exact H].
Qed.

Lemma inbox_fold_hist us : forall c applied c1,
  cs_inv c -> srel c (fold_left abs_apply applied []) -> ent_hist_ok applied c -> hist_small c ->
  forallb no_maps us = true -> (forall u, In u us -> small_tick (u_tick u)) -> ticks_incr (applied ++ us) ->
  fold_left (res_step apply_update_message) us (Ok c) = Ok c1 ->
  cs_inv c1 /\ srel c1 (fold_left abs_apply (applied ++ us) []) /\ ent_hist_ok (applied ++ us) c1 /\ hist_small c1 /\
  (pu c -> pu c1) /\ same_buf c c1.
Proof.
  induction us as [|u t IH]; intros c applied c1 Hinv Hrel Hh Hsm Hn Hst Hincr H.
  - cbn in H. inversion H; subst. rewrite app_nil_r. split; [exact Hinv|]. split; [exact Hrel|]. split; [exact Hh|].
    split; [exact Hsm|]. split; [auto|split; reflexivity].
  - cbn [forallb] in Hn. apply andb_prop in Hn. destruct Hn as [Hn1 Hn2].
    apply fold_res_cons_ok in H. destruct H as [c2 [E H]].
    assert (Hm : u_maps u = []) by (unfold no_maps in Hn1; destruct (u_maps u); [reflexivity|discriminate]).
    destruct (update_message_srel c _ u c2 Hinv Hrel Hm E) as (R2 & I2 & _ & _).
    assert (Hle : forall u0, In u0 applied -> u_tick u0 <= u_tick u).
    { intros u0 Hin. apply N.lt_le_incl. apply (Hincr applied (u :: t) eq_refl); [exact Hin|left; reflexivity]. }
    pose proof (update_message_hist c u c2 applied Hinv Hm E Hh Hle) as H2.
    pose proof (hs_update_nomaps c u c2 (Hst u (or_introl eq_refl)) Hsm Hm E) as S2.
    assert (Eassoc : (applied ++ [u]) ++ t = applied ++ u :: t) by (rewrite <- app_assoc; reflexivity).
    destruct (IH c2 (applied ++ [u]) c1 I2) as (I1 & R1 & H1 & S1 & P1 & B1).
    + rewrite fold_left_app. exact R2.
    + exact H2.
    + exact S2.
    + exact Hn2.
    + intros u0 Hin. apply Hst. right. exact Hin.
    + rewrite Eassoc. exact Hincr.
    + exact H.
    + rewrite Eassoc in R1, H1. split; [exact I1|]. split; [exact R1|]. split; [exact H1|]. split; [exact S1|]. split.
      * intros Hp. apply P1. exact (pu_update_nomaps c u c2 Hp Hm E).
      * destruct (same_buf_update c u c2 E) as [A1 A2]. destruct B1 as [B1 B2]. split; congruence.
Qed.

Record hist_pre (c : client) (applied lupd : list update_msg) : Prop := mkHistPre {
  hp_inv : cs_inv c;
  hp_pu : pu c;
  hp_rel : srel c (fold_left abs_apply applied []);
  hp_hist : ent_hist_ok applied c;
  hp_small : hist_small c;
  hp_tick : applied <> [] -> cl_upd_tick c = u_tick (last applied dflt_upd);
  hp_incr : ticks_incr (applied ++ cl_inbox_upd c ++ lupd);
  hp_smallu : forall u, In u (applied ++ cl_inbox_upd c ++ lupd) -> small_tick (u_tick u);
  hp_nomaps : forallb no_maps (cl_inbox_upd c) = true;
  hp_muts : forall m, In m (cl_inbox_mut c ++ cl_buffered c) -> mmsg_ok (applied ++ cl_inbox_upd c ++ lupd) m
}.

Theorem frame_hist c applied lupd ops c' out :
  hist_pre c applied lupd -> cl_status c = Connected -> client_frame c ops = Ok (c', out) ->
  cs_inv c' /\ pu c' /\ srel c' (fold_left abs_apply (applied ++ cl_inbox_upd c) []) /\
  ent_hist_ok (applied ++ cl_inbox_upd c) c' /\ hist_small c' /\
  (applied ++ cl_inbox_upd c <> [] -> cl_upd_tick c' = u_tick (last (applied ++ cl_inbox_upd c) dflt_upd)) /\
  cl_inbox_upd c' = [] /\ cl_inbox_mut c' = [] /\ cl_status c' = Connected /\
  (forall m, In m (cl_buffered c') -> In m (cl_inbox_mut c ++ cl_buffered c)).
Proof.
  intros [Hinv Hpu Hrel Hhist Hsm Htick Hincr Hsmu Hn Hmuts] Hc H.
  destruct (frame_clears_inbox c ops c' out Hc H) as [Hi Hst].
  unfold client_frame in H. rewrite Hc, andb_false_r in H.
  apply bind_ok in H. destruct H as [[c2 out2] [E H]]. inversion H; subst c' out. clear H.
  pose proof (replication_tick_is_last c c2 out2 E) as Tk.
  unfold apply_replication in E. apply bind_ok in E. destruct E as [c1 [E1 E]].
  change (fold_left (res_step apply_update_message) (cl_inbox_upd c) (Ok c) = Ok c1) in E1. fold (merge_mut_inbox c1) in E.
  set (applied' := applied ++ cl_inbox_upd c) in *.
  assert (Hincr' : ticks_incr (applied' ++ lupd)) by (unfold applied'; rewrite <- app_assoc; exact Hincr).
  assert (Hsmu' : forall u, In u (applied' ++ lupd) -> small_tick (u_tick u)) by (unfold applied'; rewrite <- app_assoc; exact Hsmu).
  destruct (inbox_fold_hist _ c applied c1 Hinv Hrel Hhist Hsm Hn) as (I1 & R1 & H1 & S1 & P1 & [B1 B2]); [| |exact E1|].
  { intros u Hin. apply Hsmu. apply in_or_app. right. apply in_or_app. left. exact Hin. }
  { exact (ticks_incr_prefix _ lupd Hincr'). }
  fold applied' in R1, H1.
  assert (Tk1 : applied' <> [] -> cl_upd_tick c1 = u_tick (last applied' dflt_upd)).
  { intros Hne. rewrite (update_fold_tick _ _ _ E1). unfold applied' in *. destruct (cl_inbox_upd c) as [|u0 t0] eqn:Ei0.
    - cbn [map last]. rewrite app_nil_r in *. exact (Htick Hne).
    - rewrite last_app_ne by discriminate. apply last_map. discriminate. }
  set (cm := merge_mut_inbox c1) in *.
  assert (Im : cs_inv cm) by (revert I1; apply cs_inv_ext; reflexivity).
  assert (Rm : srel cm (fold_left abs_apply applied' [])) by (revert R1; apply srel_ext; reflexivity).
  assert (Hm' : ent_hist_ok applied' cm) by (revert H1; apply ent_hist_ok_ext; reflexivity).
  assert (Sm : hist_small cm) by (revert S1; apply hist_small_ext; reflexivity).
  assert (Mm : forall m, In m (cl_buffered cm) -> mmsg_ok (applied' ++ lupd) m).
  { intros m Hin. unfold cm, merge_mut_inbox in Hin. cbn in Hin. apply fold_buffer_insert_in in Hin. rewrite B1, B2 in Hin.
    unfold applied'. rewrite <- app_assoc. exact (Hmuts m Hin). }
  pose proof (history_mut_safe cm applied' lupd Im Rm Hm' Sm Hincr' Hsmu' Tk1 Mm) as Hsafe.
  destruct (mutate_messages_srel cm _ c2 out2 Im Rm Hsafe E) as (I2 & R2 & S2).
  destruct (mutate_messages_hist applied' cm c2 out2 (conj Im (conj Sm Hm')) (proj1 Hsafe) E) as (_ & _ & H2).
  assert (P2 : pu c2). { apply (pu_mutate_messages cm c2 out2); [|exact E]. generalize (P1 Hpu). apply pu_ext; reflexivity. }
  pose proof (pre_unmapped_cops_safe ops c2 I2 P2) as Hs. destruct (cops_step ops c2 I2 Hs) as [I3 G3].
  destruct (cops_fields ops c2) as (K1 & K2 & K3 & K4).
  destruct (mutate_messages_kept_acks cm c2 out2 E) as [Kb _].
  split; [revert I3; apply cs_inv_ext; reflexivity|].
  split; [generalize (pu_cops ops c2 I2 Hs P2); apply pu_ext; reflexivity|].
  split; [apply (srel_ext (fold_left apply_cop ops c2)); [reflexivity|reflexivity|exact (cops_srel ops c2 _ I2 Hs R2)]|].
  split; [apply (ent_hist_ok_ext _ (fold_left apply_cop ops c2)); [reflexivity|reflexivity|exact (ent_hist_cops _ ops c2 I2 Hs H2)]|].
  split; [apply (hist_small_ext (fold_left apply_cop ops c2)); [reflexivity|exact (hs_cops ops c2 S2)]|].
  split; [|split; [exact Hi|split; [|split; [exact Hst|]]]].
  - intros Hne. cbn [set_locals cl_upd_tick]. rewrite cops_keep_tick, (mutate_messages_keep_tick cm c2 out2 E).
    exact (Tk1 Hne).
  - cbn [set_locals cl_inbox_mut]. rewrite K2, (mutate_messages_keep_inbox_mut cm c2 out2 E). reflexivity.
  - intros m Hin. cbn [set_locals cl_buffered] in Hin. rewrite K3, Kb in Hin. apply filter_In in Hin. destruct Hin as [Hin _].
    unfold cm, merge_mut_inbox in Hin. cbn in Hin. apply fold_buffer_insert_in in Hin. rewrite B1, B2 in Hin. exact Hin.
Qed.
