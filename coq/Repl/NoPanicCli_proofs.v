(* C09F, client half: when does `client_frame` of a CONNECTED client not panic.

   The `Panic` branches of Repl/Client.v are
     - `hist_set_last_tick` (debug_assert!(tick >= last_tick)), reached through `confirm_tick` (removals / changes entry of
       an update message) and through `apply_mutations`;
     - `mt_confirm` (the debug assertions and the usize overflow of `ServerMutateTicks::confirm`).
   (1) `apply_mutations` NEVER panics: it calls `set_last_tick` only when `tick > last_tick` (wrapping comparison), and
       `>` implies `>=` for `Ord::cmp`.
   (2) `confirm_tick`: a client-local invariant [cli W Phi c], indexed by a set [W] of client entities (the entities
       of the current session: those created since the last reset, W cid := W0 <= cid) and a predicate [Phi] on ticks:
         every client entity not yet created is in W, every image of the entity map is in W, every confirm history
         of a client entity in W has a last tick satisfying Phi.
       An update message of tick T without pre-spawn mappings does not panic when Phi t -> t <= T < 2^31, and keeps the
       invariant when Phi T.  A mutate message of tick T keeps it when Phi T (or when the entity map is empty).
   (3) the tracker: the frame does not panic when the replay of `mt_confirm` over the messages the frame applies
       ([frame_applied], Repl/MtRunSpec.v) does not. *)
From RV Require Import Lib.Res Repl.ClientTicks Repl.ClientTicks_proofs Repl.World Repl.Server Repl.Client Repl.Sys
  Tick.RepliconTick Tick.RepliconTick_proofs Tick.ConfirmHistory Tick.MutateTicks
  Repl.Client_proofs Repl.ClientEnt_proofs Repl.ClientMut_proofs Repl.ClientSys_proofs Repl.ClientStructSpec Repl.ClientStruct_proofs
  Repl.ClientHist_proofs Repl.Session_proofs Repl.Struct_proofs Repl.HistRunCli_proofs Repl.MtRunSpec Repl.MtRunCli_proofs.
From Coq Require Import ZifyBool ZifyN.
Open Scope N_scope.
Ltac Zify.zify_post_hook ::= Z.div_mod_to_equations.
Arguments N.add : simpl never. Arguments N.mul : simpl never. Arguments N.pow : simpl never.
Arguments N.ltb : simpl never. Arguments N.leb : simpl never. Arguments N.div : simpl never.
Arguments N.modulo : simpl never. Arguments N.sub : simpl never. Arguments N.eqb : simpl never.

(* ================================================================== *)
(* 1. `apply_mutations` never panics                                  *)
(* ================================================================== *)

Lemma tick_gtb_geb a b : tick_gtb a b = true -> tick_geb a b = true.
Proof. unfold tick_gtb, tick_geb. destruct (tick_cmp a b); congruence. Qed.

Theorem apply_mutations_nopanic c T e comps : apply_mutations c T e comps <> Panic.
Proof.
  unfold apply_mutations. destruct (al_get e (cl_s2c c)) as [cid|]; [|discriminate].
  destruct (get_cent c cid) as [x|]; [|discriminate]. destruct (negb (ce_alive x)); [discriminate|].
  destruct (ce_hist x) as [h|]; [|discriminate]. destruct (tick_gtb T (h_last h)) eqn:E; [|discriminate].
  unfold hist_set_last_tick. rewrite (tick_gtb_geb _ _ E). cbn [negb bind]. discriminate.
Qed.

Lemma run_array_nopanic {A} (P : client -> Prop) (f : client -> A -> res step_result) l :
  (forall c a, P c -> f c a <> Panic) -> (forall c a r, P c -> f c a = Ok r -> P (sr_client r)) ->
  forall c, P c -> run_array f l c <> Panic.
Proof.
  intros Hn Hp. induction l as [|a t IH]; intros c Hc; [rewrite run_array_nil; discriminate|].
  rewrite run_array_cons. pose proof (Hn c a Hc) as N1. destruct (f c a) as [[c1|c1]| |] eqn:E; try discriminate; [|congruence].
  apply IH. exact (Hp c a _ Hc E).
Qed.

Lemma run_mutations_nopanic T l c : run_array (fun c b => apply_mutations c T (fst b) (snd b)) l c <> Panic.
Proof.
  apply (run_array_nopanic (fun _ => True)); [|auto|exact I]. intros c0 a _. apply apply_mutations_nopanic.
Qed.

(* ================================================================== *)
(* 2. the invariant                                                   *)
(* ================================================================== *)

Definition sab (W : N -> Prop) (c : client) : Prop := forall e cid, al_get e (cl_s2c c) = Some cid -> W cid.
Definition hall (W : N -> Prop) (Phi : N -> Prop) (c : client) : Prop :=
  forall cid x h, W cid -> get_cent c cid = Some x -> ce_hist x = Some h -> Phi (h_last h).

Record cli (W : N -> Prop) (Phi : N -> Prop) (c : client) : Prop := mkCli2 {
  cli_next : forall cid, cl_next c <= cid -> W cid;
  cli_sab : sab W c;
  cli_hall : hall W Phi c
}.

Lemma cli_ext W Phi c c' : cl_s2c c' = cl_s2c c -> cl_ents c' = cl_ents c -> cl_next c' = cl_next c -> cli W Phi c -> cli W Phi c'.
Proof.
  intros E1 E2 E3 [A B C]. constructor; [rewrite E3; exact A| |].
  - intros e cid. rewrite E1. apply B.
  - intros cid x h. unfold get_cent. rewrite E2. apply C.
Qed.

Lemma cli_mono W (Phi Psi : N -> Prop) c : (forall t, Phi t -> Psi t) -> cli W Phi c -> cli W Psi c.
Proof. intros H [A B C]. constructor; [exact A|exact B|]. intros cid x h Hw Hx Hh. apply H. exact (C cid x h Hw Hx Hh). Qed.

(* a client with an empty entity map: every later watermark works *)
Lemma cli_fresh Phi c : cl_s2c c = [] -> ents_fresh c -> cli (fun cid => cl_next c <= cid) Phi c.
Proof.
  intros Hs Hf. constructor; [auto| |].
  - intros e cid. rewrite Hs. discriminate.
  - intros cid x h Hw Hx. rewrite (Hf cid Hw) in Hx. discriminate.
Qed.

Lemma cli_set_cent W Phi c cid x' : cli W Phi c -> (forall h, ce_hist x' = Some h -> Phi (h_last h)) -> cli W Phi (set_cent c cid x').
Proof.
  intros [A B C] Hx. constructor; [exact A|exact B|]. intros cid0 x0 h0 Hw. destruct (N.eq_dec cid0 cid) as [->|Hne].
  - rewrite get_cent_set_cent_same. intros E; inversion E; subst. apply Hx.
  - rewrite get_cent_set_cent_other by exact Hne. apply C. exact Hw.
Qed.

Lemma cli_spawn_vacant W Phi c t p m : cli W Phi c -> cli W Phi (emap_vacant_insert (fst (spawn_cent c p m)) t (cl_next c)).
Proof.
  intros [A B C]. constructor.
  - intros cid H. apply A. cbn in H. lia.
  - intros e cid. cbn. rewrite al_get_insert. destruct (e =? t); [intros E; inversion E; subst; apply A; apply N.le_refl|apply B].
  - intros cid x h Hw Hx Hh. unfold get_cent in Hx. cbn in Hx. apply al_get_snoc in Hx.
    destruct Hx as [Hx|(_ & _ & ->)]; [exact (C cid x h Hw Hx Hh)|discriminate].
Qed.

Lemma cli_spawn W Phi c p m : cli W Phi c -> cli W Phi (fst (spawn_cent c p m)).
Proof.
  intros [A B C]. constructor.
  - intros cid H. apply A. cbn in H. lia.
  - exact B.
  - intros cid x h Hw Hx Hh. unfold get_cent in Hx. cbn in Hx. apply al_get_snoc in Hx.
    destruct Hx as [Hx|(_ & _ & ->)]; [exact (C cid x h Hw Hx Hh)|discriminate].
Qed.

Lemma cli_entry W Phi c e c1 cid : cli W Phi c -> entry_entity c e = Some (c1, cid) -> cli W Phi c1 /\ W cid.
Proof.
  intros Hp. unfold entry_entity. destruct (al_get e (cl_s2c c)) as [cid0|] eqn:E.
  - destruct (alive c cid0); [|discriminate]. intros H; inversion H; subst. split; [exact Hp|exact (cli_sab _ _ _ Hp e cid E)].
  - intros H. cbn in H. inversion H; subst. split; [exact (cli_spawn_vacant W Phi c e None true Hp)|apply (cli_next _ _ _ Hp); apply N.le_refl].
Qed.

Lemma cli_map_value W Phi c v : cli W Phi c -> cli W Phi (fst (map_value c v)).
Proof.
  intros Hp. unfold map_value. destruct v as [n|t]; [exact Hp|]. destruct (al_get t (cl_s2c c)); [exact Hp|].
  exact (cli_spawn_vacant W Phi c t None false Hp).
Qed.

Lemma cli_write_one (W : N -> Prop) Phi cid c kv : W cid -> cli W Phi c -> cli W Phi (write_one cid c kv).
Proof.
  intros Hw Hp. rewrite write_one_eq. pose proof (cli_map_value W Phi c (snd kv) Hp) as H.
  destruct (get_cent _ cid) as [x|] eqn:E; [|exact H]. apply cli_set_cent; [exact H|]. cbn. intros h Hh.
  exact (cli_hall _ _ _ H cid x h Hw E Hh).
Qed.

Lemma cli_write_comps (W : N -> Prop) Phi c cid comps : W cid -> cli W Phi c -> cli W Phi (write_comps c cid comps).
Proof. intros Hw. rewrite write_comps_fold. apply Client_proofs.fold_left_inv. intros; apply cli_write_one; assumption. Qed.

Lemma cli_despawn W Phi c s : cli W Phi c -> cli W Phi (apply_despawn c s).
Proof.
  intros Hp. unfold apply_despawn, emap_remove_server. destruct (al_get s (cl_s2c c)) as [cid|]; [|exact Hp].
  cbv beta iota. rewrite get_cent_set_maps.
  assert (G : cli W Phi (set_maps c (al_remove s (cl_s2c c)) (al_remove cid (cl_c2s c)))).
  { destruct Hp as [A B C]. constructor; [exact A| |exact C]. intros e cid0. cbn. rewrite al_get_remove.
    destruct (e =? s); [discriminate|apply B]. }
  destruct (get_cent c cid) as [x|]; [|exact G]. destruct (ce_alive x); [|exact G].
  apply cli_set_cent; [exact G|]. cbn. discriminate.
Qed.

(* ---------- `confirm_tick` on an entity above the watermark ---------- *)

Lemma confirm_tick_ok (Phi : N -> Prop) x T : (forall t, Phi t -> t <= T) -> T < 2 ^ 31 ->
  (forall h, ce_hist x = Some h -> Phi (h_last h)) ->
  exists x1, confirm_tick (with_marker x) T = Ok x1 /\ forall h, ce_hist x1 = Some h -> h_last h = T.
Proof.
  intros Hle HT Hx. unfold confirm_tick, with_marker. cbn [ce_hist ce_alive ce_pre ce_marker ce_comps].
  destruct (ce_hist x) as [h|] eqn:Eh.
  - pose proof (Hle _ (Hx h eq_refl)) as Hl. unfold hist_set_last_tick.
    rewrite (tick_geb_small T (h_last h)) by (unfold small_tick; lia).
    destruct (N.leb_spec (h_last h) T); [|lia]. cbn [negb bind]. eexists. split; [reflexivity|].
    cbn. intros h0 E. inversion E; subst. reflexivity.
  - eexists. split; [reflexivity|]. cbn. intros h0 E. inversion E; subst. reflexivity.
Qed.

Section Update.
  Variables (W : N -> Prop) (Phi : N -> Prop) (T : N).
  Hypothesis Hle : forall t, Phi t -> t <= T.
  Hypothesis HT : T < 2 ^ 31.
  Hypothesis HPT : Phi T.

  Lemma removals_safe c s kinds : cli W Phi c ->
    apply_removals c T s kinds <> Panic /\ forall r, apply_removals c T s kinds = Ok r -> cli W Phi (sr_client r).
  Proof.
    intros Hp. unfold apply_removals. destruct (entry_entity c s) as [[c1 cid]|] eqn:E.
    - destruct (cli_entry _ _ _ _ _ _ Hp E) as [H1 Hw]. destruct (get_cent c1 cid) as [x|] eqn:Ex.
      + destruct (confirm_tick_ok Phi x T Hle HT) as (x1 & E1 & Hl1); [intros h Hh; exact (cli_hall _ _ _ H1 cid x h Hw Ex Hh)|].
        rewrite E1. cbn [bind]. split; [discriminate|]. intros r H. inversion H; subst. cbn [sr_client].
        apply cli_set_cent; [exact H1|]. cbn. intros h Hh. rewrite (Hl1 h Hh). exact HPT.
      + split; [discriminate|]. intros r H; inversion H; subst. exact H1.
    - split; [discriminate|]. intros r H; inversion H; subst. exact Hp.
  Qed.

  Lemma changes_safe c s comps : cli W Phi c ->
    apply_changes c T s comps <> Panic /\ forall r, apply_changes c T s comps = Ok r -> cli W Phi (sr_client r).
  Proof.
    intros Hp. unfold apply_changes. destruct (entry_entity c s) as [[c1 cid]|] eqn:E.
    - destruct (cli_entry _ _ _ _ _ _ Hp E) as [H1 Hw]. destruct (get_cent c1 cid) as [x|] eqn:Ex.
      + destruct (confirm_tick_ok Phi x T Hle HT) as (x1 & E1 & Hl1); [intros h Hh; exact (cli_hall _ _ _ H1 cid x h Hw Ex Hh)|].
        rewrite E1. cbn [bind]. split; [discriminate|]. intros r H. inversion H; subst. cbn [sr_client].
        apply cli_write_comps; [exact Hw|]. apply cli_set_cent; [exact H1|]. intros h Hh. rewrite (Hl1 h Hh). exact HPT.
      + split; [discriminate|]. intros r H; inversion H; subst. exact H1.
    - split; [discriminate|]. intros r H; inversion H; subst. exact Hp.
  Qed.

  Theorem update_safe c u : u_tick u = T -> u_maps u = [] -> cli W Phi c ->
    apply_update_message c u <> Panic /\ forall c', apply_update_message c u = Ok c' -> cli W Phi c'.
  Proof.
    intros Et Hm Hp. unfold apply_update_message. rewrite Hm, Et. cbn [fold_left].
    set (c1 := fold_left apply_despawn (u_despawns u) (set_upd_tick c T)).
    assert (H1 : cli W Phi c1).
    { apply Client_proofs.fold_left_inv; [intros; apply cli_despawn; assumption|]. revert Hp. apply cli_ext; reflexivity. }
    set (fr := fun (c : client) (r : N * list N) => apply_removals c T (fst r) (snd r)).
    set (fc := fun (c : client) (ch : N * list (N * val)) => apply_changes c T (fst ch) (snd ch)).
    assert (N3 : run_array fr (u_removals u) c1 <> Panic).
    { apply (run_array_nopanic (cli W Phi)); [intros c0 a P0; exact (proj1 (removals_safe c0 _ _ P0))| |exact H1].
      intros c0 a r P0 E0. exact (proj2 (removals_safe c0 _ _ P0) r E0). }
    destruct (run_array fr (u_removals u) c1) as [r3| |] eqn:E3; [|cbn [bind]; split; [discriminate|intros; discriminate]|congruence].
    assert (H3 : cli W Phi (sr_client r3)).
    { exact (run_array_inv (cli W Phi) fr _ (fun c0 a r P0 E0 => proj2 (removals_safe c0 _ _ P0) r E0) _ _ H1 E3). }
    cbn [bind]. destruct r3 as [c3|c3]; cbn [sr_client] in H3; [|split; [discriminate|intros c' H; inversion H; subst; exact H3]].
    assert (N4 : run_array fc (u_changes u) c3 <> Panic).
    { apply (run_array_nopanic (cli W Phi)); [intros c0 a P0; exact (proj1 (changes_safe c0 _ _ P0))| |exact H3].
      intros c0 a r P0 E0. exact (proj2 (changes_safe c0 _ _ P0) r E0). }
    destruct (run_array fc (u_changes u) c3) as [r4| |] eqn:E4; [|cbn [bind]; split; [discriminate|intros; discriminate]|congruence].
    assert (H4 : cli W Phi (sr_client r4)).
    { exact (run_array_inv (cli W Phi) fc _ (fun c0 a r P0 E0 => proj2 (changes_safe c0 _ _ P0) r E0) _ _ H3 E4). }
    cbn [bind]. destruct r4 as [c4|c4]; cbn [sr_client] in H4; (split; [discriminate|intros c' H; inversion H; subst; exact H4]).
  Qed.
End Update.

(* ---------- the inbox: ticks strictly increasing, every history below every pending tick ---------- *)

Definition below (R : list update_msg) (t : N) : Prop := forall u, In u R -> t < u_tick u.

Lemma incr_tail_below u R : ticks_incr (u :: R) -> ticks_incr R /\ below R (u_tick u).
Proof.
  intros H. split.
  - intros p q E a b Ha Hb. apply (H (u :: p) q); [rewrite E; reflexivity|right; exact Ha|exact Hb].
  - intros b Hb. apply (H [u] R eq_refl u b); [left; reflexivity|exact Hb].
Qed.

Lemma fold_res_cons {S A} (g : S -> A -> res S) a l c :
  fold_left (res_step g) (a :: l) (Ok c) = fold_left (res_step g) l (g c a).
Proof. reflexivity. Qed.

(* [Psi] : what else is known about the last tick of every history, preserved along (it holds of the ticks of [I]) *)
Theorem inbox_safe W (Psi : N -> Prop) (I : list update_msg) : forall (R : list update_msg) c,
  ticks_incr (I ++ R) -> (forall u, In u I -> u_tick u < 2 ^ 31 /\ u_maps u = [] /\ Psi (u_tick u)) ->
  cli W (fun t => Psi t /\ below (I ++ R) t) c ->
  fold_left (res_step apply_update_message) I (Ok c) <> Panic /\
  forall c1, fold_left (res_step apply_update_message) I (Ok c) = Ok c1 -> cli W (fun t => Psi t /\ below R t) c1.
Proof.
  induction I as [|u t IH]; intros R c Hincr HI Hc.
  - cbn [fold_left app] in *. split; [discriminate|]. intros c1 H; inversion H; subst. exact Hc.
  - rewrite fold_res_cons. cbn [app] in Hincr, Hc.
    destruct (incr_tail_below _ _ Hincr) as [Hincr' Hb]. destruct (HI u (or_introl eq_refl)) as (S1 & S2 & S3).
    set (Phi := fun x => (Psi x /\ below (t ++ R) x) /\ x <= u_tick u).
    assert (Hc0 : cli W Phi c).
    { revert Hc. apply cli_mono. intros x [P1 P2]. split; [split; [exact P1|]|].
      - intros b Hb0. apply P2. right. exact Hb0.
      - pose proof (P2 u (or_introl eq_refl)). lia. }
    destruct (update_safe W Phi (u_tick u) (fun x P => proj2 P) S1 (conj (conj S3 Hb) (N.le_refl _)) c u eq_refl S2 Hc0) as [N1 K1].
    destruct (apply_update_message c u) as [c2| |] eqn:E2; [|rewrite fold_res_err; split; [discriminate|intros; discriminate]|congruence].
    apply IH; [exact Hincr'|intros u0 H0; apply HI; right; exact H0|].
    generalize (K1 c2 eq_refl). apply cli_mono. intros x [P _]. exact P.
Qed.

(* ---------- mutate messages keep the invariant ---------- *)

Lemma mutations_nil c T e comps : cl_s2c c = [] -> apply_mutations c T e comps = Ok (Continue c).
Proof. intros H. unfold apply_mutations. rewrite H. reflexivity. Qed.

Lemma run_mutations_nil T l : forall c, cl_s2c c = [] ->
  run_array (fun c b => apply_mutations c T (fst b) (snd b)) l c = Ok (Continue c).
Proof.
  induction l as [|a t IH]; intros c H; [apply run_array_nil|]. rewrite run_array_cons, (mutations_nil c T _ _ H). apply IH. exact H.
Qed.

Lemma mutations_cli W (Phi : N -> Prop) c T e comps r : Phi T -> cli W Phi c -> apply_mutations c T e comps = Ok r -> cli W Phi (sr_client r).
Proof.
  intros HPT Hp. unfold apply_mutations. destruct (al_get e (cl_s2c c)) as [cid|] eqn:Es; [|intros H; inversion H; subst; exact Hp].
  pose proof (cli_sab _ _ _ Hp e cid Es) as Hw.
  destruct (get_cent c cid) as [x|] eqn:Ex; [|intros H; inversion H; subst; exact Hp].
  destruct (negb (ce_alive x)); [intros H; inversion H; subst; exact Hp|].
  destruct (ce_hist x) as [h|]; [|intros H; inversion H; subst; exact Hp].
  destruct (tick_gtb T (h_last h)); [|intros H; inversion H; subst; exact Hp].
  intros H. apply bind_ok in H. destruct H as [h' [E1 H]]. inversion H; subst. cbn [sr_client].
  apply cli_write_comps; [exact Hw|]. apply cli_set_cent; [exact Hp|]. cbn. intros h0 E0. inversion E0; subst h0.
  unfold hist_set_last_tick in E1. destruct (negb (tick_geb T (h_last h))); [discriminate|]. inversion E1; subst. cbn. exact HPT.
Qed.

Lemma run_mutations_cli W (Phi : N -> Prop) T l c r : Phi T -> cli W Phi c ->
  run_array (fun c b => apply_mutations c T (fst b) (snd b)) l c = Ok r -> cli W Phi (sr_client r).
Proof.
  intros HPT Hp H.
  exact (run_array_inv (cli W Phi) _ l (fun c0 a r0 P0 E0 => mutations_cli W Phi c0 T _ _ r0 HPT P0 E0) c r Hp H).
Qed.

(* the fold of `apply_mutate_messages`: every message that is applied has a tick satisfying Phi *)
Lemma mm_fold_cli W (Phi : N -> Prop) upd l : forall c kept acks evs st',
  (forall m, In m l -> gated upd m = false -> Phi (m_tick m)) ->
  cli W Phi c ->
  fold_left (res_step (mm_step upd)) l (Ok (c, kept, acks, evs)) = Ok st' -> cli W Phi (mm_client st').
Proof.
  induction l as [|m t IH]; intros c kept acks evs st' Hm Hp H.
  - cbn in H. inversion H; subst. unfold mm_client; cbn. exact Hp.
  - apply fold_res_cons_ok in H. destruct H as [[[[c1 kept1] acks1] evs1] [E H]].
    cbn [mm_step] in E. pose proof (Hm m (or_introl eq_refl)) as Hm0. unfold gated in Hm0.
    destruct (tick_gtb (m_upd_tick m) upd) eqn:Eg.
    + inversion E; subst. apply (IH _ _ _ _ _ (fun m0 H0 => Hm m0 (or_intror H0)) Hp H).
    + apply bind_ok in E. destruct E as [r [Er E]].
      change (match r with Continue ca => ca | Abort cb => cb end) with (sr_client r) in E.
      pose proof (run_mutations_cli W Phi _ _ _ _ (Hm0 eq_refl) Hp Er) as R1.
      assert (Q1 : cli W Phi c1).
      { destruct (cl_mticks (sr_client r)) as [mtk|].
        - apply bind_ok in E. destruct E as [[mtk' done] [_ E]]. inversion E; subst. revert R1. apply cli_ext; reflexivity.
        - inversion E; subst. exact R1. }
      exact (IH _ _ _ _ _ (fun m0 H0 => Hm m0 (or_intror H0)) Q1 H).
Qed.

(* ... or the entity map is empty: nothing is touched *)
Lemma mm_fold_nil upd l : forall c kept acks evs st', cl_s2c c = [] ->
  fold_left (res_step (mm_step upd)) l (Ok (c, kept, acks, evs)) = Ok st' ->
  cl_s2c (mm_client st') = [] /\ cl_ents (mm_client st') = cl_ents c /\ cl_next (mm_client st') = cl_next c.
Proof.
  induction l as [|m t IH]; intros c kept acks evs st' Hn H.
  - cbn in H. inversion H; subst. unfold mm_client; cbn. auto.
  - apply fold_res_cons_ok in H. destruct H as [[[[c1 kept1] acks1] evs1] [E H]].
    cbn [mm_step] in E. destruct (tick_gtb (m_upd_tick m) upd) eqn:Eg.
    + inversion E; subst. exact (IH _ _ _ _ _ Hn H).
    + rewrite (run_mutations_nil _ _ c Hn) in E. cbn [bind] in E.
      assert (Q : cl_s2c c1 = [] /\ cl_ents c1 = cl_ents c /\ cl_next c1 = cl_next c).
      { destruct (cl_mticks c) as [mtk|].
        - apply bind_ok in E. destruct E as [[mtk' done] [_ E]]. inversion E; subst. cbn. auto.
        - inversion E; subst. auto. }
      destruct Q as (Q1 & Q2 & Q3). destruct (IH _ _ _ _ _ Q1 H) as (Z1 & Z2 & Z3). rewrite Z2, Z3, Q2, Q3. auto.
Qed.

Lemma cli_cop W Phi c op : cli W Phi c -> cli W Phi (apply_cop c op).
Proof.
  intros Hp. destruct op as [pc|pc]; cbn [apply_cop].
  - destruct (existsb _ (cl_ents c)); [exact Hp|]. apply cli_spawn. exact Hp.
  - destruct (find _ (cl_ents c)) as [[cid x]|]; [|exact Hp]. destruct (ce_alive x); [|exact Hp].
    apply cli_set_cent; [exact Hp|]. cbn. discriminate.
Qed.

Lemma cli_cops W Phi ops : forall c, cli W Phi c -> cli W Phi (fold_left apply_cop ops c).
Proof. induction ops as [|op t IH]; intros c H; cbn [fold_left]; [exact H|]. apply IH. apply cli_cop. exact H. Qed.

Lemma cops_s2c ops : forall c, cl_s2c (fold_left apply_cop ops c) = cl_s2c c.
Proof.
  induction ops as [|op t IH]; intros c; cbn [fold_left]; [reflexivity|]. rewrite IH. destruct op as [pc|pc]; cbn [apply_cop].
  - destruct (existsb _ (cl_ents c)); reflexivity.
  - destruct (find _ (cl_ents c)) as [[cid x]|]; [|reflexivity]. destruct (ce_alive x); reflexivity.
Qed.

(* ================================================================== *)
(* 3. the tracker                                                     *)
(* ================================================================== *)

Lemma mm_fold_nopanic upd l : forall c kept acks evs,
  (forall m0, cl_mticks c = Some m0 -> mt_confirm_all m0 (ncalls (filter (fun m => negb (gated upd m)) l)) <> Panic) ->
  fold_left (res_step (mm_step upd)) l (Ok (c, kept, acks, evs)) <> Panic.
Proof.
  induction l as [|m t IH]; intros c kept acks evs H.
  - cbn. discriminate.
  - rewrite fold_res_cons. cbn [mm_step]. cbn [filter] in H.
    assert (Hg : gated upd m = tick_gtb (m_upd_tick m) upd) by reflexivity. rewrite Hg in H.
    destruct (tick_gtb (m_upd_tick m) upd) eqn:Eg; cbn [negb] in H.
    + apply IH. exact H.
    + pose proof (run_mutations_nopanic (m_tick m) (m_body m) c) as N1.
      destruct (run_array (fun c0 b => apply_mutations c0 (m_tick m) (fst b) (snd b)) (m_body m) c) as [r| |] eqn:Er;
        [|cbn [bind]; rewrite fold_res_err; discriminate|congruence].
      cbn [bind]. change (match r with Continue ca => ca | Abort cb => cb end) with (sr_client r).
      pose proof (run_mutations_keep_mt _ _ _ _ Er) as Hk.
      destruct (cl_mticks (sr_client r)) as [mtk|] eqn:Em.
      * specialize (H mtk (eq_sym Hk)). cbn [ncalls map mt_confirm_all] in H.
        destruct (mt_confirm mtk (m_tick m) (m_count m)) as [[mtk' done]| |] eqn:Ec;
          [|cbn [bind]; rewrite fold_res_err; discriminate|exfalso; apply H; reflexivity].
        cbn [bind]. apply IH. cbn [set_buffered cl_mticks]. intros m0 E0. inversion E0; subst m0. intros Hp. apply H.
        cbn [bind]. fold (ncalls (filter (fun m1 => negb (gated upd m1)) t)). rewrite Hp. reflexivity.
      * apply IH. intros m0 E0. congruence.
Qed.

(* the frame of a connected client does not panic when its update messages and its tracker do not *)
Theorem frame_nopanic c ops : cl_status c = Connected ->
  fold_left (res_step apply_update_message) (cl_inbox_upd c) (Ok c) <> Panic ->
  (forall m0, cl_mticks c = Some m0 -> mt_confirm_all m0 (ncalls (frame_applied c)) <> Panic) ->
  client_frame c ops <> Panic.
Proof.
  intros Hc N1 N2. unfold client_frame. rewrite Hc, andb_false_r. unfold apply_replication.
  change (fold_left (fun acc u => let* c0 := acc in apply_update_message c0 u) (cl_inbox_upd c) (Ok c))
    with (fold_left (res_step apply_update_message) (cl_inbox_upd c) (Ok c)).
  unfold frame_applied in N2.
  destruct (fold_left (res_step apply_update_message) (cl_inbox_upd c) (Ok c)) as [c1| |] eqn:E1; [|discriminate|congruence].
  cbn [bind]. fold (merge_mut_inbox c1). cbv zeta in N2. set (cm := merge_mut_inbox c1) in *.
  destruct (inbox_fold_same_buf_mt (cl_inbox_upd c) c c1 E1) as (_ & _ & B3).
  assert (Em : cl_mticks cm = cl_mticks c) by (cbn [cm merge_mut_inbox clear_inboxes set_buffered cl_mticks]; exact B3).
  rewrite apply_mutate_messages_eq.
  assert (N3 : fold_left (res_step (mm_step (cl_upd_tick cm))) (cl_buffered cm) (Ok (cm, [], [], [])) <> Panic).
  { apply mm_fold_nopanic. intros m0 E0. rewrite Em in E0. exact (N2 m0 E0). }
  destruct (fold_left (res_step (mm_step (cl_upd_tick cm))) (cl_buffered cm) (Ok (cm, [], [], []))) as [[[[c0 kept] acks] evs]| |];
    [cbn [bind]; discriminate|cbn [bind]; discriminate|congruence].
Qed.

(* ================================================================== *)
(* 4. one frame of a connected client keeps the invariant             *)
(* ================================================================== *)

Theorem frame_cli W (Psi : N -> Prop) (R : list update_msg) c ops c' out :
  cl_status c = Connected ->
  ticks_incr (cl_inbox_upd c ++ R) ->
  (forall u, In u (cl_inbox_upd c) -> u_tick u < 2 ^ 31 /\ u_maps u = [] /\ Psi (u_tick u)) ->
  cli W (fun t => Psi t /\ below (cl_inbox_upd c ++ R) t) c ->
  ((forall m, In m (frame_applied c) -> Psi (m_tick m) /\ below R (m_tick m)) \/ (cl_s2c c = [] /\ cl_inbox_upd c = [])) ->
  client_frame c ops = Ok (c', out) ->
  cli W (fun t => Psi t /\ below R t) c' /\ (cl_s2c c = [] /\ cl_inbox_upd c = [] -> cl_s2c c' = []).
Proof.
  intros Hc Hincr HI Hp Hm H.
  unfold client_frame in H. rewrite Hc, andb_false_r in H.
  apply bind_ok in H. destruct H as [[c2 out2] [E H]]. inversion H; subst c' out. clear H.
  unfold apply_replication in E. apply bind_ok in E. destruct E as [c1 [E1 E]].
  change (fold_left (res_step apply_update_message) (cl_inbox_upd c) (Ok c) = Ok c1) in E1. fold (merge_mut_inbox c1) in E.
  set (cm := merge_mut_inbox c1) in *.
  pose proof (proj2 (inbox_safe W Psi (cl_inbox_upd c) R c Hincr HI Hp) c1 E1) as H1.
  assert (Hcm : cli W (fun t => Psi t /\ below R t) cm) by (revert H1; apply cli_ext; reflexivity).
  rewrite apply_mutate_messages_eq in E. apply bind_ok in E. destruct E as [[[[c0 kept] acks] evs] [Ef E]].
  inversion E; subst c2 out2. clear E.
  assert (Hnil : cl_s2c c = [] /\ cl_inbox_upd c = [] -> cl_s2c c0 = [] /\ cl_ents c0 = cl_ents cm /\ cl_next c0 = cl_next cm).
  { intros [Hn Hi]. rewrite Hi in E1. cbn in E1. inversion E1; subst c1.
    assert (Hn' : cl_s2c cm = []) by (cbn [cm merge_mut_inbox clear_inboxes set_buffered cl_s2c]; exact Hn).
    exact (mm_fold_nil _ _ _ _ _ _ _ Hn' Ef). }
  assert (H2 : cli W (fun t => Psi t /\ below R t) c0).
  { destruct Hm as [Hm|Hn].
    - refine (mm_fold_cli W _ (cl_upd_tick cm) (cl_buffered cm) cm [] [] [] (c0, kept, acks, evs) _ Hcm Ef).
      intros m Hin Hg. apply Hm. unfold frame_applied. rewrite E1. cbv zeta. fold cm. apply filter_In. split; [exact Hin|].
      rewrite Hg. reflexivity.
    - destruct (Hnil Hn) as (Z1 & Z2 & Z3). revert Hcm. apply cli_ext; [|exact Z2|exact Z3].
      rewrite Z1. symmetry. destruct Hn as [Hn Hi]. rewrite Hi in E1. cbn in E1. inversion E1; subst c1.
      cbn [cm merge_mut_inbox clear_inboxes set_buffered cl_s2c]. exact Hn. }
  split.
  - apply (cli_ext W _ (fold_left apply_cop ops (set_buffered c0 kept (cl_mticks c0)))); try reflexivity.
    apply cli_cops. revert H2. apply cli_ext; reflexivity.
  - intros Hn. cbn [set_locals cl_s2c]. rewrite cops_s2c. cbn [set_buffered cl_s2c]. exact (proj1 (Hnil Hn)).
Qed.
