(* C09F without any session-mode case distinction: the frame of EVERY connected client in EVERY reachable state does
   not panic - also the frame of a client whose server was stopped (mode MStale of Repl/StructE2ESess_proofs.v), before it
   is disconnected, and also when that server is started again without having run a frame while stopped (its records
   survive: C09E_witness_stop_without_frame) and goes on sending to a client that missed update messages.

   The invariant of Repl/NoPanicRun_proofs.v reads the session structure (`cside` / `slink` of `f_inv`), which says nothing
   about MStale slots.  Here: a self-contained invariant that only speaks about TICKS, for every connected client:
     [tfacts]  the history bound (Repl/NoPanicCli_proofs.v `cli`), strictly increasing ticks of the pending update
               messages, every pending tick "used" (the next tick the server sends with is larger), and for every
               pending mutate message m and pending update message u:  u_tick u <= m_upd_tick m  \/  m_tick m < u_tick u
               (m was produced when u had been sent, or before u);
     [tk]      the tracker is the replay of a list of applied messages; applied ++ buffered ++ inbox ++ queue is part of a
               list of messages that follows the sender's protocol (one frame = one tick = one count);
     server    the update tick the server keeps for the slot is at least every pending update tick. *)
From Coq Require Import Permutation.
From RV Require Import Lib.Res Repl.ClientTicks Repl.ClientTicks_proofs Repl.World Vis.Visibility Repl.Server Repl.ServerSpec
  Repl.Client Repl.Sys Tick.RepliconTick Tick.RepliconTick_proofs Tick.ConfirmHistory Tick.MutateTicks Tick.MutateTicks_proofs Tick.TickSpec
  Repl.Client_proofs Repl.ClientEnt_proofs Repl.ClientMut_proofs Repl.ClientSys_proofs Repl.ClientStructSpec Repl.ClientStruct_proofs
  Repl.ClientHist_proofs Repl.Session_proofs Repl.StructSpec Repl.StructVisSpec Repl.StructVisOps_proofs Repl.StructVisRun_proofs Repl.AckRunSrv_proofs
  Repl.StructE2E_proofs Repl.StructE2EMut_proofs Repl.StructE2EVis_proofs Repl.StructE2ESess_proofs
  Repl.MtRunSrv_proofs Repl.MtRunSpec Repl.MtRunCli_proofs Repl.MtRun_proofs Repl.MtRunThm_proofs Repl.SessRun_proofs
  Repl.NoPanicCli_proofs Repl.NoPanicRun_proofs.
From Coq Require Import ZifyBool ZifyN.
Open Scope N_scope.
Ltac Zify.zify_post_hook ::= Z.div_mod_to_equations.
Arguments N.add : simpl never. Arguments N.mul : simpl never. Arguments N.pow : simpl never.
Arguments N.ltb : simpl never. Arguments N.leb : simpl never. Arguments N.div : simpl never.
Arguments N.modulo : simpl never. Arguments N.sub : simpl never. Arguments N.eqb : simpl never.

(* ================================================================== *)
(* 1. the tick facts of one connected client, and its frame           *)
(* ================================================================== *)

(* [UP]: what is known about the pending update messages besides their ticks (no pre-spawn mappings, or harmless ones) *)
Definition nomapsP (u : update_msg) : Prop := u_maps u = [].

Record tfacts (UP : update_msg -> Prop) (Psi : N -> Prop) (c : client) (lupd : list update_msg) (lmut : list mutate_msg) : Prop := mkTF {
  tf_cli : exists W, cli W (fun t => Psi t /\ below (cl_inbox_upd c ++ lupd) t) c;
  tf_upd : (Psi (cl_upd_tick c) /\ below (cl_inbox_upd c ++ lupd) (cl_upd_tick c)) \/ cl_s2c c = [];
  tf_incr : ticks_incr (cl_inbox_upd c ++ lupd);
  tf_U : forall u, In u (cl_inbox_upd c ++ lupd) -> UP u /\ Psi (u_tick u);
  tf_M : forall m, In m (lmut ++ cl_inbox_mut c ++ cl_buffered c) -> Psi (m_tick m) /\ m_upd_tick m < 2 ^ 31;
  tf_gate : forall m u, In m (lmut ++ cl_inbox_mut c ++ cl_buffered c) -> In u (cl_inbox_upd c ++ lupd) ->
            u_tick u <= m_upd_tick m \/ m_tick m < u_tick u
}.

Section TFrame.
  Variable Psi : N -> Prop.
  Hypothesis HPsi : forall t, Psi t -> t < 2 ^ 31.

  Lemma tfacts_inbox c lupd lmut : tfacts nomapsP Psi c lupd lmut ->
    fold_left (res_step apply_update_message) (cl_inbox_upd c) (Ok c) <> Panic.
  Proof.
    intros [[W Hw] _ Hincr HU _ _].
    refine (proj1 (inbox_safe W Psi (cl_inbox_upd c) lupd c Hincr _ Hw)).
    intros u Hu. destruct (HU u (in_or_app _ _ _ (or_introl Hu))) as [A B]. split; [exact (HPsi _ B)|]. split; [exact A|exact B].
  Qed.

  Theorem tfacts_frame c lupd lmut ops c' out : cl_status c = Connected -> tfacts nomapsP Psi c lupd lmut ->
    client_frame c ops = Ok (c', out) -> tfacts nomapsP Psi c' lupd lmut.
  Proof.
    intros Hcc [[W Hw] Hd Hincr HU HM Hgate] Efr.
    assert (HI : forall u, In u (cl_inbox_upd c) -> u_tick u < 2 ^ 31 /\ u_maps u = [] /\ Psi (u_tick u)).
    { intros u Hu. destruct (HU u (in_or_app _ _ _ (or_introl Hu))) as [A B]. split; [exact (HPsi _ B)|]. split; [exact A|exact B]. }
    set (uf := last (map u_tick (cl_inbox_upd c)) (cl_upd_tick c)).
    assert (HG : (below lupd uf /\ Psi uf) \/ (cl_s2c c = [] /\ cl_inbox_upd c = [])).
    { assert (Hcase : cl_inbox_upd c = [] \/ cl_inbox_upd c <> []) by (destruct (cl_inbox_upd c); [left; reflexivity|right; discriminate]).
      destruct Hcase as [EI|EI].
      - unfold uf. rewrite EI in *. cbn [map last app] in *. destruct Hd as [[D1 D2]|D]; [left; auto|right; auto].
      - left. destruct (last_map_in (cl_inbox_upd c) (cl_upd_tick c) EI) as (u & Hu & El & Hbl). fold uf in El. rewrite El.
        split; [exact (Hbl lupd Hincr)|exact (proj2 (proj2 (HI u Hu)))]. }
    assert (Hsub : forall m, In m (frame_applied c) -> In m (cl_inbox_mut c ++ cl_buffered c) /\ gated uf m = false).
    { intros m Hma. unfold frame_applied in Hma.
      destruct (fold_left (res_step apply_update_message) (cl_inbox_upd c) (Ok c)) as [c1| |] eqn:E1; [|destruct Hma|destruct Hma].
      cbv zeta in Hma. apply filter_In in Hma. destruct Hma as [Hin Hgt].
      assert (Etick : cl_upd_tick (merge_mut_inbox c1) = uf) by (cbn; exact (update_fold_tick _ _ _ E1)).
      rewrite Etick in Hgt. apply negb_true_iff in Hgt. split; [|exact Hgt].
      destruct (inbox_fold_same_buf_mt _ _ _ E1) as (B1 & B2 & _). cbn [merge_mut_inbox clear_inboxes set_buffered cl_buffered] in Hin.
      rewrite B1, B2 in Hin. exact (fold_buffer_insert_in _ _ _ Hin). }
    assert (Hmm : (forall m, In m (frame_applied c) -> Psi (m_tick m) /\ below lupd (m_tick m)) \/ (cl_s2c c = [] /\ cl_inbox_upd c = [])).
    { destruct HG as [(G1 & G2)|G]; [left|right; exact G].
      intros m Hma. destruct (Hsub m Hma) as [Hin Hgt].
      assert (Hq : In m (lmut ++ cl_inbox_mut c ++ cl_buffered c)) by (apply in_or_app; right; exact Hin).
      destruct (HM m Hq) as [X Y]. split; [exact X|].
      intros u Hu. destruct (Hgate m u Hq (in_or_app _ _ _ (or_intror Hu))) as [Hle|Hlt]; [exfalso|exact Hlt].
      pose proof (HPsi _ G2) as G3. unfold gated in Hgt. rewrite tick_gtb_small in Hgt by (unfold small_tick; lia).
      pose proof (G1 u Hu). destruct (N.ltb_spec uf (m_upd_tick m)); [discriminate|lia]. }
    destruct (frame_cli W Psi lupd c ops c' out Hcc Hincr HI Hw Hmm Efr) as [R1 R2].
    destruct (frame_clears_inbox c ops c' out Hcc Efr) as [Ei _].
    destruct (frame_connected_mt c ops c' out Hcc Efr) as (_ & _ & _ & Eim & Hperm).
    assert (Hkb : forall m, In m (lmut ++ cl_inbox_mut c' ++ cl_buffered c') -> In m (lmut ++ cl_inbox_mut c ++ cl_buffered c)).
    { intros m Hm. rewrite Eim in Hm. cbn [app] in Hm. apply in_app_or in Hm. apply in_or_app. destruct Hm as [Hm|Hm]; [left; exact Hm|right].
      assert (H0 : In m (cl_buffered c ++ cl_inbox_mut c)).
      { apply (Permutation_in m (Permutation_sym Hperm)). apply in_or_app. right. exact Hm. }
      apply in_app_or in H0. apply in_or_app. tauto. }
    constructor; rewrite ?Ei; cbn [app].
    - exists W. exact R1.
    - rewrite (frame_upd_tick c ops c' out Efr Hcc). fold uf.
      destruct HG as [(G1 & G2)|G]; [left; auto|right; exact (R2 G)].
    - exact (incr_suffix _ _ Hincr).
    - intros u Hu. apply HU. apply in_or_app. right. exact Hu.
    - intros m Hm. exact (HM m (Hkb m Hm)).
    - intros m u Hm Hu. exact (Hgate m u (Hkb m Hm) (in_or_app _ _ _ (or_intror Hu))).
  Qed.
End TFrame.

(* the tracker *)
Definition tk (Q : mutate_msg -> Prop) (c : client) (lmut : list mutate_msg) : Prop :=
  forall m0, cl_mticks c = Some m0 ->
    exists appl bs sent0 rest, mt_confirm_all mt_default (ncalls appl) = Ok (m0, bs) /\ srv_proto true sent0 /\
      (forall m, In m sent0 -> m_tick m < 2 ^ 31 /\ Q m) /\
      Permutation sent0 (appl ++ cl_buffered c ++ cl_inbox_mut c ++ lmut ++ rest).

Lemma tick_frames_nil : tick_frames [] < 2 ^ 31.
Proof. cbn. rewrite Npow31. lia. Qed.

Theorem tk_nopanic Q c lmut : tk Q c lmut ->
  forall m0, cl_mticks c = Some m0 -> mt_confirm_all m0 (ncalls (frame_applied c)) <> Panic.
Proof.
  intros Htk m0 Em0. destruct (Htk m0 Em0) as (appl & bs & sent0 & rest & Erep & Hproto & Hsm & L).
  destruct (frame_applied_sub c) as [kept Hk]. set (fa := frame_applied c) in *.
  assert (Hperm : Permutation sent0 ((appl ++ fa) ++ (kept ++ lmut ++ rest))).
  { eapply Permutation_trans; [exact L|]. rewrite <- app_assoc. apply Permutation_app_head.
    rewrite (app_assoc (cl_buffered c)), (app_assoc fa). apply Permutation_app_tail. exact Hk. }
  pose proof (protocol_sub _ _ _ Hproto Hperm) as Hsp.
  assert (Hsmall : forall m, In m (appl ++ fa) -> m_tick m < 2 ^ 31).
  { intros m Hm. apply Hsm. apply (Permutation_in m (Permutation_sym Hperm)). apply in_or_app. left. exact Hm. }
  assert (Hok : mcalls_ok 0 mlog_empty (zcalls (appl ++ fa))).
  { apply mcalls_ok_from_protocol; [exact Hsp|].
    apply (appl_half_range (mkCfg PAll AuthNone true 0) [] tick_frames_nil); [exact Hsmall|rewrite Zpow31; lia]. }
  destruct (mt_refines_from_default _ Hok) as (m' & E' & _).
  rewrite (wrap_zcalls (mkCfg PAll AuthNone true 0) [] tick_frames_nil _ Hsmall), ncalls_app, mt_confirm_all_app, Erep in E'. cbn [bind] in E'.
  intros Hp. rewrite Hp in E'. discriminate.
Qed.

Lemma mt_clear_default m : length (mt_ticks m) = 64%nat -> mt_clear m = mt_default.
Proof.
  intros H. unfold mt_clear, mt_default. f_equal.
  assert (G : forall l : list tmsg, map (fun _ => tm_default) l = repeat tm_default (length l)).
  { induction l as [|a t IH]; cbn; [reflexivity|rewrite IH; reflexivity]. }
  rewrite G, H. reflexivity.
Qed.

Lemma perm_to_rest {A} (a b i l z : list A) : Permutation (a ++ b ++ i ++ l ++ z) (i ++ l ++ a ++ b ++ z).
Proof.
  replace (a ++ b ++ i ++ l ++ z) with ((a ++ b) ++ (i ++ l) ++ z) by (rewrite <- !app_assoc; reflexivity).
  replace (i ++ l ++ a ++ b ++ z) with ((i ++ l) ++ (a ++ b) ++ z) by (rewrite <- !app_assoc; reflexivity).
  apply Permutation_app_swap_app.
Qed.

Theorem tk_frame Q c lmut ops c' out : tk Q c lmut -> client_frame c ops = Ok (c', out) -> tk Q c' lmut.
Proof.
  intros Htk Efr m2 Em2. destruct (status_dec c) as [Hd|Hcc].
  - destruct (frame_disconnected_mt c ops c' out Hd Efr) as (_ & _ & _ & Eim & Hb).
    destruct (cl_last_not_disconnected c).
    + destruct Hb as [Eb Em]. rewrite Em in Em2. destruct (cl_mticks c) as [m0|] eqn:Em0; [|discriminate]. cbn in Em2. inversion Em2; subst m2.
      destruct (Htk m0 Em0) as (appl & bs & sent0 & rest & Erep & Hproto & Hsm & L).
      pose proof (mt_confirm_all_64 _ _ _ _ mt_default_64 Erep) as H64. rewrite (mt_clear_default m0 H64).
      exists [], [], sent0, (appl ++ cl_buffered c ++ rest). split; [reflexivity|]. split; [exact Hproto|]. split; [exact Hsm|].
      rewrite Eb, Eim. cbn [app]. eapply Permutation_trans; [exact L|].
      apply perm_to_rest.
    + destruct Hb as [Eb Em]. rewrite Em in Em2. destruct (Htk m2 Em2) as (appl & bs & sent0 & rest & Erep & Hproto & Hsm & L).
      exists appl, bs, sent0, rest. rewrite Eb, Eim. auto.
  - destruct (frame_connected_mt c ops c' out Hcc Efr) as (Hmt & _ & _ & Eim & Hperm).
    destruct (cl_mticks c) as [m0|] eqn:Em0; [|destruct Hmt as [Hn _]; congruence].
    destruct Hmt as (m2' & bs2 & Ec & Em' & _). assert (m2' = m2) by congruence. subst m2'.
    destruct (Htk m0 Em0) as (appl & bs & sent0 & rest & Erep & Hproto & Hsm & L).
    exists (appl ++ frame_applied c), (bs ++ bs2), sent0, rest.
    split; [rewrite ncalls_app, mt_confirm_all_app, Erep; cbn [bind]; rewrite Ec; reflexivity|]. split; [exact Hproto|]. split; [exact Hsm|].
    rewrite Eim. cbn [app]. eapply Permutation_trans; [exact L|]. rewrite <- app_assoc. apply Permutation_app_head.
    rewrite (app_assoc (cl_buffered c)), (app_assoc (frame_applied c)). apply Permutation_app_tail. exact Hperm.
Qed.

(* ================================================================== *)
(* 2. records                                                         *)
(* ================================================================== *)

Lemma find_client_ext s s' slot : sv_clients s' = sv_clients s -> find_client s' slot = find_client s slot.
Proof. unfold find_client. intros ->. reflexivity. Qed.

Lemma find_client_update s cnew k :
  find_client (update_client s cnew) k =
  if k =? sc_slot cnew then match find_client s k with Some _ => Some cnew | None => None end else find_client s k.
Proof.
  unfold find_client, update_client, set_clients. cbn [sv_clients]. induction (sv_clients s) as [|a t IH]; cbn [map find].
  - destruct (k =? sc_slot cnew); reflexivity.
  - destruct (sc_slot a =? sc_slot cnew) eqn:E1; destruct (sc_slot a =? k) eqn:E3; destruct (k =? sc_slot cnew) eqn:E2;
      try (exfalso; lia); rewrite ?IH, ?E2;
      try (replace (sc_slot cnew =? k) with true by lia); try (replace (sc_slot cnew =? k) with false by lia); reflexivity.
Qed.

Lemma find_client_snoc s cl k : sc_slot cl <> k -> find_client (set_clients s (sv_clients s ++ [cl])) k = find_client s k.
Proof.
  intros Hne. unfold find_client, set_clients. cbn [sv_clients]. induction (sv_clients s) as [|a t IH]; cbn [app find].
  - replace (sc_slot cl =? k) with false by lia. reflexivity.
  - destruct (sc_slot a =? k); [reflexivity|exact IH].
Qed.

Lemma find_client_disconnect s slot0 k : find_client (disconnect_client s slot0) k = if k =? slot0 then None else find_client s k.
Proof.
  unfold find_client, disconnect_client. cbn [sv_clients]. induction (sv_clients s) as [|a t IH]; cbn [filter find].
  - destruct (k =? slot0); reflexivity.
  - destruct (sc_slot a =? slot0) eqn:E1; cbn [negb].
    + rewrite IH. destruct (k =? slot0) eqn:E2; [reflexivity|]. replace (sc_slot a =? k) with false by lia. reflexivity.
    + cbn [find]. destruct (sc_slot a =? k) eqn:E3; [replace (k =? slot0) with false by lia; reflexivity|exact IH].
Qed.

Lemma find_client_connect c s slot0 max k : k <> slot0 -> find_client (connect_client c s slot0 max) k = find_client s k.
Proof.
  intros Hne. unfold connect_client. destruct (sv_running s); [|reflexivity]. destruct (find_client s slot0); [reflexivity|].
  apply find_client_snoc. destruct (cfg_auth c); cbn; lia.
Qed.

Lemma find_client_authorize c s slot0 k : k <> slot0 -> find_client (authorize_client c s slot0) k = find_client s k.
Proof.
  intros Hne. unfold authorize_client. destruct (find_client s slot0) as [cl|]; [|reflexivity]. destruct (sc_authorized cl); [reflexivity|].
  rewrite find_client_update. cbn [authorized_client sc_slot]. replace (k =? slot0) with false by lia. reflexivity.
Qed.

(* ================================================================== *)
(* 3. the invariant of a run                                          *)
(* ================================================================== *)

Definition psiS (TB : N) (s : server) (slot : N) (t : N) : Prop := t <= TB /\ (find_client s slot <> None -> used s t).

Definition srv_facts (s : server) (slot : N) (P : list update_msg) : Prop :=
  forall r, find_client s slot = Some r ->
    if sc_authorized r then (forall u, In u P -> u_tick u <= ct_update_tick (sc_ticks r)) /\ ct_update_tick (sc_ticks r) <= sv_tick s
    else P = [].

Record slot_all (UP : update_msg -> Prop) (track : bool) (TB : N) (s : server) (slot : N) (lupd : list update_msg) (lmut : list mutate_msg) (c : client) : Prop := mkSA {
  sa_tk : tk (fun m => psiS TB s slot (m_tick m)) c lmut;
  sa_track : cl_mticks c <> None -> track = true;
  sa_tf : cl_status c = Connected -> tfacts UP (psiS TB s slot) c lupd lmut /\ srv_facts s slot (cl_inbox_upd c ++ lupd)
}.

Lemma psiS_mono TB TB' s s' slot t : TB <= TB' -> (forall t0, used s t0 -> used s' t0) ->
  (find_client s' slot <> None -> find_client s slot <> None) -> psiS TB s slot t -> psiS TB' s' slot t.
Proof. intros Hle Hu Hr [A B]. split; [lia|]. intros H. apply Hu. apply B. apply Hr. exact H. Qed.

Lemma tk_ext (Q Q' : mutate_msg -> Prop) c c' lmut lmut' :
  tk Q c lmut -> cl_mticks c' = cl_mticks c -> (forall m, Q m -> Q' m) ->
  (exists extra, Permutation (cl_buffered c ++ cl_inbox_mut c ++ lmut) (cl_buffered c' ++ cl_inbox_mut c' ++ lmut' ++ extra)) ->
  tk Q' c' lmut'.
Proof.
  intros Htk Em HQ [extra Hp] m0 Em0. rewrite Em in Em0. destruct (Htk m0 Em0) as (appl & bs & sent0 & rest & Erep & Hproto & Hsm & L).
  exists appl, bs, sent0, (extra ++ rest). split; [exact Erep|]. split; [exact Hproto|].
  split; [intros m Hm; destruct (Hsm m Hm); auto|].
  eapply Permutation_trans; [exact L|]. apply Permutation_app_head.
  replace (cl_buffered c ++ cl_inbox_mut c ++ lmut ++ rest) with ((cl_buffered c ++ cl_inbox_mut c ++ lmut) ++ rest) by (rewrite <- !app_assoc; reflexivity).
  replace (cl_buffered c' ++ cl_inbox_mut c' ++ lmut' ++ extra ++ rest) with ((cl_buffered c' ++ cl_inbox_mut c' ++ lmut' ++ extra) ++ rest)
    by (rewrite <- !app_assoc; reflexivity).
  apply Permutation_app_tail. exact Hp.
Qed.

Lemma tfacts_ext UP (Psi Psi' : N -> Prop) c c' lupd lupd' lmut lmut' dropped :
  tfacts UP Psi c lupd lmut -> (forall t, Psi t -> Psi' t) ->
  cl_s2c c' = cl_s2c c -> cl_ents c' = cl_ents c -> cl_next c' = cl_next c -> cl_upd_tick c' = cl_upd_tick c ->
  cl_inbox_upd c ++ lupd = (cl_inbox_upd c' ++ lupd') ++ dropped ->
  (forall m, In m (lmut' ++ cl_inbox_mut c' ++ cl_buffered c') -> In m (lmut ++ cl_inbox_mut c ++ cl_buffered c)) ->
  tfacts UP Psi' c' lupd' lmut'.
Proof.
  intros [[W Hw] Hd Hincr HU HM Hgate] HP E1 E2 E3 E4 EP HQ.
  assert (Hsub : forall u, In u (cl_inbox_upd c' ++ lupd') -> In u (cl_inbox_upd c ++ lupd)) by (intros u Hu; rewrite EP; apply in_or_app; left; exact Hu).
  assert (Hb : forall t, below (cl_inbox_upd c ++ lupd) t -> below (cl_inbox_upd c' ++ lupd') t) by (intros t; apply below_incl; exact Hsub).
  constructor.
  - exists W. apply (cli_ext W _ c c' E1 E2 E3). revert Hw. apply cli_mono. intros t [A B]. auto.
  - rewrite E1, E4. destruct Hd as [[D1 D2]|D]; [left; auto|right; exact D].
  - rewrite EP in Hincr. exact (ticks_incr_prefix _ _ Hincr).
  - intros u Hu. destruct (HU u (Hsub u Hu)). auto.
  - intros m Hm. destruct (HM m (HQ m Hm)). auto.
  - intros m u Hm Hu. exact (Hgate m u (HQ m Hm) (Hsub u Hu)).
Qed.

Lemma perm_in3 {A} (b i l b' i' l' extra : list A) :
  Permutation (b ++ i ++ l) (b' ++ i' ++ l' ++ extra) -> forall m, In m (l' ++ i' ++ b') -> In m (l ++ i ++ b).
Proof.
  intros Hp m Hm. assert (H0 : In m (b' ++ i' ++ l' ++ extra)).
  { apply in_app_or in Hm. destruct Hm as [Hm|Hm]; [apply in_or_app; right; apply in_or_app; right; apply in_or_app; left; exact Hm|].
    apply in_app_or in Hm. apply in_or_app. destruct Hm as [Hm|Hm]; [right; apply in_or_app; left; exact Hm|left; exact Hm]. }
  apply (Permutation_in m (Permutation_sym Hp)) in H0. apply in_app_or in H0. apply in_or_app.
  destruct H0 as [H0|H0]; [right; apply in_or_app; right; exact H0|]. apply in_app_or in H0. destruct H0 as [H0|H0]; [right; apply in_or_app; left; exact H0|left; exact H0].
Qed.

(* a step that keeps a slot's client up to inbox / queue movements, and does not add messages *)
Lemma slot_all_keep UP track TB TB' s s' slot lupd lupd' lmut lmut' c c' dropped :
  slot_all UP track TB s slot lupd lmut c -> TB <= TB' -> (forall t, used s t -> used s' t) ->
  (find_client s' slot <> None -> find_client s slot <> None) ->
  cl_status c' = cl_status c -> cl_mticks c' = cl_mticks c ->
  cl_s2c c' = cl_s2c c -> cl_ents c' = cl_ents c -> cl_next c' = cl_next c -> cl_upd_tick c' = cl_upd_tick c ->
  (cl_status c = Connected -> cl_inbox_upd c ++ lupd = (cl_inbox_upd c' ++ lupd') ++ dropped) ->
  (exists extra, Permutation (cl_buffered c ++ cl_inbox_mut c ++ lmut) (cl_buffered c' ++ cl_inbox_mut c' ++ lmut' ++ extra)) ->
  (cl_status c = Connected -> srv_facts s slot (cl_inbox_upd c ++ lupd) -> srv_facts s' slot (cl_inbox_upd c' ++ lupd')) ->
  slot_all UP track TB' s' slot lupd' lmut' c'.
Proof.
  intros [A1 A2 A3] Hle Hu Hr Es Em E1 E2 E3 E4 EP Hperm Hsrv.
  assert (HP : forall t, psiS TB s slot t -> psiS TB' s' slot t) by (intros t; apply psiS_mono; assumption).
  constructor.
  - apply (tk_ext _ _ c c' lmut lmut' A1 Em); [intros m; apply HP|exact Hperm].
  - rewrite Em. exact A2.
  - intros Hc. rewrite Es in Hc. destruct (A3 Hc) as [T1 T2]. split; [|exact (Hsrv Hc T2)].
    destruct Hperm as [extra Hp]. exact (tfacts_ext UP _ _ c c' lupd lupd' lmut lmut' dropped T1 HP E1 E2 E3 E4 (EP Hc) (perm_in3 _ _ _ _ _ _ _ Hp)).
Qed.

Lemma srv_facts_same s s' slot P P' : find_client s' slot = find_client s slot -> sv_tick s <= sv_tick s' ->
  (forall u, In u P' -> In u P) -> (P = [] -> P' = []) -> srv_facts s slot P -> srv_facts s' slot P'.
Proof.
  intros Ef Ht Hsub Hnil H r Hr. rewrite Ef in Hr. specialize (H r Hr). destruct (sc_authorized r); [|exact (Hnil H)].
  destruct H as [H1 H2]. split; [intros u Hu; exact (H1 u (Hsub u Hu))|lia].
Qed.

Section AllGen.
  Variables (cfg0 : cfg) (nclients : N) (UP : update_msg -> Prop).
  Notation track := (cfg_track cfg0).

  Definition all_inv (script : list step) (y : sys) : Prop :=
    forall slot c, al_get slot (y_clients y) = Some c ->
      slot_all UP track (tick_frames script) (y_server y) slot (l_upd (get_link y slot)) (l_mut (get_link y slot)) c.

  Lemma all_keep script st y y' :
    all_inv script y ->
    (forall t, used (y_server y) t -> used (y_server y') t) ->
    (forall slot c', al_get slot (y_clients y') = Some c' -> exists c dropped,
        al_get slot (y_clients y) = Some c /\
        (find_client (y_server y') slot <> None -> find_client (y_server y) slot <> None) /\
        cl_status c' = cl_status c /\ cl_mticks c' = cl_mticks c /\ cl_s2c c' = cl_s2c c /\ cl_ents c' = cl_ents c /\
        cl_next c' = cl_next c /\ cl_upd_tick c' = cl_upd_tick c /\
        (cl_status c = Connected -> cl_inbox_upd c ++ l_upd (get_link y slot) = (cl_inbox_upd c' ++ l_upd (get_link y' slot)) ++ dropped) /\
        (exists extra, Permutation (cl_buffered c ++ cl_inbox_mut c ++ l_mut (get_link y slot))
                                   (cl_buffered c' ++ cl_inbox_mut c' ++ l_mut (get_link y' slot) ++ extra)) /\
        (cl_status c = Connected -> srv_facts (y_server y) slot (cl_inbox_upd c ++ l_upd (get_link y slot)) ->
         srv_facts (y_server y') slot (cl_inbox_upd c' ++ l_upd (get_link y' slot)))) ->
    all_inv (script ++ [st]) y'.
  Proof.
    intros Hinv Hu Hcl slot c' Hc'. destruct (Hcl slot c' Hc') as (c & dropped & Hc & Hr & Es & Em & E1 & E2 & E3 & E4 & EP & Hperm & Hsrv).
    exact (slot_all_keep UP track _ _ _ _ slot _ _ _ _ c c' dropped (Hinv slot c Hc) (tick_frames_mono script st) Hu Hr Es Em E1 E2 E3 E4 EP Hperm Hsrv).
  Qed.

  (* the obligations of [all_keep] for a slot whose client and link are untouched *)
  Lemma keep_untouched (y y' : sys) slot c :
    al_get slot (y_clients y) = Some c -> l_upd (get_link y' slot) = l_upd (get_link y slot) -> l_mut (get_link y' slot) = l_mut (get_link y slot) ->
    find_client (y_server y') slot = find_client (y_server y) slot -> sv_tick (y_server y) <= sv_tick (y_server y') ->
    exists c0 dropped,
        al_get slot (y_clients y) = Some c0 /\
        (find_client (y_server y') slot <> None -> find_client (y_server y) slot <> None) /\
        cl_status c = cl_status c0 /\ cl_mticks c = cl_mticks c0 /\ cl_s2c c = cl_s2c c0 /\ cl_ents c = cl_ents c0 /\
        cl_next c = cl_next c0 /\ cl_upd_tick c = cl_upd_tick c0 /\
        (cl_status c0 = Connected -> cl_inbox_upd c0 ++ l_upd (get_link y slot) = (cl_inbox_upd c ++ l_upd (get_link y' slot)) ++ dropped) /\
        (exists extra, Permutation (cl_buffered c0 ++ cl_inbox_mut c0 ++ l_mut (get_link y slot))
                                   (cl_buffered c ++ cl_inbox_mut c ++ l_mut (get_link y' slot) ++ extra)) /\
        (cl_status c0 = Connected -> srv_facts (y_server y) slot (cl_inbox_upd c0 ++ l_upd (get_link y slot)) ->
         srv_facts (y_server y') slot (cl_inbox_upd c ++ l_upd (get_link y' slot))).
  Proof.
    intros Hc El El2 Ef Ht. exists c, []. rewrite El, El2, Ef, app_nil_r. split; [exact Hc|]. split; [auto|]. repeat (split; [reflexivity|]).
    split; [exists []; rewrite app_nil_r; apply Permutation_refl|].
    intros _. apply srv_facts_same; auto.
  Qed.

  Lemma all_start script y : all_inv script y -> all_inv (script ++ [StStart]) (set_server y (set_running (y_server y) true)).
  Proof.
    intros Hinv. apply (all_keep script StStart y); [exact Hinv|intros t H; exact H|].
    intros slot c' Hc'. apply (keep_untouched y); [exact Hc'|reflexivity|reflexivity|reflexivity|apply N.le_refl].
  Qed.

  Lemma all_stop script y y' o : all_inv script y -> sys_step y StStop = Ok (y', o) -> all_inv (script ++ [StStop]) y'.
  Proof.
    intros Hinv H. cbn [sys_step] in H. inversion H; subst y' o. clear H.
    apply (all_keep script StStop y); [exact Hinv|intros t H; exact H|].
    intros slot c' Hc'. cbn [set_server y_clients] in Hc'.
    match goal with |- context [get_link ?Y slot] =>
      assert (El : get_link Y slot = link_empty) by (unfold get_link; cbn [y_links set_server]; apply get_link_map_empty) end.
    rewrite El. cbn [l_upd l_mut]. exists c', (l_upd (get_link y slot)). rewrite app_nil_r.
    split; [exact Hc'|]. split; [auto|]. repeat (split; [reflexivity|]).
    split; [exists (l_mut (get_link y slot)); apply Permutation_refl|].
    intros _. apply srv_facts_same; [reflexivity|apply N.le_refl|intros u Hu; apply in_or_app; left; exact Hu|].
    intros E. apply app_eq_nil in E. exact (proj1 E).
  Qed.

  Lemma all_authorize script y slot0 : all_inv script y ->
    all_inv (script ++ [StAuthorize slot0]) (set_server y (authorize_client (y_cfg y) (y_server y) slot0)).
  Proof.
    intros Hinv. destruct (authorize_flags (y_cfg y) (y_server y) slot0) as [At Ad].
    apply (all_keep script (StAuthorize slot0) y); [exact Hinv|intros t; apply used_flags; assumption|].
    intros slot c' Hc'. cbn [set_server y_clients] in Hc'.
    destruct (N.eq_dec slot slot0) as [->|Hne].
    2:{ apply (keep_untouched y); [exact Hc'|reflexivity|reflexivity|apply find_client_authorize; exact Hne|cbn [set_server y_server]; lia]. }
    change (get_link (set_server ?a ?b) slot0) with (get_link a slot0). cbn [set_server y_server].
    exists c', []. rewrite app_nil_r. split; [exact Hc'|]. split.
    { unfold authorize_client. destruct (find_client (y_server y) slot0) as [cl|] eqn:Ef; [|auto]. intros _. discriminate. }
    repeat (split; [reflexivity|]). split; [exists []; rewrite app_nil_r; apply Permutation_refl|].
    intros _ Hs r Hr. unfold authorize_client in Hr. destruct (find_client (y_server y) slot0) as [cl|] eqn:Ef; [|rewrite Ef in Hr; discriminate].
    specialize (Hs cl Ef). destruct (sc_authorized cl) eqn:Ea.
    - rewrite Ef in Hr. inversion Hr; subst r. rewrite Ea, At. exact Hs.
    - rewrite find_client_update in Hr. cbn [authorized_client sc_slot] in Hr. rewrite N.eqb_refl, Ef in Hr. inversion Hr; subst r.
      cbn [authorized_client sc_authorized sc_ticks ct_default ct_update_tick]. rewrite Hs. split; [intros u []|lia].
  Qed.

  Lemma all_disconnect script y slot0 y' o : all_inv script y -> sys_step y (StDisconnect slot0) = Ok (y', o) ->
    all_inv (script ++ [StDisconnect slot0]) y'.
  Proof.
    intros Hinv H. cbn [sys_step] in H. destruct (al_get slot0 (y_clients y)) as [cl|] eqn:Ec; inversion H; subst y' o; clear H.
    2:{ apply (all_keep script _ y); [exact Hinv|intros t H; exact H|]. intros slot c' Hc'. apply (keep_untouched y); auto. apply N.le_refl. }
    intros slot c' Hc'. cbn [clear_link set_link set_client set_server y_clients] in Hc'.
    assert (Hu : forall t, used (y_server y) t -> used (disconnect_client (y_server y) slot0) t) by (intros t; apply used_flags; reflexivity).
    destruct (N.eq_dec slot slot0) as [->|Hne].
    - rewrite al_get_insert_same in Hc'. inversion Hc'; subst c'. clear Hc'.
      unfold clear_link. rewrite get_link_set_link_same. cbn [l_upd l_mut link_empty set_link set_client set_server y_server].
      destruct (Hinv slot0 cl Ec) as [A1 A2 A3].
      assert (HP : forall t, psiS (tick_frames script) (y_server y) slot0 t ->
                             psiS (tick_frames (script ++ [StDisconnect slot0])) (disconnect_client (y_server y) slot0) slot0 t).
      { intros t. apply psiS_mono; [apply tick_frames_mono|exact Hu|]. rewrite find_client_disconnect, N.eqb_refl. congruence. }
      constructor.
      + apply (tk_ext _ _ cl _ (l_mut (get_link y slot0)) [] A1); [reflexivity|intros m; apply HP|].
        unfold set_status. cbn [cl_buffered cl_inbox_mut]. destruct (cl_status cl); cbn [app].
        * exists (l_mut (get_link y slot0)). apply Permutation_refl.
        * exists (cl_inbox_mut cl ++ l_mut (get_link y slot0)). apply Permutation_refl.
      + exact A2.
      + cbn [set_status cl_status]. discriminate.
    - rewrite al_get_insert_other in Hc' by exact Hne.
      unfold clear_link. rewrite get_link_set_link_other by exact Hne.
      change (get_link (set_client ?a ?b ?c) slot) with (get_link a slot). change (get_link (set_server ?a ?b) slot) with (get_link a slot).
      cbn [set_link set_client set_server y_server].
      refine (slot_all_keep UP track _ _ _ _ slot _ _ _ _ c' c' [] (Hinv slot c' Hc') (tick_frames_mono script _) Hu _ eq_refl eq_refl eq_refl eq_refl eq_refl eq_refl _ _ _).
      + rewrite find_client_disconnect. replace (slot =? slot0) with false by lia. auto.
      + intros _. rewrite app_nil_r. reflexivity.
      + exists []. rewrite app_nil_r. apply Permutation_refl.
      + intros _. apply srv_facts_same; auto; [|apply N.le_refl]. rewrite find_client_disconnect. replace (slot =? slot0) with false by lia. reflexivity.
  Qed.

  Lemma deliver_acks_fold_clients slot0 picked : forall s0,
    sv_clients (fold_left (fun s idxs => deliver_acks s slot0 idxs) picked s0) = sv_clients s0.
  Proof.
    induction picked as [|i t IH]; intros s0; cbn [fold_left]; [reflexivity|]. rewrite IH.
    unfold deliver_acks. destruct (sv_running s0); [|reflexivity]. destruct (find_client s0 slot0); reflexivity.
  Qed.

  Lemma deliver_mutates_more p : forall cl,
    cl_mticks (fold_left deliver_mutate p cl) = cl_mticks cl /\ cl_buffered (fold_left deliver_mutate p cl) = cl_buffered cl /\
    cl_inbox_mut (fold_left deliver_mutate p cl) = (match cl_status cl with Connected => cl_inbox_mut cl ++ p | Disconnected => cl_inbox_mut cl end).
  Proof.
    induction p as [|m t IH]; intros cl; cbn [fold_left]; [destruct (cl_status cl); rewrite ?app_nil_r; auto|].
    destruct (IH (deliver_mutate cl m)) as (A & B & C). rewrite A, B, C.
    unfold deliver_mutate. destruct (cl_status cl) eqn:Es; cbn; rewrite ?Es; [auto|]. rewrite <- app_assoc. auto.
  Qed.

  Lemma deliver_updates_more p : forall cl,
    cl_mticks (fold_left deliver_update p cl) = cl_mticks cl /\
    cl_inbox_upd (fold_left deliver_update p cl) = (match cl_status cl with Connected => cl_inbox_upd cl ++ p | Disconnected => cl_inbox_upd cl end).
  Proof.
    induction p as [|m t IH]; intros cl; cbn [fold_left]; [destruct (cl_status cl); rewrite ?app_nil_r; auto|].
    destruct (IH (deliver_update cl m)) as (A & C). rewrite A, C.
    unfold deliver_update. destruct (cl_status cl) eqn:Es; cbn; rewrite ?Es; [auto|]. rewrite <- app_assoc. auto.
  Qed.

  (* a state that differs from [y] in one link and one re-inserted client *)
  Lemma all_link script st y slot0 cl cl' lu lm la dropped :
    all_inv script y -> al_get slot0 (y_clients y) = Some cl ->
    cl_status cl' = cl_status cl -> cl_mticks cl' = cl_mticks cl -> cl_s2c cl' = cl_s2c cl -> cl_ents cl' = cl_ents cl ->
    cl_next cl' = cl_next cl -> cl_upd_tick cl' = cl_upd_tick cl ->
    (cl_status cl = Connected -> cl_inbox_upd cl ++ l_upd (get_link y slot0) = (cl_inbox_upd cl' ++ lu) ++ dropped) ->
    (exists extra, Permutation (cl_buffered cl ++ cl_inbox_mut cl ++ l_mut (get_link y slot0)) (cl_buffered cl' ++ cl_inbox_mut cl' ++ lm ++ extra)) ->
    all_inv (script ++ [st]) (set_client (set_link y slot0 (mkLink lu lm la)) slot0 cl').
  Proof.
    intros Hinv Ec Es Em E1 E2 E3 E4 EP Hperm. apply (all_keep script st y); [exact Hinv|intros t H; exact H|].
    intros slot c' Hc'. cbn [set_client y_clients set_link] in Hc'.
    change (get_link (set_client ?a ?b ?c) slot) with (get_link a slot).
    destruct (N.eq_dec slot slot0) as [->|Hne].
    - rewrite al_get_insert_same in Hc'. inversion Hc'; subst c'. exists cl, dropped. rewrite get_link_set_link_same. cbn [l_upd l_mut].
      split; [exact Ec|]. split; [auto|]. repeat (split; [assumption|]).
      intros Hc Hs. cbn [set_client set_link y_server]. apply (srv_facts_same (y_server y) (y_server y) slot0 (cl_inbox_upd cl ++ l_upd (get_link y slot0))); auto.
      + apply N.le_refl.
      + intros u Hu. rewrite (EP Hc). apply in_or_app. left. exact Hu.
      + intros E. rewrite (EP Hc) in E. apply app_eq_nil in E. exact (proj1 E).
    - rewrite al_get_insert_other in Hc' by exact Hne.
      change (get_link (set_link y slot0 (mkLink lu lm la)) slot) with (get_link (set_client (set_link y slot0 (mkLink lu lm la)) slot0 cl') slot).
      apply (keep_untouched y (set_client (set_link y slot0 (mkLink lu lm la)) slot0 cl')); [exact Hc'| | |reflexivity|apply N.le_refl];
        change (get_link (set_client ?a ?b ?c) slot) with (get_link a slot); rewrite get_link_set_link_other by exact Hne; reflexivity.
  Qed.

  Lemma all_transport script st y y' o : transport_step st = true -> legal_step st = true -> all_inv script y ->
    sys_step y st = Ok (y', o) -> all_inv (script ++ [st]) y'.
  Proof.
    intros Ht Hl Hinv H.
    assert (Hnoop : all_inv (script ++ [st]) y).
    { apply (all_keep script st y); [exact Hinv|intros t H0; exact H0|]. intros slot c' Hc'. apply (keep_untouched y); auto. apply N.le_refl. }
    destruct st as [| | | | | | |slot0 s2c ch w|slot0 s2c ch w]; try discriminate; cbn [sys_step] in H.
    - destruct (al_get slot0 (y_clients y)) as [cl|] eqn:Ec; [|inversion H; subst y' o; exact Hnoop].
      destruct s2c.
      + destruct (ch =? 0) eqn:Ech.
        * cbn [legal_step] in Hl. rewrite Ech in Hl. assert (Hw : w <> Last) by (destruct w; congruence).
          destruct (take w (l_upd (get_link y slot0))) as [picked rest] eqn:Etk. inversion H; subst y' o. clear H.
          apply take_app in Etk; [|exact Hw].
          destruct (deliver_updates_fields picked cl) as (A & B & C & D & E & F & G & K). cbv zeta in A, B, C, D, E, F, G, K.
          destruct (deliver_updates_more picked cl) as [M1 M2].
          apply (all_link script _ y slot0 cl _ _ _ _ []); try assumption.
          -- intros Hc. rewrite M2, Hc, app_nil_r, <- app_assoc, Etk. reflexivity.
          -- exists []. rewrite F, G, app_nil_r. apply Permutation_refl.
        * destruct (ch =? 1); [|inversion H; subst y' o; exact Hnoop].
          destruct (take w (l_mut (get_link y slot0))) as [picked rest] eqn:Etk. inversion H; subst y' o. clear H.
          apply take_perm in Etk.
          destruct (deliver_mutates_repl picked cl) as (A & B & C & D & E & F).
          destruct (deliver_mutates_more picked cl) as (M1 & M2 & M3).
          apply (all_link script _ y slot0 cl _ _ _ _ []); try assumption.
          -- intros _. rewrite F, app_nil_r. reflexivity.
          -- rewrite M2, M3. destruct (cl_status cl).
             ++ exists picked. apply Permutation_app_head, Permutation_app_head. eapply Permutation_trans; [exact Etk|apply Permutation_app_comm].
             ++ exists []. rewrite app_nil_r, <- app_assoc. apply Permutation_app_head, Permutation_app_head. exact Etk.
      + destruct (ch =? 0); [|inversion H; subst y' o; exact Hnoop].
        destruct (take w (l_ack (get_link y slot0))) as [picked rest] eqn:Etk. inversion H; subst y' o. clear H.
        destruct (deliver_acks_fold_flags slot0 picked (y_server y)) as (X1 & X2 & _).
        apply (all_keep script _ y); [exact Hinv|intros t; apply used_flags; assumption|].
        intros slot c' Hc'. apply (keep_untouched y); [exact Hc'| | | |cbn [set_server y_server]; lia].
        -- change (get_link (set_server ?a ?b) slot) with (get_link a slot).
           destruct (N.eq_dec slot slot0) as [->|Hne]; [rewrite get_link_set_link_same|rewrite get_link_set_link_other by exact Hne]; reflexivity.
        -- change (get_link (set_server ?a ?b) slot) with (get_link a slot).
           destruct (N.eq_dec slot slot0) as [->|Hne]; [rewrite get_link_set_link_same|rewrite get_link_set_link_other by exact Hne]; reflexivity.
        -- cbn [set_server y_server]. apply find_client_ext. apply deliver_acks_fold_clients.
    - cbn [legal_step] in Hl. destruct s2c; [|discriminate].
      destruct (al_get slot0 (y_clients y)) as [cl|] eqn:Ec; [|inversion H; subst y' o; exact Hnoop].
      assert (Hch : ch = 1) by lia. subst ch. cbn in H.
      destruct (take w (l_mut (get_link y slot0))) as [picked rest] eqn:Etk. inversion H; subst y' o. clear H.
      apply take_perm in Etk.
      apply (all_link script _ y slot0 cl _ _ _ _ []); try assumption; try reflexivity.
      + intros _. rewrite app_nil_r. reflexivity.
      + exists picked. apply Permutation_app_head, Permutation_app_head. eapply Permutation_trans; [exact Etk|apply Permutation_app_comm].
  Qed.

  Lemma find_client_snoc_new s cl k : find_client s k = None -> sc_slot cl = k ->
    find_client (set_clients s (sv_clients s ++ [cl])) k = Some cl.
  Proof.
    intros Hn Hs. unfold find_client, set_clients in *. cbn [sv_clients]. induction (sv_clients s) as [|a t IH]; cbn [app find] in *.
    - replace (sc_slot cl =? k) with true by lia. reflexivity.
    - destruct (sc_slot a =? k); [discriminate|exact (IH Hn)].
  Qed.

  Lemma all_connect script y slot0 max y' o :
    (forall cl, al_get slot0 (y_clients y) = Some cl -> find_client (y_server y) slot0 = None ->
        cl_status cl = Disconnected /\ ents_fresh cl) ->
    (forall cl, al_get slot0 (y_clients y) = Some cl -> cl_status cl = Disconnected ->
        cl_s2c cl = [] /\ cl_buffered cl = [] /\ cl_inbox_upd cl = [] /\ cl_inbox_mut cl = [] /\
        cl_mticks cl = (if track then Some mt_default else None) /\
        l_upd (get_link y slot0) = [] /\ l_mut (get_link y slot0) = []) ->
    all_inv script y -> sys_step y (StConnect slot0 max) = Ok (y', o) -> all_inv (script ++ [StConnect slot0 max]) y'.
  Proof.
    intros Hdisc Hclean Hinv H.
    assert (Hnoop : all_inv (script ++ [StConnect slot0 max]) y).
    { apply (all_keep script _ y); [exact Hinv|intros t H0; exact H0|]. intros slot c' Hc'. apply (keep_untouched y); auto. apply N.le_refl. }
    cbn [sys_step] in H. destruct (find_client (y_server y) slot0) as [r0|] eqn:Ef; [inversion H; subst y' o; exact Hnoop|].
    destruct (al_get slot0 (y_clients y)) as [cl|] eqn:Ec; [|inversion H; subst y' o; exact Hnoop].
    destruct (sv_running (y_server y)) eqn:Er; [|inversion H; subst y' o; exact Hnoop].
    inversion H; subst y' o. clear H.
    intros slot c' Hc'. cbn [set_client set_server y_clients] in Hc'.
    change (get_link (set_client ?a ?b ?c) slot) with (get_link a slot). change (get_link (set_server ?a ?b) slot) with (get_link a slot).
    cbn [set_client set_server y_server].
    destruct (connect_flags (y_cfg y) (y_server y) slot0 max) as [Ft Fd].
    assert (Hu : forall t, used (y_server y) t -> used (connect_client (y_cfg y) (y_server y) slot0 max) t) by (intros t; apply used_flags; assumption).
    destruct (N.eq_dec slot slot0) as [->|Hne].
    2:{ rewrite al_get_insert_other in Hc' by exact Hne.
        refine (slot_all_keep UP track _ _ _ _ slot _ _ _ _ c' c' [] (Hinv slot c' Hc') (tick_frames_mono script _) Hu _ eq_refl eq_refl eq_refl eq_refl eq_refl eq_refl _ _ _).
        - rewrite find_client_connect by exact Hne. auto.
        - intros _. rewrite app_nil_r. reflexivity.
        - exists []. rewrite app_nil_r. apply Permutation_refl.
        - intros _. apply srv_facts_same; auto; [rewrite find_client_connect by exact Hne; reflexivity|lia]. }
    rewrite al_get_insert_same in Hc'. inversion Hc'; subst c'. clear Hc'.
    destruct (Hdisc cl eq_refl eq_refl) as [Hd Hfresh].
    destruct (Hclean cl eq_refl Hd) as (K1 & K2 & K3 & K4 & K5 & K6 & K7). rewrite K6, K7.
    assert (Es2c : cl_s2c (set_status cl Connected) = []) by exact K1.
    assert (Ebuf : cl_buffered (set_status cl Connected) = []) by exact K2.
    assert (Eiu : cl_inbox_upd (set_status cl Connected) = []) by (unfold set_status; cbn [cl_inbox_upd]; rewrite Hd; exact K3).
    assert (Eim : cl_inbox_mut (set_status cl Connected) = []) by (unfold set_status; cbn [cl_inbox_mut]; rewrite Hd; exact K4).
    assert (Emt : cl_mticks (set_status cl Connected) = (if track then Some mt_default else None)) by exact K5.
    constructor.
    - intros m0 Em0. rewrite Emt in Em0. destruct track; [|discriminate]. inversion Em0; subst m0.
      exists [], [], [], []. split; [reflexivity|]. split; [intros m []|]. split; [intros m []|].
      rewrite Ebuf, Eim. apply perm_nil.
    - rewrite Emt. destruct track; congruence.
    - intros _. rewrite Eiu. cbn [app]. split.
      + constructor; rewrite ?Eiu; cbn [app].
        * exists (fun cid => cl_next (set_status cl Connected) <= cid). apply cli_fresh; [exact Es2c|exact Hfresh].
        * right. exact Es2c.
        * apply ticks_incr_nil.
        * intros u [].
        * rewrite Eim, Ebuf. intros m [].
        * rewrite Eim, Ebuf. intros m u [].
      + intros r Hr. unfold connect_client in Hr. rewrite Er, Ef in Hr. rewrite find_client_snoc_new in Hr; [|exact Ef|destruct (cfg_auth (y_cfg y)); reflexivity].
        inversion Hr; subst r. destruct (cfg_auth (y_cfg y)); cbn; try reflexivity; (split; [intros u []|lia]).
  Qed.

  Lemma frame_mticks_none c ops c' out : client_frame c ops = Ok (c', out) -> cl_mticks c' <> None -> cl_mticks c <> None.
  Proof.
    intros Efr Hn. destruct (status_dec c) as [Hd|Hcc].
    - destruct (frame_disconnected_mt c ops c' out Hd Efr) as (_ & _ & _ & _ & Hb).
      destruct (cl_last_not_disconnected c); destruct Hb as [_ Em]; rewrite Em in Hn; [|exact Hn].
      destruct (cl_mticks c); [discriminate|exact Hn].
    - destruct (frame_connected_mt c ops c' out Hcc Efr) as (Hmt & _). destruct (cl_mticks c); [discriminate|]. destruct Hmt as [Hn' _]. congruence.
  Qed.

  Lemma all_cframe script y slot0 ops y' o : tick_frames script < 2 ^ 31 -> all_inv script y ->
    (forall cl cl' cfo (Psi : N -> Prop) lupd lmut, al_get slot0 (y_clients y) = Some cl -> client_frame cl ops = Ok (cl', cfo) ->
        cl_status cl = Connected -> (forall t, Psi t -> t < 2 ^ 31) -> tfacts UP Psi cl lupd lmut -> tfacts UP Psi cl' lupd lmut) ->
    sys_step y (StCFrame slot0 ops) = Ok (y', o) -> all_inv (script ++ [StCFrame slot0 ops]) y'.
  Proof.
    intros Hb Hinv Hframe H.
    destruct (al_get slot0 (y_clients y)) as [cl|] eqn:Ec.
    2:{ cbn [sys_step] in H. rewrite Ec in H. inversion H; subst y' o.
        apply (all_keep script _ y); [exact Hinv|intros t H0; exact H0|]. intros slot c' Hc'. apply (keep_untouched y); auto. apply N.le_refl. }
    destruct (client_frame cl ops) as [[cl' cfo]| |] eqn:Efr;
      [|cbn [sys_step] in H; rewrite Ec, Efr in H; discriminate|cbn [sys_step] in H; rewrite Ec, Efr in H; discriminate].
    pose proof (cframe_sys_lmut y slot0 ops y' o H) as F3m.
    destruct (cframe_sys y slot0 ops cl cl' cfo y' o Ec Efr H) as (_ & F2 & F3 & [pcs F4]).
    intros slot c' Hc'. rewrite F2 in Hc'. rewrite F3, F3m, F4.
    assert (Hu : forall t, used (y_server y) t -> used (publish_pre (y_server y) slot0 pcs) t) by (intros t; apply used_flags; reflexivity).
    assert (Efc : forall k, find_client (publish_pre (y_server y) slot0 pcs) k = find_client (y_server y) k) by (intros k; apply find_client_ext; reflexivity).
    destruct (N.eq_dec slot slot0) as [->|Hne].
    2:{ rewrite al_get_insert_other in Hc' by exact Hne.
        refine (slot_all_keep UP track _ _ _ _ slot _ _ _ _ c' c' [] (Hinv slot c' Hc') (tick_frames_mono script _) Hu _ eq_refl eq_refl eq_refl eq_refl eq_refl eq_refl _ _ _).
        - rewrite Efc. auto.
        - intros _. rewrite app_nil_r. reflexivity.
        - exists []. rewrite app_nil_r. apply Permutation_refl.
        - intros _. apply srv_facts_same; auto. apply N.le_refl. }
    rewrite al_get_insert_same in Hc'. inversion Hc'; subst c'. clear Hc'.
    destruct (Hinv slot0 cl Ec) as [A1 A2 A3].
    assert (HP : forall t, psiS (tick_frames script) (y_server y) slot0 t ->
                           psiS (tick_frames (script ++ [StCFrame slot0 ops])) (publish_pre (y_server y) slot0 pcs) slot0 t).
    { intros t. apply psiS_mono; [apply tick_frames_mono|exact Hu|rewrite Efc; auto]. }
    constructor.
    - apply (tk_ext _ _ cl' cl' _ _ (tk_frame _ cl _ ops cl' cfo A1 Efr) eq_refl); [intros m; apply HP|].
      exists []. rewrite app_nil_r. apply Permutation_refl.
    - intros Hn. apply A2. exact (frame_mticks_none cl ops cl' cfo Efr Hn).
    - intros Hc'. assert (Hcc : cl_status cl = Connected) by (rewrite <- (client_frame_status cl ops cl' cfo Efr); exact Hc').
      destruct (A3 Hcc) as [T1 T2].
      assert (HPsi : forall t, psiS (tick_frames script) (y_server y) slot0 t -> t < 2 ^ 31) by (intros t [X _]; lia).
      pose proof (Hframe cl cl' cfo _ _ _ eq_refl Efr Hcc HPsi T1) as T1'.
      destruct (frame_clears_inbox cl ops cl' cfo Hcc Efr) as [Ei _].
      split.
      + apply (tfacts_ext UP _ _ cl' cl' _ _ _ _ [] T1' HP); try reflexivity; [rewrite app_nil_r; reflexivity|auto].
      + rewrite Ei. cbn [app]. apply (srv_facts_same (y_server y) _ slot0 (cl_inbox_upd cl ++ l_upd (get_link y slot0))); auto.
        * apply N.le_refl.
        * intros u Hu0. apply in_or_app. right. exact Hu0.
        * intros E. apply app_eq_nil in E. exact (proj2 E).
  Qed.

  (* ---------- a server frame: what happens to the record of a slot ---------- *)
  Lemma server_frame_stopped c g tick dt (cleanup : bool) ops parts s' fo lt :
    ginv_v g -> forallb sop_ok ops = true -> upd_ticks_ok lt (g_srv g) -> sv_running (g_srv g) = false ->
    server_frame c (g_srv g) tick dt cleanup ops parts = Ok (s', fo) ->
    sv_clients s' = [] \/ (auth_sig s' = auth_sig (g_srv g) /\ upd_ticks_ok lt s').
  Proof.
    intros [Hok Hnd Hidle Hcl Hdom] Hops Hut Erun H. set (s := g_srv g) in *.
    unfold server_frame in H. change (sv_running (with_time_tick s tick dt)) with (sv_running s) in H. rewrite Erun in H.
    set (s1 := with_time_tick s tick dt) in *.
    assert (Hb1 : srv_base_v s1) by (apply (srv_base_v_ext s); try reflexivity; exact (proj1 Hok)).
    destruct (ops_any_v ops s1 Hb1 Hnd) as [Hb3 [Hfl3 Hsame3]]. cbv zeta in Hb3, Hfl3, Hsame3.
    set (s3 := fold_left apply_sop ops s1) in *.
    destruct Hfl3 as [G1 _]. change (sv_running s1) with (sv_running s) in G1. rewrite G1, Erun in H. cbn [bind] in H. injection H as <- _.
    destruct (sv_last_running s3); [left; reflexivity|right]. split.
    - exact (auth_sig_keep _ _ Hsame3).
    - apply (upd_ticks_same lt s3); [reflexivity|]. apply ops_upd_ticks; [exact Hops|]. apply (upd_ticks_same lt s); [reflexivity|exact Hut].
  Qed.

  Lemma sframe_records s gs tick dt (cleanup : bool) ops parts s' fo slot :
    ginv_v (mkG s gs) -> nomaps_srv s -> forallb sop_ok ops = true ->
    server_frame cfg0 s tick dt cleanup ops parts = Ok (s', fo) ->
    let nct := fun r => match upd_for slot (fo_clients fo) with Some u => u_tick u | None => ct_update_tick (sc_ticks r) end in
    (forall r', find_client s' slot = Some r' -> exists r, find_client s slot = Some r /\ sc_authorized r' = sc_authorized r /\
        (sc_authorized r = true -> ct_update_tick (sc_ticks r') = nct r)) /\
    (forall o1, In o1 (fo_clients fo) -> co_slot o1 = slot -> exists r, find_client s slot = Some r /\ sc_authorized r = true /\
        forall m', In m' (co_mutates o1) -> m_upd_tick m' = nct r).
  Proof.
    intros Hg Hnm Hops Ef nct. pose proof (gv_slots _ Hg) as Hnd. cbn [g_srv] in Hnd. set (outs := fo_clients fo) in *.
    destruct (server_frame_clients_v cfg0 (mkG s gs) tick dt cleanup ops parts s' fo Hg Hnm Hops Ef)
      as (_ & _ & _ & N4 & N5 & N6 & _ & N8). cbn [g_srv] in *. fold outs in N5, N6, N8.
    (* the update-tick table of the slot *)
    assert (Hlt : forall r, find_client s slot = Some r ->
              upd_ticks_ok (fun k => if k =? slot then Some (ct_update_tick (sc_ticks r)) else None) s).
    { intros r Hr cl0 Hin Ha t Hl. destruct (sc_slot cl0 =? slot) eqn:E; [|discriminate]. inversion Hl; subst t.
      pose proof (find_client_nodup s cl0 Hnd Hin) as H0. replace (sc_slot cl0) with slot in H0 by lia. congruence. }
    (* a record of the slot after the frame comes from one before, with the same authorization *)
    assert (Hauth : forall r', In r' (sv_clients s') -> sc_slot r' = slot -> auth_sig s' = auth_sig s ->
              exists r, find_client s slot = Some r /\ sc_authorized r' = sc_authorized r).
    { intros r' Hin Hs Esig. assert (H0 : In (slot, sc_authorized r') (auth_sig s')).
      { unfold auth_sig. apply in_map_iff. exists r'. split; [rewrite Hs; reflexivity|exact Hin]. }
      rewrite Esig in H0. unfold auth_sig in H0. apply in_map_iff in H0. destruct H0 as [cl0 [E Hin0]]. injection E as E1 E2.
      exists cl0. split; [rewrite <- E1; apply find_client_nodup; assumption|congruence]. }
    destruct (sv_running s) eqn:Er.
    - specialize (N4 eq_refl). split.
      + intros r' Hr'. apply find_client_in in Hr'. destruct Hr' as [Hin' Hs'].
        destruct (Hauth r' Hin' Hs' N4) as (r & Hr & Ea). exists r. split; [exact Hr|]. split; [exact Ea|]. intros Har.
        destruct (server_frame_muts_v cfg0 (mkG s gs) tick dt cleanup ops parts s' fo _ Hg (Hlt r Hr) Hops Ef) as [_ V2]. cbn [g_srv] in V2.
        assert (Ha' : sc_authorized r' = true) by congruence.
        specialize (V2 r' Hin' Ha' Er). rewrite Hs' in V2. fold outs in V2. unfold nct. fold outs.
        destruct (upd_for slot outs); [exact V2|]. apply V2. rewrite N.eqb_refl. reflexivity.
      + intros o1 Ho1 Eso. destruct (N6 o1 Ho1) as (cl' & Hin' & Hs' & Ha'). rewrite Eso in Hs'.
        destruct (Hauth cl' Hin' Hs' N4) as (r & Hr & Ea). exists r. split; [exact Hr|]. split; [congruence|]. intros m' Hm'.
        destruct (server_frame_muts_v cfg0 (mkG s gs) tick dt cleanup ops parts s' fo _ Hg (Hlt r Hr) Hops Ef) as [V1 _].
        fold outs in V1. destruct (V1 o1 m' Ho1 Hm') as (_ & G2 & _).
        pose proof (upd_for_of_out outs o1 N5 Ho1) as Eup. rewrite Eso in Eup. unfold nct. fold outs. rewrite Eup.
        destruct (co_update o1); [exact G2|]. apply G2. rewrite Eso, N.eqb_refl. reflexivity.
    - specialize (N8 eq_refl). split.
      + intros r' Hr'. apply find_client_in in Hr'. destruct Hr' as [Hin' Hs'].
        assert (Hne : sv_clients s' <> []) by (intros E; rewrite E in Hin'; destruct Hin').
        assert (Hsig : auth_sig s' = auth_sig s).
        { assert (Hut0 : upd_ticks_ok (fun _ => None) s) by (intros cl0 _ _ t Hl; discriminate).
          destruct (server_frame_stopped cfg0 (mkG s gs) tick dt cleanup ops parts s' fo (fun _ => None) Hg Hops Hut0 Er Ef) as [E|[E _]]; [congruence|exact E]. }
        destruct (Hauth r' Hin' Hs' Hsig) as (r & Hr & Ea). exists r. split; [exact Hr|]. split; [exact Ea|]. intros Har.
        destruct (server_frame_stopped cfg0 (mkG s gs) tick dt cleanup ops parts s' fo _ Hg Hops (Hlt r Hr) Er Ef) as [E|[_ Hut']]; [congruence|].
        unfold nct. fold outs. rewrite N8. cbn [upd_for find].
        apply (Hut' r' Hin'); [congruence|]. rewrite Hs', N.eqb_refl. reflexivity.
      + intros o1 Ho1. rewrite N8 in Ho1. destruct Ho1.
  Qed.

  (* what a server frame does, as far as the invariant is concerned (instances: `f_inv` / `g_inv`) *)
  Definition sframe_facts (script : list step) (y : sys) tick dt (cleanup : bool) ops parts : Prop :=
    y_cfg y = cfg0 /\ sv_tick (y_server y) <= tick_frames script /\ NoDup (map sc_slot (sv_clients (y_server y))) /\
    forall s' fo, server_frame cfg0 (y_server y) tick dt cleanup ops parts = Ok (s', fo) ->
      (forall slot, has_rec s' slot -> has_rec (y_server y) slot) /\
      NoDup (map co_slot (fo_clients fo)) /\
      (forall o, In o (fo_clients fo) -> has_auth s' (co_slot o)) /\
      (forall o u, In o (fo_clients fo) -> co_update o = Some u -> UP u /\ u_tick u = sv_tick s') /\
      forall slot,
        let nct := fun r => match upd_for slot (fo_clients fo) with Some u => u_tick u | None => ct_update_tick (sc_ticks r) end in
        (forall r', find_client s' slot = Some r' -> exists r, find_client (y_server y) slot = Some r /\ sc_authorized r' = sc_authorized r /\
            (sc_authorized r = true -> ct_update_tick (sc_ticks r') = nct r)) /\
        (forall o1, In o1 (fo_clients fo) -> co_slot o1 = slot -> exists r, find_client (y_server y) slot = Some r /\ sc_authorized r = true /\
            forall m', In m' (co_mutates o1) -> m_upd_tick m' = nct r).

  Lemma all_sframe script y tick dt (cleanup : bool) ops parts y' o :
    sframe_facts script y tick dt cleanup ops parts -> all_inv script y ->
    parts_small_step (StSFrame tick dt cleanup ops parts) = true ->
    tick_frames (script ++ [StSFrame tick dt cleanup ops parts]) < 2 ^ 31 ->
    sys_step y (StSFrame tick dt cleanup ops parts) = Ok (y', o) ->
    all_inv (script ++ [StSFrame tick dt cleanup ops parts]) y'.
  Proof.
    intros (Hcfg & Htk & Hnd & Hsf) Hinv Hps Hbound H.
    assert (Etf : tick_frames (script ++ [StSFrame tick dt cleanup ops parts]) = (if tick then tick_frames script + 1 else tick_frames script))
      by (rewrite tick_frames_snoc; destruct tick; reflexivity).
    rewrite Etf in Hbound.
    cbn [sys_step] in H. rewrite Hcfg in H. set (s := y_server y) in *.
    destruct (server_frame cfg0 s tick dt cleanup ops parts) as [[s' fo]| |] eqn:Ef; cbn [bind] in H; try discriminate.
    inversion H; subst y' o. clear H. set (outs := fo_clients fo) in *.
    destruct (Hsf s' fo eq_refl) as (N3 & N5 & N6 & N7 & Hrecs). fold outs in N5, N6, N7, Hrecs.
    destruct (server_frame_mt cfg0 s tick dt cleanup ops parts s' fo Hnd Ef) as (M1 & _ & M3 & _ & M5 & _ & M7). cbv zeta in M3, M5. fold outs in M5, M7.
    destruct (enqueue_fields outs (set_server y s')) as (_ & EQ2 & EQ3).
    pose proof Npow31 as P31. pose proof Npow32 as P32.
    set (t1 := if tick then tick_add (sv_tick s) 1 else sv_tick s) in *.
    assert (Ht1 : t1 = sv_tick s + (if tick then 1 else 0)).
    { unfold t1. destruct tick; [|lia]. unfold tick_add. apply N.mod_small. lia. }
    intros slot c Hc. rewrite EQ3 in Hc. cbn [set_server y_clients] in Hc. rewrite EQ2. cbn [set_server y_server].
    rewrite enqueue_lupd, enqueue_lmut. change (get_link (set_server y s') slot) with (get_link y slot).
    rewrite (updates_for_upd_for slot outs N5). rewrite Etf.
    destruct (Hrecs slot) as [RT MT]. cbv zeta in RT, MT.
    set (TB := tick_frames script) in *. set (TB' := if tick then TB + 1 else TB).
    destruct (Hinv slot c Hc) as [A1 A2 A3]. fold TB in A1, A3.
    assert (HTB : TB <= TB') by (unfold TB'; destruct tick; lia).
    assert (HTB' : TB' < 2 ^ 31) by (unfold TB'; destruct tick; lia).
    assert (Hrec : find_client s' slot <> None -> find_client s slot <> None).
    { intros Hr. apply has_rec_find. apply N3. apply has_rec_find. exact Hr. }
    assert (Htick : find_client s' slot <> None -> sv_tick s' = t1).
    { intros Hr. destruct M3 as [M3|(_ & M3 & _)]; [exact M3|]. exfalso. apply Hr. unfold find_client. rewrite M3. reflexivity. }
    assert (Hused : forall t, (find_client s slot <> None -> used s t) -> find_client s' slot <> None -> used s' t).
    { intros t Ht Hr. specialize (Ht (Hrec Hr)). unfold used in *. rewrite M1, (Htick Hr), Ht1. destruct (sv_dirty s), tick; lia. }
    assert (HP : forall t, psiS TB s slot t -> psiS TB' s' slot t).
    { intros t [X Y]. split; [lia|exact (Hused t Y)]. }
    assert (Hsent : forall o1, In o1 outs -> co_slot o1 = slot ->
              find_client s slot <> None /\ find_client s' slot <> None /\ sv_tick s' = t1 /\ (forall t, used s t -> t < t1) /\ t1 <= TB').
    { intros o1 Ho1 Eso. assert (Hne : outs <> []) by (intros E0; rewrite E0 in Ho1; destruct Ho1).
      destruct (M5 Hne) as (_ & Et & Hstr).
      assert (Hr' : find_client s' slot <> None).
      { apply has_rec_find. apply has_auth_rec. rewrite <- Eso. exact (N6 o1 Ho1). }
      split; [exact (Hrec Hr')|]. split; [exact Hr'|]. split; [exact Et|]. split.
      - intros t Ht. unfold used in Ht. rewrite Ht1. destruct Hstr as [->|Hd]; [destruct (sv_dirty s); lia|rewrite Hd in Ht; destruct tick; lia].
      - unfold TB'. rewrite Ht1. unfold TB. destruct tick; lia. }
    assert (Hnewm : forall m, In m (mutates_for slot outs) -> exists o1, In o1 outs /\ co_slot o1 = slot /\ In m (co_mutates o1) /\ m_tick m = t1).
    { intros m Hm. destruct (mutates_for_in slot outs m Hm) as (o1 & Ho1 & Eso & Hmo). exists o1. split; [exact Ho1|]. split; [exact Eso|]. split; [exact Hmo|].
      destruct (M7 slot m Hm) as (Q1 & _). destruct (Hsent o1 Ho1 Eso) as (_ & _ & Et & _). congruence. }
    assert (Hpsi1 : forall o1, In o1 outs -> co_slot o1 = slot -> psiS TB' s' slot t1).
    { intros o1 Ho1 Eso. destruct (Hsent o1 Ho1 Eso) as (_ & _ & Et & _ & Hle). split; [exact Hle|]. intros _. unfold used. rewrite M1, Et. lia. }
    assert (Hnt : forall m, In m (mutates_for slot outs) -> m_tick m = t1) by (intros m Hm; destruct (Hnewm m Hm) as (_ & _ & _ & _ & E); exact E).
    remember (upd_for slot outs) as ou eqn:Eu. symmetry in Eu.
    assert (Hou : forall u', ou = Some u' -> exists o1, In o1 outs /\ co_slot o1 = slot /\ UP u' /\ u_tick u' = t1).
    { intros u' E. subst ou. destruct (upd_for_in slot outs u' E) as (o1 & Ho1 & Eso & Eo1). destruct (N7 o1 u' Ho1 Eo1) as [X1 X2].
      destruct (Hsent o1 Ho1 Eso) as (_ & _ & Et & _). exists o1. repeat split; auto. congruence. }
    constructor.
    - (* the tracker *)
      intros m0 Em0. destruct (A1 m0 Em0) as (appl & bs & sent0 & rest & Erep & Hproto & Hsm & L).
      exists appl, bs, (sent0 ++ mutates_for slot outs), rest. split; [exact Erep|].
      assert (Htr : track = true) by (apply A2; congruence).
      assert (Hold : forall m1, In m1 (mutates_for slot outs) -> forall m, In m sent0 -> m_tick m < t1).
      { intros m1 Hm1 m Hm. destruct (Hnewm m1 Hm1) as (o1 & Ho1 & Eso & _).
        destruct (Hsent o1 Ho1 Eso) as (Hr & _ & _ & Hlt & _). destruct (Hsm m Hm) as [_ [_ Y]]. exact (Hlt _ (Y Hr)). }
      split.
      { intros m Hm. apply in_app_or in Hm. destruct Hm as [Hm|Hm].
        - destruct (Hproto m Hm) as (Q1 & Q2 & Q3). split; [exact Q1|]. split; [exact Q2|]. rewrite Q3, count_tick_app. f_equal.
          rewrite (count_tick_none (m_tick m) (mutates_for slot outs)); [lia|]. intros m2 Hm2. rewrite (Hnt m2 Hm2).
          pose proof (Hold m2 Hm2 m Hm). lia.
        - destruct (M7 slot m Hm) as (_ & Q2 & Q3 & Q4). split; [exact Q2|]. split; [apply Q4; exact Hps|]. rewrite Q3, Htr.
          rewrite count_tick_app, (Hnt m Hm), (count_tick_all t1 _ Hnt).
          rewrite (count_tick_none t1 sent0); [reflexivity|]. intros m1 Hm1. pose proof (Hold m Hm m1 Hm1). lia. }
      split.
      { intros m Hm. apply in_app_or in Hm. destruct Hm as [Hm|Hm].
        - destruct (Hsm m Hm) as [X Y]. split; [exact X|exact (HP _ Y)].
        - destruct (Hnewm m Hm) as (o1 & Ho1 & Eso & _ & Et). rewrite Et. pose proof (Hpsi1 o1 Ho1 Eso) as Y. split; [destruct Y; lia|exact Y]. }
      exact (perm_send _ _ _ _ _ _ _ L).
    - exact A2.
    - (* the tick facts *)
      intros Hcc. destruct (A3 Hcc) as [[Tw Tupd Tincr TU TM Tgate] Tsrv].
      set (P := cl_inbox_upd c ++ l_upd (get_link y slot)) in *.
      set (newu := match ou with Some u => [u] | None => [] end).
      assert (EP' : cl_inbox_upd c ++ l_upd (get_link y slot) ++ newu = P ++ newu) by (unfold P; rewrite app_assoc; reflexivity).
      rewrite EP'.
      assert (Hnewu : forall u, In u newu -> ou = Some u).
      { intros u Hu. unfold newu in Hu. destruct ou as [u'|]; [|destruct Hu]. destruct Hu as [<-|[]]. reflexivity. }
      assert (Hbnew : forall t, psiS TB s slot t -> below newu t).
      { intros t [_ Y] u Hu. destruct (Hou u (Hnewu u Hu)) as (o1 & Ho1 & Eso & _ & Et). rewrite Et.
        destruct (Hsent o1 Ho1 Eso) as (Hr & _ & _ & Hlt & _). exact (Hlt t (Y Hr)). }
      assert (Hbelow : forall t, psiS TB s slot t -> below P t -> below (P ++ newu) t).
      { intros t HT Hb u Hu. apply in_app_or in Hu. destruct Hu as [Hu|Hu]; [exact (Hb u Hu)|exact (Hbnew t HT u Hu)]. }
      (* the update tick of a message produced by this frame *)
      assert (Hmup : forall m, In m (mutates_for slot outs) ->
                (forall u, In u (P ++ newu) -> u_tick u <= m_upd_tick m) /\ m_upd_tick m < 2 ^ 31).
      { intros m Hm. destruct (Hnewm m Hm) as (o1 & Ho1 & Eso & Hmo & _). destruct (MT o1 Ho1 Eso) as (r & Hr & Har & Hup).
        rewrite (Hup m Hmo). specialize (Tsrv r Hr). rewrite Har in Tsrv. destruct Tsrv as [S1 S2].
        destruct (Hsent o1 Ho1 Eso) as (Hr0 & _ & _ & Hlt & Hle).
        destruct ou as [u'|] eqn:Eou.
        - destruct (Hou u' eq_refl) as (_ & _ & _ & _ & Et). rewrite Et. split; [|lia].
          intros u Hu. apply in_app_or in Hu. destruct Hu as [Hu|Hu].
          + destruct (TU u Hu) as [_ [_ Y]]. pose proof (Hlt _ (Y Hr0)). lia.
          + pose proof (Hnewu u Hu) as E. inversion E; subst u. lia.
        - split; [|unfold s in *; lia]. intros u Hu. apply in_app_or in Hu. destruct Hu as [Hu|Hu]; [exact (S1 u Hu)|].
          pose proof (Hnewu u Hu). discriminate. }
      split.
      + constructor; rewrite ?EP'.
        * destruct Tw as [W Hw]. exists W. revert Hw. apply cli_mono. intros t [X Y]. split; [exact (HP t X)|exact (Hbelow t X Y)].
        * destruct Tupd as [[D1 D2]|D]; [left; split; [exact (HP _ D1)|exact (Hbelow _ D1 D2)]|right; exact D].
        * assert (Hall : forall a u, In a P -> In u newu -> u_tick a < u_tick u).
          { intros a u Ha Hu. destruct (TU a Ha) as [_ X]. exact (Hbnew _ X u Hu). }
          unfold newu in *. destruct ou as [u'|]; [|rewrite app_nil_r; exact Tincr].
          apply ticks_incr_snoc; [exact Tincr|]. intros a Ha. apply Hall; [exact Ha|left; reflexivity].
        * intros u Hu. apply in_app_or in Hu. destruct Hu as [Hu|Hu]; [destruct (TU u Hu) as [X Y]; split; [exact X|exact (HP _ Y)]|].
          destruct (Hou u (Hnewu u Hu)) as (o1 & Ho1 & Eso & Em & Et). split; [exact Em|]. rewrite Et. exact (Hpsi1 o1 Ho1 Eso).
        * intros m Hm. rewrite <- app_assoc in Hm. apply in_app_or in Hm. destruct Hm as [Hm|Hm].
          -- destruct (TM m (in_or_app _ _ _ (or_introl Hm))) as [X Y]. split; [exact (HP _ X)|exact Y].
          -- apply in_app_or in Hm. destruct Hm as [Hm|Hm].
             ++ destruct (Hnewm m Hm) as (o1 & Ho1 & Eso & _ & Et). rewrite Et. split; [exact (Hpsi1 o1 Ho1 Eso)|exact (proj2 (Hmup m Hm))].
             ++ destruct (TM m (in_or_app _ _ _ (or_intror Hm))) as [X Y]. split; [exact (HP _ X)|exact Y].
        * intros m u Hm Hu. rewrite <- app_assoc in Hm. apply in_app_or in Hm.
          assert (Hcase : In m (l_mut (get_link y slot) ++ cl_inbox_mut c ++ cl_buffered c) \/ In m (mutates_for slot outs)).
          { destruct Hm as [Hm|Hm]; [left; apply in_or_app; left; exact Hm|]. apply in_app_or in Hm.
            destruct Hm as [Hm|Hm]; [right; exact Hm|left; apply in_or_app; right; exact Hm]. }
          destruct Hcase as [Hold|Hnew].
          -- apply in_app_or in Hu. destruct Hu as [Hu|Hu]; [exact (Tgate m u Hold Hu)|].
             right. destruct (TM m Hold) as [X _]. exact (Hbnew _ X u Hu).
          -- left. exact (proj1 (Hmup m Hnew) u Hu).
      + intros r' Hr'. destruct (RT r' Hr') as (r & Hr & Ea & Hct). specialize (Tsrv r Hr). rewrite Ea.
        assert (Hr'n : find_client s' slot <> None) by congruence.
        destruct (sc_authorized r) eqn:Ear.
        * destruct Tsrv as [S1 S2]. rewrite (Hct eq_refl). rewrite (Htick Hr'n).
          destruct ou as [u'|] eqn:Eou.
          -- destruct (Hou u' eq_refl) as (o1 & Ho1 & Eso & _ & Et). rewrite Et. split; [|lia].
             destruct (Hsent o1 Ho1 Eso) as (Hr0 & _ & _ & Hlt & _).
             intros u Hu. apply in_app_or in Hu. destruct Hu as [Hu|Hu].
             ++ destruct (TU u Hu) as [_ [_ Y]]. pose proof (Hlt _ (Y Hr0)). lia.
             ++ pose proof (Hnewu u Hu) as E. inversion E; subst u. lia.
          -- split; [|unfold s in *; lia]. intros u Hu. apply in_app_or in Hu. destruct Hu as [Hu|Hu]; [exact (S1 u Hu)|].
             pose proof (Hnewu u Hu). discriminate.
        * rewrite Tsrv. cbn [app]. unfold newu. destruct ou as [u'|] eqn:Eou; [|reflexivity]. exfalso.
          destruct (Hou u' eq_refl) as (o1 & Ho1 & Eso & _). destruct (MT o1 Ho1 Eso) as (r0 & Hr0 & Har0 & _). congruence.
  Qed.

  (* ---------- the invariant of a run ---------- *)
  Lemma all_init : all_inv [] (sys_init cfg0 nclients).
  Proof.
    intros slot c Hc. apply (al_get_init_clients cfg0 nclients) in Hc. subst c. rewrite (get_link_init cfg0 nclients slot). cbn [l_upd l_mut link_empty].
    constructor.
    - intros m0 Em0. cbn [client_init cl_mticks] in Em0. destruct track; [|discriminate]. inversion Em0; subst m0.
      exists [], [], [], []. split; [reflexivity|]. split; [intros m []|]. split; [intros m []|]. apply perm_nil.
    - cbn [client_init cl_mticks]. destruct track; congruence.
    - cbn [client_init cl_status]. discriminate.
  Qed.

End AllGen.

(* ================================================================== *)
(* 4. scripts without pre-spawn mappings (`script_okf`)               *)
(* ================================================================== *)

Section AllRun.
  Variables (cfg0 : cfg) (nclients : N).
  Notation track := (cfg_track cfg0).
  Notation all_inv := (all_inv cfg0 nomapsP).

  Lemma sframe_facts_f script y gs tick dt (cleanup : bool) ops parts :
    f_inv cfg0 nclients script y gs -> forallb sop_ok ops = true -> sframe_facts cfg0 nomapsP script y tick dt cleanup ops parts.
  Proof.
    intros [Hcfg Hg Hnm Htk Hslots] Hops. split; [exact Hcfg|]. split; [exact Htk|]. split; [exact (gv_slots _ Hg)|].
    intros s' fo Ef.
    destruct (server_frame_clients_v cfg0 (mkG (y_server y) gs) tick dt cleanup ops parts s' fo Hg Hnm Hops Ef) as (_ & _ & N3 & _ & N5 & N6 & N7 & _).
    cbn [g_srv] in *. split; [exact N3|]. split; [exact N5|]. split; [exact N6|]. split; [exact N7|].
    intros slot. exact (sframe_records cfg0 (y_server y) gs tick dt cleanup ops parts s' fo slot Hg Hnm Hops Ef).
  Qed.

  Theorem all_run script : forall y,
    script_okf script = true -> parts_small script = true -> tick_frames script < 2 ^ 31 ->
    run (sys_init cfg0 nclients) script = Ok y -> all_inv script y.
  Proof.
    induction script as [|st t IH] using rev_ind; intros y Hok Hps Hb H.
    - cbn in H. inversion H; subst. exact (all_init cfg0 nclients nomapsP).
    - destruct (okf_snoc t st Hok) as (Hok1 & L2 & M2 & S2).
      unfold parts_small in Hps. rewrite forallb_app in Hps. apply andb_prop in Hps. destruct Hps as [Hps1 Hps2].
      cbn [forallb] in Hps2. rewrite andb_true_r in Hps2.
      pose proof (tick_frames_mono t st) as Hmono.
      rewrite run_app in H. destruct (run (sys_init cfg0 nclients) t) as [y1| |] eqn:E1; cbn [bind] in H; try discriminate.
      cbn [run] in H. destruct (sys_step y1 st) as [[y2 o]| |] eqn:E2; cbn [bind] in H; try discriminate. inversion H; subst y. clear H.
      assert (Hb1 : tick_frames t < 2 ^ 31) by lia.
      pose proof (IH y1 Hok1 Hps1 Hb1 eq_refl) as Hall.
      destruct (run_erun_s t (sys_init cfg0 nclients) [] y1 E1) as [gs1 Eg].
      pose proof (f_run cfg0 nclients t y1 gs1 Hok1 Hb1 Eg) as Hf.
      destruct st as [| |slot max|slot|slot|tick dt cleanup ops parts|slot ops|slot s2c ch w|slot s2c ch w].
      + cbn [sys_step] in E2. inversion E2; subst y2 o. exact (all_start cfg0 nomapsP t y1 Hall).
      + exact (all_stop cfg0 nomapsP t y1 y2 o Hall E2).
      + refine (all_connect cfg0 nomapsP t y1 slot max y2 o _ _ Hall E2).
        * intros cl Hc Ef. pose proof (fi_slots _ _ _ _ _ Hf slot cl Hc) as [_ [_ Hfresh] _ Hmi]. split; [|exact Hfresh].
          destruct (status_dec cl) as [Hd|Hd]; [exact Hd|]. exfalso. destruct (mode_connect t slot max slot S2) as [_ Hpre].
          destruct (Hpre eq_refl) as [Hp|Hp]; rewrite Hp in Hmi; cbn [mode_inv] in Hmi.
          -- destruct Hmi as (A & _). congruence.
          -- destruct Hmi as (A & _). apply (proj2 A) in Hd. apply has_rec_find in Hd. congruence.
        * intros cl Hc Hd. destruct (run_mrun t (sys_init cfg0 nclients) mgs_empty y1 E1) as [G1 Em].
          destruct (mode_connect t slot max slot S2) as [_ Hpre].
          assert (Hmode : mode_of t slot = MClean \/ mode_of t slot = MLive /\ cl_status cl = Disconnected).
          { destruct (Hpre eq_refl) as [Hp|Hp]; [left; exact Hp|right; auto]. }
          destruct (run_clean_is_initial cfg0 nclients t y1 G1 slot cl (okf_sessions t Hok1) Hps1 Hb1 Em Hc Hmode) as (Hrs & _ & Hlm & Hlu & _).
          unfold repl_state in Hrs. cbn [client_init cl_status cl_last_connected cl_last_not_disconnected cl_upd_tick cl_s2c cl_c2s cl_buffered cl_mticks cl_inbox_upd cl_inbox_mut] in Hrs.
          injection Hrs as R1 R2 R3 R4 R5 R6 R7 R8 R9 R10. repeat split; assumption.
      + cbn [sys_step] in E2. inversion E2; subst y2 o. exact (all_authorize cfg0 nomapsP t y1 slot Hall).
      + exact (all_disconnect cfg0 nomapsP t y1 slot y2 o Hall E2).
      + exact (all_sframe cfg0 nomapsP t y1 tick dt cleanup ops parts y2 o (sframe_facts_f t y1 gs1 tick dt cleanup ops parts Hf M2) Hall Hps2 Hb E2).
      + refine (all_cframe cfg0 nomapsP t y1 slot ops y2 o Hb1 Hall _ E2).
        intros cl cl' cfo Psi lupd lmut _ Efr Hcc HPsi T1. exact (tfacts_frame Psi HPsi cl lupd lmut ops cl' cfo Hcc T1 Efr).
      + exact (all_transport cfg0 nomapsP t (StDeliver slot s2c ch w) y1 y2 o eq_refl L2 Hall E2).
      + exact (all_transport cfg0 nomapsP t (StDrop slot s2c ch w) y1 y2 o eq_refl L2 Hall E2).
  Qed.

  (* ---------- no panic ---------- *)
  Theorem frame_nopanic_all script y slot cl ops :
    all_inv script y -> tick_frames script < 2 ^ 31 ->
    al_get slot (y_clients y) = Some cl -> cl_status cl = Connected -> client_frame cl ops <> Panic.
  Proof.
    intros Hall Hb Ec Hcc. destruct (Hall slot cl Ec) as [A1 A2 A3]. destruct (A3 Hcc) as [T1 _].
    apply frame_nopanic; [exact Hcc| |exact (tk_nopanic _ cl _ A1)].
    apply (tfacts_inbox _ (fun t (H : psiS (tick_frames script) (y_server y) slot t) => N.le_lt_trans _ _ _ (proj1 H) Hb) cl _ _ T1).
  Qed.

  Theorem run_nopanic_all script :
    script_okf script = true -> parts_small script = true -> tick_frames script < 2 ^ 31 ->
    run (sys_init cfg0 nclients) script <> Panic.
  Proof.
    induction script as [|st t IH] using rev_ind; intros Hok Hps Hb; [cbn; discriminate|].
    destruct (okf_snoc t st Hok) as (Hok1 & L2 & M2 & S2).
    pose proof Hps as Hps0. unfold parts_small in Hps. rewrite forallb_app in Hps. apply andb_prop in Hps. destruct Hps as [Hps1 _].
    pose proof (tick_frames_mono t st) as Hmono. assert (Hb1 : tick_frames t < 2 ^ 31) by lia.
    rewrite run_app. pose proof (IH Hok1 Hps1 Hb1) as N1. pose proof (run_noerr t (sys_init cfg0 nclients)) as N2.
    destruct (run (sys_init cfg0 nclients) t) as [y1| |] eqn:E1; [|congruence|congruence]. cbn [bind run].
    destruct (sys_step y1 st) as [[y2 o]| |] eqn:E2; [cbn [bind]; discriminate|cbn [bind]; discriminate|]. exfalso.
    destruct (step_panic_source y1 st E2) as (slot & ops & cl & -> & Ec & Hcc & Hp).
    exact (frame_nopanic_all t y1 slot cl ops (all_run t y1 Hok1 Hps1 Hb1 E1) Hb1 Ec Hcc Hp).
  Qed.
End AllRun.
