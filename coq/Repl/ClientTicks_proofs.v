From RV Require Import Lib.Res Repl.ClientTicks.
From RV Require Generated.Params.
From Coq Require Import ZifyBool ZifyN.
Open Scope N_scope.
Ltac Zify.zify_post_hook ::= Z.div_mod_to_equations.
Arguments N.add : simpl never. Arguments N.mul : simpl never. Arguments N.pow : simpl never.
Arguments N.ltb : simpl never. Arguments N.leb : simpl never. Arguments N.div : simpl never.
Arguments N.modulo : simpl never. Arguments N.sub : simpl never. Arguments N.eqb : simpl never.

(* ---------- association lists ---------- *)

Lemma al_get_insert_same {V} k (v : V) l : al_get k (al_insert k v l) = Some v.
Proof.
  induction l as [|[k' v'] t IH]; cbn [al_insert al_get].
  - rewrite N.eqb_refl. reflexivity.
  - destruct (k' =? k) eqn:E; cbn [al_get]; [rewrite N.eqb_refl; reflexivity|rewrite E; exact IH].
Qed.

Lemma al_get_insert_other {V} k k' (v : V) l : k' <> k -> al_get k' (al_insert k v l) = al_get k' l.
Proof.
  intros Hne. induction l as [|[k0 v0] t IH]; cbn [al_insert al_get].
  - destruct (k =? k') eqn:E; [lia|reflexivity].
  - destruct (k0 =? k) eqn:E; cbn [al_get].
    + destruct (k =? k') eqn:E1; [lia|]. destruct (k0 =? k') eqn:E2; [lia|reflexivity].
    + destruct (k0 =? k'); [reflexivity|exact IH].
Qed.

Lemma al_get_remove_same {V} k (l : list (N * V)) : al_get k (al_remove k l) = None.
Proof.
  induction l as [|[k' v'] t IH]; cbn [al_remove al_get]; [reflexivity|].
  destruct (k' =? k) eqn:E; [exact IH|]. cbn [al_get]. rewrite E. exact IH.
Qed.

Lemma al_get_remove_other {V} k k' (l : list (N * V)) : k' <> k -> al_get k' (al_remove k l) = al_get k' l.
Proof.
  intros Hne. induction l as [|[k0 v0] t IH]; cbn [al_remove al_get]; [reflexivity|].
  destruct (k0 =? k) eqn:E.
  - destruct (k0 =? k') eqn:E2; [lia|exact IH].
  - cbn [al_get]. destruct (k0 =? k'); [reflexivity|exact IH].
Qed.

Lemma al_remove_absent {V} k (l : list (N * V)) : al_get k l = None -> al_remove k l = l.
Proof.
  induction l as [|[k' v'] t IH]; cbn [al_remove al_get]; [reflexivity|].
  destruct (k' =? k); [discriminate|]. intros H. rewrite IH; auto.
Qed.

Lemma al_keys_adjust {V} (f : V -> V) k l : al_keys (al_adjust f k l) = al_keys l.
Proof.
  unfold al_keys. induction l as [|[k' v'] t IH]; cbn [al_adjust map fst]; [reflexivity|].
  destruct (k' =? k); cbn [map fst]; [reflexivity|rewrite IH; reflexivity].
Qed.

Lemma al_get_adjust_same {V} (f : V -> V) k l : al_get k (al_adjust f k l) = option_map f (al_get k l).
Proof.
  induction l as [|[k' v'] t IH]; cbn [al_adjust al_get]; [reflexivity|].
  destruct (k' =? k) eqn:E; cbn [al_get]; rewrite E; [reflexivity|exact IH].
Qed.

Lemma al_get_adjust_other {V} (f : V -> V) k k' l : k' <> k -> al_get k' (al_adjust f k l) = al_get k' l.
Proof.
  intros Hne. induction l as [|[k0 v0] t IH]; cbn [al_adjust al_get]; [reflexivity|].
  destruct (k0 =? k) eqn:E; cbn [al_get].
  - destruct (k0 =? k') eqn:E2; [lia|reflexivity].
  - destruct (k0 =? k'); [reflexivity|exact IH].
Qed.

Lemma al_adjust_absent {V} (f : V -> V) k l : al_get k l = None -> al_adjust f k l = l.
Proof.
  induction l as [|[k' v'] t IH]; cbn [al_adjust al_get]; [reflexivity|].
  destruct (k' =? k); [discriminate|]. intros H. rewrite IH; auto.
Qed.

Lemma al_get_none_keys {V} k (l : list (N * V)) : al_get k l = None <-> ~ In k (al_keys l).
Proof.
  unfold al_keys. induction l as [|[k' v'] t IH]; cbn [al_get map fst In]; [tauto|].
  destruct (k' =? k) eqn:E.
  - split; [discriminate|]. intros H. exfalso. apply H. left. lia.
  - rewrite IH. split; [intros H [H1|H1]; [lia|tauto]|tauto].
Qed.

Lemma al_keys_insert_present {V} k (v v0 : V) l : al_get k l = Some v0 -> al_keys (al_insert k v l) = al_keys l.
Proof.
  unfold al_keys. induction l as [|[k' v'] t IH]; cbn [al_get al_insert map fst]; [discriminate|].
  destruct (k' =? k) eqn:E; cbn [map fst].
  - intros _. f_equal. lia.
  - intros H. rewrite IH; auto.
Qed.

Lemma al_keys_insert_in {V} k k' (v : V) l : In k' (al_keys (al_insert k v l)) -> k' = k \/ In k' (al_keys l).
Proof.
  unfold al_keys. induction l as [|[k0 v0] t IH]; cbn [al_insert map fst In].
  - intros [H|[]]; auto.
  - destruct (k0 =? k) eqn:E; cbn [map fst In].
    + intros [H|H]; auto.
    + intros [H|H]; auto. destruct (IH H); auto.
Qed.

Lemma al_insert_nodup {V} k (v : V) l : NoDup (al_keys l) -> NoDup (al_keys (al_insert k v l)).
Proof.
  induction l as [|[k0 v0] t IH]; cbn [al_insert]; intros Hnd.
  - unfold al_keys; cbn. constructor; [intros []|constructor].
  - unfold al_keys in *. cbn [map fst] in Hnd. inversion Hnd as [|? ? Hnin Hnd']; subst.
    destruct (k0 =? k) eqn:E; cbn [map fst].
    + assert (k0 = k) by lia; subst. constructor; assumption.
    + constructor; [|apply IH; assumption].
      intros Hin. destruct (al_keys_insert_in _ _ _ _ Hin) as [H|H]; [lia|]. exact (Hnin H).
Qed.

Lemma al_keys_remove_in {V} k k' (l : list (N * V)) : In k' (al_keys (al_remove k l)) -> In k' (al_keys l).
Proof.
  unfold al_keys. induction l as [|[k0 v0] t IH]; cbn [al_remove map fst In]; [tauto|].
  destruct (k0 =? k); cbn [map fst In]; [auto|]. intros [H|H]; auto.
Qed.

Lemma al_remove_nodup {V} k (l : list (N * V)) : NoDup (al_keys l) -> NoDup (al_keys (al_remove k l)).
Proof.
  induction l as [|[k0 v0] t IH]; cbn [al_remove]; intros Hnd; [exact Hnd|].
  unfold al_keys in *. cbn [map fst] in Hnd. inversion Hnd as [|? ? Hnin Hnd']; subst.
  destruct (k0 =? k); [apply IH; assumption|]. cbn [map fst]. constructor; [|apply IH; assumption].
  intros Hin. apply Hnin. exact (al_keys_remove_in _ _ _ Hin).
Qed.

Lemma al_filter_nodup {V} (p : N * V -> bool) l : NoDup (al_keys l) -> NoDup (al_keys (filter p l)).
Proof.
  unfold al_keys. induction l as [|kv t IH]; cbn [filter map]; intros Hnd; [exact Hnd|].
  inversion Hnd as [|? ? Hnin Hnd']; subst.
  destruct (p kv); [|apply IH; assumption]. cbn [map]. constructor; [|apply IH; assumption].
  intros Hin. apply Hnin. apply in_map_iff in Hin. destruct Hin as [x [Hx Hin]].
  apply in_map_iff. exists x. split; [exact Hx|]. apply filter_In in Hin. tauto.
Qed.

(* ---------- Tick::is_newer_than ---------- *)

Lemma max_change_age_value : MAX_CHANGE_AGE = 3258167296.
Proof. reflexivity. Qed.

Lemma tick_is_newer_than_age self last_run this_run :
  tick_is_newer_than self last_run this_run = (tick_age this_run self <? tick_age this_run last_run).
Proof. reflexivity. Qed.

Lemma tick_is_newer_than_irrefl t this_run : tick_is_newer_than t t this_run = false.
Proof. unfold tick_is_newer_than. lia. Qed.

Lemma tick_age_bound this_run t : tick_age this_run t <= MAX_CHANGE_AGE.
Proof. unfold tick_age. lia. Qed.

(* the stamp written by an acknowledgement is never older (w.r.t. the running system's tick)
   than the stamp it replaces *)
Lemma ack_stamp_cases info_tick this_run t :
  (ack_stamp info_tick this_run t = t /\ tick_is_newer_than t info_tick this_run = true) \/
  (ack_stamp info_tick this_run t = info_tick /\ tick_is_newer_than t info_tick this_run = false).
Proof. unfold ack_stamp. destruct (tick_is_newer_than t info_tick this_run); cbn [negb]; auto. Qed.

Lemma ack_stamp_age info_tick this_run t :
  tick_age this_run (ack_stamp info_tick this_run t) <= tick_age this_run t.
Proof.
  destruct (ack_stamp_cases info_tick this_run t) as [[-> _]|[-> H]]; [lia|].
  unfold tick_is_newer_than in H. lia.
Qed.

Lemma ack_stamp_not_older info_tick this_run t :
  tick_is_newer_than t (ack_stamp info_tick this_run t) this_run = false.
Proof. pose proof (ack_stamp_age info_tick this_run t). unfold tick_is_newer_than. lia. Qed.

Lemma ack_stamp_idem info_tick this_run t :
  ack_stamp info_tick this_run (ack_stamp info_tick this_run t) = ack_stamp info_tick this_run t.
Proof.
  destruct (ack_stamp_cases info_tick this_run t) as [[E H]|[E H]]; rewrite E.
  - exact E.
  - unfold ack_stamp. rewrite tick_is_newer_than_irrefl. reflexivity.
Qed.

(* ---------- the entity loop of ack_mutate_message ---------- *)

Lemma ack_fold_keys info_tick this_run ents ticks :
  al_keys (fold_left (ack_entity info_tick this_run) ents ticks) = al_keys ticks.
Proof.
  revert ticks; induction ents as [|e t IH]; intros ticks; cbn [fold_left]; [reflexivity|].
  rewrite IH. unfold ack_entity. apply al_keys_adjust.
Qed.

Lemma ack_fold_get info_tick this_run ents ticks e :
  al_get e (fold_left (ack_entity info_tick this_run) ents ticks) =
  if existsb (N.eqb e) ents then option_map (ack_stamp info_tick this_run) (al_get e ticks) else al_get e ticks.
Proof.
  revert ticks; induction ents as [|a t IH]; intros ticks; cbn [fold_left existsb]; [reflexivity|].
  rewrite IH. unfold ack_entity. destruct (e =? a) eqn:E; cbn [orb].
  - assert (e = a) by lia; subst a. rewrite al_get_adjust_same.
    destruct (al_get e ticks) as [v|]; cbn [option_map]; [|destruct (existsb _ t); reflexivity].
    rewrite ack_stamp_idem. destruct (existsb _ t); reflexivity.
  - rewrite al_get_adjust_other by lia. reflexivity.
Qed.

(* ---------- ack_mutate_message ---------- *)

Lemma ack_unknown_identity ct this_run idx :
  al_get idx (ct_mutations ct) = None -> ack_mutate_message ct this_run idx = ct.
Proof. unfold ack_mutate_message. intros ->. reflexivity. Qed.

(* everything except the stamps and the acked entry is untouched *)
Lemma ack_frame ct this_run idx :
  let ct' := ack_mutate_message ct this_run idx in
  ct_update_tick ct' = ct_update_tick ct /\
  ct_mutate_index ct' = ct_mutate_index ct /\
  al_keys (ct_mutation_ticks ct') = al_keys (ct_mutation_ticks ct) /\
  ct_mutations ct' = al_remove idx (ct_mutations ct).
Proof.
  unfold ack_mutate_message. destruct (al_get idx (ct_mutations ct)) as [info|] eqn:E; cbn [ct_update_tick ct_mutate_index ct_mutation_ticks ct_mutations].
  - repeat split; auto. apply ack_fold_keys.
  - repeat split; auto. symmetry. apply al_remove_absent. exact E.
Qed.

Lemma ack_entry_removed ct this_run idx :
  al_get idx (ct_mutations (ack_mutate_message ct this_run idx)) = None.
Proof. destruct (ack_frame ct this_run idx) as (_ & _ & _ & ->). apply al_get_remove_same. Qed.

Lemma ack_other_entries ct this_run idx idx' : idx' <> idx ->
  al_get idx' (ct_mutations (ack_mutate_message ct this_run idx)) = al_get idx' (ct_mutations ct).
Proof. intros H. destruct (ack_frame ct this_run idx) as (_ & _ & _ & ->). apply al_get_remove_other. exact H. Qed.

(* exact effect on every stamp *)
Lemma ack_stamps ct this_run idx e :
  mutation_tick (ack_mutate_message ct this_run idx) e =
  match al_get idx (ct_mutations ct) with
  | None => mutation_tick ct e
  | Some info =>
    if existsb (N.eqb e) (mi_entities info)
    then option_map (ack_stamp (mi_tick info) this_run) (mutation_tick ct e)
    else mutation_tick ct e
  end.
Proof.
  unfold ack_mutate_message, mutation_tick. destruct (al_get idx (ct_mutations ct)) as [info|]; [|reflexivity].
  cbn [ct_mutation_ticks]. apply ack_fold_get.
Qed.

(* only entities listed in the acked entry can change *)
Lemma ack_only_listed ct this_run idx info e :
  al_get idx (ct_mutations ct) = Some info -> ~ In e (mi_entities info) ->
  mutation_tick (ack_mutate_message ct this_run idx) e = mutation_tick ct e.
Proof.
  intros Hi Hn. rewrite ack_stamps, Hi.
  destruct (existsb (N.eqb e) (mi_entities info)) eqn:Ex; [|reflexivity].
  apply existsb_exists in Ex. destruct Ex as [x [Hx Hex]]. assert (e = x) by lia. subst x. contradiction.
Qed.

(* stamps never move backwards: an untracked entity stays untracked, a tracked one keeps a stamp
   whose age (relative to the receiving system's tick, clamped as Bevy does) does not grow *)
Lemma ack_monotone ct this_run idx e :
  match mutation_tick ct e with
  | None => mutation_tick (ack_mutate_message ct this_run idx) e = None
  | Some t => exists t', mutation_tick (ack_mutate_message ct this_run idx) e = Some t' /\
                         tick_age this_run t' <= tick_age this_run t /\
                         tick_is_newer_than t t' this_run = false
  end.
Proof.
  rewrite ack_stamps.
  destruct (mutation_tick ct e) as [t|] eqn:Et.
  - destruct (al_get idx (ct_mutations ct)) as [info|].
    + destruct (existsb (N.eqb e) (mi_entities info)); cbn [option_map].
      * eexists; split; [reflexivity|]. split; [apply ack_stamp_age|apply ack_stamp_not_older].
      * exists t. split; [reflexivity|]. split; [lia|apply tick_is_newer_than_irrefl].
    + exists t. split; [reflexivity|]. split; [lia|apply tick_is_newer_than_irrefl].
  - destruct (al_get idx (ct_mutations ct)) as [info|]; [|reflexivity].
    destruct (existsb (N.eqb e) (mi_entities info)); reflexivity.
Qed.

(* ---------- representation invariant ---------- *)

Lemma ct_default_wf : ct_wf ct_default.
Proof. unfold ct_wf, ct_default, al_keys; cbn. repeat split; try constructor. Qed.

Lemma ack_wf ct this_run idx : ct_wf ct -> ct_wf (ack_mutate_message ct this_run idx).
Proof.
  intros (H1 & H2 & H3). destruct (ack_frame ct this_run idx) as (_ & Ei & Ek & Em).
  unfold ct_wf. rewrite Ei, Ek, Em. repeat split; auto. apply al_remove_nodup. exact H2.
Qed.

Lemma register_wf ct tick ts : ct_wf ct -> ct_wf (fst (register_mutate_message ct tick ts)).
Proof.
  intros (H1 & H2 & H3). unfold register_mutate_message, ct_wf; cbn [fst ct_mutation_ticks ct_mutations ct_mutate_index].
  repeat split; auto; [apply al_insert_nodup; exact H2|]. change (2 ^ 16) with 65536. lia.
Qed.

Lemma add_entities_wf ct idx ents : ct_wf ct -> ct_wf (add_entities ct idx ents).
Proof.
  intros (H1 & H2 & H3). unfold add_entities, ct_wf; cbn [ct_mutation_ticks ct_mutations ct_mutate_index].
  rewrite al_keys_adjust. auto.
Qed.

Lemma set_mutation_tick_wf ct e t : ct_wf ct -> ct_wf (set_mutation_tick ct e t).
Proof.
  intros (H1 & H2 & H3). unfold set_mutation_tick, ct_wf; cbn [ct_mutation_ticks ct_mutations ct_mutate_index].
  repeat split; auto. apply al_insert_nodup. exact H1.
Qed.

Lemma remove_entity_wf ct e : ct_wf ct -> ct_wf (remove_entity ct e).
Proof.
  intros (H1 & H2 & H3). unfold remove_entity, ct_wf; cbn [ct_mutation_ticks ct_mutations ct_mutate_index].
  repeat split; auto. apply al_remove_nodup. exact H1.
Qed.

Lemma cleanup_wf ct ts : ct_wf ct -> ct_wf (cleanup_older_mutations ct ts).
Proof.
  intros (H1 & H2 & H3). unfold cleanup_older_mutations, ct_wf; cbn [ct_mutation_ticks ct_mutations ct_mutate_index].
  repeat split; auto. apply al_filter_nodup. exact H2.
Qed.

(* ---------- the other operations, as lookups ---------- *)

Lemma register_spec ct tick ts :
  let '(ct', idx) := register_mutate_message ct tick ts in
  idx = ct_mutate_index ct /\
  ct_mutate_index ct' = (idx + 1) mod 2 ^ 16 /\
  al_get idx (ct_mutations ct') = Some (mkMI tick ts []) /\
  (forall i, i <> idx -> al_get i (ct_mutations ct') = al_get i (ct_mutations ct)) /\
  ct_mutation_ticks ct' = ct_mutation_ticks ct /\ ct_update_tick ct' = ct_update_tick ct.
Proof.
  unfold register_mutate_message; cbn [ct_mutate_index ct_mutations ct_mutation_ticks ct_update_tick].
  repeat split; auto; [apply al_get_insert_same|]. intros i Hi. apply al_get_insert_other. exact Hi.
Qed.

Lemma set_get_mutation_tick ct e t e' :
  mutation_tick (set_mutation_tick ct e t) e' = if e' =? e then Some t else mutation_tick ct e'.
Proof.
  unfold mutation_tick, set_mutation_tick; cbn [ct_mutation_ticks].
  destruct (e' =? e) eqn:E.
  - assert (e' = e) by lia; subst. apply al_get_insert_same.
  - apply al_get_insert_other. lia.
Qed.

Lemma remove_get_mutation_tick ct e e' :
  mutation_tick (remove_entity ct e) e' = if e' =? e then None else mutation_tick ct e'.
Proof.
  unfold mutation_tick, remove_entity; cbn [ct_mutation_ticks].
  destruct (e' =? e) eqn:E.
  - assert (e' = e) by lia; subst. apply al_get_remove_same.
  - apply al_get_remove_other. lia.
Qed.

Lemma al_get_filter {V} (p : V -> bool) (l : list (N * V)) i : NoDup (al_keys l) ->
  al_get i (filter (fun kv => p (snd kv)) l) =
  match al_get i l with Some v => if p v then Some v else None | None => None end.
Proof.
  unfold al_keys. induction l as [|[k v] t IH]; cbn [filter al_get map fst snd]; intros Hnd; [reflexivity|].
  inversion Hnd as [|? ? Hnin Hnd']; subst. specialize (IH Hnd').
  destruct (k =? i) eqn:E.
  - assert (k = i) by lia; subst k. apply (proj2 (al_get_none_keys i t)) in Hnin.
    rewrite Hnin in IH. destruct (p v); cbn [al_get]; [rewrite N.eqb_refl; reflexivity|exact IH].
  - destruct (p v); cbn [al_get]; [rewrite E|]; exact IH.
Qed.

(* `cleanup_older_mutations` forgets exactly the in-flight messages older than [min_timestamp] *)
Lemma cleanup_spec ct min_timestamp i : ct_wf ct ->
  al_get i (ct_mutations (cleanup_older_mutations ct min_timestamp)) =
  match al_get i (ct_mutations ct) with
  | Some info => if mi_timestamp info <? min_timestamp then None else Some info
  | None => None
  end.
Proof.
  intros (_ & H2 & _). unfold cleanup_older_mutations; cbn [ct_mutations].
  rewrite (al_get_filter (fun info => negb (mi_timestamp info <? min_timestamp))) by exact H2.
  destruct (al_get i (ct_mutations ct)) as [info|]; [|reflexivity].
  destruct (mi_timestamp info <? min_timestamp); reflexivity.
Qed.

(* width of MutateIndex (the model wraps at 2^16): re-read from the source on every run *)
Lemma mutate_index_width_pinned : RV.Generated.Params.mutate_index_width = 16.
Proof. reflexivity. Qed.
