(* C12 end to end, H2 (a), server side: all mutate messages `send_for_client` produces for one client in one
   frame carry the tick of the frame and, with tracking, the same `m_count`, equal to their number - for EVERY
   partition the oracle proposes (valid or not: an invalid one is replaced by the fallback partition).
   Also: what a server frame does to the tick, the dirty flag and the client records (slots), used by the
   run invariant of Repl/MtRun_proofs.v. *)
From RV Require Import Lib.Res Repl.ClientTicks Repl.ClientTicks_proofs Repl.World Vis.Visibility
  Tick.RepliconTick Tick.RepliconTick_proofs
  Repl.Server Repl.ServerSpec Repl.Server_proofs Repl.Client Repl.Sys Repl.Client_proofs
  Repl.StructE2EMut_proofs.
From Coq Require Import ZifyBool ZifyN.
From RV Require Import Tick.ConfirmHistory_proofs.
Open Scope N_scope.
Ltac Zify.zify_post_hook ::= Z.div_mod_to_equations.
Arguments N.add : simpl never. Arguments N.mul : simpl never. Arguments N.pow : simpl never.
Arguments N.ltb : simpl never. Arguments N.leb : simpl never. Arguments N.div : simpl never.
Arguments N.modulo : simpl never. Arguments N.sub : simpl never. Arguments N.eqb : simpl never.

(* ================================================================== *)
(* 1. one client                                                      *)
(* ================================================================== *)

Theorem sfc_counts c s this_run cl p cl' out :
  send_for_client c s this_run cl p = Ok (cl', out) ->
  co_slot out = sc_slot cl /\
  forall m, In m (co_mutates out) ->
    m_tick m = sv_tick s /\ m_count m <> 0 /\
    m_count m = (if cfg_track c then N.of_nat (length (co_mutates out)) else 1) /\
    (N.of_nat (length p) < 2 ^ 64 -> m_count m < 2 ^ 64).
Proof.
  intros H. apply sfc_result in H. destruct H as [_ ->]. cbn [co_slot co_mutates]. split; [reflexivity|].
  intros m Hm. pose proof Hm as Hm0. apply mut_msgs_header in Hm. destruct Hm as (_ & H2 & H3 & _).
  rewrite mut_msgs_length. split; [exact H2|].
  assert (Hb : N.of_nat (length p) < 2 ^ 64 -> m_count m < 2 ^ 64).
  { intros Hp. rewrite H3. rewrite Npow64 in *. destruct (cfg_track c) eqn:Et; [|lia].
    unfold sfc_parts. rewrite Et. destruct (sfc_bad c s this_run cl p); [|exact Hp].
    destruct (mutated_set s this_run cl); cbn [length]; lia. }
  split; [|split; [exact H3|exact Hb]].
  rewrite H3. destruct (cfg_track c); [|discriminate].
  assert (Hl : length (sfc_parts c s this_run cl p) <> 0%nat).
  { intros E. rewrite <- (mut_msgs_length true (sv_tick s) (ct_update_tick (sfc_ticks3 s this_run cl))
                           (N.of_nat (length (sfc_parts c s this_run cl p))) (mutated_set s this_run cl)
                           (ct_mutate_index (sc_ticks cl))) in E.
    destruct (mut_msgs true _ _ _ _ _ _); [destruct Hm0|discriminate]. }
  lia.
Qed.

(* with tracking there is at least one mutate message per client and frame (an empty one when nothing mutated) *)
Theorem sfc_tracking_sends c s this_run cl p cl' out :
  cfg_track c = true -> send_for_client c s this_run cl p = Ok (cl', out) -> co_mutates out <> [].
Proof.
  intros Ht H. apply sfc_result in H. destruct H as [_ ->]. cbn [co_mutates]. intros E.
  apply (f_equal (@length _)) in E. rewrite mut_msgs_length in E. cbn [length] in E.
  unfold sfc_parts, sfc_bad in E. rewrite Ht in E.
  destruct (partition_ok true (mutated_set s this_run cl) p) eqn:Eok; cbn [negb] in E.
  - apply partition_ok_spec in Eok. destruct Eok as (_ & _ & _ & Hnil & Hne).
    destruct (mutated_set s this_run cl) as [|a t] eqn:Em.
    + rewrite (Hnil eq_refl) in E. discriminate.
    + destruct (Hne ltac:(discriminate)) as (fr & la & -> & _). rewrite app_length in E. cbn in E. lia.
  - destruct (mutated_set s this_run cl); discriminate.
Qed.

(* ================================================================== *)
(* 2. the slots of the records                                        *)
(* ================================================================== *)

Definition slots_of (s : server) : list N := map sc_slot (sv_clients s).

Lemma update_client_slots s cnew : slots_of (update_client s cnew) = slots_of s.
Proof.
  unfold slots_of, update_client, set_clients. cbn [sv_clients]. rewrite map_map. apply map_ext_in.
  intros a _. destruct (sc_slot a =? sc_slot cnew) eqn:E; [lia|reflexivity].
Qed.

Lemma apply_sop_slots s op : slots_of (apply_sop s op) = slots_of s.
Proof.
  destruct op as [e mk comps|e|e k v|e k|e k v|e|e|slot e vis|slot e pc]; cbn [apply_sop].
  - destruct (get_ent s e); reflexivity.
  - destruct (get_ent s e) as [x|]; [|reflexivity]. destruct (se_alive x); [|reflexivity].
    destruct (se_marker x); [|reflexivity]. unfold buffer_despawn. cbn [sv_running set_ent]. destruct (sv_running s); reflexivity.
  - destruct (get_ent s e) as [x|]; [|reflexivity]. destruct (se_alive x && val_ok s v); reflexivity.
  - destruct (get_ent s e) as [x|]; [|reflexivity]. destruct (se_alive x); [|reflexivity].
    destruct (al_get k (se_comps x)); reflexivity.
  - destruct (get_ent s e) as [x|]; [|reflexivity]. destruct (se_alive x && val_ok s v); [|reflexivity].
    destruct (al_get k (se_comps x)); reflexivity.
  - destruct (get_ent s e) as [x|]; [|reflexivity]. destruct (se_alive x); [|reflexivity]. destruct (se_marker x); reflexivity.
  - destruct (get_ent s e) as [x|]; [|reflexivity]. destruct (se_alive x); [|reflexivity].
    destruct (se_marker x); [|reflexivity]. unfold buffer_despawn. cbn [sv_running set_ent]. destruct (sv_running s); reflexivity.
  - destruct (find_client s slot) as [c|]; [|reflexivity]. destruct (get_ent s e); [|reflexivity].
    destruct (sc_vis c); [|reflexivity]. apply update_client_slots.
  - destruct (find_client s slot) as [c|]; [|reflexivity]. destruct (get_ent s e); [|reflexivity].
    destruct (sc_authorized c && _); [|reflexivity]. apply update_client_slots.
Qed.

Lemma ops_slots ops : forall s, slots_of (fold_left apply_sop ops s) = slots_of s.
Proof. induction ops as [|op t IH]; intros s; cbn [fold_left]; [reflexivity|]. rewrite IH. apply apply_sop_slots. Qed.

Lemma receive_acks_slots s : slots_of (receive_acks s) = slots_of s.
Proof.
  unfold slots_of, receive_acks. cbn [sv_clients].
  generalize (sv_clients s) as cls. induction (sv_inbox_acks s) as [|[slot idxs] t IH]; intros cls; cbn [fold_left]; [reflexivity|].
  rewrite IH. rewrite map_map. apply map_ext. intros a. destruct (_ && _); reflexivity.
Qed.

Lemma cleanup_acks_slots c s : slots_of (cleanup_acks c s) = slots_of s.
Proof. unfold slots_of, cleanup_acks, set_clients. cbn [sv_clients]. rewrite map_map. reflexivity. Qed.

Lemma find_client_slots s slot : find_client s slot <> None <-> In slot (slots_of s).
Proof.
  unfold find_client, slots_of. induction (sv_clients s) as [|a t IH]; cbn [find map In]; [split; [congruence|intros []]|].
  destruct (sc_slot a =? slot) eqn:E.
  - split; [intros _; left; lia|discriminate].
  - rewrite IH. split; [auto|intros [H|H]; [lia|exact H]].
Qed.

Lemma find_client_none_slots s slot : find_client s slot = None <-> ~ In slot (slots_of s).
Proof.
  rewrite <- find_client_slots. destruct (find_client s slot); split; try congruence. intros H. exfalso. apply H. discriminate.
Qed.

(* ================================================================== *)
(* 3. one server frame                                                *)
(* ================================================================== *)

Lemma mutates_for_nodup slot outs : NoDup (map co_slot outs) ->
  mutates_for slot outs = [] \/ exists o, In o outs /\ co_slot o = slot /\ mutates_for slot outs = co_mutates o.
Proof.
  unfold mutates_for. induction outs as [|o t IH]; intros Hnd; [left; reflexivity|]. cbn [map] in Hnd.
  inversion Hnd as [|? ? Hnin Hnd']; subst. cbn [flat_map]. destruct (co_slot o =? slot) eqn:E.
  - assert (Et : flat_map (fun o0 => if co_slot o0 =? slot then co_mutates o0 else []) t = []).
    { clear IH Hnd Hnd'. induction t as [|o1 t IH]; [reflexivity|]. cbn [flat_map].
      destruct (co_slot o1 =? slot) eqn:E1.
      + exfalso. apply Hnin. left. lia.
      + cbn [app]. apply IH. intros Hin. apply Hnin. right. exact Hin. }
    rewrite Et, app_nil_r. right. exists o. split; [left; reflexivity|]. split; [lia|reflexivity].
  - cbn [app]. destruct (IH Hnd') as [H|(o1 & H1 & H2 & H3)]; [left; exact H|].
    right. exists o1. split; [right; exact H1|]. split; [exact H2|exact H3].
Qed.

Lemma outs_of_slots c s parts :
  map co_slot (outs_of (map (client_result_pure c s parts) (sv_clients s))) =
  map sc_slot (filter sc_authorized (sv_clients s)).
Proof.
  unfold outs_of. induction (sv_clients s) as [|cl t IH]; [reflexivity|]. cbn [map flat_map filter].
  unfold client_result_pure at 1. destruct (sc_authorized cl) eqn:Ea; cbn [snd app map].
  - rewrite IH. reflexivity.
  - exact IH.
Qed.

Lemma NoDup_map_filter {A B} (f : A -> B) (p : A -> bool) l : NoDup (map f l) -> NoDup (map f (filter p l)).
Proof.
  induction l as [|a t IH]; intros H; [exact H|]. cbn [map] in H. inversion H as [|? ? Hn Hd]; subst.
  cbn [filter]. destruct (p a); [|exact (IH Hd)]. cbn [map]. constructor; [|exact (IH Hd)].
  intros Hin. apply Hn. apply in_map_iff in Hin. destruct Hin as [x [E Hx]]. apply filter_In in Hx.
  apply in_map_iff. exists x. split; [exact E|exact (proj1 Hx)].
Qed.

Lemma result_slots c s parts :
  map sc_slot (map fst (map (client_result_pure c s parts) (sv_clients s))) = map sc_slot (sv_clients s).
Proof.
  rewrite !map_map. apply map_ext_in. intros cl _. unfold client_result_pure.
  destruct (sc_authorized cl); [|reflexivity]. cbn [fst].
  destruct (sfc_pure c s (sv_now s) cl (part_for parts cl)) as [cl' out] eqn:Ep.
  pose proof (send_for_client_eq c s (sv_now s) cl (part_for parts cl)) as Hs. rewrite Ep in Hs.
  apply sfc_result in Hs. destruct Hs as [-> _]. reflexivity.
Qed.

(* what the run invariant needs to know about a server frame *)
Theorem server_frame_mt c s tick dt (cleanup : bool) ops parts s' fo :
  NoDup (slots_of s) ->
  server_frame c s tick dt cleanup ops parts = Ok (s', fo) ->
  let t1 := if tick then tick_add (sv_tick s) 1 else sv_tick s in
  sv_dirty s' = false /\ sv_running s' = sv_running s /\
  (sv_tick s' = t1 \/ sv_tick s' = 0 /\ sv_clients s' = [] /\ sv_running s = false) /\
  (slots_of s' = slots_of s \/ sv_clients s' = [] /\ sv_running s = false) /\
  (fo_clients fo <> [] -> sv_running s = true /\ sv_tick s' = t1 /\ (tick = true \/ sv_dirty s = true)) /\
  (forall slot, ~ In slot (slots_of s') -> mutates_for slot (fo_clients fo) = []) /\
  forall slot m, In m (mutates_for slot (fo_clients fo)) ->
    m_tick m = sv_tick s' /\ m_count m <> 0 /\
    m_count m = (if cfg_track c then N.of_nat (length (mutates_for slot (fo_clients fo))) else 1) /\
    (forallb (fun kp : N * partition => N.of_nat (length (snd kp)) <? 2 ^ 64) parts = true -> m_count m < 2 ^ 64).
Proof.
  intros Hnd H. cbv zeta. unfold server_frame in H.
  set (s1 := with_time_tick s tick dt) in *.
  set (s2 := if sv_running s1 then (let r := receive_acks s1 in if cleanup then cleanup_acks c r else r) else s1) in *.
  assert (F2 : sv_tick s2 = sv_tick s1 /\ sv_dirty s2 = sv_dirty s1 /\ sv_running s2 = sv_running s1 /\ slots_of s2 = slots_of s).
  { unfold s2. destruct (sv_running s1) eqn:E; [|repeat split; try reflexivity; exact E]. cbv zeta. destruct cleanup.
    - repeat split; try reflexivity; [exact E|]. rewrite cleanup_acks_slots, receive_acks_slots. reflexivity.
    - repeat split; try reflexivity; [exact E|]. rewrite receive_acks_slots. reflexivity. }
  destruct F2 as (A1 & A2 & A3 & A4).
  destruct (ops_flags ops s2) as (B1 & B2 & B3 & B4 & _). set (s3 := fold_left apply_sop ops s2) in *.
  assert (T3 : sv_tick s3 = (if tick then tick_add (sv_tick s) 1 else sv_tick s)) by (rewrite B4, A1; reflexivity).
  assert (D3 : sv_dirty s3 = sv_dirty s || tick) by (rewrite B3, A2; reflexivity).
  assert (R3 : sv_running s3 = sv_running s) by (rewrite B1, A3; reflexivity).
  assert (S3 : slots_of s3 = slots_of s) by (unfold s3; rewrite ops_slots; exact A4).
  destruct (sv_running s3) eqn:Er3.
  - change (sv_dirty (buffer_removals s3)) with (sv_dirty s3) in H. destruct (sv_dirty s3) eqn:Ed.
    + rewrite send_replication_eq in H. cbn [bind] in H. injection H as <- <-.
      set (s3' := buffer_removals s3) in *.
      set (rs := map (client_result_pure c s3' parts) (sv_clients s3')) in *.
      cbn [set_last_running set_after_send sv_dirty sv_running sv_tick sv_clients fo_clients].
      change (map (client_result_pure c s3' parts) (sv_clients s3)) with rs.
      assert (Hsl : map sc_slot (map fst rs) = slots_of s).
      { unfold rs. rewrite result_slots. exact S3. }
      assert (Hndo : NoDup (map co_slot (outs_of rs))).
      { unfold rs. rewrite outs_of_slots. apply NoDup_map_filter. change (NoDup (slots_of s3)). rewrite S3. exact Hnd. }
      split; [reflexivity|]. split; [change (sv_running s3') with (sv_running s3); congruence|]. split; [left; exact T3|]. split; [left; exact Hsl|].
      split; [intros _; split; [congruence|]; split; [exact T3|]; symmetry in D3; apply orb_prop in D3; destruct D3; auto|].
      split.
      * intros slot Hn. destruct (mutates_for slot (outs_of rs)) as [|m0 t0] eqn:Em; [reflexivity|]. exfalso.
        destruct (mutates_for_in slot (outs_of rs) m0) as (o & Ho & Es & _); [rewrite Em; left; reflexivity|].
        apply Hn. unfold slots_of at 1. cbn [set_last_running set_after_send sv_clients]. rewrite Hsl, <- S3. unfold slots_of.
        apply (in_map co_slot) in Ho. unfold rs in Ho. rewrite outs_of_slots in Ho. rewrite Es in Ho.
        apply in_map_iff in Ho. destruct Ho as [cl [E Hcl]]. apply filter_In in Hcl.
        apply in_map_iff. exists cl. split; [exact E|exact (proj1 Hcl)].
      * intros slot m Hm. destruct (mutates_for_nodup slot (outs_of rs) Hndo) as [E|(o & Ho & Es & E)]; [rewrite E in Hm; destruct Hm|].
        rewrite E in Hm |- *.
        unfold rs, outs_of in Ho. apply in_flat_map in Ho. destruct Ho as [r [Hr Ho]].
        apply in_map_iff in Hr. destruct Hr as [cl [<- Hcl]]. unfold client_result_pure in Ho.
        destruct (sc_authorized cl); [|destruct Ho]. cbn [snd] in Ho. destruct Ho as [<- | []].
        destruct (sfc_pure c s3' (sv_now s3') cl (part_for parts cl)) as [cl' out] eqn:Ep. cbn [snd] in *.
        pose proof (send_for_client_eq c s3' (sv_now s3') cl (part_for parts cl)) as Hs. rewrite Ep in Hs.
        destruct (proj2 (sfc_counts _ _ _ _ _ _ _ Hs) m Hm) as (Q1 & Q2 & Q3 & Q4).
        split; [exact Q1|]. split; [exact Q2|]. split; [exact Q3|]. intros Hps. apply Q4.
        unfold part_for. destruct (al_get (sc_slot cl) parts) as [p0|] eqn:Ep0; [|cbn; rewrite Npow64; lia].
        rewrite forallb_forall in Hps. specialize (Hps (sc_slot cl, p0) (ClientEnt_proofs.al_get_in _ _ _ Ep0)). cbn [snd] in Hps. rewrite Npow64 in *. lia.
    + cbn [bind] in H. injection H as <- <-. cbn [set_last_running sv_dirty sv_running sv_tick sv_clients fo_clients].
      change (sv_tick (buffer_removals s3)) with (sv_tick s3). change (sv_running (buffer_removals s3)) with (sv_running s3).
      split; [exact Ed|]. split; [congruence|]. split; [left; exact T3|].
      split; [left; exact S3|]. split; [intros Hn; congruence|]. split; [reflexivity|]. intros slot m [].
  - cbn [bind] in H. injection H as <- <-.
    cbn [set_last_running clear_dirty age_events set_bufs sv_dirty sv_running sv_tick sv_clients fo_clients].
    split; [reflexivity|]. split; [destruct (sv_last_running s3); cbn; congruence|].
    split; [|split; [|split; [intros Hn; congruence|split; [reflexivity|intros slot m []]]]].
    + destruct (sv_last_running s3); cbn; [right; repeat split; congruence|left; exact T3].
    + destruct (sv_last_running s3); cbn; [right; split; [reflexivity|congruence]|left; exact S3].
Qed.

(* the ticks of everything a server frame sends (no hypothesis on the state) *)
Theorem server_frame_out_ticks c s tick dt (cleanup : bool) ops parts s' fo :
  server_frame c s tick dt cleanup ops parts = Ok (s', fo) ->
  sv_tick s' <= sv_tick s + (if tick then 1 else 0) /\
  forall o, In o (fo_clients fo) ->
    (forall u, co_update o = Some u -> u_tick u = sv_tick s') /\ (forall m, In m (co_mutates o) -> m_tick m = sv_tick s').
Proof.
  intros H. unfold server_frame in H.
  set (s1 := with_time_tick s tick dt) in *.
  set (s2 := if sv_running s1 then (let r := receive_acks s1 in if cleanup then cleanup_acks c r else r) else s1) in *.
  assert (A1 : sv_tick s2 = sv_tick s1).
  { unfold s2. destruct (sv_running s1); [|reflexivity]. cbv zeta. destruct cleanup; reflexivity. }
  destruct (ops_flags ops s2) as (_ & _ & _ & B4 & _). set (s3 := fold_left apply_sop ops s2) in *.
  assert (T3 : sv_tick s3 <= sv_tick s + (if tick then 1 else 0)).
  { rewrite B4, A1. cbn [s1 with_time_tick sv_tick]. destruct tick; [|lia]. unfold tick_add.
    pose proof (N.mod_le (sv_tick s + 1) (2 ^ 32)) as Hm. pose proof Npow32. lia. }
  destruct (sv_running s3).
  - change (sv_dirty (buffer_removals s3)) with (sv_dirty s3) in H. destruct (sv_dirty s3).
    + rewrite send_replication_eq in H. cbn [bind] in H. injection H as <- <-.
      cbn [set_last_running set_after_send sv_tick fo_clients]. split; [exact T3|].
      intros o Ho. unfold outs_of in Ho. apply in_flat_map in Ho. destruct Ho as [r [Hr Ho]].
      apply in_map_iff in Hr. destruct Hr as [cl [<- Hcl]]. unfold client_result_pure in Ho.
      destruct (sc_authorized cl); [|destruct Ho]. cbn [snd] in Ho. destruct Ho as [<- | []].
      set (s3' := buffer_removals s3) in *.
      destruct (sfc_pure c s3' (sv_now s3') cl (part_for parts cl)) as [cl' out] eqn:Ep. cbn [snd].
      pose proof (send_for_client_eq c s3' (sv_now s3') cl (part_for parts cl)) as Hs. rewrite Ep in Hs. split.
      * intros u Hu. rewrite (sfc_update_some _ _ _ _ _ _ _ _ Hs Hu). reflexivity.
      * intros m Hm. exact (proj1 (proj2 (sfc_counts _ _ _ _ _ _ _ Hs) m Hm)).
    + cbn [bind] in H. injection H as <- <-. cbn [set_last_running sv_tick fo_clients]. split; [exact T3|intros o []].
  - cbn [bind] in H. injection H as <- <-. cbn [set_last_running clear_dirty age_events set_bufs sv_tick fo_clients].
    split; [|intros o []]. destruct (sv_last_running s3); cbn; [lia|exact T3].
Qed.
