(* C09 over whole-system runs (`Sys.run` from `sys_init`): clean sessions.
     1. a client-local invariant of every run (no premise): the two run-condition locals agree, a client that has not
        run a frame while connected since its last reset holds nothing, a client that is not connected has empty inboxes
     2. B1 (client side): the replication state at the start of a session is the initial one; what is applied in a session
        was sent in it; the first update message of the session is the complete visible state
     3. B2 (server side): disconnect / reconnect, stop / reset / restart at run level
     4. B3: `run` never returns `Err`; a `Panic` can only come from the frame of a connected client; session ends are total
   Pinned in Properties/C09E.v. *)
From Coq Require Import ZifyBool ZifyN Permutation.
From RV Require Import Lib.Res Repl.ClientTicks Repl.ClientTicks_proofs Repl.World Vis.Visibility Repl.Server Repl.ServerSpec Repl.Server_proofs
  Repl.Client Repl.Sys Tick.MutateTicks Repl.Client_proofs Repl.ClientSys_proofs Repl.ClientStructSpec
  Repl.StructSpec Repl.StructVisSpec Repl.StructVisRun_proofs
  Repl.StructE2E_proofs Repl.StructE2EMut_proofs Repl.StructE2EVis_proofs Repl.StructE2ESess_proofs Repl.Session_proofs
  Repl.MtRunSrv_proofs Repl.MtRunSpec Repl.MtRunCli_proofs Repl.MtRun_proofs Repl.MtRunThm_proofs Repl.AuthRun_proofs.
Open Scope N_scope.
Ltac Zify.zify_post_hook ::= Z.div_mod_to_equations.
Arguments N.add : simpl never. Arguments N.mul : simpl never. Arguments N.pow : simpl never.
Arguments N.ltb : simpl never. Arguments N.leb : simpl never. Arguments N.div : simpl never.
Arguments N.modulo : simpl never. Arguments N.sub : simpl never. Arguments N.eqb : simpl never.

(* ================================================================== *)
(* 1. the client-local invariant                                      *)
(* ================================================================== *)

Record cl_sess_inv (c : client) : Prop := mkClSess {
  cs_locals : cl_last_connected c = cl_last_not_disconnected c;
  cs_fresh : cl_last_not_disconnected c = false ->
             cl_upd_tick c = 0 /\ cl_s2c c = [] /\ cl_c2s c = [] /\ cl_buffered c = [];
  cs_inbox : cl_status c = Disconnected -> cl_inbox_upd c = [] /\ cl_inbox_mut c = []
}.

Lemma cl_sess_init track : cl_sess_inv (client_init track).
Proof. split; cbn; auto. Qed.

Lemma cl_sess_set_status c st : cl_sess_inv c -> cl_sess_inv (set_status c st).
Proof.
  intros [I1 I2 I3]. split; unfold set_status; cbn.
  - exact I1.
  - exact I2.
  - intros ->. destruct (cl_status c) eqn:E; [apply I3; reflexivity|split; reflexivity].
Qed.

Lemma cl_sess_deliver_update c u : cl_sess_inv c -> cl_sess_inv (deliver_update c u).
Proof.
  intros H. unfold deliver_update. destruct (cl_status c) eqn:E; [exact H|]. destruct H as [I1 I2 I3].
  split; cbn; [exact I1|exact I2|discriminate].
Qed.

Lemma cl_sess_deliver_mutate c m : cl_sess_inv c -> cl_sess_inv (deliver_mutate c m).
Proof.
  intros H. unfold deliver_mutate. destruct (cl_status c) eqn:E; [exact H|]. destruct H as [I1 I2 I3].
  split; cbn; [exact I1|exact I2|discriminate].
Qed.

Lemma cl_sess_fold {A} (f : client -> A -> client) l : (forall c a, cl_sess_inv c -> cl_sess_inv (f c a)) ->
  forall c, cl_sess_inv c -> cl_sess_inv (fold_left f l c).
Proof. intros Hf. induction l as [|a t IH]; intros c Hc; cbn [fold_left]; [exact Hc|]. apply IH, Hf, Hc. Qed.

(* what a frame of a client that is not connected does *)
Lemma frame_disconnected_shape c ops : cl_status c = Disconnected ->
  client_frame c ops =
  Ok (set_locals (fold_left apply_cop ops (if cl_last_not_disconnected c then client_reset c else c)), mkCFO [] []).
Proof.
  intros E. unfold client_frame. rewrite E. cbn [negb]. rewrite andb_true_r. reflexivity.
Qed.

Lemma cl_sess_frame c ops c' out : cl_sess_inv c -> client_frame c ops = Ok (c', out) -> cl_sess_inv c'.
Proof.
  intros [I1 I2 I3] H. destruct (cl_status c) eqn:E.
  - rewrite (frame_disconnected_shape c ops E) in H. inversion H; subst c' out. clear H.
    set (c1 := if cl_last_not_disconnected c then client_reset c else c).
    pose proof (fold_apply_cop_repl_state ops c1) as Er. unfold repl_state in Er.
    assert (Hst : cl_status c1 = Disconnected) by (unfold c1; destruct (cl_last_not_disconnected c); [cbn|]; exact E).
    assert (Hf : cl_upd_tick c1 = 0 /\ cl_s2c c1 = [] /\ cl_c2s c1 = [] /\ cl_buffered c1 = []).
    { unfold c1. destruct (cl_last_not_disconnected c) eqn:El; [cbn; auto|apply I2; reflexivity]. }
    assert (Hi : cl_inbox_upd c1 = [] /\ cl_inbox_mut c1 = []).
    { unfold c1. destruct (cl_last_not_disconnected c); [cbn|]; apply I3; reflexivity. }
    inversion Er as [[E1 E2 E3 E4 E5 E6 E7 E8 E9 E10]].
    split; unfold set_locals; cbn [cl_status cl_last_connected cl_last_not_disconnected cl_upd_tick cl_s2c cl_c2s cl_buffered cl_inbox_upd cl_inbox_mut].
    + reflexivity.
    + intros _. rewrite E4, E5, E6, E7. exact Hf.
    + intros _. rewrite E9, E10. exact Hi.
  - destruct (frame_connected_mt c ops c' out E H) as (_ & Hst & Hl & _).
    split.
    + unfold client_frame in H. apply bind_ok in H. destruct H as [[c2 out2] [_ H]]. inversion H; subst c' out. reflexivity.
    + intros Hf. congruence.
    + intros Hd. congruence.
Qed.

Definition clients_sess (y : sys) : Prop := forall slot c, al_get slot (y_clients y) = Some c -> cl_sess_inv c.

Lemma clients_sess_insert y slot c (y' : sys) : clients_sess y -> cl_sess_inv c ->
  y_clients y' = al_insert slot c (y_clients y) -> clients_sess y'.
Proof.
  intros Hy Hc E sl c0 H0. rewrite E in H0. destruct (N.eq_dec sl slot) as [->|Hne].
  - rewrite al_get_insert_same in H0. inversion H0; subst. exact Hc.
  - rewrite al_get_insert_other in H0 by exact Hne. exact (Hy sl c0 H0).
Qed.

Lemma clients_sess_same y (y' : sys) : clients_sess y -> y_clients y' = y_clients y -> clients_sess y'.
Proof. intros Hy E sl c0 H0. rewrite E in H0. exact (Hy sl c0 H0). Qed.

Theorem clients_sess_step y st y' o : clients_sess y -> sys_step y st = Ok (y', o) -> clients_sess y'.
Proof.
  intros Hy H.
  destruct st as [| |slot max|slot|slot|tick dt cleanup ops parts|slot ops|slot s2c ch w|slot s2c ch w]; cbn [sys_step] in H.
  - inversion H; subst. exact Hy.
  - inversion H; subst. apply (clients_sess_same y); [exact Hy|reflexivity].
  - destruct (find_client (y_server y) slot); [inversion H; subst; exact Hy|].
    destruct (al_get slot (y_clients y)) as [cl|] eqn:Ec; [|inversion H; subst; exact Hy].
    destruct (sv_running (y_server y)); inversion H; subst; [|exact Hy].
    apply (clients_sess_insert y slot (set_status cl Connected)); [exact Hy|apply cl_sess_set_status, (Hy slot cl Ec)|reflexivity].
  - inversion H; subst. exact Hy.
  - destruct (al_get slot (y_clients y)) as [cl|] eqn:Ec; inversion H; subst; [|exact Hy].
    apply (clients_sess_insert y slot (set_status cl Disconnected)); [exact Hy|apply cl_sess_set_status, (Hy slot cl Ec)|reflexivity].
  - destruct (server_frame (y_cfg y) (y_server y) tick dt cleanup ops parts) as [[s' fo]| |]; cbn [bind] in H; try discriminate.
    inversion H; subst. apply (clients_sess_same y); [exact Hy|]. rewrite (proj2 (proj2 (enqueue_fields _ _))). reflexivity.
  - destruct (al_get slot (y_clients y)) as [cl|] eqn:Ec; [|inversion H; subst; exact Hy].
    destruct (client_frame cl ops) as [[cl' cfo]| |] eqn:Ef; cbn [bind] in H; try discriminate. inversion H; subst.
    apply (clients_sess_insert y slot cl'); [exact Hy|exact (cl_sess_frame cl ops cl' cfo (Hy slot cl Ec) Ef)|].
    cbn [set_server y_clients]. destruct (cfo_acks cfo); [reflexivity|]. destruct (cl_status cl'); reflexivity.
  - destruct (al_get slot (y_clients y)) as [cl|] eqn:Ec; [|inversion H; subst; exact Hy].
    destruct s2c; [destruct (ch =? 0); [|destruct (ch =? 1)]|destruct (ch =? 0)];
      try (inversion H; subst; exact Hy; fail); destruct (take w _) as [picked rest]; inversion H; subst.
    + apply (clients_sess_insert y slot (fold_left deliver_update picked cl)); [exact Hy| |reflexivity].
      apply cl_sess_fold; [apply cl_sess_deliver_update|exact (Hy slot cl Ec)].
    + apply (clients_sess_insert y slot (fold_left deliver_mutate picked cl)); [exact Hy| |reflexivity].
      apply cl_sess_fold; [apply cl_sess_deliver_mutate|exact (Hy slot cl Ec)].
    + apply (clients_sess_same y); [exact Hy|reflexivity].
  - destruct (al_get slot (y_clients y)) as [cl|] eqn:Ec; [|inversion H; subst; exact Hy].
    destruct s2c; [destruct (ch =? 0); [|destruct (ch =? 1)]|destruct (ch =? 0)];
      try (inversion H; subst; exact Hy; fail); destruct (take w _) as [picked rest]; inversion H; subst.
    + apply (clients_sess_insert y slot cl); [exact Hy|exact (Hy slot cl Ec)|reflexivity].
    + apply (clients_sess_insert y slot cl); [exact Hy|exact (Hy slot cl Ec)|reflexivity].
    + apply (clients_sess_same y); [exact Hy|reflexivity].
Qed.

Lemma clients_sess_init c n : clients_sess (sys_init c n).
Proof.
  intros slot cl H. unfold sys_init in H. cbn [y_clients] in H.
  revert H. generalize (map N.of_nat (seq 0 (N.to_nat n))) as l.
  induction l as [|a t IH]; cbn [map al_get]; [discriminate|]. destruct (a =? slot); [intros H; inversion H; apply cl_sess_init|exact IH].
Qed.

Theorem clients_sess_run script : forall y y', clients_sess y -> run y script = Ok y' -> clients_sess y'.
Proof.
  induction script as [|st t IH]; intros y y' Hy H; cbn [run] in H.
  - inversion H; subst. exact Hy.
  - destruct (sys_step y st) as [[y1 o]| |] eqn:E; cbn [bind] in H; try discriminate.
    exact (IH y1 y' (clients_sess_step y st y1 o Hy E) H).
Qed.

(* every client of every run *)
Theorem run_client_sess c n script y slot cl :
  run (sys_init c n) script = Ok y -> al_get slot (y_clients y) = Some cl -> cl_sess_inv cl.
Proof. intros H Hc. exact (clients_sess_run script _ y (clients_sess_init c n) H slot cl Hc). Qed.

(* ================================================================== *)
(* 2. B1: the client side of a new session                            *)
(* ================================================================== *)

Lemma okf_sessions script : script_okf script = true -> sessions_ok script = true.
Proof. unfold script_okf. intros H. apply andb_prop in H. exact (proj2 H). Qed.

(* a client that has not run a frame while connected since its last reset (`client_just_disconnected`), in particular
   a client at the start of a new session: update tick 0, both entity maps empty, no buffered mutate message, the
   mutate-tick record pristine, no mutate message applied and no `MutateTickReceived` emitted (ghost of C12E) *)
Theorem run_client_fresh c n script y G slot cl :
  sessions_ok script = true -> parts_small script = true -> tick_frames script < 2 ^ 31 ->
  mrun (sys_init c n) mgs_empty script = Ok (y, G) -> al_get slot (y_clients y) = Some cl ->
  cl_last_not_disconnected cl = false ->
  cl_last_connected cl = false /\ cl_upd_tick cl = 0 /\ cl_s2c cl = [] /\ cl_c2s cl = [] /\ cl_buffered cl = [] /\
  cl_mticks cl = (if cfg_track c then Some mt_default else None) /\
  mg_appl (G slot) = [] /\ mg_evs (G slot) = [].
Proof.
  intros Hs Hp Hb H Hc Hl.
  destruct (run_client_sess c n script y slot cl (mrun_run _ _ _ _ _ H) Hc) as [I1 I2 _].
  destruct (I2 Hl) as (A1 & A2 & A3 & A4).
  pose proof (m_inv_run c n script y G Hs Hp Hb H) as Hm.
  destruct (mi_slots _ _ _ _ Hm slot cl Hc) as (R & F & _ & _). destruct (F Hl) as (_ & F2 & F3).
  split; [congruence|]. split; [exact A1|]. split; [exact A2|]. split; [exact A3|]. split; [exact A4|].
  split; [|auto]. unfold replay_ok in R. rewrite F2 in R. destruct (cl_mticks cl) as [m|].
  - destruct R as (-> & bs & E & _). cbn in E. inversion E. reflexivity.
  - destruct R as [-> _]. reflexivity.
Qed.

(* a slot that is clean (never connected, or disconnected and its client has run a frame since), or whose `StConnect`
   did not take effect: the client's replication state is the one of a client that never connected *)
Theorem run_clean_is_initial c n script y G slot cl :
  sessions_ok script = true -> parts_small script = true -> tick_frames script < 2 ^ 31 ->
  mrun (sys_init c n) mgs_empty script = Ok (y, G) -> al_get slot (y_clients y) = Some cl ->
  mode_of script slot = MClean \/ (mode_of script slot = MLive /\ cl_status cl = Disconnected) ->
  repl_state cl = repl_state (client_init (cfg_track c)) /\
  find_client (y_server y) slot = None /\ l_mut (get_link y slot) = [] /\ l_upd (get_link y slot) = [] /\
  mg_sent (G slot) = [] /\ mg_lost (G slot) = [] /\ mg_appl (G slot) = [] /\ mg_evs (G slot) = [].
Proof.
  intros Hs Hp Hb H Hc Hmode.
  pose proof (m_inv_run c n script y G Hs Hp Hb H) as Hm.
  destruct (mi_slots _ _ _ _ Hm slot cl Hc) as (_ & _ & _ & A4).
  assert (Hcl : clean_st (y_server y) slot (G slot) cl (l_mut (get_link y slot))).
  { destruct Hmode as [Hm0|[Hm0 Hd]]; rewrite Hm0 in A4; cbn [mode_ok] in A4; [exact A4|]. destruct A4 as [A4|(B1 & _)]; [exact A4|congruence]. }
  destruct Hcl as (B1 & B2 & B3 & B4 & B5).
  destruct (run_client_fresh c n script y G slot cl Hs Hp Hb H Hc B2) as (F1 & F2 & F3 & F4 & F5 & F6 & F7 & F8).
  destruct (run_client_sess c n script y slot cl (mrun_run _ _ _ _ _ H) Hc) as [_ _ I3]. destruct (I3 B1) as [J1 J2].
  assert (Hnone : find_client (y_server y) slot = None).
  { destruct (find_client (y_server y) slot) as [r|] eqn:E; [|reflexivity]. exfalso. apply B4.
    destruct (find_client_in _ _ _ E) as [Hin Hsl]. unfold slots_of. rewrite <- Hsl. apply in_map. exact Hin. }
  split.
  - unfold repl_state, client_init. cbn [cl_status cl_last_connected cl_last_not_disconnected cl_upd_tick cl_s2c cl_c2s cl_buffered cl_mticks cl_inbox_upd cl_inbox_mut].
    rewrite B1, F1, B2, F2, F3, F4, F5, F6, J1, J2. reflexivity.
  - split; [exact Hnone|]. split; [exact B3|].
    split; [apply (run_unauthorized_link_quiet c n script y slot (mrun_run _ _ _ _ _ H)); intros r Hr; congruence|].
    split; [exact (mi_norec _ _ _ _ Hm slot B4)|]. auto.
Qed.

(* a session: everything the client has applied, buffered or received of mutate messages, and everything on its way,
   was sent to the slot in its CURRENT session (the ghost [mg_sent] is emptied when the record goes and is empty for a
   clean slot, run_clean_is_initial) *)
Theorem run_mutates_of_session c n script y G slot cl :
  sessions_ok script = true -> parts_small script = true -> tick_frames script < 2 ^ 31 ->
  mrun (sys_init c n) mgs_empty script = Ok (y, G) -> al_get slot (y_clients y) = Some cl ->
  mode_of script slot = MLive -> cl_status cl = Connected ->
  forall m, In m (mg_appl (G slot) ++ cl_buffered cl ++ cl_inbox_mut cl ++ l_mut (get_link y slot)) -> In m (mg_sent (G slot)).
Proof.
  intros Hs Hp Hb H Hc Hm Hst m Hin.
  pose proof (h2b_accounting c n script y G Hs Hp Hb H slot cl Hc Hm Hst) as Hperm. unfold live_ok in Hperm.
  apply (Permutation_in m (Permutation_sym Hperm)). rewrite !app_assoc. apply in_or_app. left. rewrite <- !app_assoc. exact Hin.
Qed.

(* the first update message of a new session is the complete visible state.  The slot is clean after [pre] (its
   previous session, if any, was ended and its client has run a frame); [mid] is whatever follows up to the next server
   frame (the `StConnect`, an authorization, deliveries, ...) *)
Theorem run_first_update_of_session c n pre y0 slot mid y2 tick dt (cleanup : bool) ops parts y' fo vs r' :
  sessions_ok pre = true -> parts_small pre = true -> tick_frames pre < 2 ^ 31 ->
  run (sys_init c n) pre = Ok y0 -> (exists cl, al_get slot (y_clients y0) = Some cl) -> mode_of pre slot = MClean ->
  run y0 mid = Ok y2 -> forallb not_sframe mid = true ->
  sys_step y2 (StSFrame tick dt cleanup ops parts) = Ok (y', OSFrame fo vs) -> fo_ran fo = true ->
  find_client (y_server y') slot = Some r' -> sc_authorized r' = true ->
  struct_equiv (abs_send [] (upd_for slot (fo_clients fo))) (struct_vis (y_server y') r') /\
  (forall e x, repl_get (y_server y') e = Some x -> vis_visible (sc_vis r') e = true ->
     exists u, upd_for slot (fo_clients fo) = Some u /\ u_tick u = sv_tick (y_server y') /\ In (e, ServerSpec.all_comps x) (u_changes u)).
Proof.
  intros Hs Hp Hb Hpre [cl Hc] Hm Hmid Hnf. destruct (run_mrun pre (sys_init c n) mgs_empty y0 Hpre) as [G HG].
  destruct (run_clean_is_initial c n pre y0 G slot cl Hs Hp Hb HG Hc (or_introl Hm)) as (_ & Hnone & _).
  apply (run_first_frame_after_unauthorized c n pre y0 slot mid y2); try assumption. intros r Hr. congruence.
Qed.

(* ================================================================== *)
(* 3. B2: the server side                                             *)
(* ================================================================== *)

(* `StDisconnect slot` at any moment of a run: no record, no queued acknowledgement, an empty link, empty ghosts
   (nothing counts as sent to the slot any more); the world and the other slots are untouched *)
Theorem run_disconnect_forgets c n script y gs G slot cl :
  erun_s (sys_init c n) [] script = Ok (y, gs) -> mrun (sys_init c n) mgs_empty script = Ok (y, G) ->
  al_get slot (y_clients y) = Some cl ->
  exists y', sys_step y (StDisconnect slot) = Ok (y', ONone) /\
    find_client (y_server y') slot = None /\
    (forall m, In m (sv_inbox_acks (y_server y')) -> fst m <> slot) /\
    get_link y' slot = link_empty /\
    al_get slot (y_clients y') = Some (set_status cl Disconnected) /\
    sent_of slot (ghost_step_s y gs (StDisconnect slot)) = [] /\
    mg_sent (mstep y G (StDisconnect slot) slot) = [] /\ mg_lost (mstep y G (StDisconnect slot) slot) = [] /\
    sv_ents (y_server y') = sv_ents (y_server y) /\ sv_tick (y_server y') = sv_tick (y_server y) /\
    (forall sl, sl <> slot -> find_client (y_server y') sl = find_client (y_server y) sl /\ get_link y' sl = get_link y sl /\
                               al_get sl (y_clients y') = al_get sl (y_clients y)).
Proof.
  intros He HG Hc. destruct (disconnect_step y slot cl Hc) as [y' [E [Hs [Hl [Hcl Ho]]]]].
  destruct (disconnect_forgets_client (y_server y) slot) as (D1 & D2 & D3 & _ & D5 & D6 & _).
  exists y'. split; [exact E|]. rewrite Hs. split; [exact D1|]. split; [intros m Hm; exact (proj2 (proj1 (D2 m) Hm))|].
  split; [exact Hl|]. split; [exact Hcl|]. split.
  - pose proof (erun_s_ginv c n script y gs He) as Hg.
    pose proof (grun_inv_v (y_cfg y) _ _ _ Hg (step_grun_s y gs _ y' ONone E)) as Hg'.
    apply (sent_of_norec_v _ slot Hg'). cbn [g_srv]. rewrite Hs. intros Hr. apply has_rec_find in Hr. congruence.
  - cbn [mstep]. rewrite mg_upd_same. cbn. split; [reflexivity|]. split; [reflexivity|]. split; [exact D5|]. split; [exact D6|].
    intros sl Hne. split; [exact (D3 sl Hne)|]. exact (Ho sl Hne).
Qed.

(* a `StConnect slot` that finds no record (the first connection, or any connection after a `StDisconnect slot` or a
   reset) creates the record of a first connection: default acknowledgement bookkeeping, fresh visibility, nothing
   counted as sent *)
Theorem run_connect_is_first_connection c n script y gs G slot max cl :
  erun_s (sys_init c n) [] script = Ok (y, gs) -> mrun (sys_init c n) mgs_empty script = Ok (y, G) ->
  al_get slot (y_clients y) = Some cl -> find_client (y_server y) slot = None -> sv_running (y_server y) = true ->
  exists y', sys_step y (StConnect slot max) = Ok (y', ONone) /\
    find_client (y_server y') slot = Some (fresh_client c slot max) /\
    sc_ticks (fresh_client c slot max) = ct_default /\ sc_pending_map (fresh_client c slot max) = [] /\
    sc_vis (fresh_client c slot max) = (match cfg_auth c with AuthNone => new_vis c | _ => None end) /\
    sc_authorized (fresh_client c slot max) = (match cfg_auth c with AuthNone => true | _ => false end) /\
    al_get slot (y_clients y') = Some (set_status cl Connected) /\
    sent_of slot (ghost_step_s y gs (StConnect slot max)) = [] /\
    mg_sent (mstep y G (StConnect slot max) slot) = [] /\ mg_lost (mstep y G (StConnect slot max) slot) = [].
Proof.
  intros He HG Hc Hf Hr.
  assert (Hcfg : y_cfg y = c) by (rewrite (run_cfg script _ y (erun_s_run _ _ _ _ _ He)); reflexivity).
  assert (E : sys_step y (StConnect slot max) = Ok (set_client (set_server y (connect_client c (y_server y) slot max)) slot (set_status cl Connected), ONone)).
  { cbn [sys_step]. rewrite Hf, Hc, Hr, Hcfg. reflexivity. }
  eexists. split; [exact E|]. cbn [set_client set_server y_server y_clients].
  destruct (reconnect_is_first_connection c (y_server y) slot max Hr) as (_ & R2 & R3 & R4 & R5).
  split; [exact (R5 (y_server y) Hr Hf)|]. split; [exact R2|]. split; [exact R3|]. split; [exact R4|].
  split; [unfold fresh_client; destruct (cfg_auth c); reflexivity|].
  split; [apply al_get_insert_same|].
  pose proof (erun_s_ginv c n script y gs He) as Hg.
  assert (Hs0 : sent_of slot gs = []).
  { apply (sent_of_norec_v _ slot Hg). cbn [g_srv]. intros Hrec. apply has_rec_find in Hrec. congruence. }
  split.
  - pose proof (grun_inv_v (y_cfg y) _ _ _ Hg (step_grun_s y gs _ _ ONone E)) as Hg'.
    destruct (has_auth_dec (connect_client c (y_server y) slot max) slot) as [Ha|Hn]; [exact (gv_slots _ Hg')| |].
    + rewrite (ghost_step_sent_of y gs _ _ ONone slot Hg E Ha), Hs0. reflexivity.
    + exact (sent_of_noauth_v _ slot Hg' Hn).
  - cbn [mstep].
    destruct (run_unauthorized_mutate_ghost c n script y G slot HG) as [M1 M2]; [intros r Hr0; congruence|]. auto.
Qed.

(* the run-condition local `server_just_stopped` reads: only a server frame writes it *)
Lemma last_running_step y st y' o : sys_step y st = Ok (y', o) ->
  match st with
  | StSFrame _ _ _ _ _ => sv_last_running (y_server y') = sv_running (y_server y) /\ sv_running (y_server y') = sv_running (y_server y)
  | _ => sv_last_running (y_server y') = sv_last_running (y_server y)
  end.
Proof.
  intros H. destruct st as [| |slot max|slot|slot|tick dt cleanup ops parts|slot ops|slot s2c ch w|slot s2c ch w]; cbn [sys_step] in H.
  - inversion H; subst. reflexivity.
  - inversion H; subst. reflexivity.
  - destruct (find_client (y_server y) slot); [inversion H; subst; reflexivity|].
    destruct (al_get slot (y_clients y)); [|inversion H; subst; reflexivity].
    destruct (sv_running (y_server y)) eqn:Er; inversion H; subst; [|reflexivity]. cbn [set_client set_server y_server].
    unfold connect_client. rewrite Er. destruct (find_client (y_server y) slot); reflexivity.
  - inversion H; subst. cbn [set_server y_server]. unfold authorize_client.
    destruct (find_client (y_server y) slot) as [r|]; [|reflexivity]. destruct (sc_authorized r); reflexivity.
  - destruct (al_get slot (y_clients y)); inversion H; subst; reflexivity.
  - destruct (server_frame (y_cfg y) (y_server y) tick dt cleanup ops parts) as [[s' fo]| |] eqn:Ef; cbn [bind] in H; try discriminate.
    inversion H; subst. rewrite (proj1 (proj2 (enqueue_fields _ _))). cbn [set_server y_server].
    pose proof (server_frame_ticks_v _ _ _ _ _ _ _ _ _ Ef) as (_ & R & _). split; [|exact R].
    unfold server_frame in Ef. apply bind_ok in Ef. destruct Ef as [[[s4 outs] ran] [_ Ef]]. inversion Ef; subst.
    cbn [set_last_running sv_last_running]. cbn [set_last_running sv_running] in R. exact R.
  - destruct (al_get slot (y_clients y)); [|inversion H; subst; reflexivity].
    destruct (client_frame c ops) as [[c' cfo]| |]; cbn [bind] in H; try discriminate. inversion H; subst.
    cbn [set_server y_server publish_pre sv_last_running]. destruct (cfo_acks cfo); [reflexivity|]. destruct (cl_status c'); reflexivity.
  - destruct (al_get slot (y_clients y)); [|inversion H; subst; reflexivity].
    destruct s2c; [destruct (ch =? 0); [|destruct (ch =? 1)]|destruct (ch =? 0)];
      try (inversion H; subst; reflexivity; fail); destruct (take w _) as [picked rest]; inversion H; subst; try reflexivity.
    cbn [set_server y_server]. clear. generalize (y_server y). induction picked as [|i t IH]; intros s; cbn [fold_left]; [reflexivity|].
    rewrite IH. unfold deliver_acks. destruct (sv_running s); [|reflexivity]. destruct (find_client s slot); reflexivity.
  - destruct (al_get slot (y_clients y)); [|inversion H; subst; reflexivity].
    destruct s2c; [destruct (ch =? 0); [|destruct (ch =? 1)]|destruct (ch =? 0)];
      try (inversion H; subst; reflexivity; fail); destruct (take w _) as [picked rest]; inversion H; subst; reflexivity.
Qed.

(* the frame of a stopped server that was running at its previous frame: `reset`.  Afterwards the server holds what
   `server_init` holds except for the world (the entities, the change-stamp counters, the elapsed time, the pre-spawn
   registry), and the `ServerTick` change of the reset is consumed: tick 0, no client record, no buffered despawn or
   removal, no queued acknowledgement; nothing is sent; no replication message is queued for any slot; every ghost is
   empty *)
Theorem run_stopped_frame_resets c n script y gs G tick dt (cleanup : bool) ops parts :
  erun_s (sys_init c n) [] script = Ok (y, gs) -> mrun (sys_init c n) mgs_empty script = Ok (y, G) ->
  sv_running (y_server y) = false -> sv_last_running (y_server y) = true ->
  exists y' fo, sys_step y (StSFrame tick dt cleanup ops parts) = Ok (y', OSFrame fo []) /\
    fo_clients fo = [] /\ fo_ran fo = false /\
    sv_tick (y_server y') = 0 /\ sv_clients (y_server y') = [] /\ sv_despawn_buf (y_server y') = [] /\
    sv_removal_buf (y_server y') = [] /\ sv_inbox_acks (y_server y') = [] /\ sv_dirty (y_server y') = false /\
    sv_running (y_server y') = false /\ sv_last_running (y_server y') = false /\
    y_clients y' = y_clients y /\
    (forall slot, l_upd (get_link y' slot) = [] /\ l_mut (get_link y' slot) = []) /\
    ghost_step_s y gs (StSFrame tick dt cleanup ops parts) = [] /\
    (forall slot, mg_sent (mstep y G (StSFrame tick dt cleanup ops parts) slot) = [] /\
                  mg_lost (mstep y G (StSFrame tick dt cleanup ops parts) slot) = []).
Proof.
  intros He HG Hr Hl.
  assert (Hcfg : y_cfg y = c) by (rewrite (run_cfg script _ y (erun_s_run _ _ _ _ _ He)); reflexivity).
  destruct (stopped_frame_resets c (y_server y) tick dt cleanup ops parts Hr Hl) as (s' & fo & Ef & R1 & R2 & R3 & R4 & R5 & R6 & R7 & R8 & R9 & R10).
  pose proof (link_run_init c n script y (erun_s_run _ _ _ _ _ He)) as Hinv.
  assert (E : sys_step y (StSFrame tick dt cleanup ops parts) = Ok (enqueue_outputs (set_server y s') (fo_clients fo), OSFrame fo [])).
  { cbn [sys_step]. rewrite Hcfg, Ef. cbn [bind]. rewrite R10. reflexivity. }
  exists (enqueue_outputs (set_server y s') (fo_clients fo)), fo. split; [exact E|].
  rewrite R9 in *. cbn [enqueue_outputs fold_left set_server y_server y_clients] in *.
  split; [reflexivity|]. split; [exact R10|]. split; [exact R1|]. split; [exact R2|]. split; [exact R3|]. split; [exact R4|].
  split; [exact R5|]. split; [exact R6|]. split; [exact R7|]. split; [exact R8|]. split; [reflexivity|].
  split; [intros slot; exact (li_stopped _ Hinv Hr slot)|].
  split.
  - cbn [ghost_step_s ghost_step]. rewrite Hcfg, Ef. unfold sync_sent. rewrite R2. reflexivity.
  - intros slot. cbn [mstep]. rewrite Hcfg, Ef. unfold find_client. rewrite R2. cbn. auto.
Qed.

(* ================================================================== *)
(* 4. B3: totality                                                    *)
(* ================================================================== *)

(* no script makes `run` return `Err` *)
Theorem run_noerr script : forall y, run y script <> Err.
Proof.
  induction script as [|st t IH]; intros y; cbn [run]; [discriminate|].
  destruct (sys_step y st) as [[y1 o]| |] eqn:E; cbn [bind]; [apply IH| |discriminate].
  exfalso. exact (sys_step_noerr y st E).
Qed.

(* a `Panic` of a run comes from the frame of a CONNECTED client: every other step succeeds in every state *)
Theorem run_panic_source script : forall y, run y script = Panic ->
  exists pre slot ops post y1 cl, script = pre ++ StCFrame slot ops :: post /\ run y pre = Ok y1 /\
    al_get slot (y_clients y1) = Some cl /\ cl_status cl = Connected /\ client_frame cl ops = Panic.
Proof.
  induction script as [|st t IH]; intros y H; cbn [run] in H; [discriminate|].
  destruct (sys_step y st) as [[y1 o]| |] eqn:E; cbn [bind] in H.
  - destruct (IH y1 H) as (pre & slot & ops & post & y2 & cl & -> & R & A & B & C).
    exists (st :: pre), slot, ops, post, y2, cl. split; [reflexivity|]. split; [cbn [run]; rewrite E; exact R|]. auto.
  - exfalso. exact (sys_step_noerr y st E).
  - destruct st as [| |slot max|slot|slot|tick dt cleanup ops parts|slot ops|slot s2c ch w|slot s2c ch w];
      try (exfalso; match goal with E : sys_step y ?s = Panic |- _ =>
             destruct (server_steps_total y s) as [y' [o' E']]; [intros sl op; discriminate|congruence] end).
    exists [], slot, ops, t. cbn [sys_step] in E. destruct (al_get slot (y_clients y)) as [cl|] eqn:Ec; [|discriminate].
    destruct (client_frame cl ops) as [[cl' cfo]| |] eqn:Ef; cbn [bind] in E; try discriminate.
    exists y, cl. split; [reflexivity|]. split; [reflexivity|]. split; [exact Ec|]. split; [|exact Ef].
    destruct (cl_status cl) eqn:Es; [|reflexivity]. exfalso.
    destruct (client_frame_disconnected_total cl ops Es) as [r Hr]. congruence.
Qed.

(* how a step changes the status of a client app *)
Lemma fold_status {A} (f : client -> A -> client) l : (forall c a, cl_status (f c a) = cl_status c) ->
  forall c, cl_status (fold_left f l c) = cl_status c.
Proof. intros Hf. induction l as [|a t IH]; intros c; cbn [fold_left]; [reflexivity|]. rewrite IH. apply Hf. Qed.

Lemma deliver_update_status c u : cl_status (deliver_update c u) = cl_status c.
Proof. unfold deliver_update. destruct (cl_status c) eqn:E; [exact E|reflexivity]. Qed.
Lemma deliver_mutate_status c m : cl_status (deliver_mutate c m) = cl_status c.
Proof. unfold deliver_mutate. destruct (cl_status c) eqn:E; [exact E|reflexivity]. Qed.

Lemma client_frame_status c ops c' out : client_frame c ops = Ok (c', out) -> cl_status c' = cl_status c.
Proof.
  intros H. destruct (cl_status c) eqn:E.
  - rewrite (frame_disconnected_shape c ops E) in H. inversion H; subst c' out. clear H.
    set (c1 := if cl_last_not_disconnected c then client_reset c else c).
    pose proof (fold_apply_cop_repl_state ops c1) as Er. unfold repl_state in Er. inversion Er as [[E1 E2 E3 E4 E5 E6 E7 E8 E9 E10]].
    unfold set_locals. cbn [cl_status]. rewrite E1. unfold c1. destruct (cl_last_not_disconnected c); [cbn|]; exact E.
  - exact (proj1 (proj2 (frame_connected_mt c ops c' out E H))).
Qed.

Lemma step_status y st y1 o : sys_step y st = Ok (y1, o) ->
  forall sl c1, al_get sl (y_clients y1) = Some c1 ->
  exists c0, al_get sl (y_clients y) = Some c0 /\
    (cl_status c1 = cl_status c0 \/ (exists max, st = StConnect sl max) \/ (st = StDisconnect sl /\ cl_status c1 = Disconnected)).
Proof.
  intros H sl c1 Hc1.
  assert (Hins : forall k v, y_clients y1 = al_insert k v (y_clients y) -> (exists c0, al_get k (y_clients y) = Some c0 /\
                   (cl_status v = cl_status c0 \/ (exists max, st = StConnect k max) \/ (st = StDisconnect k /\ cl_status v = Disconnected))) ->
            exists c0, al_get sl (y_clients y) = Some c0 /\
              (cl_status c1 = cl_status c0 \/ (exists max, st = StConnect sl max) \/ (st = StDisconnect sl /\ cl_status c1 = Disconnected))).
  { intros k v E Hk. rewrite E in Hc1. destruct (N.eq_dec sl k) as [->|Hne].
    - rewrite al_get_insert_same in Hc1. inversion Hc1; subst v. exact Hk.
    - rewrite al_get_insert_other in Hc1 by exact Hne. exists c1. auto. }
  assert (Hsame : y_clients y1 = y_clients y -> exists c0, al_get sl (y_clients y) = Some c0 /\
            (cl_status c1 = cl_status c0 \/ (exists max, st = StConnect sl max) \/ (st = StDisconnect sl /\ cl_status c1 = Disconnected))).
  { intros E. rewrite E in Hc1. exists c1. auto. }
  destruct st as [| |slot max|slot|slot|tick dt cleanup ops parts|slot ops|slot s2c ch w|slot s2c ch w]; cbn [sys_step] in H.
  - inversion H; subst. apply Hsame. reflexivity.
  - inversion H; subst. apply Hsame. reflexivity.
  - destruct (find_client (y_server y) slot); [inversion H; subst; apply Hsame; reflexivity|].
    destruct (al_get slot (y_clients y)) as [cl|] eqn:Ec; [|inversion H; subst; apply Hsame; reflexivity].
    destruct (sv_running (y_server y)); inversion H; subst; [|apply Hsame; reflexivity].
    apply (Hins slot (set_status cl Connected)); [reflexivity|]. exists cl. split; [exact Ec|]. right. left. exists max. reflexivity.
  - inversion H; subst. apply Hsame. reflexivity.
  - destruct (al_get slot (y_clients y)) as [cl|] eqn:Ec; inversion H; subst; [|apply Hsame; reflexivity].
    apply (Hins slot (set_status cl Disconnected)); [reflexivity|]. exists cl. split; [exact Ec|]. right. right. auto.
  - destruct (server_frame (y_cfg y) (y_server y) tick dt cleanup ops parts) as [[s' fo]| |]; cbn [bind] in H; try discriminate.
    inversion H; subst. apply Hsame. rewrite (proj2 (proj2 (enqueue_fields _ _))). reflexivity.
  - destruct (al_get slot (y_clients y)) as [cl|] eqn:Ec; [|inversion H; subst; apply Hsame; reflexivity].
    destruct (client_frame cl ops) as [[cl' cfo]| |] eqn:Ef; cbn [bind] in H; try discriminate. inversion H; subst.
    apply (Hins slot cl').
    + cbn [set_server y_clients]. destruct (cfo_acks cfo); [reflexivity|]. destruct (cl_status cl'); reflexivity.
    + exists cl. split; [exact Ec|]. left. exact (client_frame_status cl ops cl' cfo Ef).
  - destruct (al_get slot (y_clients y)) as [cl|] eqn:Ec; [|inversion H; subst; apply Hsame; reflexivity].
    destruct s2c; [destruct (ch =? 0); [|destruct (ch =? 1)]|destruct (ch =? 0)];
      try (inversion H; subst; apply Hsame; reflexivity; fail); destruct (take w _) as [picked rest]; inversion H; subst.
    + apply (Hins slot (fold_left deliver_update picked cl)); [reflexivity|]. exists cl. split; [exact Ec|]. left.
      apply fold_status. apply deliver_update_status.
    + apply (Hins slot (fold_left deliver_mutate picked cl)); [reflexivity|]. exists cl. split; [exact Ec|]. left.
      apply fold_status. apply deliver_mutate_status.
    + apply Hsame. reflexivity.
  - destruct (al_get slot (y_clients y)) as [cl|] eqn:Ec; [|inversion H; subst; apply Hsame; reflexivity].
    destruct s2c; [destruct (ch =? 0); [|destruct (ch =? 1)]|destruct (ch =? 0)];
      try (inversion H; subst; apply Hsame; reflexivity; fail); destruct (take w _) as [picked rest]; inversion H; subst.
    + apply (Hins slot cl); [reflexivity|]. exists cl. auto.
    + apply (Hins slot cl); [reflexivity|]. exists cl. auto.
    + apply Hsame. reflexivity.
Qed.

(* ending sessions never panics, whatever is in flight: a script in which client frames are run only by clients whose
   session has been ended (`StDisconnect`) and not restarted succeeds from EVERY state.  [disc] : the slots known not
   to be connected *)
Fixpoint ends_only (disc : list N) (script : list step) : bool :=
  match script with
  | [] => true
  | st :: r =>
    match st with
    | StCFrame slot _ => mem_N slot disc && ends_only disc r
    | StDisconnect slot => ends_only (slot :: disc) r
    | StConnect slot _ => ends_only (filter (fun k => negb (k =? slot)) disc) r
    | _ => ends_only disc r
    end
  end.

Definition all_disconnected (y : sys) (disc : list N) : Prop :=
  forall slot cl, In slot disc -> al_get slot (y_clients y) = Some cl -> cl_status cl = Disconnected.

Lemma mem_N_In k l : mem_N k l = true -> In k l.
Proof.
  unfold mem_N. intros H. apply existsb_exists in H. destruct H as [x [Hx E]]. assert (x = k) by lia. subst. exact Hx.
Qed.

Lemma cframe_disconnected_total y slot ops :
  (forall cl, al_get slot (y_clients y) = Some cl -> cl_status cl = Disconnected) ->
  exists y1 o, sys_step y (StCFrame slot ops) = Ok (y1, o).
Proof.
  intros Hd. cbn [sys_step]. destruct (al_get slot (y_clients y)) as [cl|]; [|eauto].
  destruct (client_frame_disconnected_total cl ops (Hd cl eq_refl)) as [[cl' cfo] Hr]. rewrite Hr. cbn [bind]. eauto.
Qed.

Theorem session_ends_total script : forall y disc, all_disconnected y disc -> ends_only disc script = true ->
  exists y', run y script = Ok y'.
Proof.
  induction script as [|st t IH]; intros y disc Hd H; cbn [run]; [eexists; reflexivity|].
  assert (Hkeep : forall y1 o, sys_step y st = Ok (y1, o) ->
            (forall sl max, st <> StConnect sl max) -> (forall sl, st <> StDisconnect sl) -> all_disconnected y1 disc).
  { intros y1 o E N1 N2 sl c1 Hin Hc1. destruct (step_status y st y1 o E sl c1 Hc1) as [c0 [Hc0 [Hs|[[max Hs]|[Hs _]]]]].
    - rewrite Hs. exact (Hd sl c0 Hin Hc0).
    - exfalso. exact (N1 sl max Hs).
    - exfalso. exact (N2 sl Hs). }
  destruct st as [| |slot max|slot|slot|tick dt cleanup ops parts|slot ops|slot s2c ch w|slot s2c ch w]; cbn [ends_only] in H.
  - destruct (server_steps_total y StStart) as [y1 [o E]]; [discriminate|]. rewrite E. cbn [bind].
    apply (IH y1 disc); [apply (Hkeep y1 o E); discriminate|exact H].
  - destruct (server_steps_total y StStop) as [y1 [o E]]; [discriminate|]. rewrite E. cbn [bind].
    apply (IH y1 disc); [apply (Hkeep y1 o E); discriminate|exact H].
  - destruct (server_steps_total y (StConnect slot max)) as [y1 [o E]]; [discriminate|]. rewrite E. cbn [bind].
    apply (IH y1 (filter (fun k => negb (k =? slot)) disc)); [|exact H]. intros sl c1 Hin Hc1. apply filter_In in Hin. destruct Hin as [Hin Hne].
    destruct (step_status y _ y1 o E sl c1 Hc1) as [c0 [Hc0 [Hs|[[max' Hs]|[Hs _]]]]].
    + rewrite Hs. exact (Hd sl c0 Hin Hc0).
    + exfalso. inversion Hs; subst. rewrite N.eqb_refl in Hne. discriminate.
    + discriminate.
  - destruct (server_steps_total y (StAuthorize slot)) as [y1 [o E]]; [discriminate|]. rewrite E. cbn [bind].
    apply (IH y1 disc); [apply (Hkeep y1 o E); discriminate|exact H].
  - destruct (server_steps_total y (StDisconnect slot)) as [y1 [o E]]; [discriminate|]. rewrite E. cbn [bind].
    apply (IH y1 (slot :: disc)); [|exact H]. intros sl c1 Hin Hc1.
    destruct (step_status y _ y1 o E sl c1 Hc1) as [c0 [Hc0 [Hs|[[max' Hs]|[_ Hs]]]]]; [|discriminate|exact Hs].
    destruct Hin as [<-|Hin]; [|rewrite Hs; exact (Hd sl c0 Hin Hc0)].
    cbn [sys_step] in E. rewrite Hc0 in E. inversion E; subst y1.
    cbn [clear_link set_link set_client y_clients] in Hc1. rewrite al_get_insert_same in Hc1. inversion Hc1. reflexivity.
  - destruct (server_steps_total y (StSFrame tick dt cleanup ops parts)) as [y1 [o E]]; [discriminate|]. rewrite E. cbn [bind].
    apply (IH y1 disc); [apply (Hkeep y1 o E); discriminate|exact H].
  - apply andb_prop in H. destruct H as [Hm H]. apply mem_N_In in Hm.
    destruct (cframe_disconnected_total y slot ops) as [y1 [o E]]; [intros cl Hc; exact (Hd slot cl Hm Hc)|]. rewrite E. cbn [bind].
    apply (IH y1 disc); [apply (Hkeep y1 o E); discriminate|exact H].
  - destruct (server_steps_total y (StDeliver slot s2c ch w)) as [y1 [o E]]; [discriminate|]. rewrite E. cbn [bind].
    apply (IH y1 disc); [apply (Hkeep y1 o E); discriminate|exact H].
  - destruct (server_steps_total y (StDrop slot s2c ch w)) as [y1 [o E]]; [discriminate|]. rewrite E. cbn [bind].
    apply (IH y1 disc); [apply (Hkeep y1 o E); discriminate|exact H].
Qed.

(* the two session ends of the property text, from any state whatever is in flight: the client is disconnected and
   runs a frame (then it may connect again); the server is stopped and runs a frame *)
Corollary disconnect_then_frame_total y slot ops max :
  exists y', run y [StDisconnect slot; StCFrame slot ops; StConnect slot max] = Ok y'.
Proof.
  apply (session_ends_total _ y []); [intros sl cl []|]. cbn [ends_only mem_N existsb]. rewrite N.eqb_refl. reflexivity.
Qed.

Corollary stop_then_frame_total y tick dt (cleanup : bool) ops parts slots :
  exists y', run y (StStop :: StSFrame tick dt cleanup ops parts :: map StDisconnect slots ++ [StStart]) = Ok y'.
Proof.
  apply (session_ends_total _ y []); [intros sl cl []|]. cbn [ends_only].
  generalize (@nil N). induction slots as [|a t IH]; intros d; cbn [map app ends_only]; [reflexivity|apply IH].
Qed.
