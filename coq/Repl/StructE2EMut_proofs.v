(* C03 end to end, with mutate messages.  Same composition as Repl/StructE2E_proofs.v, but the
   mutation channel may deliver (in any order, with losses): the history argument of
   Repl/ClientHist_proofs.v shows that a mutate message never changes the structure a client holds.

   Scope: single-session scripts (no StStop, no StDisconnect), policy PAll, legal scripts, no `SMap`
   server operations, fewer than 2^31 ticking server frames (replicon ticks do not wrap).

   Additional ghost facts carried per connected client: ticks of the update messages sent to it are
   bounded by the server tick and strictly increasing; every replicated entity it holds was confirmed
   at the tick of the last applied update message that mentioned it, or later ([ent_hist_ok]); every
   mutate message in its queue, inbox or buffer satisfies [mmsg_ok]; the server's `update_tick` of the
   client is the tick of the last update message sent. *)
From RV Require Import Lib.Res Repl.ClientTicks Repl.ClientTicks_proofs Repl.World Vis.Visibility
  Tick.RepliconTick Tick.RepliconTick_proofs Tick.ConfirmHistory Tick.MutateTicks
  Repl.Server Repl.ServerSpec Repl.Server_proofs Repl.StructSpec Repl.Struct_proofs
  Repl.StructOps_proofs Repl.StructRun_proofs
  Repl.Client Repl.Sys Repl.Client_proofs Repl.ClientEnt_proofs Repl.ClientMut_proofs Repl.ClientSys_proofs
  Repl.ClientStructSpec Repl.ClientStruct_proofs Repl.ClientHist_proofs Repl.StructE2E_proofs.
From Coq Require Import ZifyBool ZifyN.
Open Scope N_scope.
Ltac Zify.zify_post_hook ::= Z.div_mod_to_equations.
Arguments N.add : simpl never. Arguments N.mul : simpl never. Arguments N.pow : simpl never.
Arguments N.ltb : simpl never. Arguments N.leb : simpl never. Arguments N.div : simpl never.
Arguments N.modulo : simpl never. Arguments N.sub : simpl never. Arguments N.eqb : simpl never.

(* ================================================================== *)
(* 0. scripts                                                         *)
(* ================================================================== *)

Definition step_okm (st : step) : bool := legal_step st && single_session_step st && no_smap_step st.
Definition script_okm (script : list step) : bool := forallb step_okm script.

Lemma script_okm_split script : script_okm script = legal script && single_session script && no_smap script.
Proof.
  unfold script_okm, legal, single_session, no_smap.
  induction script as [|st t IH]; cbn [forallb]; [reflexivity|]. rewrite IH. unfold step_okm.
  destruct (legal_step st), (single_session_step st), (no_smap_step st),
    (forallb legal_step t), (forallb single_session_step t), (forallb no_smap_step t); reflexivity.
Qed.

(* number of server frames that increment the replicon tick *)
Definition is_tick_frame (st : step) : bool := match st with StSFrame true _ _ _ _ => true | _ => false end.
Definition tick_frames (script : list step) : N :=
  fold_left (fun n st => if is_tick_frame st then n + 1 else n) script 0.

Lemma tick_frames_snoc script st :
  tick_frames (script ++ [st]) = if is_tick_frame st then tick_frames script + 1 else tick_frames script.
Proof. unfold tick_frames. rewrite fold_left_app. reflexivity. Qed.

(* ================================================================== *)
(* 1. the server side: ticks, update ticks, mutate messages           *)
(* ================================================================== *)

Lemma ops_flags ops : forall s, flags_same s (fold_left apply_sop ops s).
Proof.
  induction ops as [|op t IH]; intros s; cbn [fold_left]; [apply flags_same_refl|].
  eapply flags_same_trans; [apply apply_sop_flags|apply IH].
Qed.

Lemma server_frame_ticks c s tick dt (cleanup : bool) ops parts s' fo :
  (sv_running s = false -> sv_last_running s = false) ->
  server_frame c s tick dt cleanup ops parts = Ok (s', fo) ->
  sv_tick s' = (if tick then tick_add (sv_tick s) 1 else sv_tick s) /\ sv_dirty s' = false /\
  sv_last_running s' = sv_running s' /\ sv_running s' = sv_running s /\
  (fo_clients fo <> [] -> tick = true \/ sv_dirty s = true).
Proof.
  intros Hlr H. unfold server_frame in H.
  set (s1 := with_time_tick s tick dt) in *.
  set (s2 := if sv_running s1 then (let r := receive_acks s1 in if cleanup then cleanup_acks c r else r) else s1) in *.
  assert (F2 : sv_tick s2 = sv_tick s1 /\ sv_dirty s2 = sv_dirty s1 /\ sv_running s2 = sv_running s1 /\
               sv_last_running s2 = sv_last_running s1).
  { unfold s2. destruct (sv_running s1) eqn:E; [|auto]. cbv zeta. destruct cleanup; repeat split; try reflexivity; exact E. }
  destruct F2 as (A1 & A2 & A3 & A4).
  destruct (ops_flags ops s2) as (B1 & B2 & B3 & B4 & _). set (s3 := fold_left apply_sop ops s2) in *.
  assert (T3 : sv_tick s3 = (if tick then tick_add (sv_tick s) 1 else sv_tick s)) by (rewrite B4, A1; reflexivity).
  assert (D3 : sv_dirty s3 = sv_dirty s || tick) by (rewrite B3, A2; reflexivity).
  assert (R3 : sv_running s3 = sv_running s) by (rewrite B1, A3; reflexivity).
  assert (L3 : sv_last_running s3 = sv_last_running s) by (rewrite B2, A4; reflexivity).
  destruct (sv_running s3) eqn:Er3.
  - change (sv_dirty (buffer_removals s3)) with (sv_dirty s3) in H. destruct (sv_dirty s3) eqn:Ed.
    + rewrite send_replication_eq in H. cbn [bind] in H. injection H as <- <-. cbn.
      split; [exact T3|]. split; [reflexivity|]. split; [reflexivity|]. split; [congruence|].
      intros _. symmetry in D3. apply orb_prop in D3. destruct D3; auto.
    + cbn [bind] in H. injection H as <- <-. cbn.
      split; [exact T3|]. split; [exact Ed|]. split; [reflexivity|]. split; [congruence|]. intros Hn. congruence.
  - cbn [bind] in H. injection H as <- <-. rewrite L3, (Hlr (eq_trans (eq_sym R3) eq_refl)). cbn.
    split; [exact T3|]. split; [reflexivity|]. split; [reflexivity|]. split; [congruence|]. intros Hn. congruence.
Qed.

(* the `update_tick` the server keeps for a client: [lt slot] when known *)
Definition upd_ticks_ok (lt : N -> option N) (s : server) : Prop :=
  forall cl, In cl (sv_clients s) -> sc_authorized cl = true ->
    forall t, lt (sc_slot cl) = Some t -> ct_update_tick (sc_ticks cl) = t.

Lemma upd_ticks_same lt s s' : sv_clients s' = sv_clients s -> upd_ticks_ok lt s -> upd_ticks_ok lt s'.
Proof. intros E H cl. rewrite E. apply H. Qed.

Lemma ack_fold_upd_tick this_run idxs : forall t,
  ct_update_tick (fold_left (fun t i => ack_mutate_message t this_run i) idxs t) = ct_update_tick t.
Proof.
  induction idxs as [|i r IH]; intros t; cbn [fold_left]; [reflexivity|]. rewrite IH.
  exact (proj1 (ack_frame t this_run i)).
Qed.

Lemma receive_acks_upd_ticks lt s : upd_ticks_ok lt s -> upd_ticks_ok lt (receive_acks s).
Proof.
  unfold upd_ticks_ok, receive_acks. cbn [sv_clients]. generalize (sv_clients s) as cls.
  induction (sv_inbox_acks s) as [|[slot idxs] msgs IH]; intros cls H; cbn [fold_left]; [exact H|].
  apply IH. intros cl Hin Ha t Hl. apply in_map_iff in Hin. destruct Hin as [c1 [E Hc1]].
  destruct ((sc_slot c1 =? slot) && sc_authorized c1) eqn:Eb; subst cl.
  - cbn in *. rewrite ack_fold_upd_tick. apply andb_prop in Eb. exact (H c1 Hc1 (proj2 Eb) t Hl).
  - exact (H c1 Hc1 Ha t Hl).
Qed.

Lemma cleanup_acks_upd_ticks lt c s : upd_ticks_ok lt s -> upd_ticks_ok lt (cleanup_acks c s).
Proof.
  intros H cl Hin Ha t Hl. unfold cleanup_acks, set_clients in Hin. cbn [sv_clients] in Hin.
  apply in_map_iff in Hin. destruct Hin as [c1 [E Hc1]]. subst cl. cbn in *. exact (H c1 Hc1 Ha t Hl).
Qed.

Lemma apply_sop_upd_ticks lt s op : sop_ok op = true -> upd_ticks_ok lt s -> upd_ticks_ok lt (apply_sop s op).
Proof.
  intros Hok H.
  destruct op as [e marker comps|e|e k v|e k|e k v|e|e|slot e visible|slot e pc]; unfold apply_sop; try discriminate.
  - destruct (get_ent s e); [exact H|]. revert H. apply upd_ticks_same. reflexivity.
  - destruct (get_ent s e) as [x|]; [|exact H]. destruct (se_alive x); [|exact H].
    destruct (se_marker x); revert H; apply upd_ticks_same; [rewrite sv_clients_buffer_despawn|]; reflexivity.
  - destruct (get_ent s e) as [x|]; [|exact H]. destruct (se_alive x && val_ok s v); [|exact H].
    revert H. apply upd_ticks_same. reflexivity.
  - destruct (get_ent s e) as [x|]; [|exact H]. destruct (se_alive x); [|exact H].
    destruct (al_get k (se_comps x)); [|exact H]. revert H. apply upd_ticks_same. reflexivity.
  - destruct (get_ent s e) as [x|]; [|exact H]. destruct (se_alive x && val_ok s v); [|exact H].
    destruct (al_get k (se_comps x)); [|exact H]. revert H. apply upd_ticks_same. reflexivity.
  - destruct (get_ent s e) as [x|]; [|exact H]. destruct (se_alive x); [|exact H].
    destruct (se_marker x); [exact H|]. revert H. apply upd_ticks_same. reflexivity.
  - destruct (get_ent s e) as [x|]; [|exact H]. destruct (se_alive x); [|exact H].
    destruct (se_marker x); [|exact H]. revert H. apply upd_ticks_same. rewrite sv_clients_buffer_despawn. reflexivity.
  - destruct (find_client s slot) as [c0|] eqn:Ef; [|exact H]. destruct (get_ent s e); [|exact H].
    destruct (sc_vis c0) as [v0|]; [|exact H].
    unfold find_client in Ef. apply find_some in Ef. destruct Ef as [Hc0 _].
    intros cl Hin Ha t Hl. unfold update_client, set_clients in Hin. cbn [sv_clients] in Hin.
    apply in_map_iff in Hin. destruct Hin as [c1 [E Hc1]].
    destruct (sc_slot c1 =? _); subst cl; [cbn in *; exact (H c0 Hc0 Ha t Hl)|exact (H c1 Hc1 Ha t Hl)].
Qed.

Lemma ops_upd_ticks lt ops : forall s, forallb sop_ok ops = true -> upd_ticks_ok lt s -> upd_ticks_ok lt (fold_left apply_sop ops s).
Proof.
  induction ops as [|op t IH]; intros s Hok H; cbn [fold_left]; [exact H|].
  cbn [forallb] in Hok. apply andb_prop in Hok. destruct Hok as [H1 H2]. apply IH; [exact H2|]. apply apply_sop_upd_ticks; assumption.
Qed.

(* the mutate messages of a frame, and the update tick the server keeps afterwards *)
Lemma server_frame_muts c g tick dt (cleanup : bool) ops parts s' fo lt :
  ginv g -> upd_ticks_ok lt (g_srv g) -> forallb sop_ok ops = true ->
  (sv_running (g_srv g) = false -> sv_clients (g_srv g) = []) ->
  server_frame c (g_srv g) tick dt cleanup ops parts = Ok (s', fo) ->
  (forall o m, In o (fo_clients fo) -> In m (co_mutates o) ->
     m_tick m = sv_tick s' /\
     match co_update o with
     | Some u => m_upd_tick m = u_tick u
     | None => forall t, lt (co_slot o) = Some t -> m_upd_tick m = t
     end /\
     forall e comps, In (e, comps) (m_body m) -> kinds_sub (map fst comps) (kinds_of (struct_of s') e)) /\
  (forall cl', In cl' (sv_clients s') -> sc_authorized cl' = true ->
     match upd_for (sc_slot cl') (fo_clients fo) with
     | Some u => ct_update_tick (sc_ticks cl') = u_tick u
     | None => forall t, lt (sc_slot cl') = Some t -> ct_update_tick (sc_ticks cl') = t
     end).
Proof.
  intros [Hok Hnd Hidle Hcl Hdom] Hut Hops Hrun H. set (s := g_srv g) in *.
  unfold server_frame in H. change (sv_running (with_time_tick s tick dt)) with (sv_running s) in H.
  destruct (sv_running s) eqn:Erun.
  - destruct (frame_running_pre c s tick dt cleanup ops Hok Erun Hnd) as [Hok3 [Hev3 [Hrun3 [Hlr3 [Hsame3 Hp3]]]]].
    cbv zeta in Hok3, Hev3, Hrun3, Hlr3, Hsame3, Hp3.
    set (s2 := if cleanup then cleanup_acks c (receive_acks (with_time_tick s tick dt))
               else receive_acks (with_time_tick s tick dt)) in *.
    set (s3 := fold_left apply_sop ops s2) in *.
    cbv zeta in H. fold s2 in H. fold s3 in H. rewrite Hrun3 in H. set (s3' := buffer_removals s3) in *.
    assert (Hut3 : upd_ticks_ok lt s3').
    { apply (upd_ticks_same lt s3); [reflexivity|]. apply ops_upd_ticks; [exact Hops|]. unfold s2.
      destruct cleanup; [apply cleanup_acks_upd_ticks|]; apply receive_acks_upd_ticks;
        (apply (upd_ticks_same lt s); [reflexivity|exact Hut]). }
    assert (Hnd3 : NoDup (map sc_slot (sv_clients s3'))) by (rewrite (cl_same_slots _ _ Hsame3); exact Hnd).
    destruct (sv_dirty s3') eqn:Ed.
    + rewrite send_replication_eq in H. cbn [bind] in H. injection H as <- <-. cbn [fo_clients].
      set (rs := map (client_result_pure c s3' parts) (sv_clients s3')) in *.
      assert (Hsfc : forall cl3, In cl3 (sv_clients s3') -> sc_authorized cl3 = true ->
                let P := sfc_pure c s3' (sv_now s3') cl3 (part_for parts cl3) in
                (forall m, In m (co_mutates (snd P)) ->
                   m_tick m = sv_tick s3' /\
                   m_upd_tick m = (if sfc_has_upd s3' (sv_now s3') cl3 then sv_tick s3' else ct_update_tick (sc_ticks cl3)) /\
                   forall e comps, In (e, comps) (m_body m) -> kinds_sub (map fst comps) (kinds_of (struct_of s3') e)) /\
                co_update (snd P) = (if sfc_has_upd s3' (sv_now s3') cl3 then Some (sfc_upd s3' (sv_now s3') cl3) else None) /\
                co_slot (snd P) = sc_slot cl3 /\
                ct_update_tick (sc_ticks (fst P)) = (if sfc_has_upd s3' (sv_now s3') cl3 then sv_tick s3' else ct_update_tick (sc_ticks cl3))).
      { intros cl3 Hin Ha P. pose proof (send_for_client_eq c s3' (sv_now s3') cl3 (part_for parts cl3)) as Hsend. fold P in Hsend.
        destruct P as [cl' out] eqn:EP. cbn [fst snd].
        destruct (sfc_result _ _ _ _ _ _ _ Hsend) as [Ecl Eout].
        destruct (sfc_ticks3_fields s3' (sv_now s3') cl3) as (_ & _ & _ & T3).
        split; [|split; [rewrite Eout; reflexivity|split; [rewrite Eout; reflexivity|]]].
        - intros m Hm. pose proof Hm as Hm0. rewrite Eout in Hm. cbn [co_mutates] in Hm. apply mut_msgs_header in Hm.
          destruct Hm as (M1 & M2 & _ & _). split; [exact M2|]. split; [rewrite M1; exact T3|].
          intros e comps Hb. destruct (sfc_body_entry _ _ _ _ _ _ _ m e comps Hsend Hm0 Hb) as [Hmu _].
          apply mutated_set_sound in Hmu. destruct Hmu as (_ & _ & x & madd & Hrep & Hk).
          assert (Hget : repl_get s3' e = Some x) by (apply repl_get_spec; [exact (so_wf _ (proj1 Hok3))|exists madd; exact Hrep]).
          unfold kinds_of. rewrite (al_get_struct_of s3' e (so_wf _ (proj1 Hok3))), Hget. cbn [option_map].
          intros k Hin0. apply in_map_iff in Hin0. destruct Hin0 as [[k0 v0] [Ek Hkv]]. cbn in Ek. subst k0.
          destruct (Hk k v0 Hkv) as [comp [Hc _]]. apply in_map_iff. exists (k, comp). auto.
        - rewrite Ecl. cbn [sc_ticks]. destruct (mut_ticks_fields (sv_now s3') (sv_elapsed s3') (sfc_parts c s3' (sv_now s3') cl3 (part_for parts cl3))
                                             (sfc_ticks3 s3' (sv_now s3') cl3)) as (_ & M & _). rewrite M. exact T3. }
      split.
      * intros o m Ho Hm. unfold outs_of in Ho. apply in_flat_map in Ho. destruct Ho as [r [Hr Ho]].
        unfold rs in Hr. apply in_map_iff in Hr. destruct Hr as [cl3 [<- Hcl3]].
        unfold client_result_pure in Ho. destruct (sc_authorized cl3) eqn:Ea; [|destruct Ho].
        cbn [snd] in Ho. destruct Ho as [<- | []].
        destruct (Hsfc cl3 Hcl3 Ea) as (F1 & F2 & F3 & _). cbv zeta in F1, F2, F3.
        destruct (F1 m Hm) as (G1 & G2 & G3). split; [exact G1|]. split.
        -- rewrite F2, F3. destruct (sfc_has_upd s3' (sv_now s3') cl3); [rewrite G2; reflexivity|].
           intros t Hl. rewrite G2. exact (Hut3 cl3 Hcl3 Ea t Hl).
        -- exact G3.
      * intros cl' Hin Ha. cbn [set_last_running set_after_send sv_clients] in Hin. fold rs in Hin. unfold rs in Hin.
        rewrite map_map in Hin. apply in_map_iff in Hin. destruct Hin as [cl3 [<- Hcl3]].
        assert (Ea : sc_authorized cl3 = true).
        { unfold client_result_pure in Ha. destruct (sc_authorized cl3) eqn:Ea0; [reflexivity|]. cbn [fst] in Ha. congruence. }
        assert (Efst : fst (client_result_pure c s3' parts cl3) = fst (sfc_pure c s3' (sv_now s3') cl3 (part_for parts cl3)))
          by (unfold client_result_pure; rewrite Ea; reflexivity).
        rewrite Efst. destruct (Hsfc cl3 Hcl3 Ea) as (_ & F2 & F3 & F4). cbv zeta in F2, F3, F4.
        change (sc_slot (fst (sfc_pure c s3' (sv_now s3') cl3 (part_for parts cl3)))) with (sc_slot cl3).
        unfold rs. change (sv_clients s3) with (sv_clients s3').
        rewrite (upd_for_outs c s3' parts _ cl3 Hnd3 Hcl3 Ea), F2, F4.
        destruct (sfc_has_upd s3' (sv_now s3') cl3); [reflexivity|]. intros t Hl. exact (Hut3 cl3 Hcl3 Ea t Hl).
    + cbn [bind] in H. injection H as <- <-. cbn [fo_clients]. split; [intros o m []|].
      intros cl' Hin Ha. cbn [upd_for find]. intros t Hl. exact (Hut3 cl' Hin Ha t Hl).
  - specialize (Hrun eq_refl). destruct (server_frame_clients c g tick dt cleanup ops parts s' fo) as (_ & _ & N3 & _ & _ & N6 & _).
    + constructor; assumption.
    + intros cl Hin. fold s in Hin. rewrite Hrun in Hin. destruct Hin.
    + exact Hops.
    + intros _. exact Hrun.
    + unfold server_frame. change (sv_running (with_time_tick (g_srv g) tick dt)) with (sv_running s). rewrite Erun. exact H.
    + fold s in N3. specialize (N3 Erun). split.
      * intros o m Ho. exfalso. destruct (N6 o Ho) as [cl [Hin _]]. rewrite N3 in Hin. destruct Hin.
      * intros cl' Hin. rewrite N3 in Hin. destruct Hin.
Qed.

(* queues of mutate messages *)
Definition mutates_for (slot : N) (outs : list client_out) : list mutate_msg :=
  flat_map (fun o => if co_slot o =? slot then co_mutates o else []) outs.

Lemma enqueue_lmut outs : forall y slot,
  l_mut (get_link (enqueue_outputs y outs) slot) = l_mut (get_link y slot) ++ mutates_for slot outs.
Proof.
  induction outs as [|o t IH]; intros y slot; [cbn; rewrite app_nil_r; reflexivity|].
  unfold enqueue_outputs in *. cbn [fold_left]. rewrite IH. cbn [mutates_for flat_map].
  destruct (co_slot o =? slot) eqn:E.
  - assert (co_slot o = slot) by lia. subst slot. rewrite get_link_set_link_same. cbn [l_mut].
    rewrite <- !app_assoc. reflexivity.
  - rewrite get_link_set_link_other by lia. cbn [app]. reflexivity.
Qed.

Lemma mutates_for_in slot outs m : In m (mutates_for slot outs) -> exists o, In o outs /\ co_slot o = slot /\ In m (co_mutates o).
Proof.
  unfold mutates_for. intros H. apply in_flat_map in H. destruct H as [o [Ho Hm]].
  destruct (co_slot o =? slot) eqn:E; [|destruct Hm]. exists o. split; [exact Ho|]. split; [lia|exact Hm].
Qed.

Lemma upd_for_of_out outs o : NoDup (map co_slot outs) -> In o outs -> upd_for (co_slot o) outs = co_update o.
Proof.
  unfold upd_for. induction outs as [|o1 t IH]; intros Hnd Hin; [destruct Hin|]. cbn [map] in Hnd.
  inversion Hnd as [|? ? Hnin Hnd']; subst. cbn [find]. destruct Hin as [->|Hin].
  - rewrite N.eqb_refl. reflexivity.
  - destruct (co_slot o1 =? co_slot o) eqn:E; [|exact (IH Hnd' Hin)].
    exfalso. apply Hnin. assert (co_slot o1 = co_slot o) by lia. rewrite H. apply in_map. exact Hin.
Qed.

Lemma take_in {A} w (q p r : list A) x : take w q = (p, r) -> In x p \/ In x r -> In x q.
Proof.
  destruct w; cbn [take].
  - destruct q as [|a t]; intros H; inversion H; subst; cbn; tauto.
  - destruct (rev q) as [|a t] eqn:E; intros H; inversion H; subst; [cbn; tauto|].
    intros Hx. apply in_rev. rewrite E. destruct Hx as [[<-|[]]|Hx]; [left; reflexivity|right; apply in_rev; exact Hx].
  - intros H; inversion H; subst. cbn. tauto.
Qed.

Lemma deliver_mutates_fields p : forall cl, cl_status cl = Connected ->
  let cl' := fold_left deliver_mutate p cl in
  cl_s2c cl' = cl_s2c cl /\ cl_c2s cl' = cl_c2s cl /\ cl_ents cl' = cl_ents cl /\ cl_next cl' = cl_next cl /\
  cl_upd_tick cl' = cl_upd_tick cl /\ cl_inbox_mut cl' = cl_inbox_mut cl ++ p /\ cl_buffered cl' = cl_buffered cl /\
  cl_status cl' = Connected /\ cl_inbox_upd cl' = cl_inbox_upd cl.
Proof.
  induction p as [|m t IH]; intros cl Hc; cbn [fold_left]; [cbv zeta; rewrite app_nil_r; auto 10|].
  assert (E : deliver_mutate cl m = mkCli (cl_status cl) (cl_last_connected cl) (cl_last_not_disconnected cl) (cl_upd_tick cl)
                (cl_s2c cl) (cl_c2s cl) (cl_ents cl) (cl_next cl) (cl_buffered cl) (cl_mticks cl) (cl_inbox_upd cl) (cl_inbox_mut cl ++ [m])).
  { unfold deliver_mutate. rewrite Hc. reflexivity. }
  rewrite E. match goal with |- context [fold_left deliver_mutate t ?c2] => destruct (IH c2 Hc) as (A & B & C & D & F & G & K & L & M) end.
  cbv zeta. cbn [cl_s2c cl_c2s cl_ents cl_next cl_upd_tick cl_inbox_mut cl_buffered cl_inbox_upd] in *.
  rewrite A, B, C, D, F, G, K, L, M, <- app_assoc. auto 10.
Qed.

Lemma ticks_incr_snoc l u : ticks_incr l -> (forall a, In a l -> u_tick a < u_tick u) -> ticks_incr (l ++ [u]).
Proof.
  intros H Hu p q E a b Ha Hb. symmetry in E. apply app_snoc_split in E. destruct E as [[-> ->]|[q' [-> E]]]; [destruct Hb|].
  apply in_app_or in Hb. destruct Hb as [Hb|[<-|[]]].
  - exact (H p q' E a b Ha Hb).
  - apply Hu. rewrite E. apply in_or_app. left. exact Ha.
Qed.

Lemma ticks_incr_nil : ticks_incr [].
Proof. intros p q E a b Ha. destruct p; [destruct Ha|discriminate]. Qed.

Lemma kinds_sub_equiv ks S1 S2 e : struct_equiv S1 S2 -> kinds_sub ks (kinds_of S1 e) -> kinds_sub ks (kinds_of S2 e).
Proof.
  intros He H k Hk. apply H in Hk. apply mem_N_In. rewrite <- (kinds_of_equiv S1 S2 e He k). apply mem_N_In. exact Hk.
Qed.

(* ================================================================== *)
(* 2. the invariant                                                   *)
(* ================================================================== *)

Section E2EM.
  Variables (cfg0 : cfg) (nclients : N).
  Hypothesis Hpol : cfg_policy cfg0 = PAll.

  Definition bound_ok (s : server) (t : N) : Prop := t <= sv_tick s /\ sv_dirty s = false.

  Record mconn_inv (script : list step) (s : server) (gs : list (N * structure)) (slot : N)
         (pend : list update_msg) (lmut : list mutate_msg) (c : client) (applied : list update_msg) : Prop := mkMConn {
    mc_rel : srel c (fold_left abs_apply applied []);
    mc_sent : fold_left abs_apply (applied ++ pend) [] = sent_of slot gs;
    mc_nomaps : forallb no_maps pend = true;
    mc_tick : applied <> [] -> cl_upd_tick c = u_tick (last applied dflt_upd);
    mc_snaps : snaps cfg0 nclients script (applied ++ pend);
    mc_bound : forall u, In u (applied ++ pend) -> bound_ok s (u_tick u);
    mc_incr : ticks_incr (applied ++ pend);
    mc_hist : ent_hist_ok applied c;
    mc_muts : forall m, In m (lmut ++ cl_inbox_mut c ++ cl_buffered c) -> mmsg_ok (applied ++ pend) m /\ bound_ok s (m_tick m);
    mc_auth : applied ++ pend <> [] -> has_auth s slot;
    mc_srv : forall cl, In cl (sv_clients s) -> sc_slot cl = slot -> sc_authorized cl = true ->
             applied ++ pend <> [] -> ct_update_tick (sc_ticks cl) = u_tick (last (applied ++ pend) dflt_upd)
  }.

  Record mslot_inv (script : list step) (s : server) (gs : list (N * structure)) (slot : N)
         (lupd : list update_msg) (lmut : list mutate_msg) (c : client) : Prop := mkMSlot {
    ms_cs : cs_inv c;
    ms_pu : pu c;
    ms_hs : hist_small c;
    ms_rec : has_rec s slot <-> cl_status c = Connected;
    ms_idle : cl_status c = Disconnected ->
              srel c [] /\ cl_inbox_upd c = [] /\ lupd = [] /\ lmut = [] /\ cl_inbox_mut c = [] /\ cl_buffered c = [];
    ms_conn : cl_status c = Connected ->
              exists applied, mconn_inv script s gs slot (cl_inbox_upd c ++ lupd) lmut c applied
  }.

  Record m_inv (script : list step) (y : sys) (gs : list (N * structure)) : Prop := mkMInv {
    mi_cfg : y_cfg y = cfg0;
    mi_ginv : ginv (mkG (y_server y) gs);
    mi_nomaps : nomaps_srv (y_server y);
    mi_run : sv_running (y_server y) = false -> sv_clients (y_server y) = [];
    mi_lr : sv_running (y_server y) = false -> sv_last_running (y_server y) = false;
    mi_tick : sv_tick (y_server y) = tick_frames script;
    mi_slots : forall slot c, al_get slot (y_clients y) = Some c ->
               mslot_inv script (y_server y) gs slot (l_upd (get_link y slot)) (l_mut (get_link y slot)) c
  }.

  Lemma mconn_inv_mono script st s s' gs gs' slot pend lmut c applied :
    sent_of slot gs' = sent_of slot gs -> sv_tick s' = sv_tick s -> sv_dirty s' = sv_dirty s ->
    (has_auth s slot -> has_auth s' slot) ->
    (applied ++ pend <> [] -> forall cl', In cl' (sv_clients s') -> sc_slot cl' = slot -> sc_authorized cl' = true ->
       exists cl, In cl (sv_clients s) /\ sc_slot cl = slot /\ sc_authorized cl = true /\ sc_ticks cl = sc_ticks cl') ->
    mconn_inv script s gs slot pend lmut c applied -> mconn_inv (script ++ [st]) s' gs' slot pend lmut c applied.
  Proof.
    intros E Et Ed Ha Hs [H1 H2 H3 H4 H5 H6 H7 H8 H9 H10 H11].
    assert (Hb : forall t, bound_ok s t -> bound_ok s' t) by (unfold bound_ok; intros t; rewrite Et, Ed; auto).
    constructor; [exact H1|congruence|exact H3|exact H4|apply snaps_mono; exact H5| |exact H7|exact H8| |auto|].
    - intros u Hu. apply Hb. exact (H6 u Hu).
    - intros m Hm. destruct (H9 m Hm) as [A B]. split; [exact A|apply Hb; exact B].
    - intros cl' Hin Hsl Hau Hne. destruct (Hs Hne cl' Hin Hsl Hau) as (cl & A & B & C & D). rewrite <- D. exact (H11 cl A B C Hne).
  Qed.

  Lemma mslot_inv_mono script st s s' gs gs' slot lupd lmut c :
    (has_rec s' slot <-> has_rec s slot) -> sent_of slot gs' = sent_of slot gs ->
    sv_tick s' = sv_tick s -> sv_dirty s' = sv_dirty s -> (has_auth s slot -> has_auth s' slot) ->
    (forall applied, mconn_inv script s gs slot (cl_inbox_upd c ++ lupd) lmut c applied ->
       applied ++ cl_inbox_upd c ++ lupd <> [] ->
       forall cl', In cl' (sv_clients s') -> sc_slot cl' = slot -> sc_authorized cl' = true ->
       exists cl, In cl (sv_clients s) /\ sc_slot cl = slot /\ sc_authorized cl = true /\ sc_ticks cl = sc_ticks cl') ->
    mslot_inv script s gs slot lupd lmut c -> mslot_inv (script ++ [st]) s' gs' slot lupd lmut c.
  Proof.
    intros Hr E Et Ed Ha Hs [H1 H2 H3 H4 H5 H6]. constructor; [exact H1|exact H2|exact H3|rewrite Hr; exact H4|exact H5|].
    intros Hc. destruct (H6 Hc) as [applied Hm]. exists applied.
    exact (mconn_inv_mono script st s s' gs gs' slot _ lmut c applied E Et Ed Ha (Hs applied Hm) Hm).
  Qed.

  (* the server records that matter are the same *)
  Lemma same_records s s' slot : sv_clients s' = sv_clients s ->
    forall cl', In cl' (sv_clients s') -> sc_slot cl' = slot -> sc_authorized cl' = true ->
    exists cl, In cl (sv_clients s) /\ sc_slot cl = slot /\ sc_authorized cl = true /\ sc_ticks cl = sc_ticks cl'.
  Proof. intros E cl' Hin Hs Ha. rewrite E in Hin. exists cl'. auto. Qed.

  Lemma has_auth_clients s s' slot : sv_clients s' = sv_clients s -> has_auth s slot -> has_auth s' slot.
  Proof. unfold has_auth. intros ->. auto. Qed.

  Lemma m_same script st y gs y' :
    m_inv script y gs -> is_tick_frame st = false ->
    y_cfg y' = y_cfg y -> (forall slot, al_get slot (y_clients y') = al_get slot (y_clients y)) ->
    (forall slot, l_upd (get_link y' slot) = l_upd (get_link y slot)) ->
    (forall slot, l_mut (get_link y' slot) = l_mut (get_link y slot)) ->
    sv_clients (y_server y') = sv_clients (y_server y) ->
    sv_tick (y_server y') = sv_tick (y_server y) -> sv_dirty (y_server y') = sv_dirty (y_server y) ->
    (sv_running (y_server y') = false -> sv_running (y_server y) = false) ->
    sv_last_running (y_server y') = sv_last_running (y_server y) ->
    ginv (mkG (y_server y') gs) -> m_inv (script ++ [st]) y' gs.
  Proof.
    intros [H1 H2 H3 H4 H5 H6 H7] Hnt E1 E2 E3 E3m E4 Et Ed Er El Hg. constructor.
    - congruence.
    - exact Hg.
    - revert H3. apply nomaps_same. exact E4.
    - intros Hr. rewrite E4. apply H4. apply Er. exact Hr.
    - intros Hr. rewrite El. apply H5. apply Er. exact Hr.
    - rewrite tick_frames_snoc, Hnt, Et. exact H6.
    - intros slot c Hc. rewrite E2 in Hc. rewrite E3, E3m.
      apply (mslot_inv_mono script st (y_server y) _ gs gs); try assumption; try reflexivity.
      + split; apply has_rec_clients; [exact E4|symmetry; exact E4].
      + apply has_auth_clients. exact E4.
      + intros applied _ _. apply same_records. exact E4.
      + exact (H7 slot c Hc).
  Qed.

  Lemma ent_hist_nil c : cs_inv c -> srel c [] -> ent_hist_ok [] c.
  Proof.
    intros Hinv Hrel e cid x Hs Hx Hm. exfalso. destruct (ci_mapped c Hinv e cid Hs) as [x0 [Hx0 Ha]].
    assert (x0 = x) by congruence. subst x0. specialize (Hrel e).
    rewrite (cs_get_mapped c e cid x Hs Hx), Ha, Hm in Hrel. exact Hrel.
  Qed.

  Lemma m_init : m_inv [] (sys_init cfg0 nclients) [].
  Proof.
    constructor; try reflexivity.
    - exact ginit_inv.
    - intros cl [].
    - intros slot c Hc. cbn [sys_init y_clients] in Hc. apply al_get_map_const in Hc. subst c.
      assert (Hl : get_link (sys_init cfg0 nclients) slot = link_empty).
      { unfold get_link. cbn [sys_init y_links].
        destruct (al_get slot (map (fun i : N => (i, link_empty)) (map N.of_nat (seq 0 (N.to_nat nclients))))) as [l|] eqn:E; [|reflexivity].
        apply al_get_map_const in E. exact E. }
      rewrite Hl. constructor.
      + apply cs_inv_init.
      + apply pu_init.
      + intros cid x h H. discriminate.
      + split; [intros [cl [[] _]]|cbn; discriminate].
      + intros _. split; [intros e; exact I|]. cbn. auto 6.
      + cbn. discriminate.
  Qed.

  (* ---------- StStart ---------- *)

  Lemma m_start script y gs : m_inv script y gs ->
    m_inv (script ++ [StStart]) (set_server y (set_running (y_server y) true)) gs.
  Proof.
    intros H. apply (m_same script StStart y gs); try reflexivity; [exact H|discriminate|].
    exact (gstep_inv cfg0 (mkG (y_server y) gs) GStart _ Hpol (mi_ginv _ _ _ H) eq_refl).
  Qed.

  (* ---------- StConnect ---------- *)

  Lemma m_connect script y gs slot0 max y' o :
    m_inv script y gs -> sys_step y (StConnect slot0 max) = Ok (y', o) ->
    m_inv (script ++ [StConnect slot0 max]) y' (ghost_step y gs (StConnect slot0 max)).
  Proof.
    intros Hinv H. pose proof Hinv as [Hcfg Hg Hnm Hrun Hlr Htk Hslots].
    assert (Hnoop : m_inv (script ++ [StConnect slot0 max]) y gs).
    { apply (m_same script _ y gs); try reflexivity; auto. }
    cbn [sys_step ghost_step] in *. rewrite Hcfg in *.
    destruct (find_client (y_server y) slot0) as [c0|] eqn:Ef; [inversion H; subst; exact Hnoop|].
    destruct (al_get slot0 (y_clients y)) as [cl|] eqn:Ec; [|inversion H; subst; exact Hnoop].
    destruct (sv_running (y_server y)) eqn:Er; [|inversion H; subst; exact Hnoop].
    inversion H; subst y' o. clear H Hnoop. set (s := y_server y) in *.
    set (s' := connect_client cfg0 s slot0 max).
    pose proof (connect_inv cfg0 (mkG s gs) slot0 max Hpol Hg) as Hg'. cbn [g_srv g_sent] in Hg'. fold s' in Hg'.
    assert (F1 : exists cnew, sv_clients s' = sv_clients s ++ [cnew] /\ sc_slot cnew = slot0 /\ sc_pending_map cnew = []).
    { unfold s', connect_client. fold s. rewrite Er, Ef. eexists. split; [reflexivity|].
      destruct (cfg_auth cfg0); cbn; auto. }
    destruct F1 as (cnew & F1 & F2 & F3).
    assert (Hnorec : ~ has_rec s slot0) by (intros Hr; apply has_rec_find in Hr; congruence).
    assert (Hsent : forall slot, sent_of slot (sync_sent s' gs []) = sent_of slot gs).
    { intros slot. rewrite (sync_sent_of_gen (mkG s gs) s' [] Hg (gi_slots _ Hg')); [reflexivity| |intros o []].
      intros sl [c1 [Hin Hc1]]. exists c1. split; [|exact Hc1]. cbn [g_srv]. rewrite F1. apply in_or_app. left. exact Hin. }
    assert (Hflags : sv_tick s' = sv_tick s /\ sv_dirty s' = sv_dirty s /\ sv_running s' = true /\ sv_last_running s' = sv_last_running s).
    { unfold s', connect_client. fold s. rewrite Er, Ef. cbn. auto. }
    destruct Hflags as (T1 & T2 & T3 & T4).
    constructor.
    - exact Hcfg.
    - exact Hg'.
    - intros c1 Hin. cbn [set_client set_server y_server] in Hin. fold s' in Hin. rewrite F1 in Hin. apply in_app_or in Hin.
      destruct Hin as [Hin|[<-|[]]]; [exact (Hnm c1 Hin)|exact F3].
    - cbn [set_client set_server y_server]. fold s'. rewrite T3. discriminate.
    - cbn [set_client set_server y_server]. fold s'. rewrite T3. discriminate.
    - cbn [set_client set_server y_server]. fold s'. rewrite tick_frames_snoc. cbn [is_tick_frame]. rewrite T1. exact Htk.
    - intros slot c Hc. cbn [set_client set_server y_clients y_server] in *.
      change (get_link (set_client (set_server y s') slot0 (set_status cl Connected)) slot) with (get_link y slot).
      destruct (N.eq_dec slot slot0) as [->|Hne].
      + rewrite al_get_insert_same in Hc. inversion Hc; subst c. clear Hc. destruct (Hslots slot0 cl Ec) as [O1 O2 O3 O4 O5 O6].
        assert (Es : cl_status cl = Disconnected).
        { destruct (cl_status cl) eqn:Es; [reflexivity|]. exfalso. apply Hnorec. apply O4. reflexivity. }
        destruct (O5 Es) as (I1 & I2 & I3 & I4 & I5 & I6).
        assert (Ei : cl_inbox_upd (set_status cl Connected) = cl_inbox_upd cl) by (unfold set_status; rewrite Es; reflexivity).
        assert (Em : cl_inbox_mut (set_status cl Connected) = cl_inbox_mut cl) by (unfold set_status; rewrite Es; reflexivity).
        constructor.
        * apply cs_inv_set_status. exact O1.
        * revert O2. apply pu_ext; reflexivity.
        * revert O3. apply hist_small_ext. reflexivity.
        * split; [intros _; reflexivity|]. intros _. exists cnew. split; [rewrite F1; apply in_or_app; right; left; reflexivity|exact F2].
        * cbn. discriminate.
        * intros _. exists []. rewrite Ei, I2, I3, I4. cbn [app].
          assert (Hr : srel (set_status cl Connected) []) by (revert I1; apply srel_ext; reflexivity).
          constructor.
          -- exact Hr.
          -- cbn. rewrite Hsent. symmetry. exact (sent_of_norec (mkG s gs) slot0 Hg Hnorec).
          -- reflexivity.
          -- congruence.
          -- intros p q E Hp. cbn in E. destruct p; [congruence|discriminate].
          -- intros u [].
          -- exact ticks_incr_nil.
          -- apply ent_hist_nil; [apply cs_inv_set_status; exact O1|exact Hr].
          -- intros m Hm. rewrite Em, I5 in Hm. cbn [cl_buffered set_status app] in Hm. rewrite I6 in Hm. destruct Hm.
          -- intros Hne0. exfalso. apply Hne0. reflexivity.
          -- intros cl0 _ _ _ Hne0. exfalso. apply Hne0. reflexivity.
      + rewrite al_get_insert_other in Hc by exact Hne.
        refine (mslot_inv_mono script _ s s' gs _ slot _ _ c _ (Hsent slot) T1 T2 _ _ (Hslots slot c Hc)).
        * split.
          -- intros [c1 [Hin Hs1]]. rewrite F1 in Hin. apply in_app_or in Hin. destruct Hin as [Hin|[<-|[]]]; [exists c1; auto|congruence].
          -- intros [c1 [Hin Hs1]]. exists c1. split; [rewrite F1; apply in_or_app; left; exact Hin|exact Hs1].
        * intros [c1 [Hin Hc1]]. exists c1. split; [rewrite F1; apply in_or_app; left; exact Hin|exact Hc1].
        * intros applied _ _ cl' Hin Hs1 Ha1. rewrite F1 in Hin. apply in_app_or in Hin.
          destruct Hin as [Hin|[<-|[]]]; [exists cl'; auto|congruence].
  Qed.

  (* ---------- StAuthorize ---------- *)

  Lemma m_authorize script y gs slot0 :
    m_inv script y gs ->
    m_inv (script ++ [StAuthorize slot0]) (set_server y (authorize_client (y_cfg y) (y_server y) slot0))
          (ghost_step y gs (StAuthorize slot0)).
  Proof.
    intros [Hcfg Hg Hnm Hrun Hlr Htk Hslots]. cbn [ghost_step]. rewrite Hcfg. set (s := y_server y) in *.
    set (s' := authorize_client cfg0 s slot0).
    destruct (authorize_clients cfg0 s slot0) as (A1 & A2 & A3 & A4 & A5). fold s' in A1, A2, A3, A4, A5.
    pose proof (authorize_inv cfg0 (mkG s gs) slot0 Hpol Hg) as Hg'. cbn [g_srv g_sent] in Hg'. fold s' in Hg'.
    assert (Hsent : forall slot, sent_of slot (sync_sent s' gs []) = sent_of slot gs).
    { intros slot. rewrite (sync_sent_of_gen (mkG s gs) s' [] Hg (gi_slots _ Hg') A2); [reflexivity|intros o []]. }
    assert (Hflags : sv_tick s' = sv_tick s /\ sv_dirty s' = sv_dirty s /\ sv_last_running s' = sv_last_running s).
    { unfold s', authorize_client. destruct (find_client s slot0) as [cl|]; [|auto]. destruct (sc_authorized cl); cbn; auto. }
    destruct Hflags as (T1 & T2 & T4).
    (* records: a record of [s'] is a record of [s] unless it is the freshly authorized one *)
    assert (Hrecs : forall cl', In cl' (sv_clients s') ->
              In cl' (sv_clients s) \/ (sc_slot cl' = slot0 /\ exists cl, In cl (sv_clients s) /\ sc_slot cl = slot0 /\ sc_authorized cl = false)).
    { unfold s', authorize_client. destruct (find_client s slot0) as [cl|] eqn:Ef; [|auto]. destruct (sc_authorized cl) eqn:Ea; [auto|].
      unfold find_client in Ef. apply find_some in Ef. destruct Ef as [Hcl Hs0]. cbn in Hs0.
      intros cl' Hin. unfold update_client, set_clients in Hin. cbn [sv_clients authorized_client sc_slot] in Hin.
      apply in_map_iff in Hin. destruct Hin as [c1 [E Hc1]]. destruct (sc_slot c1 =? slot0) eqn:E1; subst cl'; [|left; exact Hc1].
      right. split; [reflexivity|]. exists cl. split; [exact Hcl|]. split; [lia|exact Ea]. }
    assert (Hrec' : forall slot, has_rec s slot -> has_rec s' slot).
    { intros slot [c1 [Hin Hs1]]. unfold s', authorize_client. destruct (find_client s slot0) as [cl|] eqn:Ef; [|exists c1; auto].
      destruct (sc_authorized cl); [exists c1; auto|].
      exists (if sc_slot c1 =? slot0 then authorized_client cfg0 slot0 (sc_max_size cl) else c1). split.
      - unfold update_client, set_clients. cbn [sv_clients authorized_client sc_slot]. apply in_map_iff. exists c1. auto.
      - destruct (sc_slot c1 =? slot0) eqn:E1; [cbn; lia|exact Hs1]. }
    constructor.
    - exact Hcfg.
    - exact Hg'.
    - apply A3. exact Hnm.
    - cbn [set_server y_server]. fold s'. rewrite A4. intros Hr. apply A5. apply Hrun. exact Hr.
    - cbn [set_server y_server]. fold s'. rewrite A4, T4. exact Hlr.
    - cbn [set_server y_server]. fold s'. rewrite tick_frames_snoc. cbn [is_tick_frame]. rewrite T1. exact Htk.
    - intros slot c Hc. cbn [set_server y_clients y_server] in *.
      change (get_link (set_server y s') slot) with (get_link y slot).
      refine (mslot_inv_mono script _ s s' gs _ slot _ _ c (conj (A1 slot) (Hrec' slot)) (Hsent slot) T1 T2 (A2 slot) _ (Hslots slot c Hc)).
      intros applied Hm Hne cl' Hin Hs1 Ha1. destruct (Hrecs cl' Hin) as [Hold|[Hs0 [cl [Hcl [Hsl Hna]]]]]; [exists cl'; auto|].
      exfalso. destruct (mc_auth _ _ _ _ _ _ _ _ Hm Hne) as [ca [Hca [Hsa Haa]]].
      assert (ca = cl); [|subst ca; congruence].
      apply (nodup_slot_eq (sv_clients s)); [exact (gi_slots _ Hg)|exact Hca|exact Hcl|congruence].
  Qed.

  (* ---------- StSFrame ---------- *)

  Lemma status_dec c : {cl_status c = Disconnected} + {cl_status c = Connected}.
  Proof. destruct (cl_status c); auto. Qed.

  Lemma mmsg_ok_snoc sent u m : mmsg_ok sent m -> m_tick m < u_tick u -> mmsg_ok (sent ++ [u]) m.
  Proof.
    intros (HT & p & q & E & Hu & Hq & Hb) Hlt. split; [exact HT|]. exists p, (q ++ [u]).
    split; [rewrite E, app_assoc; reflexivity|]. split; [exact Hu|]. split; [|exact Hb].
    intros u0 Hin. apply in_app_or in Hin. destruct Hin as [Hin|[<-|[]]]; [exact (Hq u0 Hin)|exact Hlt].
  Qed.

  Lemma m_sframe script y gs tick dt (cleanup : bool) ops parts y' o :
    m_inv script y gs -> run (sys_init cfg0 nclients) script = Ok y -> forallb sop_ok ops = true ->
    tick_frames (script ++ [StSFrame tick dt cleanup ops parts]) < 2 ^ 31 ->
    sys_step y (StSFrame tick dt cleanup ops parts) = Ok (y', o) ->
    m_inv (script ++ [StSFrame tick dt cleanup ops parts]) y' (ghost_step y gs (StSFrame tick dt cleanup ops parts)).
  Proof.
    intros [Hcfg Hg Hnm Hrun Hlr Htk Hslots] Hrun0 Hops Hbound H.
    assert (Hreach : reached cfg0 nclients (script ++ [StSFrame tick dt cleanup ops parts]) y').
    { apply reached_last. rewrite run_app, Hrun0. cbn [bind run]. rewrite H. reflexivity. }
    cbn [sys_step ghost_step] in *. rewrite Hcfg in *. set (s := y_server y) in *.
    destruct (server_frame cfg0 s tick dt cleanup ops parts) as [[s' fo]| |] eqn:Ef; cbn [bind] in H; try discriminate.
    inversion H; subst y' o. clear H. set (outs := fo_clients fo) in *.
    destruct (gframe_ok cfg0 (mkG s gs) tick dt cleanup ops parts s' fo Hg Ef) as (Hg' & Hran & Hnot). cbn [g_srv g_sent] in *.
    destruct (server_frame_clients cfg0 (mkG s gs) tick dt cleanup ops parts s' fo Hg Hnm Hops Hrun Ef)
      as (N1 & N2 & N3 & N4 & N5 & N6 & N7). cbn [g_srv] in *. fold outs in N5, N6, N7.
    destruct (server_frame_ticks cfg0 s tick dt cleanup ops parts s' fo Hlr Ef) as (K1 & K2 & K3 & K4 & K5). fold outs in K5.
    destruct (enqueue_fields outs (set_server y s')) as (Q1 & Q2 & Q3).
    assert (Hsent : forall slot, sent_of slot (sync_sent s' gs outs) = abs_send (sent_of slot gs) (upd_for slot outs)).
    { apply (sync_sent_of_gen (mkG s gs) s' outs Hg (gi_slots _ Hg')); [|exact N6].
      intros sl Ha. apply has_auth_sig. rewrite N4. apply has_auth_sig. exact Ha. }
    assert (Hrec : forall slot, has_rec s' slot <-> has_rec s slot).
    { intros sl. rewrite !has_rec_sig, N4. reflexivity. }
    assert (Hau : forall slot, has_auth s slot -> has_auth s' slot).
    { intros sl Ha. apply has_auth_sig. rewrite N4. apply has_auth_sig. exact Ha. }
    (* ticks *)
    pose proof Npow31 as P31. pose proof Npow32 as P32.
    rewrite tick_frames_snoc in Hbound. cbn [is_tick_frame] in Hbound.
    assert (Htk' : sv_tick s' = tick_frames (script ++ [StSFrame tick dt cleanup ops parts])).
    { rewrite tick_frames_snoc. cbn [is_tick_frame]. rewrite K1, Htk. destruct tick; [|reflexivity].
      unfold tick_add. rewrite P32. rewrite P31 in Hbound. apply N.mod_small. lia. }
    assert (Hsm' : sv_tick s' < 2 ^ 31) by (rewrite Htk', tick_frames_snoc; exact Hbound).
    assert (Hle : sv_tick s <= sv_tick s').
    { rewrite Htk', tick_frames_snoc, Htk. cbn [is_tick_frame]. destruct tick; lia. }
    assert (Hb_old : forall t, bound_ok s t -> bound_ok s' t) by (unfold bound_ok; intros t [A B]; split; [lia|exact K2]).
    assert (Hstrict : outs <> [] -> forall t, bound_ok s t -> t < sv_tick s').
    { intros Hne t [A B]. destruct (K5 Hne) as [Ht|Hd]; [|congruence]. subst tick.
      rewrite Htk', tick_frames_snoc, <- Htk. cbn [is_tick_frame]. lia. }
    assert (Hfr : outs <> [] -> fo_ran fo = true).
    { intros Hne. destruct (fo_ran fo) eqn:E; [reflexivity|]. exfalso. apply Hne. exact (Hnot eq_refl). }
    constructor.
    - rewrite Q1. exact Hcfg.
    - rewrite Q2. exact Hg'.
    - rewrite Q2. exact N1.
    - rewrite Q2. cbn [set_server y_server]. rewrite N2. exact N3.
    - rewrite Q2. cbn [set_server y_server]. rewrite K3. auto.
    - rewrite Q2. exact Htk'.
    - intros slot c Hc. rewrite Q3 in Hc. cbn [set_server y_clients] in Hc. rewrite Q2. cbn [set_server y_server].
      rewrite enqueue_lupd, enqueue_lmut. change (get_link (set_server y s') slot) with (get_link y slot).
      destruct (Hslots slot c Hc) as [O1 O2 O3 O4 O5 O6]. rewrite (updates_for_upd_for slot outs N5).
      assert (Hnoout : ~ has_rec s slot -> upd_for slot outs = None /\ mutates_for slot outs = []).
      { intros Hno. assert (Hn : ~ In slot (map co_slot outs)).
        { intros Hin. apply in_map_iff in Hin. destruct Hin as [o1 [Es Ho1]]. apply Hno. apply Hrec.
          destruct (N6 o1 Ho1) as [c1 [A [B _]]]. exists c1. split; [exact A|congruence]. }
        split; [exact (proj1 (upd_for_none slot outs Hn))|].
        destruct (mutates_for slot outs) as [|m0 t0] eqn:Em; [reflexivity|]. exfalso.
        destruct (mutates_for_in slot outs m0) as [o1 [Ho1 [Es _]]]; [rewrite Em; left; reflexivity|].
        apply Hn. apply in_map_iff. exists o1. auto. }
      destruct (status_dec c) as [Es|Es].
      + (* not connected: no record, nothing is sent *)
        assert (Hno : ~ has_rec s slot) by (intros Hr; apply O4 in Hr; congruence).
        destruct (Hnoout Hno) as [Eu Em]. rewrite Eu, Em, !app_nil_r.
        constructor; [exact O1|exact O2|exact O3| |exact O5|intros Hd; congruence].
        rewrite Hrec. exact O4.
      + destruct (O6 Es) as [applied [C1 C2 C3 C4 C5 C6 C7 C8 C9 C10 C11]].
        set (sent := applied ++ cl_inbox_upd c ++ l_upd (get_link y slot)) in *.
        set (lt := fun sl : N => if sl =? slot then match sent with [] => None | _ => Some (u_tick (last sent dflt_upd)) end else None).
        assert (Hut : upd_ticks_ok lt s).
        { intros cl Hin Ha t Hl. unfold lt in Hl. destruct (sc_slot cl =? slot) eqn:E1; [|discriminate].
          destruct sent as [|u0 t0] eqn:Esent; [discriminate|]. inversion Hl; subst t.
          apply C11; [exact Hin|lia|exact Ha|discriminate]. }
        destruct (server_frame_muts cfg0 (mkG s gs) tick dt cleanup ops parts s' fo lt Hg Hut Hops Hrun Ef) as [M1 M2].
        fold outs in M1, M2.
        assert (Hltslot : forall t, lt slot = Some t -> sent <> [] /\ t = u_tick (last sent dflt_upd)).
        { intros t Hl. unfold lt in Hl. rewrite N.eqb_refl in Hl. destruct sent; [discriminate|]. inversion Hl. split; [discriminate|reflexivity]. }
        assert (Hltsome : sent <> [] -> lt slot = Some (u_tick (last sent dflt_upd))).
        { intros Hne. unfold lt. rewrite N.eqb_refl. destruct sent; [congruence|reflexivity]. }
        (* a mutate message produced by this frame for the slot *)
        assert (Hnew : forall m, In m (mutates_for slot outs) ->
                  outs <> [] /\ has_auth s' slot /\ m_tick m = sv_tick s' /\
                  match upd_for slot outs with
                  | Some u => m_upd_tick m = u_tick u
                  | None => sent <> [] -> m_upd_tick m = u_tick (last sent dflt_upd)
                  end /\
                  forall e comps, In (e, comps) (m_body m) -> kinds_sub (map fst comps) (kinds_of (struct_of s') e)).
        { intros m Hm. destruct (mutates_for_in slot outs m Hm) as (o1 & Ho1 & Eso & Hmo).
          destruct (M1 o1 m Ho1 Hmo) as (G1 & G2 & G3). pose proof (upd_for_of_out outs o1 N5 Ho1) as Eup. rewrite Eso in Eup.
          split; [intros E0; rewrite E0 in Ho1; destruct Ho1|]. split; [rewrite <- Eso; exact (N6 o1 Ho1)|]. split; [exact G1|].
          split; [|exact G3]. rewrite Eup. destruct (co_update o1) as [u|]; [exact G2|].
          intros Hne. apply G2. rewrite Eso. exact (Hltsome Hne). }
        assert (Hstr : has_auth s' slot -> outs <> [] ->
                  struct_equiv (abs_send (sent_of slot gs) (upd_for slot outs)) (struct_of s')).
        { intros [c1 [A [B Ca]]] Hne. pose proof (Hran (Hfr Hne) c1 A Ca) as G. rewrite B in G. exact G. }
        assert (Hst : cl_status c = Connected) by exact Es.
        destruct (upd_for slot outs) as [u|] eqn:Eu.
        * destruct (upd_for_in slot outs u Eu) as (o1 & Ho1 & Hso & Huo).
          destruct (N7 o1 u Ho1 Huo) as [Hmp Ht]. pose proof (N6 o1 Ho1) as Hauth. rewrite Hso in Hauth.
          assert (Hne : outs <> []) by (intros E0; rewrite E0 in Ho1; destruct Ho1).
          constructor; [exact O1|exact O2|exact O3|rewrite Hrec; exact O4|intros Hd; congruence|].
          intros _. exists applied.
          assert (Eassoc : applied ++ cl_inbox_upd c ++ l_upd (get_link y slot) ++ [u] = sent ++ [u]).
          { unfold sent. rewrite <- !app_assoc. reflexivity. }
          constructor.
          -- exact C1.
          -- rewrite Eassoc, fold_left_app. cbn [fold_left]. rewrite C2, Hsent, Eu. reflexivity.
          -- rewrite app_assoc, forallb_app, C3. cbn. unfold no_maps. rewrite Hmp. reflexivity.
          -- exact C4.
          -- rewrite Eassoc. intros p q E Hp. symmetry in E. apply app_snoc_split in E.
             destruct E as [[-> ->]|[q' [-> E]]].
             ++ exists (enqueue_outputs (set_server y s') outs). split; [exact Hreach|]. rewrite Q2. cbn [set_server y_server].
                split; [|rewrite last_snoc; exact Ht].
                rewrite fold_left_app. cbn [fold_left]. rewrite C2.
                exact (Hstr Hauth Hne).
             ++ destruct (C5 p q' E Hp) as (y1 & R & A & B). exists y1. split; [apply reached_mono; exact R|auto].
          -- rewrite Eassoc. intros u0 Hin. apply in_app_or in Hin. destruct Hin as [Hin|[<-|[]]]; [exact (Hb_old _ (C6 u0 Hin))|].
             split; [rewrite Ht; lia|exact K2].
          -- rewrite Eassoc. apply ticks_incr_snoc; [exact C7|]. intros a Ha. rewrite Ht. exact (Hstrict Hne _ (C6 a Ha)).
          -- exact C8.
          -- rewrite Eassoc. intros m Hm. rewrite <- app_assoc in Hm. apply in_app_or in Hm.
             assert (Hold : In m (l_mut (get_link y slot) ++ cl_inbox_mut c ++ cl_buffered c) ->
                            mmsg_ok (sent ++ [u]) m /\ bound_ok s' (m_tick m)).
             { intros Hin. destruct (C9 m Hin) as [A B]. split; [|exact (Hb_old _ B)].
               apply mmsg_ok_snoc; [exact A|]. rewrite Ht. exact (Hstrict Hne _ B). }
             destruct Hm as [Hm|Hm]; [apply Hold; apply in_or_app; left; exact Hm|].
             apply in_app_or in Hm. destruct Hm as [Hm|Hm]; [|apply Hold; apply in_or_app; right; exact Hm].
             destruct (Hnew m Hm) as (_ & _ & G1 & G2 & G3). split; [|split; [rewrite G1; lia|exact K2]].
             split; [unfold small_tick; rewrite G1; exact Hsm'|]. exists (sent ++ [u]), [].
             split; [rewrite app_nil_r; reflexivity|]. split; [intros _; rewrite last_snoc; exact G2|]. split; [intros u0 []|].
             intros e comps Hb. apply (kinds_sub_equiv _ (struct_of s')); [|exact (G3 e comps Hb)].
             apply struct_equiv_symm. rewrite fold_left_app. cbn [fold_left]. rewrite C2.
             exact (Hstr Hauth Hne).
          -- intros _. exact Hauth.
          -- rewrite Eassoc. intros cl' Hin Hsl Ha _. pose proof (M2 cl' Hin Ha) as G. rewrite Hsl, Eu in G.
             rewrite last_snoc. exact G.
        * rewrite app_nil_r.
          constructor; [exact O1|exact O2|exact O3|rewrite Hrec; exact O4|intros Hd; congruence|].
          intros _. exists applied. unfold sent in *. constructor.
          -- exact C1.
          -- rewrite C2, Hsent, Eu. reflexivity.
          -- exact C3.
          -- exact C4.
          -- apply snaps_mono. exact C5.
          -- intros u0 Hin. exact (Hb_old _ (C6 u0 Hin)).
          -- exact C7.
          -- exact C8.
          -- intros m Hm. rewrite <- app_assoc in Hm. apply in_app_or in Hm.
             assert (Hold : In m (l_mut (get_link y slot) ++ cl_inbox_mut c ++ cl_buffered c) ->
                            mmsg_ok (applied ++ cl_inbox_upd c ++ l_upd (get_link y slot)) m /\ bound_ok s' (m_tick m)).
             { intros Hin. destruct (C9 m Hin) as [A B]. split; [exact A|exact (Hb_old _ B)]. }
             destruct Hm as [Hm|Hm]; [apply Hold; apply in_or_app; left; exact Hm|].
             apply in_app_or in Hm. destruct Hm as [Hm|Hm]; [|apply Hold; apply in_or_app; right; exact Hm].
             destruct (Hnew m Hm) as (Hne & Hauth & G1 & G2 & G3). split; [|split; [rewrite G1; lia|exact K2]].
             split; [unfold small_tick; rewrite G1; exact Hsm'|]. exists (applied ++ cl_inbox_upd c ++ l_upd (get_link y slot)), [].
             split; [rewrite app_nil_r; reflexivity|]. split; [exact G2|]. split; [intros u0 []|].
             intros e comps Hb. apply (kinds_sub_equiv _ (struct_of s')); [|exact (G3 e comps Hb)].
             apply struct_equiv_symm. rewrite C2. exact (Hstr Hauth Hne).
          -- intros Hne. apply Hau. exact (C10 Hne).
          -- intros cl' Hin Hsl Ha Hne. pose proof (M2 cl' Hin Ha) as G. rewrite Hsl, Eu in G. apply G. exact (Hltsome Hne).
  Qed.

  (* ---------- StCFrame ---------- *)

  Lemma frame_disconnected_hs c ops c' out :
    hist_small c -> cl_status c = Disconnected -> client_frame c ops = Ok (c', out) -> hist_small c'.
  Proof.
    intros Hs Hc H. unfold client_frame in H. rewrite Hc in H. cbn [negb bind] in H. rewrite andb_true_r in H.
    inversion H; subst c' out. apply (hist_small_ext (fold_left apply_cop ops (if cl_last_not_disconnected c then client_reset c else c)));
      [reflexivity|]. apply hs_cops. destruct (cl_last_not_disconnected c); [|exact Hs]. revert Hs. apply hist_small_ext. reflexivity.
  Qed.

  Lemma cframe_sys_lmut y slot0 ops y' o :
    sys_step y (StCFrame slot0 ops) = Ok (y', o) -> forall slot, l_mut (get_link y' slot) = l_mut (get_link y slot).
  Proof.
    intros H. cbn [sys_step] in H. destruct (al_get slot0 (y_clients y)) as [cl|]; [|inversion H; subst; reflexivity].
    destruct (client_frame cl ops) as [[cl' cfo]| |]; cbn [bind] in H; try discriminate. inversion H; subst y' o. clear H.
    intros slot. change (get_link (set_server ?a ?b) slot) with (get_link a slot).
    destruct (cfo_acks cfo) as [|a acks]; [reflexivity|]. destruct (cl_status cl'); [reflexivity|].
    change (get_link (set_link (set_client y slot0 cl') slot0 ?l) slot) with (get_link (set_link y slot0 l) slot).
    destruct (N.eq_dec slot slot0) as [->|Hne]; [rewrite get_link_set_link_same|rewrite get_link_set_link_other by exact Hne]; reflexivity.
  Qed.

  Lemma m_cframe script y gs slot0 ops y' o :
    m_inv script y gs -> tick_frames script < 2 ^ 31 -> sys_step y (StCFrame slot0 ops) = Ok (y', o) ->
    m_inv (script ++ [StCFrame slot0 ops]) y' gs.
  Proof.
    intros Hinv Hbound H. pose proof Hinv as [Hcfg Hg Hnm Hrun Hlr Htk Hslots].
    destruct (al_get slot0 (y_clients y)) as [cl|] eqn:Ec.
    2:{ cbn [sys_step] in H. rewrite Ec in H. inversion H; subst y' o. apply (m_same script _ y gs); try reflexivity; auto. }
    destruct (client_frame cl ops) as [[cl' cfo]| |] eqn:Ef;
      [|cbn [sys_step] in H; rewrite Ec, Ef in H; discriminate|cbn [sys_step] in H; rewrite Ec, Ef in H; discriminate].
    pose proof (cframe_sys_lmut y slot0 ops y' o H) as F3m.
    destruct (cframe_sys y slot0 ops cl cl' cfo y' o Ec Ef H) as (F1 & F2 & F3 & [pcs F4]).
    set (s := y_server y) in *.
    assert (Ecl : sv_clients (y_server y') = sv_clients s) by (rewrite F4; reflexivity).
    constructor.
    - congruence.
    - rewrite F4. exact (gstep_inv cfg0 (mkG s gs) (GPublish slot0 pcs) _ Hpol Hg eq_refl).
    - rewrite F4. revert Hnm. apply nomaps_same. reflexivity.
    - rewrite F4. exact Hrun.
    - rewrite F4. exact Hlr.
    - rewrite F4, tick_frames_snoc. exact Htk.
    - intros slot c Hc. rewrite F2 in Hc. rewrite F3, F3m. destruct (N.eq_dec slot slot0) as [->|Hne].
      2:{ rewrite al_get_insert_other in Hc by exact Hne.
          refine (mslot_inv_mono script _ s _ gs gs slot _ _ c _ eq_refl _ _ _ _ (Hslots slot c Hc)).
          - split; apply has_rec_clients; [exact Ecl|symmetry; exact Ecl].
          - rewrite F4. reflexivity.
          - rewrite F4. reflexivity.
          - apply has_auth_clients. exact Ecl.
          - intros applied _ _. apply same_records. exact Ecl. }
      rewrite al_get_insert_same in Hc. inversion Hc; subst c. clear Hc.
      destruct (Hslots slot0 cl Ec) as [O1 O2 O3 O4 O5 O6].
      assert (Hrec : has_rec (y_server y') slot0 <-> has_rec s slot0).
      { split; apply has_rec_clients; [exact Ecl|symmetry; exact Ecl]. }
      destruct (status_dec cl) as [Es|Es].
      + destruct (O5 Es) as (I1 & I2 & I3 & I4 & I5 & I6).
        destruct (frame_disconnected cl ops cl' cfo O1 O2 I1 Es Ef) as (D1 & D2 & D3 & D4 & D5 & D6 & D7 & _).
        constructor; [exact D1|exact D2|exact (frame_disconnected_hs cl ops cl' cfo O3 Es Ef)| | |intros Hc'; congruence].
        * rewrite Hrec, D4, <- Es. exact O4.
        * intros _. rewrite D5, D6, D7, I6. split; [exact D3|]. destruct (cl_last_not_disconnected cl); auto 6.
      + destruct (O6 Es) as [applied [C1 C2 C3 C4 C5 C6 C7 C8 C9 C10 C11]].
        pose proof C3 as C3'. rewrite forallb_app in C3'. apply andb_prop in C3'. destruct C3' as [C3a C3b].
        assert (Hpre : hist_pre cl applied (l_upd (get_link y slot0))).
        { constructor; try assumption.
          - intros u Hu. destruct (C6 u Hu) as [A _]. unfold small_tick. fold s in Htk. rewrite Htk in A. lia.
          - intros m Hm. apply (C9 m). apply in_or_app. right. exact Hm. }
        destruct (frame_hist cl applied _ ops cl' cfo Hpre Es Ef) as (I & P & R & Hh & S & Tk & Ei & Em & St & Kb).
        assert (Hb : forall t, bound_ok s t -> bound_ok (y_server y') t) by (rewrite F4; auto).
        constructor; [exact I|exact P|exact S|rewrite Hrec, St; split; [reflexivity|intros _; apply O4; exact Es]|intros Hd; congruence|].
        intros _. exists (applied ++ cl_inbox_upd cl). rewrite Ei. cbn [app].
        assert (Eassoc : (applied ++ cl_inbox_upd cl) ++ l_upd (get_link y slot0) = applied ++ cl_inbox_upd cl ++ l_upd (get_link y slot0))
          by (rewrite <- app_assoc; reflexivity).
        constructor.
        * exact R.
        * rewrite Eassoc. exact C2.
        * exact C3b.
        * exact Tk.
        * rewrite Eassoc. apply snaps_mono. exact C5.
        * rewrite Eassoc. intros u Hu. apply Hb. exact (C6 u Hu).
        * rewrite Eassoc. exact C7.
        * exact Hh.
        * rewrite Eassoc, Em. cbn [app]. intros m Hm. apply in_app_or in Hm.
          assert (Hin : In m (l_mut (get_link y slot0) ++ cl_inbox_mut cl ++ cl_buffered cl)).
          { destruct Hm as [Hm|Hm]; [apply in_or_app; left; exact Hm|apply in_or_app; right; exact (Kb m Hm)]. }
          destruct (C9 m Hin) as [A B]. split; [exact A|apply Hb; exact B].
        * rewrite Eassoc. intros Hne. apply (has_auth_clients s); [exact Ecl|exact (C10 Hne)].
        * rewrite Eassoc. intros cl0 Hin Hsl Ha Hne. rewrite Ecl in Hin. exact (C11 cl0 Hin Hsl Ha Hne).
  Qed.

  (* ---------- StDeliver / StDrop ---------- *)

  Lemma deliver_mutates_disc p : forall cl, cl_status cl = Disconnected -> fold_left deliver_mutate p cl = cl.
  Proof.
    induction p as [|m t IH]; intros cl Hc; cbn [fold_left]; [reflexivity|].
    assert (E : deliver_mutate cl m = cl) by (unfold deliver_mutate; rewrite Hc; reflexivity). rewrite E. apply IH. exact Hc.
  Qed.

  Lemma no_elements {A} (l : list A) : (forall x, In x l -> False) -> l = [].
  Proof. destruct l as [|a t]; [reflexivity|]. intros H. exfalso. apply (H a). left. reflexivity. Qed.

  (* a step that only moves messages between the queues of one slot and the inboxes of its client *)
  Lemma m_link_client script st y gs slot0 cl cl' lu lm la :
    m_inv script y gs -> is_tick_frame st = false -> al_get slot0 (y_clients y) = Some cl ->
    cl_s2c cl' = cl_s2c cl -> cl_c2s cl' = cl_c2s cl -> cl_ents cl' = cl_ents cl -> cl_next cl' = cl_next cl ->
    cl_upd_tick cl' = cl_upd_tick cl -> cl_status cl' = cl_status cl -> cl_buffered cl' = cl_buffered cl ->
    cl_inbox_upd cl' ++ lu = cl_inbox_upd cl ++ l_upd (get_link y slot0) ->
    (forall m, In m (lm ++ cl_inbox_mut cl') -> In m (l_mut (get_link y slot0) ++ cl_inbox_mut cl)) ->
    m_inv (script ++ [st]) (set_client (set_link y slot0 (mkLink lu lm la)) slot0 cl') gs.
  Proof.
    intros [Hcfg Hg Hnm Hrun Hlr Htk Hslots] Hnt Ec E1 E2 E3 E4 E5 E6 E7 Hupd Hmut.
    constructor; [exact Hcfg|exact Hg|exact Hnm|exact Hrun|exact Hlr|rewrite tick_frames_snoc, Hnt; exact Htk|].
    intros slot c Hc. cbn [set_client set_link y_clients y_server] in *.
    change (get_link (set_client (set_link y slot0 (mkLink lu lm la)) slot0 cl') slot)
      with (get_link (set_link y slot0 (mkLink lu lm la)) slot).
    destruct (N.eq_dec slot slot0) as [->|Hne].
    2:{ rewrite al_get_insert_other in Hc by exact Hne. rewrite get_link_set_link_other by exact Hne.
        refine (mslot_inv_mono script _ (y_server y) _ gs gs slot _ _ c _ eq_refl eq_refl eq_refl _ _ (Hslots slot c Hc)); [tauto|auto|].
        intros applied _ _. apply same_records. reflexivity. }
    rewrite al_get_insert_same in Hc. inversion Hc; subst c. clear Hc. rewrite get_link_set_link_same. cbn [l_upd l_mut].
    destruct (Hslots slot0 cl Ec) as [O1 O2 O3 O4 O5 O6].
    constructor.
    - revert O1. apply cs_inv_ext; assumption.
    - revert O2. apply pu_ext; assumption.
    - revert O3. apply hist_small_ext. exact E3.
    - rewrite E6. exact O4.
    - rewrite E6. intros Hd. destruct (O5 Hd) as (I1 & I2 & I3 & I4 & I5 & I6).
      rewrite I2, I3 in Hupd. apply app_eq_nil in Hupd. destruct Hupd as [U1 U2].
      rewrite I4, I5 in Hmut. pose proof (no_elements _ Hmut) as Hn. apply app_eq_nil in Hn. destruct Hn as [N1 N2].
      split; [revert I1; apply srel_ext; assumption|]. rewrite E7. auto 6.
    - rewrite E6. intros Hc'. destruct (O6 Hc') as [applied [C1 C2 C3 C4 C5 C6 C7 C8 C9 C10 C11]]. exists applied.
      rewrite Hupd.
      apply (mconn_inv_mono script st (y_server y) _ gs gs); try reflexivity; [auto|intros _; apply same_records; reflexivity|].
      constructor; try assumption.
      + revert C1. apply srel_ext; assumption.
      + rewrite E5. exact C4.
      + revert C8. apply ent_hist_ok_ext; assumption.
      + intros m Hm. apply C9. rewrite E7 in Hm. rewrite app_assoc in Hm. apply in_app_or in Hm. rewrite app_assoc. apply in_or_app.
        destruct Hm as [Hm|Hm]; [left; exact (Hmut m Hm)|right; exact Hm].
  Qed.

  Lemma deliver_acks_fold_flags slot0 picked : forall s0,
    sv_tick (fold_left (fun s idxs => deliver_acks s slot0 idxs) picked s0) = sv_tick s0 /\
    sv_dirty (fold_left (fun s idxs => deliver_acks s slot0 idxs) picked s0) = sv_dirty s0 /\
    sv_last_running (fold_left (fun s idxs => deliver_acks s slot0 idxs) picked s0) = sv_last_running s0.
  Proof.
    induction picked as [|i t IH]; intros s0; cbn [fold_left]; [auto|]. destruct (IH (deliver_acks s0 slot0 i)) as (X1 & X2 & X3).
    rewrite X1, X2, X3. unfold deliver_acks. destruct (sv_running s0); [|auto]. destruct (find_client s0 slot0); cbn; auto.
  Qed.

  Lemma m_transport script st y gs y' o :
    transport_step st = true -> legal_step st = true ->
    m_inv script y gs -> sys_step y st = Ok (y', o) -> m_inv (script ++ [st]) y' gs.
  Proof.
    intros Ht Hl Hinv H. pose proof Hinv as [Hcfg Hg Hnm Hrun Hlr Htk Hslots].
    assert (Hnt : is_tick_frame st = false) by (destruct st; try discriminate; reflexivity).
    assert (Hnoop : m_inv (script ++ [st]) y gs) by (apply (m_same script st y gs); try reflexivity; auto).
    destruct st as [| | | | | | |slot0 s2c ch w|slot0 s2c ch w]; try discriminate; cbn [sys_step] in H.
    - (* deliver *)
      destruct (al_get slot0 (y_clients y)) as [cl|] eqn:Ec; [|inversion H; subst y' o; exact Hnoop].
      destruct s2c.
      + destruct (ch =? 0) eqn:Ech.
        * cbn [legal_step] in Hl. rewrite Ech in Hl. assert (Hw : w <> Last) by (destruct w; congruence).
          destruct (take w (l_upd (get_link y slot0))) as [picked rest] eqn:Etk. inversion H; subst y' o. clear H.
          apply take_app in Etk; [|exact Hw].
          destruct (deliver_updates_fields picked cl) as (A & B & C & D & E & F & G & K). cbv zeta in A, B, C, D, E, F, G, K.
          apply (m_link_client script _ y gs slot0 cl); try assumption.
          -- destruct (status_dec cl) as [Es|Es].
             ++ destruct (Hslots slot0 cl Ec) as [_ _ _ _ O5 _]. destruct (O5 Es) as (_ & I2 & I3 & _).
                rewrite I3 in Etk. apply app_eq_nil in Etk. destruct Etk as [-> ->]. cbn [fold_left]. rewrite I3. reflexivity.
             ++ destruct (deliver_updates_inbox picked cl Es) as [Hi _]. rewrite Hi, <- app_assoc, Etk. reflexivity.
          -- intros m Hm. rewrite F in Hm. exact Hm.
        * destruct (ch =? 1) eqn:Ech1; [|inversion H; subst y' o; exact Hnoop].
          destruct (take w (l_mut (get_link y slot0))) as [picked rest] eqn:Etk. inversion H; subst y' o. clear H.
          destruct (status_dec cl) as [Es|Es].
          -- rewrite (deliver_mutates_disc picked cl Es).
             apply (m_link_client script _ y gs slot0 cl); try assumption; try reflexivity.
             intros m Hm. apply in_app_or in Hm. apply in_or_app. destruct Hm as [Hm|Hm]; [left; exact (take_in _ _ _ _ m Etk (or_intror Hm))|right; exact Hm].
          -- destruct (deliver_mutates_fields picked cl Es) as (A & B & C & D & E & F & G & K & L). cbv zeta in A, B, C, D, E, F, G, K, L.
             refine (m_link_client script _ y gs slot0 cl _ _ _ _ Hinv Hnt Ec A B C D E (eq_trans K (eq_sym Es)) G _ _).
             ++ rewrite L. reflexivity.
             ++ intros m Hm. rewrite F in Hm. apply in_app_or in Hm. apply in_or_app. destruct Hm as [Hm|Hm].
                ** left. exact (take_in _ _ _ _ m Etk (or_intror Hm)).
                ** apply in_app_or in Hm. destruct Hm as [Hm|Hm]; [right; exact Hm|left; exact (take_in _ _ _ _ m Etk (or_introl Hm))].
      + destruct (ch =? 0); [|inversion H; subst y' o; exact Hnoop].
        destruct (take w (l_ack (get_link y slot0))) as [picked rest] eqn:Etk. inversion H; subst y' o. clear H.
        destruct (deliver_acks_fold cfg0 Hpol slot0 picked (y_server y) gs Hg) as (A & B & C). cbv zeta in A, B, C.
        destruct (deliver_acks_fold_flags slot0 picked (y_server y)) as (X1 & X2 & X3).
        apply (m_same script _ y gs); [exact Hinv|reflexivity|reflexivity|reflexivity| | |exact B|exact X1|exact X2| |exact X3|exact A].
        -- intros slot. change (get_link (set_server ?a ?b) slot) with (get_link a slot).
           destruct (N.eq_dec slot slot0) as [->|Hne];
             [rewrite get_link_set_link_same|rewrite get_link_set_link_other by exact Hne]; reflexivity.
        -- intros slot. change (get_link (set_server ?a ?b) slot) with (get_link a slot).
           destruct (N.eq_dec slot slot0) as [->|Hne];
             [rewrite get_link_set_link_same|rewrite get_link_set_link_other by exact Hne]; reflexivity.
        -- cbn [set_server y_server]. rewrite C. auto.
    - (* drop: only the mutation channel *)
      cbn [legal_step] in Hl. destruct s2c; [|discriminate].
      destruct (al_get slot0 (y_clients y)) as [cl|] eqn:Ec; [|inversion H; subst y' o; exact Hnoop].
      assert (Hch : ch = 1) by lia. subst ch. cbn in H.
      destruct (take w (l_mut (get_link y slot0))) as [picked rest] eqn:Etk. inversion H; subst y' o. clear H.
      apply (m_link_client script _ y gs slot0 cl); try assumption; try reflexivity.
      intros m Hm. apply in_app_or in Hm. apply in_or_app. destruct Hm as [Hm|Hm]; [left; exact (take_in _ _ _ _ m Etk (or_intror Hm))|right; exact Hm].
  Qed.

  (* ---------- every step ---------- *)

  Lemma m_step script y gs st y' o :
    m_inv script y gs -> run (sys_init cfg0 nclients) script = Ok y -> step_okm st = true ->
    tick_frames (script ++ [st]) < 2 ^ 31 ->
    sys_step y st = Ok (y', o) -> m_inv (script ++ [st]) y' (ghost_step y gs st).
  Proof.
    intros Hinv Hrun Hok Hb H. unfold step_okm in Hok.
    apply andb_prop in Hok. destruct Hok as [Hok H3]. apply andb_prop in Hok. destruct Hok as [H1 H2].
    destruct st as [| |slot max|slot|slot|tick dt cleanup ops parts|slot ops|slot s2c ch w|slot s2c ch w]; try discriminate.
    - cbn [sys_step] in H. inversion H; subst y' o. exact (m_start script y gs Hinv).
    - exact (m_connect script y gs slot max y' o Hinv H).
    - cbn [sys_step] in H. inversion H; subst y' o. exact (m_authorize script y gs slot Hinv).
    - exact (m_sframe script y gs tick dt cleanup ops parts y' o Hinv Hrun H3 Hb H).
    - rewrite tick_frames_snoc in Hb. exact (m_cframe script y gs slot ops y' o Hinv Hb H).
    - exact (m_transport script (StDeliver slot s2c ch w) y gs y' o eq_refl H1 Hinv H).
    - exact (m_transport script (StDrop slot s2c ch w) y gs y' o eq_refl H1 Hinv H).
  Qed.

  Lemma tick_frames_mono script st : tick_frames script <= tick_frames (script ++ [st]).
  Proof. rewrite tick_frames_snoc. destruct (is_tick_frame st); lia. Qed.

  Theorem m_run script : forall y gs,
    script_okm script = true -> tick_frames script < 2 ^ 31 ->
    erun (sys_init cfg0 nclients) [] script = Ok (y, gs) -> m_inv script y gs.
  Proof.
    induction script as [|st t IH] using rev_ind; intros y gs Hok Hb H.
    - cbn in H. inversion H; subst. exact m_init.
    - unfold script_okm in Hok. rewrite forallb_app in Hok. apply andb_prop in Hok. destruct Hok as [Hok1 Hok2].
      cbn [forallb] in Hok2. rewrite andb_true_r in Hok2.
      rewrite erun_app in H. destruct (erun (sys_init cfg0 nclients) [] t) as [[y1 gs1]| |] eqn:E1; cbn [bind] in H; try discriminate.
      cbn [erun] in H. destruct (sys_step y1 st) as [[y2 o]| |] eqn:E2; cbn [bind] in H; try discriminate.
      inversion H; subst y gs. clear H. pose proof (tick_frames_mono t st) as Hm.
      refine (m_step t y1 gs1 st y2 o (IH y1 gs1 Hok1 _ eq_refl) (erun_run _ _ _ _ _ E1) Hok2 Hb E2). lia.
  Qed.

  (* ================================================================ *)
  (* 3. the theorems                                                  *)
  (* ================================================================ *)

  Theorem m_fifo script y gs slot c :
    script_okm script = true -> tick_frames script < 2 ^ 31 ->
    erun (sys_init cfg0 nclients) [] script = Ok (y, gs) ->
    al_get slot (y_clients y) = Some c -> cl_status c = Connected ->
    ginv (mkG (y_server y) gs) /\
    exists applied,
      struct_equiv (client_struct c) (fold_left abs_apply applied []) /\
      fold_left abs_apply (applied ++ cl_inbox_upd c ++ l_upd (get_link y slot)) [] = sent_of slot gs /\
      (applied <> [] -> cl_upd_tick c = u_tick (last applied dflt_upd)) /\
      ticks_incr (applied ++ cl_inbox_upd c ++ l_upd (get_link y slot)) /\
      (forall p q, applied ++ cl_inbox_upd c ++ l_upd (get_link y slot) = p ++ q -> p <> [] ->
         exists pre post y1, script = pre ++ post /\ run (sys_init cfg0 nclients) pre = Ok y1 /\
           struct_equiv (fold_left abs_apply p []) (struct_of (y_server y1)) /\
           u_tick (last p dflt_upd) = sv_tick (y_server y1)).
  Proof.
    intros Hok Hb H Hc Hs. pose proof (m_run script y gs Hok Hb H) as [_ Hg _ _ _ _ Hslots]. split; [exact Hg|].
    destruct (Hslots slot c Hc) as [O1 _ _ _ _ O6]. destruct (O6 Hs) as [applied [C1 C2 _ C4 C5 _ C7 _ _ _ _]].
    exists applied. split; [apply srel_struct_equiv; [exact (cs_inv_nodup c O1)|exact C1]|]. split; [exact C2|].
    split; [exact C4|]. split; [exact C7|]. intros p q E Hp. destruct (C5 p q E Hp) as (y1 & (pre & post & E1 & R) & A & B).
    exists pre, post, y1. auto.
  Qed.

  Theorem m_in_flight script y gs slot c :
    script_okm script = true -> tick_frames script < 2 ^ 31 ->
    erun (sys_init cfg0 nclients) [] script = Ok (y, gs) ->
    al_get slot (y_clients y) = Some c -> cl_status c = Connected ->
    struct_equiv (fold_left abs_apply (cl_inbox_upd c ++ l_upd (get_link y slot)) (client_struct c)) (sent_of slot gs).
  Proof.
    intros Hok Hb H Hc Hs. destruct (m_fifo script y gs slot c Hok Hb H Hc Hs) as (_ & applied & C1 & C2 & _).
    rewrite <- C2. rewrite (fold_left_app abs_apply applied). apply abs_apply_fold_equiv. exact C1.
  Qed.

  Theorem m_every_moment script y slot c :
    script_okm script = true -> tick_frames script < 2 ^ 31 ->
    run (sys_init cfg0 nclients) script = Ok y -> al_get slot (y_clients y) = Some c ->
    struct_equiv (client_struct c) [] \/
    exists pre post y1, script = pre ++ post /\ run (sys_init cfg0 nclients) pre = Ok y1 /\
      struct_equiv (client_struct c) (struct_of (y_server y1)) /\ cl_upd_tick c = sv_tick (y_server y1).
  Proof.
    intros Hok Hb H Hc. destruct (run_erun script (sys_init cfg0 nclients) [] y H) as [gs He].
    pose proof (m_run script y gs Hok Hb He) as [_ _ _ _ _ _ Hslots].
    destruct (Hslots slot c Hc) as [O1 _ _ _ O5 O6]. pose proof (cs_inv_nodup c O1) as Hnd.
    destruct (status_dec c) as [Es|Es].
    - left. apply srel_struct_equiv; [exact Hnd|]. exact (proj1 (O5 Es)).
    - destruct (O6 Es) as [applied [C1 C2 C3 C4 C5 _ _ _ _ _ _]]. destruct applied as [|u0 t0] eqn:Ea.
      + left. apply srel_struct_equiv; [exact Hnd|exact C1].
      + right. rewrite <- Ea in *. assert (Hne : applied <> []) by (rewrite Ea; discriminate).
        destruct (C5 applied _ eq_refl Hne) as (y1 & (pre & post & E & R) & A & B).
        exists pre, post, y1. split; [exact E|]. split; [exact R|]. split.
        * eapply struct_equiv_trans; [|exact A]. apply srel_struct_equiv; [exact Hnd|exact C1].
        * rewrite (C4 Hne). exact B.
  Qed.

  Corollary m_synced script y gs slot c :
    script_okm script = true -> tick_frames script < 2 ^ 31 ->
    erun (sys_init cfg0 nclients) [] script = Ok (y, gs) ->
    al_get slot (y_clients y) = Some c -> cl_status c = Connected ->
    cl_inbox_upd c = [] -> l_upd (get_link y slot) = [] ->
    struct_equiv (client_struct c) (sent_of slot gs).
  Proof.
    intros Hok Hb H Hc Hs Hi Hl. pose proof (m_in_flight script y gs slot c Hok Hb H Hc Hs) as G.
    rewrite Hi, Hl in G. exact G.
  Qed.
End E2EM.
