(* C11 end to end, server side: what one server frame does to the acknowledgement bookkeeping of one client record
   and to the ghost of Repl/AckRunSpec.v.
     1. association-list / find helpers
     2. the relation [tk_ok] between the ghost of a slot and the `ClientTicks` of its record, and its preservation by
        `ack_mutate_message` (whatever the index: registered or junk), `cleanup_older_mutations`, `send_for_client`
     3. what `send_for_client` puts into mutate messages (R1, one run) and what it must send (R2, one run)
     4. the shape of a server frame, slot by slot *)
From RV Require Import Lib.Res Repl.ClientTicks Repl.ClientTicks_proofs Repl.World Vis.Visibility
  Tick.RepliconTick Tick.RepliconTick_proofs
  Repl.Server Repl.ServerSpec Repl.Server_proofs Wire.AckCodec Wire.AckCodec_proofs Repl.Ack_proofs
  Repl.StructOps_proofs Repl.Client Repl.Sys Repl.ClientSys_proofs Repl.StructE2EMut_proofs
  Repl.StructSpec Repl.StructVisOps_proofs Repl.ValHist_proofs Repl.ValSettle_proofs Repl.MtRunSrv_proofs Repl.AckRunSpec.
From Coq Require Import ZifyBool ZifyN.
Open Scope N_scope.
Ltac Zify.zify_post_hook ::= Z.div_mod_to_equations.
Arguments N.add : simpl never. Arguments N.mul : simpl never. Arguments N.pow : simpl never.
Arguments N.ltb : simpl never. Arguments N.leb : simpl never. Arguments N.div : simpl never.
Arguments N.modulo : simpl never. Arguments N.sub : simpl never. Arguments N.eqb : simpl never.

Notation mit := ClientTicks.mi_tick.

(* ================================================================== *)
(* 1. helpers                                                         *)
(* ================================================================== *)

Lemma find_map_pres {A} (p : A -> bool) (g : A -> A) l :
  (forall y, p (g y) = p y) -> find p (map g l) = option_map g (find p l).
Proof.
  intros H. induction l as [|y l IH]; cbn [map find option_map]; [reflexivity|].
  rewrite H. destruct (p y); [reflexivity|exact IH].
Qed.

Lemma find_client_in s k cl : find_client s k = Some cl -> In cl (sv_clients s) /\ sc_slot cl = k.
Proof. unfold find_client. intros H. apply find_some in H. destruct H as [H1 H2]. split; [exact H1|lia]. Qed.

Lemma find_client_nodup s cl : NoDup (slots_of s) -> In cl (sv_clients s) -> find_client s (sc_slot cl) = Some cl.
Proof.
  unfold find_client, slots_of. induction (sv_clients s) as [|y l IH]; intros Hnd Hin; [destruct Hin|].
  cbn [map] in Hnd. inversion Hnd as [|? ? Hn Hd]; subst. cbn [find]. destruct Hin as [->|Hin].
  - rewrite N.eqb_refl. reflexivity.
  - destruct (sc_slot y =? sc_slot cl) eqn:E; [|apply IH; assumption].
    exfalso. apply Hn. apply in_map_iff. exists cl. split; [lia|exact Hin].
Qed.

Lemma existsb_eqb_In e l : existsb (N.eqb e) l = true <-> In e l.
Proof.
  rewrite existsb_exists. split.
  - intros [x [Hx E]]. assert (e = x) by lia. subst. exact Hx.
  - intros H. exists e. split; [exact H|lia].
Qed.

(* ================================================================== *)
(* 2. the ghost and the bookkeeping of a record                       *)
(* ================================================================== *)

(* the record [info] found under index [i] belongs to a mutate message of the ghost *)
Definition rec_sent (g : aghost) (i : N) (info : mutate_info) : Prop :=
  exists m, In (mit info, m) (ag_sent g) /\ m_idx m = i /\ mi_entities info = map fst (m_body m).

(* where the stamp [t] the record keeps for [e] comes from *)
Definition origin (g : aghost) (e t : N) : Prop := acked_at g e t \/ rebased_at g e t.

Record tk_ok (g : aghost) (ct : client_ticks) (now : N) : Prop := mkTk {
  tk_b1 : forall e a, mutation_tick ct e = Some a -> a < now;
  tk_b2 : forall i info, al_get i (ct_mutations ct) = Some info -> mit info < now;
  tk_nd : NoDup (al_keys (ct_mutations ct));
  (* R1: a processed acknowledgement is never forgotten *)
  tk_cov : forall i info e t, In (i, info) (ag_acked g) -> In e (mi_entities info) -> mutation_tick ct e = Some t -> mit info <= t;
  tk_reg : forall i info, al_get i (ct_mutations ct) = Some info -> rec_sent g i info;
  tk_ack : forall i info, In (i, info) (ag_acked g) -> rec_sent g i info;
  (* R2: a stamp is the stamp of a processed acknowledgement or of an update message that mentions the entity *)
  tk_org : forall e t, mutation_tick ct e = Some t -> origin g e t;
  tk_sent : forall r m, In (r, m) (ag_sent g) -> r < now;
  tk_upds : forall r u, In (r, u) (ag_upds g) -> r < now
}.

Lemma tk_bounded g ct now : tk_ok g ct now -> ct_bounded ct now.
Proof. intros H. split; [exact (tk_b1 _ _ _ H)|exact (tk_b2 _ _ _ H)]. Qed.

Lemma tk_ok_empty now : tk_ok ag_empty ct_default now.
Proof.
  constructor; try (intros; discriminate); try (intros ? ? []); try (intros ? ? ? ? []).
  constructor.
Qed.

Definition ag_add_acked (g : aghost) (l : list (N * mutate_info)) : aghost :=
  mkAG (ag_runs g) (ag_sent g) (ag_upds g) (ag_acked g ++ l).

Lemma ag_add_acked_nil g : ag_add_acked g [] = g.
Proof. destruct g. unfold ag_add_acked; cbn. rewrite app_nil_r. reflexivity. Qed.

Lemma ag_add_acked_app g a b : ag_add_acked (ag_add_acked g a) b = ag_add_acked g (a ++ b).
Proof. unfold ag_add_acked; cbn. rewrite app_assoc. reflexivity. Qed.

Lemma rec_sent_mono g g' i info : incl (ag_sent g) (ag_sent g') -> rec_sent g i info -> rec_sent g' i info.
Proof. intros Hi (m & H1 & H2 & H3). exists m. split; [apply Hi; exact H1|auto]. Qed.

Lemma origin_mono g g' e t : incl (ag_acked g) (ag_acked g') -> incl (ag_upds g) (ag_upds g') -> origin g e t -> origin g' e t.
Proof.
  intros Ha Hu [(i & info & H1 & H2 & H3)|(u & H1 & H2)].
  - left. exists i, info. split; [apply Ha; exact H1|auto].
  - right. exists u. split; [apply Hu; exact H1|exact H2].
Qed.

(* ---------- one acknowledgement, whatever its index ---------- *)

Lemma tk_ok_ack1 g ct now i : now < MAX_CHANGE_AGE -> tk_ok g ct now ->
  tk_ok (ag_add_acked g (match al_get i (ct_mutations ct) with Some info => [(i, info)] | None => [] end))
        (ack_mutate_message ct now i) now.
Proof.
  intros Hmax H. pose proof (tk_bounded _ _ _ H) as Hb.
  destruct (ack_one_facts ct now i Hmax Hb) as ((B1 & B2) & Hmono & Hcov).
  assert (Hold : forall e t', mutation_tick (ack_mutate_message ct now i) e = Some t' ->
            exists a, mutation_tick ct e = Some a /\ a <= t').
  { intros e t' Ht'. destruct (mutation_tick ct e) as [a|] eqn:Ea.
    - destruct (Hmono e a Ea) as (a' & E' & L). exists a. split; [reflexivity|]. congruence.
    - exfalso. apply (proj1 (ack_keeps_known ct now i e)); [rewrite Ht'; discriminate|exact Ea]. }
  constructor.
  - exact B1.
  - exact B2.
  - destruct (ack_frame ct now i) as (_ & _ & _ & ->). apply al_remove_nodup. exact (tk_nd _ _ _ H).
  - intros j info e t' Hin He Ht'. destruct (Hold e t' Ht') as (a & Ea & La).
    cbn [ag_add_acked ag_acked] in Hin. apply in_app_or in Hin. destruct Hin as [Hin|Hin].
    + pose proof (tk_cov _ _ _ H j info e a Hin He Ea). lia.
    + destruct (al_get i (ct_mutations ct)) as [info0|] eqn:Ei; [|destruct Hin].
      destruct Hin as [Hin|[]]. inversion Hin; subst j info0.
      destruct (Hcov info e a eq_refl He Ea) as (a' & E' & L'). congruence.
  - intros j info Hj. destruct (N.eq_dec j i) as [->|Hne]; [rewrite ack_entry_removed in Hj; discriminate|].
    rewrite ack_other_entries in Hj by exact Hne. apply (rec_sent_mono g); [apply incl_refl|]. exact (tk_reg _ _ _ H j info Hj).
  - intros j info Hin. cbn [ag_add_acked ag_acked] in Hin. apply in_app_or in Hin. apply (rec_sent_mono g); [apply incl_refl|].
    destruct Hin as [Hin|Hin]; [exact (tk_ack _ _ _ H j info Hin)|].
    destruct (al_get i (ct_mutations ct)) as [info0|] eqn:Ei; [|destruct Hin].
    destruct Hin as [Hin|[]]. inversion Hin; subst j info0. exact (tk_reg _ _ _ H i info Ei).
  - intros e t' Ht'. rewrite ack_stamps in Ht'.
    assert (Hkeep : forall a, mutation_tick ct e = Some a ->
              origin (ag_add_acked g (match al_get i (ct_mutations ct) with Some info => [(i, info)] | None => [] end)) e a).
    { intros a Ea. apply (origin_mono g); [cbn; apply incl_appl, incl_refl|apply incl_refl|exact (tk_org _ _ _ H e a Ea)]. }
    destruct (al_get i (ct_mutations ct)) as [info|] eqn:Ei; [|exact (Hkeep t' Ht')].
    destruct (existsb (N.eqb e) (mi_entities info)) eqn:Ex; [|exact (Hkeep t' Ht')].
    destruct (mutation_tick ct e) as [a|] eqn:Ea; [|discriminate]. cbn [option_map] in Ht'. inversion Ht' as [E]; clear Ht'.
    unfold ack_stamp. destruct (negb (tick_is_newer_than a (mit info) now)); [|exact (Hkeep a eq_refl)].
    left. exists i, info. split; [cbn; apply in_or_app; right; left; reflexivity|]. split; [apply existsb_eqb_In; exact Ex|reflexivity].
  - exact (tk_sent _ _ _ H).
  - exact (tk_upds _ _ _ H).
Qed.

Lemma tk_ok_acks g now idxs : now < MAX_CHANGE_AGE -> forall ct, tk_ok g ct now ->
  tk_ok (ag_add_acked g (acked_infos ct now idxs)) (ack_all ct now idxs) now.
Proof.
  intros Hmax. revert g. induction idxs as [|i r IH]; intros g ct H.
  - cbn [acked_infos]. rewrite ag_add_acked_nil. exact H.
  - cbn [acked_infos]. rewrite ack_all_cons, <- ag_add_acked_app. apply IH. apply tk_ok_ack1; assumption.
Qed.

(* what [acked_infos] lists: indices of the list that name a message registered BEFORE the list was processed *)
Lemma acked_infos_in now idxs : forall ct i info, In (i, info) (acked_infos ct now idxs) ->
  In i idxs /\ al_get i (ct_mutations ct) = Some info.
Proof.
  induction idxs as [|j r IH]; intros ct i info Hin; [destruct Hin|].
  cbn [acked_infos] in Hin. apply in_app_or in Hin. destruct Hin as [Hin|Hin].
  - destruct (al_get j (ct_mutations ct)) as [info0|] eqn:Ej; [|destruct Hin].
    destruct Hin as [Hin|[]]. inversion Hin; subst. split; [left; reflexivity|exact Ej].
  - destruct (IH _ _ _ Hin) as [H1 H2]. split; [right; exact H1|].
    destruct (N.eq_dec i j) as [->|Hne]; [rewrite ack_entry_removed in H2; discriminate|].
    rewrite ack_other_entries in H2 by exact Hne. exact H2.
Qed.

(* ... all of them: a registered index of the list is processed (once) *)
Lemma acked_infos_complete now idxs : forall ct i info, In i idxs -> al_get i (ct_mutations ct) = Some info ->
  In (i, info) (acked_infos ct now idxs).
Proof.
  induction idxs as [|j r IH]; intros ct i info Hin Hi; [destruct Hin|].
  cbn [acked_infos]. apply in_or_app. destruct (N.eq_dec i j) as [->|Hne].
  - left. rewrite Hi. left. reflexivity.
  - right. destruct Hin as [Hin|Hin]; [congruence|]. apply IH; [exact Hin|]. rewrite ack_other_entries by exact Hne. exact Hi.
Qed.

(* junk: indices that name no registered message are not processed and change nothing *)
Lemma acked_infos_junk now idxs ct : Forall (fun i => al_get i (ct_mutations ct) = None) idxs ->
  acked_infos ct now idxs = [] /\ ack_all ct now idxs = ct.
Proof.
  intros H. split; [|apply ack_all_unknown_identity; exact H].
  revert ct H. induction idxs as [|j r IH]; intros ct H; [reflexivity|].
  inversion H as [|? ? Hj Hr]; subst. cbn [acked_infos]. rewrite Hj. cbn [app].
  rewrite ack_unknown_identity by exact Hj. apply IH. exact Hr.
Qed.

(* ---------- cleanup ---------- *)

Lemma tk_ok_cleanup g ct now min_ts : tk_ok g ct now -> tk_ok g (cleanup_older_mutations ct min_ts) now.
Proof.
  intros H.
  assert (Hget : forall i info, al_get i (ct_mutations (cleanup_older_mutations ct min_ts)) = Some info ->
            al_get i (ct_mutations ct) = Some info).
  { intros i info Hi. unfold cleanup_older_mutations in Hi. cbn [ct_mutations] in Hi.
    rewrite (al_get_filter (fun info => negb (mi_timestamp info <? min_ts))) in Hi by exact (tk_nd _ _ _ H).
    destruct (al_get i (ct_mutations ct)) as [info0|]; [|discriminate].
    destruct (negb (mi_timestamp info0 <? min_ts)); [exact Hi|discriminate]. }
  constructor.
  - intros e a. rewrite cleanup_keeps_stamps. exact (tk_b1 _ _ _ H e a).
  - intros i info Hi. exact (tk_b2 _ _ _ H i info (Hget i info Hi)).
  - unfold cleanup_older_mutations. cbn [ct_mutations]. apply al_filter_nodup. exact (tk_nd _ _ _ H).
  - intros i info e t Hin He. rewrite cleanup_keeps_stamps. exact (tk_cov _ _ _ H i info e t Hin He).
  - intros i info Hi. exact (tk_reg _ _ _ H i info (Hget i info Hi)).
  - exact (tk_ack _ _ _ H).
  - intros e t. rewrite cleanup_keeps_stamps. exact (tk_org _ _ _ H e t).
  - exact (tk_sent _ _ _ H).
  - exact (tk_upds _ _ _ H).
Qed.

(* ================================================================== *)
(* 3. `send_for_client`                                               *)
(* ================================================================== *)

(* ---------- collect_despawns only forgets stamps ---------- *)

Definition ticks_sub (t0 t : client_ticks) : Prop :=
  forall e a, mutation_tick t e = Some a -> mutation_tick t0 e = Some a.

Lemma ticks_sub_remove t0 t e : ticks_sub t0 t -> ticks_sub t0 (remove_entity t e).
Proof.
  intros H e' a. rewrite remove_get_mutation_tick. destruct (e' =? e); [discriminate|]. apply H.
Qed.

Lemma collect_despawns_sub buf ticks v : ticks_sub ticks (snd (fst (collect_despawns buf ticks v))).
Proof.
  unfold collect_despawns.
  destruct (match v with
            | Some vv => let '(vv', l) := drain_lost vv in (sort_N l, Some vv')
            | None => ([], None)
            end) as [lost v1].
  apply (fold_left_inv _ (fun acc => ticks_sub ticks (snd (fst acc)))).
  - intros [[des t] vo] e _ Ht. cbn [fst snd] in *. destruct vo; cbn [fst snd]; apply ticks_sub_remove; exact Ht.
  - cbn [fst snd]. apply (fold_left_inv _ (ticks_sub ticks)).
    + intros t e _ Ht. apply ticks_sub_remove. exact Ht.
    + intros e a Ha. exact Ha.
Qed.

Lemma sfc_ticks1_sub s cl : ticks_sub (sc_ticks cl) (sfc_ticks1 s cl).
Proof. apply collect_despawns_sub. Qed.

(* ---------- collect_entity ---------- *)

(* a component left for a mutate message: the entity has a stamp and the component changed after it *)
Lemma cep_muts_stamp last_run tick rb mt st e x madd k v :
  In (k, v) (ec_muts (cep last_run tick rb mt st e x madd)) ->
  exists comp t, In (k, comp) (se_comps x) /\ v = c_val comp /\ mt = Some t /\ t < c_changed comp.
Proof.
  unfold cep. destruct (is_hidden st); [intros []|].
  match goal with |- context [if ?b then _ else _] => destruct b end.
  - match goal with |- context [match ?l with [] => _ | _ => _ end] => destruct l end; intros [].
  - cbn [ec_muts]. intros Hin. apply in_map_iff in Hin. destruct Hin as [[k' comp] [Heq Hin]].
    apply filter_In in Hin. destruct Hin as [Hin Hm]. unfold val_of in Heq. cbn [fst snd] in Heq. injection Heq as -> <-.
    unfold comp_is_mut, incremental in Hm. cbn [fst snd] in Hm. destruct mt as [t|]; [|discriminate].
    destruct (negb (last_run <? madd) && negb (is_gained st) && negb (last_run <? c_added comp)); [|discriminate].
    apply andb_prop in Hm. destruct Hm as [Hm _]. exists comp, t. repeat split; [exact Hin|lia].
Qed.

(* the stamp of an entity is set to the stamp of the run only when the update message gets an entry or a removal
   record for it *)
Lemma cep_bump_cases last_run tick rb mt st e x madd :
  ec_bump (cep last_run tick rb mt st e x madd) = true ->
  st <> VHidden /\
  ((exists en, ec_entry (cep last_run tick rb mt st e x madd) = Some en) \/ exists ks, al_get e rb = Some ks).
Proof.
  unfold cep. destruct (is_hidden st) eqn:Eh; [discriminate|]. apply is_hidden_iff in Eh. intros Hb. split; [exact Eh|].
  revert Hb.
  destruct ((last_run <? madd) || is_gained st || match mt with None => true | Some _ => false end) eqn:Enew; cbn [orb].
  - intros _. left. match goal with |- context [match ?l with [] => _ | _ => _ end] => destruct l end; eexists; reflexivity.
  - destruct (map val_of (filter (comp_is_ins last_run (last_run <? madd) st mt) (se_comps x))) as [|y0 l0] eqn:Eins; cbn [orb].
    + destruct (al_get e rb) as [ks|] eqn:Er; [|discriminate]. intros _. right. exists ks. reflexivity.
    + intros _. left. cbn [app]. eexists; reflexivity.
Qed.

(* ---------- the fold of collect_changes, with a property of the stamp each entity is compared with ---------- *)

Section CollectQ.
Variables (last_run tick : N) (rb : list (N * list N)) (vis1 : option vis) (this_run : N).
Variable Q : N -> option N -> Prop.
Hypothesis Qrun : forall e, Q e (Some this_run).

Lemma collect_list_Q l : forall ti, (forall e, Q e (mutation_tick ti e)) ->
  (forall e ec, In (e, ec) (fst (collect_list last_run tick rb vis1 this_run ti l)) ->
     exists x madd mt, In (e, x, madd) l /\ Q e mt /\ ec = cep last_run tick rb mt (vis_state_of vis1 e) e x madd) /\
  forall e, Q e (mutation_tick (snd (collect_list last_run tick rb vis1 this_run ti l)) e).
Proof.
  induction l as [|[[e0 x0] m0] l IH]; intros ti Hq; cbn [collect_list]; [split; [intros e ec []|exact Hq]|].
  cbn [ent_id fst snd].
  set (ec0 := cep last_run tick rb (mutation_tick ti e0) (vis_state_of vis1 e0) e0 x0 m0).
  assert (Hq' : forall e, Q e (mutation_tick (if ec_bump ec0 then set_mutation_tick ti e0 this_run else ti) e)).
  { intros e. destruct (ec_bump ec0); [|apply Hq]. rewrite set_get_mutation_tick. destruct (e =? e0); [apply Qrun|apply Hq]. }
  specialize (IH _ Hq').
  destruct (collect_list last_run tick rb vis1 this_run (if ec_bump ec0 then set_mutation_tick ti e0 this_run else ti) l) as [ecs tf].
  cbn [fst snd] in *. destruct IH as [IH1 IH2]. split; [|exact IH2].
  intros e ec [Hin|Hin].
  - inversion Hin; subst e ec. exists x0, m0, (mutation_tick ti e0). split; [left; reflexivity|]. split; [apply Hq|reflexivity].
  - destruct (IH1 e ec Hin) as (x & madd & mt & H1 & H2 & H3). exists x, madd, mt. split; [right; exact H1|auto].
Qed.
End CollectQ.

Lemma sfc_ecs_Q s this_run cl (Q : N -> option N -> Prop) :
  (forall e, Q e (Some this_run)) -> (forall e, Q e (mutation_tick (sfc_ticks1 s cl) e)) ->
  forall e ec, In (e, ec) (sfc_ecs s this_run cl) ->
    exists x madd mt, In (e, x, madd) (replicated_ents s) /\ Q e mt /\
      ec = cep (sv_last_run s) (sv_tick s) (sv_removal_buf s) mt (vis_state_of (sfc_vis1 s cl) e) e x madd.
Proof.
  intros H1 H2. unfold sfc_ecs.
  exact (proj1 (collect_list_Q (sv_last_run s) (sv_tick s) (sv_removal_buf s) (sfc_vis1 s cl) this_run Q H1
                  (replicated_ents s) (sfc_ticks1 s cl) H2)).
Qed.

(* an entity whose stamp is moved to the stamp of the run is mentioned by the update message of the run *)
Lemma bump_mentions s this_run cl e ec :
  In (e, ec) (sfc_ecs s this_run cl) -> ec_bump ec = true ->
  sfc_has_upd s this_run cl = true /\ upd_mentions (sfc_upd s this_run cl) e.
Proof.
  intros Hin Hb. destruct (sfc_ecs_sound s this_run cl e ec Hin) as (x & madd & mt & Hl & ->).
  destruct (cep_bump_cases _ _ _ _ _ _ _ _ Hb) as [Hst [[en Hen]|[ks Hks]]].
  - assert (Hc : In (e, en) (changed_set s this_run cl)).
    { rewrite changed_set_eq. apply In_entries_of. eexists. split; [exact Hin|exact Hen]. }
    split.
    + unfold sfc_has_upd, update_is_empty, sfc_upd. cbn [u_maps u_despawns u_removals u_changes].
      destruct (changed_set s this_run cl); [destruct Hc|].
      destruct (sort_by_key (sc_pending_map cl)), (sfc_despawns s cl), (sfc_removals s cl); reflexivity.
    + right. cbn [sfc_upd u_changes]. apply in_map_iff. exists (e, en). split; [reflexivity|exact Hc].
  - assert (Hr : In (e, ks) (sfc_removals s cl)).
    { unfold sfc_removals. apply In_sort_by_key. unfold collect_removals. apply filter_In. split; [apply Server_proofs.al_get_In; exact Hks|].
      cbn [fst]. apply vis_visible_state. exact Hst. }
    split.
    + unfold sfc_has_upd, update_is_empty, sfc_upd. cbn [u_maps u_despawns u_removals u_changes].
      destruct (sfc_removals s cl); [destruct Hr|].
      destruct (sort_by_key (sc_pending_map cl)), (sfc_despawns s cl); reflexivity.
    + left. cbn [sfc_upd u_removals]. apply in_map_iff. exists (e, ks). split; [reflexivity|exact Hr].
Qed.

(* ---------- registering the mutate messages ---------- *)

Section MutGet.
Variables (this_run elapsed : N).

Lemma mut_ticks_get p : forall t i info,
  al_get i (ct_mutations (mut_ticks this_run elapsed t p)) = Some info ->
  al_get i (ct_mutations t) = Some info \/
  exists ents, In (i, ents) (combine (idx_seq (ct_mutate_index t) (length p)) p) /\ info = mkMI this_run elapsed ents.
Proof.
  induction p as [|ents p IH]; intros t i info Hi; [left; exact Hi|].
  rewrite mut_ticks_cons in Hi. destruct (reg_step_fields this_run elapsed t ents) as (_ & _ & F3 & F4 & F5).
  cbn [length idx_seq combine]. destruct (IH _ _ _ Hi) as [Ho|(ents' & Hin & ->)].
  - destruct (N.eq_dec i (ct_mutate_index t)) as [->|Hne].
    + rewrite F4 in Ho. inversion Ho; subst info. right. exists ents. split; [left; reflexivity|reflexivity].
    + rewrite F5 in Ho by exact Hne. left. exact Ho.
  - right. exists ents'. split; [right; rewrite <- F3; exact Hin|reflexivity].
Qed.

Lemma mut_ticks_nodup p : forall t, NoDup (al_keys (ct_mutations t)) ->
  NoDup (al_keys (ct_mutations (mut_ticks this_run elapsed t p))).
Proof.
  induction p as [|ents p IH]; intros t H; [exact H|]. rewrite mut_ticks_cons. apply IH.
  unfold reg_step, register_mutate_message, add_entities. cbn [fst ct_mutations].
  rewrite al_keys_adjust. apply al_insert_nodup. exact H.
Qed.
End MutGet.

Lemma mut_msgs_of_combine track tick upd_tick count muts idx p i ents :
  In (i, ents) (combine (idx_seq idx (length p)) p) ->
  exists m, In m (mut_msgs track tick upd_tick count muts idx p) /\ m_idx m = i /\ map fst (m_body m) = ents.
Proof.
  intros Hin. unfold mut_msgs. eexists. split; [apply in_map_iff; exists (i, ents); split; [reflexivity|exact Hin]|].
  cbn [m_idx m_body fst snd]. split; [reflexivity|]. unfold mut_body. rewrite map_map. cbn [fst]. apply map_id.
Qed.

(* ---------- the ghost after one run for one client ---------- *)

Definition ag_send (g : aghost) (r : N) (runs : list (N * N)) (out : client_out) : aghost :=
  mkAG (ag_runs g ++ runs)
       (ag_sent g ++ map (pair r) (co_mutates out))
       (ag_upds g ++ map (pair r) (match co_update out with Some u => [u] | None => [] end))
       (ag_acked g).

Lemma tk_ok_send c s cl p g runs :
  tk_ok g (sc_ticks cl) (sv_now s) ->
  tk_ok (ag_send g (sv_now s) runs (snd (sfc_pure c s (sv_now s) cl p)))
        (sc_ticks (fst (sfc_pure c s (sv_now s) cl p))) (sv_now s + 1).
Proof.
  intros H. set (now := sv_now s) in *.
  pose proof (send_for_client_eq c s now cl p) as Heq.
  destruct (sfc_pure c s now cl p) as [cl' out] eqn:Ep. apply sfc_result in Heq. destruct Heq as [Hcl Hout]. cbn [fst snd].
  set (t3 := sfc_ticks3 s now cl) in *. set (parts := sfc_parts c s now cl p) in *.
  assert (Ht : sc_ticks cl' = mut_ticks now (sv_elapsed s) t3 parts) by (rewrite Hcl; reflexivity).
  destruct (mut_ticks_fields now (sv_elapsed s) parts t3) as (M1 & _ & _).
  destruct (sfc_ticks3_fields s now cl) as (T1 & T2 & T3 & _). fold t3 in T1, T2, T3.
  destruct (sfc_ticks2_fields s now cl) as (_ & _ & _ & T4).
  assert (Hmt : forall e, mutation_tick (sc_ticks cl') e =
            if existsb (fun eec => (fst eec =? e) && ec_bump (snd eec)) (sfc_ecs s now cl) then Some now
            else mutation_tick (sfc_ticks1 s cl) e).
  { intros e. rewrite <- T4. unfold mutation_tick. rewrite Ht, M1, T1. reflexivity. }
  assert (Hsub := sfc_ticks1_sub s cl).
  assert (Hmsgs : co_mutates out = mut_msgs (cfg_track c) (sv_tick s) (ct_update_tick t3) (N.of_nat (length parts))
                                            (mutated_set s now cl) (ct_mutate_index (sc_ticks cl)) parts) by (rewrite Hout; reflexivity).
  assert (Hupd : co_update out = if sfc_has_upd s now cl then Some (sfc_upd s now cl) else None) by (rewrite Hout; reflexivity).
  assert (Hreg : forall i info, al_get i (ct_mutations (sc_ticks cl')) = Some info ->
            al_get i (ct_mutations (sc_ticks cl)) = Some info \/
            (mit info = now /\ exists m, In m (co_mutates out) /\ m_idx m = i /\ mi_entities info = map fst (m_body m))).
  { intros i info Hi. rewrite Ht in Hi. destruct (mut_ticks_get now (sv_elapsed s) parts t3 i info Hi) as [Ho|(ents & Hin & ->)].
    - left. rewrite <- T2. exact Ho.
    - right. split; [reflexivity|]. rewrite T3 in Hin.
      destruct (mut_msgs_of_combine (cfg_track c) (sv_tick s) (ct_update_tick t3) (N.of_nat (length parts)) (mutated_set s now cl)
                  _ _ _ _ Hin) as (m & Hm & Hi' & Hb).
      exists m. rewrite Hmsgs. split; [exact Hm|]. split; [exact Hi'|]. cbn [mi_entities]. symmetry. exact Hb. }
  constructor.
  - intros e a. rewrite Hmt. destruct (existsb _ _).
    + intros E. inversion E. lia.
    + intros E. pose proof (tk_b1 _ _ _ H e a (Hsub e a E)). lia.
  - intros i info Hi. destruct (Hreg i info Hi) as [Ho|[E _]]; [pose proof (tk_b2 _ _ _ H i info Ho)|]; lia.
  - rewrite Ht. apply mut_ticks_nodup. rewrite T2. exact (tk_nd _ _ _ H).
  - intros i info e t Hin He. cbn [ag_send ag_acked] in Hin. rewrite Hmt. destruct (existsb _ _).
    + intros E. inversion E; subst t. destruct (tk_ack _ _ _ H i info Hin) as (m & Hm & _). pose proof (tk_sent _ _ _ H _ _ Hm). lia.
    + intros E. exact (tk_cov _ _ _ H i info e t Hin He (Hsub e t E)).
  - intros i info Hi. destruct (Hreg i info Hi) as [Ho|[E (m & Hm & Hi' & Hb)]].
    + apply (rec_sent_mono g); [cbn; apply incl_appl, incl_refl|]. exact (tk_reg _ _ _ H i info Ho).
    + exists m. split; [|auto]. cbn [ag_send ag_sent]. apply in_or_app. right. rewrite E. apply in_map. exact Hm.
  - intros i info Hin. apply (rec_sent_mono g); [cbn; apply incl_appl, incl_refl|]. exact (tk_ack _ _ _ H i info Hin).
  - intros e t. rewrite Hmt. destruct (existsb _ _) eqn:Ex.
    + intros E. inversion E; subst t. right. apply existsb_exists in Ex. destruct Ex as [[e' ec] [Hin Hb]].
      cbn [fst snd] in Hb. apply andb_prop in Hb. destruct Hb as [He' Hb]. assert (e' = e) by lia. subst e'.
      destruct (bump_mentions s now cl e ec Hin Hb) as [Hh Hm]. exists (sfc_upd s now cl). split; [|exact Hm].
      cbn [ag_send ag_upds]. apply in_or_app. right. rewrite Hupd, Hh. left. reflexivity.
    + intros E. apply (origin_mono g); [apply incl_refl|cbn; apply incl_appl, incl_refl|]. exact (tk_org _ _ _ H e t (Hsub e t E)).
  - intros r m Hin. cbn [ag_send ag_sent] in Hin. apply in_app_or in Hin. destruct Hin as [Hin|Hin].
    + pose proof (tk_sent _ _ _ H r m Hin). lia.
    + apply in_map_iff in Hin. destruct Hin as (m0 & E & _). inversion E. lia.
  - intros r u Hin. cbn [ag_send ag_upds] in Hin. apply in_app_or in Hin. destruct Hin as [Hin|Hin].
    + pose proof (tk_upds _ _ _ H r u Hin). lia.
    + apply in_map_iff in Hin. destruct Hin as (u0 & E & _). inversion E. lia.
Qed.

(* a record that is not sent to keeps fitting its ghost when the stamp counter moves on *)
Lemma tk_ok_later g ct now now' : now <= now' -> tk_ok g ct now -> tk_ok g ct now'.
Proof.
  intros Hle H. constructor; try (apply H).
  - intros e a Ha. pose proof (tk_b1 _ _ _ H e a Ha). lia.
  - intros i info Hi. pose proof (tk_b2 _ _ _ H i info Hi). lia.
  - intros r m Hin. pose proof (tk_sent _ _ _ H r m Hin). lia.
  - intros r u Hin. pose proof (tk_upds _ _ _ H r u Hin). lia.
Qed.

Lemma tk_ok_runs g ct now runs : tk_ok g ct now -> tk_ok (mkAG (ag_runs g ++ runs) (ag_sent g) (ag_upds g) (ag_acked g)) ct now.
Proof.
  intros H. constructor; apply H.
Qed.

(* ---------- R1, one run: what goes into a mutate message ---------- *)

Theorem sfc_mutate_only_newer c s cl p g m e vals k v :
  tk_ok g (sc_ticks cl) (sv_now s) ->
  In m (co_mutates (snd (sfc_pure c s (sv_now s) cl p))) -> In (e, vals) (m_body m) -> In (k, v) vals ->
  exists x madd comp, In (e, x, madd) (replicated_ents s) /\ In (k, comp) (se_comps x) /\ v = c_val comp /\
    forall i info, In (i, info) (ag_acked g) -> In e (mi_entities info) -> mit info < c_changed comp.
Proof.
  intros H Hm He Hk. set (now := sv_now s) in *.
  pose proof (send_for_client_eq c s now cl p) as Heq.
  destruct (sfc_pure c s now cl p) as [cl' out] eqn:Ep. cbn [snd] in Hm.
  destruct (sfc_body_entry _ _ _ _ _ _ _ _ _ _ Heq Hm He) as [Hms _].
  rewrite mutated_set_eq in Hms. apply In_muts_of in Hms. destruct Hms as (ec & Hec & Hmu & _).
  set (Q := fun (e0 : N) (mt : option N) => forall t, mt = Some t -> t = now \/ mutation_tick (sc_ticks cl) e0 = Some t).
  destruct (sfc_ecs_Q s now cl Q) with (e := e) (ec := ec) as (x & madd & mt & Hl & Hq & ->).
  - intros e0 t E. left. congruence.
  - intros e0 t E. right. exact (sfc_ticks1_sub s cl e0 t E).
  - exact Hec.
  - rewrite <- Hmu in Hk. destruct (cep_muts_stamp _ _ _ _ _ _ _ _ _ _ Hk) as (comp & t & Hc & Hv & -> & Hlt).
    exists x, madd, comp. split; [exact Hl|]. split; [exact Hc|]. split; [exact Hv|].
    intros i info Hin Hie. destruct (Hq t eq_refl) as [->|Ht].
    + destruct (tk_ack _ _ _ H i info Hin) as (m0 & Hm0 & _). pose proof (tk_sent _ _ _ H _ _ Hm0). lia.
    + pose proof (tk_cov _ _ _ H i info e t Hin Hie Ht). lia.
Qed.

(* ---------- R2, one run: what must be sent ---------- *)

Theorem sfc_resend_unless_covered c s cl p e x madd k comp :
  ents_wf s ->
  In (e, x, madd) (replicated_ents s) -> vis_state_of (sfc_vis1 s cl) e <> VHidden ->
  In (k, comp) (se_comps x) -> rate_of k = EveryTick ->
  (forall t, mutation_tick (sc_ticks cl) e = Some t -> t < c_changed comp) ->
  sent_in_update (snd (sfc_pure c s (sv_now s) cl p)) e k (c_val comp) \/
  sent_in_mutate (snd (sfc_pure c s (sv_now s) cl p)) e k (c_val comp).
Proof.
  intros Hwf Hl Hst Hc Hr Hnew. set (now := sv_now s) in *.
  pose proof (send_for_client_eq c s now cl p) as Heq.
  destruct (sfc_pure c s now cl p) as [cl' out] eqn:Ep. cbn [snd].
  destruct (mutation_tick (sfc_ticks1 s cl) e) as [t|] eqn:Et.
  - apply (resend_until_acked_client c s now cl p cl' out e x madd k comp t Heq); auto.
    + unfold sfc_vis1, sfc_ticks1 in *. destruct (collect_despawns (sv_despawn_buf s) (sc_ticks cl) (sc_vis cl)) as [[d t1] v1].
      cbn [fst snd] in *. split; assumption.
    + apply Hnew. exact (sfc_ticks1_sub s cl e t Et).
  - left. destruct (sfc_ecs_complete s now cl e x madd Hl) as [mt Hin].
    rewrite (sfc_ecs_nodup s now cl Hwf) in Hin. apply in_map_iff in Hin. destruct Hin as ([[e1 x1] m1] & Heq1 & Hin1).
    cbn [ent_id fst snd] in Heq1. inversion Heq1 as [[He1 Hcep]]. subst e1. clear Heq1.
    rewrite Et in Hcep.
    assert (Hx : x1 = x /\ m1 = madd).
    { pose proof (replicated_ents_nodup s Hwf) as Hnd.
      assert (G : forall (l : list (N * sent * N)), NoDup (map ent_id l) -> In (e, x1, m1) l -> In (e, x, madd) l -> x1 = x /\ m1 = madd).
      { induction l as [|y l IH]; intros Hn H1 H2; [destruct H1|]. cbn [map] in Hn. inversion Hn as [|? ? Hni Hn']; subst.
        destruct H1 as [H1|H1], H2 as [H2|H2].
        - rewrite H1 in H2. inversion H2. auto.
        - exfalso. apply Hni. subst y. apply (in_map ent_id) in H2. exact H2.
        - exfalso. apply Hni. subst y. apply (in_map ent_id) in H1. exact H1.
        - apply IH; assumption. }
      exact (G _ Hnd Hin1 Hl). }
    destruct Hx as [-> ->].
    assert (Hc' : In (e, all_comps x) (changed_set s now cl)).
    { rewrite changed_set_eq. apply In_entries_of. eexists. split.
      - rewrite (sfc_ecs_nodup s now cl Hwf). apply in_map_iff. exists (e, x, madd). split; [reflexivity|exact Hin1].
      - cbn [ent_id fst snd]. rewrite Et. rewrite cep_full; [reflexivity|exact Hst|left; reflexivity]. }
    unfold sent_in_update. rewrite (sfc_update_present _ _ _ _ _ _ _ _ _ Heq Hc').
    exists (sfc_upd s now cl), (all_comps x). split; [reflexivity|]. split; [exact Hc'|].
    unfold all_comps. apply in_map_iff. exists (k, comp). split; [reflexivity|exact Hc].
Qed.

(* ================================================================== *)
(* 4. one server frame, slot by slot                                  *)
(* ================================================================== *)

(* the bookkeeping of a record after PreUpdate (`receive_acks`, `cleanup_acks`) *)
Definition frame_ticks (c : cfg) (s : server) (dt : N) (cleanup : bool) (cl : sclient) : client_ticks :=
  if sv_running s then
    let a := sc_ticks (ack_client (sv_now s) (sv_inbox_acks s) cl) in
    if cleanup then cleanup_older_mutations a (sv_elapsed s + dt - cfg_timeout c) else a
  else sc_ticks cl.

(* the record of slot [k] in [s'] is the record of [s] up to visibility / pending mappings, with bookkeeping [t] *)
Definition rec_of (s s' : server) (k : N) (f : sclient -> client_ticks) : Prop :=
  match find_client s k with
  | Some cl => exists cl', find_client s' k = Some cl' /\ sc_slot cl' = sc_slot cl /\ sc_authorized cl' = sc_authorized cl /\
                           sc_ticks cl' = f cl
  | None => find_client s' k = None
  end.

Lemma frame_acks_find c s tick dt cleanup k :
  rec_of s (frame_acks c s tick dt cleanup) k (frame_ticks c s dt cleanup).
Proof.
  unfold rec_of, frame_acks, frame_ticks. cbn [with_time_tick sv_running].
  destruct (sv_running s) eqn:Er.
  - cbv zeta. unfold find_client.
    assert (Hc : sv_clients (if cleanup then cleanup_acks c (Server.receive_acks (with_time_tick s tick dt))
                             else Server.receive_acks (with_time_tick s tick dt)) =
                 map (fun cl => let a := ack_client (sv_now s) (sv_inbox_acks s) cl in
                                if cleanup then mkSC (sc_slot a) (sc_authorized a) (sc_max_size a)
                                                     (cleanup_older_mutations (sc_ticks a) (sv_elapsed s + dt - cfg_timeout c))
                                                     (sc_vis a) (sc_pending_map a)
                                else a) (sv_clients s)).
    { destruct cleanup.
      - unfold cleanup_acks. cbn [set_clients sv_clients]. rewrite receive_acks_clients. cbn [with_time_tick sv_now sv_inbox_acks sv_clients].
        rewrite map_map. reflexivity.
      - rewrite receive_acks_clients. reflexivity. }
    rewrite Hc. rewrite find_map_pres.
    + destruct (find (fun c0 => sc_slot c0 =? k) (sv_clients s)) as [cl|]; cbn [option_map]; [|reflexivity].
      eexists. split; [reflexivity|]. destruct (ack_client_frame (sv_now s) (sv_inbox_acks s) cl) as (A1 & A2 & _).
      cbv zeta. destruct cleanup; cbn [sc_slot sc_authorized sc_ticks]; auto.
    + intros y. cbv zeta. destruct (ack_client_frame (sv_now s) (sv_inbox_acks s) y) as (A1 & _).
      destruct cleanup; cbn [sc_slot]; rewrite A1; reflexivity.
  - destruct (find_client s k) as [cl|] eqn:Ef.
    + exists cl. change (find_client (with_time_tick s tick dt) k) with (find_client s k). auto.
    + exact Ef.
Qed.

Lemma find_update_client_gen s cnew k :
  find_client (update_client s cnew) k =
  option_map (fun cl => if sc_slot cl =? sc_slot cnew then cnew else cl) (find_client s k).
Proof.
  unfold find_client, update_client, set_clients. cbn [sv_clients]. apply find_map_pres.
  intros y. destruct (sc_slot y =? sc_slot cnew) eqn:E; [|reflexivity].
  assert (sc_slot y = sc_slot cnew) by lia. destruct (sc_slot cnew =? k) eqn:E1; lia.
Qed.

Lemma apply_sop_find s op k : rec_of s (apply_sop s op) k sc_ticks.
Proof.
  unfold rec_of.
  assert (Hid : forall s0, sv_clients s0 = sv_clients s ->
            match find_client s k with
            | Some cl => exists cl', find_client s0 k = Some cl' /\ sc_slot cl' = sc_slot cl /\ sc_authorized cl' = sc_authorized cl /\
                                     sc_ticks cl' = sc_ticks cl
            | None => find_client s0 k = None
            end).
  { intros s0 E. unfold find_client. rewrite E. destruct (find _ (sv_clients s)) as [cl|]; [exists cl; auto|reflexivity]. }
  pose proof (apply_sop_clients s op) as Hc.
  destruct op as [e marker comps|e|e k0 v|e k0|e k0 v|e|e|slot e visible|slot e pc]; try (apply Hid; exact Hc); unfold apply_sop.
  - destruct (find_client s slot) as [c0|] eqn:Ef; [|apply Hid; reflexivity]. destruct (get_ent s e); [|apply Hid; reflexivity].
    destruct (sc_vis c0) as [v|]; [|apply Hid; reflexivity].
    rewrite find_update_client_gen. destruct (find_client s k) as [cl|] eqn:Ek; cbn [option_map]; [|reflexivity].
    eexists. split; [reflexivity|]. cbn [sc_slot]. destruct (sc_slot cl =? sc_slot c0) eqn:E; [|auto].
    pose proof (proj2 (find_client_in _ _ _ Ef)) as S0. pose proof (proj2 (find_client_in _ _ _ Ek)) as S1.
    assert (Hks : k = slot) by lia. rewrite Hks in Ek. rewrite Ef in Ek. inversion Ek; subst c0. cbn. auto.
  - destruct (find_client s slot) as [c0|] eqn:Ef; [|apply Hid; reflexivity]. destruct (get_ent s e); [|apply Hid; reflexivity].
    destruct (sc_authorized c0 && existsb _ (sv_premap s)) eqn:Ec; [|apply Hid; reflexivity].
    apply andb_prop in Ec. destruct Ec as [Ha _].
    rewrite find_update_client_gen. destruct (find_client s k) as [cl|] eqn:Ek; cbn [option_map]; [|reflexivity].
    eexists. split; [reflexivity|]. cbn [sc_slot]. destruct (sc_slot cl =? sc_slot c0) eqn:E; [|auto].
    pose proof (proj2 (find_client_in _ _ _ Ef)) as S0. pose proof (proj2 (find_client_in _ _ _ Ek)) as S1.
    assert (Hks : k = slot) by lia. rewrite Hks in Ek. rewrite Ef in Ek. inversion Ek; subst c0. cbn. auto.
Qed.

Lemma rec_of_trans s1 s2 s3 k f : rec_of s1 s2 k f -> rec_of s2 s3 k sc_ticks -> rec_of s1 s3 k f.
Proof.
  unfold rec_of. intros H1 H2. destruct (find_client s1 k) as [cl|].
  - destruct H1 as (cl2 & E2 & A1 & A2 & A3). rewrite E2 in H2. destruct H2 as (cl3 & E3 & B1 & B2 & B3).
    exists cl3. repeat split; congruence.
  - rewrite H1 in H2. exact H2.
Qed.

Lemma rec_of_refl s k : rec_of s s k sc_ticks.
Proof. unfold rec_of. destruct (find_client s k) as [cl|]; [exists cl; auto|reflexivity]. Qed.

Lemma ops_find ops : forall s k, rec_of s (fold_left apply_sop ops s) k sc_ticks.
Proof.
  induction ops as [|op t IH]; intros s k; cbn [fold_left]; [apply rec_of_refl|].
  eapply rec_of_trans; [apply apply_sop_find|apply IH].
Qed.

Lemma find_client_buffer_removals s k : find_client (buffer_removals s) k = find_client s k.
Proof. reflexivity. Qed.

Lemma frame_pre_find c s tick dt cleanup ops k :
  rec_of s (frame_pre c s tick dt cleanup ops) k (frame_ticks c s dt cleanup).
Proof.
  unfold frame_pre. eapply rec_of_trans; [apply frame_acks_find|].
  pose proof (ops_find ops (frame_acks c s tick dt cleanup) k) as H. unfold rec_of in *.
  rewrite find_client_buffer_removals. exact H.
Qed.

Lemma frame_acks_fields c s tick dt cleanup :
  sv_now (frame_acks c s tick dt cleanup) = sv_now s /\ sv_running (frame_acks c s tick dt cleanup) = sv_running s /\
  slots_of (frame_acks c s tick dt cleanup) = slots_of s /\ sv_ents (frame_acks c s tick dt cleanup) = sv_ents s.
Proof.
  unfold frame_acks. cbn [with_time_tick sv_running]. destruct (sv_running s) eqn:Er; [|repeat split; exact Er].
  cbv zeta. destruct cleanup.
  - rewrite cleanup_acks_slots, receive_acks_slots. repeat split. exact Er.
  - rewrite receive_acks_slots. repeat split. exact Er.
Qed.

Lemma frame_pre_fields c s tick dt cleanup ops :
  sv_now (frame_pre c s tick dt cleanup ops) = sv_now s /\ sv_running (frame_pre c s tick dt cleanup ops) = sv_running s /\
  slots_of (frame_pre c s tick dt cleanup ops) = slots_of s.
Proof.
  destruct (frame_acks_fields c s tick dt cleanup) as (A1 & A2 & A3 & _). unfold frame_pre.
  destruct (ops_flags ops (frame_acks c s tick dt cleanup)) as (B1 & _).
  change (sv_now (buffer_removals ?x)) with (sv_now x). change (sv_running (buffer_removals ?x)) with (sv_running x).
  change (slots_of (buffer_removals ?x)) with (slots_of x).
  rewrite ops_now, ops_slots. repeat split; congruence.
Qed.

(* the two ways a frame ends *)
Lemma server_frame_cases c s tick dt (cleanup : bool) ops parts s' fo :
  server_frame c s tick dt cleanup ops parts = Ok (s', fo) ->
  let pre := frame_pre c s tick dt cleanup ops in
  let rs := map (client_result_pure c pre parts) (sv_clients pre) in
  fo_tick fo = sv_tick s' /\
  ((fo_ran fo = true /\ sv_running s = true /\ sv_clients s' = map fst rs /\ fo_clients fo = outs_of rs /\
    sv_now s' = sv_now s + 1 /\ sv_ents s' = sv_ents pre /\ sv_last_run s' = sv_now s) \/
   (fo_ran fo = false /\ fo_clients fo = [] /\ sv_now s' = sv_now s /\
    (sv_clients s' = sv_clients pre \/ sv_clients s' = []))).
Proof.
  intros H. cbv zeta. destruct (frame_pre_fields c s tick dt cleanup ops) as (P1 & P2 & _).
  unfold server_frame in H. fold (frame_acks c s tick dt cleanup) in H.
  set (s3 := fold_left apply_sop ops (frame_acks c s tick dt cleanup)) in *.
  change (frame_pre c s tick dt cleanup ops) with (buffer_removals s3) in *.
  change (sv_running (buffer_removals s3)) with (sv_running s3) in P2. change (sv_now (buffer_removals s3)) with (sv_now s3) in P1.
  destruct (sv_running s3) eqn:Er3.
  - destruct (sv_dirty (buffer_removals s3)) eqn:Ed.
    + rewrite send_replication_eq in H. cbn [bind] in H. injection H as <- <-. split; [reflexivity|]. left.
      cbn [fo_ran fo_clients set_last_running set_after_send sv_clients sv_now sv_ents sv_last_run].
      change (sv_now (buffer_removals s3)) with (sv_now s3). repeat split; congruence.
    + cbn [bind] in H. injection H as <- <-. split; [reflexivity|]. right.
      cbn [fo_ran fo_clients set_last_running sv_clients sv_now]. repeat split; auto.
  - cbn [bind] in H. injection H as <- <-. split; [reflexivity|]. right.
    cbn [fo_ran fo_clients set_last_running clear_dirty age_events set_bufs sv_clients sv_now]. repeat split.
    + destruct (sv_last_running s3); cbn; exact P1.
    + destruct (sv_last_running s3); cbn; auto.
Qed.

(* the outputs of a run for one slot *)
Lemma outs_none {B} (h : client_out -> list B) k (F : sclient -> sclient * option client_out) l :
  (forall cl o, snd (F cl) = Some o -> co_slot o = sc_slot cl) -> (forall cl, In cl l -> sc_slot cl <> k) ->
  flat_map (fun o => if co_slot o =? k then h o else []) (outs_of (map F l)) = [].
Proof.
  intros HF. induction l as [|cl l IH]; intros Hn; [reflexivity|]. unfold outs_of in *. cbn [map flat_map].
  rewrite flat_map_app, IH by (intros; apply Hn; right; assumption). rewrite app_nil_r.
  destruct (snd (F cl)) as [o|] eqn:Eo; [|reflexivity]. cbn [flat_map]. rewrite app_nil_r.
  pose proof (HF cl o Eo). pose proof (Hn cl (or_introl eq_refl)). destruct (co_slot o =? k) eqn:E; [lia|reflexivity].
Qed.

Lemma outs_for_slot {B} (h : client_out -> list B) k (F : sclient -> sclient * option client_out) l :
  (forall cl o, snd (F cl) = Some o -> co_slot o = sc_slot cl) -> NoDup (map sc_slot l) ->
  flat_map (fun o => if co_slot o =? k then h o else []) (outs_of (map F l)) =
  match find (fun cl => sc_slot cl =? k) l with
  | Some cl => match snd (F cl) with Some o => h o | None => [] end
  | None => []
  end.
Proof.
  intros HF. induction l as [|cl l IH]; intros Hnd; [reflexivity|]. cbn [map] in Hnd. inversion Hnd as [|? ? Hni Hnd']; subst.
  cbn [find]. destruct (sc_slot cl =? k) eqn:E.
  - change (outs_of (map F (cl :: l))) with ((match snd (F cl) with Some o => [o] | None => [] end) ++ outs_of (map F l)).
    rewrite flat_map_app, (outs_none h k F l HF).
    + rewrite app_nil_r. destruct (snd (F cl)) as [o|] eqn:Eo; [|reflexivity]. cbn [flat_map]. rewrite app_nil_r.
      pose proof (HF cl o Eo). destruct (co_slot o =? k) eqn:E1; [reflexivity|lia].
    + intros cl2 Hin Hk. apply Hni. apply in_map_iff. exists cl2. split; [lia|exact Hin].
  - change (outs_of (map F (cl :: l))) with ((match snd (F cl) with Some o => [o] | None => [] end) ++ outs_of (map F l)).
    rewrite flat_map_app, IH by exact Hnd'.
    destruct (snd (F cl)) as [o|] eqn:Eo; [|reflexivity]. cbn [flat_map app]. rewrite app_nil_r.
    pose proof (HF cl o Eo). destruct (co_slot o =? k) eqn:E1; [lia|reflexivity].
Qed.

Lemma client_result_slot c s parts cl o : snd (client_result_pure c s parts cl) = Some o -> co_slot o = sc_slot cl.
Proof. unfold client_result_pure. destruct (sc_authorized cl); [|discriminate]. cbn [snd]. intros E. inversion E. reflexivity. Qed.

Definition opt_list {A} (o : option A) : list A := match o with Some a => [a] | None => [] end.

Theorem frame_slot c s tick dt (cleanup : bool) ops parts s' fo k :
  NoDup (slots_of s) -> server_frame c s tick dt cleanup ops parts = Ok (s', fo) ->
  let pre := frame_pre c s tick dt cleanup ops in
  match find_client s k with
  | None => find_client s' k = None /\ mutates_for k (fo_clients fo) = [] /\ updates_for k (fo_clients fo) = []
  | Some cl =>
    exists clp, find_client pre k = Some clp /\ sc_slot clp = k /\ sc_authorized clp = sc_authorized cl /\
      sc_ticks clp = frame_ticks c s dt cleanup cl /\
      ((fo_ran fo = true /\ sc_authorized clp = true /\
        find_client s' k = Some (fst (sfc_pure c pre (sv_now s) clp (part_for parts clp))) /\
        mutates_for k (fo_clients fo) = co_mutates (snd (sfc_pure c pre (sv_now s) clp (part_for parts clp))) /\
        updates_for k (fo_clients fo) = opt_list (co_update (snd (sfc_pure c pre (sv_now s) clp (part_for parts clp))))) \/
       ((sc_authorized clp = false \/ fo_ran fo = false) /\
        mutates_for k (fo_clients fo) = [] /\ updates_for k (fo_clients fo) = [] /\
        (find_client s' k = Some clp \/ find_client s' k = None)))
  end.
Proof.
  intros Hnd H. cbv zeta. pose proof (frame_pre_find c s tick dt cleanup ops k) as Hrec.
  destruct (frame_pre_fields c s tick dt cleanup ops) as (P1 & P2 & P3).
  destruct (server_frame_cases _ _ _ _ _ _ _ _ _ H) as [_ Hcase]. cbv zeta in Hcase.
  set (pre := frame_pre c s tick dt cleanup ops) in *.
  assert (Hndp : NoDup (map sc_slot (sv_clients pre))) by (change (NoDup (slots_of pre)); rewrite P3; exact Hnd).
  assert (Hm : forall {B} (h : client_out -> list B),
            flat_map (fun o => if co_slot o =? k then h o else []) (outs_of (map (client_result_pure c pre parts) (sv_clients pre))) =
            match find_client pre k with
            | Some cl => match snd (client_result_pure c pre parts cl) with Some o => h o | None => [] end
            | None => []
            end).
  { intros B h. apply outs_for_slot; [apply client_result_slot|exact Hndp]. }
  assert (Hf : find_client (set_clients pre (map fst (map (client_result_pure c pre parts) (sv_clients pre)))) k =
               option_map (fun cl => fst (client_result_pure c pre parts cl)) (find_client pre k)).
  { unfold find_client. cbn [set_clients sv_clients]. rewrite map_map. apply find_map_pres.
    intros y. unfold client_result_pure. destruct (sc_authorized y); reflexivity. }
  unfold rec_of in Hrec. destruct (find_client s k) as [cl|] eqn:Ek.
  - destruct Hrec as (clp & Ep & A1 & A2 & A3). exists clp. split; [exact Ep|].
    split; [destruct (find_client_in _ _ _ Ek); congruence|]. split; [exact A2|]. split; [exact A3|].
    destruct Hcase as [(R1 & R2 & R3 & R4 & R5 & _)|(R1 & R2 & R3 & R4)].
    + assert (Hfs : find_client s' k = option_map (fun cl => fst (client_result_pure c pre parts cl)) (find_client pre k)).
      { rewrite <- Hf. unfold find_client. rewrite R3. reflexivity. }
      rewrite Ep in Hfs. cbn [option_map] in Hfs.
      unfold mutates_for, updates_for. rewrite R4.
      rewrite (Hm _ co_mutates), (Hm _ (fun o => match co_update o with Some u => [u] | None => [] end)), Ep.
      unfold client_result_pure in *. rewrite P1 in *. destruct (sc_authorized clp) eqn:Ea; cbn [fst snd] in *.
      * left. repeat split; auto.
      * right. repeat split; auto.
    + right. rewrite R2. split; [right; exact R1|]. split; [reflexivity|]. split; [reflexivity|].
      destruct R4 as [R4|R4]; unfold find_client in *; rewrite R4; [left; exact Ep|right; reflexivity].
  - destruct Hcase as [(R1 & R2 & R3 & R4 & _)|(R1 & R2 & R3 & R4)].
    + assert (Hfs : find_client s' k = option_map (fun cl => fst (client_result_pure c pre parts cl)) (find_client pre k)).
      { rewrite <- Hf. unfold find_client. rewrite R3. reflexivity. }
      rewrite Hrec in Hfs. split; [exact Hfs|]. unfold mutates_for, updates_for. rewrite R4.
      rewrite (Hm _ co_mutates), (Hm _ (fun o => match co_update o with Some u => [u] | None => [] end)), Hrec. split; reflexivity.
    + rewrite R2. split; [|split; reflexivity]. destruct R4 as [R4|R4]; unfold find_client in *; rewrite R4; [exact Hrec|reflexivity].
Qed.

(* without a visibility filter (policy `All`) nothing is hidden *)
Lemma sfc_vis1_none s cl e : sc_vis cl = None -> vis_state_of (sfc_vis1 s cl) e = VVisible.
Proof.
  intros Hv. unfold sfc_vis1, collect_despawns. rewrite Hv.
  assert (G : snd (fold_left (fun (acc : list N * client_ticks * option vis) e0 =>
               let '(des, t, vo) := acc in
               match vo with
               | Some vv => (if is_visible vv e0 then des ++ [e0] else des, remove_entity t e0, Some (remove_despawned vv e0))
               | None => (des ++ [e0], remove_entity t e0, None)
               end) (sv_despawn_buf s) ([], fold_left remove_entity [] (sc_ticks cl), None)) = None).
  { apply (fold_left_inv _ (fun acc => snd acc = None)); [|reflexivity].
    intros [[des t] vo] e0 _ H. cbn [snd] in *. subst vo. reflexivity. }
  rewrite G. reflexivity.
Qed.
