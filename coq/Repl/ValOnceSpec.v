(* C02 / C01 end to end at the value level WITH THE `Once` SEND RATE: definitions.  Generalises Repl/ValRefSpec.v (every
   visibility policy, several sessions, re-replication, entity references; kinds 0 / 1 / 3, rate `EveryTick`) to

     kinds     every kind but 4 (`Periodic`): 0 A, 1 B, 3 R as before, and 2 C whose rate is `Once`

   A component of kind 2 travels with its insertion, or when its entity is sent whole (new to the client, visibility
   regained, re-replicated); its later mutations are never sent (`ServerSpec.sm 2 _ = false`).  So what the client
   holds for kind 2 is not the value of the snapshot of its confirmed tick, but the value that the SAME INSTANCE of the
   component (same `c_added` stamp: never removed and inserted again in between) had in an earlier or equal snapshot of
   the session, in which the entity was visible to the slot ([onceo]).  For the other kinds nothing changes.

   What changes in the invariants of Repl/ValRefSpec.v:
     comps_oko    kinds other than 4
     keepso       the history also keeps INSTANCES: a component added at or before the stamp of an older snapshot is in
                  that snapshot, with the same `c_added` ([keeps_added])
     agreeo       per kind: [vrel] with the value of the confirmed snapshot (kinds other than 2), [onceo] (kind 2)
     entry_sinceo what an incremental entry leaves out: changed at or before the acknowledged stamp (kinds other than 2),
                  ADDED at or before it (kind 2)
     once_known   new fact about the server side of a slot: a component that existed at the last run was added at or
                  before the stamp the slot has acknowledged for its entity (needed for [entry_sinceo] of kind 2)
   Lemmas: Repl/ValOnceHist_proofs.v (server history), Repl/ValOnceCli_proofs.v (client half),
   Repl/ValOnceSrv_proofs.v + Repl/ValOnceFrame_proofs.v (server half), Repl/ValOnceE2E_proofs.v (whole-system runs);
   pinned: Properties/C02I.v. *)
From RV Require Import Lib.Res Repl.ClientTicks Repl.World Vis.Visibility Tick.RepliconTick Tick.ConfirmHistory
  Tick.MutateTicks Repl.Server Repl.ServerSpec Repl.StructSpec Repl.StructVisSpec Repl.Client Repl.Sys Repl.ClientStructSpec
  Repl.ClientStruct_proofs Repl.ClientMut_proofs Repl.StructE2E_proofs Repl.StructE2EMut_proofs Repl.StructE2ESess_proofs
  Repl.Ack_proofs Repl.ValSpec Repl.ValVisSpec Repl.ValRefSpec.
Open Scope N_scope.

(* ================================================================== *)
(* 1. scripts                                                         *)
(* ================================================================== *)

(* every kind but `Periodic` *)
Definition kind_ok (k : N) : bool := negb (k =? 4).

Definition sop_valso (op : sop) : bool :=
  match op with
  | SSpawn _ _ comps => forallb (fun kv => kind_ok (fst kv)) comps
  | SInsert _ k _ => kind_ok k
  | SMutate _ k _ => kind_ok k
  | _ => true
  end.
Definition step_valso (st : step) : bool :=
  match st with StSFrame _ _ _ ops _ => forallb sop_valso ops | _ => true end.
Definition script_valso (script : list step) : bool := forallb step_valso script.

(* ================================================================== *)
(* 2. server history                                                  *)
(* ================================================================== *)

Definition comps_oko (now : N) (l : list (N * comp)) : Prop :=
  ksorted l /\
  forall k c, In (k, c) l -> kind_ok k = true /\ c_added c <= c_changed c /\ c_changed c <= now.
Definition ents_oko (s : server) : Prop :=
  forall e x, get_ent s e = Some x -> comps_oko (sv_now s) (se_comps x).

(* a component of [s2] added at or before [r] is in [s1], the same instance *)
Definition keeps_added (r : N) (s1 s2 : server) : Prop :=
  forall e x2 k c, get_ent s2 e = Some x2 -> al_get k (se_comps x2) = Some c -> c_added c <= r ->
    exists x1 c1, get_ent s1 e = Some x1 /\ al_get k (se_comps x1) = Some c1 /\ c_added c1 = c_added c.

Definition keepso (r : N) (s1 s2 : server) : Prop := keeps r s1 s2 /\ keeps_added r s1 s2.

Section HistO.
  Variables (cfg0 : cfg) (nclients : N).

  Record srv_histo (script : list step) (s : server) : Prop := mkSrvHistO {
    ho_wf : ents_wf s;
    ho_ents : ents_oko s;
    ho_now : sv_last_run s < sv_now s;
    ho_tick : sv_tick s <= tick_frames script;
    ho_r : forall t r s1, snap cfg0 nclients script t r s1 -> r <= sv_last_run s /\ t < 2 ^ 31 /\ ents_wf s1;
    ho_rinj : forall t1 r1 s1 t2 r2 s2, snap cfg0 nclients script t1 r1 s1 -> snap cfg0 nclients script t2 r2 s2 ->
              r1 = r2 -> t1 = t2 /\ s1 = s2;
    ho_keep : forall t1 r1 s1, snap cfg0 nclients script t1 r1 s1 -> keepso r1 s1 s;
    ho_keep2 : forall t1 r1 s1 t2 r2 s2, snap cfg0 nclients script t1 r1 s1 -> snap cfg0 nclients script t2 r2 s2 ->
               r1 <= r2 -> keepso r1 s1 s2;
    ho_run : (exists t r s1, esnap cfg0 nclients script t r s1) -> sv_running s = true;
    ho_bound : forall t r s1, esnap cfg0 nclients script t r s1 ->
               t <= sv_tick s /\ (sv_dirty s = true -> t < sv_tick s);
    ho_inj : forall t1 r1 s1 t2 r2 s2, esnap cfg0 nclients script t1 r1 s1 -> esnap cfg0 nclients script t2 r2 s2 ->
             r1 < r2 -> t1 < t2;
    ho_t0 : t0_invv cfg0 nclients script s
  }.
End HistO.

(* a component that existed at the last run was added at or before the stamp the client has acknowledged for its
   entity *)
Definition once_known (s : server) (cl : sclient) : Prop :=
  forall e a x k c, mutation_tick (sc_ticks cl) e = Some a -> get_ent s e = Some x -> al_get k (se_comps x) = Some c ->
    c_added c <= sv_last_run s -> c_added c <= a.

(* ================================================================== *)
(* 3. the client side                                                 *)
(* ================================================================== *)

(* what an incremental entry leaves out *)
Definition entry_sinceo (s1 : server) (e : N) (vals : list (N * val)) (a : N) : Prop :=
  forall x1 k c, get_ent s1 e = Some x1 -> al_get k (se_comps x1) = Some c ->
    In k (map fst vals) \/ (if k =? 2 then c_added c <= a else c_changed c <= a).

Section InvO.
  Variable slot : N.
  Variable SN : N -> N -> server -> Prop.

  (* the client value stands for the value that the instance [c0] of component 2 of [e] had in a snapshot of the
     session not newer than stamp [r], in which [e] was visible to the slot *)
  Definition onceo (c : client) (e r : N) (c0 : comp) (cv : cval) : Prop :=
    exists t0 r0 s0 x0 c00, SN t0 r0 s0 /\ r0 <= r /\ vrepl slot s0 e = Some x0 /\
      al_get 2 (se_comps x0) = Some c00 /\ c_added c00 = c_added c0 /\ vrel c (c_val c00) cv.

  (* the client components of the replica of [e] and the server components of [e] in the snapshot with stamp [r] *)
  Definition agreeo (c : client) (e r : N) (cc : list (N * cval)) (sc : list (N * comp)) : Prop :=
    forall k cv c0, al_get k cc = Some cv -> al_get k sc = Some c0 ->
      if k =? 2 then onceo c e r c0 cv else vrel c (c_val c0) cv.

  Definition ent_promiseo (c : client) (pend : list update_msg) (g : N) (s1 : server) (e : N)
             (vals : list (N * val)) : Prop :=
    entry_valsr s1 e vals /\
    (entry_full s1 e vals \/ exists a, entry_sinceo s1 e vals a /\ conf_sincer SN c pend g e a).

  Definition upd_oko (c : client) (pend : list update_msg) (u : update_msg) : Prop :=
    upd_shaper u /\
    exists r s1, SN (u_tick u) r s1 /\
      forall e, mentions u e -> ent_promiseo c pend (u_tick u) s1 e (al_dflt e (u_changes u)).

  Definition mut_oko (c : client) (pend : list update_msg) (m : mutate_msg) : Prop :=
    m_upd_tick m <= m_tick m /\
    (forall u, In u pend -> u_tick u <= m_upd_tick m \/ m_tick m < u_tick u) /\
    exists r s1, SN (m_tick m) r s1 /\
      forall e vals, In (e, vals) (m_body m) ->
        entry_valsr s1 e vals /\
        exists a, entry_sinceo s1 e vals a /\ conf_sincer SN c pend (m_upd_tick m + 1) e a /\ kstablev slot SN r s1 e a.

  Record cli_invo (c : client) (pend : list update_msg) (muts : list mutate_msg) : Prop := mkCliInvO {
    co_cs : cs_inv c;
    co_pu : ClientStruct_proofs.pu c;
    co_mo : mapped_okr c;
    (* T: a replica has the component kinds of the entity in the snapshot of its confirmed tick (visible to the slot);
       for kinds other than 2 it stands for the values of that snapshot, for kind 2 see [onceo] *)
    co_T : forall e x h, has c e x h ->
           exists r s1 x1, SN (h_last h) r s1 /\ vrepl slot s1 e = Some x1 /\ agreeo c e r (ce_comps x) (se_comps x1) /\
                           kinds_equiv (map fst (ce_comps x)) (map fst (se_comps x1));
    co_ut : cl_upd_tick c = 0 \/ exists r s1, SN (cl_upd_tick c) r s1;
    co_lt : forall u, In u pend -> cl_upd_tick c < u_tick u;
    co_incr : ticks_incr pend;
    co_hl : forall e x h, has c e x h -> forall u, In u pend -> h_last h < u_tick u;
    co_pend : forall u, In u pend -> upd_oko c pend u;
    co_muts : forall m, In m muts -> mut_oko c pend m;
    co_struct : forall p u q, pend = p ++ u :: q ->
                exists r s1, SN (u_tick u) r s1 /\
                  struct_equiv (fold_left abs_apply (p ++ [u]) (client_struct c)) (vstruct slot s1);
    co_nd : forall u, In u pend -> desp_fresh slot SN u
  }.
End InvO.

(* ================================================================== *)
(* 4. convergence: the kinds replicated every tick                    *)
(* ================================================================== *)

(* "the server has nothing pending for the client", with `Once`: a component of kind 2 may have been changed after the
   stamp the client has acknowledged - it is not sent (Ack_proofs.ent_settled asks [c_changed comp <= t] of every kind) *)
Definition ent_settled_o (last_run : N) (ticks : client_ticks) (e : N) (x : sent) (madd : N) : Prop :=
  exists t, mutation_tick ticks e = Some t /\ (last_run <? madd) = false /\
            forall k comp, In (k, comp) (se_comps x) -> (kind_et k = true -> c_changed comp <= t) /\ c_added comp <= last_run.

Definition quiescent_for_o (s : server) (cl : sclient) : Prop :=
  sc_pending_map cl = [] /\ sv_despawn_buf s = [] /\ sv_removal_buf s = [] /\
  Ack_proofs.vis_settled (sc_vis cl) /\
  forall e x madd, In (e, x, madd) (replicated_ents s) ->
    vis_state_of (sc_vis cl) e = VHidden \/
    (vis_state_of (sc_vis cl) e = VVisible /\ ent_settled_o (sv_last_run s) (sc_ticks cl) e x madd).

(* [view_agrees] (Repl/ValRefSpec.v) is promised for the every-tick kinds only *)
Definition view_agrees_et (c : client) (slot : N) (s : server) (e : N) : Prop :=
  forall k, kind_et k = true -> view_agrees c slot s e k.
