(* Sessions (property C09) proved about the Layer 1 model: what `reset` (client and server),
   `disconnect_client`, `connect_client` and the Sys steps StDisconnect / StStop leave behind,
   and which steps can fail at all. *)
From RV Require Import Lib.Res Repl.ClientTicks Repl.ClientTicks_proofs Wire.AckCodec Wire.AckCodec_proofs.
From RV Require Import Repl.World Repl.Server Repl.Client Repl.Sys Vis.Visibility
  Tick.RepliconTick Tick.ConfirmHistory Tick.MutateTicks Repl.Ack_proofs.
From Coq Require Import ZifyBool ZifyN.
Open Scope N_scope.
Ltac Zify.zify_post_hook ::= Z.div_mod_to_equations.
Arguments N.add : simpl never. Arguments N.mul : simpl never. Arguments N.pow : simpl never.
Arguments N.ltb : simpl never. Arguments N.leb : simpl never. Arguments N.div : simpl never.
Arguments N.modulo : simpl never. Arguments N.sub : simpl never. Arguments N.eqb : simpl never.

(* ---------- 8. the client side reset ---------- *)

Lemma map_const_repeat {A B} (d : B) (l : list A) : map (fun _ => d) l = repeat d (length l).
Proof. induction l as [|a t IH]; cbn; [reflexivity|rewrite IH; reflexivity]. Qed.

Lemma mt_clear_default m : length (mt_ticks m) = 64%nat -> mt_clear m = mt_default.
Proof. intros H. unfold mt_clear, mt_default. rewrite map_const_repeat, H. reflexivity. Qed.

(* the replication state of a client app: everything except its world (cl_ents, cl_next) *)
Definition repl_state (c : client) :=
  (cl_status c, cl_last_connected c, cl_last_not_disconnected c, cl_upd_tick c, cl_s2c c, cl_c2s c,
   cl_buffered c, cl_mticks c, cl_inbox_upd c, cl_inbox_mut c).

(* `ServerMutateTicks` exists exactly when tracking is on and always holds 64 entries *)
Definition mticks_ok (track : bool) (m : option mt) : Prop :=
  match m with Some m => track = true /\ length (mt_ticks m) = 64%nat | None => track = false end.

Lemma client_reset_fields c :
  cl_upd_tick (client_reset c) = 0 /\ cl_s2c (client_reset c) = [] /\ cl_c2s (client_reset c) = [] /\
  cl_buffered (client_reset c) = [] /\ cl_mticks (client_reset c) = option_map mt_clear (cl_mticks c) /\
  cl_ents (client_reset c) = cl_ents c /\ cl_next (client_reset c) = cl_next c /\
  cl_status (client_reset c) = cl_status c /\ cl_last_connected (client_reset c) = cl_last_connected c /\
  cl_last_not_disconnected (client_reset c) = cl_last_not_disconnected c /\
  cl_inbox_upd (client_reset c) = cl_inbox_upd c /\ cl_inbox_mut (client_reset c) = cl_inbox_mut c.
Proof. unfold client_reset; cbn. destruct (cl_mticks c); repeat split. Qed.

Lemma client_reset_mticks track c : mticks_ok track (cl_mticks c) ->
  cl_mticks (client_reset c) = cl_mticks (client_init track).
Proof.
  unfold client_reset, client_init; cbn [cl_mticks]. destruct (cl_mticks c) as [m|]; cbn [mticks_ok].
  - intros [-> H]. rewrite mt_clear_default by exact H. reflexivity.
  - intros ->. reflexivity.
Qed.

Lemma set_status_disconnected_fields c :
  cl_status (set_status c Disconnected) = Disconnected /\
  (cl_status c = Connected -> cl_inbox_upd (set_status c Disconnected) = [] /\ cl_inbox_mut (set_status c Disconnected) = []) /\
  cl_last_not_disconnected (set_status c Disconnected) = cl_last_not_disconnected c /\
  cl_last_connected (set_status c Disconnected) = cl_last_connected c.
Proof. unfold set_status; cbn. split; [reflexivity|]. split; [intros ->; split; reflexivity|]. split; reflexivity. Qed.

Lemma apply_cop_repl_state c op : repl_state (apply_cop c op) = repl_state c.
Proof.
  destruct op as [pc|pc]; cbn [apply_cop].
  - destruct (existsb _ _); reflexivity.
  - destruct (find _ _) as [[cid x]|]; [|reflexivity]. destruct (ce_alive x); reflexivity.
Qed.

Lemma fold_apply_cop_repl_state ops c : repl_state (fold_left apply_cop ops c) = repl_state c.
Proof.
  revert c; induction ops as [|op r IH]; intros c; [reflexivity|]. cbn [fold_left]. rewrite IH. apply apply_cop_repl_state.
Qed.

Lemma set_locals_repl_state c c' : repl_state c = repl_state c' -> repl_state (set_locals c) = repl_state (set_locals c').
Proof.
  unfold repl_state, set_locals.
  cbn [cl_status cl_last_connected cl_last_not_disconnected cl_upd_tick cl_s2c cl_c2s cl_buffered cl_mticks cl_inbox_upd cl_inbox_mut].
  intros H; inversion H. congruence.
Qed.

(* the first client frame after a disconnect (the client had run at least one frame while
   connected): nothing is applied or acknowledged, and what is left is the replication state of a
   client that never connected *)
Theorem client_reset_clean track cl ops :
  cl_status cl = Connected -> cl_last_not_disconnected cl = true -> mticks_ok track (cl_mticks cl) ->
  exists cl', client_frame (set_status cl Disconnected) ops = Ok (cl', mkCFO [] []) /\
              repl_state cl' = repl_state (client_init track).
Proof.
  intros Hst Hl Hm. destruct cl as [st lc lnd ut s2c c2s ents next buf mtk iu im].
  cbn [cl_status cl_last_not_disconnected cl_mticks] in *. subst st lnd.
  unfold client_frame, set_status.
  cbn [cl_status cl_last_not_disconnected cl_last_connected cl_upd_tick cl_s2c cl_c2s cl_ents cl_next cl_buffered
       cl_mticks cl_inbox_upd cl_inbox_mut negb andb bind].
  eexists; split; [reflexivity|].
  match goal with |- repl_state (set_locals (fold_left apply_cop ops ?C)) = _ =>
    rewrite (set_locals_repl_state _ C (fold_apply_cop_repl_state ops C)) end.
  unfold repl_state, set_locals, client_reset, client_init.
  cbn [cl_status cl_last_connected cl_last_not_disconnected cl_upd_tick cl_s2c cl_c2s cl_buffered cl_mticks cl_inbox_upd cl_inbox_mut].
  destruct mtk as [m|]; cbn [mticks_ok] in Hm.
  - destruct Hm as [-> Hlen]. rewrite mt_clear_default by exact Hlen. reflexivity.
  - subst track. reflexivity.
Qed.

(* ---------- 9. the server forgets a disconnected client ---------- *)

Lemma find_filter_none {A} (f g : A -> bool) l : (forall x, f x = true -> g x = false) -> find f (filter g l) = None.
Proof.
  intros H. induction l as [|a t IH]; cbn [filter find]; [reflexivity|].
  destruct (g a) eqn:Eg; [|exact IH]. cbn [find]. destruct (f a) eqn:Ef; [|exact IH]. rewrite (H a Ef) in Eg. discriminate.
Qed.

Lemma find_filter_keep {A} (f g : A -> bool) l : (forall x, f x = true -> g x = true) -> find f (filter g l) = find f l.
Proof.
  intros H. induction l as [|a t IH]; cbn [filter find]; [reflexivity|].
  destruct (f a) eqn:Ef.
  - rewrite (H a Ef). cbn [find]. rewrite Ef. reflexivity.
  - destruct (g a); [cbn [find]; rewrite Ef|]; exact IH.
Qed.

Theorem disconnect_forgets_client s slot :
  find_client (disconnect_client s slot) slot = None /\
  (forall m, In m (sv_inbox_acks (disconnect_client s slot)) <-> In m (sv_inbox_acks s) /\ fst m <> slot) /\
  (forall slot', slot' <> slot -> find_client (disconnect_client s slot) slot' = find_client s slot') /\
  (forall cl, In cl (sv_clients (disconnect_client s slot)) <-> In cl (sv_clients s) /\ sc_slot cl <> slot) /\
  sv_ents (disconnect_client s slot) = sv_ents s /\ sv_tick (disconnect_client s slot) = sv_tick s /\
  sv_despawn_buf (disconnect_client s slot) = sv_despawn_buf s /\ sv_removal_buf (disconnect_client s slot) = sv_removal_buf s /\
  sv_running (disconnect_client s slot) = sv_running s.
Proof.
  unfold find_client, disconnect_client; cbn [sv_clients sv_inbox_acks sv_ents sv_tick sv_despawn_buf sv_removal_buf sv_running].
  split; [|split; [|split; [|split]]].
  - apply find_filter_none. intros x ->. reflexivity.
  - intros m. rewrite filter_In. split; intros [H1 H2]; (split; [exact H1|]); lia.
  - intros slot' Hne. apply find_filter_keep. intros x Hx. lia.
  - intros cl. rewrite filter_In. split; intros [H1 H2]; (split; [exact H1|]); lia.
  - repeat split.
Qed.

Lemma al_insert_same_id {V} k (v : V) l : al_get k l = Some v -> al_insert k v l = l.
Proof.
  induction l as [|[k1 v1] t IH]; cbn [al_get al_insert]; [discriminate|]. destruct (k1 =? k) eqn:E.
  - intros H; inversion H; subst. f_equal. f_equal. lia.
  - intros H. rewrite IH by exact H. reflexivity.
Qed.

Lemma get_link_set_link y slot l slot' :
  get_link (set_link y slot l) slot' = if slot' =? slot then l else get_link y slot'.
Proof.
  unfold get_link, set_link; cbn [y_links]. destruct (slot' =? slot) eqn:E.
  - assert (slot' = slot) by lia; subst. rewrite al_get_insert_same. reflexivity.
  - rewrite al_get_insert_other by lia. reflexivity.
Qed.

(* StDisconnect: the server record, the queued acknowledgements and all three queues of the link
   are gone; the other slots are untouched *)
Theorem disconnect_step y slot cl :
  al_get slot (y_clients y) = Some cl ->
  exists y', sys_step y (StDisconnect slot) = Ok (y', ONone) /\
    y_server y' = disconnect_client (y_server y) slot /\
    get_link y' slot = link_empty /\
    al_get slot (y_clients y') = Some (set_status cl Disconnected) /\
    (forall slot', slot' <> slot -> get_link y' slot' = get_link y slot' /\
                                    al_get slot' (y_clients y') = al_get slot' (y_clients y)).
Proof.
  intros Hc. cbn [sys_step]. rewrite Hc. eexists; split; [reflexivity|]. unfold clear_link.
  split; [reflexivity|]. split; [rewrite get_link_set_link, N.eqb_refl; reflexivity|].
  split; [cbn; apply al_get_insert_same|].
  intros slot' Hne. split.
  - rewrite get_link_set_link. replace (slot' =? slot) with false by lia. reflexivity.
  - cbn. apply al_get_insert_other. exact Hne.
Qed.

Lemma take_nil {A} w : take w (@nil A) = ([], []).
Proof. destruct w; reflexivity. Qed.

(* nothing can be delivered (or dropped) from an empty link *)
Theorem deliver_empty_noop y slot s2c ch w (deliver : bool) :
  get_link y slot = link_empty ->
  exists y', sys_step y (if deliver then StDeliver slot s2c ch w else StDrop slot s2c ch w) = Ok (y', ONone) /\
    y_server y' = y_server y /\ y_clients y' = y_clients y /\ forall sl, get_link y' sl = get_link y sl.
Proof.
  intros Hl.
  assert (Hsame : forall sl, get_link (set_link y slot link_empty) sl = get_link y sl).
  { intros sl. rewrite get_link_set_link. destruct (sl =? slot) eqn:E; [|reflexivity]. assert (sl = slot) by lia. subst. auto. }
  assert (Hgoal : forall y1, y_server y1 = y_server y -> y_clients y1 = y_clients y -> (forall sl, get_link y1 sl = get_link y sl) ->
            exists y', Ok (y1, ONone) = Ok (y', ONone) /\ y_server y' = y_server y /\ y_clients y' = y_clients y /\
                       forall sl, get_link y' sl = get_link y sl).
  { intros y1 H1 H2 H3. exists y1. auto. }
  destruct deliver; cbn [sys_step]; rewrite Hl; unfold link_empty; cbn [l_upd l_mut l_ack];
    (destruct (al_get slot (y_clients y)) as [cl|] eqn:Ec; [|apply Hgoal; reflexivity]);
    (destruct s2c; [destruct (ch =? 0); [|destruct (ch =? 1)]|destruct (ch =? 0)]);
    rewrite ?take_nil; cbn [fold_left]; apply Hgoal;
    cbn [set_client set_server set_link y_server y_clients]; try reflexivity;
    try (apply al_insert_same_id; exact Ec); try exact Hsame.
Qed.

(* ---------- 10. connecting again is a first connection ---------- *)

Definition fresh_client (c : cfg) (slot max : N) : sclient :=
  match cfg_auth c with
  | AuthNone => authorized_client c slot max
  | _ => mkSC slot false max ct_default None []
  end.

Lemma find_app_none {A} (f : A -> bool) l x : find f l = None -> find f (l ++ [x]) = if f x then Some x else None.
Proof.
  induction l as [|a t IH]; cbn [find app]; [intros _; reflexivity|]. destruct (f a); [discriminate|exact IH].
Qed.

Lemma connect_first c s slot max : sv_running s = true -> find_client s slot = None ->
  find_client (connect_client c s slot max) slot = Some (fresh_client c slot max) /\
  (forall cl, In cl (sv_clients (connect_client c s slot max)) <-> In cl (sv_clients s) \/ cl = fresh_client c slot max).
Proof.
  intros Hr Hn. unfold connect_client. rewrite Hr, Hn. unfold find_client in *. cbn [set_clients sv_clients]. split.
  - rewrite find_app_none by exact Hn. unfold fresh_client. destruct (cfg_auth c); cbn [sc_slot authorized_client]; rewrite N.eqb_refl; reflexivity.
  - intros cl. rewrite in_app_iff. cbn [In]. unfold fresh_client. intuition.
Qed.

Theorem reconnect_is_first_connection c s slot max :
  sv_running s = true ->
  find_client (connect_client c (disconnect_client s slot) slot max) slot = Some (fresh_client c slot max) /\
  sc_ticks (fresh_client c slot max) = ct_default /\ sc_pending_map (fresh_client c slot max) = [] /\
  sc_vis (fresh_client c slot max) = (match cfg_auth c with AuthNone => new_vis c | _ => None end) /\
  (forall s0, sv_running s0 = true -> find_client s0 slot = None ->
              find_client (connect_client c s0 slot max) slot = Some (fresh_client c slot max)).
Proof.
  intros Hr. split; [|split; [|split; [|split]]].
  - apply connect_first; [exact Hr|apply disconnect_forgets_client].
  - unfold fresh_client. destruct (cfg_auth c); reflexivity.
  - unfold fresh_client. destruct (cfg_auth c); reflexivity.
  - unfold fresh_client. destruct (cfg_auth c); reflexivity.
  - intros s0 H1 H2. apply connect_first; assumption.
Qed.

(* authorization of the (re)connected client hands out the same fresh record *)
Lemma authorize_fresh c s slot cl : find_client s slot = Some cl -> sc_authorized cl = false ->
  authorize_client c s slot = update_client s (authorized_client c slot (sc_max_size cl)).
Proof. intros H1 H2. unfold authorize_client. rewrite H1, H2. reflexivity. Qed.

(* ---------- 11. the server side reset ---------- *)

Theorem server_reset_clean s :
  sv_tick (reset s) = 0 /\ sv_clients (reset s) = [] /\ sv_despawn_buf (reset s) = [] /\
  sv_removal_buf (reset s) = [] /\ sv_inbox_acks (reset s) = [] /\ sv_dirty (reset s) = true /\
  sv_ents (reset s) = sv_ents s /\ sv_running (reset s) = sv_running s.
Proof. repeat split. Qed.

Lemma get_link_map_empty (links : list (N * link)) slot :
  match al_get slot (map (fun kv => (fst kv, link_empty)) links) with Some l => l | None => link_empty end = link_empty.
Proof.
  induction links as [|[k l] t IH]; cbn [map al_get fst]; [reflexivity|]. destruct (k =? slot); [reflexivity|exact IH].
Qed.

(* StStop: the server stops listening and every queue of every link is emptied *)
Theorem stop_step y :
  exists y', sys_step y StStop = Ok (y', ONone) /\
    y_server y' = set_running (y_server y) false /\ sv_inbox_acks (y_server y') = [] /\
    y_clients y' = y_clients y /\ forall slot, get_link y' slot = link_empty.
Proof.
  cbn [sys_step]. eexists; split; [reflexivity|]. cbn [y_server y_clients set_server]. repeat split.
  intros slot. unfold get_link. cbn [y_links set_server]. apply get_link_map_empty.
Qed.

Ltac destruct_matches :=
  repeat match goal with
         | |- context [match ?X with _ => _ end] => destruct X eqn:?
         end.

Lemma buffer_despawn_running s e : sv_running (buffer_despawn s e) = sv_running s /\ sv_last_running (buffer_despawn s e) = sv_last_running s.
Proof. unfold buffer_despawn. destruct (sv_running s) eqn:E; cbn; auto. Qed.

Lemma apply_sop_running s op : sv_running (apply_sop s op) = sv_running s /\ sv_last_running (apply_sop s op) = sv_last_running s.
Proof.
  destruct op; cbn [apply_sop]; destruct_matches; try (split; reflexivity);
    try (rewrite (proj1 (buffer_despawn_running _ _)), (proj2 (buffer_despawn_running _ _)); split; reflexivity).
Qed.

Lemma fold_apply_sop_running ops s :
  sv_running (fold_left apply_sop ops s) = sv_running s /\ sv_last_running (fold_left apply_sop ops s) = sv_last_running s.
Proof.
  revert s; induction ops as [|op r IH]; intros s; [split; reflexivity|]. cbn [fold_left].
  destruct (IH (apply_sop s op)) as [-> ->]. apply apply_sop_running.
Qed.

(* the first frame of a stopped server runs `reset` ... *)
Theorem stopped_frame_resets c s tick dt cleanup ops parts :
  sv_running s = false -> sv_last_running s = true ->
  exists s' fo, server_frame c s tick dt cleanup ops parts = Ok (s', fo) /\
    sv_tick s' = 0 /\ sv_clients s' = [] /\ sv_despawn_buf s' = [] /\ sv_removal_buf s' = [] /\
    sv_inbox_acks s' = [] /\ sv_dirty s' = false /\ sv_running s' = false /\ sv_last_running s' = false /\
    fo_clients fo = [] /\ fo_ran fo = false.
Proof.
  intros Hr Hl. unfold server_frame. cbn [sv_running with_time_tick]. rewrite Hr.
  set (s3 := fold_left apply_sop ops (with_time_tick s tick dt)).
  destruct (fold_apply_sop_running ops (with_time_tick s tick dt)) as [H1 H2]. fold s3 in H1, H2.
  cbn [sv_running sv_last_running with_time_tick] in H1, H2. rewrite H1, H2, Hr, Hl. cbn [bind].
  eexists; eexists; split; [reflexivity|]. cbn. rewrite H1, Hr. repeat split.
Qed.

(* ... and the following frames of the stopped server do not *)
Theorem stopped_frame_no_second_reset c s tick dt cleanup ops parts :
  sv_running s = false -> sv_last_running s = false ->
  server_frame c s tick dt cleanup ops parts =
  let s3 := fold_left apply_sop ops (with_time_tick s tick dt) in
  Ok (set_last_running (clear_dirty (age_events s3)), mkFO (sv_tick s3) false []).
Proof.
  intros Hr Hl. unfold server_frame. cbn [sv_running with_time_tick]. rewrite Hr.
  destruct (fold_apply_sop_running ops (with_time_tick s tick dt)) as [H1 H2].
  cbn [sv_running sv_last_running with_time_tick] in H1, H2. rewrite H1, H2, Hr, Hl. reflexivity.
Qed.

(* ---------- 12. which steps can fail ---------- *)

(* every step except a client frame always succeeds *)
Theorem server_steps_total y st : (forall slot ops, st <> StCFrame slot ops) -> exists y' o, sys_step y st = Ok (y', o).
Proof.
  intros Hnc. destruct st as [| |slot max|slot|slot|tick dt cleanup ops parts|slot ops|slot s2c ch w|slot s2c ch w]; cbn [sys_step].
  - eexists; eexists; reflexivity.
  - eexists; eexists; reflexivity.
  - destruct (find_client _ _); destruct (al_get slot (y_clients y)); try (eexists; eexists; reflexivity).
    destruct (sv_running _); eexists; eexists; reflexivity.
  - eexists; eexists; reflexivity.
  - destruct (al_get _ _); eexists; eexists; reflexivity.
  - destruct (server_frame_total (y_cfg y) (y_server y) tick dt cleanup ops parts) as [[s' fo] ->]. cbn [bind].
    eexists; eexists; reflexivity.
  - exfalso. apply (Hnc slot ops). reflexivity.
  - destruct (al_get _ _); [|eexists; eexists; reflexivity].
    destruct s2c; [destruct (ch =? 0); [|destruct (ch =? 1)]|destruct (ch =? 0)];
      try destruct (take _ _); eexists; eexists; reflexivity.
  - destruct (al_get _ _); [|eexists; eexists; reflexivity].
    destruct s2c; [destruct (ch =? 0); [|destruct (ch =? 1)]|destruct (ch =? 0)];
      try destruct (take _ _); eexists; eexists; reflexivity.
Qed.

(* ---------- 12 (client part). a client frame never returns `Err` ---------- *)

(* the model has no `Err` on the client side: every failure of a client frame is a `Panic`, and
   the only `Panic` branches below `client_frame` are the debug assertion of
   `ConfirmHistory::set_last_tick` (reached from confirm_tick and apply_mutations) and the
   assertions / index checks of `ServerMutateTicks::confirm` (reached from apply_mutate_messages) *)
Definition noerr {A} (r : res A) : Prop := r <> Err.

Lemma noerr_Ok {A} (a : A) : noerr (Ok a). Proof. discriminate. Qed.
Lemma noerr_Panic {A} : noerr (@Panic A). Proof. discriminate. Qed.
Lemma noerr_bind {A B} (r : res A) (f : A -> res B) : noerr r -> (forall a, noerr (f a)) -> noerr (bind r f).
Proof. destruct r; cbn [bind]; intros H1 H2; [apply H2|exfalso; apply H1; reflexivity|apply noerr_Panic]. Qed.
Lemma noerr_fold {A B} (F : res A -> B -> res A) l : (forall acc x, noerr acc -> noerr (F acc x)) ->
  forall init, noerr init -> noerr (fold_left F l init).
Proof. intros H. induction l as [|x t IH]; intros init Hi; [exact Hi|]. cbn [fold_left]. apply IH, H, Hi. Qed.

Ltac noerr_tac :=
  repeat first
    [ apply noerr_Ok | apply noerr_Panic | assumption
    | apply noerr_bind; [|intros]
    | match goal with |- noerr (match ?X with _ => _ end) => destruct X end ].

Lemma hist_set_last_tick_noerr h t : noerr (hist_set_last_tick h t).
Proof. unfold hist_set_last_tick. noerr_tac. Qed.

Lemma confirm_tick_noerr x t : noerr (confirm_tick x t).
Proof. unfold confirm_tick. destruct (ce_hist x); [apply noerr_bind; [apply hist_set_last_tick_noerr|intros; apply noerr_Ok]|apply noerr_Ok]. Qed.

Lemma apply_removals_noerr c t e ks : noerr (apply_removals c t e ks).
Proof.
  unfold apply_removals. destruct (entry_entity c e) as [[c1 cid]|]; [|apply noerr_Ok].
  destruct (get_cent c1 cid); [|apply noerr_Ok]. apply noerr_bind; [apply confirm_tick_noerr|intros; apply noerr_Ok].
Qed.

Lemma apply_changes_noerr c t e comps : noerr (apply_changes c t e comps).
Proof.
  unfold apply_changes. destruct (entry_entity c e) as [[c1 cid]|]; [|apply noerr_Ok].
  destruct (get_cent c1 cid); [|apply noerr_Ok]. apply noerr_bind; [apply confirm_tick_noerr|intros; apply noerr_Ok].
Qed.

Lemma run_array_noerr {A} (f : client -> A -> res step_result) items c :
  (forall c x, noerr (f c x)) -> noerr (run_array f items c).
Proof.
  intros H. unfold run_array. apply noerr_fold; [|apply noerr_Ok].
  intros acc x Ha. apply noerr_bind; [exact Ha|]. intros [c1|c1]; [apply H|apply noerr_Ok].
Qed.

Lemma apply_update_message_noerr c u : noerr (apply_update_message c u).
Proof.
  unfold apply_update_message. apply noerr_bind; [apply run_array_noerr; intros; apply apply_removals_noerr|].
  intros [c3|c3]; [|apply noerr_Ok]. apply noerr_bind; [apply run_array_noerr; intros; apply apply_changes_noerr|].
  intros [c4|c4]; apply noerr_Ok.
Qed.

Lemma apply_mutations_noerr c t e comps : noerr (apply_mutations c t e comps).
Proof.
  unfold apply_mutations. destruct (al_get e (cl_s2c c)) as [cid|]; [|apply noerr_Ok].
  destruct (get_cent c cid) as [x|]; [|apply noerr_Ok]. destruct (negb (ce_alive x)); [apply noerr_Ok|].
  destruct (ce_hist x) as [h|]; [|apply noerr_Ok]. destruct (tick_gtb t (h_last h)); [|apply noerr_Ok].
  apply noerr_bind; [apply hist_set_last_tick_noerr|intros; apply noerr_Ok].
Qed.

Lemma tm_confirm_noerr m n : noerr (tm_confirm m n).
Proof. unfold tm_confirm. noerr_tac. Qed.

Lemma mt_confirm_at_noerr l i n : noerr (mt_confirm_at l i n).
Proof.
  unfold mt_confirm_at. destruct (nth_error l i); [|apply noerr_Panic].
  apply noerr_bind; [apply tm_confirm_noerr|]. intros [e' b]. apply noerr_Ok.
Qed.

Lemma mt_confirm_noerr m t n : noerr (mt_confirm m t n).
Proof.
  unfold mt_confirm. destruct (negb _); [apply noerr_Panic|]. destruct (tick_gtb t (mt_last m)).
  - apply noerr_bind; [apply mt_confirm_at_noerr|]. intros [l b]. apply noerr_Ok.
  - destruct (_ <? _); [|apply noerr_Ok]. apply noerr_bind; [apply mt_confirm_at_noerr|]. intros [l b]. apply noerr_Ok.
Qed.

Lemma apply_mutate_messages_noerr c : noerr (apply_mutate_messages c).
Proof.
  unfold apply_mutate_messages. apply noerr_bind.
  - apply noerr_fold; [|apply noerr_Ok]. intros acc m Ha. apply noerr_bind; [exact Ha|].
    intros [[[c1 kept] acks] evs]. destruct (tick_gtb (m_upd_tick m) (cl_upd_tick c)); [apply noerr_Ok|].
    apply noerr_bind; [apply run_array_noerr; intros; apply apply_mutations_noerr|]. intros r.
    destruct (cl_mticks _); [|apply noerr_Ok]. apply noerr_bind; [apply mt_confirm_noerr|]. intros [mtk' done]. apply noerr_Ok.
  - intros [[[c1 kept] acks] evs]. apply noerr_Ok.
Qed.

Lemma apply_replication_noerr c : noerr (apply_replication c).
Proof.
  unfold apply_replication. apply noerr_bind; [|intros; apply apply_mutate_messages_noerr].
  apply noerr_fold; [|apply noerr_Ok]. intros acc u Ha. apply noerr_bind; [exact Ha|intros; apply apply_update_message_noerr].
Qed.

Theorem client_frame_noerr cl ops : client_frame cl ops <> Err.
Proof.
  unfold client_frame. apply noerr_bind.
  - destruct (match cl_status cl with Connected => true | Disconnected => false end); [apply apply_replication_noerr|apply noerr_Ok].
  - intros [c2 out]. apply noerr_Ok.
Qed.

(* a disconnected client's frame cannot fail at all *)
Theorem client_frame_disconnected_total cl ops : cl_status cl = Disconnected -> exists r, client_frame cl ops = Ok r.
Proof. intros H. unfold client_frame. rewrite H. cbn [bind]. eexists; reflexivity. Qed.

(* no step of the system returns `Err` *)
Theorem sys_step_noerr y st : sys_step y st <> Err.
Proof.
  destruct st as [| |slot max|slot|slot|tick dt cleanup ops parts|slot ops|slot s2c ch w|slot s2c ch w];
    match goal with
    | |- sys_step y (StCFrame _ _) <> Err => idtac
    | |- sys_step y ?S <> Err => destruct (server_steps_total y S) as (y' & o & ->); [intros; discriminate|discriminate]
    end.
  cbn [sys_step]. destruct (al_get slot (y_clients y)) as [cl|]; [|discriminate].
  pose proof (client_frame_noerr cl ops) as H. destruct (client_frame cl ops) as [[cl' cfo]| |]; cbn [bind]; try discriminate.
  congruence.
Qed.

(* ---------- 8 at the level of the system: StDisconnect, then one frame of that client ---------- *)

Lemma find_client_publish_pre s slot pcs slot' : find_client (publish_pre s slot pcs) slot' = find_client s slot'.
Proof. reflexivity. Qed.

Theorem disconnect_then_client_frame track y slot cl ops :
  al_get slot (y_clients y) = Some cl ->
  cl_status cl = Connected -> cl_last_not_disconnected cl = true -> mticks_ok track (cl_mticks cl) ->
  exists y2 cl', run y [StDisconnect slot; StCFrame slot ops] = Ok y2 /\
    al_get slot (y_clients y2) = Some cl' /\ repl_state cl' = repl_state (client_init track) /\
    get_link y2 slot = link_empty /\ find_client (y_server y2) slot = None /\
    (forall m, In m (sv_inbox_acks (y_server y2)) -> fst m <> slot).
Proof.
  intros Hc Hst Hl Hm. destruct (disconnect_step y slot cl Hc) as (y1 & E1 & Hs & Hlk & Hc1 & _).
  destruct (client_reset_clean track cl ops Hst Hl Hm) as (cl' & E2 & Hr).
  cbn [run]. rewrite E1. cbn [bind]. cbn [sys_step]. rewrite Hc1, E2. cbn [bind cfo_acks].
  eexists; exists cl'. split; [reflexivity|].
  split; [cbn; apply al_get_insert_same|]. split; [exact Hr|].
  split; [exact Hlk|]. cbn [y_server set_server set_client]. rewrite find_client_publish_pre, Hs.
  split; [apply disconnect_forgets_client|]. cbn [publish_pre sv_inbox_acks]. intros m Hin.
  apply (proj1 (proj2 (disconnect_forgets_client (y_server y) slot))) in Hin. tauto.
Qed.
