(* C02E, server side: what the update and mutate messages built for a client without a
   ClientVisibility (policy PAll) carry, in terms of the acknowledged stamp of each entity; the stamps
   and the in-flight table after `send_for_client`. *)
From RV Require Import Lib.Res Repl.ClientTicks Repl.ClientTicks_proofs Repl.World Vis.Visibility
  Tick.RepliconTick Tick.RepliconTick_proofs Tick.ConfirmHistory Tick.MutateTicks
  Repl.Server Repl.ServerSpec Repl.Server_proofs Repl.StructSpec Repl.Struct_proofs
  Repl.StructOps_proofs Repl.StructRun_proofs Repl.Client Repl.Sys Repl.ValSpec.
From Coq Require Import ZifyBool ZifyN.
Open Scope N_scope.
Ltac Zify.zify_post_hook ::= Z.div_mod_to_equations.
Arguments N.add : simpl never. Arguments N.mul : simpl never. Arguments N.pow : simpl never.
Arguments N.ltb : simpl never. Arguments N.leb : simpl never. Arguments N.div : simpl never.
Arguments N.modulo : simpl never. Arguments N.sub : simpl never. Arguments N.eqb : simpl never.

(* ================================================================== *)
(* 1. sorted association lists                                        *)
(* ================================================================== *)

Lemma vs_ksorted_nodup {V} (l : list (N * V)) : ksorted l -> NoDup (map fst l).
Proof.
  induction l as [|[k v] t IH]; cbn [ksorted map fst]; [constructor|]. intros [H1 H2]. constructor; [|exact (IH H2)].
  intros Hin. specialize (H1 k Hin). lia.
Qed.

Lemma vs_in_get {V} (l : list (N * V)) k v : NoDup (map fst l) -> (In (k, v) l <-> al_get k l = Some v).
Proof. intros Hnd. split; [apply In_al_get_nodup; exact Hnd|apply Server_proofs.al_get_In]. Qed.

Lemma vs_nodup_app {A} (a b : list A) : NoDup a -> NoDup b -> (forall x, In x a -> ~ In x b) -> NoDup (a ++ b).
Proof.
  induction a as [|x t IH]; intros Ha Hb Hd; cbn [app]; [exact Hb|]. inversion Ha as [|? ? Hx Ht]; subst. constructor.
  - intros Hin. apply in_app_or in Hin. destruct Hin as [Hin|Hin]; [exact (Hx Hin)|]. exact (Hd x (or_introl eq_refl) Hin).
  - apply IH; [exact Ht|exact Hb|]. intros y Hy. apply Hd. right. exact Hy.
Qed.

Lemma vs_keys_val_of (l : list (N * comp)) : map fst (map val_of l) = map fst l.
Proof. rewrite map_map. reflexivity. Qed.

Lemma vs_nodup_filter {V} (p : N * V -> bool) (l : list (N * V)) : NoDup (map fst l) -> NoDup (map fst (filter p l)).
Proof.
  induction l as [|a t IH]; cbn [filter map]; [auto|]. intros H. inversion H as [|? ? Hx Ht]; subst.
  destruct (p a); cbn [map]; [|exact (IH Ht)]. constructor; [|exact (IH Ht)].
  intros Hin. apply Hx. apply in_map_iff in Hin. destruct Hin as [y [Ey Hy]]. apply filter_In in Hy. rewrite <- Ey. apply in_map. exact (proj1 Hy).
Qed.

(* ================================================================== *)
(* 2. collect_entity for a visible entity of a client that knows it   *)
(* ================================================================== *)

Lemma kind01_cases k : kind01 k = true -> k = 0 \/ k = 1.
Proof. unfold kind01. lia. Qed.

Lemma sm_kind01 k tick : kind01 k = true -> sm k tick = true.
Proof. intros H. destruct (kind01_cases k H) as [-> | ->]; reflexivity. Qed.

(* what the entity contributes: its entry in the update message, or else its mutations *)
Definition ec_vals (ec : ent_changes) : list (N * val) :=
  match ec_entry ec with Some en => en | None => ec_muts ec end.

Section CepKnown.
  Variables (last_run tick : N) (rb : list (N * list N)) (a e : N) (x : sent) (madd : N).
  Hypothesis Hma : (last_run <? madd) = false.
  Hypothesis Hk : forall k c, In (k, c) (se_comps x) -> kind01 k = true.
  Hypothesis Hnd : NoDup (map fst (se_comps x)).

  Let ec := cep last_run tick rb (Some a) VVisible e x madd.
  Let ins := map val_of (filter (comp_is_ins last_run (last_run <? madd) VVisible (Some a)) (se_comps x)).
  Let muts := map val_of (filter (comp_is_mut last_run tick (last_run <? madd) VVisible (Some a)) (se_comps x)).

  Lemma cep_known_shape :
    (ec_vals ec = ins ++ muts /\ ec_bump ec = true /\ ec_muts ec = []) \/
    (ec_vals ec = muts /\ ec_entry ec = None /\ ec_bump ec = false /\ ec_muts ec = muts /\ ins = [] /\ al_get e rb = None).
  Proof.
    unfold ec_vals, ec, cep. cbn [is_hidden]. fold ins muts. rewrite Hma. cbn [orb is_gained].
    destruct ins as [|i0 it] eqn:Ei.
    - cbn [app]. destruct (al_get e rb) eqn:Er.
      + left. destruct muts; cbn; auto.
      + right. cbn. auto 6.
    - left. cbn. auto.
  Qed.

  (* every component is in what is sent, or not newer than the acknowledged stamp *)
  Lemma cep_known_cover k c : In (k, c) (se_comps x) -> In k (map fst (ec_vals ec)) \/ c_changed c <= a.
  Proof.
    intros Hin.
    assert (Hv : In k (map fst (ins ++ muts)) \/ In k (map fst muts) \/ c_changed c <= a).
    { destruct (comp_is_ins last_run (last_run <? madd) VVisible (Some a) (k, c)) eqn:Ei.
      - left. rewrite map_app. apply in_or_app. left. unfold ins. rewrite vs_keys_val_of. apply in_map_iff. exists (k, c).
        split; [reflexivity|]. apply filter_In. auto.
      - destruct (comp_is_mut last_run tick (last_run <? madd) VVisible (Some a) (k, c)) eqn:Em.
        + right. left. unfold muts. rewrite vs_keys_val_of. apply in_map_iff. exists (k, c). split; [reflexivity|]. apply filter_In. auto.
        + right. right. unfold comp_is_ins, comp_is_mut in Ei, Em. cbn [snd fst] in Ei, Em.
          destruct (incremental last_run (last_run <? madd) VVisible (Some a) c) as [t|] eqn:Einc; [|discriminate].
          unfold incremental in Einc. destruct (negb (last_run <? madd) && negb (is_gained VVisible) && negb (last_run <? c_added c)); [|discriminate].
          inversion Einc; subst t. rewrite (sm_kind01 k tick (Hk k c Hin)), andb_true_r in Em. lia. }
    destruct cep_known_shape as [(E & _)|(E & _)]; rewrite E.
    - destruct Hv as [H|[H|H]]; [left; exact H| |right; exact H]. left. rewrite map_app. apply in_or_app. right. exact H.
    - destruct Hv as [H|[H|H]]; [|left; exact H|right; exact H].
      destruct cep_known_shape as [(E2 & _)|(_ & _ & _ & _ & Ei & _)].
      + left. rewrite E2 in E. rewrite <- E. exact H.
      + rewrite Ei in H. cbn [app] in H. left. exact H.
  Qed.

  Lemma cep_known_vals : NoDup (map fst (ec_vals ec)) /\
    forall k v, In (k, v) (ec_vals ec) -> exists c, In (k, c) (se_comps x) /\ v = c_val c.
  Proof.
    assert (Hi : NoDup (map fst ins)) by (unfold ins; rewrite vs_keys_val_of; apply vs_nodup_filter; exact Hnd).
    assert (Hm : NoDup (map fst muts)) by (unfold muts; rewrite vs_keys_val_of; apply vs_nodup_filter; exact Hnd).
    assert (Hsub : forall k v, In (k, v) (ins ++ muts) -> exists c, In (k, c) (se_comps x) /\ v = c_val c).
    { intros k v Hin. apply in_app_or in Hin. destruct Hin as [Hin|Hin]; eapply In_map_val_of_filter; exact Hin. }
    assert (Hdis : forall k, In k (map fst ins) -> ~ In k (map fst muts)).
    { intros k H1 H2. unfold ins in H1. unfold muts in H2. rewrite vs_keys_val_of in H1, H2.
      apply in_map_iff in H1. destruct H1 as [[k1 c1] [E1 F1]]. apply in_map_iff in H2. destruct H2 as [[k2 c2] [E2 F2]].
      cbn in E1, E2. subst k1 k2. apply filter_In in F1. apply filter_In in F2. destruct F1 as [I1 P1]. destruct F2 as [I2 P2].
      assert (c1 = c2).
      { apply (vs_in_get _ k c1 Hnd) in I1. apply (vs_in_get _ k c2 Hnd) in I2. congruence. }
      subst c2. unfold comp_is_ins in P1. unfold comp_is_mut in P2.
      destruct (incremental last_run (last_run <? madd) VVisible (Some a) (snd (k, c1))); discriminate. }
    destruct cep_known_shape as [(E & _)|(E & _)]; rewrite E.
    - split; [rewrite map_app; apply vs_nodup_app; assumption|exact Hsub].
    - split; [exact Hm|]. intros k v Hin. apply Hsub. apply in_or_app. right. exact Hin.
  Qed.
End CepKnown.

(* a client that does not know the entity (or a marker added since the last run) gets everything *)
Lemma cep_new_vals last_run tick rb mt e x madd :
  mt = None \/ (last_run <? madd) = true ->
  ec_vals (cep last_run tick rb mt VVisible e x madd) = all_comps x /\
  ec_bump (cep last_run tick rb mt VVisible e x madd) = true /\
  ec_entry (cep last_run tick rb mt VVisible e x madd) = Some (all_comps x).
Proof.
  intros H. rewrite cep_full; [cbn; auto|discriminate|]. destruct H as [H|H]; [left; exact H|right; right; exact H].
Qed.

(* ================================================================== *)
(* 3. the stamps and the table after send_for_client                  *)
(* ================================================================== *)

Lemma mut_ticks_index this_run elapsed p : forall t,
  ct_mutate_index t < 2 ^ 16 -> ct_mutate_index t + N.of_nat (length p) <= 2 ^ 16 ->
  ct_mutate_index (mut_ticks this_run elapsed t p) = (ct_mutate_index t + N.of_nat (length p)) mod 2 ^ 16.
Proof.
  pose proof pow16 as P16.
  induction p as [|ents p IH]; intros t Hlt Hb.
  - unfold mut_ticks. cbn [length fold_left]. rewrite N.add_0_r, N.mod_small; [reflexivity|exact Hlt].
  - rewrite mut_ticks_cons. destruct (reg_step_fields this_run elapsed t ents) as (_ & _ & F3 & _).
    cbn [length] in Hb |- *. rewrite Nat2N.inj_succ in Hb |- *. rewrite IH.
    + rewrite F3. rewrite P16 in *. lia.
    + rewrite F3. rewrite P16 in *. lia.
    + rewrite F3. rewrite P16 in *. lia.
Qed.

Section SfcNoVis.
  Variables (c : cfg) (s : server) (cl : sclient) (p : partition).
  Hypothesis Hvis : sc_vis cl = None.
  Hypothesis Hwf : ents_wf s.

  Local Notation run := (sv_now s).
  Local Notation P := (sfc_pure c s (sv_now s) cl p).
  Local Notation parts := (sfc_parts c s (sv_now s) cl p).

  Lemma sfc_send_eq : send_for_client c s run cl p = Ok (fst P, snd P).
  Proof. rewrite send_for_client_eq. destruct P; reflexivity. Qed.

  Lemma sfc_ticks_final :
    sc_ticks (fst P) = mut_ticks run (sv_elapsed s) (sfc_ticks3 s run cl) parts.
  Proof. destruct (sfc_result _ _ _ _ _ _ _ sfc_send_eq) as [E _]. rewrite E. reflexivity. Qed.

  Lemma sfc_update_out :
    co_update (snd P) = if sfc_has_upd s run cl then Some (sfc_upd s run cl) else None.
  Proof. reflexivity. Qed.

  Lemma sfc_mutates_out :
    co_mutates (snd P) =
    mut_msgs (cfg_track c) (sv_tick s) (ct_update_tick (sfc_ticks3 s run cl)) (N.of_nat (length parts))
             (mutated_set s run cl) (ct_mutate_index (sc_ticks cl)) parts.
  Proof. destruct (sfc_result _ _ _ _ _ _ _ sfc_send_eq) as [_ E]. rewrite E. reflexivity. Qed.

  Lemma sfc_stamp_after e :
    mutation_tick (sc_ticks (fst P)) e =
    if existsb (fun eec => (fst eec =? e) && ec_bump (snd eec)) (sfc_ecs s run cl) then Some run
    else if mem_N e (sv_despawn_buf s) then None else mutation_tick (sc_ticks cl) e.
  Proof.
    rewrite sfc_ticks_final. unfold mutation_tick.
    destruct (mut_ticks_fields run (sv_elapsed s) parts (sfc_ticks3 s run cl)) as (M1 & _). rewrite M1.
    destruct (sfc_ticks3_fields s run cl) as (T1 & _). rewrite T1.
    destruct (sfc_ticks2_fields s run cl) as (_ & _ & _ & T4). fold (mutation_tick (sfc_ticks2 s run cl) e). rewrite T4.
    rewrite (nv_mt1 s cl Hvis). reflexivity.
  Qed.

  Lemma sfc_stamp_bumped e x madd :
    In (e, x, madd) (replicated_ents s) -> ec_bump (nv_ec s cl (e, x, madd)) = true ->
    mutation_tick (sc_ticks (fst P)) e = Some run.
  Proof.
    intros Hin Hb. rewrite sfc_stamp_after.
    replace (existsb (fun eec => (fst eec =? e) && ec_bump (snd eec)) (sfc_ecs s run cl)) with true; [reflexivity|].
    symmetry. apply existsb_exists. exists (e, nv_ec s cl (e, x, madd)). split.
    - rewrite (nv_ecs s cl run Hvis Hwf). apply in_map_iff. exists (e, x, madd). split; [reflexivity|exact Hin].
    - cbn [fst snd]. rewrite N.eqb_refl, Hb. reflexivity.
  Qed.

  Lemma sfc_stamp_kept e :
    (forall x madd, In (e, x, madd) (replicated_ents s) -> ec_bump (nv_ec s cl (e, x, madd)) = false) ->
    mutation_tick (sc_ticks (fst P)) e = if mem_N e (sv_despawn_buf s) then None else mutation_tick (sc_ticks cl) e.
  Proof.
    intros H. rewrite sfc_stamp_after.
    replace (existsb (fun eec => (fst eec =? e) && ec_bump (snd eec)) (sfc_ecs s run cl)) with false; [reflexivity|].
    symmetry. apply not_true_is_false. intros Hex. apply existsb_exists in Hex. destruct Hex as [[e' ec] [Hin Hb]].
    cbn [fst snd] in Hb. apply andb_prop in Hb. destruct Hb as [He Hb]. assert (e' = e) by lia. subst e'.
    rewrite (nv_ecs s cl run Hvis Hwf) in Hin. apply in_map_iff in Hin. destruct Hin as [[[e1 x] madd] [Eq Hin]].
    cbn [ent_id fst] in Eq. inversion Eq; subst e1 ec. rewrite (H x madd Hin) in Hb. discriminate.
  Qed.

  (* the entries of the update message *)
  Lemma sfc_change_entry e en : In (e, en) (changed_set s run cl) ->
    exists x madd, In (e, x, madd) (replicated_ents s) /\ ec_entry (nv_ec s cl (e, x, madd)) = Some en.
  Proof. intros H. apply (nv_changed_in s cl run Hvis e en Hwf). exact H. Qed.

  (* the entries of the mutate messages *)
  Lemma sfc_mut_entry m e vals : In m (co_mutates (snd P)) -> In (e, vals) (m_body m) ->
    exists x madd, In (e, x, madd) (replicated_ents s) /\ ec_muts (nv_ec s cl (e, x, madd)) = vals /\ vals <> [] /\
                   ec_entry (nv_ec s cl (e, x, madd)) = None /\ ec_bump (nv_ec s cl (e, x, madd)) = false.
  Proof.
    intros Hm Hb. destruct (sfc_body_entry _ _ _ _ _ _ _ m e vals sfc_send_eq Hm Hb) as [Hin _].
    rewrite mutated_set_eq, In_muts_of in Hin. destruct Hin as (ec & Hec & Em & Hne).
    rewrite (nv_ecs s cl run Hvis Hwf) in Hec. apply in_map_iff in Hec. destruct Hec as [[[e1 x] madd] [Eq Hin]].
    cbn [ent_id fst] in Eq. inversion Eq; subst e1 ec. exists x, madd. split; [exact Hin|]. split; [exact Em|]. split; [exact Hne|].
    destruct vals as [|[k0 v0] r0]; [congruence|].
    assert (H0 : In (k0, v0) (ec_muts (nv_ec s cl (e, x, madd)))) by (rewrite Em; left; reflexivity).
    unfold nv_ec in H0 |- *. apply cep_muts_sound in H0. destruct H0 as (_ & A & B & _). auto.
  Qed.

  Lemma sfc_mut_header m : In m (co_mutates (snd P)) ->
    m_tick m = sv_tick s /\
    m_upd_tick m = (if sfc_has_upd s run cl then sv_tick s else ct_update_tick (sc_ticks cl)).
  Proof.
    rewrite sfc_mutates_out. intros Hm. apply mut_msgs_header in Hm. destruct Hm as (A & B & _).
    split; [exact B|]. rewrite A. exact (proj2 (proj2 (proj2 (sfc_ticks3_fields s run cl)))).
  Qed.

  (* the in-flight table, when the mutate index does not wrap *)
  Lemma sfc_regs :
    ct_mutate_index (sc_ticks cl) + N.of_nat (length (co_mutates (snd P))) < 2 ^ 16 ->
    let t' := sc_ticks (fst P) in
    ct_mutate_index t' = ct_mutate_index (sc_ticks cl) + N.of_nat (length (co_mutates (snd P))) /\
    (forall m, In m (co_mutates (snd P)) ->
       ct_mutate_index (sc_ticks cl) <= m_idx m < ct_mutate_index t' /\
       al_get (m_idx m) (ct_mutations t') = Some (mkMI run (sv_elapsed s) (map fst (m_body m)))) /\
    (forall i, i < ct_mutate_index (sc_ticks cl) -> al_get i (ct_mutations t') = al_get i (ct_mutations (sc_ticks cl))).
  Proof.
    pose proof pow16 as P16. intros Hb. cbv zeta.
    assert (Hlen : length (co_mutates (snd P)) = length parts) by (rewrite sfc_mutates_out; apply mut_msgs_length).
    rewrite Hlen in *. rewrite sfc_ticks_final.
    destruct (sfc_ticks3_fields s run cl) as (_ & T2 & T3 & _).
    set (t3 := sfc_ticks3 s run cl) in *. set (idx := ct_mutate_index (sc_ticks cl)) in *.
    assert (Hidx : ct_mutate_index (mut_ticks run (sv_elapsed s) t3 parts) = idx + N.of_nat (length parts)).
    { rewrite mut_ticks_index; rewrite T3; fold idx; [|lia|lia]. apply N.mod_small. lia. }
    assert (Hseq : forall j, In j (idx_seq idx (length parts)) -> idx <= j < idx + N.of_nat (length parts)).
    { intros j Hj. pose proof Hj as Hj0. apply idx_seq_In in Hj. destruct Hj as [->|[i [Hi ->]]]; [destruct parts; [destruct Hj0|cbn [length]; lia]|].
      rewrite N.mod_small by lia. lia. }
    assert (Hnd : NoDup (idx_seq idx (length parts))) by (apply idx_seq_nodup; lia).
    split; [exact Hidx|]. split.
    - intros m Hm. rewrite sfc_mutates_out in Hm. apply mut_msgs_header in Hm. destruct Hm as (_ & _ & _ & Hc). fold idx in Hc.
      split.
      + rewrite Hidx. apply Hseq. exact (in_combine_l _ _ _ _ Hc).
      + apply (mut_ticks_inflight run (sv_elapsed s) parts t3); rewrite T3; fold idx; [exact Hnd|exact Hc].
    - intros i Hi. destruct (mut_ticks_fields run (sv_elapsed s) parts t3) as (_ & _ & M3). rewrite M3; [rewrite T2; reflexivity|].
      rewrite T3. fold idx. intros Hin. apply Hseq in Hin. lia.
  Qed.

  (* every entity with mutations is in the body of one of the mutate messages *)
  Lemma sfc_mut_covered e : In e (map fst (mutated_set s run cl)) ->
    exists m, In m (co_mutates (snd P)) /\ In e (map fst (m_body m)).
  Proof.
    intros He.
    assert (Hparts : exists ents, In ents parts /\ In e ents).
    { unfold sfc_parts, sfc_bad. destruct (partition_ok (cfg_track c) (mutated_set s run cl) p) eqn:Eok; cbn [negb].
      - apply partition_ok_spec in Eok. destruct Eok as (_ & _ & Hperm & _).
        assert (Hin : In e (concat p)) by (eapply Permutation.Permutation_in; [apply Permutation.Permutation_sym; exact Hperm|exact He]).
        apply in_concat in Hin. destruct Hin as [ents [A B]]. exists ents. auto.
      - destruct (mutated_set s run cl) as [|m0 r0] eqn:Em; [destruct He|]. exists (map fst (m0 :: r0)). split; [left; reflexivity|exact He]. }
    destruct Hparts as (ents & Hp & Hin).
    assert (Hb : In (mut_body (mutated_set s run cl) ents) (map m_body (co_mutates (snd P)))).
    { rewrite sfc_mutates_out, mut_msgs_bodies. apply in_map. exact Hp. }
    apply in_map_iff in Hb. destruct Hb as [m [Eb Hm]]. exists m. split; [exact Hm|].
    rewrite Eb. unfold mut_body. rewrite map_map. cbn [fst]. rewrite map_id. exact Hin.
  Qed.
End SfcNoVis.
