(* Layer 1: what "the client's replicated view equals the server's" means (C01), as an
   executable comparison, and a lossless settle round. *)
From RV Require Import Lib.Res Repl.ClientTicks Repl.World Repl.Server Repl.Client Repl.Sys Vis.Visibility.
Open Scope N_scope.

(* a client-side value read back through the entity map *)
Definition cval_matches (c : client) (v : val) (cv : cval) : bool :=
  match v, cv with
  | VNat a, CNat b => a =? b
  | VRef t, CRef cid => match al_get cid (cl_c2s c) with Some s => s =? t | None => false end
  | _, _ => false
  end.

(* components replicated with SendRate::Once are compared by presence only: their value
   obligation is the one of C02 (value of the last full send) *)
Definition comp_matches (c : client) (k : N) (v : val) (cv : cval) : bool :=
  match rate_of k with Once => true | _ => cval_matches c v cv end.

Definition entity_matches (c : client) (e : N) (comps : list (N * val)) : bool :=
  match al_get e (cl_s2c c) with
  | None => false
  | Some cid =>
    match get_cent c cid with
    | None => false
    | Some x =>
      ce_alive x && ce_marker x
      && (length (ce_comps x) =? length comps)%nat
      && forallb (fun kv => match al_get (fst kv) (ce_comps x) with
                            | Some cv => comp_matches c (fst kv) (snd kv) cv
                            | None => false
                            end) comps
    end
  end.

(* replicated client entities (mapped, alive, marked) that were not pre-mapped *)
Definition client_entities (c : client) : list N :=
  fold_right (fun sc acc =>
                match get_cent c (snd sc) with
                | Some x => if ce_alive x && ce_marker x then fst sc :: acc else acc
                | None => acc
                end) [] (cl_s2c c).

Definition view_converged (s : server) (cl : sclient) (c : client) : bool :=
  let sv := server_view s cl in
  forallb (fun ec => entity_matches c (fst ec) (snd ec)) sv
  && forallb (fun e => match al_get e sv with
                       | Some _ => true
                       | None => (* only pre-mapped entities may be held beyond the view *)
                         match al_get e (cl_s2c c) with
                         | Some cid => match get_cent c cid with Some x => match ce_pre x with Some _ => true | None => false end | None => false end
                         | None => false
                         end
                       end) (client_entities c).

Definition converged (y : sys) : bool :=
  forallb (fun cl =>
             if sc_authorized cl then
               match al_get (sc_slot cl) (y_clients y) with
               | Some c => view_converged (y_server y) cl c
               | None => false
               end
             else true) (sv_clients (y_server y)).

(* one lossless round: a tick, everything in flight delivered in order, every client runs,
   all acknowledgements delivered.  The partition oracle is the canonical one: all of a
   client's mutated entities in one message (any valid partition gives the same client state;
   see Server.partition_ok). *)
Definition slots (y : sys) : list N := map fst (y_clients y).

Definition canonical_parts (y : sys) : list (N * partition) := [].

Definition run_steps (y : sys) (sts : list step) : res sys :=
  fold_left (fun acc st => let* y := acc in let* (y', _) := sys_step y st in Ok y') sts (Ok y).

Definition settle_round (y : sys) : res sys :=
  let* y1 := run_steps y [StSFrame true 16 false [] (canonical_parts y)] in
  run_steps y1 (flat_map (fun slot => [StDeliver slot true 0 All; StDeliver slot true 1 All; StCFrame slot []; StDeliver slot false 0 All]) (slots y1)).

Fixpoint settle (n : nat) (y : sys) : res sys :=
  match n with O => Ok y | S n' => let* y' := settle_round y in settle n' y' end.
