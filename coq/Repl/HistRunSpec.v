(* C12 end to end, H1: specification vocabulary (definitions only, not extracted).
   A ghost, per client slot and per CLIENT entity (client entity ids are never reused, so "per session" comes for
   free: an entity of an earlier session is never touched again), of the ticks that confirmed the entity:
     - the tick of every applied update message that had a removals entry or a changes entry for it
       (a pre-spawn mapping alone does not confirm; the changes entry that goes with it does);
     - the tick of every applied mutate message whose entry for it took the confirming branch of
       `apply_mutations` (the message is newer than everything the entity has confirmed).
   The ghost functions recompute the intermediate client states with the model's own functions (Repl/Client.v)
   and read, at each array element, which client entity the element lands on - nothing of the model is copied. *)
From RV Require Import Lib.Res Repl.ClientTicks Repl.World Repl.Server Repl.Client Repl.Sys
  Tick.RepliconTick Tick.ConfirmHistory Tick.MutateTicks Tick.TickSpec
  Repl.Client_proofs Repl.ClientEnt_proofs Repl.ClientMut_proofs Repl.ClientStructSpec.
Open Scope N_scope.

(* client entity -> ticks that confirmed it, latest first *)
Definition hghost := N -> list N.
Definition hg_empty : hghost := fun _ => [].
Definition hg_add (g : hghost) (cid T : N) : hghost := fun k => if k =? cid then T :: g k else g k.

(* the client entity a removals / changes entry for server entity [e] lands on *)
Definition entry_cid (c : client) (e : N) : option N :=
  match entry_entity c e with Some (_, cid) => Some cid | None => None end.

Definition hg_entry (T : N) (c : client) (e : N) (g : hghost) : hghost :=
  match entry_cid c e with Some cid => hg_add g cid T | None => g end.

(* one entry of a mutate message: the branch of `apply_mutations` that calls `set_last_tick` *)
Definition hg_mutation (T : N) (c : client) (e : N) (g : hghost) : hghost :=
  match al_get e (cl_s2c c) with
  | Some cid =>
    match get_cent c cid with
    | Some x =>
      if ce_alive x then
        match ce_hist x with
        | Some h => if tick_gtb T (h_last h) then hg_add g cid T else g
        | None => g
        end
      else g
    | None => g
    end
  | None => g
  end.

(* the ghost along `run_array f items c`: element by element, on the client state the element is applied to *)
Fixpoint hg_array {A : Type} (f : client -> A -> res step_result) (gf : client -> A -> hghost -> hghost)
  (items : list A) (c : client) (g : hghost) : hghost :=
  match items with
  | [] => g
  | a :: r =>
    match f c a with
    | Ok (Continue c1) => hg_array f gf r c1 (gf c a g)
    | Ok (Abort _) => gf c a g
    | _ => g
    end
  end.

Definition hg_update (c : client) (u : update_msg) (g : hghost) : hghost :=
  let fr := fun c r => apply_removals c (u_tick u) (fst r) (snd r) in
  let g3 := hg_array fr (fun c (r : N * list N) => hg_entry (u_tick u) c (fst r)) (u_removals u) (update_pre c u) g in
  match run_array fr (u_removals u) (update_pre c u) with
  | Ok (Continue c3) =>
    hg_array (fun c ch => apply_changes c (u_tick u) (fst ch) (snd ch))
             (fun c (ch : N * list (N * val)) => hg_entry (u_tick u) c (fst ch)) (u_changes u) c3 g3
  | _ => g3
  end.

Fixpoint hg_inbox (us : list update_msg) (c : client) (g : hghost) : hghost :=
  match us with
  | [] => g
  | u :: r => match apply_update_message c u with Ok c1 => hg_inbox r c1 (hg_update c u g) | _ => g end
  end.

Definition hg_mutate_msg (m : mutate_msg) (c : client) (g : hghost) : hghost :=
  hg_array (fun c b => apply_mutations c (m_tick m) (fst b) (snd b))
           (fun c (b : N * list (N * val)) => hg_mutation (m_tick m) c (fst b)) (m_body m) c g.

(* along the fold of `apply_mutate_messages` (Client_proofs.mm_step) *)
Fixpoint hg_mm (upd : N) (buf : list mutate_msg) (st : mm_state) (g : hghost) : hghost :=
  match buf with
  | [] => g
  | m :: r =>
    match mm_step upd st m with
    | Ok st' => hg_mm upd r st' (if tick_gtb (m_upd_tick m) upd then g else hg_mutate_msg m (mm_client st) g)
    | _ => g
    end
  end.

(* one client frame: only a connected client applies anything *)
Definition hg_frame (c : client) (g : hghost) : hghost :=
  match cl_status c with
  | Disconnected => g
  | Connected =>
    match fold_left (res_step apply_update_message) (cl_inbox_upd c) (Ok c) with
    | Ok c1 =>
      let cm := merge_mut_inbox c1 in
      hg_mm (cl_upd_tick cm) (cl_buffered cm) (cm, [], [], []) (hg_inbox (cl_inbox_upd c) c g)
    | _ => g
    end
  end.

(* the whole system: slot -> ghost *)
Definition hghosts := N -> hghost.
Definition hgs_empty : hghosts := fun _ => hg_empty.

Definition hstep (y : sys) (G : hghosts) (st : step) : hghosts :=
  match st with
  | StCFrame slot _ =>
    match al_get slot (y_clients y) with
    | Some c => fun k => if k =? slot then hg_frame c (G k) else G k
    | None => G
    end
  | _ => G
  end.

Fixpoint hrun (y : sys) (G : hghosts) (script : list step) : res (sys * hghosts) :=
  match script with
  | [] => Ok (y, G)
  | st :: rest => let* (y', _) := sys_step y st in hrun y' (hstep y G st) rest
  end.

(* ---------- what the ghost is compared with ---------- *)

Definition zticks (S : list N) : list Z := map Z.of_N S.

(* the history of an entity against its ghost set: the last tick is the maximum of the set (and has not wrapped),
   and the mask refines the set *)
Definition hgood (h : hist) (S : list N) : Prop :=
  small_tick (h_last h) /\ In (h_last h) S /\ (forall t, In t S -> t <= h_last h) /\
  hist_R h (Z.of_N (h_last h)) (zticks S).

(* an alive entity without history has never been confirmed *)
Definition ent_ok (x : cent) (S : list N) : Prop :=
  ce_alive x = true -> match ce_hist x with Some h => hgood h S | None => S = [] end.

Definition HInv (c : client) (g : hghost) : Prop :=
  ewf c /\ (forall cid, cl_next c <= cid -> g cid = []) /\
  forall cid x, get_cent c cid = Some x -> ent_ok x (g cid).

(* the ghost set restricted to the 64-tick window ending at its maximum *)
Definition in_window (L t : N) : bool := L <? t + 64.
Definition windowed (L : N) (S : list N) : list N := filter (in_window L) S.

(* ghosts only grow *)
Definition hg_le (g g' : hghost) : Prop := forall cid, exists l, g' cid = l ++ g cid.

(* every message a client holds or is about to receive carries a tick of at most [B] *)
Definition cl_ticks_le (B : N) (c : client) : Prop :=
  (forall u, In u (cl_inbox_upd c) -> u_tick u <= B) /\
  (forall m, In m (cl_inbox_mut c ++ cl_buffered c) -> m_tick m <= B).

Definition sys_ticks_le (B : N) (y : sys) : Prop :=
  sv_tick (y_server y) <= B /\
  (forall slot, (forall u, In u (l_upd (get_link y slot)) -> u_tick u <= B) /\
                (forall m, In m (l_mut (get_link y slot)) -> m_tick m <= B)) /\
  (forall slot c, al_get slot (y_clients y) = Some c -> cl_ticks_le B c).
