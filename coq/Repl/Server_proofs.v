(* Lemmas about Repl/Server.v: `send_for_client`, `send_replication`, `server_frame`
   (server-side theorems C07 / C08 Layer 1 / C10 Layer 1).  Helper definitions: Repl/ServerSpec.v. *)
From RV Require Import Lib.Res Repl.ClientTicks Repl.ClientTicks_proofs Repl.World Vis.Visibility
  Tick.RepliconTick Repl.Server Repl.ServerSpec.
From Coq Require Import ZifyBool ZifyN Permutation.
Open Scope N_scope.
Ltac Zify.zify_post_hook ::= Z.div_mod_to_equations.
Arguments N.add : simpl never. Arguments N.mul : simpl never. Arguments N.pow : simpl never.
Arguments N.ltb : simpl never. Arguments N.leb : simpl never. Arguments N.div : simpl never.
Arguments N.modulo : simpl never. Arguments N.sub : simpl never. Arguments N.eqb : simpl never.

(* ---------- generic folds ---------- *)

Lemma fold_left_res_ok {A B} (F : res A -> B -> res A) (f : A -> B -> A) :
  (forall a x, F (Ok a) x = Ok (f a x)) ->
  forall l a, fold_left F l (Ok a) = Ok (fold_left f l a).
Proof.
  intros HF l. induction l as [|x l IH]; intros a; cbn [fold_left]; [reflexivity|].
  rewrite HF. apply IH.
Qed.

Lemma fold_left_inv {A B} (f : A -> B -> A) (P : A -> Prop) l :
  (forall a x, In x l -> P a -> P (f a x)) -> forall a, P a -> P (fold_left f l a).
Proof.
  induction l as [|x l IH]; intros Hstep a Ha; cbn [fold_left]; [exact Ha|].
  apply IH.
  - intros a' x' Hin. apply Hstep. right. exact Hin.
  - apply Hstep; [left; reflexivity|exact Ha].
Qed.

(* ---------- collect_entity is total ---------- *)

Lemma send_mutations_eq k tick : send_mutations (rate_of k) tick = Ok (sm k tick).
Proof.
  unfold sm, rate_of. destruct (k =? 2); [reflexivity|]. destruct (k =? 4); reflexivity.
Qed.

Lemma comp_fold_eq (F : res (list (N * val) * list (N * val)) -> N * comp -> res (list (N * val) * list (N * val)))
  (pi pm : N * comp -> bool) :
  (forall ins muts kc, F (Ok (ins, muts)) kc =
     Ok (if pi kc then (ins ++ [val_of kc], muts)
         else if pm kc then (ins, muts ++ [val_of kc]) else (ins, muts))) ->
  (forall kc, pi kc = true -> pm kc = false) ->
  forall comps ins muts,
    fold_left F comps (Ok (ins, muts)) =
    Ok (ins ++ map val_of (filter pi comps), muts ++ map val_of (filter pm comps)).
Proof.
  intros HF Hex comps. induction comps as [|kc comps IH]; intros ins muts; cbn [fold_left filter map].
  - rewrite !app_nil_r. reflexivity.
  - rewrite HF. destruct (pi kc) eqn:Epi.
    + rewrite (Hex _ Epi). rewrite IH. cbn [map]. rewrite <- app_assoc. reflexivity.
    + destruct (pm kc) eqn:Epm; rewrite IH; cbn [map]; [rewrite <- app_assoc|]; reflexivity.
Qed.

Lemma collect_entity_eq last_run tick rb ticks st e x madd :
  collect_entity last_run tick rb ticks st e x madd
  = Ok (cep last_run tick rb (mutation_tick ticks e) st e x madd).
Proof.
  unfold collect_entity, cep. destruct (is_hidden st) eqn:Eh; [reflexivity|].
  erewrite (comp_fold_eq _ (comp_is_ins last_run (last_run <? madd) st (mutation_tick ticks e))
                           (comp_is_mut last_run tick (last_run <? madd) st (mutation_tick ticks e))).
  - cbn [bind app].
    match goal with |- (if ?b then _ else _) = _ => destruct b end; [|reflexivity].
    match goal with |- match ?l with _ => _ end = _ => destruct l end; reflexivity.
  - intros ins muts [k c]. cbn [bind]. unfold comp_is_ins, comp_is_mut, incremental, val_of. cbn [fst snd].
    destruct (mutation_tick ticks e) as [t|]; [|reflexivity].
    destruct (negb (last_run <? madd) && negb (is_gained st) && negb (last_run <? c_added c)); [|reflexivity].
    rewrite send_mutations_eq. cbn [bind]. destruct ((t <? c_changed c) && sm k tick); reflexivity.
  - intros kc. unfold comp_is_ins, comp_is_mut. destruct (incremental _ _ _ _ _); [discriminate|reflexivity].
Qed.

(* ---------- send_for_client is total: it is the pure function sfc_pure ---------- *)

Lemma collect_fold_eq s vis1 this_run ticks1 :
  fold_left (fun acc exm =>
      let* (changes, muts, ticks) := acc in
      let '(e, x, madd) := exm in
      let* ec := collect_entity (sv_last_run s) (sv_tick s) (sv_removal_buf s) ticks (vis_state_of vis1 e) e x madd in
      let changes' := match ec_entry ec with Some en => changes ++ [(e, en)] | None => changes end in
      let muts' := match ec_muts ec with [] => muts | m => muts ++ [(e, m)] end in
      let ticks' := if ec_bump ec then set_mutation_tick ticks e this_run else ticks in
      Ok (changes', muts', ticks')) (replicated_ents s) (Ok ([], [], ticks1))
  = Ok (collect_changes s vis1 this_run ticks1).
Proof.
  unfold collect_changes. apply fold_left_res_ok.
  intros [[ch mu] ti] [[e x] madd]. cbn [bind]. rewrite collect_entity_eq. cbn [bind]. reflexivity.
Qed.

Theorem send_for_client_eq c s this_run cl p :
  send_for_client c s this_run cl p = Ok (sfc_pure c s this_run cl p).
Proof.
  unfold send_for_client, sfc_pure, sfc_mut_fold, sfc_send_muts, sfc_parts, sfc_bad, sfc_ticks3, sfc_has_upd,
    sfc_upd, sfc_removals, mutated_set, changed_set, sfc_ticks2, sfc_despawns, sfc_ticks1, sfc_vis1.
  destruct (collect_despawns (sv_despawn_buf s) (sc_ticks cl) (sc_vis cl)) as [[despawns ticks1] vis1].
  cbn [fst snd]. rewrite collect_fold_eq. cbn [bind].
  destruct (collect_changes s vis1 this_run ticks1) as [[changes muts] ticks2]. cbn [fst snd].
  match goal with |- context [let '(a, b) := ?X in _] => set (XX := X) end.
  match goal with |- context [fst ?Y] => change Y with XX end.
  destruct XX as [t4 msgs]. reflexivity.
Qed.

Corollary send_for_client_total c s this_run cl p : exists r, send_for_client c s this_run cl p = Ok r.
Proof. eexists. apply send_for_client_eq. Qed.

Lemma send_for_client_inv c s this_run cl p cl' out :
  send_for_client c s this_run cl p = Ok (cl', out) ->
  cl' = fst (sfc_pure c s this_run cl p) /\ out = snd (sfc_pure c s this_run cl p).
Proof.
  rewrite send_for_client_eq. intros H.
  assert (E : sfc_pure c s this_run cl p = (cl', out)) by congruence.
  rewrite E. split; reflexivity.
Qed.

(* ---------- association lists, sorting ---------- *)

Lemma al_get_In {V} k (v : V) l : al_get k l = Some v -> In (k, v) l.
Proof.
  induction l as [|[k' v'] t IH]; cbn [al_get]; [discriminate|].
  destruct (k' =? k) eqn:E.
  - intros H. injection H as ->. left. f_equal. lia.
  - intros H. right. exact (IH H).
Qed.

Lemma In_al_get_nodup {V} k (v : V) l : NoDup (al_keys l) -> In (k, v) l -> al_get k l = Some v.
Proof.
  induction l as [|[k' v'] t IH]; cbn [al_get al_keys map fst]; intros Hnd Hin; [destruct Hin|].
  inversion Hnd as [|? ? Hni Hnd']; subst. destruct Hin as [Heq | Hin].
  - injection Heq as -> ->. rewrite N.eqb_refl. reflexivity.
  - destruct (k' =? k) eqn:E.
    + exfalso. apply Hni. assert (k' = k) as -> by lia. apply (in_map fst) in Hin. exact Hin.
    + apply IH; assumption.
Qed.

Lemma al_get_some_keys {V} k (l : list (N * V)) : (exists v, al_get k l = Some v) <-> In k (al_keys l).
Proof.
  split.
  - intros [v H]. apply al_get_In in H. apply (in_map fst) in H. exact H.
  - intros Hin. destruct (al_get k l) as [v|] eqn:E; [eexists; reflexivity|].
    apply al_get_none_keys in E. contradiction.
Qed.

Lemma In_insert_by_key {V} k (v : V) l y : In y (insert_by_key k v l) <-> y = (k, v) \/ In y l.
Proof.
  induction l as [|[k' v'] t IH]; cbn [insert_by_key In].
  - intuition congruence.
  - destruct (k <=? k'); cbn [In]; [intuition congruence|]. rewrite IH. intuition congruence.
Qed.

Lemma In_sort_by_key {V} (l : list (N * V)) y : In y (sort_by_key l) <-> In y l.
Proof.
  unfold sort_by_key. induction l as [|[k v] t IH]; cbn [fold_right In fst snd]; [reflexivity|].
  rewrite In_insert_by_key, IH. intuition congruence.
Qed.

Lemma filter_all {A} (p : A -> bool) l : (forall x, In x l -> p x = true) -> filter p l = l.
Proof.
  induction l as [|x l IH]; intros H; cbn [filter]; [reflexivity|].
  rewrite (H x (or_introl eq_refl)). f_equal. apply IH. intros y Hy. apply H. right. exact Hy.
Qed.

Lemma filter_none {A} (p : A -> bool) l : (forall x, In x l -> p x = false) -> filter p l = [].
Proof.
  induction l as [|x l IH]; intros H; cbn [filter]; [reflexivity|].
  rewrite (H x (or_introl eq_refl)). apply IH. intros y Hy. apply H. right. exact Hy.
Qed.

(* ---------- replicated_ents ---------- *)

Lemma In_insert_ent x l y : In y (insert_ent x l) <-> y = x \/ In y l.
Proof.
  induction l as [|z t IH]; cbn [insert_ent In].
  - intuition congruence.
  - destruct (fst (fst x) <=? fst (fst z)); cbn [In]; [intuition congruence|]. rewrite IH. intuition congruence.
Qed.

Lemma NoDup_insert_ent x l :
  ~ In (ent_id x) (map ent_id l) -> NoDup (map ent_id l) -> NoDup (map ent_id (insert_ent x l)).
Proof.
  induction l as [|z t IH]; cbn [insert_ent map]; intros Hni Hnd.
  - constructor; [intros []|constructor].
  - destruct (fst (fst x) <=? fst (fst z)); cbn [map].
    + constructor; assumption.
    + inversion Hnd as [|? ? Hz Hnd']; subst. cbn [In] in Hni. constructor.
      * intros Hin. apply in_map_iff in Hin. destruct Hin as [w [Hw Hin]]. apply In_insert_ent in Hin.
        destruct Hin as [-> | Hin]; [apply Hni; left; symmetry; exact Hw|].
        apply Hz. rewrite <- Hw. apply in_map. exact Hin.
      * apply IH; [intros H; apply Hni; right; exact H|exact Hnd'].
Qed.

(* an entity is replicated iff it is alive and carries the marker *)
Lemma replicated_ents_In s e x madd :
  In (e, x, madd) (replicated_ents s) <->
  In (e, x) (sv_ents s) /\ se_marker x = Some madd /\ se_alive x = true.
Proof.
  unfold replicated_ents. induction (sv_ents s) as [|[e' x'] t IH]; cbn [fold_right In].
  - intuition.
  - destruct (se_marker x') as [m|] eqn:Em.
    + destruct (se_alive x') eqn:Ea.
      * rewrite In_insert_ent, IH. split.
        -- intros [Heq | H]; [injection Heq as -> -> ->; auto|]. intuition.
        -- intros [[Heq | Hin] [Hm Hal]].
           ++ injection Heq as -> ->. left. congruence.
           ++ right. auto.
      * rewrite IH. split; [intuition|]. intros [[Heq | Hin] [Hm Hal]]; [|auto].
        injection Heq as -> ->. congruence.
    + rewrite IH. split; [intuition|]. intros [[Heq | Hin] [Hm Hal]]; [|auto].
      injection Heq as -> ->. congruence.
Qed.

Lemma replicated_ents_ids_incl s e : In e (map ent_id (replicated_ents s)) -> In e (map fst (sv_ents s)).
Proof.
  intros H. apply in_map_iff in H. destruct H as [[[e' x] madd] [He Hin]]. cbn in He. subst e'.
  apply replicated_ents_In in Hin. destruct Hin as [Hin _]. apply (in_map fst) in Hin. exact Hin.
Qed.

Lemma replicated_ents_nodup s : ents_wf s -> NoDup (map ent_id (replicated_ents s)).
Proof.
  unfold ents_wf. intros Hnd.
  assert (Hincl : forall e, In e (map ent_id (replicated_ents s)) -> In e (map fst (sv_ents s)))
    by apply replicated_ents_ids_incl.
  revert Hnd Hincl. unfold replicated_ents.
  induction (sv_ents s) as [|[e' x'] t IH]; cbn [fold_right map fst]; intros Hnd Hincl; [constructor|].
  inversion Hnd as [|? ? Hni Hnd']; subst.
  assert (Hsub : forall e, In e (map ent_id (fold_right (fun ex acc => let '(e0, x) := ex in
             match se_marker x with Some madd => if se_alive x then insert_ent (e0, x, madd) acc else acc | None => acc end) [] t))
           -> In e (map fst t)).
  { clear. induction t as [|[e1 x1] t IH]; cbn [fold_right map fst]; [auto|]. intros e He.
    destruct (se_marker x1); [destruct (se_alive x1)|].
    - apply in_map_iff in He. destruct He as [w [Hw Hin]]. apply In_insert_ent in Hin.
      destruct Hin as [-> | Hin]; [left; exact Hw|]. right. apply IH. rewrite <- Hw. apply in_map. exact Hin.
    - right. apply IH. exact He.
    - right. apply IH. exact He. }
  specialize (IH Hnd' Hsub).
  destruct (se_marker x'); [destruct (se_alive x')|]; try exact IH.
  apply NoDup_insert_ent; [|exact IH]. intros Hin. apply Hni. apply Hsub. exact Hin.
Qed.

(* ---------- collect_entity (pure): what it produces ---------- *)

Lemma is_hidden_iff st : is_hidden st = false <-> st <> VHidden.
Proof. destruct st; cbn; split; congruence. Qed.

Lemma vis_visible_state v e : vis_visible v e = true <-> vis_state_of v e <> VHidden.
Proof.
  unfold vis_visible, vis_state_of. destruct v as [v|]; [|split; [discriminate|reflexivity]].
  unfold is_visible. destruct (state v e); split; congruence.
Qed.

Section Cep.
Variables (last_run tick : N) (rb : list (N * list N)).

Lemma cep_hidden mt e x madd : cep last_run tick rb mt VHidden e x madd = mkEC None [] false.
Proof. reflexivity. Qed.

Lemma In_map_val_of_filter (p : N * comp -> bool) comps k v :
  In (k, v) (map val_of (filter p comps)) -> exists comp, In (k, comp) comps /\ v = c_val comp.
Proof.
  intros H. apply in_map_iff in H. destruct H as [[k' comp] [Heq Hin]]. apply filter_In in Hin.
  unfold val_of in Heq. cbn [fst snd] in Heq. injection Heq as Hk Hv. subst k' v. exists comp. split; [apply Hin|reflexivity].
Qed.

(* the four shapes of the result *)
Lemma cep_cases mt st e x madd :
  let ec := cep last_run tick rb mt st e x madd in
  (ec = mkEC None [] false) \/
  (st <> VHidden /\ ec_muts ec = [] /\ ec_bump ec = true) \/
  (st <> VHidden /\ ec_entry ec = None /\ ec_bump ec = false).
Proof.
  cbv zeta. unfold cep. destruct (is_hidden st) eqn:Eh; [left; reflexivity|]. apply is_hidden_iff in Eh.
  right. match goal with |- context [if ?b then _ else _] => destruct b end.
  - left. match goal with |- context [match ?l with [] => _ | _ => _ end] => destruct l end; cbn; auto.
  - right. cbn. auto.
Qed.

Lemma cep_entry_sound mt st e x madd en :
  ec_entry (cep last_run tick rb mt st e x madd) = Some en ->
  st <> VHidden /\
  ec_muts (cep last_run tick rb mt st e x madd) = [] /\
  ec_bump (cep last_run tick rb mt st e x madd) = true /\
  forall k v, In (k, v) en -> exists comp, In (k, comp) (se_comps x) /\ v = c_val comp.
Proof.
  unfold cep. destruct (is_hidden st) eqn:Eh; [discriminate|]. apply is_hidden_iff in Eh.
  match goal with |- context [if ?b then _ else _] => destruct b end; [|discriminate].
  match goal with |- context [match ?l with [] => _ | _ => _ end] => destruct l as [|y l'] eqn:El end; cbn [ec_entry ec_muts ec_bump].
  - intros H. repeat split; auto.
    match type of H with (if ?b then _ else _) = _ => destruct b end; [|discriminate].
    injection H as <-. intros k v [].
  - intros H. injection H as <-. repeat split; auto. intros k v Hin. rewrite <- El in Hin.
    apply in_app_or in Hin. destruct Hin as [Hin | Hin]; eapply In_map_val_of_filter; exact Hin.
Qed.

Lemma cep_muts_sound mt st e x madd k v :
  In (k, v) (ec_muts (cep last_run tick rb mt st e x madd)) ->
  st <> VHidden /\
  ec_entry (cep last_run tick rb mt st e x madd) = None /\
  ec_bump (cep last_run tick rb mt st e x madd) = false /\
  exists comp, In (k, comp) (se_comps x) /\ v = c_val comp.
Proof.
  unfold cep. destruct (is_hidden st) eqn:Eh; [intros []|]. apply is_hidden_iff in Eh.
  match goal with |- context [if ?b then _ else _] => destruct b end.
  - match goal with |- context [match ?l with [] => _ | _ => _ end] => destruct l end; intros [].
  - cbn [ec_entry ec_muts ec_bump]. intros Hin. repeat split; auto. eapply In_map_val_of_filter; exact Hin.
Qed.

(* a new entity for the client (no mutation tick yet, visibility just gained, marker just added):
   all components, nothing left for mutate messages *)
Lemma cep_full mt st e x madd :
  st <> VHidden -> (mt = None \/ st = VGained \/ (last_run <? madd) = true) ->
  cep last_run tick rb mt st e x madd = mkEC (Some (all_comps x)) [] true.
Proof.
  intros Hst Hnew. unfold cep. apply is_hidden_iff in Hst. rewrite Hst.
  assert (Hinc : forall c, incremental last_run (last_run <? madd) st mt c = None).
  { intros c. unfold incremental. destruct mt as [t|]; [|reflexivity].
    destruct Hnew as [Hm | [-> | ->]]; [discriminate| |reflexivity].
    cbn. rewrite andb_false_r. reflexivity. }
  rewrite filter_all by (intros kc _; unfold comp_is_ins; rewrite Hinc; reflexivity).
  rewrite filter_none by (intros kc _; unfold comp_is_mut; rewrite Hinc; reflexivity).
  assert (Hne : (last_run <? madd) || is_gained st || match mt with None => true | Some _ => false end = true).
  { destruct Hnew as [-> | [-> | ->]]; [apply orb_true_r|cbn; rewrite orb_true_r; reflexivity|reflexivity]. }
  rewrite Hne. cbn [orb map app]. rewrite app_nil_r. fold (all_comps x).
  destruct (all_comps x); reflexivity.
Qed.

End Cep.

(* ---------- the fold of collect_changes ---------- *)

Section Collect.
Variables (last_run tick : N) (rb : list (N * list N)) (vis1 : option vis) (this_run : N).

Local Notation cstep := (collect_step last_run tick rb vis1 this_run).
Local Notation clist := (collect_list last_run tick rb vis1 this_run).
Local Notation cepx mt exm :=
  (cep last_run tick rb mt (vis_state_of vis1 (ent_id exm)) (ent_id exm) (snd (fst exm)) (snd exm)).

Lemma collect_fold_list l : forall ch mu ti,
  fold_left cstep l (ch, mu, ti)
  = (ch ++ entries_of (fst (clist ti l)), mu ++ muts_of (fst (clist ti l)), snd (clist ti l)).
Proof.
  induction l as [|[[e x] madd] l IH]; intros ch mu ti.
  - cbn. rewrite !app_nil_r. reflexivity.
  - cbn [fold_left collect_step collect_list ent_id fst snd]. rewrite IH.
    set (ec := cep last_run tick rb (mutation_tick ti e) (vis_state_of vis1 e) e x madd).
    destruct (clist (if ec_bump ec then set_mutation_tick ti e this_run else ti) l) as [ecs tf].
    cbn [fst snd entries_of muts_of flat_map].
    apply f_equal2; [apply f_equal2|reflexivity].
    + destruct (ec_entry ec); [rewrite <- app_assoc|]; reflexivity.
    + destruct (ec_muts ec); [|rewrite <- app_assoc]; reflexivity.
Qed.

Lemma collect_list_align l : forall ti,
  Forall2 (fun exm eec => fst eec = ent_id exm /\ exists mt, snd eec = cepx mt exm) l (fst (clist ti l)).
Proof.
  induction l as [|exm l IH]; intros ti; cbn [collect_list]; [constructor|].
  match goal with |- context [clist ?t l] => specialize (IH t); destruct (clist t l) as [ecs tf] end.
  cbn [fst snd] in *. constructor; [|exact IH]. cbn [fst snd]. split; [reflexivity|]. eexists. reflexivity.
Qed.

Lemma collect_list_ids l ti : map fst (fst (clist ti l)) = map ent_id l.
Proof.
  revert ti. induction l as [|exm l IH]; intros ti; cbn [collect_list]; [reflexivity|].
  match goal with |- context [clist ?t l] => specialize (IH t); destruct (clist t l) as [ecs tf] end.
  cbn [fst snd map] in *. f_equal. exact IH.
Qed.

Lemma collect_list_ext l : forall ti ti',
  (forall e, In e (map ent_id l) -> mutation_tick ti e = mutation_tick ti' e) ->
  fst (clist ti l) = fst (clist ti' l).
Proof.
  induction l as [|exm l IH]; intros ti ti' Hag; cbn [collect_list]; [reflexivity|].
  rewrite <- (Hag (ent_id exm)) by (left; reflexivity).
  set (ec := cepx (mutation_tick ti (ent_id exm)) exm).
  specialize (IH (if ec_bump ec then set_mutation_tick ti (ent_id exm) this_run else ti)
                 (if ec_bump ec then set_mutation_tick ti' (ent_id exm) this_run else ti')).
  destruct (clist (if ec_bump ec then set_mutation_tick ti (ent_id exm) this_run else ti) l) as [ecs tf].
  destruct (clist (if ec_bump ec then set_mutation_tick ti' (ent_id exm) this_run else ti') l) as [ecs' tf'].
  cbn [fst] in *. f_equal. apply IH. intros e He.
  destruct (ec_bump ec); [|apply Hag; right; exact He].
  rewrite !set_get_mutation_tick. destruct (N.eq_dec e (ent_id exm)) as [Heq | Hne].
  - subst e. rewrite N.eqb_refl. reflexivity.
  - replace (e =? ent_id exm) with false by lia. apply Hag. right. exact He.
Qed.

(* with unique entity ids every entity is judged against the mutation ticks at the start *)
Lemma collect_list_nodup l : forall ti, NoDup (map ent_id l) ->
  fst (clist ti l) = map (fun exm => (ent_id exm, cepx (mutation_tick ti (ent_id exm)) exm)) l.
Proof.
  induction l as [|exm l IH]; intros ti Hnd; cbn [collect_list map]; [reflexivity|].
  inversion Hnd as [|? ? Hni Hnd']; subst.
  set (ec := cepx (mutation_tick ti (ent_id exm)) exm).
  pose proof (collect_list_ext l (if ec_bump ec then set_mutation_tick ti (ent_id exm) this_run else ti) ti) as Hext.
  destruct (clist (if ec_bump ec then set_mutation_tick ti (ent_id exm) this_run else ti) l) as [ecs tf].
  cbn [fst] in *. f_equal. rewrite Hext; [apply IH; exact Hnd'|].
  intros e He. destruct (ec_bump ec); [|reflexivity].
  rewrite set_get_mutation_tick. destruct (N.eq_dec e (ent_id exm)) as [Heq | Hne]; [subst e; contradiction|].
  replace (e =? ent_id exm) with false by lia. reflexivity.
Qed.

Lemma collect_list_ticks l : forall ti,
  let tf := snd (clist ti l) in
  ct_update_tick tf = ct_update_tick ti /\ ct_mutations tf = ct_mutations ti /\
  ct_mutate_index tf = ct_mutate_index ti /\
  forall e, mutation_tick tf e =
    if existsb (fun eec => (fst eec =? e) && ec_bump (snd eec)) (fst (clist ti l)) then Some this_run
    else mutation_tick ti e.
Proof.
  induction l as [|exm l IH]; intros ti; cbn [collect_list].
  - cbn. auto.
  - set (ec := cepx (mutation_tick ti (ent_id exm)) exm).
    specialize (IH (if ec_bump ec then set_mutation_tick ti (ent_id exm) this_run else ti)).
    destruct (clist (if ec_bump ec then set_mutation_tick ti (ent_id exm) this_run else ti) l) as [ecs tf].
    cbn [fst snd existsb] in *. destruct IH as [H1 [H2 [H3 H4]]].
    repeat split.
    + rewrite H1. destruct (ec_bump ec); reflexivity.
    + rewrite H2. destruct (ec_bump ec); reflexivity.
    + rewrite H3. destruct (ec_bump ec); reflexivity.
    + intros e. rewrite H4. destruct (existsb _ ecs); [rewrite orb_true_r; reflexivity|].
      rewrite orb_false_r. destruct (ec_bump ec) eqn:Eb; [|rewrite andb_false_r; reflexivity].
      rewrite andb_true_r, set_get_mutation_tick. rewrite (N.eqb_sym (ent_id exm) e). reflexivity.
Qed.

End Collect.

Lemma Forall2_In_r {A B} (R : A -> B -> Prop) l l' y :
  Forall2 R l l' -> In y l' -> exists x, In x l /\ R x y.
Proof.
  induction 1 as [|x y' l l' HR HF IH]; intros Hin; [destruct Hin|].
  destruct Hin as [-> | Hin]; [exists x; split; [left; reflexivity|exact HR]|].
  destruct (IH Hin) as [x' [Hx' HR']]. exists x'. split; [right; exact Hx'|exact HR'].
Qed.

Lemma Forall2_In_l {A B} (R : A -> B -> Prop) l l' x :
  Forall2 R l l' -> In x l -> exists y, In y l' /\ R x y.
Proof.
  induction 1 as [|x' y l l' HR HF IH]; intros Hin; [destruct Hin|].
  destruct Hin as [-> | Hin]; [exists y; split; [left; reflexivity|exact HR]|].
  destruct (IH Hin) as [y' [Hy' HR']]. exists y'. split; [right; exact Hy'|exact HR'].
Qed.

(* ---------- send_for_client: the three results of collect_changes ---------- *)

Lemma collect_changes_list s vis1 this_run ticks1 :
  collect_changes s vis1 this_run ticks1 =
  (entries_of (fst (collect_list (sv_last_run s) (sv_tick s) (sv_removal_buf s) vis1 this_run ticks1 (replicated_ents s))),
   muts_of (fst (collect_list (sv_last_run s) (sv_tick s) (sv_removal_buf s) vis1 this_run ticks1 (replicated_ents s))),
   snd (collect_list (sv_last_run s) (sv_tick s) (sv_removal_buf s) vis1 this_run ticks1 (replicated_ents s))).
Proof. unfold collect_changes. rewrite collect_fold_list. reflexivity. Qed.

Lemma changed_set_eq s this_run cl : changed_set s this_run cl = entries_of (sfc_ecs s this_run cl).
Proof. unfold changed_set, sfc_ecs. rewrite collect_changes_list. reflexivity. Qed.

Lemma mutated_set_eq s this_run cl : mutated_set s this_run cl = muts_of (sfc_ecs s this_run cl).
Proof. unfold mutated_set, sfc_ecs. rewrite collect_changes_list. reflexivity. Qed.

Lemma sfc_ticks2_eq s this_run cl :
  sfc_ticks2 s this_run cl =
  snd (collect_list (sv_last_run s) (sv_tick s) (sv_removal_buf s) (sfc_vis1 s cl) this_run
                    (sfc_ticks1 s cl) (replicated_ents s)).
Proof. unfold sfc_ticks2. rewrite collect_changes_list. reflexivity. Qed.

(* every per-entity result belongs to a replicated entity *)
Lemma sfc_ecs_sound s this_run cl e ec :
  In (e, ec) (sfc_ecs s this_run cl) ->
  exists x madd mt, In (e, x, madd) (replicated_ents s) /\
    ec = cep (sv_last_run s) (sv_tick s) (sv_removal_buf s) mt (vis_state_of (sfc_vis1 s cl) e) e x madd.
Proof.
  intros Hin. unfold sfc_ecs in Hin.
  destruct (Forall2_In_r _ _ _ _ (collect_list_align _ _ _ _ _ _ _) Hin) as [[[e' x] madd] [Hl [Hid [mt Hec]]]].
  cbn [fst snd ent_id] in *. subst e'. exists x, madd, mt. split; assumption.
Qed.

(* every replicated entity has a per-entity result *)
Lemma sfc_ecs_complete s this_run cl e x madd :
  In (e, x, madd) (replicated_ents s) ->
  exists mt, In (e, cep (sv_last_run s) (sv_tick s) (sv_removal_buf s) mt (vis_state_of (sfc_vis1 s cl) e) e x madd)
                (sfc_ecs s this_run cl).
Proof.
  intros Hin. unfold sfc_ecs.
  destruct (Forall2_In_l _ _ _ _ (collect_list_align (sv_last_run s) (sv_tick s) (sv_removal_buf s)
             (sfc_vis1 s cl) this_run (replicated_ents s) (sfc_ticks1 s cl)) Hin) as [[e' ec] [Hl [Hid [mt Hec]]]].
  cbn [fst snd ent_id] in *. subst e' ec. exists mt. exact Hl.
Qed.

(* with unique entity keys: the exact list *)
Lemma sfc_ecs_nodup s this_run cl : ents_wf s ->
  sfc_ecs s this_run cl =
  map (fun exm => (ent_id exm,
         cep (sv_last_run s) (sv_tick s) (sv_removal_buf s) (mutation_tick (sfc_ticks1 s cl) (ent_id exm))
             (vis_state_of (sfc_vis1 s cl) (ent_id exm)) (ent_id exm) (snd (fst exm)) (snd exm)))
      (replicated_ents s).
Proof. intros Hwf. unfold sfc_ecs. apply collect_list_nodup. apply replicated_ents_nodup. exact Hwf. Qed.

Lemma sfc_ecs_ids s this_run cl : map fst (sfc_ecs s this_run cl) = map ent_id (replicated_ents s).
Proof. apply collect_list_ids. Qed.

Lemma In_entries_of ecs e en :
  In (e, en) (entries_of ecs) <-> exists ec, In (e, ec) ecs /\ ec_entry ec = Some en.
Proof.
  unfold entries_of. rewrite in_flat_map. split.
  - intros [[e' ec] [Hin H]]. cbn [fst snd] in H. destruct (ec_entry ec) as [en'|] eqn:E; [|destruct H].
    destruct H as [H | []]. injection H as -> ->. exists ec. split; assumption.
  - intros [ec [Hin E]]. exists (e, ec). split; [exact Hin|]. cbn [fst snd]. rewrite E. left. reflexivity.
Qed.

Lemma In_muts_of ecs e m :
  In (e, m) (muts_of ecs) <-> exists ec, In (e, ec) ecs /\ ec_muts ec = m /\ m <> [].
Proof.
  unfold muts_of. rewrite in_flat_map. split.
  - intros [[e' ec] [Hin H]]. cbn [fst snd] in H. destruct (ec_muts ec) as [|y l] eqn:E; [destruct H|].
    destruct H as [H | []]. injection H as -> <-. exists ec. repeat split; [exact Hin|exact E|discriminate].
  - intros [ec [Hin [E Hne]]]. exists (e, ec). split; [exact Hin|]. cbn [fst snd]. rewrite E.
    destruct m; [congruence|]. left. reflexivity.
Qed.

(* C08/4, update part *)
Lemma changed_set_sound s this_run cl e en :
  In (e, en) (changed_set s this_run cl) ->
  vis_state_of (sfc_vis1 s cl) e <> VHidden /\
  exists x madd, In (e, x, madd) (replicated_ents s) /\
    forall k v, In (k, v) en -> exists comp, In (k, comp) (se_comps x) /\ v = c_val comp.
Proof.
  rewrite changed_set_eq, In_entries_of. intros [ec [Hin Hen]].
  apply sfc_ecs_sound in Hin. destruct Hin as [x [madd [mt [Hl ->]]]].
  apply cep_entry_sound in Hen. destruct Hen as [Hst [_ [_ Hv]]].
  split; [exact Hst|]. exists x, madd. split; assumption.
Qed.

Lemma mutated_set_sound s this_run cl e m :
  In (e, m) (mutated_set s this_run cl) ->
  m <> [] /\ vis_state_of (sfc_vis1 s cl) e <> VHidden /\
  exists x madd, In (e, x, madd) (replicated_ents s) /\
    forall k v, In (k, v) m -> exists comp, In (k, comp) (se_comps x) /\ v = c_val comp.
Proof.
  rewrite mutated_set_eq, In_muts_of. intros [ec [Hin [Hm Hne]]]. split; [exact Hne|].
  apply sfc_ecs_sound in Hin. destruct Hin as [x [madd [mt [Hl ->]]]].
  destruct m as [|[k0 v0] m']; [congruence|].
  assert (H0 : In (k0, v0) (ec_muts (cep (sv_last_run s) (sv_tick s) (sv_removal_buf s) mt
                 (vis_state_of (sfc_vis1 s cl) e) e x madd))) by (rewrite Hm; left; reflexivity).
  apply cep_muts_sound in H0. destruct H0 as [Hst _]. split; [exact Hst|].
  exists x, madd. split; [exact Hl|]. intros k v Hin. rewrite <- Hm in Hin.
  apply cep_muts_sound in Hin. destruct Hin as [_ [_ [_ H]]]. exact H.
Qed.

(* ---------- the mutate messages ---------- *)

Lemma idx_seq_length start n : length (idx_seq start n) = n.
Proof. revert start. induction n as [|n IH]; intros start; cbn [idx_seq length]; [reflexivity|]. rewrite IH. reflexivity. Qed.

Lemma pow16 : 2 ^ 16 = 65536.
Proof. reflexivity. Qed.

Lemma idx_seq_nth start n i : start < 2 ^ 16 -> (i < n)%nat ->
  nth i (idx_seq start n) 0 = (start + N.of_nat i) mod 2 ^ 16.
Proof.
  revert start i. induction n as [|n IH]; intros start i Hs Hi; [lia|].
  cbn [idx_seq]. destruct i as [|i]; cbn [nth].
  - rewrite pow16 in *. lia.
  - rewrite IH; [|rewrite pow16 in *; lia|lia]. rewrite pow16 in *. lia.
Qed.

Lemma idx_seq_In start n j : In j (idx_seq start n) ->
  j = start \/ exists i, (0 < i < n)%nat /\ j = (start + N.of_nat i) mod 2 ^ 16.
Proof.
  revert start. induction n as [|n IH]; intros start Hin; [destruct Hin|].
  cbn [idx_seq] in Hin. destruct Hin as [<- | Hin]; [left; reflexivity|].
  right. destruct n as [|n']; [destruct Hin|].
  apply IH in Hin. destruct Hin as [-> | [i [Hi ->]]].
  - exists 1%nat. split; [lia|reflexivity].
  - exists (S i). split; [lia|]. rewrite pow16. lia.
Qed.

(* no index collision up to 2^16 messages *)
Lemma idx_seq_nodup start n : N.of_nat n <= 2 ^ 16 -> NoDup (idx_seq start n).
Proof.
  revert start. induction n as [|n IH]; intros start Hn; cbn [idx_seq]; constructor; [|apply IH; lia].
  intros Hin. apply idx_seq_In in Hin. rewrite pow16 in *.
  destruct Hin as [Heq | [i [Hi Heq]]]; lia.
Qed.

Section MutFold.
Variables (track : bool) (tick this_run elapsed upd_tick count : N) (muts : list (N * list (N * val))).

Local Notation reg_step := (ServerSpec.reg_step this_run elapsed).

Lemma reg_step_fields t ents :
  ct_mutation_ticks (reg_step t ents) = ct_mutation_ticks t /\
  ct_update_tick (reg_step t ents) = ct_update_tick t /\
  ct_mutate_index (reg_step t ents) = (ct_mutate_index t + 1) mod 2 ^ 16 /\
  al_get (ct_mutate_index t) (ct_mutations (reg_step t ents)) = Some (mkMI this_run elapsed ents) /\
  forall i, i <> ct_mutate_index t -> al_get i (ct_mutations (reg_step t ents)) = al_get i (ct_mutations t).
Proof.
  unfold reg_step, register_mutate_message, add_entities.
  cbn [fst ct_mutation_ticks ct_update_tick ct_mutate_index ct_mutations].
  repeat split.
  - rewrite al_get_adjust_same, al_get_insert_same. reflexivity.
  - intros i Hi. rewrite al_get_adjust_other by exact Hi. apply al_get_insert_other. exact Hi.
Qed.

Lemma mut_ticks_cons t ents p :
  mut_ticks this_run elapsed t (ents :: p) = mut_ticks this_run elapsed (reg_step t ents) p.
Proof. reflexivity. Qed.

Lemma mut_fold_eq p : forall t msgs0,
  fold_left (mut_step track tick this_run elapsed upd_tick count muts) p (t, msgs0)
  = (mut_ticks this_run elapsed t p,
     msgs0 ++ mut_msgs track tick upd_tick count muts (ct_mutate_index t) p).
Proof.
  induction p as [|ents p IH]; intros t msgs0.
  - cbn. rewrite app_nil_r. reflexivity.
  - cbn [fold_left]. unfold mut_step at 2. unfold register_mutate_message.
    match goal with |- fold_left _ _ (?t', _) = _ => change t' with (reg_step t ents) end.
    rewrite IH. rewrite mut_ticks_cons. f_equal.
    destruct (reg_step_fields t ents) as [_ [_ [Hidx _]]]. rewrite Hidx.
    unfold mut_msgs. cbn [length idx_seq combine map fst snd]. rewrite <- app_assoc. reflexivity.
Qed.

Lemma mut_ticks_fields p : forall t,
  ct_mutation_ticks (mut_ticks this_run elapsed t p) = ct_mutation_ticks t /\
  ct_update_tick (mut_ticks this_run elapsed t p) = ct_update_tick t /\
  forall i, ~ In i (idx_seq (ct_mutate_index t) (length p)) ->
    al_get i (ct_mutations (mut_ticks this_run elapsed t p)) = al_get i (ct_mutations t).
Proof.
  induction p as [|ents p IH]; intros t; [cbn; auto|].
  rewrite mut_ticks_cons. destruct (IH (reg_step t ents)) as [H1 [H2 H3]].
  destruct (reg_step_fields t ents) as [F1 [F2 [F3 [F4 F5]]]].
  repeat split; [congruence|congruence|].
  intros i Hni. cbn [length idx_seq In] in Hni. rewrite H3; [apply F5|].
  - intros ->. apply Hni. left. reflexivity.
  - rewrite F3. intros Hin. apply Hni. right. exact Hin.
Qed.

(* every registered message is in flight with exactly its entities *)
Lemma mut_ticks_inflight p : forall t, NoDup (idx_seq (ct_mutate_index t) (length p)) ->
  forall i ents, In (i, ents) (combine (idx_seq (ct_mutate_index t) (length p)) p) ->
    al_get i (ct_mutations (mut_ticks this_run elapsed t p)) = Some (mkMI this_run elapsed ents).
Proof.
  induction p as [|ents0 p IH]; intros t Hnd i ents Hin; [destruct Hin|].
  cbn [length idx_seq combine] in *. inversion Hnd as [|? ? Hni Hnd']; subst.
  destruct (reg_step_fields t ents0) as [F1 [F2 [F3 [F4 F5]]]].
  rewrite mut_ticks_cons. destruct Hin as [Heq | Hin].
  - injection Heq as <- <-. destruct (mut_ticks_fields p (reg_step t ents0)) as [_ [_ H3]].
    rewrite H3; [exact F4|]. rewrite F3. exact Hni.
  - apply IH; rewrite F3; assumption.
Qed.

Lemma mut_msgs_length idx p : length (mut_msgs track tick upd_tick count muts idx p) = length p.
Proof.
  unfold mut_msgs. rewrite map_length, combine_length, idx_seq_length. apply Nat.min_id.
Qed.

Lemma mut_msgs_idx idx p : map m_idx (mut_msgs track tick upd_tick count muts idx p) = idx_seq idx (length p).
Proof.
  unfold mut_msgs. rewrite map_map. cbn [m_idx].
  change (fun x : N * list N => fst x) with (@fst N (list N)).
  generalize (idx_seq_length idx (length p)). generalize (idx_seq idx (length p)) as is.
  induction p as [|ents p IH]; intros [|i is] Hl; cbn [combine map length] in *; try reflexivity; try discriminate.
  f_equal. apply IH. lia.
Qed.

Lemma mut_msgs_bodies idx p : map m_body (mut_msgs track tick upd_tick count muts idx p) = map (mut_body muts) p.
Proof.
  unfold mut_msgs. rewrite map_map. cbn [m_body].
  generalize (idx_seq_length idx (length p)). generalize (idx_seq idx (length p)) as is.
  induction p as [|ents p IH]; intros [|i is] Hl; cbn [combine map length snd] in *; try reflexivity; try discriminate.
  f_equal. apply IH. lia.
Qed.

Lemma mut_msgs_header idx p m : In m (mut_msgs track tick upd_tick count muts idx p) ->
  m_upd_tick m = upd_tick /\ m_tick m = tick /\ m_count m = (if track then count else 1) /\
  In (m_idx m, map fst (m_body m)) (combine (idx_seq idx (length p)) p).
Proof.
  unfold mut_msgs. intros Hin. apply in_map_iff in Hin. destruct Hin as [[i ents] [<- Hin]].
  cbn [m_upd_tick m_tick m_count m_idx m_body fst snd]. repeat split.
  unfold mut_body. rewrite map_map. cbn [fst]. rewrite map_id. exact Hin.
Qed.

End MutFold.

(* ---------- partition_ok ---------- *)

Lemma filter_eqb_nil e l : filter (N.eqb e) l = [] -> ~ In e l.
Proof.
  induction l as [|a t IH]; cbn [filter In]; [auto|].
  destruct (e =? a) eqn:E; [discriminate|]. intros H [Ha | Ht]; [lia|]. exact (IH H Ht).
Qed.

Lemma once_nodup l : (forall e, In e l -> length (filter (N.eqb e) l) = 1%nat) -> NoDup l.
Proof.
  induction l as [|a t IH]; intros H; constructor.
  - specialize (H a (or_introl eq_refl)). cbn [filter] in H. rewrite N.eqb_refl in H. cbn [length] in H.
    apply filter_eqb_nil. destruct (filter (N.eqb a) t); [reflexivity|discriminate].
  - assert (Ha : ~ In a t).
    { specialize (H a (or_introl eq_refl)). cbn [filter] in H. rewrite N.eqb_refl in H. cbn [length] in H.
      apply filter_eqb_nil. destruct (filter (N.eqb a) t); [reflexivity|discriminate]. }
    apply IH. intros e He. specialize (H e (or_intror He)). cbn [filter] in H.
    destruct (e =? a) eqn:E; [|exact H]. exfalso. apply Ha. assert (e = a) as <- by lia. exact He.
Qed.

Lemma map_body_keys (muts : list (N * list (N * val))) :
  NoDup (map fst muts) -> mut_body muts (map fst muts) = muts.
Proof.
  intros Hnd. unfold mut_body. rewrite map_map.
  rewrite <- (map_id muts) at 2. apply map_ext_in. intros [e m] Hin. cbn [fst].
  rewrite (In_al_get_nodup e m muts Hnd Hin). reflexivity.
Qed.

Lemma partition_ok_spec track (muts : list (N * list (N * val))) p :
  partition_ok track muts p = true ->
  NoDup (concat p) /\ NoDup (map fst muts) /\ Permutation (concat p) (map fst muts) /\
  (muts = [] -> p = if track then [[]] else []) /\
  (muts <> [] -> exists front last, p = front ++ [last] /\ forall ents, In ents front -> ents <> []).
Proof.
  unfold partition_ok. intros H. apply andb_prop in H. destruct H as [H H4].
  apply andb_prop in H. destruct H as [H H3]. apply andb_prop in H. destruct H as [H1 H2].
  apply Nat.eqb_eq in H1. rewrite forallb_forall in H2, H3.
  assert (Hnd : NoDup (concat p)).
  { apply once_nodup. intros e He. apply Nat.eqb_eq. apply H3. exact He. }
  assert (Hincl : incl (concat p) (map fst muts)).
  { intros e He. specialize (H2 e He). apply al_get_some_keys.
    destruct (al_get e muts) as [m|]; [eexists; reflexivity|discriminate]. }
  assert (Hlen : (length (map fst muts) <= length (concat p))%nat) by (rewrite map_length; lia).
  split; [exact Hnd|]. split; [exact (@NoDup_incl_NoDup _ _ _ Hnd Hlen Hincl)|].
  split; [exact (@NoDup_Permutation_bis _ _ _ Hnd Hlen Hincl)|]. split.
  - intros ->. destruct track.
    + destruct p as [|[|a l] [|b r]]; try discriminate. reflexivity.
    + destruct p; [reflexivity|discriminate].
  - intros Hne. destruct muts as [|m0 muts']; [congruence|].
    destruct (rev p) as [|lst fr] eqn:Er; [discriminate|].
    exists (rev fr), lst. split.
    + rewrite <- (rev_involutive p), Er. reflexivity.
    + intros ents Hin. apply in_rev in Hin. rewrite forallb_forall in H4. specialize (H4 ents Hin).
      destruct ents; [discriminate|discriminate].
Qed.

(* the entities of the partition actually used all have mutations *)
Lemma sfc_parts_in_muts c s this_run cl p ents e :
  In ents (sfc_parts c s this_run cl p) -> In e ents ->
  exists m, al_get e (mutated_set s this_run cl) = Some m.
Proof.
  unfold sfc_parts, sfc_bad. destruct (partition_ok (cfg_track c) (mutated_set s this_run cl) p) eqn:Eok; cbn [negb].
  - intros Hin He. apply partition_ok_spec in Eok. destruct Eok as [_ [_ [Hperm _]]].
    apply al_get_some_keys. eapply Permutation_in; [exact Hperm|]. apply in_concat. exists ents. split; assumption.
  - destruct (mutated_set s this_run cl) as [|m0 ms] eqn:Em.
    + destruct (cfg_track c); [|intros []]. intros [<- | []] [].
    + intros [<- | []] He. apply al_get_some_keys. exact He.
Qed.

(* ---------- collect_despawns only removes mutation ticks ---------- *)


Lemma ticks_shrunk_refl t : ticks_shrunk t t.
Proof. unfold ticks_shrunk. auto. Qed.

Lemma ticks_shrunk_remove t0 t e : ticks_shrunk t0 t -> ticks_shrunk t0 (remove_entity t e).
Proof.
  intros [H1 [H2 [H3 H4]]]. unfold ticks_shrunk, remove_entity. cbn [ct_update_tick ct_mutations ct_mutate_index].
  repeat split; try assumption. intros e' He'. specialize (H4 e' He').
  unfold mutation_tick in *. cbn [ct_mutation_ticks].
  destruct (N.eq_dec e' e) as [-> | Hne]; [apply al_get_remove_same|].
  rewrite al_get_remove_other by exact Hne. exact H4.
Qed.

Lemma collect_despawns_ticks buf ticks v :
  ticks_shrunk ticks (snd (fst (collect_despawns buf ticks v))).
Proof.
  unfold collect_despawns.
  destruct (match v with
            | Some vv => let '(vv', l) := drain_lost vv in (sort_N l, Some vv')
            | None => ([], None)
            end) as [lost v1].
  apply (fold_left_inv _ (fun acc => ticks_shrunk ticks (snd (fst acc)))).
  - intros [[des t] vo] e _ Ht. cbn [fst snd] in *. destruct vo; cbn [fst snd]; apply ticks_shrunk_remove; exact Ht.
  - cbn [fst snd]. apply (fold_left_inv _ (ticks_shrunk ticks)).
    + intros t e _ Ht. apply ticks_shrunk_remove. exact Ht.
    + apply ticks_shrunk_refl.
Qed.

Lemma sfc_ticks1_shrunk s cl : ticks_shrunk (sc_ticks cl) (sfc_ticks1 s cl).
Proof. apply collect_despawns_ticks. Qed.

(* ---------- the bookkeeping chain ticks1 -> ticks2 -> ticks3 -> ticks4 ---------- *)

Lemma sfc_ticks2_fields s this_run cl :
  ct_update_tick (sfc_ticks2 s this_run cl) = ct_update_tick (sc_ticks cl) /\
  ct_mutations (sfc_ticks2 s this_run cl) = ct_mutations (sc_ticks cl) /\
  ct_mutate_index (sfc_ticks2 s this_run cl) = ct_mutate_index (sc_ticks cl) /\
  forall e, mutation_tick (sfc_ticks2 s this_run cl) e =
    if existsb (fun eec => (fst eec =? e) && ec_bump (snd eec)) (sfc_ecs s this_run cl) then Some this_run
    else mutation_tick (sfc_ticks1 s cl) e.
Proof.
  rewrite sfc_ticks2_eq. unfold sfc_ecs.
  destruct (collect_list_ticks (sv_last_run s) (sv_tick s) (sv_removal_buf s) (sfc_vis1 s cl) this_run
              (replicated_ents s) (sfc_ticks1 s cl)) as [H1 [H2 [H3 H4]]].
  destruct (sfc_ticks1_shrunk s cl) as [S1 [S2 [S3 _]]].
  repeat split; [congruence|congruence|congruence|exact H4].
Qed.

Lemma sfc_ticks3_fields s this_run cl :
  ct_mutation_ticks (sfc_ticks3 s this_run cl) = ct_mutation_ticks (sfc_ticks2 s this_run cl) /\
  ct_mutations (sfc_ticks3 s this_run cl) = ct_mutations (sc_ticks cl) /\
  ct_mutate_index (sfc_ticks3 s this_run cl) = ct_mutate_index (sc_ticks cl) /\
  ct_update_tick (sfc_ticks3 s this_run cl) =
    if sfc_has_upd s this_run cl then sv_tick s else ct_update_tick (sc_ticks cl).
Proof.
  destruct (sfc_ticks2_fields s this_run cl) as [H1 [H2 [H3 _]]].
  unfold sfc_ticks3. destruct (sfc_has_upd s this_run cl); cbn; auto.
Qed.

(* the messages and the final bookkeeping in closed form *)
Lemma sfc_mut_fold_eq c s this_run cl p :
  sfc_mut_fold c s this_run cl p =
  (mut_ticks this_run (sv_elapsed s) (sfc_ticks3 s this_run cl) (sfc_parts c s this_run cl p),
   mut_msgs (cfg_track c) (sv_tick s) (ct_update_tick (sfc_ticks3 s this_run cl))
            (N.of_nat (length (sfc_parts c s this_run cl p))) (mutated_set s this_run cl)
            (ct_mutate_index (sc_ticks cl)) (sfc_parts c s this_run cl p)).
Proof.
  destruct (sfc_ticks3_fields s this_run cl) as [_ [_ [Hidx _]]].
  unfold sfc_mut_fold. destruct (sfc_send_muts c s this_run cl) eqn:Esm.
  - rewrite mut_fold_eq, Hidx. reflexivity.
  - assert (Hp : sfc_parts c s this_run cl p = []).
    { unfold sfc_send_muts in Esm. unfold sfc_parts, sfc_bad.
      destruct (mutated_set s this_run cl) eqn:Em; [|discriminate]. rewrite Esm.
      destruct (partition_ok false [] p) eqn:Eok; cbn [negb]; [|reflexivity].
      apply partition_ok_spec in Eok. destruct Eok as [_ [_ [_ [H _]]]]. exact (H eq_refl). }
    rewrite Hp. reflexivity.
Qed.

(* ---------- the result of send_for_client in closed form ---------- *)

Lemma sfc_result c s this_run cl p cl' out :
  send_for_client c s this_run cl p = Ok (cl', out) ->
  cl' = mkSC (sc_slot cl) true (sc_max_size cl)
             (mut_ticks this_run (sv_elapsed s) (sfc_ticks3 s this_run cl) (sfc_parts c s this_run cl p))
             (match sfc_vis1 s cl with Some v => Some (update v) | None => None end) [] /\
  out = mkCO (sc_slot cl)
             (if sfc_has_upd s this_run cl then Some (sfc_upd s this_run cl) else None)
             (mut_msgs (cfg_track c) (sv_tick s) (ct_update_tick (sfc_ticks3 s this_run cl))
                       (N.of_nat (length (sfc_parts c s this_run cl p))) (mutated_set s this_run cl)
                       (ct_mutate_index (sc_ticks cl)) (sfc_parts c s this_run cl p))
             (sfc_bad c s this_run cl p).
Proof.
  intros H. apply send_for_client_inv in H. destruct H as [-> ->].
  unfold sfc_pure. rewrite sfc_mut_fold_eq. cbn [fst snd]. split; reflexivity.
Qed.

Lemma sfc_update_some c s this_run cl p cl' out u :
  send_for_client c s this_run cl p = Ok (cl', out) -> co_update out = Some u -> u = sfc_upd s this_run cl.
Proof.
  intros H Hu. apply sfc_result in H. destruct H as [_ ->]. cbn [co_update] in Hu.
  destruct (sfc_has_upd s this_run cl); congruence.
Qed.

(* a non-empty changes array forces an update message *)
Lemma sfc_update_present c s this_run cl p cl' out e en :
  send_for_client c s this_run cl p = Ok (cl', out) -> In (e, en) (changed_set s this_run cl) ->
  co_update out = Some (sfc_upd s this_run cl).
Proof.
  intros H Hin. apply sfc_result in H. destruct H as [_ ->]. cbn [co_update].
  unfold sfc_has_upd, update_is_empty, sfc_upd. cbn [u_maps u_despawns u_removals u_changes].
  destruct (changed_set s this_run cl); [destruct Hin|].
  destruct (sort_by_key (sc_pending_map cl)), (sfc_despawns s cl), (sfc_removals s cl); reflexivity.
Qed.

(* the body entries of the mutate messages *)
Lemma sfc_body_entry c s this_run cl p cl' out m e vals :
  send_for_client c s this_run cl p = Ok (cl', out) -> In m (co_mutates out) -> In (e, vals) (m_body m) ->
  In (e, vals) (mutated_set s this_run cl) /\
  exists ents, In ents (sfc_parts c s this_run cl p) /\ In e ents /\ m_body m = mut_body (mutated_set s this_run cl) ents.
Proof.
  intros H Hm He. apply sfc_result in H. destruct H as [_ ->]. cbn [co_mutates] in Hm.
  unfold mut_msgs in Hm. apply in_map_iff in Hm. destruct Hm as [[i ents] [<- Hin]].
  cbn [m_body fst snd] in *. apply in_combine_r in Hin.
  unfold mut_body in He. apply in_map_iff in He. destruct He as [e' [Heq He']].
  injection Heq as -> <-.
  destruct (sfc_parts_in_muts c s this_run cl p ents e Hin He') as [mm Hmm]. rewrite Hmm.
  split; [apply al_get_In; exact Hmm|]. exists ents. repeat split; assumption.
Qed.

(* ================= C08 Layer 1 ================= *)


Lemma comp_of_intro x k v : (exists comp, In (k, comp) (se_comps x) /\ v = c_val comp) -> comp_of x k v.
Proof.
  intros [comp [Hin Hv]]. exists comp. repeat split; [exact Hin|exact Hv|].
  intros Hnd. apply In_al_get_nodup; assumption.
Qed.

Theorem changes_only_visible c s this_run cl p cl' out :
  send_for_client c s this_run cl p = Ok (cl', out) ->
  (forall u e en, co_update out = Some u -> In (e, en) (u_changes u) ->
     vis_state_of (sfc_vis1 s cl) e <> VHidden /\
     exists x madd, In (e, x, madd) (replicated_ents s) /\ forall k v, In (k, v) en -> comp_of x k v) /\
  (forall m e vals, In m (co_mutates out) -> In (e, vals) (m_body m) ->
     vis_state_of (sfc_vis1 s cl) e <> VHidden /\ vals <> [] /\
     exists x madd, In (e, x, madd) (replicated_ents s) /\ forall k v, In (k, v) vals -> comp_of x k v).
Proof.
  intros H. split.
  - intros u e en Hu Hin. rewrite (sfc_update_some _ _ _ _ _ _ _ _ H Hu) in Hin. cbn [sfc_upd u_changes] in Hin.
    apply changed_set_sound in Hin. destruct Hin as [Hst [x [madd [Hl Hv]]]].
    split; [exact Hst|]. exists x, madd. split; [exact Hl|]. intros k v Hkv. apply comp_of_intro. apply Hv. exact Hkv.
  - intros m e vals Hm He. destruct (sfc_body_entry _ _ _ _ _ _ _ _ _ _ H Hm He) as [Hin _].
    apply mutated_set_sound in Hin. destruct Hin as [Hne [Hst [x [madd [Hl Hv]]]]].
    split; [exact Hst|]. split; [exact Hne|]. exists x, madd. split; [exact Hl|].
    intros k v Hkv. apply comp_of_intro. apply Hv. exact Hkv.
Qed.

(* a replicated entity is alive and marked; with unique keys it is the entity [get_ent] finds *)
Lemma replicated_ents_get s e x madd : ents_wf s ->
  In (e, x, madd) (replicated_ents s) -> get_ent s e = Some x /\ se_marker x = Some madd /\ se_alive x = true.
Proof.
  intros Hwf Hin. apply replicated_ents_In in Hin. destruct Hin as [Hin [Hm Ha]].
  split; [|auto]. unfold get_ent. apply In_al_get_nodup; assumption.
Qed.

Theorem removals_only_visible c s this_run cl p cl' out u e ks :
  send_for_client c s this_run cl p = Ok (cl', out) -> co_update out = Some u -> In (e, ks) (u_removals u) ->
  vis_visible (sfc_vis1 s cl) e = true /\ vis_state_of (sfc_vis1 s cl) e <> VHidden /\
  In (e, ks) (sv_removal_buf s).
Proof.
  intros H Hu Hin. rewrite (sfc_update_some _ _ _ _ _ _ _ _ H Hu) in Hin. cbn [sfc_upd u_removals] in Hin.
  unfold sfc_removals in Hin. apply (proj1 (In_sort_by_key _ _)) in Hin. unfold collect_removals in Hin.
  apply filter_In in Hin. destruct Hin as [Hin Hv]. cbn [fst] in Hv.
  split; [exact Hv|]. split; [apply vis_visible_state; exact Hv|exact Hin].
Qed.

Theorem gained_sends_whole_entity c s this_run cl p cl' out e x madd :
  send_for_client c s this_run cl p = Ok (cl', out) ->
  In (e, x, madd) (replicated_ents s) -> vis_state_of (sfc_vis1 s cl) e = VGained ->
  exists u, co_update out = Some u /\ In (e, all_comps x) (u_changes u).
Proof.
  intros H Hl Hst. destruct (sfc_ecs_complete s this_run cl e x madd Hl) as [mt Hin].
  rewrite cep_full in Hin; [|rewrite Hst; discriminate|right; left; exact Hst].
  assert (Hc : In (e, all_comps x) (changed_set s this_run cl)).
  { rewrite changed_set_eq. apply In_entries_of. eexists. split; [exact Hin|reflexivity]. }
  exists (sfc_upd s this_run cl). split; [eapply sfc_update_present; eassumption|exact Hc].
Qed.

(* ================= C07: the first send is complete ================= *)

Lemma nodup_fst_fun {A B} (l : list (A * B)) k a b :
  NoDup (map fst l) -> In (k, a) l -> In (k, b) l -> a = b.
Proof.
  induction l as [|[k' v] t IH]; cbn [map fst]; intros Hnd Ha Hb; [destruct Ha|].
  inversion Hnd as [|? ? Hni Hnd']; subst.
  destruct Ha as [Ha | Ha]; destruct Hb as [Hb | Hb].
  - congruence.
  - injection Ha as -> ->. exfalso. apply Hni. apply (in_map fst) in Hb. exact Hb.
  - injection Hb as -> ->. exfalso. apply Hni. apply (in_map fst) in Ha. exact Ha.
  - apply IH; assumption.
Qed.

Lemma fresh_ecs last_run tick rb vis1 (mtf : N -> option N) l :
  (forall exm, In exm l -> mtf (ent_id exm) = None) ->
  let ecs := map (fun exm => (ent_id exm,
                 cep last_run tick rb (mtf (ent_id exm)) (vis_state_of vis1 (ent_id exm)) (ent_id exm)
                     (snd (fst exm)) (snd exm))) l in
  entries_of ecs = map (fun exm => (ent_id exm, all_comps (snd (fst exm))))
                       (filter (fun exm => negb (is_hidden (vis_state_of vis1 (ent_id exm)))) l) /\
  muts_of ecs = [].
Proof.
  cbv zeta. induction l as [|exm l IH]; intros Hmt; [split; reflexivity|].
  destruct IH as [IH1 IH2]; [intros y Hy; apply Hmt; right; exact Hy|].
  cbn [map filter]. unfold entries_of, muts_of in *. cbn [flat_map fst snd].
  rewrite IH1, IH2. rewrite (Hmt exm (or_introl eq_refl)).
  destruct (is_hidden (vis_state_of vis1 (ent_id exm))) eqn:Eh; cbn [negb].
  - assert (Hst : vis_state_of vis1 (ent_id exm) = VHidden) by (destruct (vis_state_of vis1 (ent_id exm)); cbn in Eh; congruence).
    rewrite Hst, cep_hidden. cbn [ec_entry ec_muts app]. split; reflexivity.
  - rewrite cep_full; [|apply is_hidden_iff; exact Eh|left; reflexivity].
    cbn [ec_entry ec_muts app map]. split; reflexivity.
Qed.

Theorem first_send_complete c s this_run cl p cl' out :
  ents_wf s -> sc_ticks cl = ct_default ->
  send_for_client c s this_run cl p = Ok (cl', out) ->
  let shown := filter (fun exm => negb (is_hidden (vis_state_of (sfc_vis1 s cl) (ent_id exm)))) (replicated_ents s) in
  (forall u, co_update out = Some u ->
     u_changes u = map (fun exm => (ent_id exm, all_comps (snd (fst exm)))) shown) /\
  (forall e x madd, In (e, x, madd) (replicated_ents s) -> vis_state_of (sfc_vis1 s cl) e <> VHidden ->
     exists u, co_update out = Some u /\ In (e, all_comps x) (u_changes u)) /\
  mutated_set s this_run cl = [] /\
  co_mutates out =
    if cfg_track c then [mkMut (match co_update out with Some _ => sv_tick s | None => 0 end) (sv_tick s) 1 0 []]
    else [].
Proof.
  intros Hwf Hfresh H. cbv zeta.
  assert (Hmt : forall e, mutation_tick (sfc_ticks1 s cl) e = None).
  { intros e. destruct (sfc_ticks1_shrunk s cl) as [_ [_ [_ Hn]]]. apply Hn. rewrite Hfresh. reflexivity. }
  destruct (fresh_ecs (sv_last_run s) (sv_tick s) (sv_removal_buf s) (sfc_vis1 s cl)
              (mutation_tick (sfc_ticks1 s cl)) (replicated_ents s) (fun exm _ => Hmt (ent_id exm))) as [He Hm].
  rewrite <- (sfc_ecs_nodup s this_run cl Hwf) in He, Hm.
  rewrite <- changed_set_eq in He. rewrite <- mutated_set_eq in Hm.
  split; [|split; [|split]].
  - intros u Hu. rewrite (sfc_update_some _ _ _ _ _ _ _ _ H Hu). cbn [sfc_upd u_changes]. exact He.
  - intros e x madd Hl Hst.
    assert (Hc : In (e, all_comps x) (changed_set s this_run cl)).
    { rewrite He. apply in_map_iff. exists (e, x, madd). split; [reflexivity|]. apply filter_In. split; [exact Hl|].
      cbn [ent_id fst]. apply is_hidden_iff in Hst. rewrite Hst. reflexivity. }
    exists (sfc_upd s this_run cl). split; [eapply sfc_update_present; eassumption|exact Hc].
  - exact Hm.
  - apply sfc_result in H. destruct H as [_ ->]. cbn [co_mutates co_update].
    destruct (sfc_ticks3_fields s this_run cl) as [_ [_ [_ Hu]]]. rewrite Hu, Hfresh. cbn [ct_mutate_index ct_update_tick ct_default].
    assert (Hp : sfc_parts c s this_run cl p = if cfg_track c then [[]] else []).
    { unfold sfc_parts, sfc_bad. rewrite Hm.
      destruct (partition_ok (cfg_track c) [] p) eqn:Eok; cbn [negb]; [|reflexivity].
      apply partition_ok_spec in Eok. destruct Eok as [_ [_ [_ [Hnil _]]]]. exact (Hnil eq_refl). }
    rewrite Hp, Hm. destruct (cfg_track c); [|reflexivity].
    destruct (sfc_has_upd s this_run cl); reflexivity.
Qed.

(* ================= C10 Layer 1 ================= *)

Theorem mutations_partitioned c s this_run cl p cl' out :
  send_for_client c s this_run cl p = Ok (cl', out) -> co_bad_partition out = false ->
  let muts := mutated_set s this_run cl in
  let msgs := co_mutates out in
  Permutation (concat (map m_body msgs)) muts /\
  NoDup (map fst (concat (map m_body msgs))) /\
  (muts <> [] -> exists front last, msgs = front ++ [last] /\ forall m, In m front -> m_body m <> []) /\
  map m_idx msgs = idx_seq (ct_mutate_index (sc_ticks cl)) (length msgs) /\
  (forall m, In m msgs ->
     m_tick m = sv_tick s /\ m_upd_tick m = ct_update_tick (sc_ticks cl') /\
     m_count m = if cfg_track c then N.of_nat (length msgs) else 1) /\
  (N.of_nat (length msgs) <= 2 ^ 16 -> forall m, In m msgs ->
     al_get (m_idx m) (ct_mutations (sc_ticks cl')) = Some (mkMI this_run (sv_elapsed s) (map fst (m_body m)))).
Proof.
  intros H Hbad. cbv zeta. apply sfc_result in H. destruct H as [-> ->].
  cbn [co_bad_partition co_mutates sc_ticks] in *.
  assert (Hp : sfc_parts c s this_run cl p = p) by (unfold sfc_parts; rewrite Hbad; reflexivity).
  rewrite Hp. unfold sfc_bad in Hbad. apply negb_false_iff in Hbad. apply partition_ok_spec in Hbad.
  destruct Hbad as [Hnd [Hndk [Hperm [_ Hne]]]].
  rewrite mut_msgs_bodies, mut_msgs_length, mut_msgs_idx.
  assert (Hcat : concat (map (mut_body (mutated_set s this_run cl)) p) = mut_body (mutated_set s this_run cl) (concat p)).
  { unfold mut_body. rewrite concat_map. reflexivity. }
  destruct (sfc_ticks3_fields s this_run cl) as [_ [_ [Hidx _]]].
  destruct (mut_ticks_fields this_run (sv_elapsed s) p (sfc_ticks3 s this_run cl)) as [_ [Hupd _]].
  split; [|split; [|split; [|split; [|split]]]].
  - rewrite Hcat. rewrite <- (map_body_keys _ Hndk) at 2. unfold mut_body. apply Permutation_map. exact Hperm.
  - rewrite Hcat. unfold mut_body. rewrite map_map. cbn [fst]. rewrite map_id. exact Hnd.
  - intros Hmne. destruct (Hne Hmne) as [fr [lst [Hpe Hfr]]].
    pose proof (mut_msgs_bodies (cfg_track c) (sv_tick s) (ct_update_tick (sfc_ticks3 s this_run cl))
                  (N.of_nat (length p)) (mutated_set s this_run cl) (ct_mutate_index (sc_ticks cl)) p) as Hb.
    replace (map (mut_body (mutated_set s this_run cl)) p)
      with (map (mut_body (mutated_set s this_run cl)) fr ++ [mut_body (mutated_set s this_run cl) lst]) in Hb
      by (rewrite Hpe, map_app; reflexivity).
    apply map_eq_app in Hb. destruct Hb as [fm [lm [Hmsgs [Hfm Hlm]]]].
    apply map_eq_cons in Hlm. destruct Hlm as [lastm [tl [-> [_ Htl]]]]. apply map_eq_nil in Htl. subst tl.
    exists fm, lastm. split; [exact Hmsgs|].
    intros m Hm Hbody. apply (in_map m_body) in Hm. rewrite Hfm in Hm. apply in_map_iff in Hm.
    destruct Hm as [ents [Heq Hin]]. specialize (Hfr ents Hin). apply Hfr.
    rewrite Hbody in Heq. unfold mut_body in Heq. apply map_eq_nil in Heq. exact Heq.
  - reflexivity.
  - intros m Hm. apply mut_msgs_header in Hm. destruct Hm as [H1 [H2 [H3 _]]].
    rewrite H1, H2, H3, Hupd. auto.
  - intros Hlen m Hm. apply mut_msgs_header in Hm. destruct Hm as [_ [_ [_ Hin]]].
    rewrite <- Hidx in Hin. apply (mut_ticks_inflight this_run (sv_elapsed s) p (sfc_ticks3 s this_run cl)); [|exact Hin].
    apply idx_seq_nodup. exact Hlen.
Qed.

Theorem update_or_mutate_exclusive c s this_run cl p cl' out u e en :
  send_for_client c s this_run cl p = Ok (cl', out) -> co_update out = Some u -> In (e, en) (u_changes u) ->
  mutation_tick (sc_ticks cl') e = Some this_run /\
  (ents_wf s -> forall m, In m (co_mutates out) -> ~ In e (map fst (m_body m))).
Proof.
  intros H Hu Hin. rewrite (sfc_update_some _ _ _ _ _ _ _ _ H Hu) in Hin. cbn [sfc_upd u_changes] in Hin.
  rewrite changed_set_eq in Hin. apply In_entries_of in Hin. destruct Hin as [ec [Hec Hen]].
  destruct (sfc_ecs_sound _ _ _ _ _ Hec) as [x [madd [mt [Hl Heq]]]].
  pose proof Hen as Hen'. rewrite Heq in Hen'. apply cep_entry_sound in Hen'. rewrite <- Heq in Hen'.
  destruct Hen' as [_ [Hmuts [Hbump _]]].
  split.
  - pose proof (sfc_result _ _ _ _ _ _ _ H) as [-> _]. cbn [sc_ticks].
    destruct (mut_ticks_fields this_run (sv_elapsed s) (sfc_parts c s this_run cl p) (sfc_ticks3 s this_run cl)) as [Hmt _].
    destruct (sfc_ticks3_fields s this_run cl) as [Hmt3 _].
    destruct (sfc_ticks2_fields s this_run cl) as [_ [_ [_ Hmt2]]].
    unfold mutation_tick in *. rewrite Hmt, Hmt3, Hmt2.
    replace (existsb _ (sfc_ecs s this_run cl)) with true; [reflexivity|].
    symmetry. apply existsb_exists. exists (e, ec). split; [exact Hec|]. cbn [fst snd].
    rewrite N.eqb_refl, Hbump. reflexivity.
  - intros Hwf m Hm He. apply in_map_iff in He. destruct He as [[e' vals] [He' Hb]]. cbn [fst] in He'. subst e'.
    destruct (sfc_body_entry _ _ _ _ _ _ _ _ _ _ H Hm Hb) as [Hin _].
    rewrite mutated_set_eq in Hin. apply In_muts_of in Hin. destruct Hin as [ec2 [Hec2 [Hm2 Hne]]].
    assert (ec2 = ec).
    { eapply nodup_fst_fun; [|exact Hec2|exact Hec]. rewrite sfc_ecs_ids. apply replicated_ents_nodup. exact Hwf. }
    subst ec2. congruence.
Qed.

(* ================= no interference between clients ================= *)

Theorem send_for_client_independent c s1 s2 this_run cl p :
  sv_tick s1 = sv_tick s2 -> sv_last_run s1 = sv_last_run s2 -> sv_elapsed s1 = sv_elapsed s2 ->
  sv_ents s1 = sv_ents s2 -> sv_despawn_buf s1 = sv_despawn_buf s2 -> sv_removal_buf s1 = sv_removal_buf s2 ->
  send_for_client c s1 this_run cl p = send_for_client c s2 this_run cl p.
Proof.
  intros H1 H2 H3 H4 H5 H6. unfold send_for_client, replicated_ents.
  rewrite H1, H2, H3, H4, H5, H6. reflexivity.
Qed.

Corollary send_for_client_other_clients c s cls this_run cl p :
  send_for_client c (set_clients s cls) this_run cl p = send_for_client c s this_run cl p.
Proof. apply send_for_client_independent; reflexivity. Qed.

(* ---------- send_replication maps the clients one by one ---------- *)


Lemma client_result_eq c s parts cl : client_result c s parts cl = Ok (client_result_pure c s parts cl).
Proof.
  unfold client_result, client_result_pure. destruct (sc_authorized cl); [|reflexivity].
  rewrite send_for_client_eq. cbn [bind]. destruct (sfc_pure c s (sv_now s) cl (part_for parts cl)). reflexivity.
Qed.

Lemma outs_of_app rs1 rs2 : outs_of (rs1 ++ rs2) = outs_of rs1 ++ outs_of rs2.
Proof. unfold outs_of. apply flat_map_app. Qed.

Theorem send_replication_eq c s parts :
  send_replication c s parts =
  Ok (set_after_send s (map fst (map (client_result_pure c s parts) (sv_clients s))) (sv_now s),
      outs_of (map (client_result_pure c s parts) (sv_clients s))).
Proof.
  unfold send_replication.
  erewrite (fold_left_res_ok _ (fun (acc : list sclient * list client_out) cl =>
             (fst acc ++ [fst (client_result_pure c s parts cl)],
              snd acc ++ outs_of [client_result_pure c s parts cl]))).
  - cbn [bind].
    assert (Hfold : forall l cls outs,
      fold_left (fun (acc : list sclient * list client_out) cl =>
             (fst acc ++ [fst (client_result_pure c s parts cl)],
              snd acc ++ outs_of [client_result_pure c s parts cl])) l (cls, outs)
      = (cls ++ map fst (map (client_result_pure c s parts) l), outs ++ outs_of (map (client_result_pure c s parts) l))).
    { induction l as [|cl l IH]; intros cls outs; cbn [fold_left map].
      - cbn. rewrite !app_nil_r. reflexivity.
      - rewrite IH. cbn [fst snd]. rewrite <- !app_assoc.
        change (client_result_pure c s parts cl :: map (client_result_pure c s parts) l)
          with ([client_result_pure c s parts cl] ++ map (client_result_pure c s parts) l).
        rewrite outs_of_app. reflexivity. }
    rewrite Hfold. reflexivity.
  - intros [cls outs] cl. cbn [bind fst snd]. unfold client_result_pure.
    destruct (sc_authorized cl); [|cbn; rewrite app_nil_r; reflexivity].
    fold (part_for parts cl). rewrite send_for_client_eq. cbn [bind].
    destruct (sfc_pure c s (sv_now s) cl (part_for parts cl)). reflexivity.
Qed.

Theorem send_replication_per_client c s parts s' outs :
  send_replication c s parts = Ok (s', outs) ->
  exists rs, Forall2 (fun cl r => client_result c s parts cl = Ok r) (sv_clients s) rs /\
             sv_clients s' = map fst rs /\ outs = outs_of rs.
Proof.
  rewrite send_replication_eq. intros H. injection H as <- <-.
  exists (map (client_result_pure c s parts) (sv_clients s)). split; [|split; reflexivity].
  induction (sv_clients s) as [|cl l IH]; cbn [map]; constructor; [apply client_result_eq|exact IH].
Qed.

(* ================= C07: only authorized clients are served ================= *)

Theorem send_replication_only_authorized c s parts s' outs :
  send_replication c s parts = Ok (s', outs) ->
  (forall o, In o outs -> exists cl, In cl (sv_clients s) /\ sc_slot cl = co_slot o /\ sc_authorized cl = true) /\
  Forall2 (fun cl cl' => sc_slot cl' = sc_slot cl /\ (sc_authorized cl = false -> cl' = cl) /\
                         (sc_authorized cl = true -> sc_authorized cl' = true))
          (sv_clients s) (sv_clients s').
Proof.
  rewrite send_replication_eq. intros H. injection H as <- <-. split.
  - intros o Ho. unfold outs_of in Ho. apply in_flat_map in Ho. destruct Ho as [r [Hr Ho]].
    apply in_map_iff in Hr. destruct Hr as [cl [<- Hcl]]. exists cl. split; [exact Hcl|].
    unfold client_result_pure in Ho. destruct (sc_authorized cl); [|destruct Ho].
    cbn [snd] in Ho. destruct Ho as [<- | []]. split; reflexivity.
  - cbn [set_after_send sv_clients]. induction (sv_clients s) as [|cl l IH]; cbn [map]; constructor; [|exact IH].
    unfold client_result_pure. destruct (sc_authorized cl); cbn [fst]; repeat split; try discriminate; auto.
Qed.

(* ---------- server_frame: authorization is never granted by a frame ---------- *)


Lemma auth_incl_refl s : auth_incl s s.
Proof. intros sl H. exact H. Qed.

Lemma auth_incl_trans s1 s2 s3 : auth_incl s1 s2 -> auth_incl s2 s3 -> auth_incl s1 s3.
Proof. intros H12 H23 sl H. apply H12, H23, H. Qed.

Lemma auth_incl_clients s s' : sv_clients s' = sv_clients s -> auth_incl s s'.
Proof. intros E sl H. unfold auth_sig in *. rewrite E in H. exact H. Qed.

Lemma sv_clients_buffer_despawn s e : sv_clients (buffer_despawn s e) = sv_clients s.
Proof. unfold buffer_despawn. destruct (sv_running s); reflexivity. Qed.

Lemma auth_incl_update_client s slot c0 cnew :
  find_client s slot = Some c0 -> sc_slot cnew = sc_slot c0 -> sc_authorized cnew = sc_authorized c0 ->
  auth_incl s (update_client s cnew).
Proof.
  intros Hf Hs Ha sl Hin. unfold find_client in Hf. apply find_some in Hf. destruct Hf as [Hc0 _].
  unfold auth_sig, update_client, set_clients in *. cbn [sv_clients] in Hin. rewrite map_map in Hin.
  apply in_map_iff in Hin. destruct Hin as [c' [Heq Hc']].
  destruct (sc_slot c' =? sc_slot cnew).
  - rewrite Hs, Ha in Heq. rewrite <- Heq. apply in_map_iff. exists c0. split; [reflexivity|exact Hc0].
  - rewrite <- Heq. apply in_map_iff. exists c'. split; [reflexivity|exact Hc'].
Qed.

Lemma apply_sop_auth s op : auth_incl s (apply_sop s op).
Proof.
  destruct op as [e marker comps|e|e k v|e k|e k v|e|e|slot e visible|slot e pc]; unfold apply_sop.
  - destruct (get_ent s e); [apply auth_incl_refl|apply auth_incl_clients; reflexivity].
  - destruct (get_ent s e) as [x|]; [|apply auth_incl_refl].
    destruct (se_alive x); [|apply auth_incl_refl].
    destruct (se_marker x); apply auth_incl_clients; [rewrite sv_clients_buffer_despawn|]; reflexivity.
  - destruct (get_ent s e) as [x|]; [|apply auth_incl_refl].
    destruct (se_alive x && val_ok s v); [|apply auth_incl_refl]. apply auth_incl_clients. reflexivity.
  - destruct (get_ent s e) as [x|]; [|apply auth_incl_refl].
    destruct (se_alive x); [|apply auth_incl_refl].
    destruct (al_get k (se_comps x)); [|apply auth_incl_refl]. apply auth_incl_clients. reflexivity.
  - destruct (get_ent s e) as [x|]; [|apply auth_incl_refl].
    destruct (se_alive x && val_ok s v); [|apply auth_incl_refl].
    destruct (al_get k (se_comps x)); [|apply auth_incl_refl]. apply auth_incl_clients. reflexivity.
  - destruct (get_ent s e) as [x|]; [|apply auth_incl_refl].
    destruct (se_alive x); [|apply auth_incl_refl].
    destruct (se_marker x); [apply auth_incl_refl|]. apply auth_incl_clients. reflexivity.
  - destruct (get_ent s e) as [x|]; [|apply auth_incl_refl].
    destruct (se_alive x); [|apply auth_incl_refl].
    destruct (se_marker x); [|apply auth_incl_refl]. apply auth_incl_clients.
    rewrite sv_clients_buffer_despawn. reflexivity.
  - destruct (find_client s slot) as [c0|] eqn:Ef; [|apply auth_incl_refl].
    destruct (get_ent s e); [|apply auth_incl_refl].
    destruct (sc_vis c0); [|apply auth_incl_refl].
    eapply auth_incl_update_client; [exact Ef|reflexivity|reflexivity].
  - destruct (find_client s slot) as [c0|] eqn:Ef; [|apply auth_incl_refl].
    destruct (get_ent s e); [|apply auth_incl_refl].
    destruct (sc_authorized c0 && existsb _ (sv_premap s)) eqn:Ec; [|apply auth_incl_refl].
    apply andb_prop in Ec. destruct Ec as [Hauth _].
    eapply auth_incl_update_client; [exact Ef|reflexivity|cbn; symmetry; exact Hauth].
Qed.

Lemma fold_apply_sop_auth ops : forall s, auth_incl s (fold_left apply_sop ops s).
Proof.
  induction ops as [|op ops IH]; intros s; cbn [fold_left]; [apply auth_incl_refl|].
  eapply auth_incl_trans; [apply apply_sop_auth|apply IH].
Qed.

Lemma auth_sig_map (f : sclient -> sclient) cls :
  (forall cl, (sc_slot (f cl), sc_authorized (f cl)) = (sc_slot cl, sc_authorized cl)) ->
  map (fun cl => (sc_slot cl, sc_authorized cl)) (map f cls) = map (fun cl => (sc_slot cl, sc_authorized cl)) cls.
Proof. intros H. rewrite map_map. apply map_ext. exact H. Qed.

Lemma receive_acks_auth s : auth_sig (receive_acks s) = auth_sig s.
Proof.
  unfold auth_sig, receive_acks. cbn [sv_clients].
  generalize (sv_clients s) as cls. induction (sv_inbox_acks s) as [|[slot idxs] msgs IH]; intros cls; cbn [fold_left]; [reflexivity|].
  rewrite IH. apply auth_sig_map. intros cl.
  destruct ((sc_slot cl =? slot) && sc_authorized cl) eqn:E; [|reflexivity].
  apply andb_prop in E. destruct E as [_ ->]. reflexivity.
Qed.

Lemma cleanup_acks_auth c s : auth_sig (cleanup_acks c s) = auth_sig s.
Proof. unfold auth_sig, cleanup_acks, set_clients. cbn [sv_clients]. apply auth_sig_map. reflexivity. Qed.

Theorem server_frame_only_authorized c s tick dt cleanup ops parts s' fo :
  server_frame c s tick dt cleanup ops parts = Ok (s', fo) ->
  forall o, In o (fo_clients fo) ->
    exists cl, In cl (sv_clients s) /\ sc_slot cl = co_slot o /\ sc_authorized cl = true.
Proof.
  unfold server_frame. intros H o Ho.
  set (s1 := with_time_tick s tick dt) in *.
  set (s2 := if sv_running s1 then (let r := receive_acks s1 in if cleanup then cleanup_acks c r else r) else s1) in *.
  set (s3 := fold_left apply_sop ops s2) in *.
  assert (H12 : auth_sig s2 = auth_sig s).
  { unfold s2. destruct (sv_running s1); [|reflexivity]. cbv zeta.
    destruct cleanup; [rewrite cleanup_acks_auth|]; rewrite receive_acks_auth; reflexivity. }
  assert (H3 : auth_incl s (buffer_removals s3)).
  { intros sl Hin. unfold auth_incl in *. change (auth_sig (buffer_removals s3)) with (auth_sig s3) in Hin.
    rewrite <- H12. exact (fold_apply_sop_auth ops s2 sl Hin). }
  destruct (sv_running s3).
  - destruct (sv_dirty (buffer_removals s3)).
    + destruct (send_replication c (buffer_removals s3) parts) as [[s4 outs]| |] eqn:Esr; cbn [bind] in H; try discriminate.
      injection H as <- <-. cbn [fo_clients] in Ho.
      destruct (send_replication_only_authorized _ _ _ _ _ Esr) as [Hauth _].
      destruct (Hauth o Ho) as [cl [Hcl [Hslot Ha]]].
      assert (Hin : In (co_slot o, true) (auth_sig (buffer_removals s3))).
      { unfold auth_sig. apply in_map_iff. exists cl. split; [congruence|exact Hcl]. }
      apply H3 in Hin. unfold auth_sig in Hin. apply in_map_iff in Hin. destruct Hin as [cl0 [Heq Hcl0]].
      injection Heq as E1 E2. exists cl0. auto.
    + cbn [bind] in H. injection H as <- <-. destruct Ho.
  - cbn [bind] in H. injection H as <- <-. destruct Ho.
Qed.

(* with unique slots: the slot of an unauthorized client never occurs in the output of a frame *)
Corollary server_frame_unauthorized_silent c s tick dt cleanup ops parts s' fo cl :
  NoDup (map sc_slot (sv_clients s)) -> In cl (sv_clients s) -> sc_authorized cl = false ->
  server_frame c s tick dt cleanup ops parts = Ok (s', fo) ->
  forall o, In o (fo_clients fo) -> co_slot o <> sc_slot cl.
Proof.
  intros Hnd Hcl Hna H o Ho Heq.
  destruct (server_frame_only_authorized _ _ _ _ _ _ _ _ _ H o Ho) as [cl0 [Hcl0 [Hslot Ha]]].
  assert (Hsig : NoDup (map fst (auth_sig s))).
  { unfold auth_sig. rewrite map_map. cbn [fst]. exact Hnd. }
  assert (true = false); [|discriminate].
  eapply (nodup_fst_fun (auth_sig s) (sc_slot cl)); [exact Hsig| |].
  - unfold auth_sig. apply in_map_iff. exists cl0. split; [congruence|exact Hcl0].
  - unfold auth_sig. apply in_map_iff. exists cl. split; [congruence|exact Hcl].
Qed.

(* ================= C07: connection and authorization ================= *)

Lemma find_app_none {A} (f : A -> bool) l x : find f l = None -> find f (l ++ [x]) = if f x then Some x else None.
Proof.
  induction l as [|y l IH]; cbn [find app]; [reflexivity|]. destruct (f y); [discriminate|exact IH].
Qed.

Lemma find_update_client s slot cl cnew :
  find_client s slot = Some cl -> sc_slot cnew = slot -> find_client (update_client s cnew) slot = Some cnew.
Proof.
  unfold find_client, update_client, set_clients. cbn [sv_clients]. intros Hf Hs. subst slot.
  induction (sv_clients s) as [|y l IH]; cbn [find map] in *; [discriminate|].
  destruct (sc_slot y =? sc_slot cnew) eqn:E.
  - rewrite N.eqb_refl. reflexivity.
  - rewrite E. apply IH. exact Hf.
Qed.

Theorem connect_unauthorized_under_custom c s slot max :
  cfg_auth c <> AuthNone -> sv_running s = true -> find_client s slot = None ->
  let s1 := connect_client c s slot max in
  sv_clients s1 = sv_clients s ++ [mkSC slot false max ct_default None []] /\
  find_client s1 slot = Some (mkSC slot false max ct_default None []) /\
  sv_clients (authorize_client c s1 slot) =
    map (fun cl => if sc_slot cl =? slot then authorized_client c slot max else cl) (sv_clients s1) /\
  find_client (authorize_client c s1 slot) slot = Some (authorized_client c slot max).
Proof.
  intros Hauth Hrun Hf. cbv zeta.
  assert (Hs1 : connect_client c s slot max = set_clients s (sv_clients s ++ [mkSC slot false max ct_default None []])).
  { unfold connect_client. rewrite Hrun, Hf. destruct (cfg_auth c); [congruence|reflexivity|reflexivity]. }
  rewrite Hs1.
  assert (Hf1 : find_client (set_clients s (sv_clients s ++ [mkSC slot false max ct_default None []])) slot
                = Some (mkSC slot false max ct_default None [])).
  { unfold find_client in *. cbn [set_clients sv_clients]. rewrite find_app_none by exact Hf.
    cbn [sc_slot]. rewrite N.eqb_refl. reflexivity. }
  split; [reflexivity|]. split; [exact Hf1|].
  unfold authorize_client. rewrite Hf1. cbn [sc_authorized sc_max_size]. split.
  - reflexivity.
  - eapply find_update_client; [exact Hf1|reflexivity].
Qed.

(* without an authorization step (AuthNone) a client is authorized on connection *)
Lemma connect_authorized_without_auth c s slot max :
  cfg_auth c = AuthNone -> sv_running s = true -> find_client s slot = None ->
  sv_clients (connect_client c s slot max) = sv_clients s ++ [authorized_client c slot max].
Proof. intros Ha Hrun Hf. unfold connect_client. rewrite Hrun, Hf, Ha. reflexivity. Qed.

(* ================= the key-uniqueness invariant is preserved ================= *)

Lemma set_ent_wf s e x : ents_wf s -> ents_wf (set_ent s e x).
Proof. unfold ents_wf, set_ent. cbn [sv_ents]. apply (al_insert_nodup e x (sv_ents s)). Qed.

Lemma ents_wf_same s s' : sv_ents s' = sv_ents s -> ents_wf s -> ents_wf s'.
Proof. unfold ents_wf. intros ->. auto. Qed.

Lemma sv_ents_buffer_despawn s e : sv_ents (buffer_despawn s e) = sv_ents s.
Proof. unfold buffer_despawn. destruct (sv_running s); reflexivity. Qed.

Lemma apply_sop_wf s op : ents_wf s -> ents_wf (apply_sop s op).
Proof.
  intros Hwf.
  destruct op as [e marker comps|e|e k v|e k|e k v|e|e|slot e visible|slot e pc]; unfold apply_sop.
  - destruct (get_ent s e); [exact Hwf|apply set_ent_wf; exact Hwf].
  - destruct (get_ent s e) as [x|]; [|exact Hwf]. destruct (se_alive x); [|exact Hwf].
    destruct (se_marker x); [eapply ents_wf_same; [apply sv_ents_buffer_despawn|]|]; apply set_ent_wf; exact Hwf.
  - destruct (get_ent s e) as [x|]; [|exact Hwf]. destruct (se_alive x && val_ok s v); [|exact Hwf].
    apply set_ent_wf; exact Hwf.
  - destruct (get_ent s e) as [x|]; [|exact Hwf]. destruct (se_alive x); [|exact Hwf].
    destruct (al_get k (se_comps x)); [|exact Hwf].
    eapply ents_wf_same; [|apply (set_ent_wf s e); exact Hwf]. reflexivity.
  - destruct (get_ent s e) as [x|]; [|exact Hwf]. destruct (se_alive x && val_ok s v); [|exact Hwf].
    destruct (al_get k (se_comps x)); [|exact Hwf]. apply set_ent_wf; exact Hwf.
  - destruct (get_ent s e) as [x|]; [|exact Hwf]. destruct (se_alive x); [|exact Hwf].
    destruct (se_marker x); [exact Hwf|]. apply set_ent_wf; exact Hwf.
  - destruct (get_ent s e) as [x|]; [|exact Hwf]. destruct (se_alive x); [|exact Hwf].
    destruct (se_marker x); [|exact Hwf].
    eapply ents_wf_same; [apply sv_ents_buffer_despawn|]. apply set_ent_wf; exact Hwf.
  - destruct (find_client s slot) as [c0|]; [|exact Hwf]. destruct (get_ent s e); [|exact Hwf].
    destruct (sc_vis c0); exact Hwf.
  - destruct (find_client s slot) as [c0|]; [|exact Hwf]. destruct (get_ent s e); [|exact Hwf].
    destruct (sc_authorized c0 && existsb _ (sv_premap s)); exact Hwf.
Qed.

Lemma server_init_wf : ents_wf server_init.
Proof. constructor. Qed.

Theorem server_frame_wf c s tick dt cleanup ops parts s' fo :
  ents_wf s -> server_frame c s tick dt cleanup ops parts = Ok (s', fo) -> ents_wf s'.
Proof.
  intros Hwf. unfold server_frame.
  set (s1 := with_time_tick s tick dt).
  set (s2 := if sv_running s1 then (let r := receive_acks s1 in if cleanup then cleanup_acks c r else r) else s1).
  assert (H2 : ents_wf s2).
  { unfold s2. destruct (sv_running s1); [|exact Hwf]. destruct cleanup; exact Hwf. }
  assert (H3 : ents_wf (fold_left apply_sop ops s2)).
  { generalize s2 H2. induction ops as [|op ops IH]; intros s0 H0; cbn [fold_left]; [exact H0|].
    apply IH. apply apply_sop_wf. exact H0. }
  set (s3 := fold_left apply_sop ops s2) in *.
  destruct (sv_running s3).
  - destruct (sv_dirty (buffer_removals s3)).
    + rewrite send_replication_eq. cbn [bind]. intros H. injection H as <- _. exact H3.
    + cbn [bind]. intros H. injection H as <- _. exact H3.
  - cbn [bind]. intros H. injection H as <- _. destruct (sv_last_running s3); exact H3.
Qed.

(* ================= C10 Layer 1, whatever the oracle ================= *)

(* a body entry is always the entity's whole mutated list: mutations are never split *)
Theorem mutations_never_split c s this_run cl p cl' out m e vals :
  send_for_client c s this_run cl p = Ok (cl', out) -> In m (co_mutates out) -> In (e, vals) (m_body m) ->
  In (e, vals) (mutated_set s this_run cl).
Proof. intros H Hm He. exact (proj1 (sfc_body_entry _ _ _ _ _ _ _ _ _ _ H Hm He)). Qed.

(* a rejected oracle is replaced by the single-message partition *)
Theorem bad_partition_fallback c s this_run cl p cl' out :
  send_for_client c s this_run cl p = Ok (cl', out) -> co_bad_partition out = true ->
  let muts := mutated_set s this_run cl in
  let upd_tick := match co_update out with Some _ => sv_tick s | None => ct_update_tick (sc_ticks cl) end in
  co_mutates out =
    match muts with
    | [] => if cfg_track c then [mkMut upd_tick (sv_tick s) 1 (ct_mutate_index (sc_ticks cl)) []] else []
    | _ => [mkMut upd_tick (sv_tick s) 1 (ct_mutate_index (sc_ticks cl)) (mut_body muts (map fst muts))]
    end /\
  (NoDup (map fst muts) -> mut_body muts (map fst muts) = muts).
Proof.
  intros H Hbad. cbv zeta. split; [|apply map_body_keys].
  apply sfc_result in H. destruct H as [_ ->]. cbn [co_bad_partition co_mutates co_update] in *.
  destruct (sfc_ticks3_fields s this_run cl) as [_ [_ [_ Hu]]]. rewrite Hu.
  unfold sfc_parts. rewrite Hbad.
  destruct (mutated_set s this_run cl) as [|m0 ms].
  - destruct (cfg_track c); [|reflexivity]. destruct (sfc_has_upd s this_run cl); reflexivity.
  - destruct (cfg_track c); destruct (sfc_has_upd s this_run cl); reflexivity.
Qed.

(* with unique entity keys no entity is listed twice, neither in the changes nor in the mutated set *)
Lemma entries_of_keys_incl ecs e : In e (map fst (entries_of ecs)) -> In e (map fst ecs).
Proof.
  intros H. apply in_map_iff in H. destruct H as [[e' en] [<- Hin]]. apply In_entries_of in Hin.
  destruct Hin as [ec [Hin _]]. apply (in_map fst) in Hin. exact Hin.
Qed.

Lemma muts_of_keys_incl ecs e : In e (map fst (muts_of ecs)) -> In e (map fst ecs).
Proof.
  intros H. apply in_map_iff in H. destruct H as [[e' m] [<- Hin]]. apply In_muts_of in Hin.
  destruct Hin as [ec [Hin _]]. apply (in_map fst) in Hin. exact Hin.
Qed.

Lemma entries_muts_nodup ecs : NoDup (map fst ecs) -> NoDup (map fst (entries_of ecs)) /\ NoDup (map fst (muts_of ecs)).
Proof.
  induction ecs as [|[e ec] ecs IH]; cbn [map fst]; intros Hnd; [split; constructor|].
  inversion Hnd as [|? ? Hni Hnd']; subst. destruct (IH Hnd') as [IH1 IH2].
  unfold entries_of, muts_of in *. cbn [flat_map fst snd]. split.
  - destruct (ec_entry ec); cbn [app map fst]; [|exact IH1]. constructor; [|exact IH1].
    intros Hin. apply Hni. apply entries_of_keys_incl. exact Hin.
  - destruct (ec_muts ec); cbn [app map fst]; [exact IH2|]. constructor; [|exact IH2].
    intros Hin. apply Hni. apply muts_of_keys_incl. exact Hin.
Qed.

Theorem changed_mutated_nodup s this_run cl : ents_wf s ->
  NoDup (map fst (changed_set s this_run cl)) /\ NoDup (map fst (mutated_set s this_run cl)).
Proof.
  intros Hwf. rewrite changed_set_eq, mutated_set_eq. apply entries_muts_nodup.
  rewrite sfc_ecs_ids. apply replicated_ents_nodup. exact Hwf.
Qed.
