(* C02H: the normal form of a client ([ncl], Repl/ValMapsSpec.v) commutes with everything the client does with update
   messages (after their mappings) and mutate messages: none of it reads `ce_pre` or `ce_marker`.  The mappings themselves
   are, on the normal form, the reservation of placeholders (section 4).  Section 5: the client invariant [cs_inv] of the
   normal form, from the real one and "an entity without a confirm history has no components" ([nb], an invariant of every
   run, section 6). *)
From RV Require Import Lib.Res Repl.ClientTicks Repl.ClientTicks_proofs Repl.World Repl.Client
  Vis.Visibility Tick.RepliconTick Tick.RepliconTick_proofs Tick.ConfirmHistory Tick.MutateTicks
  Repl.Server Repl.StructSpec Repl.Struct_proofs Repl.Sys Repl.Client_proofs Repl.ClientEnt_proofs Repl.ClientMut_proofs Repl.ClientSys_proofs
  Repl.ClientStructSpec Repl.ClientStruct_proofs Repl.StructE2E_proofs Repl.ValSpec Repl.ValClient_proofs Repl.ValMapsSpec.
From Coq Require Import ZifyBool ZifyN.
Open Scope N_scope.
Ltac Zify.zify_post_hook ::= Z.div_mod_to_equations.
Arguments N.add : simpl never. Arguments N.mul : simpl never. Arguments N.pow : simpl never.
Arguments N.ltb : simpl never. Arguments N.leb : simpl never. Arguments N.div : simpl never.
Arguments N.modulo : simpl never. Arguments N.sub : simpl never. Arguments N.eqb : simpl never.

(* ================================================================== *)
(* 1. entities                                                        *)
(* ================================================================== *)

Lemma al_get_nents l cid : al_get cid (nents l) = option_map nent (al_get cid l).
Proof.
  induction l as [|[k x] t IH]; cbn [nents map al_get fst snd option_map]; [reflexivity|].
  destruct (k =? cid); [reflexivity|exact IH].
Qed.

Lemma al_insert_nents l cid x : al_insert cid (nent x) (nents l) = nents (al_insert cid x l).
Proof.
  induction l as [|[k y] t IH]; cbn [nents map al_insert fst snd]; [reflexivity|].
  destruct (k =? cid); cbn [nents map fst snd]; [reflexivity|]. f_equal. exact IH.
Qed.

Lemma nents_app l1 l2 : nents (l1 ++ l2) = nents l1 ++ nents l2.
Proof. apply map_app. Qed.

Lemma nents_keys l : al_keys (nents l) = al_keys l.
Proof. unfold al_keys, nents. rewrite map_map. reflexivity. Qed.

Lemma get_cent_ncl c cid : get_cent (ncl c) cid = option_map nent (get_cent c cid).
Proof. apply al_get_nents. Qed.

Lemma set_cent_ncl c cid x : set_cent (ncl c) cid (nent x) = ncl (set_cent c cid x).
Proof. unfold set_cent, ncl. cbn [cl_status cl_last_connected cl_last_not_disconnected cl_upd_tick cl_s2c cl_c2s cl_ents cl_next cl_buffered cl_mticks cl_inbox_upd cl_inbox_mut]. rewrite al_insert_nents. reflexivity. Qed.

Lemma alive_ncl c cid : alive (ncl c) cid = alive c cid.
Proof. unfold alive. rewrite get_cent_ncl. destruct (get_cent c cid); reflexivity. Qed.

Lemma nent_blank m : nent (mkCEnt true None m None []) = mkCEnt true None m None [].
Proof. destruct m; reflexivity. Qed.

Lemma spawn_cent_ncl c m : spawn_cent (ncl c) None m = (ncl (fst (spawn_cent c None m)), snd (spawn_cent c None m)).
Proof.
  unfold spawn_cent, ncl. cbn [fst snd cl_status cl_last_connected cl_last_not_disconnected cl_upd_tick cl_s2c cl_c2s cl_ents cl_next cl_buffered cl_mticks cl_inbox_upd cl_inbox_mut].
  rewrite nents_app. cbn [nents map fst snd]. rewrite nent_blank. reflexivity.
Qed.

Lemma emap_remove_server_ncl c e :
  emap_remove_server (ncl c) e = (ncl (fst (emap_remove_server c e)), snd (emap_remove_server c e)).
Proof. unfold emap_remove_server. cbn [ncl cl_s2c]. destruct (al_get e (cl_s2c c)); reflexivity. Qed.

Lemma apply_despawn_ncl c e : apply_despawn (ncl c) e = ncl (apply_despawn c e).
Proof.
  unfold apply_despawn. rewrite emap_remove_server_ncl. destruct (emap_remove_server c e) as [c1 r]. cbn [fst snd].
  destruct r as [cid|]; [|reflexivity]. rewrite get_cent_ncl. destruct (get_cent c1 cid) as [x|]; cbn [option_map]; [|reflexivity].
  cbn [nent ce_alive ce_pre]. destruct (ce_alive x); [|reflexivity]. rewrite <- set_cent_ncl. reflexivity.
Qed.

Lemma despawns_ncl ds : forall c, fold_left apply_despawn ds (ncl c) = ncl (fold_left apply_despawn ds c).
Proof. induction ds as [|d t IH]; intros c; cbn [fold_left]; [reflexivity|]. rewrite apply_despawn_ncl. apply IH. Qed.

Lemma confirm_tick_nent x t : confirm_tick (with_marker (nent x)) t = map_res nent (confirm_tick (with_marker x) t).
Proof.
  unfold confirm_tick, with_marker. cbn [nent ce_alive ce_pre ce_marker ce_hist ce_comps].
  destruct (ce_hist x) as [h|]; [|reflexivity]. destruct (hist_set_last_tick h t); reflexivity.
Qed.

Lemma entry_entity_ncl c e :
  entry_entity (ncl c) e = option_map (fun p => (ncl (fst p), snd p)) (entry_entity c e).
Proof.
  unfold entry_entity. cbn [ncl cl_s2c]. fold (ncl c). destruct (al_get e (cl_s2c c)) as [cid|].
  - rewrite alive_ncl. destruct (alive c cid); reflexivity.
  - rewrite spawn_cent_ncl. destruct (spawn_cent c None true) as [c1 cid]. reflexivity.
Qed.

Lemma apply_removals_ncl c t e ks : apply_removals (ncl c) t e ks = map_res nstep (apply_removals c t e ks).
Proof.
  unfold apply_removals. rewrite entry_entity_ncl. destruct (entry_entity c e) as [[c1 cid]|]; cbn [option_map fst snd]; [|reflexivity].
  rewrite get_cent_ncl. destruct (get_cent c1 cid) as [x|]; cbn [option_map]; [|reflexivity].
  rewrite confirm_tick_nent. destruct (confirm_tick (with_marker x) t) as [x1| |]; cbn [map_res bind]; try reflexivity.
  cbn [nstep]. rewrite <- set_cent_ncl. reflexivity.
Qed.

Lemma map_value_ncl c v : map_value (ncl c) v = (ncl (fst (map_value c v)), snd (map_value c v)).
Proof.
  destruct v as [n|t]; cbn [map_value]; [reflexivity|]. cbn [ncl cl_s2c]. fold (ncl c).
  destruct (al_get t (cl_s2c c)); [reflexivity|]. rewrite spawn_cent_ncl. destruct (spawn_cent c None false) as [c1 cid]. reflexivity.
Qed.

Lemma write_comps_ncl comps : forall c cid, write_comps (ncl c) cid comps = ncl (write_comps c cid comps).
Proof.
  unfold write_comps. induction comps as [|kv t IH]; intros c cid; cbn [fold_left]; [reflexivity|].
  rewrite (map_value_ncl c (snd kv)). destruct (map_value c (snd kv)) as [c1 cv]. cbn [fst snd].
  rewrite get_cent_ncl. destruct (get_cent c1 cid) as [x|]; cbn [option_map]; [|apply IH].
  rewrite <- IH. f_equal. rewrite <- set_cent_ncl. reflexivity.
Qed.

Lemma apply_changes_ncl c t e comps : apply_changes (ncl c) t e comps = map_res nstep (apply_changes c t e comps).
Proof.
  unfold apply_changes. rewrite entry_entity_ncl. destruct (entry_entity c e) as [[c1 cid]|]; cbn [option_map fst snd]; [|reflexivity].
  rewrite get_cent_ncl. destruct (get_cent c1 cid) as [x|]; cbn [option_map]; [|reflexivity].
  rewrite confirm_tick_nent. destruct (confirm_tick (with_marker x) t) as [x1| |]; cbn [map_res bind]; try reflexivity.
  cbn [nstep]. rewrite set_cent_ncl, write_comps_ncl. reflexivity.
Qed.

Lemma run_array_ncl {A : Type} (f : client -> A -> res step_result) :
  (forall c a, f (ncl c) a = map_res nstep (f c a)) ->
  forall l c, run_array f l (ncl c) = map_res nstep (run_array f l c).
Proof.
  intros Hf. induction l as [|a t IH]; intros c; [reflexivity|]. rewrite !run_array_cons, Hf.
  destruct (f c a) as [[c1|c1]| |]; cbn [map_res nstep]; [apply IH|reflexivity|reflexivity|reflexivity].
Qed.

(* ================================================================== *)
(* 2. update messages                                                 *)
(* ================================================================== *)

Lemma apply_update_message_ncl c u : u_maps u = [] ->
  apply_update_message (ncl c) u = map_res ncl (apply_update_message c u).
Proof.
  intros Hm. unfold apply_update_message. rewrite Hm. cbn [fold_left].
  change (set_upd_tick (ncl c) (u_tick u)) with (ncl (set_upd_tick c (u_tick u))).
  rewrite despawns_ncl.
  rewrite (run_array_ncl (fun c0 r => apply_removals c0 (u_tick u) (fst r) (snd r)))
    by (intros c0 a; apply apply_removals_ncl).
  destruct (run_array (fun c0 r => apply_removals c0 (u_tick u) (fst r) (snd r)) (u_removals u)
              (fold_left apply_despawn (u_despawns u) (set_upd_tick c (u_tick u)))) as [[c3|c3]| |]; cbn [map_res nstep bind]; try reflexivity.
  rewrite (run_array_ncl (fun c0 ch => apply_changes c0 (u_tick u) (fst ch) (snd ch)))
    by (intros c0 a; apply apply_changes_ncl).
  destruct (run_array (fun c0 ch => apply_changes c0 (u_tick u) (fst ch) (snd ch)) (u_changes u) c3) as [[c4|c4]| |]; reflexivity.
Qed.

(* the removals and changes of a message, applied to the state after its despawn records and mappings *)
Definition upd_rest (u : update_msg) (c2 : client) : res client :=
  let* r3 := run_array (fun c r => apply_removals c (u_tick u) (fst r) (snd r)) (u_removals u) c2 in
  match r3 with
  | Abort c3 => Ok c3
  | Continue c3 =>
    let* r4 := run_array (fun c ch => apply_changes c (u_tick u) (fst ch) (snd ch)) (u_changes u) c3 in
    match r4 with Abort c4 => Ok c4 | Continue c4 => Ok c4 end
  end.

Lemma apply_update_message_rest c u : apply_update_message c u = upd_rest u (update_pre c u).
Proof. reflexivity. Qed.

Lemma upd_rest_ncl u c2 : upd_rest u (ncl c2) = map_res ncl (upd_rest u c2).
Proof.
  unfold upd_rest.
  rewrite (run_array_ncl (fun c0 r => apply_removals c0 (u_tick u) (fst r) (snd r))) by (intros c0 a; apply apply_removals_ncl).
  destruct (run_array (fun c0 r => apply_removals c0 (u_tick u) (fst r) (snd r)) (u_removals u) c2) as [[c3|c3]| |]; cbn [map_res nstep bind]; try reflexivity.
  rewrite (run_array_ncl (fun c0 ch => apply_changes c0 (u_tick u) (fst ch) (snd ch))) by (intros c0 a; apply apply_changes_ncl).
  destruct (run_array (fun c0 ch => apply_changes c0 (u_tick u) (fst ch) (snd ch)) (u_changes u) c3) as [[c4|c4]| |]; reflexivity.
Qed.

Definition apply_maps (maps : list (N * N)) (c : client) : client :=
  fold_left (fun c m => apply_entity_mapping c (fst m) (snd m)) maps c.

Lemma update_pre_maps c u : update_pre c u = apply_maps (u_maps u) (maps_pre c u).
Proof. reflexivity. Qed.

(* the state the mappings are applied to *)
Lemma maps_pre_ncl c u : maps_pre (ncl c) (strip u) = ncl (maps_pre c u).
Proof. unfold maps_pre. cbn [strip u_tick u_despawns]. change (set_upd_tick (ncl c) (u_tick u)) with (ncl (set_upd_tick c (u_tick u))). apply despawns_ncl. Qed.

(* ================================================================== *)
(* 3. mutate messages                                                 *)
(* ================================================================== *)

Lemma apply_mutations_ncl c t e comps : apply_mutations (ncl c) t e comps = map_res nstep (apply_mutations c t e comps).
Proof.
  unfold apply_mutations. cbn [ncl cl_s2c]. fold (ncl c). destruct (al_get e (cl_s2c c)) as [cid|]; [|reflexivity].
  rewrite get_cent_ncl. destruct (get_cent c cid) as [x|]; cbn [option_map]; [|reflexivity].
  cbn [nent ce_alive ce_pre ce_marker ce_hist ce_comps]. destruct (ce_alive x); cbn [negb]; [|reflexivity].
  destruct (ce_hist x) as [h|] eqn:Eh; [|reflexivity]. destruct (tick_gtb t (h_last h)); [|reflexivity].
  destruct (hist_set_last_tick h t) as [h'| |]; cbn [map_res bind]; try reflexivity.
  cbn [nstep]. rewrite <- write_comps_ncl, <- set_cent_ncl. reflexivity.
Qed.

Definition nmm (st : mm_state) : mm_state :=
  let '(c, kept, acks, evs) := st in (ncl c, kept, acks, evs).

Lemma mm_step_ncl upd c kept acks evs m :
  mm_step upd (ncl c, kept, acks, evs) m = map_res nmm (mm_step upd (c, kept, acks, evs) m).
Proof.
  cbn [mm_step]. destruct (tick_gtb (m_upd_tick m) upd); [reflexivity|].
  rewrite (run_array_ncl (fun c0 b => apply_mutations c0 (m_tick m) (fst b) (snd b))) by (intros c0 a; apply apply_mutations_ncl).
  destruct (run_array (fun c0 b => apply_mutations c0 (m_tick m) (fst b) (snd b)) (m_body m) c) as [r| |]; cbn [map_res bind]; try reflexivity.
  assert (E : match nstep r with Continue c1 => c1 | Abort c1 => c1 end = ncl (match r with Continue c1 => c1 | Abort c1 => c1 end))
    by (destruct r; reflexivity).
  rewrite E. set (c1 := match r with Continue c1 => c1 | Abort c1 => c1 end). cbn [ncl cl_mticks]. fold (ncl c1).
  destruct (cl_mticks c1) as [mtk|]; [|reflexivity].
  destruct (mt_confirm mtk (m_tick m) (m_count m)) as [[mtk' done]| |]; reflexivity.
Qed.

Lemma mm_fold_ncl upd l : forall c kept acks evs,
  fold_left (res_step (mm_step upd)) l (Ok (ncl c, kept, acks, evs)) =
  map_res nmm (fold_left (res_step (mm_step upd)) l (Ok (c, kept, acks, evs))).
Proof.
  induction l as [|m t IH]; intros c kept acks evs; cbn [fold_left]; [reflexivity|].
  unfold res_step at 2 4. cbn [bind]. rewrite mm_step_ncl.
  destruct (mm_step upd (c, kept, acks, evs) m) as [[[[c1 k1] a1] e1]| |]; cbn [map_res nmm].
  - apply IH.
  - rewrite !fold_res_err. reflexivity.
  - rewrite !fold_res_panic. reflexivity.
Qed.

Theorem apply_mutate_messages_ncl c :
  apply_mutate_messages (ncl c) = map_res (fun p => (ncl (fst p), snd p)) (apply_mutate_messages c).
Proof.
  rewrite !apply_mutate_messages_eq. cbn [ncl cl_upd_tick cl_buffered]. fold (ncl c). rewrite mm_fold_ncl.
  destruct (fold_left (res_step (mm_step (cl_upd_tick c))) (cl_buffered c) (Ok (c, [], [], []))) as [[[[c1 k1] a1] e1]| |]; reflexivity.
Qed.

(* ================================================================== *)
(* 4. an entity without a confirm history has no components            *)
(* ================================================================== *)

Definition nb (c : client) : Prop := forall cid x, In (cid, x) (cl_ents c) -> ce_hist x = None -> ce_comps x = [].

Definition nbR (c c' : client) : Prop := nb c -> nb c'.

Lemma nbR_refl c : nbR c c.
Proof. exact (fun H => H). Qed.
Lemma nbR_trans a b c : nbR a b -> nbR b c -> nbR a c.
Proof. unfold nbR. auto. Qed.

Lemma nb_ext c c' : cl_ents c' = cl_ents c -> nb c -> nb c'.
Proof. intros E H cid x. rewrite E. apply H. Qed.

Lemma nb_get c cid x : nb c -> get_cent c cid = Some x -> ce_hist x = None -> ce_comps x = [].
Proof. intros H Hx. apply (H cid x). apply al_get_in. exact Hx. Qed.

Lemma nb_set_cent c cid x : nb c -> (ce_hist x = None -> ce_comps x = []) -> nb (set_cent c cid x).
Proof.
  intros H Hx k y Hk. cbn [set_cent cl_ents] in Hk. apply al_insert_in in Hk. destruct Hk as [Hk|Hk]; [inversion Hk; subst; exact Hx|exact (H k y Hk)].
Qed.

Lemma nb_spawn c p m : nb c -> nb (fst (spawn_cent c p m)).
Proof.
  intros H k y Hk. cbn [spawn_cent fst cl_ents] in Hk. apply in_app_or in Hk.
  destruct Hk as [Hk|[Hk|[]]]; [exact (H k y Hk)|inversion Hk; reflexivity].
Qed.

Lemma nb_despawn c e : nb c -> nb (apply_despawn c e).
Proof.
  intros H. unfold apply_despawn, emap_remove_server. destruct (al_get e (cl_s2c c)) as [cid|]; [|exact H].
  cbv beta iota. rewrite get_cent_set_maps.
  assert (G : nb (set_maps c (al_remove e (cl_s2c c)) (al_remove cid (cl_c2s c)))) by (revert H; apply nb_ext; reflexivity).
  destruct (get_cent c cid) as [x|]; [|exact G]. destruct (ce_alive x); [|exact G]. apply nb_set_cent; [exact G|reflexivity].
Qed.

Lemma nb_mapping c e pc : nb c -> nb (apply_entity_mapping c e pc).
Proof.
  intros H. destruct (mapping_cases c e pc) as [[-> _]|(cid & x & Hin & _ & _ & _ & ->)]; [exact H|].
  unfold emap_insert. apply (nb_ext (set_cent c cid (mkCEnt true (ce_pre x) true (ce_hist x) (ce_comps x)))); [reflexivity|].
  apply nb_set_cent; [exact H|]. cbn [ce_hist ce_comps]. exact (H cid x Hin).
Qed.

Lemma nb_entry c e c1 cid : nb c -> entry_entity c e = Some (c1, cid) -> nb c1.
Proof.
  intros H. unfold entry_entity. destruct (al_get e (cl_s2c c)) as [cid0|].
  - destruct (alive c cid0); [|discriminate]. intros E; inversion E; subst. exact H.
  - intros E. inversion E; subst. apply (nb_ext (fst (spawn_cent c None true))); [reflexivity|]. apply nb_spawn. exact H.
Qed.

Lemma nb_removals c T e ks r : nb c -> apply_removals c T e ks = Ok r -> nb (sr_client r).
Proof.
  intros H. unfold apply_removals. destruct (entry_entity c e) as [[c1 cid]|] eqn:E; [|intros E0; inversion E0; exact H].
  pose proof (nb_entry c e c1 cid H E) as H1. destruct (get_cent c1 cid) as [x|]; [|intros E0; inversion E0; exact H1].
  intros E0. apply bind_ok in E0. destruct E0 as [x1 [Ec E0]]. inversion E0; subst r. cbn [sr_client].
  apply nb_set_cent; [exact H1|]. cbn [ce_hist]. intros Hh. exfalso.
  unfold confirm_tick in Ec. destruct (ce_hist (with_marker x)) as [h|].
  - apply bind_ok in Ec. destruct Ec as [h' [_ Ec]]. inversion Ec; subst x1. discriminate.
  - inversion Ec; subst x1. discriminate.
Qed.

(* the entity being written has a confirm history *)
Definition has_hist (c : client) (cid : N) : Prop := exists x, get_cent c cid = Some x /\ ce_hist x <> None.

Lemma has_hist_map_value c v cid : has_hist c cid -> has_hist (fst (map_value c v)) cid.
Proof.
  intros (x & Hx & Hh). destruct v as [n|t]; cbn [map_value fst]; [exists x; auto|].
  destruct (al_get t (cl_s2c c)); cbn [fst]; [exists x; auto|]. exists x. split; [|exact Hh].
  unfold get_cent in *. cbn [spawn_cent emap_vacant_insert set_maps cl_ents fst]. apply al_get_app_some. exact Hx.
Qed.

Lemma nb_map_value c v : nb c -> nb (fst (map_value c v)).
Proof.
  intros H. destruct v as [n|t]; cbn [map_value fst]; [exact H|]. destruct (al_get t (cl_s2c c)); cbn [fst]; [exact H|].
  apply (nb_ext (fst (spawn_cent c None false))); [reflexivity|]. apply nb_spawn. exact H.
Qed.

Lemma nb_write_comps comps : forall c cid, nb c -> has_hist c cid -> nb (write_comps c cid comps).
Proof.
  unfold write_comps. induction comps as [|kv t IH]; intros c cid H Hh; cbn [fold_left]; [exact H|].
  pose proof (nb_map_value c (snd kv) H) as H1. pose proof (has_hist_map_value c (snd kv) cid Hh) as Hh1.
  destruct (map_value c (snd kv)) as [c1 cv]. cbn [fst] in H1, Hh1. destruct Hh1 as (x & Hx & Hhx). rewrite Hx.
  apply IH.
  - apply nb_set_cent; [exact H1|]. cbn [ce_hist]. intros E. contradiction.
  - exists (mkCEnt (ce_alive x) (ce_pre x) (ce_marker x) (ce_hist x) (kinsert (fst kv) cv (ce_comps x))).
    split; [apply get_cent_set_cent_same|exact Hhx].
Qed.

Lemma nb_changes c T e comps r : nb c -> apply_changes c T e comps = Ok r -> nb (sr_client r).
Proof.
  intros H. unfold apply_changes. destruct (entry_entity c e) as [[c1 cid]|] eqn:E; [|intros E0; inversion E0; exact H].
  pose proof (nb_entry c e c1 cid H E) as H1. destruct (get_cent c1 cid) as [x|]; [|intros E0; inversion E0; exact H1].
  intros E0. apply bind_ok in E0. destruct E0 as [x1 [Ec E0]]. inversion E0; subst r. cbn [sr_client].
  assert (Hh1 : ce_hist x1 <> None).
  { unfold confirm_tick in Ec. destruct (ce_hist (with_marker x)) as [h|].
    - apply bind_ok in Ec. destruct Ec as [h' [_ Ec]]. inversion Ec; subst x1. discriminate.
    - inversion Ec; subst x1. discriminate. }
  apply nb_write_comps.
  - apply nb_set_cent; [exact H1|]. intros Hh. contradiction.
  - exists x1. split; [apply get_cent_set_cent_same|exact Hh1].
Qed.

Lemma nb_mutations c T e comps r : nb c -> apply_mutations c T e comps = Ok r -> nb (sr_client r).
Proof.
  intros H. unfold apply_mutations. destruct (al_get e (cl_s2c c)) as [cid|]; [|intros E0; inversion E0; exact H].
  destruct (get_cent c cid) as [x|]; [|intros E0; inversion E0; exact H]. destruct (ce_alive x); cbn [negb]; [|intros E0; inversion E0; exact H].
  destruct (ce_hist x) as [h|]; [|intros E0; inversion E0; exact H]. destruct (tick_gtb T (h_last h)); [|intros E0; inversion E0; exact H].
  intros E0. apply bind_ok in E0. destruct E0 as [h' [_ E0]]. inversion E0; subst r. cbn [sr_client].
  apply nb_write_comps.
  - apply nb_set_cent; [exact H|]. cbn [ce_hist]. discriminate.
  - eexists. split; [apply get_cent_set_cent_same|]. cbn [ce_hist]. discriminate.
Qed.

Lemma nb_cop c op : nb c -> nb (apply_cop c op).
Proof.
  intros H. destruct op as [pc|pc]; cbn [apply_cop].
  - destruct (existsb _ (cl_ents c)); [exact H|]. apply nb_spawn. exact H.
  - destruct (find _ (cl_ents c)) as [[cid x]|]; [|exact H]. destruct (ce_alive x); [|exact H]. apply nb_set_cent; [exact H|reflexivity].
Qed.

Theorem nb_update_message c u c' : nb c -> apply_update_message c u = Ok c' -> nb c'.
Proof.
  intros H E. refine (update_message_rel nbR nbR_refl nbR_trans _ _ _ _ _ c u c' E H).
  - intros c0 t. unfold nbR. apply nb_ext. reflexivity.
  - intros c0 s pc. unfold nbR. apply nb_mapping.
  - intros c0 s. unfold nbR. apply nb_despawn.
  - intros c0 tick s kinds r E0 H0. exact (nb_removals c0 tick s kinds r H0 E0).
  - intros c0 tick s comps r E0 H0. exact (nb_changes c0 tick s comps r H0 E0).
Qed.

Theorem nb_frame c ops c' out : nb c -> client_frame c ops = Ok (c', out) -> nb c'.
Proof.
  intros H E. refine (frame_rel nbR nbR_refl nbR_trans _ _ _ _ c ops c' out E H).
  - intros c0. unfold nbR. apply nb_ext. reflexivity.
  - apply (replication_rel nbR nbR_refl nbR_trans).
    + intros c0 u c1 E0 H0. exact (nb_update_message c0 u c1 H0 E0).
    + intros c0 b m. unfold nbR. apply nb_ext. reflexivity.
    + intros c0. unfold nbR. apply nb_ext. reflexivity.
    + apply (mutate_messages_rel nbR nbR_refl nbR_trans).
      * intros c0 tick s comps r E0 H0. exact (nb_mutations c0 tick s comps r H0 E0).
      * intros c0 b m. unfold nbR. apply nb_ext. reflexivity.
  - intros c0 op. unfold nbR. apply nb_cop.
  - intros c0. unfold nbR. apply nb_ext. reflexivity.
Qed.

(* ... along every run *)
Definition nb_sys (y : sys) : Prop := forall slot c, al_get slot (y_clients y) = Some c -> nb c.

Lemma nb_deliver_updates p : forall c, nb c -> nb (fold_left deliver_update p c).
Proof.
  induction p as [|u t IH]; intros c H; cbn [fold_left]; [exact H|]. apply IH. unfold deliver_update. destruct (cl_status c); [|exact H].
  revert H. apply nb_ext. reflexivity.
Qed.
Lemma nb_deliver_mutates p : forall c, nb c -> nb (fold_left deliver_mutate p c).
Proof.
  induction p as [|u t IH]; intros c H; cbn [fold_left]; [exact H|]. apply IH. unfold deliver_mutate. destruct (cl_status c); [|exact H].
  revert H. apply nb_ext. reflexivity.
Qed.

Lemma nb_sys_insert (y : sys) slot c' (cls : list (N * client)) :
  (forall sl c, al_get sl cls = Some c -> nb c) -> nb c' -> forall sl c, al_get sl (al_insert slot c' cls) = Some c -> nb c.
Proof.
  intros H Hc' sl c. destruct (N.eq_dec sl slot) as [->|Hne]; [rewrite al_get_insert_same; intros E; inversion E; subst; exact Hc'|].
  rewrite al_get_insert_other by exact Hne. apply H.
Qed.

Lemma nb_step y st y' o : nb_sys y -> sys_step y st = Ok (y', o) -> nb_sys y'.
Proof.
  intros H E. destruct st as [| |slot max|slot|slot|tick dt cleanup ops parts|slot ops|slot s2c ch w|slot s2c ch w]; cbn [sys_step] in E.
  - inversion E; subst. exact H.
  - inversion E; subst. exact H.
  - destruct (find_client (y_server y) slot); [inversion E; subst; exact H|].
    destruct (al_get slot (y_clients y)) as [cl|] eqn:Ec; [|inversion E; subst; exact H].
    destruct (sv_running (y_server y)); inversion E; subst; [|exact H].
    intros sl c. cbn [set_client set_server y_clients]. apply (nb_sys_insert y); [exact H|].
    apply (nb_ext cl); [unfold set_status; reflexivity|exact (H slot cl Ec)].
  - inversion E; subst. exact H.
  - destruct (al_get slot (y_clients y)) as [cl|] eqn:Ec; inversion E; subst; [|exact H].
    intros sl c. cbn [clear_link set_link set_client set_server y_clients]. apply (nb_sys_insert y); [exact H|].
    apply (nb_ext cl); [unfold set_status; reflexivity|exact (H slot cl Ec)].
  - destruct (server_frame (y_cfg y) (y_server y) tick dt cleanup ops parts) as [[s' fo]| |]; cbn [bind] in E; try discriminate.
    inversion E; subst. destruct (enqueue_fields (fo_clients fo) (set_server y s')) as (_ & _ & Q3). intros sl c. rewrite Q3. apply H.
  - destruct (al_get slot (y_clients y)) as [cl|] eqn:Ec; [|inversion E; subst; exact H].
    destruct (client_frame cl ops) as [[cl' cfo]| |] eqn:Ef; cbn [bind] in E; try discriminate.
    pose proof (nb_frame cl ops cl' cfo (H slot cl Ec) Ef) as Hcl'.
    assert (G : forall y2, y_clients y2 = al_insert slot cl' (y_clients y) -> nb_sys y2).
    { intros y2 E2 sl c. rewrite E2. apply (nb_sys_insert y); [exact H|exact Hcl']. }
    inversion E; subst. apply G. cbn [set_server y_clients]. destruct (cfo_acks cfo); [reflexivity|]. destruct (cl_status cl'); reflexivity.
  - destruct (al_get slot (y_clients y)) as [cl|] eqn:Ec; [|inversion E; subst; exact H].
    destruct s2c.
    + destruct (ch =? 0).
      * destruct (take w (l_upd (get_link y slot))) as [picked rest]. inversion E; subst.
        intros sl c. cbn [set_client set_link y_clients]. apply (nb_sys_insert y); [exact H|]. apply nb_deliver_updates. exact (H slot cl Ec).
      * destruct (ch =? 1); [|inversion E; subst; exact H].
        destruct (take w (l_mut (get_link y slot))) as [picked rest]. inversion E; subst.
        intros sl c. cbn [set_client set_link y_clients]. apply (nb_sys_insert y); [exact H|]. apply nb_deliver_mutates. exact (H slot cl Ec).
    + destruct (ch =? 0); [|inversion E; subst; exact H].
      destruct (take w (l_ack (get_link y slot))) as [picked rest]. inversion E; subst. exact H.
  - destruct (al_get slot (y_clients y)) as [cl|] eqn:Ec; [|inversion E; subst; exact H].
    destruct s2c.
    + destruct (ch =? 0).
      * destruct (take w (l_upd (get_link y slot))) as [picked rest]. inversion E; subst.
        intros sl c. cbn [set_client set_link y_clients]. apply (nb_sys_insert y); [exact H|]. exact (H slot cl Ec).
      * destruct (ch =? 1); [|inversion E; subst; exact H].
        destruct (take w (l_mut (get_link y slot))) as [picked rest]. inversion E; subst.
        intros sl c. cbn [set_client set_link y_clients]. apply (nb_sys_insert y); [exact H|]. exact (H slot cl Ec).
    + destruct (ch =? 0); [|inversion E; subst; exact H].
      destruct (take w (l_ack (get_link y slot))) as [picked rest]. inversion E; subst. exact H.
Qed.

Theorem nb_run script : forall y y', nb_sys y -> run y script = Ok y' -> nb_sys y'.
Proof.
  induction script as [|st t IH]; intros y y' H E; cbn [run] in E; [inversion E; subst; exact H|].
  destruct (sys_step y st) as [[y1 o]| |] eqn:Es; cbn [bind] in E; try discriminate.
  exact (IH y1 y' (nb_step y st y1 o H Es) E).
Qed.

Lemma nb_init cfg0 nclients : nb_sys (sys_init cfg0 nclients).
Proof.
  intros slot c Hc. cbn [sys_init y_clients] in Hc.
  assert (G : forall l, al_get slot (map (fun i : N => (i, client_init (cfg_track cfg0))) l) = Some c -> c = client_init (cfg_track cfg0)).
  { induction l as [|a t IH]; cbn [map al_get]; [discriminate|]. destruct (a =? slot); [intros E; inversion E; reflexivity|exact IH]. }
  rewrite (G _ Hc). intros cid x [].
Qed.

(* ================================================================== *)
(* 5. the invariants of the normal form                               *)
(* ================================================================== *)

Lemma cs_inv_ncl c : cs_inv c -> nb c -> cs_inv (ncl c).
Proof.
  intros [H1 H2 H3 H4] Hnb. constructor.
  - exact H1.
  - destruct H2 as [N1 N2]. split.
    + unfold ents_nodup. cbn [ncl cl_ents]. rewrite nents_keys. exact N1.
    + intros cid Hle. rewrite get_cent_ncl. cbn [ncl cl_next] in Hle. rewrite (N2 cid Hle). reflexivity.
  - intros s cid Hs. cbn [ncl cl_s2c] in Hs. destruct (H3 s cid Hs) as [x [Hx Ha]]. exists (nent x).
    rewrite get_cent_ncl, Hx. split; [reflexivity|exact Ha].
  - intros cid y Hy Hm. rewrite get_cent_ncl in Hy. destruct (get_cent c cid) as [x|] eqn:Hx; [|discriminate].
    cbn [option_map] in Hy. inversion Hy; subst y. cbn [nent ce_marker ce_comps ce_hist] in *.
    destruct (ce_marker x) eqn:Em; [|exact (H4 cid x Hx Em)].
    cbn [andb] in Hm. destruct (ce_hist x) as [h|] eqn:Eh; [discriminate|]. split; [exact (nb_get c cid x Hnb Hx Eh)|reflexivity].
Qed.

Lemma pu_ncl c : cs_inv c -> pu (ncl c).
Proof.
  intros Hcs. split.
  - intros cid y Hy Hp. exfalso. rewrite get_cent_ncl in Hy. destruct (get_cent c cid) as [x|]; [|discriminate].
    inversion Hy; subst y. apply Hp. reflexivity.
  - intros cid Hle. rewrite get_cent_ncl. cbn [ncl cl_next] in Hle. rewrite (proj2 (ci_ewf c Hcs) cid Hle). reflexivity.
Qed.

Lemma centof_ncl c e : centof (ncl c) e = option_map nent (centof c e).
Proof. unfold centof. cbn [ncl cl_s2c]. fold (ncl c). destruct (al_get e (cl_s2c c)) as [cid|]; [apply get_cent_ncl|reflexivity]. Qed.

Lemma has_ncl c e x h : has c e x h -> has (ncl c) e (nent x) h.
Proof.
  intros (A & B & C & D). split; [rewrite centof_ncl, A; reflexivity|]. cbn [nent ce_alive ce_marker ce_hist]. rewrite C, D. auto.
Qed.

Lemma has_ncl_inv c e y h : has (ncl c) e y h -> exists x, y = nent x /\ has c e x h.
Proof.
  intros (A & B & C & D). rewrite centof_ncl in A. destruct (centof c e) as [x|] eqn:Ex; [|discriminate].
  inversion A; subst y. exists x. split; [reflexivity|]. cbn [nent ce_alive ce_marker ce_hist] in B, C, D.
  split; [exact Ex|]. split; [exact B|]. split; [|exact D]. destruct (ce_marker x); [reflexivity|discriminate].
Qed.

(* what a client holds for component [k] of server entity [e] *)
Lemma cview_ncl c e k : nb c -> cview (ncl c) e k = cview c e k.
Proof.
  intros Hnb. unfold cview. rewrite centof_ncl. destruct (centof c e) as [x|] eqn:Ex; [|reflexivity]. cbn [option_map nent ce_alive ce_marker ce_comps].
  destruct (ce_alive x); [|reflexivity]. destruct (ce_marker x); [|reflexivity]. cbn [andb].
  destruct (ce_hist x) as [h|] eqn:Eh; [reflexivity|]. cbn [is_some orb].
  destruct (centof_some_mapped c e x Ex) as [cid [_ Hx]]. rewrite (nb_get c cid x Hnb Hx Eh).
  destruct (negb (is_some (ce_pre x))); reflexivity.
Qed.

Lemma cs_get_ncl c e : marked_hist c -> cs_get (ncl c) e = cs_get c e.
Proof.
  intros Hmh. unfold cs_get. cbn [ncl cl_s2c]. fold (ncl c). destruct (al_get e (cl_s2c c)) as [cid|] eqn:Es; [|reflexivity].
  rewrite get_cent_ncl. destruct (get_cent c cid) as [x|] eqn:Hx; [|reflexivity]. cbn [option_map nent ce_alive ce_marker ce_comps].
  destruct (ce_marker x) eqn:Em; [|reflexivity]. pose proof (Hmh e cid x Es Hx Em) as Hh.
  destruct (ce_hist x); [reflexivity|contradiction].
Qed.

Lemma client_struct_ncl c : cs_inv c -> marked_hist c -> struct_equiv (client_struct (ncl c)) (client_struct c).
Proof.
  intros Hcs Hmh e. rewrite (al_get_client_struct (ncl c) e (cs_inv_nodup c Hcs)), (al_get_client_struct c e (cs_inv_nodup c Hcs)).
  rewrite (cs_get_ncl c e Hmh). apply opt_equiv_refl.
Qed.

(* ... and back: the invariant of the normal form is the invariant of the client *)
Lemma cs_inv_of_ncl c : cs_inv (ncl c) -> cs_inv c.
Proof.
  intros [H1 H2 H3 H4]. constructor.
  - exact H1.
  - destruct H2 as [N1 N2]. split.
    + unfold ents_nodup in *. cbn [ncl cl_ents] in N1. rewrite nents_keys in N1. exact N1.
    + intros cid Hle. specialize (N2 cid Hle). rewrite get_cent_ncl in N2. destruct (get_cent c cid); [discriminate|reflexivity].
  - intros s cid Hs. destruct (H3 s cid Hs) as [y [Hy Ha]]. rewrite get_cent_ncl in Hy.
    destruct (get_cent c cid) as [x|]; [|discriminate]. inversion Hy; subst y. exists x. split; [reflexivity|exact Ha].
  - intros cid x Hx Hm. assert (Hy : get_cent (ncl c) cid = Some (nent x)) by (rewrite get_cent_ncl, Hx; reflexivity).
    assert (Hmn : ce_marker (nent x) = false) by (cbn [nent ce_marker]; rewrite Hm; reflexivity).
    exact (H4 cid (nent x) Hy Hmn).
Qed.

(* client operations *)
Lemma cops_keep_s2c ops : forall c, cl_s2c (fold_left apply_cop ops c) = cl_s2c c.
Proof.
  induction ops as [|op t IH]; intros c; cbn [fold_left]; [reflexivity|]. rewrite IH. destruct op as [pc|pc]; cbn [apply_cop].
  - destruct (existsb _ (cl_ents c)); reflexivity.
  - destruct (find _ (cl_ents c)) as [[cid0 x0]|]; [|reflexivity]. destruct (ce_alive x0); reflexivity.
Qed.

Lemma nb_cops ops : forall c, nb c -> nb (fold_left apply_cop ops c).
Proof. induction ops as [|op t IH]; intros c H; cbn [fold_left]; [exact H|]. apply IH. apply nb_cop. exact H. Qed.

Lemma status_update_message c u c' : apply_update_message c u = Ok c' -> cl_status c' = cl_status c.
Proof.
  intros H. refine (update_message_rel (fun a b => cl_status b = cl_status a) _ _ _ _ _ _ _ c u c' H).
  - reflexivity.
  - intros; congruence.
  - reflexivity.
  - intros c0 s pc. exact (proj1 (same_meta_mapping c0 s pc)).
  - intros c0 s. exact (proj1 (same_meta_despawn c0 s)).
  - intros c0 tick s kinds r E. exact (proj1 (same_meta_removals c0 tick s kinds r E)).
  - intros c0 tick s comps r E. exact (proj1 (same_meta_changes c0 tick s comps r E)).
Qed.
