(* C03, client half: update messages that carry pre-spawn mappings.  A mapping whose server entity
   is unknown to the client and occurs in the changes array of the same message (the way the
   server uses `ClientEntityMap`) keeps the client step theorem: the pre-spawned entity becomes
   the (still empty) replica, and the change entry then fills it exactly as `abs_apply` says.
   Definitions: Repl/ClientStructSpec.v ([map_step_ok], [maps_ok]). *)
From RV Require Import Lib.Res Repl.ClientTicks Repl.ClientTicks_proofs Repl.World Repl.Client
  Vis.Visibility Tick.RepliconTick Tick.RepliconTick_proofs Tick.ConfirmHistory Tick.MutateTicks
  Repl.Server Repl.ServerSpec Repl.Server_proofs Repl.StructSpec Repl.Struct_proofs
  Repl.Sys Repl.Client_proofs Repl.ClientEnt_proofs Repl.ClientMut_proofs Repl.ClientSys_proofs
  Repl.ClientStructSpec Repl.ClientStruct_proofs.
From Coq Require Import ZifyBool ZifyN.
Open Scope N_scope.
Ltac Zify.zify_post_hook ::= Z.div_mod_to_equations.
Arguments N.add : simpl never. Arguments N.mul : simpl never. Arguments N.pow : simpl never.
Arguments N.ltb : simpl never. Arguments N.leb : simpl never. Arguments N.div : simpl never.
Arguments N.modulo : simpl never. Arguments N.sub : simpl never. Arguments N.eqb : simpl never.

(* ================================================================== *)
(* 1. one mapping                                                     *)
(* ================================================================== *)

Lemma map_step c e pc : cs_inv c -> map_step_ok c e pc ->
  let c1 := apply_entity_mapping c e pc in
  cs_inv c1 /\ (forall e', e' <> e -> cs_get c1 e' = cs_get c e') /\
  cs_get c e = None /\ (cs_get c1 e = None \/ cs_get c1 e = Some []).
Proof.
  intros Hinv [Hun Htgt] c1. assert (Hn : cs_get c e = None) by exact (cs_get_unmapped c e Hun).
  destruct (mapping_cases c e pc) as [[E _]|(cid & x & Hin & Hp & Ha & Hf & E)]; unfold c1; rewrite E.
  - split; [exact Hinv|]. split; [auto|]. split; [exact Hn|left; exact Hn].
  - destruct (Htgt cid x Hf Ha) as [Hm Hc2s]. pose proof Hinv as [H1 H2 H3 H4].
    pose proof (al_get_in_nodup _ _ _ (proj1 H2) Hin) as Hx. change (get_cent c cid = Some x) in Hx.
    destruct (H4 cid x Hx Hm) as [Hcomps Hhist].
    pose proof (proj1 (unmapped_iff c cid H1) Hc2s) as Hno.
    set (x' := mkCEnt true (ce_pre x) true (ce_hist x) (ce_comps x)).
    assert (Hs2c : cl_s2c (emap_insert (set_cent c cid x') e cid) = al_insert e cid (cl_s2c c)) by reflexivity.
    assert (Hget : forall cid', get_cent (emap_insert (set_cent c cid x') e cid) cid' = get_cent (set_cent c cid x') cid') by reflexivity.
    split; [|split; [|split; [exact Hn|right]]].
    + constructor.
      * apply emap_wf_insert; [apply emap_wf_set_cent; exact H1|cbn; exact (ents_fresh_lt c cid x (proj2 H2) Hx)|].
        intros s0 Hs0. cbn in Hs0. congruence.
      * unfold emap_insert. eapply ewf_ext; [| |eapply ewf_set_cent; [exact H2|exact Hx]]; reflexivity.
      * intros s cid0 Hs. rewrite Hs2c in Hs. rewrite Hget. destruct (N.eq_dec s e) as [->|Hne].
        -- rewrite al_get_insert_same in Hs. inversion Hs; subst cid0. exists x'. split; [apply get_cent_set_cent_same|reflexivity].
        -- rewrite al_get_insert_other in Hs by exact Hne. rewrite get_cent_set_cent_other; [exact (H3 s cid0 Hs)|].
           intros ->. exact (Hno s Hs).
      * intros cid0 x0. rewrite Hget. destruct (N.eq_dec cid0 cid) as [->|Hne].
        -- rewrite get_cent_set_cent_same. intros E0; inversion E0; subst x0. cbn. discriminate.
        -- rewrite get_cent_set_cent_other by exact Hne. apply H4.
    + intros e' Hne. unfold cs_get. rewrite Hs2c, al_get_insert_other by exact Hne.
      destruct (al_get e' (cl_s2c c)) as [cid'|] eqn:E'; [|reflexivity]. rewrite Hget.
      rewrite get_cent_set_cent_other; [reflexivity|]. intros ->. exact (Hno e' E').
    + unfold cs_get. rewrite Hs2c, al_get_insert_same, Hget, get_cent_set_cent_same. cbn. rewrite Hcomps. reflexivity.
Qed.

Lemma maps_fold maps : forall c, cs_inv c -> maps_ok c maps ->
  let c1 := fold_left (fun c m => apply_entity_mapping c (fst m) (snd m)) maps c in
  cs_inv c1 /\
  forall e, cs_get c1 e = cs_get c e \/ (In e (map fst maps) /\ cs_get c e = None /\ cs_get c1 e = Some []).
Proof.
  induction maps as [|[e pc] t IH]; intros c Hinv Hok; cbn [fold_left fst snd].
  - cbv zeta. auto.
  - destruct Hok as [Hstep Hok]. destruct (map_step c e pc Hinv Hstep) as (I1 & O1 & N1 & S1). cbv zeta in I1, O1, S1.
    destruct (IH _ I1 Hok) as [I2 G2]. cbv zeta in I2, G2. cbv zeta. split; [exact I2|].
    intros e'. destruct (G2 e') as [G|(Gin & Gn & Gs)].
    + destruct (N.eq_dec e' e) as [->|Hne].
      * destruct S1 as [S1|S1]; [left; congruence|]. right. split; [left; reflexivity|]. split; [exact N1|congruence].
      * left. rewrite G. exact (O1 e' Hne).
    + right. split; [right; exact Gin|]. split; [|exact Gs]. destruct (N.eq_dec e' e) as [->|Hne]; [exact N1|].
      rewrite <- (O1 e' Hne). exact Gn.
Qed.

(* ================================================================== *)
(* 2. structures that agree up to freshly mapped, still empty entities *)
(* ================================================================== *)

Definition pt_left (e : N) (S' S : structure) : Prop := opt_equiv (al_get e S') (al_get e S).
Definition pt_right (e : N) (S' S : structure) : Prop :=
  al_get e S = None /\ exists ks, al_get e S' = Some ks /\ kinds_equiv ks [].

Lemma pt_kinds e S' S : pt_left e S' S \/ pt_right e S' S -> kinds_equiv (kinds_of S' e) (kinds_of S e).
Proof.
  unfold pt_left, pt_right, kinds_of. intros [H|[H1 [ks [H2 H3]]]].
  - destruct (al_get e S'), (al_get e S); cbn in H; try contradiction; [exact H|apply kinds_equiv_refl].
  - rewrite H1, H2. exact H3.
Qed.

Lemma pt_despawn e d S' S : pt_left e S' S \/ pt_right e S' S ->
  (pt_left e S' S -> pt_left e (abs_despawn S' d) (abs_despawn S d)) /\
  (pt_left e (abs_despawn S' d) (abs_despawn S d) \/ pt_right e (abs_despawn S' d) (abs_despawn S d)).
Proof.
  unfold pt_left, pt_right, abs_despawn. rewrite !al_get_remove. intros H. destruct (e =? d).
  - split; [intros _; exact I|left; exact I].
  - split; [auto|exact H].
Qed.

Lemma pt_removal e r S' S : pt_left e S' S \/ pt_right e S' S ->
  (pt_left e S' S -> pt_left e (abs_removal S' r) (abs_removal S r)) /\
  (pt_left e (abs_removal S' r) (abs_removal S r) \/ pt_right e (abs_removal S' r) (abs_removal S r)) /\
  (e = fst r -> pt_left e (abs_removal S' r) (abs_removal S r)).
Proof.
  intros H. pose proof (pt_kinds _ _ _ H) as Hk. unfold pt_left, pt_right in *. unfold abs_removal. rewrite !al_get_insert.
  destruct (e =? fst r) eqn:E.
  - assert (e = fst r) by lia. subst e.
    assert (G : opt_equiv (Some (kinds_remove (snd r) (kinds_of S' (fst r)))) (Some (kinds_remove (snd r) (kinds_of S (fst r))))).
    { intros k. rewrite !mem_N_kinds_remove, (Hk k). reflexivity. }
    split; [intros _; exact G|]. split; [left; exact G|intros _; exact G].
  - split; [auto|]. split; [exact H|]. intros ->. lia.
Qed.

Lemma pt_change e ch S' S : pt_left e S' S \/ pt_right e S' S ->
  (pt_left e S' S -> pt_left e (abs_change S' ch) (abs_change S ch)) /\
  (pt_left e (abs_change S' ch) (abs_change S ch) \/ pt_right e (abs_change S' ch) (abs_change S ch)) /\
  (e = fst ch -> pt_left e (abs_change S' ch) (abs_change S ch)).
Proof.
  intros H. pose proof (pt_kinds _ _ _ H) as Hk. unfold pt_left, pt_right in *. unfold abs_change. rewrite !al_get_insert.
  destruct (e =? fst ch) eqn:E.
  - assert (e = fst ch) by lia. subst e.
    assert (G : opt_equiv (Some (kinds_of S' (fst ch) ++ map fst (snd ch))) (Some (kinds_of S (fst ch) ++ map fst (snd ch)))).
    { intros k. rewrite !mem_N_app, (Hk k). reflexivity. }
    split; [intros _; exact G|]. split; [left; exact G|intros _; exact G].
  - split; [auto|]. split; [exact H|]. intros ->. lia.
Qed.

Lemma pt_despawns e ds : forall S1' S1, pt_left e S1' S1 \/ pt_right e S1' S1 ->
  (pt_left e S1' S1 -> pt_left e (fold_left abs_despawn ds S1') (fold_left abs_despawn ds S1)) /\
  (pt_left e (fold_left abs_despawn ds S1') (fold_left abs_despawn ds S1) \/
   pt_right e (fold_left abs_despawn ds S1') (fold_left abs_despawn ds S1)).
Proof.
  induction ds as [|d t IH]; intros S1' S1 H; cbn [fold_left]; [auto|].
  destruct (pt_despawn e d S1' S1 H) as [A B]. destruct (IH _ _ B) as [A2 B2]. split; [intros HL; apply A2, A, HL|exact B2].
Qed.

Lemma pt_removals e rs : forall S1' S1, pt_left e S1' S1 \/ pt_right e S1' S1 ->
  (pt_left e S1' S1 -> pt_left e (fold_left abs_removal rs S1') (fold_left abs_removal rs S1)) /\
  (pt_left e (fold_left abs_removal rs S1') (fold_left abs_removal rs S1) \/
   pt_right e (fold_left abs_removal rs S1') (fold_left abs_removal rs S1)).
Proof.
  induction rs as [|r t IH]; intros S1' S1 H; cbn [fold_left]; [auto|].
  destruct (pt_removal e r S1' S1 H) as (A & B & _). destruct (IH _ _ B) as [A2 B2]. split; [intros HL; apply A2, A, HL|exact B2].
Qed.

Lemma pt_changes e cs : forall S1' S1, pt_left e S1' S1 \/ pt_right e S1' S1 ->
  (pt_left e S1' S1 \/ In e (map fst cs)) -> pt_left e (fold_left abs_change cs S1') (fold_left abs_change cs S1).
Proof.
  induction cs as [|ch t IH]; intros S1' S1 H Hf; cbn [fold_left].
  - destruct Hf as [Hf|[]]. exact Hf.
  - destruct (pt_change e ch S1' S1 H) as (A & B & C). apply (IH _ _ B). cbn [map In] in Hf.
    destruct Hf as [Hf|[Hf|Hf]]; [left; exact (A Hf)|left; apply C; symmetry; exact Hf|right; exact Hf].
Qed.

Lemma pt_apply e u S' S : pt_left e S' S \/ pt_right e S' S ->
  (pt_left e S' S \/ In e (map fst (u_changes u))) -> pt_left e (abs_apply S' u) (abs_apply S u).
Proof.
  intros H0 Hfin. unfold abs_apply.
  destruct (pt_despawns e (u_despawns u) S' S H0) as [D1 D2].
  destruct (pt_removals e (u_removals u) _ _ D2) as [R1 R2].
  apply (pt_changes e (u_changes u) _ _ R2). destruct Hfin as [HL|Hin]; [left; apply R1, D1, HL|right; exact Hin].
Qed.

(* ================================================================== *)
(* 3. THEOREM (client step, with pre-spawn mappings)                  *)
(* ================================================================== *)

(* [maps_pre c u] is the state the mappings of [u] are applied to: the despawn records of the message have been applied
   (before the repair of defect D30 the mappings came first and the premise was about `set_upd_tick c (u_tick u)`) *)
Theorem update_message_struct_maps c u c' :
  cs_inv c -> maps_ok (maps_pre c u) (u_maps u) ->
  (forall e, In e (map fst (u_maps u)) -> In e (map fst (u_changes u))) ->
  apply_update_message c u = Ok c' ->
  struct_equiv (client_struct c') (abs_apply (client_struct c) u) /\ cs_inv c' /\ cl_upd_tick c' = u_tick u.
Proof.
  intros Hinv Hok Hch H. pose proof (update_tick_follows_messages c u c' H) as Ht.
  unfold apply_update_message in H. cbv zeta in H. unfold maps_pre in Hok.
  set (c0 := set_upd_tick c (u_tick u)) in *.
  assert (Hinv0 : cs_inv c0) by (revert Hinv; apply cs_inv_ext; reflexivity).
  assert (Hrel0 : srel c0 (client_struct c)).
  { apply (srel_ext c c0); [reflexivity|reflexivity|]. exact (srel_self c (cs_inv_nodup c Hinv)). }
  destruct (despawns_struct (u_despawns u) c0 (client_struct c) Hinv0 Hrel0) as [Hinv1 Hrel1].
  set (c1 := fold_left apply_despawn (u_despawns u) c0) in *.
  destruct (maps_fold (u_maps u) c1 Hinv1 Hok) as [Hinv2 Hg2]. cbv zeta in Hinv2, Hg2.
  set (c2 := fold_left (fun c m => apply_entity_mapping c (fst m) (snd m)) (u_maps u) c1) in *.
  apply bind_ok in H. destruct H as [r3 [E3 H]].
  destruct (removals_struct _ _ _ _ _ Hinv2 (srel_self c2 (cs_inv_nodup c2 Hinv2)) E3) as (c3 & -> & Hinv3 & Hrel3).
  apply bind_ok in H. destruct H as [r4 [E4 H]].
  destruct (changes_struct _ _ _ _ _ Hinv3 Hrel3 E4) as (c4 & -> & Hinv4 & Hrel4).
  inversion H; subst c'. split; [|split; [exact Hinv4|exact Ht]].
  eapply struct_equiv_trans; [apply srel_struct_equiv; [exact (cs_inv_nodup c4 Hinv4)|exact Hrel4]|].
  intros e. unfold abs_apply. set (D := fold_left abs_despawn (u_despawns u) (client_struct c)) in *.
  change (pt_left e (fold_left abs_change (u_changes u) (fold_left abs_removal (u_removals u) (client_struct c2)))
                    (fold_left abs_change (u_changes u) (fold_left abs_removal (u_removals u) D))).
  assert (Hpt : pt_left e (client_struct c2) D \/ (In e (map fst (u_maps u)) /\ pt_right e (client_struct c2) D)).
  { unfold pt_left, pt_right. rewrite (al_get_client_struct c2 e (cs_inv_nodup c2 Hinv2)).
    pose proof (Hrel1 e) as H1.
    destruct (Hg2 e) as [G|(Gin & Gn & Gs)]; [left; rewrite G; exact H1|].
    right. split; [exact Gin|]. rewrite Gn in H1. split; [destruct (al_get e D); [destruct H1|reflexivity]|].
    exists []. split; [exact Gs|apply kinds_equiv_refl]. }
  assert (H0 : pt_left e (client_struct c2) D \/ pt_right e (client_struct c2) D) by (destruct Hpt as [Hl|[_ Hr]]; auto).
  destruct (pt_removals e (u_removals u) _ _ H0) as [R1 R2].
  apply (pt_changes e (u_changes u) _ _ R2). destruct Hpt as [Hl|[Hin _]]; [left; exact (R1 Hl)|right; exact (Hch e Hin)].
Qed.

(* the usual case: one mapping *)
Corollary update_message_struct_one_map c u c' e pc :
  cs_inv c -> u_maps u = [(e, pc)] -> map_step_ok (maps_pre c u) e pc -> In e (map fst (u_changes u)) ->
  apply_update_message c u = Ok c' ->
  struct_equiv (client_struct c') (abs_apply (client_struct c) u) /\ cs_inv c' /\ cl_upd_tick c' = u_tick u.
Proof.
  intros Hinv Hm Hok Hin H. apply (update_message_struct_maps c u c' Hinv); [| |exact H].
  - rewrite Hm. cbn [maps_ok]. split; [exact Hok|exact I].
  - rewrite Hm. intros e0 [<-|[]]. exact Hin.
Qed.
