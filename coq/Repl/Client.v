(* Layer 1, client side: src/client.rs (`apply_replication`, `apply_update_message`,
   `buffer_mutate_message`, `apply_mutate_messages`, `apply_mutations`, `reset`),
   src/shared/server_entity_map.rs (both hash maps, `insert`, entries) and the default
   write / remove / despawn functions, on top of Tick.ConfirmHistory and Tick.MutateTicks.

   Client entities are numbered by the model in creation order; observations only speak
   about them through the entity map (view), so the numbering itself is not compared. *)
From RV Require Import Lib.Res Repl.ClientTicks Repl.World Tick.RepliconTick Tick.ConfirmHistory Tick.MutateTicks.
Open Scope N_scope.

Inductive cval := CNat (n : N) | CRef (cid : N).

Record cent := mkCEnt {
  ce_alive : bool;
  ce_pre : option N;                    (* pre-spawned by the client's own logic under this script id *)
  ce_marker : bool;                     (* `Replicated` *)
  ce_hist : option hist;                (* `ConfirmHistory` *)
  ce_comps : list (N * cval)
}.

Inductive cstatus := Disconnected | Connected.

Record client := mkCli {
  cl_status : cstatus;
  cl_last_connected : bool;             (* `Local` of client_just_connected *)
  cl_last_not_disconnected : bool;      (* `Local` of client_just_disconnected *)
  cl_upd_tick : N;                      (* ServerUpdateTick *)
  cl_s2c : list (N * N);                (* ServerEntityMap::server_to_client *)
  cl_c2s : list (N * N);                (* ServerEntityMap::client_to_server *)
  cl_ents : list (N * cent);
  cl_next : N;
  cl_buffered : list mutate_msg;        (* BufferedMutations, sorted by tick descending *)
  cl_mticks : option mt;                (* ServerMutateTicks when tracking *)
  cl_inbox_upd : list update_msg;
  cl_inbox_mut : list mutate_msg
}.

Definition client_init (track : bool) : client :=
  mkCli Disconnected false false 0 [] [] [] 0 [] (if track then Some mt_default else None) [] [].

Definition get_cent (c : client) (cid : N) : option cent := al_get cid (cl_ents c).
Definition alive (c : client) (cid : N) : bool :=
  match get_cent c cid with Some x => ce_alive x | None => false end.

Definition set_cent (c : client) (cid : N) (x : cent) : client :=
  mkCli (cl_status c) (cl_last_connected c) (cl_last_not_disconnected c) (cl_upd_tick c) (cl_s2c c) (cl_c2s c)
        (al_insert cid x (cl_ents c)) (cl_next c) (cl_buffered c) (cl_mticks c) (cl_inbox_upd c) (cl_inbox_mut c).
Definition set_maps (c : client) (s2c c2s : list (N * N)) : client :=
  mkCli (cl_status c) (cl_last_connected c) (cl_last_not_disconnected c) (cl_upd_tick c) s2c c2s
        (cl_ents c) (cl_next c) (cl_buffered c) (cl_mticks c) (cl_inbox_upd c) (cl_inbox_mut c).

(* world.spawn_empty() / entities.reserve_entity() followed by a flush *)
Definition spawn_cent (c : client) (pre : option N) (marker : bool) : client * N :=
  let cid := cl_next c in
  (mkCli (cl_status c) (cl_last_connected c) (cl_last_not_disconnected c) (cl_upd_tick c) (cl_s2c c) (cl_c2s c)
         (cl_ents c ++ [(cid, mkCEnt true pre marker None [])]) (cid + 1) (cl_buffered c) (cl_mticks c)
         (cl_inbox_upd c) (cl_inbox_mut c), cid).

(* ---------- ServerEntityMap ---------- *)

(* ServerEntityMap::insert *)
Definition emap_insert (c : client) (server_entity client_entity : N) : client :=
  let c2s1 := match al_get server_entity (cl_s2c c) with
              | Some existing => if existing =? client_entity then cl_c2s c else al_remove existing (cl_c2s c)
              | None => cl_c2s c
              end in
  set_maps c (al_insert server_entity client_entity (cl_s2c c)) (al_insert client_entity server_entity c2s1).

(* server_entry(e).remove() *)
Definition emap_remove_server (c : client) (server_entity : N) : client * option N :=
  match al_get server_entity (cl_s2c c) with
  | Some cid => (set_maps c (al_remove server_entity (cl_s2c c)) (al_remove cid (cl_c2s c)), Some cid)
  | None => (c, None)
  end.

(* VacantEntityEntry::insert *)
Definition emap_vacant_insert (c : client) (server_entity cid : N) : client :=
  set_maps c (al_insert server_entity cid (cl_s2c c)) (al_insert cid server_entity (cl_c2s c)).

(* ---------- confirm_tick ---------- *)

Definition confirm_tick (x : cent) (tick : N) : res cent :=
  match ce_hist x with
  | Some h => let* h' := hist_set_last_tick h tick in
              Ok (mkCEnt (ce_alive x) (ce_pre x) (ce_marker x) (Some h') (ce_comps x))
  | None => Ok (mkCEnt (ce_alive x) (ce_pre x) (ce_marker x) (Some (hist_new tick)) (ce_comps x))
  end.

(* ---------- apply_update_message ---------- *)

(* outcome of one array element: continue, or abort the rest of the message (`?`) *)
Inductive step_result := Continue (c : client) | Abort (c : client).

Definition apply_entity_mapping (c : client) (server_entity pc : N) : client :=
  (* the client entity of the mapping is the one pre-spawned under [pc] *)
  match find (fun kv => match ce_pre (snd kv) with Some p => p =? pc | None => false end) (cl_ents c) with
  | Some (cid, x) =>
    if ce_alive x then
      emap_insert (set_cent c cid (mkCEnt true (ce_pre x) true (ce_hist x) (ce_comps x))) server_entity cid
    else c
  | None => c
  end.

Definition apply_despawn (c : client) (server_entity : N) : client :=
  let '(c1, r) := emap_remove_server c server_entity in
  match r with
  | Some cid =>
    match get_cent c1 cid with
    | Some x => if ce_alive x then set_cent c1 cid (mkCEnt false (ce_pre x) false None []) else c1
    | None => c1
    end
  | None => c1
  end.

(* the entry lookup shared by apply_removals and apply_changes *)
Definition entry_entity (c : client) (server_entity : N) : option (client * N) :=
  match al_get server_entity (cl_s2c c) with
  | Some cid => if alive c cid then Some (c, cid) else None           (* get_entity_mut(..)? fails *)
  | None =>
    let '(c1, cid) := spawn_cent c None true in
    Some (emap_vacant_insert c1 server_entity cid, cid)
  end.

Definition with_marker (x : cent) : cent := mkCEnt (ce_alive x) (ce_pre x) true (ce_hist x) (ce_comps x).

Definition apply_removals (c : client) (tick : N) (server_entity : N) (kinds : list N) : res step_result :=
  match entry_entity c server_entity with
  | None => Ok (Abort c)
  | Some (c1, cid) =>
    match get_cent c1 cid with
    | None => Ok (Abort c1)
    | Some x =>
      let* x1 := confirm_tick (with_marker x) tick in
      let x2 := mkCEnt (ce_alive x1) (ce_pre x1) (ce_marker x1) (ce_hist x1)
                       (filter (fun kv => negb (mem_N (fst kv) kinds)) (ce_comps x1)) in
      Ok (Continue (set_cent c1 cid x2))
    end
  end.

(* WriteCtx::get_mapped: an unknown server entity gets a reserved client entity *)
Definition map_value (c : client) (v : val) : client * cval :=
  match v with
  | VNat n => (c, CNat n)
  | VRef t =>
    match al_get t (cl_s2c c) with
    | Some cid => (c, CRef cid)
    | None => let '(c1, cid) := spawn_cent c None false in (emap_vacant_insert c1 t cid, CRef cid)
    end
  end.

Definition write_comps (c : client) (cid : N) (comps : list (N * val)) : client :=
  fold_left (fun c kv =>
               let '(c1, cv) := map_value c (snd kv) in
               match get_cent c1 cid with
               | Some x => set_cent c1 cid (mkCEnt (ce_alive x) (ce_pre x) (ce_marker x) (ce_hist x) (kinsert (fst kv) cv (ce_comps x)))
               | None => c1
               end) comps c.

Definition apply_changes (c : client) (tick : N) (server_entity : N) (comps : list (N * val)) : res step_result :=
  match entry_entity c server_entity with
  | None => Ok (Abort c)
  | Some (c1, cid) =>
    match get_cent c1 cid with
    | None => Ok (Abort c1)
    | Some x =>
      let* x1 := confirm_tick (with_marker x) tick in
      Ok (Continue (write_comps (set_cent c1 cid x1) cid comps))
    end
  end.

Definition run_array {A : Type} (f : client -> A -> res step_result) (items : list A) (c : client) : res step_result :=
  fold_left (fun acc item =>
               let* r := acc in
               match r with
               | Continue c => f c item
               | Abort c => Ok (Abort c)
               end) items (Ok (Continue c)).

Definition set_upd_tick (c : client) (t : N) : client :=
  mkCli (cl_status c) (cl_last_connected c) (cl_last_not_disconnected c) t (cl_s2c c) (cl_c2s c)
        (cl_ents c) (cl_next c) (cl_buffered c) (cl_mticks c) (cl_inbox_upd c) (cl_inbox_mut c).

Definition apply_update_message (c : client) (u : update_msg) : res client :=
  let c0 := set_upd_tick c (u_tick u) in
  (* despawn records first: they are about what the client knew before; then the mappings of the message *)
  let c1 := fold_left apply_despawn (u_despawns u) c0 in
  let c2 := fold_left (fun c m => apply_entity_mapping c (fst m) (snd m)) (u_maps u) c1 in
  let* r3 := run_array (fun c r => apply_removals c (u_tick u) (fst r) (snd r)) (u_removals u) c2 in
  match r3 with
  | Abort c3 => Ok c3
  | Continue c3 =>
    let* r4 := run_array (fun c ch => apply_changes c (u_tick u) (fst ch) (snd ch)) (u_changes u) c3 in
    match r4 with Abort c4 => Ok c4 | Continue c4 => Ok c4 end
  end.

(* ---------- mutate messages ---------- *)

(* BufferedMutations::insert: partition_point(|other| new.tick < other.tick) *)
Fixpoint buffer_insert (m : mutate_msg) (l : list mutate_msg) : list mutate_msg :=
  match l with
  | [] => [m]
  | o :: t => if tick_ltb (m_tick m) (m_tick o) then o :: buffer_insert m t else m :: o :: t
  end.

Definition apply_mutations (c : client) (tick : N) (server_entity : N) (comps : list (N * val)) : res step_result :=
  match al_get server_entity (cl_s2c c) with
  | None => Ok (Continue c)                                       (* unknown entity: data skipped *)
  | Some cid =>
    match get_cent c cid with
    | None => Ok (Abort c)
    | Some x =>
      if negb (ce_alive x) then Ok (Abort c) else
      match ce_hist x with
      | None => Ok (Continue c)                                   (* no history: only reserved by a reference; the data is for an earlier incarnation and is skipped *)
      | Some h =>
        if tick_gtb tick (h_last h) then
          let* h' := hist_set_last_tick h tick in
          Ok (Continue (write_comps (set_cent c cid (mkCEnt true (ce_pre x) (ce_marker x) (Some h') (ce_comps x))) cid comps))
        else Ok (Continue c)                                      (* outdated, no history marker *)
      end
    end
  end.

Record client_frame_out := mkCFO {
  cfo_acks : list N;
  cfo_tick_events : list N
}.

Definition set_buffered (c : client) (b : list mutate_msg) (mtk : option mt) : client :=
  mkCli (cl_status c) (cl_last_connected c) (cl_last_not_disconnected c) (cl_upd_tick c) (cl_s2c c) (cl_c2s c)
        (cl_ents c) (cl_next c) b mtk (cl_inbox_upd c) (cl_inbox_mut c).

(* apply_mutate_messages: retain_mut over the buffer in order *)
Definition apply_mutate_messages (c : client) : res (client * client_frame_out) :=
  let upd := cl_upd_tick c in
  let* (c', kept, acks, evs) :=
    fold_left (fun acc m =>
      let* (c, kept, acks, evs) := acc in
      if tick_gtb (m_upd_tick m) upd then Ok (c, kept ++ [m], acks, evs)
      else
        let* r := run_array (fun c b => apply_mutations c (m_tick m) (fst b) (snd b)) (m_body m) c in
        let c1 := match r with Continue c1 => c1 | Abort c1 => c1 end in
        match cl_mticks c1 with
        | Some mtk =>
          let* (mtk', done) := mt_confirm mtk (m_tick m) (m_count m) in
          Ok (set_buffered c1 (cl_buffered c1) (Some mtk'), kept, acks ++ [m_idx m], if done then evs ++ [m_tick m] else evs)
        | None => Ok (c1, kept, acks ++ [m_idx m], evs)
        end) (cl_buffered c) (Ok (c, [], [], [])) in
  Ok (set_buffered c' kept (cl_mticks c'), mkCFO acks evs).

Definition clear_inboxes (c : client) : client :=
  mkCli (cl_status c) (cl_last_connected c) (cl_last_not_disconnected c) (cl_upd_tick c) (cl_s2c c) (cl_c2s c)
        (cl_ents c) (cl_next c) (cl_buffered c) (cl_mticks c) [] [].

Definition apply_replication (c : client) : res (client * client_frame_out) :=
  let* c1 := fold_left (fun acc u => let* c := acc in apply_update_message c u) (cl_inbox_upd c) (Ok c) in
  let c2 := set_buffered c1 (fold_left (fun b m => buffer_insert m b) (cl_inbox_mut c1) (cl_buffered c1)) (cl_mticks c1) in
  apply_mutate_messages (clear_inboxes c2).

(* `reset` on client_just_disconnected *)
Definition client_reset (c : client) : client :=
  mkCli (cl_status c) (cl_last_connected c) (cl_last_not_disconnected c) 0 [] []
        (cl_ents c) (cl_next c) [] (match cl_mticks c with Some m => Some (mt_clear m) | None => None end)
        (cl_inbox_upd c) (cl_inbox_mut c).

Inductive cop := CPrespawn (pc : N) | CDespawn (pc : N).

Definition apply_cop (c : client) (op : cop) : client :=
  match op with
  | CPrespawn pc =>
    if existsb (fun kv => match ce_pre (snd kv) with Some p => p =? pc | None => false end) (cl_ents c) then c
    else fst (spawn_cent c (Some pc) false)
  | CDespawn pc =>
    match find (fun kv => match ce_pre (snd kv) with Some p => p =? pc | None => false end) (cl_ents c) with
    | Some (cid, x) => if ce_alive x then set_cent c cid (mkCEnt false (ce_pre x) false None []) else c
    | None => c
    end
  end.

Definition set_locals (c : client) : client :=
  let connected := match cl_status c with Connected => true | Disconnected => false end in
  mkCli (cl_status c) connected connected (cl_upd_tick c) (cl_s2c c) (cl_c2s c)
        (cl_ents c) (cl_next c) (cl_buffered c) (cl_mticks c) (cl_inbox_upd c) (cl_inbox_mut c).

Definition client_frame (c : client) (ops : list cop) : res (client * client_frame_out) :=
  let connected := match cl_status c with Connected => true | Disconnected => false end in
  let just_disconnected := cl_last_not_disconnected c && negb connected in
  let c1 := if just_disconnected then client_reset c else c in
  let* (c2, out) := if connected then apply_replication c1 else Ok (c1, mkCFO [] []) in
  let c3 := fold_left apply_cop ops c2 in
  Ok (set_locals c3, out).

Definition set_status (c : client) (st : cstatus) : client :=
  let leaving := match cl_status c, st with Connected, Disconnected => true | _, _ => false end in
  mkCli st (cl_last_connected c) (cl_last_not_disconnected c) (cl_upd_tick c) (cl_s2c c) (cl_c2s c)
        (cl_ents c) (cl_next c) (cl_buffered c) (cl_mticks c)
        (if leaving then [] else cl_inbox_upd c) (if leaving then [] else cl_inbox_mut c).

Definition deliver_update (c : client) (u : update_msg) : client :=
  match cl_status c with
  | Connected => mkCli (cl_status c) (cl_last_connected c) (cl_last_not_disconnected c) (cl_upd_tick c) (cl_s2c c) (cl_c2s c)
                       (cl_ents c) (cl_next c) (cl_buffered c) (cl_mticks c) (cl_inbox_upd c ++ [u]) (cl_inbox_mut c)
  | Disconnected => c
  end.
Definition deliver_mutate (c : client) (m : mutate_msg) : client :=
  match cl_status c with
  | Connected => mkCli (cl_status c) (cl_last_connected c) (cl_last_not_disconnected c) (cl_upd_tick c) (cl_s2c c) (cl_c2s c)
                       (cl_ents c) (cl_next c) (cl_buffered c) (cl_mticks c) (cl_inbox_upd c) (cl_inbox_mut c ++ [m])
  | Disconnected => c
  end.
